(* NoPanic.v — executable model for property C07 ("the library never panics").
   Gallina functions are total, so every PARTIAL Go operation on the modelled paths is made
   explicit: an index expression s[i], a slice expression s[lo:hi], a method call on a nil
   interface, a type assertion on a cached value and res[i] = .. all yield the outcome
   [Panic] exactly when Go would panic.  Modelled code (read line by line):
     experimental/plugins/macro/macro.go     NewMacro, macro.compile, Expand, expandToken
     internal/actions/setvar.go              setvarFn.Init, Evaluate, evaluateTxCollection
     internal/seclang/rule_parser.go         cutQuotedString, parseActionOperator, parseActions,
                                             appendRuleAction, RuleParser.ParseOperator (up to operators.Get),
                                             RuleParser.ParseVariables (scanner; regexp.Compile is an oracle)
     internal/strings/strings.go             MaybeRemoveQuotes, UnescapeQuotedString
     internal/corazawaf/rulegroup.go         DeleteByMsg
     internal/corazawaf/transaction.go       WriteRequestBody / WriteResponseBody (the length computation
                                             and the slice expression b[:writingBytes], int64 arithmetic)
     internal/memoize + its call sites       typed lookups: key = tag prefix ++ text, value asserted to the
                                             call site's type
   Variants of the code BEFORE the repairs F01 F02 F03 F04 F06 are selected by a boolean
   ([fixed = false]) so that the _refuted lemmas talk about the same functions.
   No proofs here (NoPanicProofs.v).  All names carry the prefix np_. *)
From Coq Require Import String.
From Verif Require Import Base.
Open Scope Z_scope.

(* ------------------------------------------------------------------------------------ *)
(* outcomes and the partial Go operations                                               *)
(* ------------------------------------------------------------------------------------ *)
Inductive outcome (A : Type) : Type :=
  | Ok (a : A)
  | Err          (* the Go function returns a non-nil error *)
  | Panic.       (* the Go runtime panics *)
Arguments Ok {A} a.
Arguments Err {A}.
Arguments Panic {A}.

Definition np_bind {A B} (o : outcome A) (f : A -> outcome B) : outcome B :=
  match o with Ok a => f a | Err => Err | Panic => Panic end.
Notation "'do!' x <- o ; k" := (np_bind o (fun x => k)) (at level 200, x pattern, o at level 100, k at level 200).

Definition np_is_panic {A} (o : outcome A) : bool := match o with Panic => true | _ => false end.
Definition np_is_ok {A} (o : outcome A) : bool := match o with Ok _ => true | _ => false end.

Definition np_len (s : bytes) : Z := Z.of_nat (List.length s).

(* s[i] *)
Definition np_at (s : bytes) (i : Z) : outcome N :=
  if (0 <=? i) && (i <? np_len s) then Ok (nth (Z.to_nat i) s 0%N) else Panic.

(* s[lo:hi] *)
Definition np_slice (s : bytes) (lo hi : Z) : outcome bytes :=
  if (0 <=? lo) && (lo <=? hi) && (hi <=? np_len s)
  then Ok (firstn (Z.to_nat (hi - lo)) (skipn (Z.to_nat lo) s)) else Panic.

(* byte test against a character code written as a Z literal *)
Definition isb (c : N) (k : Z) : bool := Z.of_N c =? k.

(* ------------------------------------------------------------------------------------ *)
(* total Go string helpers (no partial operation inside)                                *)
(* ------------------------------------------------------------------------------------ *)
(* unicode.IsSpace restricted to ASCII (the harness never produces the UTF-8 encodings of
   U+0085, U+00A0, U+1680, U+2000.., U+3000) *)
Definition np_is_space (c : N) : bool :=
  isb c 9 || isb c 10 || isb c 11 || isb c 12 || isb c 13 || isb c 32.

Fixpoint np_trim_left_f (f : N -> bool) (s : bytes) : bytes :=
  match s with
  | c :: r => if f c then np_trim_left_f f r else s
  | [] => []
  end.
Fixpoint np_trim_right_f (f : N -> bool) (s : bytes) : bytes :=
  match s with
  | [] => []
  | c :: r => match np_trim_right_f f r with
              | [] => if f c then [] else [c]
              | r' => c :: r'
              end
  end.
Definition np_trim_space (s : bytes) : bytes := np_trim_right_f np_is_space (np_trim_left_f np_is_space s).
Definition np_is_sp (c : N) : bool := isb c 32.
(* strings.Trim(s, " "), strings.TrimLeft(s, " ") *)
Definition np_trim_sp (s : bytes) : bytes := np_trim_right_f np_is_sp (np_trim_left_f np_is_sp s).
Definition np_trim_left_sp (s : bytes) : bytes := np_trim_left_f np_is_sp s.

(* strings.Cut(s, sep) for a one-byte separator *)
Fixpoint np_cut (sep : Z) (s : bytes) : bytes * bytes * bool :=
  match s with
  | [] => ([], [], false)
  | c :: r => if isb c sep then ([], r, true)
              else let '(a, b, f) := np_cut sep r in (c :: a, b, f)
  end.

Definition np_upper (s : bytes) : bytes := map ascii_upper s.
Definition np_lower (s : bytes) : bytes := map ascii_lower s.


(* ------------------------------------------------------------------------------------ *)
(* variable names (internal/variables/variablesmap.gen.go, rulemapRev, in source order; the
   position in this list is the model's variable id, 0 = Unknown).  FactsC07.v (regenerated
   from the source on every run) proves this table equal to the extracted one.            *)
(* ------------------------------------------------------------------------------------ *)
Definition np_var_names : list string := [
  "UNKNOWN"; "RESPONSE_CONTENT_TYPE"; "UNIQUE_ID"; "ARGS_COMBINED_SIZE"; "FILES_COMBINED_SIZE";
  "FULL_REQUEST_LENGTH"; "INBOUND_DATA_ERROR"; "MATCHED_VAR"; "MATCHED_VAR_NAME"; "MULTIPART_DATA_AFTER";
  "OUTBOUND_DATA_ERROR"; "QUERY_STRING"; "REMOTE_ADDR"; "REMOTE_HOST"; "REMOTE_PORT"; "REQBODY_ERROR";
  "REQBODY_ERROR_MSG"; "REQBODY_PROCESSOR_ERROR"; "REQBODY_PROCESSOR_ERROR_MSG"; "REQBODY_PROCESSOR";
  "REQUEST_BASENAME"; "REQUEST_BODY"; "REQUEST_BODY_LENGTH"; "REQUEST_FILENAME"; "REQUEST_LINE";
  "REQUEST_METHOD"; "REQUEST_PROTOCOL"; "REQUEST_URI"; "REQUEST_URI_RAW"; "RESPONSE_BODY";
  "RESPONSE_CONTENT_LENGTH"; "RESPONSE_PROTOCOL"; "RESPONSE_STATUS"; "SERVER_ADDR"; "SERVER_NAME";
  "SERVER_PORT"; "HIGHEST_SEVERITY"; "STATUS_LINE"; "DURATION"; "RESPONSE_HEADERS_NAMES";
  "REQUEST_HEADERS_NAMES"; "ARGS"; "ARGS_GET"; "ARGS_POST"; "ARGS_PATH"; "FILES_SIZES"; "FILES_NAMES";
  "FILES_TMP_CONTENT"; "MULTIPART_FILENAME"; "MULTIPART_NAME"; "MATCHED_VARS_NAMES"; "MATCHED_VARS";
  "FILES"; "REQUEST_COOKIES"; "REQUEST_HEADERS"; "RESPONSE_HEADERS"; "RES_BODY_PROCESSOR"; "GEO";
  "REQUEST_COOKIES_NAMES"; "FILES_TMPNAMES"; "ARGS_NAMES"; "ARGS_GET_NAMES"; "ARGS_POST_NAMES"; "TX";
  "RULE"; "JSON"; "ENV"; "URLENCODED_ERROR"; "RESPONSE_ARGS"; "RESPONSE_XML"; "REQUEST_XML"; "XML";
  "MULTIPART_PART_HEADERS"; "RES_BODY_ERROR"; "RES_BODY_ERROR_MSG"; "RES_BODY_PROCESSOR_ERROR";
  "RES_BODY_PROCESSOR_ERROR_MSG"; "TIME"; "TIME_DAY"; "TIME_EPOCH"; "TIME_HOUR"; "TIME_MIN"; "TIME_MON";
  "TIME_SEC"; "TIME_WDAY"; "TIME_YEAR"; "AUTH_TYPE"; "FULL_REQUEST"; "MULTIPART_BOUNDARY_QUOTED";
  "MULTIPART_BOUNDARY_WHITESPACE"; "MULTIPART_CRLF_LF_LINES"; "MULTIPART_DATA_BEFORE";
  "MULTIPART_FILE_LIMIT_EXCEEDED"; "MULTIPART_HEADER_FOLDING"; "MULTIPART_INVALID_HEADER_FOLDING";
  "MULTIPART_INVALID_PART"; "MULTIPART_INVALID_QUOTING"; "MULTIPART_LF_LINE"; "MULTIPART_MISSING_SEMICOLON";
  "MULTIPART_STRICT_ERROR"; "MULTIPART_UNMATCHED_BOUNDARY"; "PATH_INFO"; "SESSIONID"; "USERID"; "IP"
]%string.

(* variables whose name can carry a key (RuleVariable.CanBeSelected) *)
Definition np_selectable_names : list string := [
  "RESPONSE_HEADERS_NAMES"; "REQUEST_HEADERS_NAMES"; "ARGS"; "ARGS_GET"; "ARGS_POST"; "ARGS_PATH";
  "FILES_SIZES"; "FILES_NAMES"; "FILES_TMP_CONTENT"; "MULTIPART_FILENAME"; "MULTIPART_NAME";
  "MATCHED_VARS_NAMES"; "MATCHED_VARS"; "FILES"; "REQUEST_COOKIES"; "REQUEST_HEADERS"; "RESPONSE_HEADERS";
  "GEO"; "REQUEST_COOKIES_NAMES"; "FILES_TMPNAMES"; "ARGS_NAMES"; "ARGS_GET_NAMES"; "ARGS_POST_NAMES";
  "TX"; "RULE"; "JSON"; "ENV"; "RESPONSE_ARGS"; "RESPONSE_XML"; "REQUEST_XML"; "XML"; "MULTIPART_PART_HEADERS"
]%string.

Fixpoint np_find_name (n : bytes) (l : list string) (i : N) : option N :=
  match l with
  | [] => None
  | x :: r => if bytes_eqb (str x) n then Some i else np_find_name n r (i + 1)%N
  end.

(* variables.Parse: rulemapRev[strings.ToUpper(v)] (ASCII names) *)
Definition np_var_parse (name : bytes) : option N := np_find_name (np_upper name) np_var_names 0%N.

Definition np_var_selectable (name : bytes) : bool :=
  match np_find_name (np_upper name) np_selectable_names 0%N with Some _ => true | None => false end.

Definition np_var_tx : N := 63%N.
Definition np_var_json : N := 65%N.

(* ------------------------------------------------------------------------------------ *)
(* (a) macro.go                                                                         *)
(* ------------------------------------------------------------------------------------ *)
Record np_token := { mt_text : bytes; mt_var : N; mt_key : bytes }.

Definition np_macro_char (c : N) : bool :=
  let z := Z.of_N c in
  (z =? 91) || (z =? 93) || (z =? 46) || (z =? 95) || (z =? 45)
  || ((48 <=? z) && (z <=? 57)) || ((65 <=? z) && (z <=? 90)) || ((97 <=? z) && (z <=? 122)).

(* if currentToken.Len() > 0 { tokens = append(tokens, text token) } *)
Definition np_flush (cur : bytes) (toks : list np_token) : list np_token :=
  match cur with
  | [] => toks
  | _ => toks ++ [{| mt_text := cur; mt_var := 0%N; mt_key := [] |}]
  end.

(* the body of `for i := 0; i < l; i++` of macro.compile; [fuel] bounds the iterations *)
Fixpoint np_macro_loop (fuel : nat) (inp : bytes) (i : Z) (ismac : bool) (cur : bytes)
         (toks : list np_token) : outcome (list np_token) :=
  match fuel with
  | O => Ok (np_flush cur toks)
  | S f =>
    let l := np_len inp in
    if i <? l then
      do! c <- np_at inp i;
      do! opens <- (if isb c 37 && (i + 1 <? l)
                    then (do! d <- np_at inp (i + 1); Ok (isb d 123))
                    else Ok false);
      if opens then np_macro_loop f inp (i + 2) true [] (np_flush cur toks)
      else if ismac then
        if isb c 125 then
          do! p <- np_at inp (i - 1);
          if isb p 46 then Err
          else
            let '(vn, key, _) := np_cut 46 cur in
            match np_var_parse vn with
            | None => Err
            | Some v =>
              np_macro_loop f inp (i + 1) false []
                (toks ++ [{| mt_text := cur; mt_var := v; mt_key := np_lower key |}])
            end
        else if negb (np_macro_char c) then Err
        else if i + 1 =? l then Err
        else np_macro_loop f inp (i + 1) true (cur ++ [c]) toks
      else np_macro_loop f inp (i + 1) false (cur ++ [c]) toks
    else Ok (np_flush cur toks)
  end.

(* macro.NewMacro *)
Definition np_new_macro (data : bytes) : outcome (list np_token) :=
  match data with
  | [] => Err
  | _ => np_macro_loop (S (List.length data)) data 0 false [] []
  end.

(* what tx.Collection(v) returns: nil interface, a Keyed collection, a Single or another one *)
Inductive np_coll :=
  | CKeyed (kv : list (bytes * list bytes))   (* key -> values, keys as stored (lower case) *)
  | CSingle (v : bytes)
  | COther (all : list bytes).

Definition np_tx := N -> option np_coll.

Fixpoint np_assoc (k : bytes) (kv : list (bytes * list bytes)) : list bytes :=
  match kv with
  | [] => []
  | (k', v) :: r => if bytes_eqb k k' then v else np_assoc k r
  end.

(* expandToken.  fixed = false is the code before 5665fe3: no `case nil:` arm, the default arm
   calls col.FindAll() on the nil interface. *)
Definition np_expand_token (fixed : bool) (tx : np_tx) (t : np_token) : outcome bytes :=
  if (mt_var t =? 0)%N then Ok (mt_text t)
  else match tx (mt_var t) with
       | None => if fixed then Ok (mt_text t) else Panic
       | Some (CKeyed kv) => match np_assoc (mt_key t) kv with x :: _ => Ok x | [] => Ok (mt_text t) end
       | Some (CSingle v) => Ok v
       | Some (COther all) => match all with x :: _ => Ok x | [] => Ok (mt_text t) end
       end.

Fixpoint np_expand (fixed : bool) (tx : np_tx) (toks : list np_token) : outcome bytes :=
  match toks with
  | [] => Ok []
  | t :: r => do! a <- np_expand_token fixed tx t; do! b <- np_expand fixed tx r; Ok (a ++ b)
  end.

(* ------------------------------------------------------------------------------------ *)
(* (c) setvar.go                                                                        *)
(* ------------------------------------------------------------------------------------ *)
(* a macro.Macro interface value: None = nil interface *)
Record np_setvar := { sv_key : option (list np_token); sv_value : option (list np_token); sv_remove : bool }.

Definition b_TX : bytes := str "TX"%string.

Definition np_setvar_init (data0 : bytes) : outcome np_setvar :=
  if np_len data0 =? 0 then Err else
  do! c0 <- np_at data0 0;
  do! rd <- (if isb c0 33 then (do! d <- np_slice data0 1 (np_len data0); Ok (true, d)) else Ok (false, data0));
  let '(isrem, data) := rd in
  let '(key, val, val_ok) := np_cut 61 data in
  let '(colkey, colval, col_ok) := np_cut 46 key in
  if negb (bytes_eqb (np_upper colkey) b_TX) then Err
  else match np_trim_space colval with
  | [] => Err
  | _ =>
    match np_var_parse colkey with
    | None => Err
    | Some _ =>
      do! k <- (if col_ok then (do! m <- np_new_macro colval; Ok (Some m)) else Ok None);
      do! v <- (if val_ok then (do! m <- np_new_macro val; Ok (Some m)) else Ok None);
      Ok {| sv_key := k; sv_value := v; sv_remove := isrem |}
    end
  end.

(* strconv.Atoi: optional sign, at least one digit, decimal digits only, int64 range *)
Definition np_is_digit (c : N) : bool := let z := Z.of_N c in (48 <=? z) && (z <=? 57).
Fixpoint np_digits (s : bytes) (acc : Z) : Z :=
  match s with [] => acc | c :: r => np_digits r (10 * acc + (Z.of_N c - 48)) end.
Definition np_max_int64 : Z := 9223372036854775807.
Definition np_min_int64 : Z := -9223372036854775808.
Definition np_atoi (s : bytes) : option Z :=
  let '(neg, d) := match s with
                   | c :: r => if isb c 45 then (true, r) else if isb c 43 then (false, r) else (false, s)
                   | [] => (false, [])
                   end in
  match d with
  | [] => None
  | _ => if forallb np_is_digit d
         then let v := np_digits d 0 in
              if neg then (if v <=? - np_min_int64 then Some (- v) else None)
              else (if v <=? np_max_int64 then Some v else None)
         else None
  end.

(* two's complement wrap-around of int64 arithmetic *)
Definition np_wrap64 (z : Z) : Z := (z + 9223372036854775808) mod 18446744073709551616 - 9223372036854775808.

(* strconv.Itoa *)
Definition np_itoa (z : Z) : bytes :=
  if z <? 0 then 45%N :: itoa (Z.to_N (- z)) else itoa (Z.to_N z).

(* effect of one setvar on the TX collection *)
Inductive np_sv_effect :=
  | SvNone
  | SvRemove (key : bytes)
  | SvSet (key val : bytes).

Definition b_tx_dot : bytes := str "tx."%string.

(* evaluateTxCollection; [tx] maps TX to a Keyed collection in every real transaction *)
Definition np_setvar_tx (sv_rm : bool) (tx : np_tx) (key value : bytes) : outcome np_sv_effect :=
  match tx np_var_tx with
  | Some (CKeyed kv) =>
    if sv_rm then Ok (SvRemove key) else
    let current := match np_assoc key kv with x :: _ => x | [] => [] end in
    if np_len value =? 0 then Ok (SvSet key [])
    else
      do! v0 <- np_at value 0;
      if isb v0 43 || isb v0 45 then
        do! rest <- np_slice value 1 (np_len value);
        let after_val (val : Z) :=
          match (match current with [] => Some 0 | _ => np_atoi current end) with
          | None => Ok SvNone
          | Some cur => if isb v0 43 then Ok (SvSet key (np_itoa (np_wrap64 (cur + val))))
                        else Ok (SvSet key (np_itoa (np_wrap64 (cur - val))))
          end in
        if 1 <? np_len value then
          match np_atoi rest with
          | None => if is_prefix b_tx_dot rest then Ok SvNone else Ok (SvSet key value)
          | Some val => after_val val
          end
        else after_val 0
      else Ok (SvSet key value)
  | _ => Ok SvNone   (* "collection in setvar is not a map" / nil: logged, no effect *)
  end.

(* Evaluate.  fixed = false is the code before e674a84: a.value.Expand(tx) unconditionally. *)
Definition np_setvar_eval (fixed : bool) (sv : np_setvar) (tx : np_tx) : outcome np_sv_effect :=
  do! key <- (match sv_key sv with None => Panic | Some m => np_expand true tx m end);
  do! value <- (match sv_value sv with
                | None => if fixed then Ok [] else Panic
                | Some m => np_expand true tx m
                end);
  np_setvar_tx (sv_remove sv) tx (np_lower key) value.

(* Init followed by Evaluate when the rule matches *)
Definition np_setvar_run (fixed : bool) (data : bytes) (tx : np_tx) : outcome np_sv_effect :=
  do! sv <- np_setvar_init data; np_setvar_eval fixed sv tx.

(* ------------------------------------------------------------------------------------ *)
(* (b) rule_parser.go scanners                                                          *)
(* ------------------------------------------------------------------------------------ *)
(* utils.MaybeRemoveQuotes *)
Definition np_maybe_remove_quotes (s : bytes) : outcome bytes :=
  let n := np_len s in
  if n <? 2 then Ok s else
  do! a <- np_at s 0;
  if isb a 34 then
    (do! z <- np_at s (n - 1); if negb (isb z 34) then Ok s else np_slice s 1 (n - 1))
  else if isb a 39 then
    (do! z <- np_at s (n - 1); if negb (isb z 39) then Ok s else np_slice s 1 (n - 1))
  else Ok s.

(* utils.UnescapeQuotedString: the loop `for i := 0; i < len(s); i++` with s[i], s[i+1] *)
Fixpoint np_unescape_loop (fuel : nat) (s : bytes) (i : Z) (acc : bytes) : outcome bytes :=
  match fuel with
  | O => Ok acc
  | S f =>
    if i <? np_len s then
      do! c <- np_at s i;
      do! esc <- (if isb c 92 && (i + 1 <? np_len s) then (do! d <- np_at s (i + 1); Ok (isb d 34)) else Ok false);
      if esc then np_unescape_loop f s (i + 2) (acc ++ [34%N])
      else np_unescape_loop f s (i + 1) (acc ++ [c])
    else Ok acc
  end.
Definition np_unescape (s : bytes) : outcome bytes :=
  if existsb (fun c => isb c 92) s then np_unescape_loop (S (List.length s)) s 0 [] else Ok s.

(* cutQuotedString: `for i := 1; i < len(s); i++` *)
Fixpoint np_cqs_loop (fuel : nat) (s : bytes) (i : Z) (esc : Z) : outcome (bytes * bytes) :=
  match fuel with
  | O => Err
  | S f =>
    if i <? np_len s then
      do! c <- np_at s i;
      if negb (isb c 34) then
        np_cqs_loop f s (i + 1) (if isb c 92 then esc + 1 else 0)
      else if esc mod 2 =? 1 then np_cqs_loop f s (i + 1) 0
      else (do! a <- np_slice s 0 (i + 1); do! b <- np_slice s (i + 1) (np_len s); Ok (a, b))
    else Err
  end.
Definition np_cut_quoted_string (s : bytes) : outcome (bytes * bytes) :=
  if np_len s =? 0 then Err else
  do! c <- np_at s 0;
  if negb (isb c 34) then Err else np_cqs_loop (S (List.length s)) s 1 0.

(* parseActionOperator: (vars, operator, actions) *)
Definition np_parse_action_operator (data0 : bytes) : outcome (bytes * bytes * bytes) :=
  let data := np_trim_sp data0 in
  let '(vars, rest0, ok) := np_cut 32 data in
  if negb ok then Err else
  let rest := np_trim_left_sp rest0 in
  if np_len rest =? 0 then Err else
  do! r0 <- np_at rest 0;
  if negb (isb r0 34) then Err else
  do! cq <- np_cut_quoted_string rest;
  let '(op0, rest1) := cq in
  do! op1 <- np_maybe_remove_quotes op0;
  do! op <- np_unescape op1;
  let rest2 := np_trim_left_sp rest1 in
  if np_len rest2 =? 0 then Ok (vars, op, [])
  else if np_len rest2 <? 2 then Err
  else
    do! a <- np_at rest2 0;
    if negb (isb a 34) then Err else
    do! z <- np_at rest2 (np_len rest2 - 1);
    if negb (isb z 34) then Err else
    do! acts <- np_maybe_remove_quotes rest2;
    Ok (vars, op, acts).

(* the registered actions (internal/actions/actions.go init) with "is disruptive" *)
Definition np_actions : list (string * bool) := [
  ("allow", true); ("auditlog", false); ("block", true); ("capture", false); ("chain", false);
  ("ctl", false); ("deny", true); ("drop", true); ("exec", false); ("expirevar", false); ("id", false);
  ("initcol", false); ("log", false); ("logdata", false); ("maturity", false); ("msg", false);
  ("multimatch", false); ("noauditlog", false); ("nolog", false); ("pass", true); ("phase", false);
  ("redirect", true); ("rev", false); ("setenv", false); ("setvar", false); ("severity", false);
  ("skip", false); ("skipafter", false); ("status", false); ("t", false); ("tag", false); ("ver", false)
]%string.

Fixpoint np_action_lookup (k : bytes) (l : list (string * bool)) : option bool :=
  match l with
  | [] => None
  | (n, d) :: r => if bytes_eqb (str n) k then Some d else np_action_lookup k r
  end.

Record np_raction := { ra_key : bytes; ra_val : bytes; ra_disr : bool }.

(* res[i] = a *)
Fixpoint np_set_nth {A} (l : list A) (i : nat) (a : A) : list A :=
  match l, i with
  | [], _ => []
  | _ :: r, O => a :: r
  | x :: r, S j => x :: np_set_nth r j a
  end.
Definition np_store (res : list np_raction) (i : Z) (a : np_raction) : outcome (list np_raction) :=
  if (0 <=? i) && (i <? Z.of_nat (List.length res)) then Ok (np_set_nth res (Z.to_nat i) a) else Panic.

(* appendRuleAction; disruptiveActionIndex = -1 is `unset` *)
Definition np_append_rule_action (res : list np_raction) (key0 val0 : bytes) (dai : Z)
  : outcome (list np_raction * Z) :=
  let key := np_lower (np_trim_space key0) in
  do! val <- np_maybe_remove_quotes (np_trim_space val0);
  match np_action_lookup key np_actions with
  | None => Err
  | Some disr =>
    let a := {| ra_key := key; ra_val := val; ra_disr := disr |} in
    if disr && negb (dai =? -1) then
      (do! res' <- np_store res dai a; Ok (res', dai))
    else Ok (res ++ [a], if disr then Z.of_nat (List.length res) else dai)
  end.

(* parseActions: `for i := 1; i < len(actions); i++`; state (beforeKey, afterKey, inQuotes) *)
Fixpoint np_pa_loop (fuel : nat) (s : bytes) (i : Z) (bk ak : Z) (inq : bool)
         (res : list np_raction) (dai : Z) : outcome (list np_raction) :=
  match fuel with
  | O => Err
  | S f =>
    if i <? np_len s then
      do! c <- np_at s i;
      do! p <- np_at s (i - 1);
      if isb p 92 then np_pa_loop f s (i + 1) bk ak inq res dai
      else if isb c 39 then np_pa_loop f s (i + 1) bk ak (negb inq) res dai
      else if inq then np_pa_loop f s (i + 1) bk ak inq res dai
      else if isb c 58 then
        (if negb (ak =? -1) then np_pa_loop f s (i + 1) bk ak inq res dai
         else np_pa_loop f s (i + 1) bk i inq res dai)
      else if isb c 44 then
        do! va <- (if ak =? -1 then Ok ([], i) else (do! v <- np_slice s (ak + 1) i; Ok (v, ak)));
        let '(val, ak') := va in
        do! key <- np_slice s (bk + 1) ak';
        do! r <- np_append_rule_action res key val dai;
        let '(res', dai') := r in
        np_pa_loop f s (i + 1) i (-1) inq res' dai'
      else np_pa_loop f s (i + 1) bk ak inq res dai
    else
      do! va <- (if ak =? -1 then Ok ([], np_len s) else (do! v <- np_slice s (ak + 1) (np_len s); Ok (v, ak)));
      let '(val, ak') := va in
      do! key <- np_slice s (bk + 1) ak';
      do! r <- np_append_rule_action res key val dai;
      Ok (fst r)
  end.
Definition np_parse_actions (s : bytes) : outcome (list np_raction) :=
  np_pa_loop (S (List.length s)) s 1 (-1) (-1) false [] (-1).

(* ParseOperator up to the operators.Get lookup: (operator name, argument) *)
Definition b_rx_sp : bytes := str "@rx "%string.
Definition b_nrx : bytes := str "!@rx"%string.
Definition b_nrx_sp : bytes := str "!@rx "%string.
Definition b_bang : bytes := str "!"%string.

Definition np_operator_names : list string := [
  "beginsWith"; "contains"; "detectSQLi"; "detectXSS"; "endsWith"; "eq"; "ge"; "geoLookup"; "gt";
  "inspectFile"; "ipMatch"; "ipMatchFromDataset"; "ipMatchFromFile"; "ipMatchF"; "le"; "lt"; "noMatch";
  "pm"; "pmFromDataset"; "pmFromFile"; "pmf"; "rbl"; "restpath"; "rx"; "streq"; "strmatch";
  "unconditionalMatch"; "validateByteRange"; "validateNid"; "validateSchema"; "validateUrlEncoding";
  "validateUtf8Encoding"; "within"
]%string.

(* the switch that supplies the default operator *)
Definition np_operator_rewrite (o : bytes) : outcome bytes :=
  let n := np_len o in
  do! c1 <- (if n =? 0 then Ok true
             else (do! a <- np_at o 0; Ok (negb (isb a 64) && negb (isb a 33))));
  if c1 then Ok (b_rx_sp ++ o)
  else if (n =? 1) && bytes_eqb o b_bang then Ok b_nrx
  else
    do! c3 <- (if 1 <? n
               then (do! a <- np_at o 0;
                     if isb a 33 then (do! b <- np_at o 1; Ok (negb (isb b 64))) else Ok false)
               else Ok false);
    if c3 then (do! t <- np_slice o 1 n; Ok (b_nrx_sp ++ t)) else Ok o.

(* strings.Cut / TrimSpace / op[0] ... *)
Definition np_operator_split (o' : bytes) : outcome (bytes * bytes) :=
  let '(opraw, dataraw, _) := np_cut 32 o' in
  let op := np_trim_space opraw in
  let data := np_trim_space dataraw in
  do! h <- np_at op 0;
  do! op' <- (if isb h 64 then np_slice op 1 (np_len op)
              else if 2 <? np_len op
              then (do! a <- np_at op 0;
                    if isb a 33
                    then (do! b <- np_at op 1; if isb b 64 then np_slice op 2 (np_len op) else Ok op)
                    else Ok op)
              else Ok op);
  Ok (op', data).

Definition np_operator_prefix (o : bytes) : outcome (bytes * bytes) :=
  do! o' <- np_operator_rewrite o; np_operator_split o'.

(* ... followed by operators.Get(op): Err when the name is not registered (the operator's own
   argument validation is not modelled) *)
Definition np_parse_operator (o : bytes) : outcome (bytes * bytes) :=
  do! r <- np_operator_prefix o;
  match np_find_name (fst r) np_operator_names 0%N with
  | Some _ => Ok r
  | None => Err
  end.

(* ParseVariables.  State: curr (0 name, 1 key, 2 regex, 3 xpath), flags, curVar, curKey.
   regexp.Compile inside AddVariable/AddVariableNegation is an oracle: the model records that a
   regex key was handed over ([sawrx]) and goes on as if it compiled. *)
Record np_pv_state := { pv_curr : Z; pv_neg : bool; pv_cnt : bool; pv_var : bytes; pv_key : bytes;
                        pv_esc : bool; pv_quoted : bool; pv_sawrx : bool; pv_n : nat }.

Definition b_XML : bytes := str "XML"%string.
Definition b_JSON : bytes := str "JSON"%string.

(* hasRegex(key) of AddVariable: len >= 2, first and last byte '/', closing slash not escaped *)
Fixpoint np_count_trailing_bs (r : bytes) : nat :=   (* r = reversed content *)
  match r with c :: t => if isb c 92 then S (np_count_trailing_bs t) else O | [] => O end.
Definition np_has_regex (s : bytes) : bool :=
  match s with
  | c :: r =>
    isb c 47 &&
    match rev r with
    | z :: body_rev => isb z 47 && (match body_rev with [] => true | _ => Nat.even (np_count_trailing_bs body_rev) end)
    | [] => false
    end
  | [] => false
  end.

Fixpoint np_pv_loop (fuel : nat) (s : bytes) (i : Z) (st : np_pv_state) : outcome np_pv_state :=
  match fuel with
  | O => Ok st
  | S f =>
    let l := np_len s in
    if i <? l then
      do! c <- np_at s i;
      let curr := pv_curr st in
      if (isb c 124 && negb (curr =? 2)) || (l <=? i + 1) || ((curr =? 2) && isb c 47 && negb (pv_esc st)) then
        let cv := if negb (isb c 124) && (curr =? 0) then pv_var st ++ [c] else pv_var st in
        let ck := if negb (isb c 124) && negb (curr =? 0) && negb (curr =? 2) && negb (isb c 47)
                  then pv_key st ++ [c] else pv_key st in
        match np_var_parse cv with
        | None => Err
        | Some _ =>
          if (curr =? 1) && negb (np_var_selectable cv) then Err else
          do! step <- (if pv_quoted st then
                         do! closed <- (if l <=? i + 1 then Ok false else (do! d <- np_at s (i + 1); Ok (isb d 39)));
                         if closed then Ok (i + 2, false)
                         else (do! e <- np_at s i; if negb (isb e 39) then Err else Ok (i + 2, false))
                       else if curr =? 2 then Ok (i + 1, false) else Ok (i, false));
          let '(i', _) := step in
          let key := if curr =? 2 then (47%N :: ck) ++ [47%N] else ck in
          let rx := np_has_regex key in
          np_pv_loop f s (i' + 1)
            {| pv_curr := 0; pv_neg := false; pv_cnt := false; pv_var := []; pv_key := [];
               pv_esc := pv_esc st; pv_quoted := false; pv_sawrx := pv_sawrx st || rx; pv_n := S (pv_n st) |}
        end
      else
        let st' :=
          if curr =? 0 then
            if isb c 33 then {| pv_curr := 0; pv_neg := true; pv_cnt := pv_cnt st; pv_var := pv_var st; pv_key := pv_key st; pv_esc := pv_esc st; pv_quoted := pv_quoted st; pv_sawrx := pv_sawrx st; pv_n := pv_n st |}
            else if isb c 38 then {| pv_curr := 0; pv_neg := pv_neg st; pv_cnt := true; pv_var := pv_var st; pv_key := pv_key st; pv_esc := pv_esc st; pv_quoted := pv_quoted st; pv_sawrx := pv_sawrx st; pv_n := pv_n st |}
            else if isb c 58 then {| pv_curr := 1; pv_neg := pv_neg st; pv_cnt := pv_cnt st; pv_var := pv_var st; pv_key := pv_key st; pv_esc := pv_esc st; pv_quoted := pv_quoted st; pv_sawrx := pv_sawrx st; pv_n := pv_n st |}
            else {| pv_curr := 0; pv_neg := pv_neg st; pv_cnt := pv_cnt st; pv_var := pv_var st ++ [c]; pv_key := pv_key st; pv_esc := pv_esc st; pv_quoted := pv_quoted st; pv_sawrx := pv_sawrx st; pv_n := pv_n st |}
          else if curr =? 1 then
            if (np_len (pv_key st) =? 0) && (bytes_eqb (pv_var st) b_XML || bytes_eqb (pv_var st) b_JSON)
            then {| pv_curr := 3; pv_neg := pv_neg st; pv_cnt := pv_cnt st; pv_var := pv_var st; pv_key := pv_key st ++ [c]; pv_esc := pv_esc st; pv_quoted := pv_quoted st; pv_sawrx := pv_sawrx st; pv_n := pv_n st |}
            else if isb c 47 then {| pv_curr := 2; pv_neg := pv_neg st; pv_cnt := pv_cnt st; pv_var := pv_var st; pv_key := pv_key st; pv_esc := pv_esc st; pv_quoted := pv_quoted st; pv_sawrx := pv_sawrx st; pv_n := pv_n st |}
            else if isb c 39 then {| pv_curr := 1; pv_neg := pv_neg st; pv_cnt := pv_cnt st; pv_var := pv_var st; pv_key := pv_key st; pv_esc := pv_esc st; pv_quoted := true; pv_sawrx := pv_sawrx st; pv_n := pv_n st |}
            else {| pv_curr := 1; pv_neg := pv_neg st; pv_cnt := pv_cnt st; pv_var := pv_var st; pv_key := pv_key st ++ [c]; pv_esc := pv_esc st; pv_quoted := pv_quoted st; pv_sawrx := pv_sawrx st; pv_n := pv_n st |}
          else if curr =? 2 then
            (* the `c == '/' && !isEscaped` arm is unreachable here (caught by the outer test) *)
            if isb c 47 && negb (pv_esc st) then {| pv_curr := 1; pv_neg := pv_neg st; pv_cnt := pv_cnt st; pv_var := pv_var st; pv_key := pv_key st; pv_esc := pv_esc st; pv_quoted := pv_quoted st; pv_sawrx := pv_sawrx st; pv_n := pv_n st |}
            else if isb c 92 then {| pv_curr := 2; pv_neg := pv_neg st; pv_cnt := pv_cnt st; pv_var := pv_var st; pv_key := pv_key st ++ [92%N]; pv_esc := negb (pv_esc st); pv_quoted := pv_quoted st; pv_sawrx := pv_sawrx st; pv_n := pv_n st |}
            else {| pv_curr := 2; pv_neg := pv_neg st; pv_cnt := pv_cnt st; pv_var := pv_var st; pv_key := pv_key st ++ [c]; pv_esc := false; pv_quoted := pv_quoted st; pv_sawrx := pv_sawrx st; pv_n := pv_n st |}
          else {| pv_curr := 3; pv_neg := pv_neg st; pv_cnt := pv_cnt st; pv_var := pv_var st; pv_key := pv_key st ++ [c]; pv_esc := pv_esc st; pv_quoted := pv_quoted st; pv_sawrx := pv_sawrx st; pv_n := pv_n st |}
        in np_pv_loop f s (i + 1) st'
    else Ok st
  end.

Definition np_pv_init : np_pv_state :=
  {| pv_curr := 0; pv_neg := false; pv_cnt := false; pv_var := []; pv_key := []; pv_esc := false;
     pv_quoted := false; pv_sawrx := false; pv_n := O |}.

(* (status, a regex key was handed to regexp.Compile) *)
Definition np_parse_variables (s : bytes) : outcome np_pv_state :=
  np_pv_loop (S (List.length s)) s 0 np_pv_init.

(* ------------------------------------------------------------------------------------ *)
(* (d) rulegroup.go DeleteByMsg                                                         *)
(* ------------------------------------------------------------------------------------ *)
(* a rule: its id and its optional Msg macro (nil interface when the rule has no msg action;
   SecMarker rules never have one) *)
Record np_rule := { r_id : Z; r_msg : option bytes }.

(* fixed = false is the code before c155495: r.Msg.String() without the nil test *)
Fixpoint np_delete_by_msg (fixed : bool) (rules : list np_rule) (msg : bytes) : outcome (list np_rule) :=
  match rules with
  | [] => Ok []
  | r :: t =>
    do! keep <- (match r_msg r with
                 | None => if fixed then Ok true else Panic
                 | Some m => Ok (negb (bytes_eqb m msg))
                 end);
    do! t' <- np_delete_by_msg fixed t msg;
    Ok (if keep then r :: t' else t')
  end.

(* ------------------------------------------------------------------------------------ *)
(* (e) transaction.go WriteRequestBody / WriteResponseBody                              *)
(* ------------------------------------------------------------------------------------ *)
(* limit action: true = ProcessPartial, false = Reject.
   Result: Ok (Some n) = b[:n] handed to the buffer; Ok None = returned before the slice
   (limit already reached, or Reject interruption); Err = overflow error.
   Every int64 operation is wrapped explicitly ([np_wrap64]).  Variants of the ProcessPartial
   length computation:
     WbNoClamp       before 71fdc14:  writingBytes = limit - buffered
     WbClampLow      71fdc14:         ... ; if writingBytes < 0 { writingBytes = 0 }
     WbCompareFirst  9bda2e1 (now):   writingBytes = 0; if limit > buffered { writingBytes = limit - buffered } *)
Inductive np_wb_variant := WbNoClamp | WbClampLow | WbCompareFirst.

Definition np_partial_len (v : np_wb_variant) (limit buffered : Z) : Z :=
  match v with
  | WbNoClamp => np_wrap64 (limit - buffered)
  | WbClampLow => let w := np_wrap64 (limit - buffered) in if w <? 0 then 0 else w
  | WbCompareFirst => if buffered <? limit then np_wrap64 (limit - buffered) else 0
  end.

Definition np_write_body (v : np_wb_variant) (partial : bool) (limit buffered blen : Z) : outcome (option Z) :=
  if limit =? buffered then Ok None
  else if np_wrap64 (np_max_int64 - blen) <=? buffered then Err
  else
    let over := limit <=? np_wrap64 (buffered + blen) in
    if over && negb partial then Ok None
    else
      let wb := if over then np_partial_len v limit buffered else blen in
      if (0 <=? wb) && (wb <=? blen) then Ok (Some wb) else Panic.

Definition np_int64 (z : Z) : bool := (np_min_int64 <=? z) && (z <=? np_max_int64).

(* ------------------------------------------------------------------------------------ *)
(* (f) memoize: typed lookups                                                           *)
(* ------------------------------------------------------------------------------------ *)
(* A call site builds its key as  prefix ++ text  and asserts the returned value to its own Go
   type [ms_type]; the global cache maps key -> the Go type of the stored value. *)
Record np_msite := { ms_prefix : bytes; ms_type : N }.
Definition np_cache := list (bytes * N).

Fixpoint np_cache_find (k : bytes) (c : np_cache) : option N :=
  match c with
  | [] => None
  | (k', t) :: r => if bytes_eqb k k' then Some t else np_cache_find k r
  end.

(* one memoizeDo + type assertion at site [s] for [text]; [fails]: the build function returns an
   error (nothing cached, the caller returns the error before asserting) *)
Definition np_memo_do (c : np_cache) (s : np_msite) (text : bytes) (fails : bool) : np_cache * outcome N :=
  let key := ms_prefix s ++ text in
  match np_cache_find key c with
  | Some t => (c, if (t =? ms_type s)%N then Ok t else Panic)
  | None => if fails then (c, Err) else ((key, ms_type s) :: c, Ok (ms_type s))
  end.

Fixpoint np_memo_run (c : np_cache) (calls : list (np_msite * bytes * bool)) : bool :=   (* true = some call panicked *)
  match calls with
  | [] => false
  | (s, x, f) :: r => let '(c', o) := np_memo_do c s x f in np_is_panic o || np_memo_run c' r
  end.

(* neither prefix is a prefix of the other *)
Definition np_incomparable (p q : bytes) : bool := negb (is_prefix p q) && negb (is_prefix q p).

(* sites with different asserted types have incomparable key prefixes *)
Definition np_sites_ok (sites : list np_msite) : bool :=
  forallb (fun a => forallb (fun b => (ms_type a =? ms_type b)%N || np_incomparable (ms_prefix a) (ms_prefix b)) sites) sites.

(* the call sites as coded now (tag prefixes of efe1f8f / 0162365); types: 1 *regexp.Regexp,
   2 ahocorasick.AhoCorasick, 3 *rxCompiled, 4 *binaryregexp.Regexp, 5 *jsonschema.Schema.
   FactsC07.v regenerates this table from the source. *)
Definition np_sites_fixed : list np_msite := [
  {| ms_prefix := str "re:"%string; ms_type := 1%N |};
  {| ms_prefix := str "pm:"%string; ms_type := 2%N |};
  {| ms_prefix := str "rx:"%string; ms_type := 3%N |};
  {| ms_prefix := str "binrx:"%string; ms_type := 4%N |};
  {| ms_prefix := str "pmds:"%string; ms_type := 2%N |};
  {| ms_prefix := str "pmf:"%string; ms_type := 2%N |};
  {| ms_prefix := str "schema:"%string; ms_type := 5%N |}
].
(* before efe1f8f: no prefixes *)
Definition np_sites_old : list np_msite := map (fun s => {| ms_prefix := []; ms_type := ms_type s |}) np_sites_fixed.
