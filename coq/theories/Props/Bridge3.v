(* Props/Bridge3.v — the theorems of the bridge C08 x C02 x C17 and nothing else.
   Flow.v (C08), TxPhase.v (C02) and Config.v (C17) each transcribe the loop RuleGroup.Eval
   (/repo/internal/corazawaf/rulegroup.go) for their own purposes.  One abstract rule type
   (b3_rule: marker | rule with id, phase, "the starter matches", an optional chained link and
   whether it matches, ctl:ruleEngine, ctl:ruleRemoveById list, skip:N, skipAfter:M, pass / deny with
   status / allow[:scope]) is translated into each model's rule type (b3_to_flow, b3_to_tp, b3_to_cf)
   and the models are run on a complete transaction (b3_run_flow: fl_run; b3_run_tp: the five Process*
   calls in order; b3_run_cf: cf_run).  The theorems say that the models show the same observables -
   for ALL rule lists of the common fragment (the match assignment is part of the abstract rule) and
   all engine modes both sides have.  Fragments (boolean guards):
     b3_tp_ok : what TxPhase.v cannot express is absent - ctl:ruleRemoveById; rule id 0
     b3_cf_ok : what Config.v cannot express is absent - allow, ctl:ruleEngine, phases other than 1, 2;
                rule id 0; the engine is On
   Flow.v needs no guard. *)
From Verif Require Import Base Flow TxPhase Config EngineBridge3 EngineBridge3Proofs.
Local Open Scope nat_scope.

(* Flow.v = TxPhase.v: the (phase, rule id, fully matched) of every rule evaluation in order, the
   rule that interrupted, the rule that would have interrupted in DetectionOnly - every configured
   engine mode, phases 1..5, markers, skip, skipAfter, the three allow scopes, deny, ctl:ruleEngine
   switches in the middle of a phase, chained links *)
Theorem Bridge3_flow_txphase_agree : forall eng rs, forallb b3_tp_ok rs = true ->
  b3_obs_flow (b3_run_flow eng rs) = b3_drop_status (b3_obs_tp (b3_run_tp eng rs)).
Proof. exact b3_flow_tp_agree. Qed.
Print Assumptions Bridge3_flow_txphase_agree.

(* Flow.v = Config.v: the ids of the fully matched rules in order and the interrupting rule - engine
   On, phases 1-2, markers, skip, skipAfter, deny, per-transaction removal by id (removed rules do not
   count in a skip window and cannot resolve a pending marker), chained links; any regex oracle rx *)
Theorem Bridge3_flow_config_agree : forall rx rs, forallb b3_cf_ok rs = true ->
  b3_matched_view_ids (b3_obs_flow (b3_run_flow Flow.MOn rs)) =
  (fst (b3_obs_cf (b3_run_cf rx rs)), option_map fst (snd (b3_obs_cf (b3_run_cf rx rs)))).
Proof. exact b3_flow_cf_agree. Qed.
Print Assumptions Bridge3_flow_config_agree.

(* TxPhase.v = Config.v on the three-way fragment: matched ids and the interruption WITH its status
   (deny: status:N, 403 when unset) *)
Theorem Bridge3_txphase_config_agree : forall rx rs, forallb b3_tp_ok rs = true -> forallb b3_cf_ok rs = true ->
  b3_matched_view (b3_obs_tp (b3_run_tp Flow.MOn rs)) = b3_obs_cf (b3_run_cf rx rs).
Proof. exact b3_tp_cf_agree. Qed.
Print Assumptions Bridge3_txphase_config_agree.

(* each model against the reference evaluation of the abstract rules (the proof device; also the
   statement "what all three compute" in one place) *)
Theorem Bridge3_flow_is_reference : forall eng rs,
  b3_obs_flow (b3_run_flow eng rs) = b3_drop_status (b3_obs (b3_run eng rs)).
Proof. exact b3_flow_is_ref. Qed.
Print Assumptions Bridge3_flow_is_reference.

Theorem Bridge3_txphase_is_reference : forall eng rs, forallb b3_tp_ok rs = true ->
  b3_obs_tp (b3_run_tp eng rs) = b3_obs (b3_run eng rs).
Proof. exact b3_tp_is_ref. Qed.
Print Assumptions Bridge3_txphase_is_reference.

Theorem Bridge3_config_is_reference : forall rx rs, forallb b3_cf_ok rs = true ->
  b3_obs_cf (b3_run_cf rx rs) = b3_matched_view (b3_obs (b3_run Flow.MOn rs)).
Proof. exact b3_cf_is_ref. Qed.
Print Assumptions Bridge3_config_is_reference.

(* the guards are satisfiable by non-trivial rule lists, with the expected outcomes *)
Theorem Bridge3_instance_after_absent :
  forallb b3_tp_ok ex3_after_absent = true /\ forallb b3_cf_ok ex3_after_absent = true /\
  b3_obs_tp (b3_run_tp Flow.MOn ex3_after_absent) = ([(1, 1, true); (2, 4, true)], Some (4, 501), None) /\
  b3_obs_flow (b3_run_flow Flow.MOn ex3_after_absent) = ([(1, 1, true); (2, 4, true)], Some 4, None) /\
  b3_obs_cf (b3_run_cf b3_rx0 ex3_after_absent) = ([1; 4], Some (4, 501)).
Proof. exact ex3_after_absent_all. Qed.
Print Assumptions Bridge3_instance_after_absent.

Theorem Bridge3_instance_removed_in_skip_window :
  forallb b3_cf_ok ex3_removed_in_window = true /\
  b3_obs_cf (b3_run_cf b3_rx0 ex3_removed_in_window) = ([1; 4; 6], Some (6, 403)) /\
  b3_obs_flow (b3_run_flow Flow.MOn ex3_removed_in_window) = ([(1, 1, true); (1, 4, true); (2, 6, true)], Some 6, None).
Proof. exact ex3_removed_in_window_flow_cf. Qed.
Print Assumptions Bridge3_instance_removed_in_skip_window.
