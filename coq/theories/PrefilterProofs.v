(* PrefilterProofs.v — proofs about Regex.v / Prefilter.v for property C11. *)
From Verif Require Import Base Utf8 Regex Prefilter.
From Coq Require Import Arith ZifyN ZifyBool ZifyNat.
Ltac Zify.zify_post_hook ::= Z.div_mod_to_equations.
Open Scope N_scope.

(* ====================================================================================== *)
(* induction principle for the nested AST                                                  *)
(* ====================================================================================== *)

Section ReInd.
  Variable P : re -> Prop.
  Hypothesis HLit : forall f rs, P (Lit f rs).
  Hypothesis HClass : forall f rg, P (Class f rg).
  Hypothesis HOp0 : forall f o, P (Op0 f o).
  Hypothesis HCap : forall f a, P a -> P (Cap f a).
  Hypothesis HStar : forall f a, P a -> P (Star f a).
  Hypothesis HPlus : forall f a, P a -> P (Plus f a).
  Hypothesis HQuest : forall f a, P a -> P (Quest f a).
  Hypothesis HCat : forall f l, Forall P l -> P (Cat f l).
  Hypothesis HAlt : forall f l, Forall P l -> P (Alt f l).

  Fixpoint re_ind' (r : re) : P r :=
    match r with
    | Lit f rs => HLit f rs
    | Class f rg => HClass f rg
    | Op0 f o => HOp0 f o
    | Cap f a => HCap f a (re_ind' a)
    | Star f a => HStar f a (re_ind' a)
    | Plus f a => HPlus f a (re_ind' a)
    | Quest f a => HQuest f a (re_ind' a)
    | Cat f l => HCat f l ((fix go (l : list re) : Forall P l :=
                             match l with [] => Forall_nil P | a :: l' => Forall_cons a (re_ind' a) (go l') end) l)
    | Alt f l => HAlt f l ((fix go (l : list re) : Forall P l :=
                             match l with [] => Forall_nil P | a :: l' => Forall_cons a (re_ind' a) (go l') end) l)
    end.
End ReInd.

(* ====================================================================================== *)
(* UTF-8 decoding facts                                                                    *)
(* ====================================================================================== *)

Lemma in_rng_true lo hi b : in_rng lo hi b = true -> lo <= b /\ b <= hi.
Proof. unfold in_rng. intro H. apply andb_true_iff in H. destruct H as [H1 H2]. apply N.leb_le in H1, H2. lia. Qed.

Ltac dcmp := repeat match goal with
  | |- context [?a <? ?b] => destruct (N.ltb_spec a b)
  | |- context [?a <=? ?b] => destruct (N.leb_spec a b)
  end; cbn [orb andb negb] in *; try lia; try reflexivity.

Lemma enc1 c : c < 128 -> encode_rune c = [c] /\ rune_len c = 1%nat /\ valid_rune c = true.
Proof. intro H. unfold encode_rune, rune_len, valid_rune, in_rng. repeat split; dcmp. Qed.
Lemma enc2 c : 128 <= c -> c < 2048 ->
  encode_rune c = [192 + c / 64; 128 + c mod 64] /\ rune_len c = 2%nat /\ valid_rune c = true.
Proof. intros H1 H2. unfold encode_rune, rune_len, valid_rune, in_rng. repeat split; dcmp. Qed.
Lemma enc3 c : 2048 <= c -> c < 65536 -> (c < 55296 \/ 57343 < c) ->
  encode_rune c = [224 + c / 4096; 128 + (c / 64) mod 64; 128 + c mod 64] /\ rune_len c = 3%nat /\ valid_rune c = true.
Proof. intros H1 H2 H3. unfold encode_rune, rune_len, valid_rune, in_rng. repeat split; dcmp. Qed.
Lemma enc4 c : 65536 <= c -> c <= 1114111 ->
  encode_rune c = [240 + c / 262144; 128 + (c / 4096) mod 64; 128 + (c / 64) mod 64; 128 + c mod 64]
  /\ rune_len c = 4%nat /\ valid_rune c = true.
Proof. intros H1 H2. unfold encode_rune, rune_len, valid_rune, in_rng. repeat split; dcmp. Qed.

(* what one decoding step tells: the width is positive; a rune other than U+FFFD comes from its
   own (shortest, valid) encoding *)
Lemma decode_rune_spec s c n :
  s <> [] -> decode_rune s = (c, n) ->
  (1 <= n)%nat /\ (c <> rune_error -> n = rune_len c /\ firstn n s = encode_rune c /\ valid_rune c = true).
Proof.
  intros Hs H. destruct s as [|b0 r]; [congruence|]. clear Hs.
  unfold decode_rune in H.
  destruct (b0 <? 128) eqn:E0.
  { inversion H; subst. split; [lia|]. intros _. apply N.ltb_lt in E0.
    destruct (enc1 c E0) as [A [B C]]. rewrite A, B, C. auto. }
  apply N.ltb_ge in E0.
  destruct (in_rng 194 223 b0) eqn:E1.
  { apply in_rng_true in E1.
    destruct r as [|b1 r]; [inversion H; subst; split; [lia|congruence]|].
    destruct (in_rng 128 191 b1) eqn:E2; [|inversion H; subst; split; [lia|congruence]].
    apply in_rng_true in E2. inversion H; subst. clear H. split; [lia|]. intros _.
    assert (A0 : b0 mod 32 = b0 - 192) by lia.
    assert (A1 : b1 mod 64 = b1 - 128) by lia.
    rewrite A0, A1.
    set (c := (b0 - 192) * 64 + (b1 - 128)).
    assert (Hc : 128 <= c /\ c < 2048) by (unfold c; lia).
    destruct (enc2 c (proj1 Hc) (proj2 Hc)) as [A [B C]]. rewrite A, B, C.
    assert (B0 : 192 + c / 64 = b0) by (unfold c; lia).
    assert (B1 : 128 + c mod 64 = b1) by (unfold c; lia).
    rewrite B0, B1. auto. }
  destruct (in_rng 224 239 b0) eqn:E2.
  { apply in_rng_true in E2.
    destruct r as [|b1 [|b2 r]]; try (inversion H; subst; split; [lia|congruence]).
    match type of H with (if ?c then _ else _) = _ => destruct c eqn:E3 end;
      [|inversion H; subst; split; [lia|congruence]].
    apply andb_true_iff in E3. destruct E3 as [E3 E4]. apply in_rng_true in E3, E4.
    inversion H; subst. clear H. split; [lia|]. intros _.
    assert (A0 : b0 mod 16 = b0 - 224) by lia.
    assert (A1 : b1 mod 64 = b1 - 128).
    { destruct (b0 =? 224) eqn:Ea; destruct (b0 =? 237) eqn:Eb; lia. }
    assert (A2 : b2 mod 64 = b2 - 128) by lia.
    rewrite A0, A1, A2.
    set (c := (b0 - 224) * 4096 + (b1 - 128) * 64 + (b2 - 128)).
    assert (Hc : 2048 <= c /\ c < 65536 /\ (c < 55296 \/ 57343 < c)).
    { unfold c. destruct (b0 =? 224) eqn:Ea; destruct (b0 =? 237) eqn:Eb; lia. }
    destruct Hc as [H1 [H2 H3]].
    destruct (enc3 c H1 H2 H3) as [A [B C]]. rewrite A, B, C.
    assert (B0 : 224 + c / 4096 = b0).
    { unfold c. destruct (b0 =? 224) eqn:Ea; destruct (b0 =? 237) eqn:Eb; lia. }
    assert (B1 : 128 + (c / 64) mod 64 = b1).
    { unfold c. destruct (b0 =? 224) eqn:Ea; destruct (b0 =? 237) eqn:Eb; lia. }
    assert (B2 : 128 + c mod 64 = b2) by (unfold c; lia).
    rewrite B0, B1, B2. auto. }
  destruct (in_rng 240 244 b0) eqn:E3.
  { apply in_rng_true in E3.
    destruct r as [|b1 [|b2 [|b3 r]]]; try (inversion H; subst; split; [lia|congruence]).
    match type of H with (if ?c then _ else _) = _ => destruct c eqn:E4 end;
      [|inversion H; subst; split; [lia|congruence]].
    apply andb_true_iff in E4. destruct E4 as [E4 E6]. apply andb_true_iff in E4. destruct E4 as [E4 E5].
    apply in_rng_true in E4, E5, E6.
    inversion H; subst. clear H. split; [lia|]. intros _.
    assert (A0 : b0 mod 8 = b0 - 240) by lia.
    assert (A1 : b1 mod 64 = b1 - 128).
    { destruct (b0 =? 240) eqn:Ea; destruct (b0 =? 244) eqn:Eb; lia. }
    assert (A2 : b2 mod 64 = b2 - 128) by lia.
    assert (A3 : b3 mod 64 = b3 - 128) by lia.
    rewrite A0, A1, A2, A3.
    set (c := (b0 - 240) * 262144 + (b1 - 128) * 4096 + (b2 - 128) * 64 + (b3 - 128)).
    assert (Hc : 65536 <= c /\ c <= 1114111).
    { unfold c. destruct (b0 =? 240) eqn:Ea; destruct (b0 =? 244) eqn:Eb; lia. }
    destruct (enc4 c (proj1 Hc) (proj2 Hc)) as [A [B C]]. rewrite A, B, C.
    assert (B0 : 240 + c / 262144 = b0).
    { unfold c. destruct (b0 =? 240) eqn:Ea; destruct (b0 =? 244) eqn:Eb; lia. }
    assert (B1 : 128 + (c / 4096) mod 64 = b1).
    { unfold c. destruct (b0 =? 240) eqn:Ea; destruct (b0 =? 244) eqn:Eb; lia. }
    assert (B2 : 128 + (c / 64) mod 64 = b2) by (unfold c; lia).
    assert (B3 : 128 + c mod 64 = b3) by (unfold c; lia).
    rewrite B0, B1, B2, B3. auto. }
  inversion H; subst. split; [lia|congruence].
Qed.

Lemma decode_rune_ascii b s : b < 128 -> decode_rune (b :: s) = (b, 1%nat).
Proof. intro H. unfold decode_rune. replace (b <? 128) with true by (symmetry; apply N.ltb_lt; lia). reflexivity. Qed.
