(* NoPanicConfigProofs.v — C07: whole-configuration and whole-transaction totality over the
   modelled fragment (NoPanicConfig.v). *)
From Coq Require Import String.
From Verif Require Import Base NoPanic NoPanicProofs NoPanicConfig.
Open Scope Z_scope.

Lemma np_cbind_not_panic {A B} (o : outcome (option A)) (f : A -> outcome (option B)) :
  o <> Panic -> (forall a, o = Ok (Some a) -> f a <> Panic) -> np_cbind o f <> Panic.
Proof. destruct o as [[a|]| |]; cbn; intros H1 H2; auto; try discriminate; congruence. Qed.

Lemma np_lift_not_panic {A} (o : outcome A) : o <> Panic -> np_lift o <> Panic.
Proof. destruct o; cbn; congruence. Qed.

Ltac np_step :=
  first
    [ discriminate
    | apply np_bind_not_panic;
      [ first [ apply np_maybe_remove_quotes_total | apply np_new_macro_total | apply np_setvar_init_total
              | apply np_parse_actions_total | apply np_parse_action_operator_total | apply np_parse_variables_total
              | apply np_parse_operator_total ]
      | intros ? ? ]
    | match goal with |- (if ?b then _ else _) <> _ => destruct b end
    | match goal with |- match ?x with _ => _ end <> _ => destruct x end ].

(* ---- compile ---- *)
Lemma np_action_init_total r k v : np_action_init r k v <> Panic.
Proof. unfold np_action_init. repeat np_step. Qed.

Lemma np_apply_actions_total : forall acts r, np_apply_actions r acts <> Panic.
Proof.
  induction acts as [|a t IH]; intros r; cbn [np_apply_actions]; [discriminate|].
  apply np_cbind_not_panic; [apply np_action_init_total|]. intros r' _. apply IH.
Qed.

(* ---- SecDefaultAction / mergeActions ---- *)
Definition np_defs_ok (m : np_defmap) : Prop := Forall (fun e => existsb ra_disr (snd e) = true) m.

Lemma np_pda_loop_spec : forall acts p h r, np_pda_loop acts p h = Ok r -> snd r = true -> h = true \/ existsb ra_disr acts = true.
Proof.
  induction acts as [|a t IH]; intros p h r; cbn [np_pda_loop existsb].
  - intros H; inversion H; cbn. auto.
  - destruct (bytes_eqb (ra_key a) (bs "phase")).
    + destruct (np_parse_phase (ra_val a)); [|discriminate]. intros H Hr.
      destruct (IH _ _ _ H Hr) as [K|K]; [left; exact K|right; rewrite K; apply orb_true_r].
    + destruct (np_is_metadata (ra_key a)); [discriminate|].
      destruct (bytes_eqb (ra_key a) (bs "t")); [discriminate|].
      intros H Hr. destruct (IH _ _ _ H Hr) as [K|K].
      * apply orb_true_iff in K as [K|K]; [left; exact K|right; rewrite K; reflexivity].
      * right; rewrite K; apply orb_true_r.
Qed.

Lemma np_parse_default_total raw : np_parse_default raw <> Panic.
Proof.
  unfold np_parse_default. apply np_bind_not_panic; [apply np_parse_actions_total|]. intros acts _.
  apply np_bind_not_panic.
  - generalize 0 false. induction acts as [|a t IH]; intros p h; cbn [np_pda_loop]; [discriminate|].
    repeat match goal with
           | |- (if ?c then _ else _) <> _ => destruct c
           | |- match ?x with _ => _ end <> _ => destruct x
           end; try discriminate; apply IH.
  - intros ph _. destruct (fst ph =? 0); [discriminate|]. destruct (negb (snd ph)); discriminate.
Qed.

Lemma np_parse_default_disr raw p acts : np_parse_default raw = Ok (p, acts) -> existsb ra_disr acts = true.
Proof.
  unfold np_parse_default. destruct (np_parse_actions raw) as [a| |]; cbn [np_bind]; try discriminate.
  destruct (np_pda_loop a 0 false) as [ph| |] eqn:E; cbn [np_bind]; try discriminate.
  destruct (fst ph =? 0); [discriminate|]. destruct (snd ph) eqn:Es; cbn [negb]; [|discriminate].
  intros H; inversion H; subst. destruct (np_pda_loop_spec _ _ _ _ E Es) as [K|K]; [discriminate|exact K].
Qed.

Lemma np_defaults_build_spec : forall dl m,
  np_defs_ok m -> np_defaults_build dl m <> Panic /\ (forall m', np_defaults_build dl m = Ok m' -> np_defs_ok m').
Proof.
  induction dl as [|raw t IH]; intros m Hm; cbn [np_defaults_build].
  - split; [discriminate|]. intros m' H; inversion H; subst; exact Hm.
  - pose proof (np_parse_default_total raw) as Hp.
    destruct (np_parse_default raw) as [[p acts]| |] eqn:E; cbn [np_bind]; [|split; [discriminate|intros; discriminate]|congruence].
    destruct (existsb _ m); [split; [discriminate|intros; discriminate]|].
    apply IH. apply Forall_app; split; [exact Hm|]. constructor; [|constructor]. cbn. eapply np_parse_default_disr; exact E.
Qed.

Lemma np_defaults_spec dl : np_defaults dl <> Panic /\ (forall m, np_defaults dl = Ok m -> np_defs_ok m).
Proof.
  unfold np_defaults. destruct (np_defaults_build_spec dl [] (Forall_nil _)) as [Hnp Hok].
  destruct (np_defaults_build dl []) as [m| |]; cbn [np_bind]; [|split; [discriminate|intros; discriminate]|congruence].
  split; [discriminate|]. intros m' H; inversion H; subst.
  destruct (existsb _ m); [apply Hok; reflexivity|].
  apply Forall_app; split; [apply Hok; reflexivity|]. constructor; [reflexivity|constructor].
Qed.

Lemma np_defmap_find_ok : forall m p d, np_defs_ok m -> np_defmap_find p m = Some d -> existsb ra_disr d = true.
Proof.
  induction m as [|[q a] t IH]; intros p d Hm; cbn [np_defmap_find]; [discriminate|].
  inversion Hm; subst. destruct (q =? p); [intros H; inversion H; subst; assumption | apply IH; assumption].
Qed.

Lemma np_last_disr_some : forall l acc, (existsb ra_disr l = true \/ acc <> None) -> np_last_disr l acc <> None.
Proof.
  induction l as [|a t IH]; intros acc H; cbn [np_last_disr].
  - destruct H as [H|H]; [discriminate|exact H].
  - apply IH. cbn [existsb] in H. destruct (ra_disr a); [right; discriminate|]. destruct H as [H|H]; [left; exact H|right; exact H].
Qed.

(* mergeActions never produces an action with a nil F: the picked default disruptive action exists *)
Lemma np_merge_no_nil origin d : existsb ra_disr d = true -> Forall (fun o => o <> None) (np_merge origin d).
Proof.
  intros Hd. unfold np_merge. repeat (apply Forall_app; split).
  - apply Forall_forall. intros x Hx. apply in_map_iff in Hx as [y [<- _]]. discriminate.
  - apply Forall_forall. intros x Hx. apply in_map_iff in Hx as [y [<- _]]. discriminate.
  - destruct (existsb _ origin); [constructor|]. constructor; [|constructor].
    apply np_last_disr_some. left; exact Hd.
Qed.

Lemma np_apply_merged_total : forall l r, Forall (fun o => o <> None) l -> np_apply_merged r l <> Panic.
Proof.
  induction l as [|o t IH]; intros r Hl; cbn [np_apply_merged]; [discriminate|].
  inversion Hl; subst. destruct o as [a|]; [|congruence].
  destruct (np_is_metadata (ra_key a)); [apply IH; assumption|].
  apply np_cbind_not_panic; [apply np_action_init_total|]. intros; apply IH; assumption.
Qed.

Lemma np_map_some_no_nil {A} (l : list A) : Forall (fun o : option A => o <> None) (map Some l).
Proof. apply Forall_forall. intros x Hx. apply in_map_iff in Hx as [y [<- _]]. discriminate. Qed.

Lemma np_apply_parsed_total defs r acts : np_defs_ok defs -> np_apply_parsed defs r acts <> Panic.
Proof.
  intros Hd. unfold np_apply_parsed.
  apply np_cbind_not_panic; [apply np_apply_actions_total|]. intros r1 _.
  apply np_apply_merged_total.
  destruct (np_defmap_find (cr_phase r1) defs) as [d|] eqn:E.
  - apply np_merge_no_nil. eapply np_defmap_find_ok; eassumption.
  - apply np_map_some_no_nil.
Qed.

Lemma np_compile_actions_total defs r text : np_defs_ok defs -> np_compile_actions defs r text <> Panic.
Proof.
  intros Hd. unfold np_compile_actions. apply np_bind_not_panic; [apply np_parse_actions_total|].
  intros acts _. apply np_apply_parsed_total; exact Hd.
Qed.

Lemma np_parse_rule_total dl b data : np_parse_rule dl b data <> Panic.
Proof.
  unfold np_parse_rule. destruct (np_trim_space data); [discriminate|].
  destruct (np_defaults_spec dl) as [Hnp Hok].
  apply np_bind_not_panic; [exact Hnp|]. intros defs Hdefs. specialize (Hok defs Hdefs).
  destruct b.
  - apply np_bind_not_panic; [apply np_parse_action_operator_total|]. intros [[vars op] acts] _.
    apply np_bind_not_panic; [apply np_parse_variables_total|]. intros pv _.
    apply np_bind_not_panic; [apply np_parse_operator_total|]. intros o _.
    match goal with |- (if ?c then _ else _) <> _ => destruct c end; [discriminate|].
    destruct (np_len acts =? 0); [discriminate|]. apply np_compile_actions_total; exact Hok.
  - apply np_bind_not_panic; [apply np_maybe_remove_quotes_total|]. intros raw _. apply np_compile_actions_total; exact Hok.
Qed.

Lemma np_rules_add_total rules r : np_rules_add rules r <> Panic.
Proof. unfold np_rules_add. match goal with |- (if ?c then _ else _) <> _ => destruct c end; discriminate. Qed.

Lemma np_rules_delete_by_msg_total rules msg : np_rules_delete_by_msg rules msg <> Panic.
Proof.
  unfold np_rules_delete_by_msg. apply np_bind_not_panic; [apply np_delete_by_msg_total|]. intros; discriminate.
Qed.

Lemma np_withr_total {A B} (o : outcome A) (b : B) : o <> Panic -> np_lift (do! x <- o; Ok (x, b)) <> Panic.
Proof. destruct o; cbn; congruence. Qed.

Lemma np_evaluate_line_total st l : np_evaluate_line st l <> Panic.
Proof.
  unfold np_evaluate_line. destruct st as [rules dl].
  destruct (Z.eqb_spec (np_len l) 0); [discriminate|].
  pose proof (np_len_nonneg l). at_ok l 0.
  destruct (isb c 35); [discriminate|].
  destruct (np_cut 32 l) as [[dir opts0] fnd].
  apply np_bind_not_panic.
  - destruct (Z.leb_spec 3 (np_len opts0)); [|discriminate].
    at_ok opts0 0. at_ok opts0 (np_len opts0 - 1). discriminate.
  - intros opts _.
    repeat match goal with |- (if ?c then _ else _) <> _ => destruct c end; try discriminate;
      try (apply np_cbind_not_panic; [apply np_parse_rule_total | intros; apply np_withr_total; apply np_rules_add_total]);
      try (apply np_withr_total; first [apply np_rules_add_total | apply np_rules_delete_by_msg_total]).
Qed.

Lemma np_parse_lines_total : forall lines buf inbt st, np_parse_lines lines buf inbt st <> Panic.
Proof.
  induction lines as [|raw rest IH]; intros buf inbt st; cbn [np_parse_lines].
  - destruct inbt; discriminate.
  - set (line := np_trim_space (np_drop_cr raw)).
    destruct (Z.eqb_spec (np_len line) 0); [apply IH|].
    pose proof (np_len_nonneg line). at_ok line 0.
    destruct (isb c 35); [apply IH|].
    at_ok line (np_len line - 1).
    match goal with |- (if ?c then _ else _) <> _ => destruct c end; [apply IH|].
    destruct (isb c0 92); [apply IH|].
    apply np_cbind_not_panic; [apply np_evaluate_line_total|]. intros; apply IH.
Qed.

(* compiling ANY configuration text never panics: parseString's line[0] / line[len-1], evaluateLine's
   l[0] / opts[0] / opts[len-1], every scanner / Init below the modelled directives, and mergeActions
   (the inherited default disruptive action always exists, so no action with a nil F is initialised) *)
Theorem np_compile_config_total : forall text, np_compile_config text <> Panic.
Proof.
  intros. unfold np_compile_config. apply np_cbind_not_panic; [apply np_parse_lines_total|]. intros; discriminate.
Qed.

(* ---- the invariant request time relies on: every compiled setvar has its key macro ---- *)
Definition np_rule_wf (r : np_crule) : Prop := Forall (fun sv => sv_key sv <> None) (cr_setvars r).
Definition np_rules_wf (rules : list np_crule) : Prop := Forall np_rule_wf rules.

Lemma np_action_init_wf r k v r' : np_rule_wf r -> np_action_init r k v = Ok (Some r') -> np_rule_wf r'.
Proof.
  unfold np_action_init, np_rule_wf. intros Hwf.
  repeat match goal with
         | |- (if ?c then _ else _) = _ -> _ => destruct c
         | |- match ?x with _ => _ end = _ -> _ => destruct x eqn:?
         | |- np_bind ?o _ = _ -> _ => destruct o eqn:?; cbn [np_bind]
         end; intros H; try discriminate; inversion H; subst; cbn; auto.
  apply Forall_app; split; [exact Hwf|]. constructor; [|constructor].
  eapply np_setvar_init_key_present; eassumption.
Qed.

Lemma np_apply_actions_wf : forall acts r r', np_rule_wf r -> np_apply_actions r acts = Ok (Some r') -> np_rule_wf r'.
Proof.
  induction acts as [|a t IH]; intros r r' Hwf; cbn [np_apply_actions]; intros H.
  - inversion H; subst; exact Hwf.
  - destruct (np_action_init r (ra_key a) (ra_val a)) as [[r1|]| |] eqn:E; cbn [np_cbind] in H; try discriminate.
    eapply IH; [eapply np_action_init_wf; eassumption | exact H].
Qed.

Lemma np_apply_merged_wf : forall l r r', np_rule_wf r -> np_apply_merged r l = Ok (Some r') -> np_rule_wf r'.
Proof.
  induction l as [|o t IH]; intros r r' Hwf; cbn [np_apply_merged]; intros H.
  - inversion H; subst; exact Hwf.
  - destruct o as [a|]; [|discriminate].
    destruct (np_is_metadata (ra_key a)); [eapply IH; eassumption|].
    destruct (np_action_init r (ra_key a) (ra_val a)) as [[r1|]| |] eqn:E; cbn [np_cbind] in H; try discriminate.
    eapply IH; [eapply np_action_init_wf; eassumption | exact H].
Qed.

Lemma np_compile_actions_wf defs r text r' : np_rule_wf r -> np_compile_actions defs r text = Ok (Some r') -> np_rule_wf r'.
Proof.
  unfold np_compile_actions, np_apply_parsed. intros Hwf H.
  destruct (np_parse_actions text) as [acts| |]; cbn [np_bind] in H; try discriminate.
  destruct (np_apply_actions r _) as [[r1|]| |] eqn:E; cbn [np_cbind] in H; try discriminate.
  eapply np_apply_merged_wf; [eapply np_apply_actions_wf; eassumption | exact H].
Qed.

Lemma np_parse_rule_wf dl b data r : np_parse_rule dl b data = Ok (Some r) -> np_rule_wf r.
Proof.
  unfold np_parse_rule. destruct (np_trim_space data); [discriminate|].
  destruct (np_defaults dl) as [defs| |]; cbn [np_bind]; try discriminate.
  destruct b.
  - destruct (np_parse_action_operator data) as [[[vars op] acts]| |]; cbn [np_bind]; try discriminate.
    destruct (np_parse_variables vars) as [pv| |]; cbn [np_bind]; try discriminate.
    destruct (np_parse_operator op) as [o| |]; cbn [np_bind]; try discriminate.
    match goal with |- (if ?c then _ else _) = _ -> _ => destruct c end; [discriminate|].
    destruct (np_len acts =? 0).
    + intros H; inversion H; constructor.
    + apply np_compile_actions_wf. constructor.
  - destruct (np_maybe_remove_quotes data) as [raw| |]; cbn [np_bind]; try discriminate.
    apply np_compile_actions_wf. constructor.
Qed.

Lemma np_rules_add_wf rules r rules' : np_rules_wf rules -> np_rule_wf r -> np_rules_add rules r = Ok rules' -> np_rules_wf rules'.
Proof.
  unfold np_rules_add. intros H1 H2. match goal with |- (if ?c then _ else _) = _ -> _ => destruct c end; [discriminate|].
  intros H; inversion H. apply Forall_app; split; [exact H1|constructor; [exact H2|constructor]].
Qed.

Lemma np_filter_wf f rules : np_rules_wf rules -> np_rules_wf (filter f rules).
Proof.
  unfold np_rules_wf. rewrite !Forall_forall. intros H x Hx. apply filter_In in Hx as [Hx _]. auto.
Qed.

Lemma np_withr_inv {A B} (o : outcome A) (b : B) st : np_lift (do! x <- o; Ok (x, b)) = Ok (Some st) -> o = Ok (fst st).
Proof. destruct o; cbn; intros H; try discriminate. inversion H; reflexivity. Qed.

Lemma np_evaluate_line_wf st l st' : np_rules_wf (fst st) -> np_evaluate_line st l = Ok (Some st') -> np_rules_wf (fst st').
Proof.
  unfold np_evaluate_line. destruct st as [rules dl]. cbn [fst]. intros Hwf.
  destruct (np_len l =? 0); [discriminate|].
  destruct (np_at l 0) as [c| |]; cbn [np_bind]; try discriminate.
  destruct (isb c 35); [discriminate|].
  destruct (np_cut 32 l) as [[dir opts0] fnd].
  match goal with |- np_bind ?o _ = _ -> _ => destruct o as [opts| |]; cbn [np_bind]; try discriminate end.
  assert (Hadd : forall b, (do? r <- np_parse_rule dl b opts; np_lift (do! x <- np_rules_add rules r; Ok (x, dl))) = Ok (Some st') -> np_rules_wf (fst st')).
  { intros b H. destruct (np_parse_rule dl b opts) as [[r|]| |] eqn:E; cbn [np_cbind] in H; try discriminate.
    apply np_withr_inv in H. eapply np_rules_add_wf; [exact Hwf | eapply np_parse_rule_wf; exact E | exact H]. }
  repeat match goal with |- (if ?c then _ else _) = _ -> _ => destruct c end; try discriminate; try apply Hadd.
  - intros H. apply np_withr_inv in H. eapply np_rules_add_wf; [exact Hwf | | exact H]. unfold np_rule_wf; cbn; constructor.
  - intros H. apply np_withr_inv in H. unfold np_rules_delete_by_msg in H.
    match type of H with np_bind ?o _ = _ => destruct o; cbn [np_bind] in H; try discriminate end.
    injection H as H1. rewrite <- H1. apply np_filter_wf; exact Hwf.
  - intros H; inversion H; subst; exact Hwf.
Qed.

Lemma np_parse_lines_wf : forall lines buf inbt st st',
  np_rules_wf (fst st) -> np_parse_lines lines buf inbt st = Ok (Some st') -> np_rules_wf (fst st').
Proof.
  induction lines as [|raw rest IH]; intros buf inbt st st' Hwf; cbn [np_parse_lines].
  - destruct inbt; [discriminate|]. intros H; inversion H; subst; exact Hwf.
  - set (line := np_trim_space (np_drop_cr raw)).
    destruct (np_len line =? 0); [apply IH; exact Hwf|].
    destruct (np_at line 0) as [c| |]; cbn [np_bind]; try discriminate.
    destruct (isb c 35); [apply IH; exact Hwf|].
    destruct (np_at line (np_len line - 1)) as [c0| |]; cbn [np_bind]; try discriminate.
    match goal with |- (if ?c then _ else _) = _ -> _ => destruct c end; [apply IH; exact Hwf|].
    destruct (isb c0 92); [apply IH; exact Hwf|].
    destruct (np_evaluate_line st (buf ++ line)) as [[rs|]| |] eqn:E; cbn [np_cbind]; try discriminate.
    apply IH. eapply np_evaluate_line_wf; eassumption.
Qed.

Theorem np_compile_config_wf : forall text rules, np_compile_config text = Ok (Some rules) -> np_rules_wf rules.
Proof.
  intros text rules. unfold np_compile_config.
  destruct (np_parse_lines _ _ _ _) as [[st|]| |] eqn:E; cbn [np_cbind]; try discriminate.
  intros H; inversion H; subst. eapply np_parse_lines_wf; [|exact E]. constructor.
Qed.

(* the seeded variant of mergeActions (block is skipped when the default disruptive action is picked)
   reaches the nil F: documentation of seeded/C07-j on the model *)
Example np_merge_skipping_block_reaches_nil :
  np_last_disr (filter (fun a => negb (np_is_block a))
                 [ {| ra_key := bs "phase"; ra_val := bs "1"; ra_disr := false |}; {| ra_key := bs "block"; ra_val := []; ra_disr := true |} ]) None = None.
Proof. reflexivity. Qed.

(* ---- request time ---- *)
Lemma np_run_setvars_total base : forall svs kv, Forall (fun sv => sv_key sv <> None) svs -> np_run_setvars base svs kv <> Panic.
Proof.
  induction svs as [|sv t IH]; intros kv Hwf; cbn [np_run_setvars]; [discriminate|].
  inversion Hwf; subst.
  apply np_bind_not_panic; [apply np_setvar_eval_total; assumption|]. intros e _. apply IH; assumption.
Qed.

Lemma np_run_rule_total base r st : np_rule_wf r -> np_run_rule base r st <> Panic.
Proof.
  intros Hwf. unfold np_run_rule. destruct st as [kv log].
  destruct (cr_marker r); [discriminate|]. destruct (cr_hasop r || cr_disr r); [discriminate|].
  apply np_bind_not_panic; [apply np_run_setvars_total; exact Hwf|]. intros kv' _.
  apply np_bind_not_panic; [destruct (cr_msg r); [apply np_expand_total|discriminate]|]. intros m _.
  apply np_bind_not_panic; [destruct (cr_logdata r); [apply np_expand_total|discriminate]|]. intros; discriminate.
Qed.

Lemma np_run_phase_total base p : forall rules st, np_rules_wf rules -> np_run_phase base p rules st <> Panic.
Proof.
  induction rules as [|r t IH]; intros st Hwf; cbn [np_run_phase]; [discriminate|].
  inversion Hwf; subst.
  destruct (cr_marker r || (cr_phase r =? p)); [|apply IH; assumption].
  apply np_cbind_not_panic; [apply np_run_rule_total; assumption|]. intros; apply IH; assumption.
Qed.

(* the five phases over ANY well-formed compiled rule list, ANY collections, ANY TX state *)
Theorem np_run_config_total : forall base rules kv, np_rules_wf rules -> np_run_config base rules kv <> Panic.
Proof.
  intros base rules kv Hwf. unfold np_run_config.
  repeat (apply np_cbind_not_panic; [apply np_run_phase_total; exact Hwf | intros ? _]).
  apply np_run_phase_total; exact Hwf.
Qed.

(* whole pipeline: no configuration text makes compilation panic, and no accepted configuration
   of the fragment makes the transaction panic, whatever the other collections hold *)
Theorem np_compile_and_run_total : forall base text, np_compile_and_run base text <> Panic.
Proof.
  intros base text. unfold np_compile_and_run.
  apply np_cbind_not_panic; [apply np_compile_config_total|].
  intros rules H. apply np_run_config_total. eapply np_compile_config_wf; exact H.
Qed.

(* the fragment is not empty and not trivial: a configuration that compiles to three rules and
   whose transaction sets, increments, deletes and expands *)
Example np_pipeline_example :
  np_compile_and_run (fun _ => Some (COther []))
    (str "SecAction ""id:1,phase:1,pass,setvar:tx.a=5,setvar:tx.a=+2,msg:'a is %{tx.a}'""
SecMarker END
SecAction ""id:2,phase:2,nolog,setvar:!tx.a,setvar:tx.b=%{tx.a}x""
"%string)
  = Ok (Some ([(str "b"%string, [str "tx.ax"%string])], [(1, str "a is 7"%string); (2, [])])).
Proof. vm_compute. reflexivity. Qed.
