(* CorrC04.v — correspondence checker for C04: evaluates Determinism.run on the configuration and
   request the Go harness ran and compares the canonical outcome with the observed one. *)
From Verif Require Import Base Transform Determinism.
Open Scope N_scope.

(* the outcome as observed on the real transaction *)
Record xobs := mkX {
  x_intr : option (nat * N);               (* Interruption(): rule id, status *)
  x_fired : list (nat * list entry);       (* MatchedRules(): id, MatchedDatas (variable, key, value) *)
  x_tx : list (bytes * bytes);             (* TX collection without TX.0-9 *)
  x_hs : bytes }.                          (* HIGHEST_SEVERITY *)

Inductive case :=
  (* order-insensitive configuration: the guard holds and the model gives the observed outcome
     (with the identity oracle and with the reversing oracle) *)
  | CI (cfg : list rule) (rq : request) (o : xobs)
  (* order-sensitive configuration (known finding F26): the guard is false and every observed
     outcome is produced by one of the 2^steps oracles reversing a subset of the selections *)
  | CS (cfg : list rule) (rq : request) (steps : nat) (os : list xobs).

Fixpoint remove_one {A} (eqb : A -> A -> bool) (x : A) (l : list A) : option (list A) :=
  match l with
  | [] => None
  | y :: r => if eqb x y then Some r
              else match remove_one eqb x r with Some r' => Some (y :: r') | None => None end
  end.

(* multiset equality *)
Fixpoint perm_b {A} (eqb : A -> A -> bool) (a b : list A) : bool :=
  match a with
  | [] => match b with [] => true | _ => false end
  | x :: a' => match remove_one eqb x b with Some b' => perm_b eqb a' b' | None => false end
  end.

Definition intr_eqb (a b : option (nat * N)) : bool :=
  match a, b with
  | None, None => true
  | Some (i, s), Some (j, t) => Nat.eqb i j && (s =? t)
  | _, _ => false
  end.

Fixpoint fired_eqb (a b : list (nat * list entry)) : bool :=
  match a, b with
  | [], [] => true
  | (i, m) :: a', (j, n) :: b' => Nat.eqb i j && perm_b entry_eqb m n && fired_eqb a' b'
  | _, _ => false
  end.

Definition kv_eqb (a b : bytes * bytes) : bool := bytes_eqb (fst a) (fst b) && bytes_eqb (snd a) (snd b).

Definition obs_match (m : obs) (x : xobs) : bool :=
  intr_eqb (o_intr m) (x_intr x)
  && fired_eqb (o_fired m) (x_fired x)
  && perm_b kv_eqb (map (fun kv => (fst kv, render (snd kv))) (o_tx m)) (x_tx x)
  && bytes_eqb (itoa (o_hs m)) (x_hs x).

Fixpoint masks (n : nat) : list N :=
  match n with O => [0] | S k => masks k ++ map (fun m => m + 2 ^ N.of_nat k) (masks k) end.

Definition ok (c : case) : bool :=
  match c with
  | CI cfg rq o =>
    order_insensitive cfg
    && obs_match (observe (run cfg rq ord_id)) o
    && obs_match (observe (run cfg rq ord_rev)) o
  | CS cfg rq steps os =>
    negb (order_insensitive cfg)
    && forallb (fun o => existsb (fun m => obs_match (observe (run cfg rq (ord_mask m))) o) (masks steps)) os
  end.

Definition mismatches (l : list case) : list nat := mismatches_of ok l.
