(* CorrC07.v — correspondence checker for C07: evaluates the NoPanic.v models on the inputs the
   Go harness ran against the real code and compares {Ok, Err, Panic} (and the values where both
   sides produce one) with what was observed. *)
From Coq Require Import String.
From Verif Require Import Base NoPanic NoPanicConfig.
Open Scope Z_scope.

(* transaction state as dumped by the harness: variable id -> what tx.Collection(v) returned *)
Definition txtab := list (N * option np_coll).

Fixpoint tab_find (v : N) (t : txtab) : option (option np_coll) :=
  match t with
  | [] => None
  | (v', c) :: r => if (v =? v')%N then Some c else tab_find v r
  end.

(* [txkv] overrides the TX collection of the shared base table *)
Definition tx_of (base : txtab) (txkv : list (bytes * list bytes)) : np_tx :=
  fun v => if (v =? np_var_tx)%N then Some (CKeyed txkv)
           else match tab_find v base with Some c => c | None => Some (COther []) end.

Inductive case :=
  (* NewMacro(data) then Expand: st 0 = ok (out = expansion), 1 = error, 2 = panic *)
  | CMacro (base : txtab) (txkv : list (bytes * list bytes)) (data : bytes) (st : N) (out : bytes)
  (* setvar Init(data) then Evaluate: st 0 ok (after = TX afterwards), 1 Init error, 2 panic *)
  | CSetvar (base : txtab) (txkv : list (bytes * list bytes)) (data : bytes) (st : N) (after : list (bytes * list bytes))
  | CCqs (s : bytes) (st : N) (a b : bytes)
  | CPao (s : bytes) (st : N) (vars op acts : bytes)
  | CPa (s : bytes) (st : N) (kvs : list (bytes * bytes))
  (* ParseOperator: st 0 ok, 1 "operator .. not found", 2 other error (operator's own validation), 3 panic *)
  | COp (s : bytes) (st : N)
  (* ParseVariables: st 0 ok, 1 error, 2 error from regexp.Compile, 3 panic *)
  | CPv (s : bytes) (st : N)
  | CDel (rules : list (Z * option bytes)) (msg : bytes) (st : N) (remaining : list Z)
  (* WriteRequestBody/WriteResponseBody: st 0 returned (n bytes written), 1 error, 2 panic *)
  | CWb (partial : bool) (limit buffered blen : Z) (st : N) (n : Z)
  (* memoize call sites (index into np_sites_fixed) with texts, compiled into one WAF *)
  | CMemo (calls : list (nat * bytes)) (panicked : bool)
  (* a whole configuration of the modelled fragment: st 0 accepted (rules = id, phase, msg text), 1 rejected, 2 panic *)
  | CConfig (text : bytes) (st : N) (rules : list (Z * Z * option bytes))
  (* ... compiled and driven through the five phases: TX afterwards and (rule id, message) of the matched rules *)
  | CRun (base : txtab) (text : bytes) (st : N) (init after : list (bytes * list bytes)) (log : list (Z * bytes)).

Fixpoint list_bytes_eqb (a b : list bytes) : bool :=
  match a, b with
  | [], [] => true
  | x :: a', y :: b' => bytes_eqb x y && list_bytes_eqb a' b'
  | _, _ => false
  end.

Definition kv_sub (a b : list (bytes * list bytes)) : bool :=
  forallb (fun kv => list_bytes_eqb (np_assoc (fst kv) a) (np_assoc (fst kv) b)) a.
Definition kv_equiv (a b : list (bytes * list bytes)) : bool := kv_sub a b && kv_sub b a.

Fixpoint kv_remove (k : bytes) (l : list (bytes * list bytes)) : list (bytes * list bytes) :=
  match l with
  | [] => []
  | (k', v) :: r => if bytes_eqb k k' then kv_remove k r else (k', v) :: kv_remove k r
  end.

Definition apply_effect (e : np_sv_effect) (kv : list (bytes * list bytes)) : list (bytes * list bytes) :=
  match e with
  | SvNone => kv
  | SvRemove k => kv_remove k kv
  | SvSet k v => (k, [v]) :: kv_remove k kv
  end.

Fixpoint zlist_eqb (a b : list Z) : bool :=
  match a, b with
  | [], [] => true
  | x :: a', y :: b' => (x =? y) && zlist_eqb a' b'
  | _, _ => false
  end.

Fixpoint pairs_eqb (a : list np_raction) (b : list (bytes * bytes)) : bool :=
  match a, b with
  | [], [] => true
  | x :: a', (k, v) :: b' => bytes_eqb (ra_key x) k && bytes_eqb (ra_val x) v && pairs_eqb a' b'
  | _, _ => false
  end.

Definition opt_bytes_eqb (a b : option bytes) : bool :=
  match a, b with Some x, Some y => bytes_eqb x y | None, None => true | _, _ => false end.
Fixpoint rules_eqb (a : list np_crule) (b : list (Z * Z * option bytes)) : bool :=
  match a, b with
  | [], [] => true
  | r :: a', (i, p, m) :: b' => (cr_id r =? i) && (cr_phase r =? p) && opt_bytes_eqb (cr_msgtext r) m && rules_eqb a' b'
  | _, _ => false
  end.
Fixpoint log_eqb (a b : list (Z * bytes)) : bool :=
  match a, b with
  | [], [] => true
  | (i, m) :: a', (j, n) :: b' => (i =? j) && bytes_eqb m n && log_eqb a' b'
  | _, _ => false
  end.

Definition ok (c : case) : bool :=
  match c with
  | CMacro base txkv data st out =>
    match np_new_macro data with
    | Ok toks => match np_expand true (tx_of base txkv) toks with
                 | Ok o => (st =? 0)%N && bytes_eqb o out
                 | Err => false
                 | Panic => (st =? 2)%N
                 end
    | Err => (st =? 1)%N
    | Panic => (st =? 2)%N
    end
  | CSetvar base txkv data st after =>
    match np_setvar_init data with
    | Ok sv => match np_setvar_eval true sv (tx_of base txkv) with
               | Ok e => (st =? 0)%N && kv_equiv (apply_effect e txkv) after
               | Err => false
               | Panic => (st =? 2)%N
               end
    | Err => (st =? 1)%N
    | Panic => (st =? 2)%N
    end
  | CCqs s st a b =>
    match np_cut_quoted_string s with
    | Ok (a', b') => (st =? 0)%N && bytes_eqb a a' && bytes_eqb b b'
    | Err => (st =? 1)%N
    | Panic => (st =? 2)%N
    end
  | CPao s st v o a =>
    match np_parse_action_operator s with
    | Ok (v', o', a') => (st =? 0)%N && bytes_eqb v v' && bytes_eqb o o' && bytes_eqb a a'
    | Err => (st =? 1)%N
    | Panic => (st =? 2)%N
    end
  | CPa s st kvs =>
    match np_parse_actions s with
    | Ok res => (st =? 0)%N && pairs_eqb res kvs
    | Err => (st =? 1)%N
    | Panic => (st =? 2)%N
    end
  | COp s st =>
    match np_parse_operator s with
    | Ok _ => (st =? 0)%N || (st =? 2)%N
    | Err => (st =? 1)%N
    | Panic => (st =? 3)%N
    end
  | CPv s st =>
    match np_parse_variables s with
    | Ok r => if pv_sawrx r then (st =? 0)%N || (st =? 2)%N else (st =? 0)%N
    | Err => (st =? 1)%N || (st =? 2)%N
    | Panic => (st =? 3)%N
    end
  | CDel rules msg st remaining =>
    match np_delete_by_msg true (map (fun p => {| r_id := fst p; r_msg := snd p |}) rules) msg with
    | Ok l => (st =? 0)%N && zlist_eqb (map r_id l) remaining
    | Err => false
    | Panic => (st =? 2)%N
    end
  | CWb partial limit buffered blen st n =>
    match np_write_body WbCompareFirst partial limit buffered blen with
    | Ok (Some m) => (st =? 0)%N && (n =? m)
    | Ok None => (st =? 0)%N && (n =? 0)
    | Err => (st =? 1)%N
    | Panic => (st =? 2)%N
    end
  | CConfig text st rules =>
    match np_compile_config text with
    | Ok (Some rs) => (st =? 0)%N && rules_eqb rs rules
    | Ok None => false            (* the generator must stay inside the modelled fragment *)
    | Err => (st =? 1)%N
    | Panic => (st =? 2)%N
    end
  | CRun base text st init after log =>
    match np_compile_config text with
    | Ok (Some rs) =>
      forallb np_rule_static rs &&
      match np_run_config (tx_of base init) rs init with
      | Ok (Some (kv, lg)) => (st =? 0)%N && kv_equiv kv after && log_eqb lg log
      | Ok None => false
      | Err => false
      | Panic => (st =? 2)%N
      end
    | Ok None => false
    | Err => (st =? 1)%N
    | Panic => (st =? 2)%N
    end
  | CMemo calls p =>
    Bool.eqb p (np_memo_run [] (map (fun c => (nth (fst c) np_sites_fixed {| ms_prefix := []; ms_type := 0%N |}, snd c, false)) calls))
  end.

Definition mismatches (l : list case) : list nat := mismatches_of ok l.
