(* Props/C17.v — the property theorems of C17 and nothing else.
   C17: rule exclusions and updates equal the rewritten rule set. *)
From Verif Require Import Base Config ConfigProofs.

Theorem C17_ctl_local : forall rx rules rqs1 rq rqs2,
  nth (length rqs1) (cf_serve rx rules (rqs1 ++ rq :: rqs2)) ([], None) = cf_outcome rx rules rq.
Proof. exact serve_local. Qed.
Print Assumptions C17_ctl_local.
