(* Props/C06.v — the property theorems of C06 (a WAF is safe to share).
   PARTIAL BY NATURE: data races in the sense of the Go memory model, and deadlocks inside sync /
   singleflight / log, cannot be exhibited by a Gallina model; they are searched by the -race stress
   run of the harness (supporting validation).  What is logic is proved here, over ALL schedules.
   The hypothesis "an evaluation step does not write the WAF" of the first theorem is what the
   regenerated footprint facts (coq/gen/FactsC06.v, shared_writes_justified) tie to the code. *)
From Coq Require Import List Permutation.
From Verif Require Import Base Conc ConcProofs.
Import ListNotations.

(* For every interleaving (and every choice of pooled objects by sync.Pool), what a transaction
   observes of itself - where it is, what it returned, the state of its Transaction object - equals
   what it observes running alone for as many steps; provided evaluation steps do not write the WAF and
   newTransaction (init, applied to whatever the recycled object holds) leaves nothing of that content *)
Theorem C06_outcome_schedule_independent :
  forall (W Inp Act Cont Rec : Type) (init : W -> Inp -> Cont -> Cont)
         (eval : W -> Inp -> Act -> Cont -> W * Cont) (render : Cont -> Rec),
  (forall w i a c, fst (eval w i a c) = w) ->
  (forall w i c c', init w i c = init w i c') ->
  forall sched s ls i li,
    gm_inv s ls -> nth_error ls i = Some li ->
    exists li', nth_error (snd (gm_run init eval render sched (s, ls))) i = Some li' /\
      gm_obs (fst (gm_run init eval render sched (s, ls))) li' =
      gm_obs (fst (gm_solo init eval render (gm_count i sched) s li))
             (snd (gm_solo init eval render (gm_count i sched) s li)).
Proof. exact gm_outcome_schedule_independent. Qed.
Print Assumptions C06_outcome_schedule_independent.

(* the invariant behind it: in every interleaving, live transactions hold pairwise distinct objects,
   none of which is in the pool (given that a transaction closes at most once - see C05 / F22) *)
Theorem C06_live_transactions_never_alias :
  forall (W Inp Act Cont Rec : Type) (init : W -> Inp -> Cont -> Cont)
         (eval : W -> Inp -> Act -> Cont -> W * Cont) (render : Cont -> Rec),
  forall sched s ls, gm_inv s ls ->
    gm_inv (fst (gm_run init eval render sched (s, ls))) (snd (gm_run init eval render sched (s, ls))).
Proof. exact gm_inv_run. Qed.
Print Assumptions C06_live_transactions_never_alias.

(* the model of doEvaluate's exclusion merge as the code is now (clipped append) satisfies the
   hypothesis, hence: unconditional schedule independence for it *)
Theorem C06_exclusion_merge_schedule_independent : forall sched s ls i li,
  gm_inv s ls -> nth_error ls i = Some li ->
  exists li', nth_error (snd (cc_run sched (s, ls))) i = Some li' /\
    gm_obs (fst (cc_run sched (s, ls))) li' =
    gm_obs (fst (cc_solo (gm_count i sched) s li)) (snd (cc_solo (gm_count i sched) s li)).
Proof. exact cc_outcome_schedule_independent. Qed.
Print Assumptions C06_exclusion_merge_schedule_independent.

(* ... and the shared rule (slice headers and backing arrays) is the same after any schedule *)
Theorem C06_exclusion_merge_never_writes_the_rule : forall sched s ls,
  s_waf (fst (cc_run sched (s, ls))) = s_waf s.
Proof. exact cc_waf_unchanged. Qed.
Print Assumptions C06_exclusion_merge_never_writes_the_rule.

(* append(s[:len:len], x) leaves the shared arrays alone and yields old elements ++ [x] *)
Theorem C06_clipped_append_spec : forall w loc s x,
  sl_len s <= length (cc_array w loc s) ->
  let '(w', loc', s') := cc_merge_append true w loc s x in
  w' = w /\ cc_elems w' loc' s' = cc_elems w loc s ++ [x].
Proof.
  intros w loc s x H. pose proof (cc_append_clipped_elems w loc s x H) as E.
  pose proof (cc_append_clipped_shared_unchanged w loc s x) as U.
  destruct (cc_merge_append true w loc s x) as [[w' loc'] s']. split; [exact U | exact E].
Qed.
Print Assumptions C06_clipped_append_spec.

(* refinement to a declarative spec: a transaction run alone on the rule V|!V:e1|..|!V:en "@contains
   needle" with per-transaction exclusions ecol matches exactly the arguments whose value contains
   the needle and whose name is excluded neither by the rule nor by the transaction.  With
   C06_exclusion_merge_schedule_independent: the same holds inside every interleaving *)
Theorem C06_run_alone_outcome_is_the_selection : forall excs needle inp,
  cc_solo_outcome true (cc_waf_of excs needle) inp = cc_select needle (excs ++ in_ecol inp) (in_args inp).
Proof. exact cc_solo_outcome_spec. Qed.
Print Assumptions C06_run_alone_outcome_is_the_selection.

(* F27 (repaired by 9f1a0e9): with the unclipped append of the earlier code there is a schedule of
   two transactions on ARGS|!ARGS:x|!ARGS:y|!ARGS:z after which transaction 0's outcome differs
   from its run-alone outcome, and the shared rule has been written *)
Theorem C06_unclipped_append_refuted :
  gm_inv (fst f27_state) (snd f27_state) /\
  let st := gm_run cc_init (cc_eval false) cc_render f27_sched f27_state in
  let alone := gm_solo cc_init (cc_eval false) cc_render (gm_count 0 f27_sched) (fst f27_state) (cc_tx f27_waf f27_inA) in
  option_map (fun l => option_map lc_matched (l_out l)) (nth_error (snd st) 0) <>
  Some (option_map lc_matched (l_out (snd alone))) /\
  s_waf (fst st) <> f27_waf.
Proof. exact cc_unclipped_refuted. Qed.
Print Assumptions C06_unclipped_append_refuted.

(* in every interleaving of goroutines interning transformation chains (one atomic step per
   transformationID call), from any well-formed table: two ids are equal iff the chains are *)
Theorem C06_intern_injective : forall sched t0 chainss,
  it_wf t0 ->
  let st := it_run sched (t0, map it_start chainss) in
  forall li lj c1 id1 c2 id2,
    In li (snd st) -> In lj (snd st) -> In (c1, id1) (b_done li) -> In (c2, id2) (b_done lj) ->
    (id1 = id2 <-> c1 = c2).
Proof. exact it_intern_injective. Qed.
Print Assumptions C06_intern_injective.

(* in every interleaving of the steps of Do / Release of any goroutines: an entry reachable from
   the cache is not marked deleted and has an owner; every completed Do returned fn key *)
Theorem C06_memo_refcount : forall fn sched opss,
  let st := mm_run fn sched (mm_empty, map mm_start opss) in
  (forall k a, al_get (m_map (fst st)) k = Some a -> mm_live (m_ents (fst st)) a k) /\
  (forall l k r c, In l (snd st) -> In (k, r, c) (t_res l) -> r = fn k).
Proof. exact mm_memo_refcount. Qed.
Print Assumptions C06_memo_refcount.

(* any interleaving of the writers' atomic appends is a sequence of whole records: a permutation
   of the records written so far *)
Theorem C06_whole_records : forall sched ws,
  exists emitted,
    fst (au_run sched ([], ws)) = flat_map au_frame emitted /\
    Permutation (emitted ++ concat (snd (au_run sched ([], ws)))) (concat ws).
Proof. exact au_whole_records. Qed.
Print Assumptions C06_whole_records.

(* the check applied to an observed log file is sound: the log is produced by the model under the
   schedule it returns, with every writer finished *)
Theorem C06_audit_explain_sound : forall fuel ws log sch,
  au_explain fuel ws log = Some sch ->
  forall log0, fst (au_run sch (log0, ws)) = (log0 ++ log)%list /\
               forallb (fun w => match w with [] => true | _ => false end) (snd (au_run sch (log0, ws))) = true.
Proof. exact au_explain_sound. Qed.
Print Assumptions C06_audit_explain_sound.

(* the concurrent audit writer (index file behind cl.mux, `defer Unlock`): for every interleaving and
   EVERY outcome (success / failure) of every index write, the mutex is held exactly when one
   goroutine is between Lock and its deferred Unlock; it is free whenever no Write is in progress *)
Theorem C06_concurrent_writer_lock_released : forall sched wss,
  let st := cw_run false sched (cw_sh0, map cw_start wss) in
  cw_holders (snd st) = (if cw_locked (fst st) then 1 else 0) /\
  ((forall l, In l (snd st) -> cw_pcv l = CWIdle) -> cw_locked (fst st) = false).
Proof. exact cw_lock_released. Qed.
Print Assumptions C06_concurrent_writer_lock_released.

(* no deadlock among writers sharing one audit log: while some goroutine has a Write to finish, some
   goroutine makes progress at its next step whatever the outcome of its write (cw_size decreases) *)
Theorem C06_concurrent_writer_no_deadlock : forall sched wss,
  let st := cw_run false sched (cw_sh0, map cw_start wss) in
  (exists l, In l (snd st) /\ cw_busy l = true) ->
  exists i l, nth_error (snd st) i = Some l /\
    forall fb, cw_size (snd (cw_step false fb (fst st) l)) < cw_size l.
Proof. exact cw_no_deadlock. Qed.
Print Assumptions C06_concurrent_writer_no_deadlock.

(* the variant "explicit Unlock after the loop + early return on a failed write" is refuted: after one
   failed index write the mutex is locked with no holder and a later Write blocks forever *)
Theorem C06_concurrent_writer_early_return_refuted :
  let st := cw_run true cw_bad_sched (cw_sh0, [cw_start [[[1%N]; [2%N]]]; cw_start [[[3%N]]]]) in
  cw_locked (fst st) = true /\ cw_holders (snd st) = 0 /\
  exists l, nth_error (snd st) 1 = Some l /\ cw_busy l = true /\
            forall fb, cw_step true fb (fst st) l = (fst st, l).
Proof. exact cw_early_return_refuted. Qed.
Print Assumptions C06_concurrent_writer_early_return_refuted.

(* per-transaction settings (body limits, engine modes, ... overwritten by ctl): when newTransaction
   re-copies every setting from the WAF on every call, then for every interleaving and every choice
   of pooled objects the settings a transaction works with, and every outcome depending on them,
   are those of the transaction run alone *)
Theorem C06_settings_schedule_independent : forall mask, Forall (fun b => b = true) mask ->
  forall sched s ls i li,
  gm_inv s ls -> nth_error ls i = Some li ->
  exists li', nth_error (snd (gm_run (st_init mask) st_eval st_render sched (s, ls))) i = Some li' /\
    gm_obs (fst (gm_run (st_init mask) st_eval st_render sched (s, ls))) li' =
    gm_obs (fst (gm_solo (st_init mask) st_eval st_render (gm_count i sched) s li))
           (snd (gm_solo (st_init mask) st_eval st_render (gm_count i sched) s li)).
Proof. exact st_outcome_schedule_independent. Qed.
Print Assumptions C06_settings_schedule_independent.

(* refuted when one setting is only copied on the first use of a pooled object: a ctl of transaction 0
   leaks through the pool into transaction 1, whose outcome differs from its outcome alone *)
Theorem C06_setting_copied_on_first_use_only_refuted :
  gm_inv (fst st_leak_state) (snd st_leak_state) /\
  let st := gm_run (st_init [false]) st_eval st_render st_leak_sched st_leak_state in
  let alone := gm_solo (st_init [false]) st_eval st_render (gm_count 1 st_leak_sched) (fst st_leak_state) (st_tx [SObs 0 200]) in
  option_map (fun l => option_map st_out (l_out l)) (nth_error (snd st) 1) = Some (Some [false]) /\
  option_map st_out (l_out (snd alone)) = Some [true].
Proof. exact st_first_use_only_refuted. Qed.
Print Assumptions C06_setting_copied_on_first_use_only_refuted.
