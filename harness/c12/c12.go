// Package c12 drives the correspondence for C12 (sharing transformation work between rules
// never substitutes a wrong value).
//
// Three kinds of cases:
//   - direct: adversarial call sequences of Rule.transformArg / transformMultiMatchArg on one
//     real cache (colliding key pointers, positions, variables; values that change between
//     calls); per call the returned value(s) and errors, at the end the dump of the real cache,
//     compared with TCache.tc_eval_calls and its final state;
//   - waf: real WAFs built with seclang, rule sequences sharing full/partial transformation
//     lists over the same/different targets, real transactions with repeated argument names;
//     per rule the multiset of values the operator saw (MatchedDatas of an always-matching
//     operator) and the logged transformation errors, compared with the model's UNCACHED
//     transformation of every selected value; the dump of the transaction's cache after each
//     phase is checked against the invariant; AND the property's own oracle: the same
//     transaction against the same rules with every transformation list prefixed by a distinct
//     identity transformation registered through experimental/plugins (no cache entry can be
//     shared): outcomes must be equal; every case is repeated (hash order);
//   - intern: t: lists compiled by seclang; the real prefix ids against TCache.it_compile.
package c12

import (
	"encoding/json"
	"errors"
	"fmt"
	"io"
	"math/rand"
	"os"
	"sort"
	"strconv"
	"strings"

	"github.com/corazawaf/coraza/v3/debuglog"
	"github.com/corazawaf/coraza/v3/experimental/plugins"
	"github.com/corazawaf/coraza/v3/internal/corazarules"
	"github.com/corazawaf/coraza/v3/internal/corazawaf"
	"github.com/corazawaf/coraza/v3/internal/seclang"
	"github.com/corazawaf/coraza/v3/internal/transformations"
	"github.com/corazawaf/coraza/v3/internal/variables"
	"github.com/corazawaf/coraza/v3/verifharness/vh"
)

func init() { vh.Register("C12", Run) }

// ---------------------------------------------------------------------------------------
// transformations
// ---------------------------------------------------------------------------------------

type tdesc struct {
	Go   string // name as written in t:
	Coq  string // CorrC12.ctf term
	Code int    // CorrC12.ctf_code
	Fail bool   // can return an error
}

var builtin = []tdesc{
	{"none", "", 0, false}, // t:none clears; never a ctf (index 0 is skipped by the generators)
	{"length", "(CT TLength)", 1, false},
	{"lowercase", "(CT TLowercase)", 2, false},
	{"uppercase", "(CT TUppercase)", 3, false},
	{"removeNulls", "(CT TRemoveNulls)", 4, false},
	{"replaceNulls", "(CT TReplaceNulls)", 5, false},
	{"trim", "(CT TTrim)", 6, false},
	{"trimLeft", "(CT TTrimLeft)", 7, false},
	{"trimRight", "(CT TTrimRight)", 8, false},
	{"hexEncode", "(CT THexEncode)", 9, false},
	{"hexDecode", "(CT THexDecode)", 10, true},
	{"base64Encode", "(CT TBase64Encode)", 11, false},
	{"base64Decode", "(CT TBase64Decode)", 12, false},
	{"base64DecodeExt", "(CT TBase64DecodeExt)", 13, false},
	{"urlDecode", "(CT TUrlDecode)", 14, false},
	{"urlEncode", "(CT TUrlEncode)", 15, false},
	{"cmdLine", "(CT TCmdLine)", 16, false},
	{"removeCommentsChar", "(CT TRemoveCommentsChar)", 17, false},
	{"replaceComments", "(CT TReplaceComments)", 18, false},
	{"escapeSeqDecode", "(CT TEscapeSeqDecode)", 19, false},
	{"compressWhitespace", "(CT TCompressWhitespace)", 20, false},
	{"removeWhitespace", "(CT TRemoveWhitespace)", 21, false},
	{"utf8toUnicode", "(CT TUtf8ToUnicode)", 22, false},
}

const (
	nFail  = 5
	nIdent = 12
	// bangName is a plugin transformation whose NAME contains '+' (F38): upper-case then "!"
	bangName = "lowercase+trim"
)

var byName = map[string]tdesc{}

// recorders: c12id<k> appends every input it is applied to (the identity-prefixed run records
// the value each rule's transformations start from)
var recOn bool
var recLog [nIdent][]string

func init() {
	for _, td := range builtin[1:] {
		byName[strings.ToLower(td.Go)] = td
	}
	for i := 0; i < nFail; i++ {
		name := fmt.Sprintf("c12fail%d", i)
		plugins.RegisterTransformation(name, func(s string) (string, bool, error) { return s, false, errors.New(name) })
		byName[strings.ToLower(name)] = tdesc{name, fmt.Sprintf("(CFail %d)", i), 100 + i, true}
	}
	for i := 0; i < nIdent; i++ {
		i := i
		name := fmt.Sprintf("c12id%d", i)
		plugins.RegisterTransformation(name, func(s string) (string, bool, error) {
			if recOn {
				recLog[i] = append(recLog[i], s)
			}
			return s, false, nil
		})
		byName[strings.ToLower(name)] = tdesc{name, fmt.Sprintf("(CId %d)", i), 200 + i, false}
	}
	plugins.RegisterTransformation(bangName, func(s string) (string, bool, error) { return strings.ToUpper(s) + "!", true, nil })
	byName[bangName] = tdesc{bangName, "CBang", 300, false}
}

func lookup(name string) (tdesc, bool) {
	td, ok := byName[strings.ToLower(name)]
	return td, ok
}

func errCode(e error) int {
	msg := e.Error()
	if strings.HasPrefix(msg, "c12fail") {
		n, _ := strconv.Atoi(msg[len("c12fail"):])
		return 100 + n
	}
	return 10 // the only modelled built-in that fails is hexDecode
}

func errCodes(es []error) []int {
	r := make([]int, len(es))
	for i, e := range es {
		r[i] = errCode(e)
	}
	return r
}

// ---------------------------------------------------------------------------------------
// case descriptions (JSON: replays and corpus)
// ---------------------------------------------------------------------------------------

type ruleJ struct {
	ID      int      `json:"id,omitempty"`
	Phase   int      `json:"phase,omitempty"`
	Targets string   `json:"targets,omitempty"`
	T       []string `json:"t"`
	Multi   bool     `json:"multi,omitempty"`
	// ChainChild: this rule is the chain link of the previous rule (its id is the parent's + 1
	// by construction and is only used to key the observations)
	ChainChild bool `json:"chain_child,omitempty"`
}

type callJ struct {
	Rule  int    `json:"rule"`
	Var   int    `json:"var"`
	Key   int    `json:"key"` // index into keys (every pool element is its own allocation)
	Idx   int    `json:"idx"`
	Value string `json:"value_hex"`
}

type caseJSON struct {
	Kind       string      `json:"kind"` // direct | waf | intern
	Rules      []ruleJ     `json:"rules"`
	Keys       []string    `json:"keys,omitempty"`
	Calls      []callJ     `json:"calls,omitempty"`
	Query      string      `json:"query,omitempty"`
	Body       string      `json:"body,omitempty"`
	Headers    [][2]string `json:"headers,omitempty"`
	// response side (phases 3 and 4); RespBody "" with NoResponse false still runs the phases
	RespHeaders [][2]string `json:"resp_headers,omitempty"`
	RespBody    string      `json:"resp_body,omitempty"`
	Reps       int         `json:"reps,omitempty"`
	Observed   any         `json:"observed,omitempty"`
	Part       string      `json:"part,omitempty"`
	FindingKey string      `json:"finding_key,omitempty"`
}

func hexs(s string) string { return fmt.Sprintf("%x", s) }
func unhex(h string) string {
	b := make([]byte, len(h)/2)
	for i := range b {
		v, _ := strconv.ParseUint(h[2*i:2*i+2], 16, 8)
		b[i] = byte(v)
	}
	return string(b)
}

// the shards open nat_scope (Prelude), so small naturals are printed bare
func nat(n int) string { return strconv.Itoa(n) }

func natList(l []int) string {
	it := make([]string, len(l))
	for i, n := range l {
		it[i] = nat(n)
	}
	return vh.List(it)
}

func coqChain(names []string) (string, bool) {
	it := make([]string, 0, len(names))
	for _, n := range names {
		td, ok := lookup(n)
		if !ok {
			return "", false
		}
		it = append(it, td.Coq)
	}
	return vh.List(it), true
}

func isASCII(s string) bool {
	for i := 0; i < len(s); i++ {
		if s[i] >= 0x80 {
			return false
		}
	}
	return true
}

// asciiValid (the limit before the Unicode registry; now only used to keep the sampling of the
// older families unchanged): the ASCII Gallina models of lowercase/uppercase (and of the plugin built on ToUpper)
// are byte-exact on ASCII input only; a (chain, input) pair is compared with the model only if
// every value reaching one of them is ASCII (computed with the real functions, uncached).
func asciiValid(names []string, in string) bool {
	v := in
	for _, n := range names {
		ln := strings.ToLower(n)
		if (ln == "lowercase" || ln == "uppercase" || ln == bangName) && !isASCII(v) {
			return false
		}
		fn, err := transformations.GetTransformation(n)
		if err != nil {
			return false
		}
		if o, _, e := fn(v); e == nil {
			v = o
		}
	}
	return true
}

// modelValid: since CorrC12 evaluates CaseMap.apply_tu (strings.ToLower/ToUpper on arbitrary bytes),
// every value is compared with the model.
func modelValid(names []string, in string) bool { return true }

// effective chain of a t: argument list (t:none clears)
func effective(ts []string) []string {
	var r []string
	for _, t := range ts {
		if t == "none" {
			r = nil
			continue
		}
		r = append(r, t)
	}
	return r
}

// ---------------------------------------------------------------------------------------
// run state
// ---------------------------------------------------------------------------------------

type runner struct {
	cfg         vh.Config
	res         *vh.Result
	terms       []string
	cases       []any
	seen        map[string]bool
	nontrivial  int
	oracleEvals int
	nDirect     int
	hits        int // direct calls answered (partly) from the cache — measured through the dump sizes
}

func (rn *runner) fail(key, what string, c any) {
	rn.res.OracleFailures = append(rn.res.OracleFailures, vh.OracleFailure{Key: key, What: what, Case: c})
}

func (rn *runner) emit(term string, cj caseJSON) {
	rn.terms = append(rn.terms, term)
	rn.cases = append(rn.cases, cj)
	rn.res.Evaluations++
}

// ---------------------------------------------------------------------------------------
// direct calls
// ---------------------------------------------------------------------------------------

func buildRule(ts []string, multi bool) (*corazawaf.Rule, error) {
	r := corazawaf.NewRule()
	r.MultiMatch = multi
	for _, t := range ts {
		if t == "none" {
			r.ClearTransformations()
			continue
		}
		fn, err := transformations.GetTransformation(t)
		if err != nil {
			return nil, err
		}
		if err := r.AddTransformation(t, fn); err != nil {
			return nil, err
		}
	}
	return r, nil
}

func (rn *runner) runDirect(cj caseJSON) {
	var rules []*corazawaf.Rule
	idmap := map[int]int{} // real interned id -> small number (injective renaming, first appearance)
	canon := func(id int) int {
		if v, ok := idmap[id]; ok {
			return v
		}
		idmap[id] = len(idmap) + 1
		return idmap[id]
	}
	var ruleTerms []string
	for _, rj := range cj.Rules {
		r, err := buildRule(rj.T, rj.Multi)
		if err != nil {
			return
		}
		rules = append(rules, r)
		chain, ok := coqChain(effective(rj.T))
		if !ok {
			return
		}
		var pids []int
		for _, id := range r.VerifC12PrefixIDs() {
			pids = append(pids, canon(id))
		}
		ruleTerms = append(ruleTerms, fmt.Sprintf("(%s, %s, %s)", chain, natList(pids), vh.Bool(rj.Multi)))
	}
	// key pool: every element its own allocation; kid = first-appearance number of the pointer
	pool := make([]string, len(cj.Keys))
	ptrs := map[uintptr]int{}
	kid := make([]int, len(cj.Keys))
	for i, k := range cj.Keys {
		pool[i] = strings.Clone(k + "\x00")[:len(k)] // distinct backing arrays even for equal / empty contents
		p := corazawaf.VerifC12KeyPtr(pool[i])
		if _, ok := ptrs[p]; !ok {
			ptrs[p] = len(ptrs)
		}
		kid[i] = ptrs[p]
	}
	cache := corazawaf.VerifC12NewCache()
	nonASCII := false // a non-ASCII value reaches lowercase/uppercase: compared through the Unicode registry
	var callTerms, obsTerms []string
	var valPool []string
	valIdx := map[string]int{}
	vi := func(v string) int {
		if i, ok := valIdx[v]; ok {
			return i
		}
		valIdx[v] = len(valPool)
		valPool = append(valPool, v)
		return valIdx[v]
	}
	type obsJ struct {
		Values []string `json:"values_hex"`
		Errs   []int    `json:"errs"`
	}
	var observed []obsJ
	changedSomething := false
	for _, c := range cj.Calls {
		if c.Rule < 0 || c.Rule >= len(rules) || c.Key < 0 || c.Key >= len(pool) {
			return
		}
		val := unhex(c.Value)
		for _, rj := range cj.Rules {
			if !asciiValid(effective(rj.T), val) {
				nonASCII = true
			}
		}
		md := &corazarules.MatchData{Variable_: variables.RuleVariable(c.Var), Key_: pool[c.Key], Value_: val}
		before := len(cache)
		vals, errs := rules[c.Rule].VerifC12Transform(md, c.Idx, cache)
		vals = append([]string(nil), vals...)
		if len(cache) < before+rules[c.Rule].VerifC12NumTransformations() && !rules[c.Rule].MultiMatch && c.Var != int(variables.TX) && rules[c.Rule].VerifC12NumTransformations() > 0 {
			rn.hits++
		}
		codes := errCodes(errs)
		callTerms = append(callTerms, fmt.Sprintf("(%s, (%s, %s, %s), %s)", nat(c.Rule), nat(c.Var), nat(kid[c.Key]), nat(vi(val)), nat(c.Idx)))
		obsTerms = append(obsTerms, fmt.Sprintf("(%s, %s)", vh.HxList(vals), natList(codes)))
		o := obsJ{Errs: codes}
		for _, v := range vals {
			o.Values = append(o.Values, hexs(v))
			if v != val {
				changedSomething = true
			}
		}
		observed = append(observed, o)
	}
	dump := corazawaf.VerifC12Dump(cache)
	dumpTerms := []string{}
	for _, e := range dump {
		k, ok := ptrs[e.KeyPtr]
		if !ok {
			k = 9999
		}
		dumpTerms = append(dumpTerms, fmt.Sprintf("((%s, %s, %s, %s), %s, %s, %s)", nat(k), nat(e.Index), nat(e.Variable), nat(canon(e.ChainID)),
			nat(vi(e.Input)), vh.HxS(e.Output), natList(errCodes(e.Errs))))
	}
	sort.Strings(dumpTerms)
	cj.Observed = observed
	// the full dump of the real cache is compared in every case of the thorough tier, in one of
	// three in the quick tier (its size always)
	dumpTerm := "(inr " + nat(len(dump)) + ")"
	if rn.cfg.Thorough() || rn.cfg.Replay != "" || cj.Calls == nil || nonASCII || rn.nDirect%3 == 0 {
		dumpTerm = "(inl " + vh.List(dumpTerms) + ")"
	}
	if nonASCII {
		rn.res.InputDistribution["direct_non_ascii_case_map"]++
	} else {
		rn.nDirect++
	}
	rn.emit(fmt.Sprintf("CD %s %s %s %s %s", vh.List(ruleTerms), vh.HxList(valPool), vh.List(callTerms), vh.List(obsTerms), dumpTerm), cj)
	rn.res.InputDistribution["direct"]++
	rn.res.InputDistribution[fmt.Sprintf("direct_calls_%s", bucket(len(cj.Calls)))]++
	sig := sigOf(cj)
	if !rn.seen[sig] {
		rn.seen[sig] = true
		if changedSomething && len(cj.Calls) >= 2 {
			rn.nontrivial++
		}
	}
}

func sigOf(cj caseJSON) string {
	c := cj
	c.Observed = nil
	b, _ := json.Marshal(c)
	return string(b)
}

func bucket(n int) string {
	switch {
	case n <= 2:
		return "1-2"
	case n <= 8:
		return "3-8"
	case n <= 16:
		return "9-16"
	}
	return ">16"
}

// ---------------------------------------------------------------------------------------
// real WAF runs
// ---------------------------------------------------------------------------------------

// capLogger captures "Error transforming argument for rule" events with their rule id.
type capSink struct {
	errs map[int][][]int // rule id -> error lists (one per argument with errors)
}
type capLogger struct {
	sink   *capSink
	ruleID int
}
type capEvent struct {
	l      *capLogger
	warn   bool
	errs   []int
	ruleID int
	ctx    bool
}

func (l capLogger) WithOutput(io.Writer) debuglog.Logger      { return l }
func (l capLogger) WithLevel(debuglog.Level) debuglog.Logger { return l }
func (l capLogger) With(fs ...debuglog.ContextField) debuglog.Logger {
	ev := &capEvent{l: &l, ctx: true, ruleID: l.ruleID}
	for _, f := range fs {
		f(ev)
	}
	return capLogger{sink: l.sink, ruleID: ev.ruleID}
}
func (l capLogger) Trace() debuglog.Event { return &capEvent{l: &l} }
func (l capLogger) Debug() debuglog.Event { return &capEvent{l: &l} }
func (l capLogger) Info() debuglog.Event  { return &capEvent{l: &l} }
func (l capLogger) Warn() debuglog.Event  { return &capEvent{l: &l, warn: true} }
func (l capLogger) Error() debuglog.Event { return &capEvent{l: &l} }

func (e *capEvent) Msg(msg string) {
	if e.warn && msg == "Error transforming argument for rule" && e.l.sink != nil && e.l.sink.errs != nil {
		e.l.sink.errs[e.l.ruleID] = append(e.l.sink.errs[e.l.ruleID], e.errs)
	}
}
func (e *capEvent) Str(k, _ string) debuglog.Event {
	if e.ctx && k == "chain_rule_ref" {
		e.ruleID++ // a chain link without id: keyed as parent id + 1
	}
	return e
}
func (e *capEvent) Err(err error) debuglog.Event {
	if err != nil {
		e.errs = append(e.errs, errCode(err))
	}
	return e
}
func (e *capEvent) Bool(string, bool) debuglog.Event { return e }
func (e *capEvent) Int(k string, i int) debuglog.Event {
	if e.ctx && k == "rule_id" {
		e.ruleID = i
	}
	return e
}
func (e *capEvent) Uint(string, uint) debuglog.Event             { return e }
func (e *capEvent) Stringer(string, fmt.Stringer) debuglog.Event { return e }
func (e *capEvent) IsEnabled() bool                              { return true }

func directives(rules []ruleJ, ident bool) string {
	var b strings.Builder
	b.WriteString("SecRuleEngine On\nSecRequestBodyAccess On\nSecResponseBodyAccess On\nSecResponseBodyMimeType text/plain\n")
	b.WriteString("SecAction \"id:9000,phase:1,pass,nolog,setvar:tx.v=Hello%20World,setvar:tx.w=%{REQUEST_HEADERS.y}\"\n")
	b.WriteString("SecAction \"id:9001,phase:3,pass,nolog,setvar:tx.v=ThirD%20Phase\"\n")
	for k, r := range rules {
		acts := fmt.Sprintf("id:%d,phase:%d,pass,log,setenv:c12v=r%d,t:none", r.ID, r.Phase, r.ID)
		if r.ChainChild {
			acts = "t:none"
		} else if k+1 < len(rules) && rules[k+1].ChainChild {
			acts = strings.Replace(acts, ",pass,", ",pass,chain,", 1)
		}
		if ident {
			acts += fmt.Sprintf(",t:c12id%d", k)
		}
		for _, t := range r.T {
			acts += ",t:" + t
		}
		if r.Multi {
			acts += ",multiMatch"
		}
		fmt.Fprintf(&b, "SecRule %s \"@unconditionalMatch\" \"%s\"\n", r.Targets, acts)
	}
	return b.String()
}

func newWAF(dirs string, sink *capSink) (*corazawaf.WAF, error) {
	waf := corazawaf.NewWAF()
	waf.Logger = capLogger{sink: sink}
	p := seclang.NewParser(waf)
	if err := p.FromString(dirs); err != nil {
		return nil, err
	}
	return waf, nil
}

type seenT struct {
	Var, Key, Value string
}

type ruleObs struct {
	Seen []seenT
	Errs [][]int
}

type txObs struct {
	Rules map[int]*ruleObs
	Dumps      [][]corazawaf.VerifC12Entry // after each processing step
	DumpPhases []int                       // the phase RuleGroup.Eval ran last when the dump was taken
}

func runTx(waf *corazawaf.WAF, sink *capSink, cj caseJSON, wantDump bool) txObs {
	sink.errs = map[int][][]int{}
	tx := waf.NewTransaction()
	defer tx.Close()
	obs := txObs{Rules: map[int]*ruleObs{}}
	dump := func() {
		if wantDump {
			obs.Dumps = append(obs.Dumps, corazawaf.VerifC12Dump(tx.VerifC12Cache()))
			obs.DumpPhases = append(obs.DumpPhases, tx.VerifC12LastPhase())
		}
	}
	method := "GET"
	if cj.Body != "" {
		method = "POST"
	}
	tx.ProcessURI("/p?"+cj.Query, method, "HTTP/1.1")
	for _, h := range cj.Headers {
		tx.AddRequestHeader(h[0], h[1])
	}
	if cj.Body != "" {
		tx.AddRequestHeader("Content-Type", "application/x-www-form-urlencoded")
	}
	tx.ProcessRequestHeaders()
	dump()
	if cj.Body != "" {
		_, _, _ = tx.WriteRequestBody([]byte(cj.Body))
	}
	_, _ = tx.ProcessRequestBody()
	dump()
	for _, h := range cj.RespHeaders {
		tx.AddResponseHeader(h[0], h[1])
	}
	tx.AddResponseHeader("Content-Type", "text/plain")
	tx.ProcessResponseHeaders(200, "HTTP/1.1")
	dump()
	if cj.RespBody != "" {
		_, _, _ = tx.WriteResponseBody([]byte(cj.RespBody))
	}
	_, _ = tx.ProcessResponseBody()
	dump()
	tx.ProcessLogging()
	dump()
	for _, mr := range tx.MatchedRules() {
		id := mr.Rule().ID()
		ro := obs.Rules[id]
		if ro == nil {
			ro = &ruleObs{}
			obs.Rules[id] = ro
		}
		for _, md := range mr.MatchedDatas() {
			ro := ro
			if lvl := md.ChainLevel(); lvl > 0 {
				if ro = obs.Rules[id+lvl]; ro == nil {
					ro = &ruleObs{}
					obs.Rules[id+lvl] = ro
				}
			}
			ro.Seen = append(ro.Seen, seenT{md.Variable().Name(), md.Key(), md.Value()})
		}
	}
	for id, el := range sink.errs {
		ro := obs.Rules[id]
		if ro == nil {
			ro = &ruleObs{}
			obs.Rules[id] = ro
		}
		ro.Errs = el
	}
	sink.errs = nil
	return obs
}

func canonSeen(ro *ruleObs) string {
	if ro == nil {
		return ""
	}
	var l []string
	for _, s := range ro.Seen {
		l = append(l, fmt.Sprintf("%s|%x|%x", s.Var, s.Key, s.Value))
	}
	sort.Strings(l)
	var e []string
	for _, x := range ro.Errs {
		e = append(e, fmt.Sprint(x))
	}
	sort.Strings(e)
	return strings.Join(l, ",") + "#" + strings.Join(e, ",")
}

// chainOf resolves an interned chain id into transformation names through the intern table
// (new scheme "<prefix id>+<name>"; the scheme before 8fe3f95 "+n1+n2..." is understood too).
func chainOf(id int) []string {
	if id == 0 {
		return nil
	}
	name := corazawaf.VerifC12InternName(id)
	i := strings.IndexByte(name, '+')
	if i > 0 {
		if p, err := strconv.Atoi(name[:i]); err == nil && p < id {
			return append(chainOf(p), name[i+1:])
		}
	}
	if i == 0 {
		return strings.Split(name[1:], "+")
	}
	return []string{"?"}
}

func (rn *runner) runWAF(cj caseJSON) {
	if len(cj.Rules) > nIdent {
		return
	}
	reps := cj.Reps
	if reps <= 0 {
		reps = 10
	}
	sinkP, sinkO := &capSink{}, &capSink{}
	plain, err := newWAF(directives(cj.Rules, false), sinkP)
	if err != nil {
		rn.res.InputDistribution["waf_rejected"]++
		return
	}
	oracle, err := newWAF(directives(cj.Rules, true), sinkO)
	if err != nil {
		rn.res.InputDistribution["waf_rejected"]++
		return
	}
	ruleTerms := make([]string, len(cj.Rules))
	modelled := true
	for k, r := range cj.Rules {
		chain, ok := coqChain(effective(r.T))
		if !ok {
			modelled = false
		}
		ruleTerms[k] = fmt.Sprintf("(%s, %s, %s)", chain, vh.Bool(r.Multi), nat(r.Phase))
		if r.Phase < 1 || r.Phase > 5 {
			modelled = false
		}
	}
	emitted := map[string]bool{}
	interesting := false
	for rep := 0; rep < reps; rep++ {
		pObs := runTx(plain, sinkP, cj, rep == 0)
		for i := range recLog {
			recLog[i] = nil
		}
		recOn = true
		oObs := runTx(oracle, sinkO, cj, false)
		recOn = false
		rn.oracleEvals++
		// the property's own oracle: same outcome as the run in which nothing can be shared
		same := true
		for _, r := range cj.Rules {
			if canonSeen(pObs.Rules[r.ID]) != canonSeen(oObs.Rules[r.ID]) {
				same = false
			}
		}
		if !same {
			c := cj
			c.Part = "oracle"
			c.Observed = map[string]any{"plain": pObs.Rules, "identity_prefixed": oObs.Rules}
			rn.fail("c12-differs-from-cache-free-run", "a rule saw different values/errors than in the run whose transformation lists are prefixed by distinct identity transformations", c)
		}
		// model comparison (once per distinct outcome)
		var per []string
		sig := ""
		type perJ struct {
			Origs []string `json:"origs_hex"`
			Seen  []string `json:"seen_hex"`
			Errs  [][]int  `json:"errs"`
		}
		var pj []perJ
		valid, nonASCII := true, false
		for k, r := range cj.Rules {
			ro := pObs.Rules[r.ID]
			var seen []string
			var errs []string
			j := perJ{}
			if ro != nil {
				for _, s := range ro.Seen {
					seen = append(seen, s.Value)
					j.Seen = append(j.Seen, hexs(s.Value))
					if len(effective(r.T)) > 0 {
						interesting = true
					}
				}
				for _, e := range ro.Errs {
					errs = append(errs, natList(e))
				}
				j.Errs = ro.Errs
			}
			for _, o := range recLog[k] {
				j.Origs = append(j.Origs, hexs(o))
				if !asciiValid(effective(r.T), o) {
					nonASCII = true
				}
			}
			pj = append(pj, j)
			per = append(per, fmt.Sprintf("(%s, %s, %s)", vh.HxList(recLog[k]), vh.HxList(seen), vh.List(errs)))
			sig += canonSeen(ro) + ";"
		}
		if nonASCII {
			rn.res.InputDistribution["waf_non_ascii_case_map"]++
		}
		if modelled && valid && !emitted[sig] {
			emitted[sig] = true
			c := cj
			c.Part = "model"
			c.Observed = pj
			rn.emit(fmt.Sprintf("CW %s %s", vh.List(ruleTerms), vh.List(per)), c)
		}
		// the real cache after each phase: every entry satisfies the invariant and was computed
		// from a value a rule of THAT phase started from (nothing survives the clearing)
		if rep == 0 && modelled {
			for di, d := range pObs.Dumps {
				ph := pObs.DumpPhases[di]
				if di > 0 && pObs.DumpPhases[di-1] == ph {
					continue // this processing step did not evaluate a phase
				}
				var started []string
				seenStart := map[string]bool{}
				for k, r := range cj.Rules {
					if r.Phase != ph {
						continue
					}
					for _, o := range recLog[k] {
						if !seenStart[o] {
							seenStart[o] = true
							started = append(started, o)
						}
					}
				}
				var ents, extra []string
				for _, e := range d {
					names := chainOf(e.ChainID)
					chain, ok := coqChain(names)
					if !ok {
						continue
					}
					t := fmt.Sprintf("(%s, %s, %s, %s)", chain, vh.HxS(e.Input), vh.HxS(e.Output), natList(errCodes(e.Errs)))
					if asciiValid(names, e.Input) {
						ents = append(ents, t)
					} else if len(extra) < 4 {
						extra = append(extra, t) // through the Unicode case maps
					}
				}
				if len(ents) == 0 {
					ents, extra = extra, nil
				}
				if len(ents) == 0 {
					continue
				}
				sort.Strings(ents)
				if max := rn.cfg.Pick(5, 12); len(ents) > max && rn.cfg.Replay == "" {
					// a deterministic sample (every k-th entry)
					var sm []string
					for i := 0; i < max; i++ {
						sm = append(sm, ents[i*len(ents)/max])
					}
					ents = sm
				}
				ents = append(ents, extra...)
				c := cj
				c.Part = fmt.Sprintf("cache-dump after phase %d", ph)
				c.Observed = len(ents)
				rn.emit(fmt.Sprintf("CI %s %s", vh.HxList(started), vh.List(ents)), c)
				rn.res.InputDistribution[fmt.Sprintf("waf_cache_dump_phase_%d", ph)]++
			}
		}
	}
	rn.res.InputDistribution["waf"]++
	s := sigOf(cj)
	if !rn.seen[s] {
		rn.seen[s] = true
		if interesting {
			rn.nontrivial++
		}
	}
}

// ---------------------------------------------------------------------------------------
// interning
// ---------------------------------------------------------------------------------------

func (rn *runner) runIntern(cj caseJSON) {
	var b strings.Builder
	for k, r := range cj.Rules {
		acts := fmt.Sprintf("id:%d,phase:1,pass,nolog", k+1)
		for _, t := range r.T {
			acts += ",t:" + t
		}
		fmt.Fprintf(&b, "SecRule ARGS \"@unconditionalMatch\" \"%s\"\n", acts)
	}
	waf, err := newWAF(b.String(), &capSink{})
	if err != nil {
		rn.res.InputDistribution["intern_rejected"]++
		return
	}
	var names, pids []string
	distinct := map[int]bool{}
	for k, r := range cj.Rules {
		rule := waf.Rules.FindByID(k + 1)
		if rule == nil {
			return
		}
		names = append(names, vh.HxList(r.T))
		ids := rule.VerifC12PrefixIDs()
		for _, id := range ids {
			distinct[id] = true
		}
		pids = append(pids, natList(smallIDs(ids)))
	}
	rn.emit(fmt.Sprintf("CN %s %s", vh.List(names), vh.List(pids)), cj)
	rn.res.InputDistribution["intern"]++
	s := sigOf(cj)
	if !rn.seen[s] {
		rn.seen[s] = true
		if len(distinct) >= 2 {
			rn.nontrivial++
		}
	}
}

// global injective renaming of real intern ids (they grow without bound over a run)
var internSmall = map[int]int{}

func smallIDs(ids []int) []int {
	r := make([]int, len(ids))
	for i, id := range ids {
		if _, ok := internSmall[id]; !ok {
			internSmall[id] = len(internSmall) + 1
		}
		r[i] = internSmall[id]
	}
	return r
}

// ---------------------------------------------------------------------------------------
// generators
// ---------------------------------------------------------------------------------------

var valueSeeds = []string{"ONE", "one", "One", "TWO", "two", " x ", "x", "Hello World", "6F6e65", "4f4E45", "zz", "a%41b", "A+B", "/*c*/d", "SGVsbG8=", "a\\x41", "  spaced\tout ", "", "0", "%6f%6E%65"}

// values for the Unicode case maps: mapped runes of 2, 3 and 4 bytes, runes whose image has another
// length (U+0130, U+212A, U+017F, U+2C65), title case, and invalid UTF-8 (lone bytes, truncated and
// overlong sequences, a surrogate) which strings.ToLower/ToUpper rewrite to U+FFFD
var uniValues = []string{"\u00c0\u00c9\u00ce", "\u00e0\u00e9\u00ee", "stra\u00dfe", "\u0391\u0392\u0393 \u03b4\u03c2", "\u0130stanbul", "\u01c5x", "\u212aelvin", "\u017ftop",
	"\u2c65\u023a", "\U00010400\U00010428", "\xff\xfe", "a\xc3", "\xc3\x28", "ab\xe2\x82", "\xed\xa0\x80", "ABC\x80def", "\xc0\xaf", "\xf0\x9f", "\u00c0", "\u00e0", "ONE", "one"}
var uniQueries = []string{"a=%C3%80%C3%89&a=%C3%A0%C3%A9&b=%FF%FE", "a=%C4%B0stanbul&a=istanbul&b=%E2%84%AAelvin", "a=ABC%80def&a=abc%80DEF&b=%C3%28",
	"a=%CE%91%CE%92&a=%CE%B1%CE%B2&b=%F0%90%90%80", "a=stra%C3%9Fe&a=STRASSE&b=%ED%A0%80x", "a=%C0%AF&a=%E2%82&b=%C5%BFtop&c=%C7%85"}
var uniBodies = []string{"", "a=%C3%80%FF&d=%CE%A3", "q=%E2%B1%A5&a=%C3%A0"}
var uniRespBodies = []string{"R\u00c9SUM\u00c9 \xff body", "\u0391\u0392 \xc3", "", "plain"}

func genChainPool(r *rand.Rand) []string {
	n := 2 + r.Intn(4)
	base := make([]string, n)
	for i := range base {
		switch r.Intn(12) {
		case 0:
			base[i] = fmt.Sprintf("c12fail%d", r.Intn(nFail))
		case 1:
			base[i] = "hexDecode"
		case 2, 3:
			base[i] = "lowercase"
		default:
			base[i] = builtin[1+r.Intn(len(builtin)-1)].Go
		}
	}
	return base
}

// chain sharing a prefix of base, then possibly something else
func genChain(r *rand.Rand, base []string) []string {
	k := r.Intn(len(base) + 1)
	ts := append([]string(nil), base[:k]...)
	for r.Intn(3) == 0 && len(ts) < 6 {
		if r.Intn(5) == 0 {
			ts = append(ts, fmt.Sprintf("c12fail%d", r.Intn(nFail)))
		} else {
			ts = append(ts, builtin[1+r.Intn(len(builtin)-1)].Go)
		}
	}
	return ts
}

func genValue(r *rand.Rand) string {
	s := valueSeeds[r.Intn(len(valueSeeds))]
	if r.Intn(4) == 0 {
		s += valueSeeds[r.Intn(len(valueSeeds))]
	}
	return s
}

func genDirect(r *rand.Rand) caseJSON {
	base := genChainPool(r)
	if r.Intn(6) == 0 { // many failing steps: error lists of length 3..6 shared between rules
		for i := range base {
			if r.Intn(3) > 0 {
				base[i] = fmt.Sprintf("c12fail%d", r.Intn(nFail))
			}
		}
	}
	cj := caseJSON{Kind: "direct"}
	errMode := r.Intn(6) == 0
	if errMode { // error lists of length 3..6 shared between rules that continue differently
		base = base[:0]
		for n := 3 + r.Intn(3); len(base) < n; {
			base = append(base, []string{"c12fail0", "c12fail1", "c12fail2", "hexDecode", "lowercase", "c12fail3"}[r.Intn(6)])
		}
	}
	nr := 2 + r.Intn(4)
	for i := 0; i < nr; i++ {
		cj.Rules = append(cj.Rules, ruleJ{T: genChain(r, base), Multi: r.Intn(10) == 0})
	}
	if r.Intn(3) == 0 { // two rules with exactly the same list
		cj.Rules = append(cj.Rules, ruleJ{T: append([]string(nil), cj.Rules[0].T...)})
	}
	cj.Keys = []string{"a", "a", "", "b"}[:2+r.Intn(3)]
	vars := []int{int(variables.Args), int(variables.ArgsGet), int(variables.MatchedVar), int(variables.TX), int(variables.RequestHeaders)}
	vars = vars[:1+r.Intn(len(vars))]
	nv := 2 + r.Intn(3)
	vals := make([]string, nv)
	for i := range vals {
		vals[i] = genValue(r)
	}
	nc := 4 + r.Intn(13)
	if errMode {
		// one argument, evaluated again and again by rules sharing a failing prefix
		cj.Keys, vars, vals = cj.Keys[:1], vars[:1], vals[:1+r.Intn(2)]
		nv = len(vals)
		for i := range cj.Rules {
			k := 3
			if k > len(base) {
				k = len(base)
			}
			cj.Rules[i].Multi = false
			cj.Rules[i].T = append(append([]string(nil), base[:k+r.Intn(len(base)-k+1)]...), fmt.Sprintf("c12fail%d", r.Intn(nFail)))
		}
	}
	for i := 0; i < nc; i++ {
		cj.Calls = append(cj.Calls, callJ{Rule: r.Intn(len(cj.Rules)), Var: vars[r.Intn(len(vars))], Key: r.Intn(len(cj.Keys)),
			Idx: r.Intn(2 + r.Intn(2)), Value: hexs(vals[r.Intn(nv)])})
		if errMode {
			cj.Calls[i].Idx = 0
		}
	}
	return cj
}

type targetT struct {
	S      string
	Single bool   // selects at most one key: MATCHED_VAR after it is deterministic
	Col    string // underlying collection (one target per collection within a rule)
	Phase2 bool
}

var targets = []targetT{
	{"ARGS", false, "ARGS", false}, {"ARGS", false, "ARGS", false},
	{"ARGS|!ARGS:b", false, "ARGS", false}, {"ARGS|!ARGS:a", false, "ARGS", false},
	{"ARGS:a", true, "ARGS", false}, {"ARGS:b", true, "ARGS", false},
	{"ARGS_GET", false, "ARGS_GET", false}, {"ARGS_GET:a", true, "ARGS_GET", false}, {"ARGS_GET|!ARGS_GET:a", false, "ARGS_GET", false},
	{"ARGS_NAMES", false, "ARGS_NAMES", false}, {"ARGS_GET_NAMES", false, "ARGS_GET_NAMES", false},
	{"ARGS_POST", false, "ARGS_POST", false}, {"ARGS_POST:a", false, "ARGS_POST", false},
	{"REQUEST_BODY", false, "REQUEST_BODY", false}, {"REQUEST_BODY", false, "REQUEST_BODY", false},
	{"RESPONSE_BODY", false, "RESPONSE_BODY", false}, {"RESPONSE_BODY", false, "RESPONSE_BODY", false},
	{"RESPONSE_HEADERS", false, "RESPONSE_HEADERS", false}, {"RESPONSE_HEADERS:x-r", false, "RESPONSE_HEADERS", false},
	{"RESPONSE_STATUS", false, "RESPONSE_STATUS", false}, {"RESPONSE_CONTENT_TYPE", false, "RESPONSE_CONTENT_TYPE", false},
	{"REQUEST_HEADERS", false, "REQUEST_HEADERS", false}, {"REQUEST_HEADERS:x", true, "REQUEST_HEADERS", false},
	{"REQUEST_COOKIES", false, "REQUEST_COOKIES", false}, {"REQUEST_COOKIES_NAMES", false, "REQUEST_COOKIES_NAMES", false},
	{"MATCHED_VAR", true, "MATCHED_VAR", false}, {"MATCHED_VAR", true, "MATCHED_VAR", false}, {"MATCHED_VAR_NAME", true, "MATCHED_VAR_NAME", false},
	{"TX:v", true, "TX", false}, {"TX:w", true, "TX", false}, {"&ARGS", true, "&ARGS", false}, {"&ARGS_GET:a", true, "&ARGS_GET", false},
	{"RULE:id", true, "RULE", false}, {"ENV:c12v", true, "ENV", false}, {"ENV:c12v", true, "ENV", false},
	{"REQUEST_URI", true, "REQUEST_URI", false}, {"QUERY_STRING", true, "QUERY_STRING", false}, {"REQUEST_METHOD", true, "REQUEST_METHOD", false},
}

var queries = []string{"a=ONE&a=TWO&b=x", "a=ONE&a=TWO&b=three", "a=one&b=Two&c=%54hree&a=", "a=x&b=x", "a=1&a=2&a=3&b=4&c=5&d=6",
	"a=ONE&a=one&a=One&b=ONE", "a=6F6e65&a=zz&b=4f4E45", "a=%20x%20&a=x&b=+x+", "a=A&b=a&c=B&d=b&a=B", "a=Hello%20World&a=HELLO+WORLD&b=hello%20world"}
var bodies = []string{"", "", "a=four&d=FIVE", "e=1&f=2&a=two", "a=ONE&a=TWO", "b=x&a=ONE"}

// targets whose content differs from phase to phase: the bodies (empty before their phase), the
// argument collections (the body is parsed between phases 1 and 2), the response collections
// (empty before phase 3), TX:v (rewritten in phase 3), plus one that never changes
var crossTargets = []string{"REQUEST_BODY", "REQUEST_BODY", "RESPONSE_BODY", "RESPONSE_BODY", "ARGS", "ARGS_POST", "ARGS_NAMES", "ARGS:a",
	"RESPONSE_HEADERS", "RESPONSE_HEADERS:x-r", "RESPONSE_STATUS", "RESPONSE_CONTENT_TYPE", "TX:v", "REQUEST_HEADERS:x", "&ARGS", "&ARGS_POST"}
var crossCompanions = []string{"REQUEST_HEADERS:x", "REQUEST_HEADERS:nosuch", "REQUEST_METHOD", "ARGS_GET:b", "RESPONSE_HEADERS:x-r", "REQUEST_BODY", "RESPONSE_BODY"}
var respBodies = []string{"Hello RESPONSE Body", "  MiXed  Case\t<B>", "6F6e65", "", "a=ONE&b=%54wo"}

// genCross: the SAME target looked at in several phases of one transaction by rules sharing
// their transformation lists fully or partially
func genCross(r *rand.Rand, cj *caseJSON, base []string) {
	phases := []int{1, 2, 3, 4, 5}
	r.Shuffle(len(phases), func(i, j int) { phases[i], phases[j] = phases[j], phases[i] })
	phases = phases[:2+r.Intn(3)]
	sort.Ints(phases)
	tg := crossTargets[r.Intn(len(crossTargets))]
	chain := genChain(r, base)
	if len(chain) == 0 {
		chain = []string{"lowercase"}
	}
	for i, ph := range phases {
		t := tg
		if r.Intn(3) == 0 { // as one target of a multi-target rule
			c := crossCompanions[r.Intn(len(crossCompanions))]
			if strings.SplitN(c, ":", 2)[0] != strings.SplitN(strings.TrimPrefix(tg, "&"), ":", 2)[0] {
				if r.Intn(2) == 0 {
					t = c + "|" + tg
				} else {
					t = tg + "|" + c
				}
			}
		}
		ts := append([]string(nil), chain...)
		switch r.Intn(4) {
		case 0: // a longer list
			ts = append(ts, builtin[1+r.Intn(len(builtin)-1)].Go)
		case 1: // a prefix
			ts = ts[:1+r.Intn(len(ts))]
		}
		cj.Rules = append(cj.Rules, ruleJ{ID: 100 + len(cj.Rules), Phase: ph, Targets: t, T: ts, Multi: i > 0 && r.Intn(12) == 0})
	}
}

func genWAF(r *rand.Rand) caseJSON {
	base := genChainPool(r)
	cj := caseJSON{Kind: "waf", Query: queries[r.Intn(len(queries))], Body: bodies[r.Intn(len(bodies))]}
	cj.Headers = [][2]string{{"X", "One"}, {"x", "TWO"}, {"Cookie", "a=one; b=Two; a=THREE"}, {"Y", "ONE"}}
	cj.RespHeaders = [][2]string{{"X-R", "Resp One"}, {"x-r", "RESP two"}, {"Z", "zed"}}
	cj.RespBody = respBodies[r.Intn(len(respBodies))]
	if r.Intn(3) == 0 {
		if cj.Body == "" || r.Intn(2) == 0 {
			cj.Body = []string{"a=four&d=FIVE", "q=%3CSCRIPT%3E+x&a=ONE", "b=x&a=ONE"}[r.Intn(3)]
		}
		for n := 1 + r.Intn(2); n > 0; n-- {
			genCross(r, &cj, base)
		}
		return cj
	}
	nr := 2 + r.Intn(5)
	phase := 1 + r.Intn(2)
	prevSingle := false
	for i := 0; i < nr; i++ {
		if r.Intn(5) == 0 {
			phase = []int{1, 2, 2, 3, 4, 4, 5}[r.Intn(7)]
		}
		if i > 0 && phase < cj.Rules[i-1].Phase && r.Intn(2) == 0 {
			phase = cj.Rules[i-1].Phase
		}
		var ts []targetT
		used := map[string]bool{}
		nt := 1
		if r.Intn(4) == 0 {
			nt = 2
		}
		for len(ts) < nt {
			t := targets[r.Intn(len(targets))]
			if used[t.Col] {
				continue
			}
			if strings.HasPrefix(t.S, "MATCHED_VAR") && !(len(ts) == 0 && prevSingle && i > 0 && cj.Rules[i-1].Phase == phase) {
				// MATCHED_VAR after a rule that matched several keys depends on hash order (C04's finding F26)
				continue
			}
			used[t.Col] = true
			ts = append(ts, t)
		}
		var tl []string
		single := len(ts) == 1
		for _, t := range ts {
			tl = append(tl, t.S)
			single = single && t.Single
		}
		rule := ruleJ{ID: 100 + i, Phase: phase, Targets: strings.Join(tl, "|"), T: genChain(r, base), Multi: r.Intn(8) == 0}
		if r.Intn(3) == 0 && i > 0 { // the same list as the previous rule
			rule.T = append([]string(nil), cj.Rules[i-1].T...)
		}
		// the single target must really produce a value for MATCHED_VAR of the next rule to be defined by it
		prevSingle = single && !strings.HasPrefix(rule.Targets, "ARGS_POST") && rule.Targets != "ARGS:b" && !strings.HasPrefix(rule.Targets, "MATCHED_VAR_NAME")
		cj.Rules = append(cj.Rules, rule)
		if r.Intn(5) == 0 && i+1 < nr {
			// a chain link reading what the parent's matches left behind
			i++
			ct := []string{"MATCHED_VARS", "&MATCHED_VARS", "MATCHED_VARS_NAMES", "TX:v", "REQUEST_METHOD", "RULE:id", "ENV:c12v", "MATCHED_VARS|ENV:c12v"}
			if prevSingle {
				ct = append(ct, "MATCHED_VAR", "MATCHED_VAR", "MATCHED_VAR_NAME", "MATCHED_VAR|TX:w")
			}
			child := ruleJ{ID: 100 + i, Phase: phase, Targets: ct[r.Intn(len(ct))], T: genChain(r, base), Multi: r.Intn(8) == 0, ChainChild: true}
			if r.Intn(2) == 0 {
				child.T = append([]string(nil), rule.T...)
			}
			cj.Rules = append(cj.Rules, child)
			prevSingle = false
		}
	}
	// phases must be evaluated in order for MATCHED_VAR reasoning; rules keep their syntactic order within a phase
	return cj
}

func genIntern(r *rand.Rand) caseJSON {
	cj := caseJSON{Kind: "intern"}
	base := genChainPool(r)
	nr := 2 + r.Intn(5)
	for i := 0; i < nr; i++ {
		ts := genChain(r, base)
		if r.Intn(3) == 0 { // t:none in the middle clears
			k := r.Intn(len(ts) + 1)
			ts = append(append(append([]string(nil), ts[:k]...), "none"), ts[k:]...)
		}
		if r.Intn(3) == 0 { // a name containing '+', and the list it could be confused with
			if r.Intn(2) == 0 {
				ts = append(ts, bangName)
			} else {
				ts = append(ts, "lowercase", "trim")
			}
		}
		if r.Intn(4) == 0 && len(ts) > 0 { // names are interned as written: another spelling is another id
			ts[0] = strings.ToUpper(ts[0][:1]) + ts[0][1:]
			if ts[0] == "None" {
				ts[0] = "none"
			}
		}
		cj.Rules = append(cj.Rules, ruleJ{T: ts})
	}
	return cj
}

// ---------------------------------------------------------------------------------------
// driver
// ---------------------------------------------------------------------------------------

func (rn *runner) runDoc(doc json.RawMessage) {
	var c caseJSON
	if json.Unmarshal(doc, &c) != nil {
		return
	}
	c.Observed = nil
	switch c.Kind {
	case "direct":
		rn.runDirect(c)
	case "waf":
		rn.runWAF(c)
	case "intern":
		rn.runIntern(c)
	}
}

func Run(cfg vh.Config) (*vh.Result, error) {
	if int(variables.TX) != 63 {
		return nil, fmt.Errorf("variables.TX = %d, the model (TCache.tc_var_tx) says 63", int(variables.TX))
	}
	res := &vh.Result{InputDistribution: map[string]int{}}
	res.Rule = "direct: random call sequences of transformArg on one cache (2-6 rules sharing prefixes of a base list, 2-4 key strings of which two have equal content, positions 0-3, 1-5 variables incl. TX, 2-4 values); non-trivial = at least 2 calls and some transformed value differs from its input. waf: real WAF + transaction, 2-6 rules over 27 target shapes sharing prefixes, repeated argument names, each repeated (hash order) and compared with the identity-prefixed run; non-trivial = some rule with a non-empty transformation list saw a value. intern: rule sets compiled by seclang; non-trivial = at least two distinct prefix ids. distinct = distinct case descriptions"
	rn := &runner{cfg: cfg, res: res, seen: map[string]bool{}}
	rng := vh.Rng(cfg.Seed, "c12")

	if cfg.Replay != "" {
		b, err := os.ReadFile(cfg.Replay)
		if err != nil {
			return nil, err
		}
		var rp struct {
			Case json.RawMessage `json:"case"`
		}
		if json.Unmarshal(b, &rp) == nil && rp.Case != nil {
			rn.runDoc(rp.Case)
		} else {
			rn.runDoc(b)
		}
	} else {
		docs, _ := vh.LoadCorpus(cfg.Corpus)
		for _, d := range docs {
			rn.runDoc(d)
		}
		res.InputDistribution["corpus"] = len(docs)
		for i := 0; i < cfg.Pick(500, 8000); i++ {
			rn.runDirect(genDirect(rng))
		}
		reps := 10
		for i := 0; i < cfg.Pick(300, 3000); i++ {
			c := genWAF(rng)
			c.Reps = reps
			rn.runWAF(c)
		}
		for i := 0; i < cfg.Pick(200, 2000); i++ {
			rn.runIntern(genIntern(rng))
		}
		// growth 2: non-ASCII and invalid-UTF-8 values reaching t:lowercase / t:uppercase, compared with the
		// Unicode registry (CaseMap.apply_tu). Own PRNG stream, appended after the older families.
		g2 := vh.Rng(cfg.Seed, "C12-growth2")
		sv, sq, sb, sr := valueSeeds, queries, bodies, respBodies
		valueSeeds, queries, bodies, respBodies = uniValues, uniQueries, uniBodies, uniRespBodies
		caseMaps := func(c *caseJSON) {
			for i := range c.Rules {
				if n := len(c.Rules[i].T); n > 0 && g2.Intn(2) == 0 {
					c.Rules[i].T[g2.Intn(n)] = []string{"lowercase", "uppercase", "lowercase", bangName}[g2.Intn(4)]
				}
			}
		}
		for i := 0; i < cfg.Pick(120, 2000); i++ {
			c := genDirect(g2)
			caseMaps(&c)
			rn.runDirect(c)
			res.InputDistribution["growth2_direct"]++
		}
		for i := 0; i < cfg.Pick(50, 600); i++ {
			c := genWAF(g2)
			caseMaps(&c)
			c.Reps = 4
			rn.runWAF(c)
			res.InputDistribution["growth2_waf"]++
		}
		valueSeeds, queries, bodies, respBodies = sv, sq, sb, sr
	}
	res.OracleEvaluations = rn.oracleEvals
	res.DistinctNontrivial = rn.nontrivial
	res.InputDistribution["direct_calls_served_from_cache"] = rn.hits

	per := cfg.Pick(200, 500)
	for i, k := 0, 0; i < len(rn.terms); i, k = i+per, k+1 {
		j := i + per
		if j > len(rn.terms) {
			j = len(rn.terms)
		}
		info, err := vh.WriteShard(cfg.OutDir, vh.Shard{
			Name: fmt.Sprintf("C12_%d", k), Imports: "From Verif Require Import Base Transform TCache CorrC12.\nFrom VerifGen Require Import FactsC14.",
			CaseType: "CorrC12.case", MismatchF: "CorrC12.mismatches FactsC14.lower_table FactsC14.upper_table", Terms: rn.terms[i:j], Cases: rn.cases[i:j],
			Prelude: "Open Scope nat_scope.",
		})
		if err != nil {
			return nil, err
		}
		res.Shards = append(res.Shards, info)
	}
	for i := 0; i < len(rn.cases) && len(res.Samples) < 6; i += 1 + len(rn.cases)/6 {
		res.Samples = append(res.Samples, rn.cases[i])
	}
	return res, nil
}
