// Package c16 drives the correspondence for C16 (directive text means the same however it is
// written; nothing is silently altered): structured rule descriptions are rendered in several
// variations, compiled by Coraza (seclang.NewParser(waf).FromString), dumped through the verif
// hook and compared with the Gallina model of the text layer (Parser.v) evaluated on the SAME
// text and with the description itself; near-miss texts (one delimiter deleted / duplicated)
// are compared on {compiled-with-dump, rejected}; the scanners are also called directly.
package c16

import (
	"encoding/hex"
	"encoding/json"
	"fmt"
	"math/rand"
	"os"
	"regexp"
	"sort"
	"strings"
	"testing/fstest"

	"github.com/corazawaf/coraza/v3/internal/actions"
	"github.com/corazawaf/coraza/v3/internal/corazawaf"
	"github.com/corazawaf/coraza/v3/internal/seclang"
	"github.com/corazawaf/coraza/v3/internal/variables"
	"github.com/corazawaf/coraza/v3/verifharness/vh"
)

func init() { vh.Register("C16", Run) }

// ---------------------------------------------------------------------------------------
// structured descriptions (JSON: byte strings in hex)
// ---------------------------------------------------------------------------------------

type Target struct {
	Neg   bool   `json:"neg,omitempty"`
	Count bool   `json:"count,omitempty"`
	Var   string `json:"var"`
	Kind  string `json:"kind"` // none | str | rx
	Key   string `json:"key_hex,omitempty"`
}

type Op struct {
	Name string `json:"name"`
	Neg  bool   `json:"neg,omitempty"`
	Arg  string `json:"arg_hex,omitempty"`
}

type Action struct {
	Name  string `json:"name"`
	Value string `json:"value_hex,omitempty"`
}

type Desc struct {
	Targets []Target `json:"targets"`
	Op      Op       `json:"op"`
	Actions []Action `json:"actions"`
}

type AVar struct {
	Quote bool   `json:"quote"`
	Mask  []bool `json:"mask,omitempty"`
	Pad   string `json:"pad,omitempty"`
}

type RVar struct {
	TQuote []bool `json:"tquote,omitempty"`
	AVars  []AVar `json:"avars,omitempty"`
	Gap1   int    `json:"gap1,omitempty"`
	Gap2   int    `json:"gap2,omitempty"`
}

type caseJSON struct {
	Kind       string            `json:"kind"` // text | desc | actions | split | cut | vars | op | varname | actname
	Files      map[string]string `json:"files_hex,omitempty"`
	Text       string            `json:"text_hex,omitempty"`
	Desc       *Desc             `json:"desc,omitempty"`
	Mask       []bool            `json:"mask,omitempty"`
	RVar       *RVar             `json:"rvar,omitempty"`
	Shape      string            `json:"shape,omitempty"`
	Observed   string            `json:"observed,omitempty"`
	Readable   string            `json:"readable,omitempty"`
	FindingKey string            `json:"finding_key,omitempty"`
	// kind longline: text = pre + fill repeated n times + post (printed to Coq as a repeat term)
	Steps []Step `json:"steps,omitempty"`
	Pre  string `json:"pre_hex,omitempty"`
	Post string `json:"post_hex,omitempty"`
	Fill int    `json:"fill,omitempty"`
	N    int    `json:"n,omitempty"`
}

func hx(s string) string { return hex.EncodeToString([]byte(s)) }
func unhx(h string) string {
	b, _ := hex.DecodeString(h)
	return string(b)
}

// ---------------------------------------------------------------------------------------
// vocabulary
// ---------------------------------------------------------------------------------------

type varInfo struct {
	Name       string
	Selectable bool
}

var allVars []varInfo

func loadVars() {
	if allVars != nil {
		return
	}
	for i := 1; i < 256; i++ {
		v := variables.RuleVariable(i)
		n := v.Name()
		if n == "" || n == "UNKNOWN" || n == "INVALID_VARIABLE" {
			continue
		}
		if pv, err := variables.Parse(n); err != nil || pv != v {
			continue
		}
		allVars = append(allVars, varInfo{n, v.CanBeSelected()})
	}
	sort.Slice(allVars, func(i, j int) bool { return allVars[i].Name < allVars[j].Name })
}

var actionNames = []string{"allow", "auditlog", "block", "capture", "chain", "ctl", "deny", "drop", "exec", "expirevar", "id",
	"initcol", "log", "logdata", "maturity", "msg", "multimatch", "noauditlog", "nolog", "pass", "phase", "redirect", "rev",
	"setenv", "setvar", "severity", "skip", "skipafter", "status", "t", "tag", "ver"}

func actionType(name string) int {
	a, err := actions.Get(name)
	if err != nil {
		return 0
	}
	return int(a.Type())
}

// operators whose Init accepts the argument the generator gives them
var freeArgOps = []string{"contains", "streq", "beginsWith", "endsWith", "within", "pm", "strmatch"}
var noArgOps = []string{"unconditionalMatch", "detectSQLi", "detectXSS", "validateUrlEncoding", "validateUtf8Encoding", "noMatch"}
var numOps = []string{"eq", "ge", "gt", "le", "lt"}

// values for actions whose Init validates its argument
var fixedValues = map[string][]string{
	"phase":     {"1", "2", "3", "4", "5", "request", "response", "logging"},
	"severity":  {"0", "2", "5", "7", "CRITICAL", "WARNING", "NOTICE"},
	"maturity":  {"1", "5", "9"},
	"status":    {"403", "404", "500", "200"},
	"t":         {"none", "lowercase", "urlDecode", "trim", "htmlEntityDecode", "removeNulls"},
	"setvar":    {"tx.a=1", "tx.score=+5", "TX.b=%{tx.a}", "!tx.c", "tx.msg=a,b:c"},
	"ctl":       {"ruleEngine=Off", "requestBodyAccess=On", "auditEngine=Off", "ruleRemoveById=5"},
	"setenv":    {"a=b", "KEY=v:1,2"},
	"expirevar": {"tx.a=10", "ip.x=3600"},
	"initcol":   {"ip=%{REMOTE_ADDR}", "global=global"},
	"skip":      {"1", "3"},
	"skipafter": {"END_MARK", "X-1"},
	"redirect":  {"http://example.com/a?b=c,d", "/x"},
	"allow":     {"", "phase", "request"},
}

// ---------------------------------------------------------------------------------------
// renderer (mirrors Parser.v: render_line; cross-checked inside Coq by the CDesc cases)
// ---------------------------------------------------------------------------------------

func flipCase(c byte) byte {
	if 'A' <= c && c <= 'Z' {
		return c + 32
	}
	if 'a' <= c && c <= 'z' {
		return c - 32
	}
	return c
}

func varyCase(mask []bool, s string) string {
	b := []byte(s)
	for i := range b {
		if i < len(mask) && mask[i] {
			b[i] = flipCase(b[i])
		}
	}
	return string(b)
}

func escapeDQ(s string) string { return strings.ReplaceAll(s, `"`, `\"`) }

func renderTarget(q bool, t Target) string {
	var sb strings.Builder
	if t.Neg {
		sb.WriteByte('!')
	}
	if t.Count {
		sb.WriteByte('&')
	}
	sb.WriteString(t.Var)
	switch t.Kind {
	case "str":
		sb.WriteString(":" + unhx(t.Key))
	case "rx":
		if q {
			sb.WriteString(":'/" + unhx(t.Key) + "/'")
		} else {
			sb.WriteString(":/" + unhx(t.Key) + "/")
		}
	}
	return sb.String()
}

func opFn(o Op) string {
	if o.Neg {
		return "!@" + o.Name
	}
	return "@" + o.Name
}

func renderOp(o Op) string {
	arg := unhx(o.Arg)
	if arg == "" {
		return `"` + opFn(o) + `"`
	}
	return `"` + opFn(o) + " " + escapeDQ(arg) + `"`
}

func renderAction(v AVar, a Action) string {
	val := unhx(a.Value)
	s := v.Pad + varyCase(v.Mask, a.Name)
	if val == "" {
		return s
	}
	if v.Quote {
		return s + ":" + v.Pad + "'" + val + "'"
	}
	return s + ":" + v.Pad + val
}

var avarPlain = AVar{Quote: true}

func renderRule(v RVar, d Desc) string {
	var ts []string
	for i, t := range d.Targets {
		q := false
		if i < len(v.TQuote) {
			q = v.TQuote[i]
		}
		ts = append(ts, renderTarget(q, t))
	}
	var as []string
	for i, a := range d.Actions {
		av := avarPlain
		if i < len(v.AVars) {
			av = v.AVars[i]
		}
		as = append(as, renderAction(av, a))
	}
	return strings.Join(ts, "|") + " " + strings.Repeat(" ", v.Gap1) + renderOp(d.Op) + " " + strings.Repeat(" ", v.Gap2) +
		`"` + strings.Join(as, ",") + `"`
}

func renderLine(mask []bool, v RVar, d Desc) string {
	return varyCase(mask, "SecRule") + " " + renderRule(v, d)
}

// ---------------------------------------------------------------------------------------
// the guards of the round-trip theorem, Go side (Parser.v: wf_qvalue, wf_uvalue, wf_rx, wf_esc)
// ---------------------------------------------------------------------------------------

func isSpaceRuneStart(s string) bool { return strings.TrimLeft(s, "\t\n\v\f\r \u0085\u00a0\u1680\u2000\u2001\u2002\u2003\u2004\u2005\u2006\u2007\u2008\u2009\u200a\u2028\u2029\u202f\u205f\u3000") != s }

func wfQValue(s string) bool {
	prev := byte('\'')
	for i := 0; i < len(s); i++ {
		if s[i] == '\'' && prev != '\\' {
			return false
		}
		prev = s[i]
	}
	return prev != '\\'
}

// every double quote and the end of the text is preceded by an even number of backslashes
func wfEsc(s string) bool {
	run := 0
	for i := 0; i < len(s); i++ {
		switch s[i] {
		case '"':
			if run%2 == 1 {
				return false
			}
			run = 0
		case '\\':
			run++
		default:
			run = 0
		}
	}
	return run%2 == 0
}

func maybeRemoveQuotes(s string) string {
	if len(s) < 2 {
		return s
	}
	if (s[0] == '"' || s[0] == '\'') && s[len(s)-1] == s[0] {
		return s[1 : len(s)-1]
	}
	return s
}

func wfUValue(s string) bool {
	prev := byte(':')
	for i := 0; i < len(s); i++ {
		if (s[i] == '\'' || s[i] == ',') && prev != '\\' {
			return false
		}
		prev = s[i]
	}
	return prev != '\\' && strings.TrimSpace(s) == s && maybeRemoveQuotes(s) == s
}

// ---------------------------------------------------------------------------------------
// the implementation side
// ---------------------------------------------------------------------------------------

var syntaxErr = regexp.MustCompile(`invalid format for rule with operator|invalid operator for rule with operator|expected quoted string|expected terminating quote|invalid actions for rule with operator|unknown variable|attempting to select a value inside a non-selectable collection|unclosed quote|operator .* not found|invalid action "|rule id is missing|duplicated rule id|unknown directive|invalid line|backticks left open|expected options|empty rule|failed to readfile|cannot include more than|line continuation at the end of the configuration|failed to read the configuration`)

type observation struct {
	Class string // ok | syntax | ext | panic
	Dumps []corazawaf.VerifC16Dump
	Data  []string // per rule: the data file its @pmFromFile / @ipMatchFromFile operator loaded ("" = none)
	Err   string
}

// one call on the Parser: FromFile(File) when File != "", else FromString(Text)
type Step struct {
	File string `json:"file,omitempty"`
	Text string `json:"text_hex,omitempty"`
}

func classify(err error) string {
	m := err.Error()
	if strings.Contains(m, "error parsing regexp") || strings.Contains(m, "failed to init action") {
		return "ext"
	}
	if syntaxErr.MatchString(m) || strings.Contains(m, `directive "secruleupdatetargetbyid"`) {
		return "syntax"
	}
	return "ext"
}

var dataFileOps = map[string]bool{"pmFromFile": true, "pmf": true, "ipMatchFromFile": true, "ipMatchF": true}

// probeData: which data file did the operator of rule idx load?  Every *.data file of the in-memory
// file system holds one token (a word, or an IP address) that occurs in no other data file; the
// operator is evaluated on every token.
func probeData(waf *corazawaf.WAF, idx int, d corazawaf.VerifC16Dump, files map[string]string) string {
	if !d.HasOperator || !dataFileOps[strings.TrimLeft(d.OpFunction, "!@")] {
		return ""
	}
	var names []string
	for n := range files {
		if strings.HasSuffix(n, ".data") {
			names = append(names, n)
		}
	}
	sort.Strings(names)
	hit := ""
	for _, n := range names {
		if corazawaf.VerifC16ProbeOperator(waf, idx, strings.TrimSpace(files[n])) {
			if hit != "" {
				return "?ambiguous"
			}
			hit = n
		}
	}
	return hit
}

func observeSteps(files map[string]string, steps []Step) (o observation) {
	defer func() {
		if r := recover(); r != nil {
			o = observation{Class: "panic", Err: fmt.Sprint(r)}
		}
	}()
	waf := corazawaf.NewWAF()
	p := seclang.NewParser(waf)
	mfs := fstest.MapFS{}
	for n, c := range files {
		mfs[n] = &fstest.MapFile{Data: []byte(c)}
	}
	p.SetRoot(mfs)
	for _, st := range steps {
		var err error
		if st.File != "" {
			err = p.FromFile(st.File)
		} else {
			err = p.FromString(unhx(st.Text))
		}
		if err != nil {
			return observation{Class: classify(err), Err: err.Error()}
		}
	}
	o = observation{Class: "ok", Dumps: corazawaf.VerifC16DumpRules(waf)}
	for i, d := range o.Dumps {
		o.Data = append(o.Data, probeData(waf, i, d, files))
	}
	return o
}

func observe(files map[string]string, text string) observation {
	return observeSteps(files, []Step{{Text: hx(text)}})
}

func optHx(present bool, s string) string { return vh.OptionOf(present, vh.HxS(s)) }

func vdumpTerm(v corazawaf.VerifC16Variable) string {
	var ex []string
	for _, e := range v.Exceptions {
		ex = append(ex, fmt.Sprintf("(%s, %s)", vh.HxS(e.KeyStr), optHx(e.HasRx, e.Rx)))
	}
	return fmt.Sprintf("(mk_vd %s %s %s %s %s)", vh.HxS(v.Name), vh.Bool(v.Count), vh.HxS(v.KeyStr), optHx(v.HasRx, v.Rx), vh.List(ex))
}

func dumpTerm(d corazawaf.VerifC16Dump, data string) string {
	var vs, as []string
	for _, v := range d.Variables {
		vs = append(vs, vdumpTerm(v))
	}
	for _, a := range d.Actions {
		as = append(as, vh.HxS(a.Name))
	}
	op := "None"
	if d.HasOperator {
		op = fmt.Sprintf("(Some (%s, %s, %s))", vh.HxS(d.OpFunction), vh.Bool(d.OpNegation), vh.HxS(d.OpData))
	}
	return fmt.Sprintf("(mk_dump %s %s %s %s %s %s %s %s %s %s %s)", vh.List(vs), op, vh.List(as), vh.N(int64(d.ID)), vh.N(int64(d.Phase)),
		optHx(d.HasMsg, d.Msg), optHx(d.HasLogData, d.LogData), vh.HxList(d.Tags), vh.HxS(d.Rev), vh.HxS(d.Version), optHx(data != "", data))
}

func obsTerm(o observation) string {
	switch o.Class {
	case "ok":
		var ds []string
		for i, d := range o.Dumps {
			data := ""
			if i < len(o.Data) {
				data = o.Data[i]
			}
			ds = append(ds, dumpTerm(d, data))
		}
		return "(ObsOk " + vh.List(ds) + ")"
	case "syntax":
		return "ObsSyntax"
	}
	return "ObsExt"
}

func dumpsKey(ds []corazawaf.VerifC16Dump) string {
	b, _ := json.Marshal(ds)
	return string(b)
}

// obsKey: everything that is compared between equivalent configurations (rules sorted by id)
func obsKey(o observation) string {
	type rd struct {
		D    corazawaf.VerifC16Dump
		Data string
	}
	var l []rd
	for i, d := range o.Dumps {
		data := ""
		if i < len(o.Data) {
			data = o.Data[i]
		}
		d.OpData = "" // the flat spelling names the data file by its full path
		l = append(l, rd{d, data})
	}
	sort.SliceStable(l, func(i, j int) bool { return l[i].D.ID < l[j].D.ID })
	b, _ := json.Marshal(l)
	return o.Class + string(b)
}

func boolList(m []bool) string {
	items := make([]string, len(m))
	for i, b := range m {
		items[i] = vh.Bool(b)
	}
	return vh.List(items)
}

func descTerm(d Desc) string {
	var ts, as []string
	for _, t := range d.Targets {
		k := "KNone"
		switch t.Kind {
		case "str":
			k = "(KStr " + vh.Hx([]byte(unhx(t.Key))) + ")"
		case "rx":
			k = "(KRx " + vh.Hx([]byte(unhx(t.Key))) + ")"
		}
		ts = append(ts, fmt.Sprintf("(mk_target %s %s %s %s)", vh.Bool(t.Neg), vh.Bool(t.Count), vh.HxS(t.Var), k))
	}
	for _, a := range d.Actions {
		as = append(as, fmt.Sprintf("(mk_action %s %s %s)", vh.HxS(a.Name), vh.Hx([]byte(unhx(a.Value))), vh.N(int64(actionType(a.Name)))))
	}
	op := fmt.Sprintf("(Some (mk_op %s %s %s %s))", vh.HxS(opFn(d.Op)), vh.HxS(d.Op.Name), vh.Bool(d.Op.Neg), vh.Hx([]byte(unhx(d.Op.Arg))))
	return fmt.Sprintf("(mk_rule %s %s %s)", vh.List(ts), op, vh.List(as))
}

func rvarTerm(v RVar) string {
	var avs []string
	for _, a := range v.AVars {
		avs = append(avs, fmt.Sprintf("(mk_avar %s %s %s)", vh.Bool(a.Quote), boolList(a.Mask), vh.HxS(a.Pad)))
	}
	return fmt.Sprintf("(mk_rvar %s %s %s %s)", boolList(v.TQuote), vh.List(avs), vh.Nat(v.Gap1), vh.Nat(v.Gap2))
}

func filesTerm(files map[string]string) string {
	var names []string
	for n := range files {
		names = append(names, n)
	}
	sort.Strings(names)
	var items []string
	for _, n := range names {
		items = append(items, fmt.Sprintf("(%s, %s)", vh.HxS(n), vh.HxS(files[n])))
	}
	return vh.List(items)
}

func readable(s string) string {
	if len(s) > 300 {
		s = s[:300] + "..."
	}
	return fmt.Sprintf("%q", s)
}

// ---------------------------------------------------------------------------------------
// generators
// ---------------------------------------------------------------------------------------

type gen struct {
	r *rand.Rand
}

func (g *gen) pick(l []string) string { return l[g.r.Intn(len(l))] }

func (g *gen) mask(n int) []bool {
	switch g.r.Intn(4) {
	case 0:
		return nil
	case 1:
		m := make([]bool, n)
		for i := range m {
			m[i] = true
		}
		return m
	}
	m := make([]bool, n)
	for i := range m {
		m[i] = g.r.Intn(2) == 0
	}
	return m
}

const plainKeyAlpha = "abcXYZ019_-.:$*=+;%@[]()"

func (g *gen) plainKey(ascii bool) string {
	n := 1 + g.r.Intn(6)
	b := make([]byte, n)
	for i := range b {
		if !ascii && g.r.Intn(8) == 0 {
			b[i] = byte(0x80 + g.r.Intn(0x80))
		} else {
			b[i] = plainKeyAlpha[g.r.Intn(len(plainKeyAlpha))]
		}
	}
	return string(b)
}

// regex keys: literal fragments, alternation, escaped slashes and backslashes; always a valid RE2
func (g *gen) rxKey() string {
	frags := []string{"a", "b", "X", "^", "$", "|", "\\/", "\\\\", ".", "\\.", "[a-z]+", "(x|y)", "\\d", "foo", "-", "_", "'", ":", "!", "&", ","}
	var sb strings.Builder
	n := g.r.Intn(6)
	for i := 0; i < n; i++ {
		sb.WriteString(frags[g.r.Intn(len(frags))])
	}
	return sb.String()
}

func isASCII(s string) bool {
	for i := 0; i < len(s); i++ {
		if s[i] >= 0x80 {
			return false
		}
	}
	return true
}

func caseSensitiveVar(n string) bool {
	switch n {
	case "ARGS", "ARGS_NAMES", "ARGS_GET", "ARGS_POST", "ARGS_GET_NAMES", "ARGS_POST_NAMES":
		return true
	}
	return false
}

func (g *gen) target(prev []Target) Target {
	loadVars()
	var vi varInfo
	if g.r.Intn(3) == 0 {
		vi = allVars[g.r.Intn(len(allVars))]
	} else {
		common := []string{"ARGS", "ARGS_NAMES", "ARGS_GET", "REQUEST_HEADERS", "REQUEST_COOKIES", "TX", "FILES", "XML", "JSON", "REQUEST_URI", "REQUEST_BODY", "RESPONSE_HEADERS", "GEO", "ENV", "MATCHED_VARS"}
		n := g.pick(common)
		for _, v := range allVars {
			if v.Name == n {
				vi = v
			}
		}
	}
	t := Target{Var: vi.Name, Kind: "none"}
	// negations mostly of a variable already present
	if len(prev) > 0 && g.r.Intn(3) == 0 {
		p := prev[g.r.Intn(len(prev))]
		for _, v := range allVars {
			if v.Name == p.Var {
				vi = v
			}
		}
		t.Var = vi.Name
		t.Neg = true
	} else if g.r.Intn(5) == 0 {
		t.Count = true
	}
	xj := t.Var == "XML" || t.Var == "JSON"
	switch k := g.r.Intn(5); {
	case k <= 1 && vi.Selectable:
		t.Kind = "str"
		if xj {
			t.Key = hx(g.pick([]string{"/*", "//a/b", "/root/@id", "a.b.c", "//*[local-name()='x']"}))
		} else {
			t.Key = hx(g.plainKey(!caseSensitiveVar(t.Var)))
		}
	case k == 2 && !xj:
		t.Kind = "rx"
		t.Key = hx(g.rxKey())
	}
	return t
}

const argAlpha = "abcXYZ01 \t\"\\'|,:;/()[]{}^$.*+?=@!&<>%#`~-_"

func (g *gen) bytesFrom(alpha string, n int, nonASCII bool) string {
	b := make([]byte, n)
	for i := range b {
		if nonASCII && g.r.Intn(10) == 0 {
			b[i] = byte(0x80 + g.r.Intn(0x80))
		} else {
			b[i] = alpha[g.r.Intn(len(alpha))]
		}
	}
	return string(b)
}

// operator argument: arbitrary bytes under the theorem's guard (no backslash right before a quote,
// none at the end, nothing TrimSpace removes, no line feed)
func (g *gen) opArg() string {
	for {
		s := g.bytesFrom(argAlpha, g.r.Intn(14), true)
		if strings.TrimSpace(s) != s || !wfEsc(s) {
			continue
		}
		return s
	}
}

func (g *gen) op() Op {
	o := Op{Neg: g.r.Intn(4) == 0}
	switch g.r.Intn(10) {
	case 0, 1, 2, 3:
		o.Name = g.pick(freeArgOps)
		o.Arg = hx(g.opArg())
		if o.Arg == "" && o.Name != "within" {
			o.Arg = hx("x\"y")
		}
	case 4, 5:
		o.Name = "rx"
		o.Arg = hx(g.pick([]string{"a", "^a\\/b|c$", "\"q\"", "(?i)foo bar", "a\\\\b", "[\"']x", "\\d+ \\w", "a,b:c", "'", "\\s+\\\\"}))
	case 6:
		o.Name = g.pick(noArgOps)
	case 7:
		o.Name = g.pick(numOps)
		o.Arg = hx(g.pick([]string{"0", "15", "%{tx.a}"}))
	case 8:
		o.Name = "ipMatch"
		o.Arg = hx(g.pick([]string{"10.0.0.0/8", "127.0.0.1,::1"}))
	case 9:
		o.Name = "validateByteRange"
		o.Arg = hx(g.pick([]string{"1-255", "32,34,38,42-59"}))
	}
	return o
}

const valAlpha = "abcXYZ01 ,:;=.-_/()\"%!&|@#<>[]{}*+?^$~`\t"

// action value: arbitrary bytes under the theorem's guard (a single quote only right after a
// backslash, no backslash at the end, no line feed)
func (g *gen) value() string {
	n := 1 + g.r.Intn(12)
	var sb strings.Builder
	for sb.Len() < n {
		switch g.r.Intn(12) {
		case 0:
			sb.WriteString("\\'")
		case 1:
			sb.WriteString("\\\\")
		case 2:
			sb.WriteString("\\,")
		case 3:
			sb.WriteByte(byte(0x80 + g.r.Intn(0x80)))
		default:
			sb.WriteByte(valAlpha[g.r.Intn(len(valAlpha))])
		}
	}
	s := sb.String()
	s = strings.ReplaceAll(s, "%{", "%(")
	if strings.HasSuffix(s, "\\") {
		s += "x"
	}
	if !wfQValue(s) {
		return "it\\'s"
	}
	return s
}

func (g *gen) actionsList(id int) []Action {
	as := []Action{}
	idAt := g.r.Intn(3)
	n := 1 + g.r.Intn(6)
	hasDisruptive := false
	for i := 0; i < n; i++ {
		if i == idAt {
			as = append(as, Action{Name: "id", Value: hx(fmt.Sprint(id))})
		}
		var a Action
		switch g.r.Intn(10) {
		case 0, 1, 2, 3:
			a.Name = g.pick([]string{"msg", "tag", "tag", "rev", "ver", "logdata"})
			v := g.value()
			if a.Name == "msg" && maybeRemoveQuotes(v) == "" {
				v = "m"
			}
			a.Value = hx(v)
		case 4, 5:
			a.Name = g.pick([]string{"log", "nolog", "auditlog", "noauditlog", "capture", "multimatch", "exec"})
		case 6:
			if hasDisruptive {
				a.Name = "log"
			} else {
				hasDisruptive = true
				a.Name = g.pick([]string{"deny", "drop", "pass", "block", "allow", "redirect"})
				if vs, ok := fixedValues[a.Name]; ok {
					a.Value = hx(g.pick(vs))
				}
			}
		default:
			names := []string{"phase", "severity", "maturity", "status", "t", "setvar", "ctl", "setenv", "expirevar", "initcol", "skip", "skipafter"}
			a.Name = g.pick(names)
			a.Value = hx(g.pick(fixedValues[a.Name]))
		}
		as = append(as, a)
	}
	if idAt >= n {
		as = append(as, Action{Name: "id", Value: hx(fmt.Sprint(id))})
	}
	return as
}

func (g *gen) desc(id int) Desc {
	d := Desc{}
	n := 1 + g.r.Intn(4)
	for i := 0; i < n; i++ {
		d.Targets = append(d.Targets, g.target(d.Targets))
	}
	// the first target is never a negation of nothing (harmless, but keep rules meaningful)
	d.Targets[0].Neg = false
	// keys with non-ASCII bytes only when every target is a case-sensitive (ARGS family) variable:
	// strings.ToLower on the key of any other collection is outside the model (Unicode tables,
	// U+FFFD for invalid bytes), and a near miss may merge two targets into one key
	allCS := true
	for _, t := range d.Targets {
		if !caseSensitiveVar(t.Var) {
			allCS = false
		}
	}
	if !allCS {
		for i, t := range d.Targets {
			if t.Kind == "str" && !isASCII(unhx(t.Key)) {
				d.Targets[i].Key = hx(g.plainKey(true))
			}
		}
	}
	d.Op = g.op()
	d.Actions = g.actionsList(id)
	return d
}

func (g *gen) rvar(d Desc) RVar {
	v := RVar{}
	if g.r.Intn(2) == 0 {
		return v
	}
	for range d.Targets {
		v.TQuote = append(v.TQuote, g.r.Intn(2) == 0)
	}
	for _, a := range d.Actions {
		av := AVar{Quote: true, Mask: g.mask(len(a.Name))}
		if wfUValue(unhx(a.Value)) && g.r.Intn(2) == 0 {
			av.Quote = false
		}
		av.Pad = g.pick([]string{"", "", " ", "  ", "\t", " \t"})
		v.AVars = append(v.AVars, av)
	}
	v.Gap1 = g.r.Intn(3)
	v.Gap2 = g.r.Intn(3)
	return v
}

// physical layout of a logical line: comment / blank lines in front, indentation, continuation
// breaks at positions where the next piece starts with a printable non-space byte other than '#'
func (g *gen) layout(line string) string {
	var sb strings.Builder
	for i := g.r.Intn(3); i > 0; i-- {
		sb.WriteString(g.pick([]string{"", "   ", "# a comment", "  # SecRule ARGS \"x\" \"id:9,deny\"", "\t", "#", "# ends with a backslash \\"}))
		sb.WriteString(g.pick([]string{"\n", "\n", "\r\n"}))
	}
	indent := g.pick([]string{"", "", "  ", "\t", "    \t"})
	nl := g.pick([]string{"\n", "\n", "\r\n"})
	nbreaks := g.r.Intn(4)
	pos := map[int]bool{}
	for i := 0; i < nbreaks; i++ {
		p := 1 + g.r.Intn(len(line)-1)
		c := line[p]
		if c > 0x20 && c < 0x7f && c != '#' {
			pos[p] = true
		}
	}
	start := 0
	for p := 1; p < len(line); p++ {
		if pos[p] {
			sb.WriteString(indent + line[start:p] + "\\" + g.pick([]string{"", "", " ", "\t"}) + nl)
			// blank and comment lines may sit inside a continuation
			if g.r.Intn(4) == 0 {
				sb.WriteString(g.pick([]string{"", "  # inside", "\t"}) + nl)
			}
			start = p
		}
	}
	sb.WriteString(indent + line[start:] + g.pick([]string{"", "", "  ", "\t"}))
	if g.r.Intn(4) != 0 {
		sb.WriteString(nl)
	}
	return sb.String()
}

const delimiters = " \"',:|/!&\\@"

// near-miss texts: delete or duplicate one delimiter at every position
func nearMisses(line string) []string {
	var res []string
	for i := 0; i < len(line); i++ {
		if strings.IndexByte(delimiters, line[i]) < 0 {
			continue
		}
		res = append(res, line[:i]+line[i+1:])
		res = append(res, line[:i+1]+line[i:])
	}
	return res
}

// ---------------------------------------------------------------------------------------
// driver
// ---------------------------------------------------------------------------------------

type runner struct {
	cfg    vh.Config
	res    *vh.Result
	terms  []string
	cases  []any
	seen   map[string]bool
	nontr  int
	oracle int
}

func (r *runner) fail(key, what string, c any) {
	r.res.OracleFailures = append(r.res.OracleFailures, vh.OracleFailure{Key: key, What: what, Case: c})
}

func (r *runner) add(term string, cj caseJSON, key string, nontrivial bool) {
	r.terms = append(r.terms, term)
	r.cases = append(r.cases, cj)
	r.res.Evaluations++
	if !r.seen[key] {
		r.seen[key] = true
		if nontrivial {
			r.nontr++
		}
	}
}

func (r *runner) addText(files map[string]string, text, shape, finding string) observation {
	o := observe(files, text)
	fh := map[string]string{}
	for n, c := range files {
		fh[n] = hx(c)
	}
	cj := caseJSON{Kind: "text", Files: fh, Text: hx(text), Shape: shape, Observed: o.Class + " " + o.Err, Readable: readable(text), FindingKey: finding}
	if o.Class == "panic" {
		r.fail("c16-panic", "FromString panicked: "+o.Err, cj)
		return o
	}
	r.res.InputDistribution["text_"+shape+"_"+o.Class]++
	r.add(fmt.Sprintf("CText %s %s %s", filesTerm(files), vh.HxS(text), obsTerm(o)), cj, "T"+filesTerm(files)+text,
		(o.Class == "ok" && len(o.Dumps) > 0) || o.Class == "syntax")
	return o
}

func (r *runner) addDesc(d Desc, mask []bool, v RVar, finding string) (string, observation) {
	line := renderLine(mask, v, d)
	o := observe(nil, line)
	cj := caseJSON{Kind: "desc", Desc: &d, Mask: mask, RVar: &v, Observed: o.Class + " " + o.Err, Readable: readable(line), FindingKey: finding}
	if o.Class == "panic" {
		r.fail("c16-panic", "FromString panicked: "+o.Err, cj)
		return line, o
	}
	r.res.InputDistribution["desc_"+o.Class]++
	r.add(fmt.Sprintf("CDesc %s %s %s %s %s", descTerm(d), boolList(mask), rvarTerm(v), vh.HxS(line), obsTerm(o)), cj, "D"+line,
		o.Class == "ok" && len(o.Dumps) > 0)
	return line, o
}

func stepsTerm(steps []Step) string {
	var items []string
	for _, st := range steps {
		if st.File != "" {
			items = append(items, "(StepFile "+vh.HxS(st.File)+")")
		} else {
			items = append(items, "(StepString "+vh.Hx([]byte(unhx(st.Text)))+")")
		}
	}
	return vh.List(items)
}

// addSession: several FromFile / FromString calls on one Parser
func (r *runner) addSession(files map[string]string, steps []Step, shape string) observation {
	o := observeSteps(files, steps)
	fh := map[string]string{}
	for n, c := range files {
		fh[n] = hx(c)
	}
	var rd []string
	for _, st := range steps {
		if st.File != "" {
			rd = append(rd, "FromFile "+st.File)
		} else {
			rd = append(rd, "FromString "+readable(unhx(st.Text)))
		}
	}
	cj := caseJSON{Kind: "session", Files: fh, Steps: steps, Shape: shape, Observed: o.Class + " " + o.Err, Readable: strings.Join(rd, " ; ")}
	if o.Class == "panic" {
		r.fail("c16-panic", "the parser panicked: "+o.Err, cj)
		return o
	}
	r.res.InputDistribution["session_"+shape+"_"+o.Class]++
	r.add(fmt.Sprintf("CSession %s %s %s", filesTerm(files), stepsTerm(steps), obsTerm(o)), cj, "S"+filesTerm(files)+stepsTerm(steps),
		(o.Class == "ok" && len(o.Dumps) > 0) || o.Class == "syntax")
	return o
}

// addIntent: a text and the description it is meant to denote; the compiled dump must be what the
// description compiles to (fails exactly on the listed findings, which carry their key)
func (r *runner) addIntent(d Desc, text, finding string) {
	o := observe(nil, text)
	cj := caseJSON{Kind: "intent", Desc: &d, Text: hx(text), Observed: o.Class + " " + o.Err, Readable: readable(text), FindingKey: finding}
	if o.Class == "panic" {
		r.fail("c16-panic", "FromString panicked: "+o.Err, cj)
		return
	}
	r.res.InputDistribution["intent_"+o.Class]++
	r.add(fmt.Sprintf("CIntent %s %s %s", descTerm(d), vh.HxS(text), obsTerm(o)), cj, "I"+text, o.Class == "ok")
}

// addLongLine: a text with one very long run of a byte; the Coq term builds the run with repeat
func (r *runner) addLongLine(pre string, fill byte, n int, post string) {
	text := pre + strings.Repeat(string([]byte{fill}), n) + post
	o := observe(nil, text)
	cj := caseJSON{Kind: "longline", Pre: hx(pre), Post: hx(post), Fill: int(fill), N: n, Observed: o.Class + " " + o.Err}
	if o.Class == "panic" {
		r.fail("c16-panic", "FromString panicked: "+o.Err, cj)
		return
	}
	r.oracle++
	if n >= 65536 && o.Class == "ok" {
		r.fail("c16-long-line-accepted", "a configuration with a physical line of 64 KiB or more was accepted (the rest of the text is ignored silently)", cj)
	}
	r.res.InputDistribution["longline_"+o.Class]++
	term := fmt.Sprintf("CText [] (%s ++ repeat %s (N.to_nat %s) ++ %s)%%list %s", vh.HxS(pre), vh.N(int64(fill)), vh.N(int64(n)), vh.HxS(post), obsTerm(o))
	r.add(term, cj, fmt.Sprintf("L%s|%d|%d|%s", pre, fill, n, post), true)
}

func actionsTerm(kv []seclang.VerifC16KV) string {
	var items []string
	for _, a := range kv {
		items = append(items, fmt.Sprintf("(mk_action %s %s %s)", vh.HxS(a.Key), vh.HxS(a.Value), vh.N(int64(a.Type))))
	}
	return vh.List(items)
}

func (r *runner) addActions(s string) {
	kv, err := seclang.VerifC16ParseActions(s)
	cj := caseJSON{Kind: "actions", Text: hx(s), Readable: readable(s)}
	term := "None"
	if err == nil {
		term = "(Some " + actionsTerm(kv) + ")"
		r.res.InputDistribution["actions_ok"]++
	} else {
		r.res.InputDistribution["actions_err"]++
	}
	r.add(fmt.Sprintf("CActions %s %s", vh.HxS(s), term), cj, "A"+s, err == nil)
}

func (r *runner) addSplit(s string) {
	v, o, a, err := seclang.VerifC16ParseActionOperator(s)
	cj := caseJSON{Kind: "split", Text: hx(s), Readable: readable(s)}
	term := "None"
	if err == nil {
		term = fmt.Sprintf("(Some (%s, %s, %s))", vh.HxS(v), vh.HxS(o), vh.HxS(a))
		r.res.InputDistribution["split_ok"]++
	} else {
		r.res.InputDistribution["split_err"]++
	}
	r.add(fmt.Sprintf("CSplit %s %s", vh.HxS(s), term), cj, "S"+s, err == nil)
}

func (r *runner) addCut(s string) {
	a, b, err := seclang.VerifC16CutQuotedString(s)
	cj := caseJSON{Kind: "cut", Text: hx(s), Readable: readable(s)}
	term := "None"
	if err == nil {
		term = fmt.Sprintf("(Some (%s, %s))", vh.HxS(a), vh.HxS(b))
		r.res.InputDistribution["cut_ok"]++
	} else {
		r.res.InputDistribution["cut_err"]++
	}
	r.add(fmt.Sprintf("CCut %s %s", vh.HxS(s), term), cj, "C"+s, err == nil)
}

func (r *runner) addVars(s string) {
	cj := caseJSON{Kind: "vars", Text: hx(s), Readable: readable(s)}
	var term string
	func() {
		defer func() {
			if p := recover(); p != nil {
				r.fail("c16-panic", fmt.Sprintf("ParseVariables panicked: %v", p), cj)
				term = ""
			}
		}()
		rule, err := seclang.VerifC16ParseVariables(corazawaf.NewWAF(), s)
		switch {
		case err == nil:
			d := corazawaf.VerifC16DumpRule(rule)
			var vs []string
			for _, v := range d.Variables {
				vs = append(vs, vdumpTerm(v))
			}
			term = "(VOk " + vh.List(vs) + ")"
			r.res.InputDistribution["vars_ok"]++
		case syntaxErr.MatchString(err.Error()):
			term = "VSyntax"
			r.res.InputDistribution["vars_syntax"]++
		default:
			term = "VExt"
			r.res.InputDistribution["vars_ext"]++
		}
	}()
	if term == "" {
		return
	}
	r.add(fmt.Sprintf("CVars %s %s", vh.HxS(s), term), cj, "V"+s, term != "VExt")
}

func (r *runner) addOp(s string) {
	cj := caseJSON{Kind: "op", Text: hx(s), Readable: readable(s)}
	var term string
	func() {
		defer func() {
			if p := recover(); p != nil {
				r.fail("c16-panic", fmt.Sprintf("ParseOperator panicked: %v", p), cj)
				term = ""
			}
		}()
		rule, err := seclang.VerifC16ParseOperator(corazawaf.NewWAF(), s)
		switch {
		case err == nil:
			d := corazawaf.VerifC16DumpRule(rule)
			term = fmt.Sprintf("true (Some (%s, %s, %s))", vh.HxS(d.OpFunction), vh.Bool(d.OpNegation), vh.HxS(d.OpData))
			r.res.InputDistribution["op_ok"]++
		case syntaxErr.MatchString(err.Error()):
			term = "false None"
			r.res.InputDistribution["op_unknown"]++
		default:
			term = "true None"
			r.res.InputDistribution["op_init_err"]++
		}
	}()
	if term == "" {
		return
	}
	r.add(fmt.Sprintf("COp %s %s", vh.HxS(s), term), cj, "O"+s, true)
}

func (r *runner) addVarName(n string) {
	cj := caseJSON{Kind: "varname", Text: hx(n), Readable: readable(n)}
	v, err := variables.Parse(n)
	term := "None"
	if err == nil {
		term = fmt.Sprintf("(Some (%s, %s))", vh.HxS(v.Name()), vh.Bool(v.CanBeSelected()))
	}
	r.res.InputDistribution["table_var"]++
	r.add(fmt.Sprintf("CVarName %s %s", vh.HxS(n), term), cj, "VN"+n, err == nil)
}

func (r *runner) addActName(n string) {
	cj := caseJSON{Kind: "actname", Text: hx(n), Readable: readable(n)}
	a, err := actions.Get(n)
	term := "None"
	if err == nil {
		term = "(Some " + vh.N(int64(a.Type())) + ")"
	}
	r.res.InputDistribution["table_action"]++
	r.add(fmt.Sprintf("CActName %s %s", vh.HxS(n), term), cj, "AN"+n, err == nil)
}

func (r *runner) runDoc(doc json.RawMessage) {
	var c caseJSON
	if json.Unmarshal(doc, &c) != nil {
		return
	}
	switch c.Kind {
	case "text":
		files := map[string]string{}
		for n, h := range c.Files {
			files[n] = unhx(h)
		}
		r.addText(files, unhx(c.Text), "replay", c.FindingKey)
	case "desc":
		if c.Desc == nil {
			return
		}
		v := RVar{}
		if c.RVar != nil {
			v = *c.RVar
		}
		r.addDesc(*c.Desc, c.Mask, v, c.FindingKey)
	case "session":
		files := map[string]string{}
		for n, h := range c.Files {
			files[n] = unhx(h)
		}
		r.addSession(files, c.Steps, "replay")
	case "intent":
		if c.Desc != nil {
			r.addIntent(*c.Desc, unhx(c.Text), c.FindingKey)
		}
	case "longline":
		r.addLongLine(unhx(c.Pre), byte(c.Fill), c.N, unhx(c.Post))
	case "actions":
		r.addActions(unhx(c.Text))
	case "split":
		r.addSplit(unhx(c.Text))
	case "cut":
		r.addCut(unhx(c.Text))
	case "vars":
		r.addVars(unhx(c.Text))
	case "op":
		r.addOp(unhx(c.Text))
	case "varname":
		r.addVarName(unhx(c.Text))
	case "actname":
		r.addActName(unhx(c.Text))
	}
}

func enumerate(alpha string, maxLen int) []string {
	res := []string{""}
	prev := []string{""}
	for l := 1; l <= maxLen; l++ {
		var cur []string
		for _, p := range prev {
			for i := 0; i < len(alpha); i++ {
				cur = append(cur, p+string(alpha[i]))
			}
		}
		res = append(res, cur...)
		prev = cur
	}
	return res
}

func Run(cfg vh.Config) (*vh.Result, error) {
	res := &vh.Result{InputDistribution: map[string]int{}}
	res.Rule = "structured SecRule descriptions over the whole variable / operator / action vocabulary, rendered in several variations (letter case, quoting, padding, indentation, comment and blank lines, continuation, CRLF, Include splitting) and their near-miss texts (one delimiter deleted or duplicated at every position), compiled by seclang.Parser.FromString and dumped through the verif hook; plus direct calls of parseActions, parseActionOperator, cutQuotedString, ParseVariables, ParseOperator on strings over their metacharacters. A case is non-trivial when the text compiles to at least one rule, or is refused by the text layer, or (scanner cases) the scanner returns a result; distinct = distinct texts."
	r := &runner{cfg: cfg, res: res, seen: map[string]bool{}}
	g := &gen{r: vh.Rng(cfg.Seed, "c16")}
	loadVars()

	if cfg.Replay != "" {
		b, err := os.ReadFile(cfg.Replay)
		if err != nil {
			return nil, err
		}
		var rp struct {
			Case json.RawMessage `json:"case"`
		}
		if json.Unmarshal(b, &rp) == nil && rp.Case != nil {
			r.runDoc(rp.Case)
		} else {
			r.runDoc(b)
		}
	} else {
		docs, _ := vh.LoadCorpus(cfg.Corpus)
		for _, d := range docs {
			r.runDoc(d)
		}
		res.InputDistribution["corpus"] = len(docs)
		r.generate(g)
	}

	res.OracleEvaluations = r.oracle
	res.DistinctNontrivial = r.nontr
	per := 400
	for i, k := 0, 0; i < len(r.terms); i, k = i+per, k+1 {
		j := i + per
		if j > len(r.terms) {
			j = len(r.terms)
		}
		info, err := vh.WriteShard(cfg.OutDir, vh.Shard{
			Name: fmt.Sprintf("C16_%d", k), Imports: "From Verif Require Import Base Parser CorrC16.",
			CaseType: "CorrC16.case", MismatchF: "CorrC16.mismatches", Terms: r.terms[i:j], Cases: r.cases[i:j],
		})
		if err != nil {
			return nil, err
		}
		res.Shards = append(res.Shards, info)
	}
	for i := 0; i < len(r.cases) && len(res.Samples) < 8; i += 1 + len(r.cases)/8 {
		res.Samples = append(res.Samples, r.cases[i])
	}
	return res, nil
}

func (r *runner) generate(g *gen) {
	cfg := r.cfg
	// ---- the tables ----
	for _, v := range allVars {
		r.addVarName(v.Name)
		r.addVarName(strings.ToLower(v.Name))
	}
	for _, n := range []string{"", "ARG", "ARGSS", "args_get", "Tx", "tX", "FOO", "ARGS ", "REQUEST-HEADERS", "UNKNOWN", "INVALID_VARIABLE"} {
		r.addVarName(n)
	}
	for _, n := range actionNames {
		r.addActName(n)
		r.addActName(strings.ToUpper(n))
	}
	for _, n := range []string{"", "skipAfter", "multiMatch", "Deny", "sanitiseArg", "xmlns", "accuracy", "append", "foo", "id ", "t:"} {
		r.addActName(n)
	}

	// ---- cutQuotedString: exhaustive over its metacharacters ----
	for _, s := range enumerate("\"\\a ", cfg.Pick(4, 7)) {
		r.addCut(s)
	}

	// ---- ParseOperator ----
	for _, s := range []string{"", "!", "!@", "@", "@rx", "@rx a", "!@rx  a b ", "foo", "!foo", " foo", "! foo", "@contains\tx", "@ rx", "@rx\ta",
		"!@contains x", "@Rx a", "@RX", "@pm a b c", "@streq  ", "@within", "!!@rx a", "@@rx a", "!@ rx", "@streq \xc2\xa0x\xc2\xa0", "@streq \xa0x", "@nope x",
		"@beginsWith \t x \t", "@endsWith\n x", "a b", "!a b", "@detectSQLi", "@unconditionalMatch", "!@unconditionalMatch x"} {
		r.addOp(s)
	}
	for i := 0; i < cfg.Pick(150, 3000); i++ {
		name := g.pick(append(append([]string{"rx", "nope", "Contains"}, freeArgOps...), noArgOps...))
		s := g.pick([]string{"@", "!@", "", "!", "@ ", " @"}) + name + g.pick([]string{"", " ", "  ", "\t", " \t "}) + g.bytesFrom("ab \t\"\\@!", g.r.Intn(6), true)
		r.addOp(s)
	}

	// ---- parseActions: fragments around the scanner's metacharacters ----
	actFixed := []string{"", ",", ":", "'", "\\", "id:1", "id:1,", ",id:1", "id:1,,log", "msg:'abc,tag:x", "msg:'a\\',tag:x", "tag:a\\,log", "tag:a\\\\,log",
		"msg:'a',tag:'b'", "msg:'a:b,c',log", "MSG:'x'", " id : 1 , log ", "deny,log,pass", "deny,pass,drop,log", "tag:\"x\"", "tag:''", "tag:'", "'id:1", ":1", "id::1",
		"msg:'it\\'s',log", "msg:it's,log", "log,foo", "foo", "log,", "tag:x\\", "tag:'x\\',log", "t:none,t:lowercase", "setvar:tx.a=1,setvar:'tx.b=a,b'", "tag:\xc2\xa0x\xc2\xa0",
		"tag:\xa0x", "redirect:http://a/b?c=d,log", "ctl:ruleRemoveTargetById=1;ARGS:a,log", "block,deny", "allow:phase,deny", "a'b:c,id:1"}
	for _, s := range actFixed {
		r.addActions(s)
	}
	for i := 0; i < cfg.Pick(500, 6000); i++ {
		n := 1 + g.r.Intn(4)
		var parts []string
		for j := 0; j < n; j++ {
			name := g.pick(actionNames)
			if g.r.Intn(12) == 0 {
				name = g.pick([]string{"foo", "", "i d", "ta'g"})
			}
			name = g.pick([]string{"", "", " ", "\t"}) + varyCase(g.mask(len(name)), name) + g.pick([]string{"", "", " "})
			switch g.r.Intn(4) {
			case 0:
				parts = append(parts, name)
			case 1:
				parts = append(parts, name+":"+g.bytesFrom("ab',:\\ \"", g.r.Intn(7), false))
			case 2:
				parts = append(parts, name+":'"+g.bytesFrom("ab',:\\ \"", g.r.Intn(7), false)+"'")
			default:
				parts = append(parts, name+":"+g.pick([]string{"", " ", "'"})+g.value()+g.pick([]string{"", "'", " "}))
			}
		}
		r.addActions(strings.Join(parts, g.pick([]string{",", ",", ", ", " ,"})))
	}
	for _, s := range enumerate("t:',\\ ", cfg.Pick(3, 5)) {
		r.addActions("tag:" + s)
	}

	// ---- parseActionOperator ----
	splitFixed := []string{"", " ", "ARGS", "ARGS ", "ARGS \"", "ARGS \"\"", "ARGS \"a\"", "ARGS \"a\" ", "ARGS \"a\" \"", "ARGS \"a\" \"\"", "ARGS \"a\" \"id:1\"",
		"  ARGS   \"@rx a\"   \"id:1\"  ", "ARGS \"a\\\"b\" \"id:1\"", "ARGS \"a\\\\\" \"id:1\"", "ARGS \"a\\\\\\\" \"id:1\"", "ARGS \"a\"\"id:1\"", "ARGS \"a\" id:1",
		"ARGS \"a\" \"id:1\" x", "ARGS \"a\" \"id:1,msg:'a\"b'\"", "ARGS a \"id:1\"", "ARGS 'a' \"id:1\"", "ARGS\t\"a\" \"id:1\"", "ARGS \"a\"\t\"id:1\"", "\"a\" \"b\"",
		"ARGS \"'a'\" \"id:1\"", "ARGS \"\\\"\" \"x\"", "ARGS \"a\\\" \"id:1\""}
	for _, s := range splitFixed {
		r.addSplit(s)
	}
	for i := 0; i < cfg.Pick(350, 5000); i++ {
		var sb strings.Builder
		sb.WriteString(g.pick([]string{"", " ", "  "}))
		sb.WriteString(g.pick([]string{"ARGS", "ARGS|TX:a", "A\"B", "", "X"}))
		sb.WriteString(g.pick([]string{" ", "  ", "", "\t"}))
		sb.WriteString(g.pick([]string{"\"", "\"", "", "'"}) + g.bytesFrom("ab\"\\ '", g.r.Intn(8), false) + g.pick([]string{"\"", "\"", "", "\\\""}))
		sb.WriteString(g.pick([]string{" ", "  ", "", "\t"}))
		sb.WriteString(g.pick([]string{"\"", "\"", ""}) + g.bytesFrom("ab\"\\ ',:", g.r.Intn(8), false) + g.pick([]string{"\"", "\"", "", "\" "}))
		r.addSplit(sb.String())
	}

	// ---- ParseVariables ----
	varsFixed := []string{"", "ARGS", "args", "ARGS|TX", "ARGS|", "|ARGS", "ARGS||TX", "!ARGS", "&ARGS", "!&ARGS:a", "&!ARGS:a", "ARGS:a", "ARGS:", "ARGS:a|TX:b",
		"ARGS:/a/", "ARGS:/a/|TX", "ARGS:/a|b/", "ARGS:/a\\/b/", "ARGS:/a\\\\/", "ARGS:/a\\\\/b/", "ARGS:/a", "ARGS:/", "ARGS://", "ARGS:///", "ARGS:a/b", "ARGS:a/", "ARGS:'a'",
		"ARGS:'a'|TX", "ARGS:'/a/'", "ARGS:'/a/'|TX", "ARGS:'/a/", "ARGS:'/a/x", "ARGS:'a/b'", "ARGS:'", "ARGS:''", "XML:/*", "XML://a/b", "XML:/a/", "JSON:a.b", "xml:/*", "XML:/*|ARGS",
		"XML:'a'", "REQUEST_URI:a", "REQUEST_URI:/a/", "REQUEST_URI", "FOO", "FOO:a", "ARGS:a:b", "ARGS:a!b&c", "ARGS:a|!ARGS:a|!ARGS:/b/|ARGS_GET|!ARGS_GET:c",
		"REQUEST_HEADERS:Foo|!REQUEST_HEADERS:BAR|!REQUEST_HEADERS:/^X-Y/", "TX:/A\\/B/|TX:c", "ARGS:/a\\/|ARGS:/b/", "ARGS:/a\\", "A", "ARGS:/a/b", "ARGS:/a/'", "ARGS:x'",
		"ARGS:\xffK", "ARGS :a", "ARGS: a"}
	for _, s := range varsFixed {
		r.addVars(s)
	}
	for i := 0; i < cfg.Pick(450, 6000); i++ {
		n := 1 + g.r.Intn(3)
		var parts []string
		for j := 0; j < n; j++ {
			name := g.pick([]string{"ARGS", "TX", "XML", "REQUEST_URI", "REQUEST_HEADERS", "ARGS_NAMES", "FOO", "json", "args"})
			pre := g.pick([]string{"", "", "!", "&", "!&"})
			parts = append(parts, pre+name+g.pick([]string{"", ":", ":"})+g.bytesFrom("ab/\\'|:!&X", g.r.Intn(6), false))
		}
		r.addVars(strings.Join(parts, "|"))
	}
	for _, s := range enumerate("a/\\'|", cfg.Pick(4, 6)) {
		r.addVars("ARGS:" + s)
	}

	// ---- structured descriptions, variations, near misses ----
	ndesc := cfg.Pick(36, 400)
	for i := 0; i < ndesc; i++ {
		d := g.desc(1000 + i)
		line0, o0 := r.addDesc(d, nil, RVar{}, "")
		if o0.Class != "ok" {
			// the generator aims at Init-valid values; anything else is only counted
			r.res.InputDistribution["desc_not_compiled"]++
			continue
		}
		base := dumpsKey(o0.Dumps)
		nvar := 5
		for k := 0; k < nvar; k++ {
			mask := g.mask(7)
			v := g.rvar(d)
			line, o := r.addDesc(d, mask, v, "")
			r.oracle++
			cj := caseJSON{Kind: "desc", Desc: &d, Mask: mask, RVar: &v, Readable: readable(line)}
			if o.Class != "ok" || dumpsKey(o.Dumps) != base {
				r.fail("c16-variation-differs", "a rendering variation of one description compiled to something else than the plain rendering: "+o.Class+" "+o.Err, cj)
			}
			text := g.layout(line)
			ot := r.addText(nil, text, "layout", "")
			r.oracle++
			if ot.Class != "ok" || dumpsKey(ot.Dumps) != base {
				r.fail("c16-layout-differs", "a physical layout (indentation / comments / continuation / CRLF) of one description compiled to something else: "+ot.Class+" "+ot.Err,
					caseJSON{Kind: "text", Text: hx(text), Readable: readable(text)})
			}
		}
		// near misses of the plain rendering (thorough: also of a varied one)
		nm := nearMisses(line0)
		if !cfg.Thorough() && len(nm) > 50 {
			g.r.Shuffle(len(nm), func(a, b int) { nm[a], nm[b] = nm[b], nm[a] })
			nm = nm[:50]
		}
		for _, t := range nm {
			r.addText(nil, t, "nearmiss", "")
		}
	}

	// ---- several rules, Include splitting ----
	for i := 0; i < cfg.Pick(30, 500); i++ {
		n := 2 + g.r.Intn(3)
		var lines []string
		for j := 0; j < n; j++ {
			d := g.desc(5000 + 10*i + j)
			lines = append(lines, renderLine(g.mask(7), g.rvar(d), d))
		}
		flat := strings.Join(lines, "\n") + "\n"
		o0 := r.addText(nil, flat, "multi", "")
		if o0.Class != "ok" {
			continue
		}
		base := dumpsKey(o0.Dumps)
		files := map[string]string{}
		var main strings.Builder
		for j, l := range lines {
			switch g.r.Intn(3) {
			case 0:
				main.WriteString(g.layout(l))
				if !strings.HasSuffix(main.String(), "\n") {
					main.WriteString("\n")
				}
			case 1:
				name := fmt.Sprintf("f%d.conf", j)
				files[name] = g.layout(l)
				main.WriteString(g.pick([]string{"Include ", "include ", "INCLUDE ", "  Include "}) + g.pick([]string{name, "\"" + name + "\"", " " + name + "  "}) + "\n")
			default:
				inner := fmt.Sprintf("g%d.conf", j)
				outer := fmt.Sprintf("h%d.conf", j)
				files[inner] = l + "\n"
				files[outer] = "# nested\nInclude " + inner + "\n"
				main.WriteString("Include " + outer + "\n")
			}
		}
		ot := r.addText(files, main.String(), "include", "")
		r.oracle++
		if ot.Class != "ok" || dumpsKey(ot.Dumps) != base {
			fh := map[string]string{}
			for n, c := range files {
				fh[n] = hx(c)
			}
			r.fail("c16-include-differs", "splitting a configuration across included files changed the compiled rules: "+ot.Class+" "+ot.Err,
				caseJSON{Kind: "text", Files: fh, Text: hx(main.String()), Readable: readable(main.String())})
		}
	}

	// ---- one regex key text on both collection families (ARGS family: kept as written; every other
	// collection: literal text lower-cased, escapes kept), in both orders, in one rule, across rules,
	// across Include files and across configurations of this process (the regex cache is process-wide);
	// every key text is fresh (unique number) so that the first use in the process is the one tested ----
	r.rxFold(g)
	r.dirTrees(g)
	r.updateTargets(g)

	// ---- line-assembly corner cases ----
	rule := func(id int) string { return fmt.Sprintf("SecRule ARGS \"@rx a\" \"id:%d,deny\"", id) }
	lineFixed := []string{
		"", "\n", "#\n", "# only a comment", rule(1), rule(1) + "\n", rule(1) + "\r\n", rule(1) + "\n" + rule(2), rule(1) + "\n" + rule(1),
		rule(1) + " \\", rule(1) + " \\\n", "SecRule ARGS \\\n\"@rx a\" \\\n\"id:1\"", "SecRule ARGS \\\n\n# c\n\"@rx a\" \"id:1\"", "SecRule ARGS \"@rx a\\\n b\" \"id:1\"",
		"SecRule ARGS \"@rx a\" \"id:1,\\\n   deny\"", "\\\n" + rule(1), "  \\\n" + rule(1), "#\\\n" + rule(1), rule(1) + "\n`\n", "`\n" + rule(1) + "\n`\n", rule(1) + " `\nx\n`\n",
		"SecAction \"id:1,pass\"", "secaction id:1,pass", "SecAction \"id:1,pass\" ", "SecAction \"\"id:1,pass\"\"", "SecAction", "SecAction ", "SecRule", "SecRule ", "SecRule  ",
		"SecRule ARGS", "SecRuleARGS \"a\" \"id:1\"", "secrule ARGS \"a\" \"id:1\"", "SECRULE ARGS \"a\" \"id:1\"", "SecRule  ARGS  \"a\"  \"id:1\"", "SecRule\tARGS \"a\" \"id:1\"",
		"SecRule ARGS \"a\"", "SecRule ARGS \"a\" \"\"", "SecRule ARGS \"a\" \"log\"", "SecRule ARGS \"a\" \"id:0\"", "SecRule ARGS \"a\" \"id:1,id:2\"", "Include nope.conf", "Include",
		"\xc2\xa0" + rule(1) + "\xc2\xa0", "\xe2\x80\x83" + rule(1) + "\xe3\x80\x80\n", "\xa0" + rule(1), rule(1) + "\n\xc2\xa0# c\n" + rule(2), "SecRule ARGS \"a\" \"id:1\"\\",
		"SecRule ARGS \"@rx a\" \"id:1,tag:'x' \\", "x\\\n", "SecRule ARGS \"a\" \"id:1\" # c", "SecRule ARGS \"a\" \"id:1\"\r", "SecRule ARGS \"a\" \"id:1\"\r\r\n",
	}
	for _, t := range lineFixed {
		r.addText(nil, t, "line", "")
	}
	r.addText(map[string]string{"a.conf": rule(1) + "\n", "b.conf": "Include a.conf\n" + rule(2) + " \\\n"}, "Include b.conf\n"+rule(3), "line", "")
	r.addText(map[string]string{"a.conf": "Include a.conf\n"}, "Include a.conf\n", "line", "")
	// the scanner's 64 KiB line limit (F54): below / at / above the limit, in a comment and in an argument
	r.addLongLine(rule(1)+"\n# ", 'c', 65000, "\n"+rule(2)+"\n")
	r.addLongLine(rule(1)+"\n# ", 'c', 70000, "\n"+rule(2)+"\n")
	r.addLongLine(rule(1)+"\nSecRule ARGS \"@rx ", 'a', 66000, "\" \"id:2,deny\"\n"+rule(3)+"\n")
	r.addLongLine("", ' ', 65536, rule(1)+"\n")
	r.addLongLine(rule(1)+"\n# ", 'c', 65533, "\n"+rule(2)+"\n") // 65535 bytes: fits
	r.addLongLine(rule(1)+"\n# ", 'c', 65534, "\n"+rule(2)+"\n") // 65536 bytes: too long
	r.addLongLine(rule(1)+"\n# ", 'c', 65534, "")                   // last line without line feed
	r.addText(map[string]string{"a.conf": rule(1) + " \\"}, "Include a.conf\n\"x\"\n", "line", "")
}

var rxFoldSeq int

// checkFold: implementation-side oracle for keys without escapes
func (r *runner) checkFold(o observation, key string, cj caseJSON) {
	if o.Class != "ok" || strings.Contains(key, "\\") {
		return
	}
	r.oracle++
	want := func(name string) string {
		if caseSensitiveVar(name) {
			return key
		}
		return strings.ToLower(key)
	}
	for _, d := range o.Dumps {
		for _, v := range d.Variables {
			if v.HasRx && v.Rx != want(v.Name) {
				r.fail("c16-regex-key-fold", fmt.Sprintf("rule %d: %s:/%s/ compiled to the regex %q, expected %q (case folding must depend on the collection only, not on which rule used the key text first)", d.ID, v.Name, key, v.Rx, want(v.Name)), cj)
				return
			}
			for _, e := range v.Exceptions {
				if e.HasRx && e.Rx != want(v.Name) {
					r.fail("c16-regex-key-fold", fmt.Sprintf("rule %d: !%s:/%s/ compiled to the regex %q, expected %q", d.ID, v.Name, key, e.Rx, want(v.Name)), cj)
					return
				}
			}
		}
	}
}

func (r *runner) rxFold(g *gen) {
	cs := []string{"ARGS", "ARGS_GET", "ARGS_NAMES", "ARGS_POST", "ARGS_GET_NAMES"}
	ci := []string{"REQUEST_HEADERS", "REQUEST_COOKIES", "TX", "FILES", "RESPONSE_HEADERS", "GEO"}
	templates := []string{"^X-Foo%d", "Ab%dC|De", "%dUPPER", "^X-\\D+Y%d", "\\p{Lu}A%d", "\\PLb%dQ", "\\x{41}Z%d", "A\\\\B%d", "\\QAb%d\\E", "^Cookie\\/V%d$", "\\SK%d\\W"}
	fresh := func() string {
		rxFoldSeq++
		return fmt.Sprintf(templates[g.r.Intn(len(templates))], rxFoldSeq)
	}
	run := func(files map[string]string, text, key string) {
		o := r.addText(files, text, "rxfold", "")
		fh := map[string]string{}
		for n, c := range files {
			fh[n] = hx(c)
		}
		r.checkFold(o, key, caseJSON{Kind: "text", Files: fh, Text: hx(text), Readable: readable(text)})
	}
	rule := func(id int, targets string) string {
		return fmt.Sprintf("SecRule %s \"@rx a\" \"id:%d,pass\"", targets, id)
	}
	n := r.cfg.Pick(24, 400)
	for i := 0; i < n; i++ {
		a, b := g.pick(cs), g.pick(ci)
		// two rules, ARGS family first / other collection first (fresh key text each time)
		k := fresh()
		run(nil, rule(1, a+":/"+k+"/")+"\n"+rule(2, b+":/"+k+"/|"+b+"|!"+b+":/"+k+"/")+"\n", k)
		k = fresh()
		run(nil, rule(1, b+":/"+k+"/|"+b+"|!"+b+":/"+k+"/")+"\n"+rule(2, a+":/"+k+"/|"+a+"|!"+a+":/"+k+"/")+"\n", k)
		// one rule, both orders
		k = fresh()
		run(nil, rule(1, a+":/"+k+"/|"+b+":/"+k+"/|"+a+"|"+b+"|!"+a+":/"+k+"/|!"+b+":/"+k+"/")+"\n", k)
		k = fresh()
		run(nil, rule(1, b+"|"+a+"|!"+b+":/"+k+"/|!"+a+":/"+k+"/|"+b+":'/"+k+"/'|"+a+":'/"+k+"/'")+"\n", k)
		// split across Include files, both orders
		k = fresh()
		run(map[string]string{"a.conf": rule(1, a+":/"+k+"/") + "\n"}, "Include a.conf\n"+rule(2, b+":/"+k+"/")+"\n", k)
		k = fresh()
		run(map[string]string{"b.conf": rule(1, b+":/"+k+"/") + "\n"}, "Include b.conf\n"+rule(2, "!"+a+":/"+k+"/|"+a)+"\n"+rule(3, a+":/"+k+"/")+"\n", k)
		// two configurations (two WAFs) of this process, both orders
		k = fresh()
		run(nil, rule(1, a+":/"+k+"/")+"\n", k)
		run(nil, rule(1, b+":/"+k+"/")+"\n", k)
		k = fresh()
		run(nil, rule(1, b+":/"+k+"/")+"\n", k)
		run(nil, rule(1, a+":/"+k+"/")+"\n", k)
	}
}

// ---------------------------------------------------------------------------------------
// include trees over several directories with same-named data files (ParserConfig.ConfigDir)
// ---------------------------------------------------------------------------------------

func pathJoin(dir, p string) string {
	if dir == "" || dir == "." {
		return p
	}
	return dir + "/" + p
}

type treeGen struct {
	g      *gen
	files  map[string]string
	nextID int
	nfile  int
	flat   []string // the rules in order, data files named by their full path
}

var treeDirs = []string{"", "d1", "d2", "d1/sub", "etc/rules", "etc/rules/crs"}

func (t *treeGen) rule(dir string) string {
	t.nextID++
	id := t.nextID
	g := t.g
	targets := g.pick([]string{"ARGS", "REQUEST_HEADERS:x|ARGS_GET", "REQUEST_URI", "ARGS_NAMES|!ARGS_NAMES:a"})
	acts := fmt.Sprintf("id:%d,%s", id, g.pick([]string{"pass", "deny,status:403", "pass,t:lowercase", "phase:1,pass"}))
	mk := func(op string) string { return fmt.Sprintf("SecRule %s \"%s\" \"%s\"", targets, op, acts) }
	switch g.r.Intn(5) {
	case 0:
		t.flat = append(t.flat, mk("@rx a"))
		return mk("@rx a")
	case 1:
		neg := g.pick([]string{"", "!"})
		t.flat = append(t.flat, mk(neg+"@ipMatchFromFile "+pathJoin(dir, "ips.data")))
		return mk(neg + "@ipMatchFromFile ips.data")
	default:
		op := g.pick([]string{"@pmFromFile", "@pmf", "!@pmFromFile"})
		t.flat = append(t.flat, mk(op+" "+pathJoin(dir, "words.data")))
		return mk(op + " words.data")
	}
}

// body of a configuration file (or of the inline text) living in dir; depth bounds nesting
func (t *treeGen) body(dir string, depth int) string {
	g := t.g
	var sb strings.Builder
	n := 1 + g.r.Intn(3)
	for i := 0; i < n; i++ {
		if g.r.Intn(4) != 0 {
			sb.WriteString(t.rule(dir) + "\n")
		}
		if depth > 0 && g.r.Intn(3) != 0 {
			// a child in this directory or in a directory below it
			var cands []string
			for _, d := range treeDirs {
				if d == dir || dir == "" || strings.HasPrefix(d, dir+"/") {
					cands = append(cands, d)
				}
			}
			cd := g.pick(cands)
			t.nfile++
			name := fmt.Sprintf("f%d.conf", t.nfile)
			full := pathJoin(cd, name)
			content := t.body(cd, depth-1)
			t.files[full] = content
			rel := full
			if dir != "" {
				rel = strings.TrimPrefix(full, dir+"/")
			}
			sb.WriteString(g.pick([]string{"Include ", "include ", "Include \""}) + rel)
			if strings.HasSuffix(sb.String(), "Include \""+rel) {
				sb.WriteString("\"")
			}
			sb.WriteString("\n")
		}
		// a rule AFTER the Include of this level
		if g.r.Intn(3) != 0 {
			sb.WriteString(t.rule(dir) + "\n")
		}
	}
	return sb.String()
}

func (r *runner) dirTrees(g *gen) {
	n := r.cfg.Pick(40, 600)
	for i := 0; i < n; i++ {
		t := &treeGen{g: g, files: map[string]string{}, nextID: 7000 + 20*i}
		for k, d := range treeDirs {
			t.files[pathJoin(d, "words.data")] = fmt.Sprintf("w%03dq\n", 10*i%900+k)
			t.files[pathJoin(d, "ips.data")] = fmt.Sprintf("10.%d.%d.1\n", i%250, k)
		}
		var steps []Step
		shape := "dirs"
		switch g.r.Intn(4) {
		case 0: // everything below one FromString
			steps = []Step{{Text: hx(t.body("", 2))}}
		case 1: // FromFile of a file in a directory, then FromString on the same parser
			d := g.pick(treeDirs[1:])
			t.files[pathJoin(d, "main.conf")] = t.body(d, 2)
			steps = []Step{{File: pathJoin(d, "main.conf")}, {Text: hx(t.body("", 1))}}
			shape = "dirs_file_string"
		case 2: // FromString, FromFile, FromString
			first := t.body("", 1)
			d := g.pick(treeDirs)
			t.files[pathJoin(d, "main.conf")] = t.body(d, 1)
			steps = []Step{{Text: hx(first)}, {File: pathJoin(d, "main.conf")}, {Text: hx(t.body("", 0))}}
			shape = "dirs_string_file_string"
		default: // two files of different directories
			d1, d2 := g.pick(treeDirs), g.pick(treeDirs)
			t.files[pathJoin(d1, "main.conf")] = t.body(d1, 1)
			t.files[pathJoin(d2, "other.conf")] = t.body(d2, 1)
			steps = []Step{{File: pathJoin(d1, "main.conf")}, {File: pathJoin(d2, "other.conf")}}
			shape = "dirs_two_files"
		}
		if len(t.flat) == 0 {
			continue
		}
		o := r.addSession(t.files, steps, shape)
		// the flat configuration: the same rules in one text, data files named by their full path
		flat := strings.Join(t.flat, "\n") + "\n"
		of := r.addText(t.files, flat, "dirs_flat", "")
		r.oracle++
		if o.Class != "ok" || of.Class != "ok" || obsKey(o) != obsKey(of) {
			fh := map[string]string{}
			for n, c := range t.files {
				fh[n] = hx(c)
			}
			r.fail("c16-include-tree-differs", "a configuration split across files of several directories compiled to other rules / loaded other data files than the flat configuration: "+o.Class+" "+o.Err+" / "+of.Class+" "+of.Err,
				caseJSON{Kind: "session", Files: fh, Steps: steps, Shape: shape})
		}
	}
}

// ---------------------------------------------------------------------------------------
// SecRuleUpdateTargetById: id list / id range / one directive per id
// ---------------------------------------------------------------------------------------

func (r *runner) updateTargets(g *gen) {
	n := r.cfg.Pick(40, 600)
	posT := []string{"ARGS_GET", "ARGS_POST:foo", "REQUEST_COOKIES:Sess", "&REQUEST_COOKIES", "&ARGS:n", "TX:/^K-[0-9]+/", "ARGS_NAMES:/^Up/", "XML:/*", "REQUEST_BODY", "FILES_NAMES:'/a|b/'"}
	negT := []string{"!ARGS:bar", "!REQUEST_HEADERS:/^X-Y/", "!ARGS:/^Bz/", "!REQUEST_HEADERS:User-Agent", "!ARGS_GET:q"}
	for i := 0; i < n; i++ {
		// the rules
		var ids []int
		for id := 10; id < 20; id++ {
			if g.r.Intn(2) == 0 {
				ids = append(ids, id)
			}
		}
		if len(ids) < 2 {
			ids = []int{11, 12, 14}
		}
		var base strings.Builder
		for _, id := range ids {
			base.WriteString(fmt.Sprintf("SecRule %s \"@rx a\" \"id:%d,pass\"\n", g.pick([]string{"ARGS", "ARGS|REQUEST_HEADERS", "REQUEST_HEADERS:Host|ARGS_GET|!ARGS_GET:z", "REQUEST_URI"}), id))
		}
		// the target list: positive targets and exclusions
		var ts []string
		for k := 1 + g.r.Intn(4); k > 0; k-- {
			if g.r.Intn(3) == 0 {
				ts = append(ts, g.pick(negT))
			} else {
				ts = append(ts, g.pick(posT))
			}
		}
		tl := strings.Join(ts, "|")
		if g.r.Intn(2) == 0 {
			tl = "\"" + tl + "\""
		}
		kw := g.pick([]string{"SecRuleUpdateTargetById", "secruleupdatetargetbyid", "SecRuleUpdateTargetByID"})
		// a contiguous run of the existing ids
		a := g.r.Intn(len(ids) - 1)
		b := a + 1 + g.r.Intn(len(ids)-a-1)
		sel := ids[a : b+1]
		lo, hi := sel[0], sel[len(sel)-1]
		if a == 0 && g.r.Intn(2) == 0 {
			lo = 5 // a bound that is not an id itself
		}
		if b == len(ids)-1 && g.r.Intn(2) == 0 {
			hi = 25
		}
		var list []string
		var per strings.Builder
		for _, id := range sel {
			list = append(list, fmt.Sprint(id))
			per.WriteString(fmt.Sprintf("%s %d %s\n", kw, id, tl))
		}
		spell := []string{
			fmt.Sprintf("%s %s %s\n", kw, strings.Join(list, " "), tl),
			fmt.Sprintf("%s %d-%d %s\n", kw, lo, hi, tl),
			per.String(),
			fmt.Sprintf("%s %d-%d %s %s\n", kw, lo, sel[len(sel)-2], list[len(list)-1], tl),
			fmt.Sprintf("%s %s\t%d-%d  %s\n", kw, list[0], sel[1], hi, tl),
		}
		if len(sel) == 2 && sel[0] == lo {
			// the range "x-x" is the single-id form
			spell[3] = fmt.Sprintf("%s %d-%d %d-%d %s\n", kw, sel[0], sel[0], sel[1], sel[1], tl)
		}
		var first observation
		for k, sp := range spell {
			o := r.addText(nil, base.String()+sp, "update", "")
			if k == 0 {
				first = o
				continue
			}
			r.oracle++
			if obsKey(o) != obsKey(first) {
				r.fail("c16-update-target-spelling", "SecRuleUpdateTargetById written as id list / id range / one directive per id compiled to different target lists: "+o.Class+" "+o.Err,
					caseJSON{Kind: "text", Text: hx(base.String() + sp), Readable: readable(base.String() + sp)})
			}
		}
		// one deviating spelling per round, compared with the model only
		odd := []string{
			fmt.Sprintf("%s 99 %s\n", kw, tl), fmt.Sprintf("%s 99 %d %s\n", kw, ids[0], tl), fmt.Sprintf("%s %d-%d %s\n", kw, hi, lo, tl),
			fmt.Sprintf("%s -%d %s\n", kw, lo, tl), fmt.Sprintf("%s x%d %s\n", kw, lo, tl), fmt.Sprintf("%s %d- %s\n", kw, lo, tl),
			fmt.Sprintf("%s %d\n", kw, lo), fmt.Sprintf("%s 30-40 NOSUCHVAR\n", kw), fmt.Sprintf("%s %d-%d NOSUCHVAR\n", kw, lo, hi),
			fmt.Sprintf("%s 99-99 %s\n", kw, tl), fmt.Sprintf("%s +%d %s\n", kw, ids[0], tl), fmt.Sprintf("%s %d-+%d %s\n", kw, lo, hi, tl),
			fmt.Sprintf("%s %d--3 %s\n", kw, lo, tl), fmt.Sprintf("%s 0-9 %s\n", kw, tl), fmt.Sprintf("%s %d %s|REQUEST_URI:x\n", kw, ids[0], tl),
			fmt.Sprintf("SecRule ARGS \"@rx a\"\n%s 0 %s\n", kw, tl), fmt.Sprintf("%s %d %s extra\n", kw, ids[0], tl),
		}
		r.addText(nil, base.String()+odd[i%len(odd)], "update_odd", "")
		// the update inside an included file, the rules before it
		r.addText(map[string]string{"u.conf": spell[1]}, base.String()+"Include u.conf\n", "update_include", "")
	}
}
