(* CorrC05.v — correspondence for C05: the harness reports, for every key of a recycled
   Transaction object (fields of Transaction and "variables.<field>"), whether the predecessor
   had dirtied it and whether it was observed equal to the same key of a brand-new object.
   The Pool.v model (instantiated with the regenerated source facts) predicts equality for
   every key it calls observable; the runtime key list must be the extracted key list. *)
From Coq Require Import String List Bool.
From Verif Require Import Base Pool.
Import ListNotations.

(* per case: for every key (in the fixed order of the shard's key list) whether the predecessor
   dirtied it and whether it was observed equal to the fresh object *)
Record case := mk_case { c_flags : list (bool * bool); c_probe_equal : bool }.

Definition all_keys (src : source_facts) : list string :=
  sf_tx_fields src ++ map (fun ft => vkey (fst ft)) (sf_var_types src).

Definition ok (src : source_facts) (keys : list string) (c : case) : bool :=
  Nat.eqb (length keys) (length (c_flags c))
  (* every key the model calls observable was observed equal to the fresh object *)
  && forallb (fun kf => implb (observable src (fst kf)) (snd (snd kf))) (combine keys (c_flags c))
  (* the runtime (reflect) key set is the extracted (go/ast) key set *)
  && forallb (fun k => mem k (all_keys src)) keys
  && forallb (fun k => mem k keys) (all_keys src)
  && c_probe_equal c.

Definition mismatches (src : source_facts) (keys : list string) (l : list case) : list nat :=
  mismatches_of (ok src keys) l.
