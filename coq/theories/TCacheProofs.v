(* TCacheProofs.v — proofs about TCache.v (property C12). *)
From Coq Require Import String.
From Verif Require Import Base Transform TCache.
From Coq Require Import Arith Lia.
Local Open Scope nat_scope.

(* ------------------------------------------------------------------------------------- *)
(* list helpers                                                                            *)
(* ------------------------------------------------------------------------------------- *)
Lemma tcp_firstn_S {A} (d : A) : forall (l : list A) k, k < length l ->
  firstn (S k) l = firstn k l ++ [nth k l d].
Proof.
  induction l as [|x l IH]; intros k Hk; cbn [length] in Hk; [lia|].
  destruct k as [|k]; [reflexivity|].
  cbn [firstn nth app]. f_equal. rewrite <- IH by lia. reflexivity.
Qed.

Lemma tcp_skipn_cons {A} (d : A) : forall (l : list A) k, k < length l ->
  skipn k l = nth k l d :: skipn (S k) l.
Proof.
  induction l as [|x l IH]; intros k Hk; cbn [length] in Hk; [lia|].
  destruct k as [|k]; [reflexivity|].
  cbn [skipn nth]. rewrite (IH k) by lia. reflexivity.
Qed.

Lemma tcp_skipn_nil_len {A} : forall (l : list A) k, skipn k l = [] -> length l <= k.
Proof.
  induction l as [|x l IH]; intros k H; cbn [length]; [lia|].
  destruct k as [|k]; [discriminate|]. cbn [skipn] in H. apply IH in H. lia.
Qed.

(* ------------------------------------------------------------------------------------- *)
(* heap / slices                                                                           *)
(* ------------------------------------------------------------------------------------- *)
Section Heap.
Variable T : Type.

Lemma tcp_set_arr_length : forall (h : tc_heap T) a arr, length (tc_set_arr T h a arr) = length h.
Proof. induction h as [|y h IH]; intros [|a] arr; cbn [tc_set_arr length]; auto. Qed.

Lemma tcp_set_arr_same : forall (h : tc_heap T) a arr, a < length h -> nth a (tc_set_arr T h a arr) [] = arr.
Proof.
  induction h as [|y h IH]; intros [|a] arr Ha; cbn [length] in Ha; try lia; cbn [tc_set_arr nth]; auto.
  apply IH; lia.
Qed.

Lemma tcp_set_arr_other : forall (h : tc_heap T) a a' arr, a' <> a -> nth a' (tc_set_arr T h a arr) [] = nth a' h [].
Proof.
  induction h as [|y h IH]; intros [|a] [|a'] arr Hne; cbn [tc_set_arr nth]; auto; try congruence.
Qed.

Lemma tcp_set_nth_firstn_le : forall (l : list T) n m x, m <= n -> m <= length l ->
  firstn m (tc_set_nth l n x) = firstn m l.
Proof.
  induction l as [|y l IH]; intros n m x Hmn Hml; cbn [length] in Hml.
  - assert (m = 0) by lia. subst. reflexivity.
  - destruct n as [|n]; [assert (m = 0) by lia; subst; reflexivity|].
    destruct m as [|m]; [reflexivity|]. cbn [tc_set_nth firstn]. f_equal. apply IH; lia.
Qed.

Lemma tcp_set_nth_firstn_S : forall (l : list T) n x, n <= length l ->
  firstn (S n) (tc_set_nth l n x) = firstn n l ++ [x].
Proof.
  induction l as [|y l IH]; intros n x Hn; cbn [length] in Hn.
  - assert (n = 0) by lia. subst. reflexivity.
  - destruct n as [|n]; [reflexivity|]. cbn [tc_set_nth]. change (firstn (S (S n)) (y :: tc_set_nth l n x)) with (y :: firstn (S n) (tc_set_nth l n x)).
    rewrite IH by lia. reflexivity.
Qed.

Lemma tcp_read_length_arr (h : tc_heap T) s : length (tc_read h s) = s_len s -> s_len s <= length (nth (s_arr s) h []).
Proof. unfold tc_read. rewrite firstn_length. lia. Qed.

Lemma tcp_read_pos_valid (h : tc_heap T) s : length (tc_read h s) = s_len s -> 0 < s_len s -> s_arr s < length h.
Proof.
  unfold tc_read. intros H Hp. destruct (Nat.lt_ge_cases (s_arr s) (length h)) as [|Hge]; auto.
  rewrite (nth_overflow h [] Hge) in H. rewrite firstn_nil in H. cbn in H. lia.
Qed.
End Heap.

(* ------------------------------------------------------------------------------------- *)
(* the cache                                                                               *)
(* ------------------------------------------------------------------------------------- *)
Lemma tcp_key_eqb_eq a b : tc_key_eqb a b = true -> a = b.
Proof.
  unfold tc_key_eqb. intro H. repeat (apply andb_true_iff in H; destruct H as [H ?]).
  apply Nat.eqb_eq in H. repeat match goal with H : Nat.eqb _ _ = true |- _ => apply Nat.eqb_eq in H end.
  destruct a, b; cbn in *; congruence.
Qed.

Lemma tcp_find_some k c e : tc_find k c = Some e -> In e c /\ e_key e = k.
Proof.
  induction c as [|x c IH]; cbn [tc_find]; [discriminate|].
  destruct (tc_key_eqb (e_key x) k) eqn:E; intro H.
  - injection H as <-. split; [left; reflexivity | apply tcp_key_eqb_eq; exact E].
  - destruct (IH H) as [H1 H2]. split; [right; exact H1 | exact H2].
Qed.

Lemma tcp_put_in e' c e : In e (tc_put e' c) -> e = e' \/ In e c.
Proof.
  unfold tc_put. intros [H|H]; [left; congruence|]. right. apply filter_In in H. tauto.
Qed.

Section Sound.
Variable T : Type.
Variable tf : T -> bytes -> tres.
Variable sem : nat -> list T.

Notation exec := (tc_exec T tf).
Notation run := (tc_run T tf).

Lemma tcp_run_app a b acc : run (a ++ b) acc = run b (run a acc).
Proof. unfold tc_run. apply fold_left_app. Qed.

Lemma tcp_run_snoc a t acc : run (a ++ [t]) acc = tc_step T tf (run a acc) t.
Proof. rewrite tcp_run_app. reflexivity. Qed.

(* tc_search with the input check returns an entry for this argument's value and one of the
   rule's prefix ids *)
Lemma tcp_search_some : forall n pids a idx c i e,
  tc_search true n pids a idx c = Some (i, e) ->
  i < n /\ In e c /\ k_pid (e_key e) = nth i pids 0 /\ e_in e = a_val a.
Proof.
  induction n as [|n IH]; intros pids a idx c i e H; cbn [tc_search] in H; [discriminate|].
  destruct (tc_find (tc_mkkey a idx (nth n pids 0)) c) as [e0|] eqn:F.
  - cbn [negb orb] in H. destruct (bytes_eqb (e_in e0) (a_val a)) eqn:B.
    + injection H as <- <-. apply tcp_find_some in F as [F1 F2]. apply bytes_eqb_eq in B.
      repeat split; auto. rewrite F2. reflexivity.
    + apply IH in H. intuition lia.
  - apply IH in H. intuition lia.
Qed.

(* ownership of the local errs slice during the fill loop: either the next append allocates,
   or the backing array is valid and no cache entry sees beyond the local length *)
Definition tc_frontier (h : tc_heap T) (c : tc_cache) (es : tc_slice) : Prop :=
  s_cap es <= s_len es \/
  (s_arr es < length h /\ forall e, In e c -> s_arr (e_errs e) = s_arr es -> s_len (e_errs e) <= s_len es).

Lemma tcp_entry_ok_heap_ext (h : tc_heap T) x e :
  tc_entry_ok T tf sem h e -> tc_entry_ok T tf sem (h ++ [x]) e.
Proof.
  intros (H1 & H2 & H3). split; [exact H1|]. split; [|exact H3].
  destruct (Nat.eq_dec (s_len (e_errs e)) 0) as [Z|NZ].
  - unfold tc_read in *. rewrite Z in *. cbn [firstn] in *. exact H2.
  - assert (s_arr (e_errs e) < length h).
    { apply tcp_read_pos_valid; [rewrite H2; symmetry; exact H3 | lia]. }
    unfold tc_read in *. rewrite app_nth1 by assumption. exact H2.
Qed.

Lemma tcp_fill_sound (r : tc_rule T) (a : tc_arg) (idx : nat) :
  tc_rule_wf T sem r ->
  forall rest i v es st,
  rest = skipn i (r_ts r) -> i <= length (r_ts r) ->
  tc_cache_inv T tf sem st ->
  v = fst (exec (firstn i (r_ts r)) (a_val a)) ->
  tc_read (st_heap st) es = snd (exec (firstn i (r_ts r)) (a_val a)) ->
  s_len es = length (snd (exec (firstn i (r_ts r)) (a_val a))) ->
  tc_frontier (st_heap st) (st_cache st) es ->
  forall v' es' st', tc_fill T tf i rest (r_pids r) a idx v es st = (v', es', st') ->
  v' = fst (exec (r_ts r) (a_val a)) /\
  tc_read (st_heap st') es' = snd (exec (r_ts r) (a_val a)) /\
  tc_cache_inv T tf sem st'.
Proof.
  intros [Hlen Hsem]. induction rest as [|t rest IH]; intros i v es st Hrest Hi Hinv Hv Hes Hl Hfr v' es' st' Hfill.
  - cbn [tc_fill] in Hfill. injection Hfill as <- <- <-.
    symmetry in Hrest. apply tcp_skipn_nil_len in Hrest. assert (i = length (r_ts r)) by lia. subst i.
    rewrite firstn_all in *. auto.
  - assert (Hi' : i < length (r_ts r)).
    { destruct (Nat.eq_dec i (length (r_ts r))) as [->|]; [|lia]. rewrite skipn_all in Hrest. discriminate. }
    pose proof (tcp_skipn_cons t (r_ts r) i Hi') as Hsk. rewrite <- Hrest in Hsk. injection Hsk as Ht Hrest'.
    pose proof (tcp_firstn_S t (r_ts r) i Hi') as Hfs. rewrite <- Ht in Hfs.
    (* the uncached run over one more transformation *)
    assert (Hex : exec (firstn (S i) (r_ts r)) (a_val a) =
                  tc_step T tf (exec (firstn i (r_ts r)) (a_val a)) t).
    { rewrite Hfs. unfold tc_exec. apply tcp_run_snoc. }
    set (P := exec (firstn i (r_ts r)) (a_val a)) in *.
    cbn [tc_fill] in Hfill.
    destruct (t_err (tf t v)) eqn:Eerr.
    + (* the transformation fails: errs = append(errs, err) *)
      destruct (tc_append (st_heap st) es t) as [h1 es1] eqn:Eapp.
      assert (Hstep : tc_step T tf P t = (fst P, snd P ++ [t])).
      { unfold tc_step. rewrite <- Hv, Eerr. reflexivity. }
      eapply (IH (S i) v es1 _ Hrest'); [lia| | | | | |exact Hfill]; cbn [st_cache st_heap].
      * (* invariant *)
        unfold tc_append in Eapp. destruct (Nat.ltb (s_len es) (s_cap es)) eqn:Elt.
        -- apply Nat.ltb_lt in Elt. injection Eapp as <- <-.
           destruct Hfr as [Hfr|[Hva Hfr]]; [lia|].
           assert (Hal : s_len es <= length (nth (s_arr es) (st_heap st) [])).
           { apply tcp_read_length_arr. rewrite Hes. symmetry. exact Hl. }
           unfold tc_cache_inv; cbn [st_cache st_heap]; intros e He. apply tcp_put_in in He as [->|He].
           ++ unfold tc_entry_ok. cbn [e_key e_in e_out e_errs tc_mkkey k_pid s_len s_arr].
              rewrite Hsem by exact Hi'. rewrite Hex, Hstep. cbn [fst snd].
              split; [exact Hv|]. split; [|rewrite app_length; cbn [length]; lia].
              unfold tc_read. cbn [s_arr s_len]. rewrite tcp_set_arr_same by exact Hva.
              rewrite tcp_set_nth_firstn_S by exact Hal. unfold tc_read in Hes. rewrite Hes. reflexivity.
           ++ destruct (Hinv e He) as (H1 & H2 & H3). split; [exact H1|]. split; [|exact H3].
              unfold tc_read in *. destruct (Nat.eq_dec (s_arr (e_errs e)) (s_arr es)) as [Ea|Ea].
              ** rewrite Ea. rewrite tcp_set_arr_same by exact Hva.
                 rewrite tcp_set_nth_firstn_le; [rewrite <- Ea; exact H2 | apply Hfr; auto |].
                 rewrite <- Ea. apply (tcp_read_length_arr T (st_heap st) (e_errs e)). unfold tc_read. rewrite H2. symmetry. exact H3.
              ** rewrite tcp_set_arr_other by exact Ea. exact H2.
        -- apply Nat.ltb_ge in Elt. injection Eapp as <- <-.
           unfold tc_cache_inv; cbn [st_cache st_heap]; intros e He. apply tcp_put_in in He as [->|He].
           ++ unfold tc_entry_ok. cbn [e_key e_in e_out e_errs tc_mkkey k_pid s_len s_arr].
              rewrite Hsem by exact Hi'. rewrite Hex, Hstep. cbn [fst snd].
              split; [exact Hv|]. split; [|rewrite app_length; cbn [length]; lia].
              unfold tc_read at 1. cbn [s_arr s_len]. rewrite nth_middle. rewrite Hes.
              rewrite firstn_all2; [reflexivity|]. rewrite app_length. cbn [length]. lia.
           ++ apply tcp_entry_ok_heap_ext. apply Hinv. exact He.
      * rewrite Hex, Hstep. exact Hv.
      * (* read of the new local slice *)
        rewrite Hex, Hstep. cbn [snd].
        unfold tc_append in Eapp. destruct (Nat.ltb (s_len es) (s_cap es)) eqn:Elt.
        -- apply Nat.ltb_lt in Elt. injection Eapp as <- <-.
           destruct Hfr as [Hfr|[Hva Hfr]]; [lia|].
           unfold tc_read. cbn [s_arr s_len]. rewrite tcp_set_arr_same by exact Hva.
           rewrite tcp_set_nth_firstn_S; [unfold tc_read in Hes; rewrite Hes; reflexivity|].
           apply tcp_read_length_arr. rewrite Hes. symmetry. exact Hl.
        -- injection Eapp as <- <-. unfold tc_read at 1. cbn [s_arr s_len]. rewrite nth_middle. rewrite Hes.
           rewrite firstn_all2; [reflexivity|]. rewrite app_length. cbn [length]. lia.
      * rewrite Hex, Hstep. cbn [snd]. rewrite app_length. cbn [length].
        unfold tc_append in Eapp. destruct (Nat.ltb (s_len es) (s_cap es)); injection Eapp as <- <-; cbn [s_len]; lia.
      * (* frontier *)
        unfold tc_append in Eapp. destruct (Nat.ltb (s_len es) (s_cap es)) eqn:Elt.
        -- apply Nat.ltb_lt in Elt. injection Eapp as <- <-.
           destruct Hfr as [Hfr|[Hva Hfr]]; [lia|]. right. cbn [s_arr s_len]. split; [rewrite tcp_set_arr_length; exact Hva|].
           intros e He Ea. apply tcp_put_in in He as [->|He]; [cbn [e_errs s_len]; lia|].
           specialize (Hfr e He Ea). lia.
        -- injection Eapp as <- <-. right. cbn [s_arr s_len]. split; [rewrite app_length; cbn [length]; lia|].
           intros e He Ea. apply tcp_put_in in He as [->|He]; [cbn [e_errs s_len]; lia|].
           destruct (Nat.eq_dec (s_len (e_errs e)) 0) as [Z|NZ]; [lia|]. exfalso.
           destruct (Hinv e He) as (H1 & H2 & H3).
           assert (s_arr (e_errs e) < length (st_heap st)).
           { apply tcp_read_pos_valid; [rewrite H2; symmetry; exact H3 | lia]. }
           lia.
    + (* the transformation succeeds: value = v, errs unchanged *)
      assert (Hstep : tc_step T tf P t = (t_out (tf t v), snd P)).
      { unfold tc_step. rewrite <- Hv, Eerr. reflexivity. }
      eapply (IH (S i) (t_out (tf t v)) es _ Hrest'); [lia| | | | | |exact Hfill]; cbn [st_cache st_heap].
      * unfold tc_cache_inv; cbn [st_cache st_heap]; intros e He. apply tcp_put_in in He as [->|He]; [|apply Hinv; exact He].
        unfold tc_entry_ok. cbn [e_key e_in e_out e_errs tc_mkkey k_pid].
        rewrite Hsem by exact Hi'. rewrite Hex, Hstep. cbn [fst snd]. auto.
      * rewrite Hex, Hstep. reflexivity.
      * rewrite Hex, Hstep. exact Hes.
      * rewrite Hex, Hstep. exact Hl.
      * destruct Hfr as [Hfr|[Hva Hfr]]; [left; exact Hfr|]. right. split; [exact Hva|].
        intros e He Ea. apply tcp_put_in in He as [->|He]; [cbn [e_errs]; lia|]. apply Hfr; auto.
Qed.

(* ---- transformArg is sound and keeps the invariant ---- *)
Theorem tc_transform_arg_sound r a idx st :
  tc_rule_wf T sem r -> tc_cache_inv T tf sem st ->
  forall vs es st', tc_transform_arg T tf r a idx st = (vs, es, st') ->
  (vs, es) = tc_uncached T tf r a /\ tc_cache_inv T tf sem st'.
Proof.
  intros Hwf Hinv vs es st' H. pose proof Hwf as [Hlen Hsem].
  unfold tc_transform_arg, tc_transform_arg_gen, tc_uncached in *.
  destruct (r_multi r).
  { destruct (tc_exec_multi T tf (r_ts r) (a_val a)) as [vs0 es0]. injection H as <- <- <-. auto. }
  destruct (r_ts r) as [|t0 ts0] eqn:Ets.
  { injection H as <- <- <-. cbn. auto. }
  rewrite <- Ets in *. clear Ets t0 ts0.
  destruct (Nat.eqb (a_var a) tc_var_tx).
  { destruct (exec (r_ts r) (a_val a)) as [v0 es0]. injection H as <- <- <-. auto. }
  destruct (tc_search true (length (r_pids r)) (r_pids r) a idx (st_cache st)) as [[i e]|] eqn:Es.
  - apply tcp_search_some in Es as (Hi & Hin & Hpid & Hinp).
    destruct (Hinv e Hin) as (H1 & H2 & H3). rewrite Hpid, Hinp in H1, H2, H3.
    rewrite Hlen in Hi. rewrite Hsem in H1, H2, H3 by exact Hi.
    destruct (Nat.eqb (S i) (length (r_pids r))) eqn:Efull.
    + apply Nat.eqb_eq in Efull. rewrite Hlen in Efull. injection H as <- <- <-.
      rewrite Efull, firstn_all in H1, H2. rewrite H1, H2.
      destruct (exec (r_ts r) (a_val a)); auto.
    + destruct (tc_fill T tf (S i) (skipn (S i) (r_ts r)) (r_pids r) a idx (e_out e) (tc_clip true (e_errs e)) st)
        as [[v1 es1] st1] eqn:Ef.
      injection H as <- <- <-.
      assert (Hfr : tc_frontier (st_heap st) (st_cache st) (tc_clip true (e_errs e))) by (left; cbn; lia).
      assert (H2' : tc_read (st_heap st) (tc_clip true (e_errs e)) = snd (exec (firstn (S i) (r_ts r)) (a_val a))) by exact H2.
      destruct (tcp_fill_sound r a idx Hwf _ (S i) (e_out e) (tc_clip true (e_errs e)) st eq_refl
                  ltac:(lia) Hinv H1 H2' H3 Hfr _ _ _ Ef) as (Ev & Ee & Ei).
      rewrite Ev, Ee. destruct (exec (r_ts r) (a_val a)); auto.
  - destruct (tc_fill T tf 0 (r_ts r) (r_pids r) a idx (a_val a) tc_nil_slice st) as [[v1 es1] st1] eqn:Ef.
    injection H as <- <- <-.
    assert (Hfr : tc_frontier (st_heap st) (st_cache st) tc_nil_slice) by (left; cbn; lia).
    destruct (tcp_fill_sound r a idx Hwf _ 0 (a_val a) tc_nil_slice st eq_refl
                ltac:(lia) Hinv eq_refl eq_refl eq_refl Hfr _ _ _ Ef) as (Ev & Ee & Ei).
    rewrite Ev, Ee. destruct (exec (r_ts r) (a_val a)); auto.
Qed.

(* ---- every sequence of calls in a phase ---- *)
Definition tc_calls_wf (cs : list (tc_call T)) : Prop := Forall (fun c => tc_rule_wf T sem (c_rule c)) cs.

Theorem tc_eval_calls_sound : forall cs st, tc_calls_wf cs -> tc_cache_inv T tf sem st ->
  fst (tc_eval_calls T tf cs st) = tc_uncached_calls T tf cs /\
  tc_cache_inv T tf sem (snd (tc_eval_calls T tf cs st)).
Proof.
  induction cs as [|c cs IH]; intros st Hwf Hinv; [cbn; auto|].
  inversion Hwf as [|? ? Hc Hcs]; subst.
  unfold tc_eval_calls in *. cbn [tc_eval_calls_gen].
  destruct (tc_transform_arg_gen T tf true true (c_rule c) (c_arg c) (c_idx c) st) as [[vs es] st1] eqn:E.
  destruct (tc_transform_arg_sound _ _ _ _ Hc Hinv _ _ _ E) as [Eo Ei].
  specialize (IH st1 Hcs Ei).
  destruct (tc_eval_calls_gen T tf true true cs st1) as [outs st2]. cbn [fst snd] in *.
  destruct IH as [IH1 IH2]. split; [|exact IH2].
  unfold tc_uncached_calls. cbn [map]. rewrite Eo, IH1. reflexivity.
Qed.

Lemma tc_phase_start_inv st : tc_cache_inv T tf sem (tc_phase_start T st).
Proof. intros e []. Qed.

Theorem tc_eval_phases_sound : forall ps st, Forall tc_calls_wf ps ->
  fst (tc_eval_phases T tf ps st) = map (tc_uncached_calls T tf) ps.
Proof.
  induction ps as [|p ps IH]; intros st Hwf; [reflexivity|].
  inversion Hwf as [|? ? Hp Hps]; subst. cbn [tc_eval_phases map].
  destruct (tc_eval_calls_sound p (tc_phase_start T st) Hp (tc_phase_start_inv st)) as [E1 E2].
  destruct (tc_eval_calls T tf p (tc_phase_start T st)) as [o st1]. cbn [fst snd] in *.
  specialize (IH st1 Hps). destruct (tc_eval_phases T tf ps st1) as [os st2]. cbn [fst] in *.
  rewrite E1, IH. reflexivity.
Qed.

(* the input check makes the per-phase clearing unnecessary for correctness: phases evaluated
   WITHOUT clearing give the same results *)
Theorem tc_no_clear_sound : forall ps, Forall tc_calls_wf ps ->
  fst (tc_eval_calls T tf (concat ps) (tc_empty)) = concat (map (tc_uncached_calls T tf) ps).
Proof.
  intros ps Hwf.
  assert (Hc : tc_calls_wf (concat ps)).
  { unfold tc_calls_wf. apply Forall_concat. exact Hwf. }
  destruct (tc_eval_calls_sound (concat ps) tc_empty Hc) as [E _]; [intros e []|].
  rewrite E. unfold tc_uncached_calls. rewrite concat_map. reflexivity.
Qed.

(* ------------------------------------------------------------------------------------- *)
(* the design space around the input check and the per-phase clearing (seeded defect g)    *)
(* ------------------------------------------------------------------------------------- *)
Definition tcp_same_slot (e : tc_entry) (a : tc_arg) (idx : nat) : Prop :=
  k_kid (e_key e) = a_kid a /\ k_idx (e_key e) = idx /\ k_var (e_key e) = a_var a.

Lemma tcp_search_some_gen : forall chk n pids a idx c i e,
  tc_search chk n pids a idx c = Some (i, e) ->
  i < n /\ In e c /\ k_pid (e_key e) = nth i pids 0 /\ tcp_same_slot e a idx /\ (chk = true -> e_in e = a_val a).
Proof.
  induction n as [|n IH]; intros pids a idx c i e H; cbn [tc_search] in H; [discriminate|].
  destruct (tc_find (tc_mkkey a idx (nth n pids 0)) c) as [e0|] eqn:F.
  - destruct (negb chk || bytes_eqb (e_in e0) (a_val a)) eqn:B.
    + injection H as <- <-. apply tcp_find_some in F as [F1 F2].
      unfold tcp_same_slot. rewrite F2. cbn [tc_mkkey k_kid k_idx k_var k_pid].
      split; [lia|]. split; [exact F1|]. split; [reflexivity|]. split; [auto|].
      intros ->. cbn in B. apply bytes_eqb_eq in B. exact B.
    + apply IH in H. intuition lia.
  - apply IH in H. intuition lia.
Qed.

(* every entry of the cache after the fill loop is an old one or was written for this argument *)
Lemma tcp_fill_entries (pids : list nat) (a : tc_arg) (idx : nat) : forall rest i v es st v' es' st',
  tc_fill T tf i rest pids a idx v es st = (v', es', st') ->
  forall e, In e (st_cache st') -> In e (st_cache st) \/ (e_in e = a_val a /\ tcp_same_slot e a idx).
Proof.
  induction rest as [|t rest IH]; intros i v es st v' es' st' H e He; cbn [tc_fill] in H.
  - injection H as <- <- <-. left. exact He.
  - destruct (t_err (tf t v)).
    + destruct (tc_append (st_heap st) es t) as [h1 es1].
      destruct (IH _ _ _ _ _ _ _ H e He) as [Ho|Hn]; [|right; exact Hn]. cbn [st_cache] in Ho.
      apply tcp_put_in in Ho as [->|Ho]; [right; cbn; repeat split | left; exact Ho].
    + destruct (IH _ _ _ _ _ _ _ H e He) as [Ho|Hn]; [|right; exact Hn]. cbn [st_cache] in Ho.
      apply tcp_put_in in Ho as [->|Ho]; [right; cbn; repeat split | left; exact Ho].
Qed.

Lemma tcp_transform_entries chk clip r a idx st vs es st' :
  tc_transform_arg_gen T tf chk clip r a idx st = (vs, es, st') ->
  forall e, In e (st_cache st') -> In e (st_cache st) \/ (e_in e = a_val a /\ tcp_same_slot e a idx).
Proof.
  unfold tc_transform_arg_gen. intros H e He.
  destruct (r_multi r).
  { destruct (tc_exec_multi T tf (r_ts r) (a_val a)). injection H as <- <- <-. left. exact He. }
  destruct (r_ts r) as [|t0 ts0] eqn:Ets.
  { injection H as <- <- <-. left. exact He. }
  destruct (Nat.eqb (a_var a) tc_var_tx).
  { destruct (exec (t0 :: ts0) (a_val a)). injection H as <- <- <-. left. exact He. }
  destruct (tc_search chk (length (r_pids r)) (r_pids r) a idx (st_cache st)) as [[i e0]|].
  - destruct (Nat.eqb (S i) (length (r_pids r))).
    + injection H as <- <- <-. left. exact He.
    + destruct (tc_fill T tf (S i) (skipn (S i) (t0 :: ts0)) (r_pids r) a idx (e_out e0) (tc_clip clip (e_errs e0)) st)
        as [[v1 es1] st1] eqn:Ef.
      injection H as <- <- <-. eapply tcp_fill_entries; eauto.
  - destruct (tc_fill T tf 0 (t0 :: ts0) (r_pids r) a idx (a_val a) tc_nil_slice st) as [[v1 es1] st1] eqn:Ef.
    injection H as <- <- <-. eapply tcp_fill_entries; eauto.
Qed.

(* transformArg with ANY setting of the input check is sound as long as an entry found in this
   argument's slot was computed from this argument's value *)
Theorem tc_transform_arg_gen_sound chk r a idx st :
  tc_rule_wf T sem r -> tc_cache_inv T tf sem st ->
  (chk = false -> forall e, In e (st_cache st) -> tcp_same_slot e a idx -> e_in e = a_val a) ->
  forall vs es st', tc_transform_arg_gen T tf chk true r a idx st = (vs, es, st') ->
  (vs, es) = tc_uncached T tf r a /\ tc_cache_inv T tf sem st'.
Proof.
  intros Hwf Hinv Hslot vs es st' H. pose proof Hwf as [Hlen Hsem].
  unfold tc_transform_arg_gen, tc_uncached in *.
  destruct (r_multi r).
  { destruct (tc_exec_multi T tf (r_ts r) (a_val a)) as [vs0 es0]. injection H as <- <- <-. auto. }
  destruct (r_ts r) as [|t0 ts0] eqn:Ets.
  { injection H as <- <- <-. cbn. auto. }
  rewrite <- Ets in *. clear Ets t0 ts0.
  destruct (Nat.eqb (a_var a) tc_var_tx).
  { destruct (exec (r_ts r) (a_val a)) as [v0 es0]. injection H as <- <- <-. auto. }
  destruct (tc_search chk (length (r_pids r)) (r_pids r) a idx (st_cache st)) as [[i e]|] eqn:Es.
  - apply tcp_search_some_gen in Es as (Hi & Hin & Hpid & Hsl & Hchk).
    assert (Hinp : e_in e = a_val a).
    { destruct chk; [apply Hchk; reflexivity | apply Hslot; auto]. }
    destruct (Hinv e Hin) as (H1 & H2 & H3). rewrite Hpid, Hinp in H1, H2, H3.
    rewrite Hlen in Hi. rewrite Hsem in H1, H2, H3 by exact Hi.
    destruct (Nat.eqb (S i) (length (r_pids r))) eqn:Efull.
    + apply Nat.eqb_eq in Efull. rewrite Hlen in Efull. injection H as <- <- <-.
      rewrite Efull, firstn_all in H1, H2. rewrite H1, H2.
      destruct (exec (r_ts r) (a_val a)); auto.
    + destruct (tc_fill T tf (S i) (skipn (S i) (r_ts r)) (r_pids r) a idx (e_out e) (tc_clip true (e_errs e)) st)
        as [[v1 es1] st1] eqn:Ef.
      injection H as <- <- <-.
      assert (Hfr : tc_frontier (st_heap st) (st_cache st) (tc_clip true (e_errs e))) by (left; cbn; lia).
      assert (H2' : tc_read (st_heap st) (tc_clip true (e_errs e)) = snd (exec (firstn (S i) (r_ts r)) (a_val a))) by exact H2.
      destruct (tcp_fill_sound r a idx Hwf _ (S i) (e_out e) (tc_clip true (e_errs e)) st eq_refl
                  ltac:(lia) Hinv H1 H2' H3 Hfr _ _ _ Ef) as (Ev & Ee & Ei).
      rewrite Ev, Ee. destruct (exec (r_ts r) (a_val a)); auto.
  - destruct (tc_fill T tf 0 (r_ts r) (r_pids r) a idx (a_val a) tc_nil_slice st) as [[v1 es1] st1] eqn:Ef.
    injection H as <- <- <-.
    assert (Hfr : tc_frontier (st_heap st) (st_cache st) tc_nil_slice) by (left; cbn; lia).
    destruct (tcp_fill_sound r a idx Hwf _ 0 (a_val a) tc_nil_slice st eq_refl
                ltac:(lia) Hinv eq_refl eq_refl eq_refl Hfr _ _ _ Ef) as (Ev & Ee & Ei).
    rewrite Ev, Ee. destruct (exec (r_ts r) (a_val a)); auto.
Qed.

(* "the slot identifies the value" for the variables whose check is skipped: sv gives the one
   value every call of the phase has in a slot of a fixed variable *)
Definition tc_slots_fixed (fixed : nat -> bool) (sv : nat -> nat -> nat -> bytes) (cs : list (tc_call T)) : Prop :=
  Forall (fun c => fixed (a_var (c_arg c)) = true ->
                   a_val (c_arg c) = sv (a_var (c_arg c)) (a_kid (c_arg c)) (c_idx c)) cs.

Definition tc_slot_inv (fixed : nat -> bool) (sv : nat -> nat -> nat -> bytes) (st : tc_state T) : Prop :=
  forall e, In e (st_cache st) -> fixed (k_var (e_key e)) = true ->
    e_in e = sv (k_var (e_key e)) (k_kid (e_key e)) (k_idx (e_key e)).

Lemma tc_eval_calls_fx_sound fixed sv : forall cs st,
  tc_calls_wf cs -> tc_slots_fixed fixed sv cs -> tc_cache_inv T tf sem st -> tc_slot_inv fixed sv st ->
  fst (tc_eval_calls_fx T tf fixed cs st) = tc_uncached_calls T tf cs /\
  tc_cache_inv T tf sem (snd (tc_eval_calls_fx T tf fixed cs st)) /\
  tc_slot_inv fixed sv (snd (tc_eval_calls_fx T tf fixed cs st)).
Proof.
  induction cs as [|c cs IH]; intros st Hwf Hfx Hinv Hsl; [cbn; auto|].
  inversion Hwf as [|? ? Hc Hcs]; subst. inversion Hfx as [|? ? Hf Hfs]; subst.
  cbn [tc_eval_calls_fx]. unfold tc_transform_arg_fx.
  destruct (tc_transform_arg_gen T tf (negb (fixed (a_var (c_arg c)))) true (c_rule c) (c_arg c) (c_idx c) st)
    as [[vs es] st1] eqn:E.
  assert (Hslot : negb (fixed (a_var (c_arg c))) = false -> forall e, In e (st_cache st) ->
                  tcp_same_slot e (c_arg c) (c_idx c) -> e_in e = a_val (c_arg c)).
  { intros Hn e He (S1 & S2 & S3). apply negb_false_iff in Hn.
    rewrite (Hsl e He) by (rewrite S3; exact Hn). rewrite S1, S2, S3. symmetry. apply Hf. exact Hn. }
  destruct (tc_transform_arg_gen_sound _ _ _ _ _ Hc Hinv Hslot _ _ _ E) as [Eo Ei].
  assert (Hsl1 : tc_slot_inv fixed sv st1).
  { intros e He Hfe. destruct (tcp_transform_entries _ _ _ _ _ _ _ _ _ E e He) as [Ho|(Hin & S1 & S2 & S3)].
    - apply Hsl; auto.
    - rewrite Hin, S1, S2, S3. apply Hf. rewrite <- S3. exact Hfe. }
  specialize (IH st1 Hcs Hfs Ei Hsl1).
  destruct (tc_eval_calls_fx T tf fixed cs st1) as [outs st2]. cbn [fst snd] in *.
  destruct IH as (IH1 & IH2 & IH3). split; [|split; assumption].
  unfold tc_uncached_calls. cbn [map]. rewrite Eo, IH1. reflexivity.
Qed.

Lemma tc_eval_calls_fx_none : forall cs st,
  tc_eval_calls_fx T tf tc_no_fixed cs st = tc_eval_calls T tf cs st.
Proof.
  induction cs as [|c cs IH]; intros st; [reflexivity|].
  unfold tc_eval_calls in *. cbn [tc_eval_calls_fx tc_eval_calls_gen]. unfold tc_transform_arg_fx, tc_no_fixed at 1. cbn [negb].
  destruct (tc_transform_arg_gen T tf true true (c_rule c) (c_arg c) (c_idx c) st) as [[vs es] st1].
  rewrite IH. reflexivity.
Qed.

Definition tc_tx_wf (ps : list (tc_txphase T)) : Prop :=
  Forall (fun p => tc_calls_wf (tc_phase_calls T p)) ps.

(* the transaction as /repo evaluates it: whatever the variables contain in each phase and at
   each rule, every rule sees its own list applied to the content at the moment it runs *)
Theorem tc_eval_tx_sound : forall ps st, tc_tx_wf ps ->
  fst (tc_eval_tx T tf ps st) = tc_uncached_tx T tf ps.
Proof.
  unfold tc_eval_tx. intros ps. generalize true at 2 as first.
  induction ps as [|p ps IH]; intros first st Hwf; [reflexivity|].
  inversion Hwf as [|? ? Hp Hps]; subst. cbn [tc_eval_tx_gen orb]. rewrite tc_eval_calls_fx_none.
  destruct (tc_eval_calls_sound (tc_phase_calls T p) (tc_phase_start T st) Hp (tc_phase_start_inv st)) as [E1 E2].
  destruct (tc_eval_calls T tf (tc_phase_calls T p) (tc_phase_start T st)) as [o st1]. cbn [fst snd] in *.
  specialize (IH false st1 Hps). destruct (tc_eval_tx_gen T tf true tc_no_fixed false ps st1) as [os st2]. cbn [fst] in *.
  unfold tc_uncached_tx in *. cbn [map]. rewrite E1, IH. reflexivity.
Qed.

(* site 1 of seed g alone: skipping the input check for variables whose slots hold one value
   throughout a phase is sound BECAUSE the cache is emptied at the start of every phase *)
Theorem tc_fixed_with_clearing_sound fixed : forall ps first st, tc_tx_wf ps ->
  Forall (fun p => exists sv, tc_slots_fixed fixed sv (tc_phase_calls T p)) ps ->
  fst (tc_eval_tx_gen T tf true fixed first ps st) = tc_uncached_tx T tf ps.
Proof.
  induction ps as [|p ps IH]; intros first st Hwf Hfx; [reflexivity|].
  inversion Hwf as [|? ? Hp Hps]; subst. inversion Hfx as [|? ? [sv Hsv] Hfs]; subst.
  cbn [tc_eval_tx_gen orb].
  assert (Hs0 : tc_slot_inv fixed sv (tc_phase_start T st)) by (intros e []).
  destruct (tc_eval_calls_fx_sound fixed sv _ _ Hp Hsv (tc_phase_start_inv st) Hs0) as (E1 & _ & _).
  destruct (tc_eval_calls_fx T tf fixed (tc_phase_calls T p) (tc_phase_start T st)) as [o st1]. cbn [fst] in *.
  specialize (IH false st1 Hps Hfs). destruct (tc_eval_tx_gen T tf true fixed false ps st1) as [os st2]. cbn [fst] in *.
  unfold tc_uncached_tx in *. cbn [map]. rewrite E1, IH. reflexivity.
Qed.

(* site 2 of seed g alone: emptying the cache only in the first phase is sound BECAUSE every
   lookup checks the recorded input *)
Theorem tc_first_phase_clearing_sound : forall ps st, tc_tx_wf ps ->
  fst (tc_eval_tx_gen T tf false tc_no_fixed true ps st) = tc_uncached_tx T tf ps.
Proof.
  assert (G : forall ps (first : bool) (st : tc_state T), tc_tx_wf ps -> tc_cache_inv T tf sem (if first then tc_phase_start T st else st) ->
              fst (tc_eval_tx_gen T tf false tc_no_fixed first ps st) = tc_uncached_tx T tf ps).
  { induction ps as [|p ps IH]; intros first st Hwf Hinv; [reflexivity|].
    inversion Hwf as [|? ? Hp Hps]; subst. cbn [tc_eval_tx_gen orb]. rewrite tc_eval_calls_fx_none.
    destruct (tc_eval_calls_sound (tc_phase_calls T p) _ Hp Hinv) as [E1 E2].
    destruct (tc_eval_calls T tf (tc_phase_calls T p) (if first then tc_phase_start T st else st)) as [o st1]. cbn [fst snd] in *.
    specialize (IH false st1 Hps E2). destruct (tc_eval_tx_gen T tf false tc_no_fixed false ps st1) as [os st2]. cbn [fst] in *.
    unfold tc_uncached_tx in *. cbn [map]. rewrite E1, IH. reflexivity. }
  intros ps st Hwf. apply G; [exact Hwf | apply tc_phase_start_inv].
Qed.

(* after a phase every entry of the cache was computed from a value some rule of THIS phase
   started from (nothing survives the clearing) *)
Theorem tc_phase_cache_fresh : forall cs st e,
  In e (st_cache (snd (tc_eval_calls T tf cs st))) ->
  In e (st_cache st) \/ exists c, In c cs /\ e_in e = a_val (c_arg c).
Proof.
  induction cs as [|c cs IH]; intros st e He; [left; exact He|].
  unfold tc_eval_calls in *. cbn [tc_eval_calls_gen] in He.
  destruct (tc_transform_arg_gen T tf true true (c_rule c) (c_arg c) (c_idx c) st) as [[vs es] st1] eqn:E.
  specialize (IH st1 e). destruct (tc_eval_calls_gen T tf true true cs st1) as [outs st2]. cbn [snd] in *.
  destruct (IH He) as [Ho|(c' & Hc' & Hv)].
  - destruct (tcp_transform_entries _ _ _ _ _ _ _ _ _ E e Ho) as [Hold|(Hin & _)]; [left; exact Hold|].
    right. exists c. split; [left; reflexivity | exact Hin].
  - right. exists c'. split; [right; exact Hc' | exact Hv].
Qed.

End Sound.

(* ------------------------------------------------------------------------------------- *)
(* refutations of the two earlier designs of transformArg                                  *)
(* ------------------------------------------------------------------------------------- *)
Definition tcp_tf_builtin (t : tid) (s : bytes) : tres := apply_t t s.
Definition tcp_sem1 (id : nat) : list tid := if Nat.eqb id 1 then [TLowercase] else [].

(* before commit 95501c1 a hit was decided by the key alone. F09: two values of a repeated
   argument name have the same key pointer; a different hash order (or an exclusion) gives the
   second value the position the first had for an earlier rule. F10: MATCHED_VAR has the empty
   key and position 0 whatever its content. *)
Theorem tc_key_only_refuted :
  exists cs : list (tc_call tid),
    tc_calls_wf tid tcp_sem1 cs /\
    fst (tc_eval_calls_gen tid tcp_tf_builtin false true cs tc_empty) <> tc_uncached_calls tid tcp_tf_builtin cs.
Proof.
  set (r := mk_rule [TLowercase] [1] false).
  exists [mk_call r (mk_arg 41 0 (str "ONE"%string)) 1; mk_call r (mk_arg 41 0 (str "TWO"%string)) 1].
  split.
  - repeat constructor; cbn; intros k Hk; assert (k = 0) by lia; subst; reflexivity.
  - vm_compute. discriminate.
Qed.

Theorem tc_key_only_stale_refuted :
  exists cs : list (tc_call tid),
    tc_calls_wf tid tcp_sem1 cs /\
    fst (tc_eval_calls_gen tid tcp_tf_builtin false true cs tc_empty) <> tc_uncached_calls tid tcp_tf_builtin cs.
Proof.
  set (r := mk_rule [TLowercase] [1] false).
  (* MATCHED_VAR (variable 7), empty key, position 0, content changed between two rules *)
  exists [mk_call r (mk_arg 7 0 (str "TWO"%string)) 0; mk_call r (mk_arg 7 0 (str "THREE"%string)) 0].
  split.
  - repeat constructor; cbn; intros k Hk; assert (k = 0) by lia; subst; reflexivity.
  - vm_compute. discriminate.
Qed.

(* before commit 508c5cb a rule resuming from a cached prefix appended to the cached entry's
   slice. F37: three failing steps give an error slice of len 3 / cap 4; two different
   continuations write the same slot; a later full hit reports the other rule's error. *)
Definition tcp_tf_fail (t : nat) (s : bytes) : tres := mk_tres s false true.
Definition tcp_sem_fail (id : nat) : list nat :=
  match id with 1 => [0] | 2 => [0;1] | 3 => [0;1;2] | 4 => [0;1;2;3] | 5 => [0;1;2;4] | _ => [] end.

Theorem tc_errs_alias_refuted :
  exists cs : list (tc_call nat),
    tc_calls_wf nat tcp_sem_fail cs /\
    fst (tc_eval_calls_gen nat tcp_tf_fail true false cs tc_empty) <> tc_uncached_calls nat tcp_tf_fail cs.
Proof.
  set (r0 := mk_rule [0;1;2] [1;2;3] false).
  set (r1 := mk_rule [0;1;2;3] [1;2;3;4] false).
  set (r2 := mk_rule [0;1;2;4] [1;2;3;5] false).
  set (a := mk_arg 41 0 (str "Hello"%string)).
  exists [mk_call r0 a 0; mk_call r1 a 0; mk_call r2 a 0; mk_call r1 a 0].
  split.
  - repeat constructor; cbn; intros k Hk;
      repeat (destruct k as [|k]; [reflexivity|]); lia.
  - vm_compute. discriminate.
Qed.

(* seed g: the two relaxations together. REQUEST_BODY (variable 21, one slot) is empty while
   phase 1 runs and holds the body in phase 2; within each phase its slot holds one value (the
   guard of tc_fixed_with_clearing_sound holds), every lookup of the other variables is checked
   (tc_first_phase_clearing_sound applies to them) - and the phase 2 rule gets lowercase("") *)
Definition tcp_sem_g (id : nat) : list tid :=
  match id with 1 => [TLowercase] | 2 => [TLowercase; TTrim] | _ => [] end.

Theorem tc_first_phase_clearing_with_fixed_refuted :
  exists ps : list (tc_txphase tid),
    tc_tx_wf tid tcp_sem_g ps /\
    Forall (fun p => exists sv, tc_slots_fixed tid tc_body_fixed sv (tc_phase_calls tid p)) ps /\
    fst (tc_eval_tx_gen tid tcp_tf_builtin false tc_body_fixed true ps tc_empty) <> tc_uncached_tx tid tcp_tf_builtin ps.
Proof.
  set (r1 := mk_txrule (mk_rule [TLowercase] [1] false) [54; 21]).
  set (r2 := mk_txrule (mk_rule [TLowercase; TTrim] [1; 2] false) [21]).
  set (c1 := (fun v : nat => if Nat.eqb v 21 then [(0, [])] else []) : tc_content).
  set (c2 := (fun v : nat => if Nat.eqb v 21 then [(0, str " Q=ABC "%string)] else []) : tc_content).
  exists [[(r1, c1)]; [(r2, c2)]].
  split; [|split].
  - repeat constructor; cbn; intros k Hk; repeat (destruct k as [|k]; [reflexivity|]); lia.
  - constructor; [exists (fun _ _ _ => []) | constructor; [exists (fun _ _ _ => str " Q=ABC "%string) | constructor]];
      repeat constructor.
  - vm_compute. discriminate.
Qed.

(* the same calls on the code as it is now *)
Example tc_errs_alias_repaired :
  let r0 := mk_rule [0;1;2] [1;2;3] false in
  let r1 := mk_rule [0;1;2;3] [1;2;3;4] false in
  let r2 := mk_rule [0;1;2;4] [1;2;3;5] false in
  let a := mk_arg 41 0 (str "Hello"%string) in
  let cs := [mk_call r0 a 0; mk_call r1 a 0; mk_call r2 a 0; mk_call r1 a 0] in
  fst (tc_eval_calls nat tcp_tf_fail cs tc_empty) = tc_uncached_calls nat tcp_tf_fail cs.
Proof. vm_compute. reflexivity. Qed.

(* ------------------------------------------------------------------------------------- *)
(* the intern table                                                                        *)
(* ------------------------------------------------------------------------------------- *)
From Coq Require Import ZifyN ZifyBool ZifyNat.
Ltac Zify.zify_post_hook ::= Z.div_mod_to_equations.
Local Open Scope N_scope.

Definition itp_digit (c : N) : Prop := 48 <= c /\ c <= 57.
Fixpoint itp_val (ds : list N) : N := match ds with [] => 0 | d :: r => (d - 48) + 10 * itp_val r end.

Lemma itp_itoa_fuel_spec : forall f n acc, n < 2 ^ N.of_nat f ->
  exists ds, itoa_fuel f n acc = rev ds ++ acc /\ Forall itp_digit ds /\ itp_val ds = n.
Proof.
  induction f as [|f IH]; intros n acc Hn.
  - exists []. cbn in *. split; [reflexivity|]. split; [constructor|]. cbn. lia.
  - cbn [itoa_fuel]. destruct (n / 10 =? 0) eqn:E.
    + apply N.eqb_eq in E. exists [48 + n mod 10]. split; [reflexivity|]. split.
      * constructor; [|constructor]. unfold itp_digit. pose proof (N.mod_upper_bound n 10). lia.
      * cbn [itp_val]. pose proof (N.div_mod' n 10). lia.
    + apply N.eqb_neq in E.
      assert (Hd : n / 10 < 2 ^ N.of_nat f).
      { apply N.div_lt_upper_bound; [lia|]. rewrite Nat2N.inj_succ, N.pow_succ_r' in Hn. lia. }
      destruct (IH (n / 10) ((48 + n mod 10) :: acc) Hd) as (ds & E1 & E2 & E3).
      exists ((48 + n mod 10) :: ds). split; [|split].
      * rewrite E1. cbn [rev]. rewrite <- app_assoc. reflexivity.
      * constructor; [|exact E2]. unfold itp_digit. pose proof (N.mod_upper_bound n 10). lia.
      * cbn [itp_val]. rewrite E3. pose proof (N.div_mod' n 10). lia.
Qed.

Lemma itp_itoa_spec n : exists ds, itoa n = rev ds /\ Forall itp_digit ds /\ itp_val ds = n.
Proof.
  unfold itoa.
  assert (H : n < 2 ^ N.of_nat (S (N.to_nat (N.log2 n)))).
  { rewrite Nat2N.inj_succ, N2Nat.id. destruct (N.eq_dec n 0) as [->|NZ]; [cbn; lia|].
    apply N.log2_spec. lia. }
  destruct (itp_itoa_fuel_spec _ n [] H) as (ds & E1 & E2 & E3).
  exists ds. rewrite app_nil_r in E1. auto.
Qed.

Lemma itp_itoa_inj a b : itoa a = itoa b -> a = b.
Proof.
  destruct (itp_itoa_spec a) as (da & Ea & _ & Va). destruct (itp_itoa_spec b) as (db & Eb & _ & Vb).
  intro H. rewrite Ea, Eb in H. apply (f_equal (@rev N)) in H. rewrite !rev_involutive in H. congruence.
Qed.

Lemma itp_itoa_no_plus n : ~ In it_plus (itoa n).
Proof.
  destruct (itp_itoa_spec n) as (ds & E & D & _). rewrite E. intro H. apply in_rev in H.
  rewrite Forall_forall in D. specialize (D _ H). unfold itp_digit, it_plus in D. lia.
Qed.

Lemma itp_app_sep_inj {A} (x : A) : forall l1 l2 r1 r2, ~ In x l1 -> ~ In x l2 ->
  l1 ++ x :: r1 = l2 ++ x :: r2 -> l1 = l2 /\ r1 = r2.
Proof.
  induction l1 as [|a l1 IH]; intros [|b l2] r1 r2 H1 H2 E; cbn in *.
  - injection E as <-. auto.
  - injection E as <- _. exfalso. apply H2. auto.
  - injection E as -> _. exfalso. apply H1. auto.
  - injection E as <- E. destruct (IH l2 r1 r2) as [-> ->]; auto.
Qed.

(* fmt.Sprintf("%d+%s", id, name) determines id and name *)
Lemma it_render_inj p n q m : it_render p n = it_render q m -> p = q /\ n = m.
Proof.
  unfold it_render. intro H. apply itp_app_sep_inj in H; try apply itp_itoa_no_plus.
  destruct H as [H1 H2]. apply itp_itoa_inj in H1. split; [lia | exact H2].
Qed.

Lemma it_render_not_nil p n : it_render p n <> [].
Proof. unfold it_render. destruct (itoa (N.of_nat p)); discriminate. Qed.

Local Open Scope nat_scope.

Lemma itp_index_some name : forall tb i id, it_index name tb i = Some id ->
  i <= id /\ id - i < length tb /\ nth (id - i) tb [] = name.
Proof.
  induction tb as [|x tb IH]; intros i id H; cbn [it_index] in H; [discriminate|].
  destruct (bytes_eqb x name) eqn:E.
  - injection H as <-. apply bytes_eqb_eq in E. rewrite Nat.sub_diag. cbn. repeat split; auto; lia.
  - apply IH in H as (H1 & H2 & H3). cbn [length]. replace (id - i) with (S (id - S i)) by lia.
    cbn [nth]. repeat split; auto; lia.
Qed.

Lemma itp_index_none name : forall tb i, it_index name tb i = None -> forall j, j < length tb -> nth j tb [] <> name.
Proof.
  induction tb as [|x tb IH]; intros i H j Hj; cbn [length] in Hj; [lia|].
  cbn [it_index] in H. destruct (bytes_eqb x name) eqn:E; [discriminate|].
  destruct j as [|j]; cbn [nth].
  - apply bytes_eqb_neq. exact E.
  - apply (IH (S i) H). lia.
Qed.

(* ghost state: the chain (list of names as written) every id stands for *)
Definition it_ok (tb : it_table) (ch : list (list bytes)) : Prop :=
  length ch = length tb /\ 0 < length tb /\ nth 0 tb [] = [] /\ nth 0 ch [] = [] /\
  forall i, 0 < i < length tb -> exists p n, p < i /\ nth i tb [] = it_render p n /\ nth i ch [] = nth p ch [] ++ [n].

Definition it_ext (ch ch' : list (list bytes)) : Prop :=
  length ch <= length ch' /\ forall i, i < length ch -> nth i ch' [] = nth i ch [].

Lemma it_ext_refl ch : it_ext ch ch.
Proof. split; auto. Qed.
Lemma it_ext_trans a b c : it_ext a b -> it_ext b c -> it_ext a c.
Proof. intros [L1 H1] [L2 H2]. split; [lia|]. intros i Hi. rewrite H2 by lia. apply H1. exact Hi. Qed.

Lemma it_ok_init : it_ok it_init [[]].
Proof. unfold it_ok, it_init. cbn. repeat split; auto. intros i Hi. lia. Qed.

Lemma it_intern_ok tb ch cur name id tb' :
  it_ok tb ch -> cur < length tb -> it_intern tb cur name = (id, tb') ->
  exists ch', it_ok tb' ch' /\ it_ext ch ch' /\ id < length tb' /\ length tb <= length tb' /\
              nth id ch' [] = nth cur ch [] ++ [name].
Proof.
  intros (Hl & Hp & H0 & Hc0 & Hall) Hcur H. unfold it_intern, it_intern_gen in H.
  destruct (it_index (it_render cur name) tb 0) as [j|] eqn:E.
  - injection H as <- <-. apply itp_index_some in E as (_ & Hj & Hn). rewrite Nat.sub_0_r in *.
    exists ch. split; [unfold it_ok; auto|]. split; [apply it_ext_refl|]. split; [exact Hj|]. split; [lia|].
    assert (j <> 0). { intros ->. rewrite H0 in Hn. symmetry in Hn. apply it_render_not_nil in Hn. exact Hn. }
    destruct (Hall j ltac:(lia)) as (p & n & Hpj & Hr & Hch). rewrite Hn in Hr.
    apply it_render_inj in Hr as [-> ->]. exact Hch.
  - injection H as <- <-. pose proof (itp_index_none _ _ _ E) as Hnone.
    exists (ch ++ [nth cur ch [] ++ [name]]). split; [|split; [|split; [|split]]].
    + unfold it_ok. rewrite !app_length. cbn [length]. split; [lia|]. split; [lia|].
      split; [rewrite app_nth1 by lia; exact H0|]. split; [rewrite app_nth1 by lia; exact Hc0|].
      intros i Hi. destruct (Nat.eq_dec i (length tb)) as [->|Hne].
      * exists cur, name. split; [exact Hcur|]. split; [rewrite nth_middle; reflexivity|].
        rewrite <- Hl at 1. rewrite nth_middle. rewrite app_nth1 by lia. reflexivity.
      * destruct (Hall i ltac:(lia)) as (p & n & Hpi & Hr & Hch). exists p, n. split; [exact Hpi|].
        split; [rewrite app_nth1 by lia; exact Hr|]. rewrite !app_nth1 by lia. exact Hch.
    + split; [rewrite app_length; lia|]. intros i Hi. rewrite app_nth1 by lia. reflexivity.
    + rewrite app_length. cbn. lia.
    + rewrite app_length. lia.
    + rewrite <- Hl. rewrite nth_middle. reflexivity.
Qed.

(* what is known about a rule under construction / a compiled rule *)
Definition it_rule_ok (tb : it_table) (ch : list (list bytes)) (r : it_rule) : Prop :=
  ir_cur r < length tb /\ nth (ir_cur r) ch [] = ir_names r /\
  length (ir_pids r) = length (ir_names r) /\
  forall k, k < length (ir_names r) ->
    nth k (ir_pids r) 0 < length tb /\ nth (nth k (ir_pids r) 0) ch [] = firstn (S k) (ir_names r).

Lemma it_rule_ok_ext tb ch tb' ch' r :
  it_rule_ok tb ch r -> length ch = length tb -> length tb <= length tb' -> it_ext ch ch' -> it_rule_ok tb' ch' r.
Proof.
  intros (H1 & H2 & H3 & H4) Hl Hle [He1 He2]. split; [lia|]. split; [rewrite He2 by lia; exact H2|].
  split; [exact H3|]. intros k Hk. destruct (H4 k Hk) as [Ha Hb]. split; [lia|]. rewrite He2 by lia. exact Hb.
Qed.

Lemma it_rule0_ok tb ch : it_ok tb ch -> it_rule_ok tb ch it_rule0.
Proof. intros (Hl & Hp & H0 & Hc0 & _). unfold it_rule_ok, it_rule0. cbn. repeat split; auto; lia. Qed.

Lemma it_add_t_ok tb ch r name tb' r' :
  it_ok tb ch -> it_rule_ok tb ch r -> it_add_t tb r name = (tb', r') ->
  exists ch', it_ok tb' ch' /\ it_ext ch ch' /\ length tb <= length tb' /\ it_rule_ok tb' ch' r'.
Proof.
  intros Hok Hr H. unfold it_add_t, it_add_t_gen in H.
  destruct (bytes_eqb name (str "none")).
  - injection H as <- <-. exists ch. split; [exact Hok|]. split; [apply it_ext_refl|]. split; [lia|]. apply it_rule0_ok. exact Hok.
  - destruct (it_intern_gen false tb (ir_cur r) name) as [id tb1] eqn:E. injection H as <- <-.
    pose proof Hr as (Hcur & Hname & Hlen & Hk).
    destruct (it_intern_ok tb ch (ir_cur r) name id tb1 Hok Hcur E) as (ch' & Hok' & Hext & Hid & Hle & Hch).
    exists ch'. split; [exact Hok'|]. split; [exact Hext|]. split; [exact Hle|].
    pose proof Hok as (Hl & _).
    unfold it_rule_ok. cbn [ir_cur ir_names ir_pids]. split; [exact Hid|].
    split; [rewrite Hch, Hname; reflexivity|]. split; [rewrite !app_length; cbn; lia|].
    intros k Hk'. rewrite app_length in Hk'. cbn [length] in Hk'.
    destruct (Nat.eq_dec k (length (ir_names r))) as [->|Hne].
    + rewrite <- Hlen at 1 2. rewrite nth_middle. split; [exact Hid|]. rewrite Hch, Hname.
      rewrite firstn_all2; [reflexivity|]. rewrite app_length. cbn. lia.
    + assert (Hlt : k < length (ir_names r)) by lia. destruct (Hk k Hlt) as [Ha Hb].
      rewrite app_nth1 by lia. split; [lia|]. destruct Hext as [_ He]. rewrite He by lia. rewrite Hb.
      rewrite firstn_app. replace (S k - length (ir_names r)) with 0 by lia. cbn [firstn]. rewrite app_nil_r. reflexivity.
Qed.

Lemma it_add_ts_ok : forall names tb ch r tb' r',
  it_ok tb ch -> it_rule_ok tb ch r -> it_add_ts tb r names = (tb', r') ->
  exists ch', it_ok tb' ch' /\ it_ext ch ch' /\ length tb <= length tb' /\ it_rule_ok tb' ch' r'.
Proof.
  induction names as [|n names IH]; intros tb ch r tb' r' Hok Hr H.
  - cbn in H. injection H as <- <-. exists ch. split; [exact Hok|]. split; [apply it_ext_refl|]. split; [lia|exact Hr].
  - unfold it_add_ts in *. cbn [it_add_ts_gen] in H.
    destruct (it_add_t_gen false tb r n) as [tb1 r1] eqn:E1.
    destruct (it_add_t_ok tb ch r n tb1 r1 Hok Hr E1) as (ch1 & Hok1 & Hext1 & Hle1 & Hr1).
    destruct (IH tb1 ch1 r1 tb' r' Hok1 Hr1 H) as (ch2 & Hok2 & Hext2 & Hle2 & Hr2).
    exists ch2. split; [exact Hok2|]. split; [eapply it_ext_trans; eauto|]. split; [lia|exact Hr2].
Qed.

Theorem it_compile_ok : forall rules tb ch tb' rs,
  it_ok tb ch -> it_compile tb rules = (tb', rs) ->
  exists ch', it_ok tb' ch' /\ it_ext ch ch' /\ length tb <= length tb' /\
              Forall (fun rm => it_rule_ok tb' ch' (fst rm)) rs.
Proof.
  induction rules as [|[ns m] rules IH]; intros tb ch tb' rs Hok H.
  - cbn in H. injection H as <- <-. exists ch. split; [exact Hok|]. split; [apply it_ext_refl|]. split; [lia|constructor].
  - unfold it_compile in *. cbn [it_compile_gen] in H.
    destruct (it_add_ts_gen false tb it_rule0 ns) as [tb1 r1] eqn:E1.
    destruct (it_compile_gen false tb1 rules) as [tb2 rs2] eqn:E2. injection H as <- <-.
    destruct (it_add_ts_ok ns tb ch it_rule0 tb1 r1 Hok (it_rule0_ok _ _ Hok) E1) as (ch1 & Hok1 & Hext1 & Hle1 & Hr1).
    destruct (IH tb1 ch1 tb2 rs2 Hok1 E2) as (ch2 & Hok2 & Hext2 & Hle2 & Hrs).
    exists ch2. split; [exact Hok2|]. split; [eapply it_ext_trans; eauto|]. split; [lia|].
    constructor; [|exact Hrs]. cbn [fst]. destruct Hok1 as (Hl1 & _).
    eapply it_rule_ok_ext; eauto.
Qed.

(* two prefixes (of any two rules of a rule set, compiled after any history of the global
   table) get the same id only if they are the same list of names *)
Theorem it_intern_injective : forall rules tb ch tb' rs,
  it_ok tb ch -> it_compile tb rules = (tb', rs) ->
  forall rm1 rm2 k1 k2, In rm1 rs -> In rm2 rs ->
    k1 < length (ir_names (fst rm1)) -> k2 < length (ir_names (fst rm2)) ->
    nth k1 (ir_pids (fst rm1)) 0 = nth k2 (ir_pids (fst rm2)) 0 ->
    firstn (S k1) (ir_names (fst rm1)) = firstn (S k2) (ir_names (fst rm2)).
Proof.
  intros rules tb ch tb' rs Hok H rm1 rm2 k1 k2 I1 I2 L1 L2 E.
  destruct (it_compile_ok rules tb ch tb' rs Hok H) as (ch' & _ & _ & _ & Hall).
  rewrite Forall_forall in Hall.
  destruct (Hall _ I1) as (_ & _ & _ & H1). destruct (Hall _ I2) as (_ & _ & _ & H2).
  destruct (H1 k1 L1) as [_ <-]. destruct (H2 k2 L2) as [_ <-]. rewrite E. reflexivity.
Qed.

(* compiled rules are well-formed for the cache theorems: one meaning function for all of them *)
Theorem it_compile_wf (T : Type) (reg : bytes -> T) : forall rules tb ch tb' rs,
  it_ok tb ch -> it_compile tb rules = (tb', rs) ->
  exists sem : nat -> list T, Forall (fun rm => tc_rule_wf T sem (it_to_rule reg rm)) rs.
Proof.
  intros rules tb ch tb' rs Hok H.
  destruct (it_compile_ok rules tb ch tb' rs Hok H) as (ch' & _ & _ & _ & Hall).
  exists (fun id => map reg (nth id ch' [])).
  eapply Forall_impl; [|exact Hall]. intros rm (_ & _ & Hlen & Hk).
  unfold tc_rule_wf, it_to_rule. cbn [r_ts r_pids]. rewrite map_length. split; [exact Hlen|].
  intros k Hlt. destruct (Hk k Hlt) as [_ ->]. rewrite firstn_map. reflexivity.
Qed.

(* the design before commit 8fe3f95 ("+"-joined names): a registered name containing '+' gets
   the id of a two-element chain (F38) *)
Theorem it_intern_plus_refuted :
  exists rules : list (list bytes * bool),
    let rs := snd (it_compile_gen true it_init rules) in
    exists rm1 rm2, In rm1 rs /\ In rm2 rs /\
      nth 1 (ir_pids (fst rm1)) 0 = nth 0 (ir_pids (fst rm2)) 0 /\
      firstn 2 (ir_names (fst rm1)) <> firstn 1 (ir_names (fst rm2)).
Proof.
  exists [([str "lowercase"%string; str "trim"%string], false); ([str "lowercase+trim"%string], false)].
  cbv zeta.
  set (rs := snd (it_compile_gen true it_init _)). vm_compute in rs.
  eexists; eexists. split; [left; reflexivity|]. split; [right; left; reflexivity|].
  split; [reflexivity|]. cbn. discriminate.
Qed.

(* ------------------------------------------------------------------------------------- *)
(* end to end: rules compiled through the intern table, evaluated over any phases          *)
(* ------------------------------------------------------------------------------------- *)
Lemma it_history_ok hist : exists ch, it_ok (fst (it_compile it_init hist)) ch.
Proof.
  destruct (it_compile it_init hist) as [tb rs] eqn:E.
  destruct (it_compile_ok hist it_init [[]] tb rs it_ok_init E) as (ch & H & _). exists ch. exact H.
Qed.

Theorem tc_compiled_phases_sound (T : Type) (tf : T -> bytes -> tres) (reg : bytes -> T) :
  forall (hist rules : list (list bytes * bool)) tb' rs,
  it_compile (fst (it_compile it_init hist)) rules = (tb', rs) ->
  forall (ps : list (list (tc_call T))) st,
  Forall (Forall (fun c => In (c_rule c) (map (it_to_rule reg) rs))) ps ->
  fst (tc_eval_phases T tf ps st) = map (tc_uncached_calls T tf) ps.
Proof.
  intros hist rules tb' rs H ps st Hps.
  destruct (it_history_ok hist) as (ch & Hok).
  destruct (it_compile_wf T reg rules _ ch tb' rs Hok H) as (sem & Hwf).
  apply (tc_eval_phases_sound T tf sem).
  eapply Forall_impl; [|exact Hps]. intros p Hp. unfold tc_calls_wf.
  eapply Forall_impl; [|exact Hp]. intros c Hc. cbv beta in Hc.
  apply in_map_iff in Hc as (rm & <- & Hin). rewrite Forall_forall in Hwf. apply Hwf. exact Hin.
Qed.
