(* MatchProofs.v — proofs about the model of rule matching (Match.v), property C01. *)
From Coq Require Import Permutation String.
From Verif Require Import Base Utf8 Transform Match.
Open Scope N_scope.

(* ------------------------------------------------------------------------------------ *)
(* small facts                                                                           *)
(* ------------------------------------------------------------------------------------ *)
Lemma ascii_lower_idem b : ascii_lower (ascii_lower b) = ascii_lower b.
Proof.
  unfold ascii_lower. destruct ((65 <=? b) && (b <=? 90)) eqn:E; [|rewrite E; reflexivity].
  apply andb_true_iff in E as [E1 E2]. apply N.leb_le in E1, E2.
  destruct ((65 <=? b + 32) && (b + 32 <=? 90)) eqn:F; [|reflexivity].
  apply andb_true_iff in F as [F1 F2]. apply N.leb_le in F2. lia.
Qed.

Lemma key_lower_idem s : key_lower (key_lower s) = key_lower s.
Proof.
  unfold key_lower, lower_ascii. rewrite map_map. apply map_ext. intro; apply ascii_lower_idem.
Qed.

Lemma key_lower_nil_iff s : is_empty (key_lower s) = is_empty s.
Proof. destruct s; reflexivity. Qed.

Lemma bytes_eqb_sym a b : bytes_eqb a b = bytes_eqb b a.
Proof.
  destruct (bytes_eqb a b) eqn:E.
  - apply bytes_eqb_eq in E; subst. symmetry; apply bytes_eqb_refl.
  - symmetry. apply bytes_eqb_neq. apply bytes_eqb_neq in E. congruence.
Qed.

Lemma var_eqb_eq a b : var_eqb a b = true <-> a = b.
Proof.
  unfold var_eqb. split.
  - intro H. apply N.eqb_eq in H. destruct a, b; cbn in H; try reflexivity; discriminate.
  - intros ->. apply N.eqb_refl.
Qed.

Lemma filter_all {A} (f : A -> bool) l : Forall (fun x => f x = true) l -> filter f l = l.
Proof. induction 1 as [|x l Hx _ IH]; cbn; [reflexivity|]. rewrite Hx, IH. reflexivity. Qed.

Lemma filter_none {A} (f : A -> bool) l : Forall (fun x => f x = false) l -> filter f l = [].
Proof. induction 1 as [|x l Hx _ IH]; cbn; [reflexivity|]. rewrite Hx, IH. reflexivity. Qed.

Lemma filter_flat_map {A B} (f : B -> bool) (h : A -> list B) l :
  filter f (flat_map h l) = flat_map (fun x => filter f (h x)) l.
Proof. induction l as [|x l IH]; cbn; [reflexivity|]. rewrite filter_app, IH. reflexivity. Qed.

Lemma filter_filter {A} (f g : A -> bool) l : filter f (filter g l) = filter (fun x => g x && f x) l.
Proof.
  induction l as [|x l IH]; cbn; [reflexivity|].
  destruct (g x); cbn; [destruct (f x)|]; rewrite IH; reflexivity.
Qed.

Lemma Permutation_filter {A} (f : A -> bool) l l' : Permutation l l' -> Permutation (filter f l) (filter f l').
Proof.
  induction 1; cbn.
  - constructor.
  - destruct (f x); [constructor|]; assumption.
  - destruct (f x), (f y); try apply Permutation_refl. apply perm_swap.
  - eapply Permutation_trans; eassumption.
Qed.

Lemma names_view_filter (h : bytes -> bool) es :
  filter (fun e : entry => h (fst e)) (names_view es) = names_view (filter (fun e : entry => h (fst e)) es).
Proof.
  unfold names_view. induction es as [|e es IH]; cbn; [reflexivity|].
  destruct (h (fst e)); cbn; rewrite IH; reflexivity.
Qed.

Lemma view_filter (h : bytes -> bool) n es :
  filter (fun e : entry => h (fst e)) (view n es) = view n (filter (fun e : entry => h (fst e)) es).
Proof. destruct n; cbn; [apply names_view_filter | reflexivity]. Qed.

Lemma view_perm n a b : Permutation a b -> Permutation (view n a) (view n b).
Proof. destruct n; cbn; [apply Permutation_map | auto]. Qed.

(* ------------------------------------------------------------------------------------ *)
(* the Go map model                                                                      *)
(* ------------------------------------------------------------------------------------ *)
Lemma map_add_keys m k v x :
  In x (map fst (map_add m k v)) -> In x (map fst m) \/ x = key_lower k.
Proof.
  induction m as [|b r IH]; cbn.
  - intros [H|[]]; auto.
  - destruct (bytes_eqb (fst b) (key_lower k)); cbn; intros [H|H]; auto.
    destruct (IH H); auto.
Qed.

Lemma map_add_wf m k v : wf_map m -> wf_map (map_add m k v).
Proof.
  induction m as [|b r IH]; intros [HF HN]; cbn.
  - split; [|constructor; [intros []|constructor]].
    constructor; [|constructor]. unfold bucket_ok; cbn. constructor; [reflexivity|constructor].
  - inversion HF as [|? ? Hb HFr]; subst. inversion HN as [|? ? Hnin HNr]; subst.
    destruct (bytes_eqb (fst b) (key_lower k)) eqn:E.
    + apply bytes_eqb_eq in E. split; cbn.
      * constructor; [|assumption]. unfold bucket_ok in *; cbn. apply Forall_app; split; [assumption|].
        constructor; [cbn [fst]; symmetry; exact E|constructor].
      * constructor; assumption.
    + destruct (IH (conj HFr HNr)) as [HF' HN']. split; cbn.
      * constructor; assumption.
      * constructor; [|assumption]. intro Hin. apply map_add_keys in Hin as [Hin|Heq]; [contradiction|].
        rewrite Heq, bytes_eqb_refl in E. discriminate.
Qed.

Lemma map_set1_keys m k v x :
  In x (map fst (map_set1 m k v)) -> In x (map fst m) \/ x = key_lower k.
Proof.
  induction m as [|b r IH]; cbn.
  - intros [H|[]]; auto.
  - destruct (bytes_eqb (fst b) (key_lower k)); cbn; intros [H|H]; auto.
    destruct (IH H); auto.
Qed.

Lemma map_set1_wf m k v : wf_map m -> wf_map (map_set1 m k v).
Proof.
  induction m as [|b r IH]; intros [HF HN]; cbn.
  - split; [|constructor; [intros []|constructor]].
    constructor; [|constructor]. unfold bucket_ok; cbn. constructor; [reflexivity|constructor].
  - inversion HF as [|? ? Hb HFr]; subst. inversion HN as [|? ? Hnin HNr]; subst.
    destruct (bytes_eqb (fst b) (key_lower k)) eqn:E.
    + apply bytes_eqb_eq in E. split; cbn.
      * constructor; [|assumption]. unfold bucket_ok; cbn [fst snd]. constructor; [cbn [fst]; symmetry; exact E|constructor].
      * constructor; assumption.
    + destruct (IH (conj HFr HNr)) as [HF' HN']. split; cbn.
      * constructor; assumption.
      * constructor; [|assumption]. intro Hin. apply map_set1_keys in Hin as [Hin|Heq]; [contradiction|].
        rewrite Heq, bytes_eqb_refl in E. discriminate.
Qed.

Lemma wf_map_nil : wf_map [].
Proof. split; constructor. Qed.

Lemma fold_add_wf l : forall m, wf_map m -> wf_map (fold_left (fun m e => map_add m (fst e) (snd e)) l m).
Proof. induction l as [|e l IH]; cbn; intros m H; [assumption|]. apply IH, map_add_wf, H. Qed.

Lemma map_of_list_wf l : wf_map (map_of_list l).
Proof. apply fold_add_wf, wf_map_nil. Qed.

Lemma map_add_flat m k v : Permutation (flat_entries (map_add m k v)) (flat_entries m ++ [(k, v)]).
Proof.
  unfold flat_entries. induction m as [|b r IH]; cbn.
  - apply Permutation_refl.
  - destruct (bytes_eqb (fst b) (key_lower k)); cbn.
    + rewrite <- !app_assoc. apply Permutation_app_head. apply Permutation_app_comm.
    + rewrite <- app_assoc. apply Permutation_app_head. exact IH.
Qed.

Lemma fold_add_flat l : forall m,
  Permutation (flat_entries (fold_left (fun m e => map_add m (fst e) (snd e)) l m)) (flat_entries m ++ l).
Proof.
  induction l as [|e l IH]; cbn; intro m.
  - rewrite app_nil_r. apply Permutation_refl.
  - eapply Permutation_trans; [apply IH|].
    eapply Permutation_trans; [apply Permutation_app_tail, map_add_flat|].
    rewrite <- app_assoc. cbn. destruct e; apply Permutation_refl.
Qed.

(* the collection built from a list of pairs holds exactly those pairs *)
Theorem map_of_list_entries l : Permutation (flat_entries (map_of_list l)) l.
Proof. exact (fold_add_flat l []). Qed.

Lemma in_flat_key (m : gomap) e :
  Forall bucket_ok m -> In e (flat_entries m) -> In (key_lower (fst e)) (map fst m).
Proof.
  unfold flat_entries. induction 1 as [|b r Hb _ IH]; cbn; [auto|].
  intro H. apply in_app_or in H as [H|H]; [left|right; auto].
  unfold bucket_ok in Hb. rewrite Forall_forall in Hb. symmetry; auto.
Qed.

(* c.data[lk] = the entries whose folded key is lk, in insertion order *)
Lemma map_lookup_spec m lk : wf_map m ->
  map_lookup m lk = filter (fun e => bytes_eqb lk (key_lower (fst e))) (flat_entries m).
Proof.
  unfold flat_entries. induction m as [|b r IH]; intros [HF HN]; cbn; [reflexivity|].
  inversion HF as [|? ? Hb HFr]; subst. inversion HN as [|? ? Hnin HNr]; subst.
  rewrite filter_app. destruct (bytes_eqb (fst b) lk) eqn:E.
  - apply bytes_eqb_eq in E; subst lk.
    rewrite filter_all, filter_none; [rewrite app_nil_r; reflexivity| |].
    + rewrite Forall_forall. intros e He. apply bytes_eqb_neq. intro Heq.
      apply Hnin. rewrite Heq. apply in_flat_key; assumption.
    + unfold bucket_ok in Hb. eapply Forall_impl; [|exact Hb]. cbn. intros e He. rewrite He. apply bytes_eqb_refl.
  - rewrite filter_none; [cbn; apply IH; split; assumption|].
    unfold bucket_ok in Hb. eapply Forall_impl; [|exact Hb]. cbn. intros e He. rewrite He.
    rewrite bytes_eqb_sym. exact E.
Qed.

(* range over c.data with a test on the stored key = a test on every entry's folded key *)
Lemma filter_buckets_spec (f : bytes -> bool) m : Forall bucket_ok m ->
  flat_entries (filter (fun b => f (fst b)) m) = filter (fun e => f (key_lower (fst e))) (flat_entries m).
Proof.
  unfold flat_entries. induction 1 as [|b r Hb _ IH]; cbn; [reflexivity|].
  rewrite filter_app. unfold bucket_ok in Hb. destruct (f (fst b)) eqn:E; cbn.
  - rewrite (filter_all _ (snd b)); [f_equal; exact IH|].
    eapply Forall_impl; [|exact Hb]. cbn. intros e He. rewrite He. exact E.
  - rewrite (filter_none _ (snd b)); [exact IH|].
    eapply Forall_impl; [|exact Hb]. cbn. intros e He. rewrite He. exact E.
Qed.

Lemma Permutation_Forall {A} (P : A -> Prop) l l' : Permutation l l' -> Forall P l -> Forall P l'.
Proof. intros HP HF. rewrite Forall_forall in *. intros x Hx. apply HF. eapply Permutation_in; [apply Permutation_sym|]; eassumption. Qed.

Lemma flat_entries_perm m m' : Permutation m m' -> Permutation (flat_entries m) (flat_entries m').
Proof. apply Permutation_flat_map. Qed.

(* ------------------------------------------------------------------------------------ *)
(* Find* of one leaf against the declarative selection                                   *)
(* ------------------------------------------------------------------------------------ *)
Definition mk_leaf (st : state) (p : bool * mapid) : leaf :=
  if fst p then LNames (get_map st (snd p)) else LMap (get_map st (snd p)).
Definition part_entries (st : state) (p : bool * mapid) : list entry :=
  view (fst p) (flat_entries (get_map st (snd p))).

Lemma leaf_view_mk st p es : leaf_view (mk_leaf st p) es = view (fst p) es.
Proof. unfold mk_leaf. destruct p as [[] i]; reflexivity. Qed.
Lemma leaf_map_mk st p : leaf_map (mk_leaf st p) = get_map st (snd p).
Proof. unfold mk_leaf. destruct p as [[] i]; reflexivity. Qed.

Lemma leaf_find_all_spec st p (o : gomap -> gomap) :
  (forall m, Permutation (o m) m) ->
  Permutation (leaf_find_all o (mk_leaf st p)) (part_entries st p).
Proof.
  intro Ho. unfold leaf_find_all, part_entries. rewrite leaf_view_mk, leaf_map_mk.
  apply view_perm, flat_entries_perm, Ho.
Qed.

Lemma leaf_find_regex_spec X r st p (o : gomap -> gomap) :
  (forall m, Permutation (o m) m) -> wf_map (get_map st (snd p)) ->
  Permutation (leaf_find_regex X r o (mk_leaf st p))
              (filter (fun e => rxm X r (key_lower (fst e))) (part_entries st p)).
Proof.
  intros Ho [HF _]. unfold leaf_find_regex, part_entries. rewrite leaf_view_mk, leaf_map_mk.
  rewrite (view_filter (fun k => rxm X r (key_lower k))).
  apply view_perm.
  rewrite <- (filter_buckets_spec (rxm X r)) by assumption.
  apply flat_entries_perm, Permutation_filter, Ho.
Qed.

Lemma leaf_find_string_spec k st p (o : gomap -> gomap) :
  (forall m, Permutation (o m) m) -> wf_map (get_map st (snd p)) -> is_empty k = false ->
  leaf_find_string k o (mk_leaf st p)
  = filter (fun e => bytes_eqb (key_lower k) (key_lower (fst e))) (part_entries st p).
Proof.
  intros Ho Hwf Hk. unfold part_entries, mk_leaf. destruct p as [[] i]; cbn [fst snd leaf_find_string view].
  - rewrite (names_view_filter (fun x => bytes_eqb (key_lower k) (key_lower x))).
    rewrite map_lookup_spec by assumption. reflexivity.
  - rewrite Hk. apply map_lookup_spec; assumption.
Qed.

Lemma concat_find_spec st (f : (gomap -> gomap) -> leaf -> list entry) (g : bool * mapid -> list entry) ord :
  ok_oracle ord ->
  (forall o p, (forall m, Permutation (o m) m) -> Permutation (f o (mk_leaf st p)) (g p)) ->
  forall parts i, Permutation (concat_find f ord i (map (mk_leaf st) parts)) (flat_map g parts).
Proof.
  intros Hord Hf. induction parts as [|p r IH]; intro i; cbn; [constructor|].
  apply Permutation_app; [apply Hf; intro m; apply Hord | apply IH].
Qed.

Lemma collection_keyed st v parts : var_shape v = ShKeyed parts ->
  collection st v = CKeyed (map (mk_leaf st) parts).
Proof. unfold collection. intros ->. reflexivity. Qed.

Lemma spec_entries_keyed st v parts : var_shape v = ShKeyed parts ->
  spec_entries st v = flat_map (part_entries st) parts.
Proof. unfold spec_entries. intros ->. reflexivity. Qed.

(* ------------------------------------------------------------------------------------ *)
(* GetField against the declarative selection                                            *)
(* ------------------------------------------------------------------------------------ *)
Lemma filter_true {A} (l : list A) : filter (fun _ => true) l = l.
Proof. apply filter_all. rewrite Forall_forall; auto. Qed.
Lemma filter_false {A} (l : list A) : filter (fun _ => false) l = [].
Proof. apply filter_none. rewrite Forall_forall; auto. Qed.

Lemma find_all_spec ord st v : ok_oracle ord ->
  Permutation (find_all ord (collection st v)) (spec_entries st v).
Proof.
  intro Hord. unfold collection, spec_entries. destruct (var_shape v) as [parts|f|ms|cv|]; cbn [find_all].
  - apply (concat_find_spec st leaf_find_all (part_entries st) ord Hord).
    intros o p Ho. apply leaf_find_all_spec, Ho.
  - apply Permutation_refl.
  - apply Permutation_refl.
  - apply Permutation_refl.
  - constructor.
Qed.

Lemma field_matches_spec X ord st t : wf_state st -> ok_oracle ord ->
  Permutation (field_matches X ord (collection st (rt_var t)) (compile_target X t))
              (filter (fun e => sel_accepts X (rt_var t) (rt_sel t) (fst e)) (spec_entries st (rt_var t))).
Proof.
  intros Hwf Hord. destruct t as [cnt v s negs]. cbn [rt_var rt_sel].
  unfold field_matches, compile_target. cbn [c_keyrx c_keystr rt_var rt_sel rt_count].
  destruct s as [|k|p]; cbn [sel_rx sel_text sel_accepts].
  - (* no key *)
    replace (is_empty (if args_family v then [] else key_lower [])) with true by (destruct (args_family v); reflexivity).
    rewrite filter_true. apply find_all_spec, Hord.
  - (* string key *)
    destruct (is_empty k) eqn:Ek.
    + replace (is_empty (if args_family v then k else key_lower k)) with true
        by (destruct (args_family v); [|rewrite key_lower_nil_iff]; congruence).
      rewrite filter_true. apply find_all_spec, Hord.
    + replace (is_empty (if args_family v then k else key_lower k)) with false
        by (destruct (args_family v); [|rewrite key_lower_nil_iff]; congruence).
      unfold selectable. destruct (var_shape v) as [parts|f|ms|cv|] eqn:Hs.
      * rewrite (collection_keyed st v parts Hs), (spec_entries_keyed st v parts Hs). cbn [andb].
        rewrite filter_flat_map.
        apply (concat_find_spec st _ _ ord Hord). intros o p Ho.
        rewrite leaf_find_string_spec; [| exact Ho | apply Hwf |].
        -- replace (key_lower (if args_family v then k else key_lower k)) with (key_lower k)
             by (destruct (args_family v); [|rewrite key_lower_idem]; reflexivity).
           apply Permutation_refl.
        -- destruct (args_family v); [|rewrite key_lower_nil_iff]; exact Ek.
      * unfold collection; rewrite Hs. cbn. rewrite filter_false. constructor.
      * unfold collection; rewrite Hs. cbn. rewrite filter_false. constructor.
      * unfold collection; rewrite Hs. cbn. rewrite filter_false. constructor.
      * unfold collection; rewrite Hs. cbn. rewrite filter_false. constructor.
  - (* regex key *)
    unfold selectable, eff_rx. destruct (var_shape v) as [parts|f|ms|cv|] eqn:Hs.
    + rewrite (collection_keyed st v parts Hs), (spec_entries_keyed st v parts Hs). cbn [andb].
      rewrite filter_flat_map.
      apply (concat_find_spec st _ _ ord Hord). intros o pt Ho.
      apply leaf_find_regex_spec; [exact Ho | apply Hwf].
    + unfold collection; rewrite Hs. cbn. rewrite filter_false. constructor.
    + unfold collection; rewrite Hs. cbn. rewrite filter_false. constructor.
    + unfold collection; rewrite Hs. cbn. rewrite filter_false. constructor.
    + unfold collection; rewrite Hs. cbn. rewrite filter_false. constructor.
Qed.

Lemma exc_hits_spec X v n key : exc_hits X (new_exc X v n) (key_lower key) = neg_accepts X v n key.
Proof.
  unfold exc_hits, new_exc. destruct n as [|k|p]; cbn [x_keystr x_keyrx sel_text sel_rx neg_accepts].
  - cbn. apply orb_true_r.
  - destruct (is_empty k) eqn:Ek; cbn; [apply orb_true_r | rewrite orb_false_r; reflexivity].
  - cbn [is_empty andb]. rewrite orb_false_r. reflexivity.
Qed.

Lemma is_exception_spec X v negs key :
  is_exception X (map (new_exc X v) negs) (key_lower key) = existsb (fun n => neg_accepts X v n key) negs.
Proof.
  unfold is_exception. induction negs as [|n r IH]; cbn; [reflexivity|]. rewrite exc_hits_spec, IH. reflexivity.
Qed.

Lemma get_field_selected X ord st t : wf_state st -> ok_oracle ord ->
  Permutation
    (filter (fun e => negb (is_exception X (c_excs (compile_target X t)) (key_lower (fst e))))
            (field_matches X ord (collection st (rt_var t)) (compile_target X t)))
    (spec_selected X st t).
Proof.
  intros Hwf Hord. eapply Permutation_trans; [apply Permutation_filter, field_matches_spec; assumption|].
  unfold spec_selected. rewrite filter_filter.
  erewrite filter_ext; [apply Permutation_refl|].
  intro e. cbn [compile_target c_excs]. rewrite is_exception_spec. reflexivity.
Qed.

(* GetField returns exactly the declaratively selected entries (as a multiset), or their count *)
Theorem get_field_spec X ord st t : wf_state st -> ok_oracle ord ->
  Permutation (get_field X ord st (compile_target X t)) (spec_selects X st t).
Proof.
  intros Hwf Hord. pose proof (get_field_selected X ord st t Hwf Hord) as HP.
  unfold get_field, spec_selects.
  replace (c_count (compile_target X t)) with (rt_count t) by reflexivity.
  replace (c_var (compile_target X t)) with (rt_var t) in * by reflexivity.
  destruct (rt_count t).
  - rewrite (Permutation_length HP). apply Permutation_refl.
  - apply Permutation_map, HP.
Qed.

(* ------------------------------------------------------------------------------------ *)
(* target compilation: a negation applies to exactly the earlier targets of its variable *)
(* ------------------------------------------------------------------------------------ *)
Definition apply_negs (X : sem) (items : list titem) (p : cparams) : cparams :=
  mk_cparams (c_count p) (c_var p) (c_keystr p) (c_keyrx p)
             (c_excs p ++ map (new_exc X (c_var p)) (negs_for (c_var p) items)).

Lemma compile_items_gen X items : forall acc,
  compile_items X items acc = map (apply_negs X items) acc ++ map (compile_target X) (targets_of_items items).
Proof.
  induction items as [|it r IH]; intro acc; cbn [compile_items targets_of_items].
  - cbn. rewrite app_nil_r. rewrite <- (map_id acc) at 1. apply map_ext.
    intros [c v ks kr ex]. unfold apply_negs; cbn. rewrite app_nil_r. reflexivity.
  - destruct it as [c v s|v s].
    + rewrite IH, map_app, <- app_assoc. cbn [map app negs_for]. reflexivity.
    + rewrite IH. f_equal. unfold add_neg. rewrite map_map. apply map_ext.
      intros [c v' ks kr ex]. unfold apply_negs. cbn [c_var c_count c_keystr c_keyrx c_excs negs_for].
      destruct (var_eqb v' v) eqn:E; cbn [c_var c_count c_keystr c_keyrx c_excs]; [|reflexivity].
      apply var_eqb_eq in E; subst v'. rewrite <- app_assoc. reflexivity.
Qed.

Theorem compile_items_spec X items :
  compile_items X items [] = map (compile_target X) (targets_of_items items).
Proof. rewrite compile_items_gen. reflexivity. Qed.

(* ------------------------------------------------------------------------------------ *)
(* state invariants                                                                      *)
(* ------------------------------------------------------------------------------------ *)
Lemma set_mvar_wf st x : wf_state st -> wf_state (set_mvar st x).
Proof. intros H i. specialize (H i). destruct i; exact H. Qed.
Lemma set_mvarname_wf st x : wf_state st -> wf_state (set_mvarname st x).
Proof. intros H i. specialize (H i). destruct i; exact H. Qed.
Lemma set_mvars_wf st m : wf_state st -> wf_map m -> wf_state (set_mvars st m).
Proof. intros H Hm i. specialize (H i). destruct i; try exact H. exact Hm. Qed.

Lemma set_excl_wf st l : wf_state st -> wf_state (set_excl st l).
Proof. intros H i. specialize (H i). destruct i; exact H. Qed.
Lemma set_rid_wf st n : wf_state st -> wf_state (set_rid st n).
Proof. intros H i. specialize (H i). destruct i; exact H. Qed.

Lemma match_variable_wf st m : wf_state st -> wf_state (match_variable st m).
Proof.
  intro H. unfold match_variable. apply set_mvarname_wf, set_mvar_wf, set_mvars_wf; [exact H|].
  apply map_add_wf. exact (H MMvars).
Qed.

Lemma fold_match_wf ms : forall st, wf_state st -> wf_state (fold_left match_variable ms st).
Proof. induction ms as [|m r IH]; cbn; intros st H; [assumption|]. apply IH, match_variable_wf, H. Qed.

Lemma apply_setvar_wf st kv : wf_state st -> wf_state (apply_setvar st kv).
Proof.
  intros H i. unfold apply_setvar. pose proof (H MTx) as Htx. specialize (H i).
  destruct i; try exact H. cbn. apply map_set1_wf. exact Htx.
Qed.

Lemma apply_action_wf st a : wf_state st -> wf_state (apply_action st a).
Proof. intro H. destruct a; cbn [apply_action]; [apply apply_setvar_wf | apply set_excl_wf]; exact H. Qed.

Lemma fold_action_wf acts : forall st, wf_state st -> wf_state (fold_left apply_action acts st).
Proof. induction acts as [|a r IH]; cbn [fold_left]; intros st H; [assumption|]. apply IH, apply_action_wf, H. Qed.

Lemma build1_wf q : wf_state (build1 q).
Proof.
  intro i. destruct i; unfold build1; cbn [get_map s_get s_post s_path s_hdr s_cookie s_tx s_mvars];
    try apply map_of_list_wf; apply wf_map_nil.
Qed.

Lemma set_post_wf st m : wf_state st -> wf_map m -> wf_state (set_post st m).
Proof. intros H Hm i. specialize (H i). destruct i; try exact H. exact Hm. Qed.

Lemma sub_ok ord i : ok_oracle ord -> ok_oracle (sub ord i).
Proof. intros H p m. apply H. Qed.

Lemma eval_targets_wf X ord l neg o cs : forall st i, wf_state st -> wf_state (snd (eval_targets X ord st l neg o i cs)).
Proof.
  induction cs as [|c r IH]; intros st i H; cbn [eval_targets snd]; [assumption|].
  apply IH, fold_match_wf, H.
Qed.

Lemma link_post_wf X ord st l : wf_state st -> wf_state (link_post X ord st l).
Proof.
  intro H. unfold link_post, link_eval. destruct (l_kind l); cbn [snd].
  - apply fold_action_wf, match_variable_wf, H.
  - apply eval_targets_wf, H.
Qed.

(* ------------------------------------------------------------------------------------ *)
(* one link                                                                              *)
(* ------------------------------------------------------------------------------------ *)
Lemma is_exception_app X a b k : is_exception X (a ++ b) k = is_exception X a k || is_exception X b k.
Proof. unfold is_exception. apply existsb_app. Qed.

(* GetField with the run-time exclusions of the rule being evaluated appended (doEvaluate) *)
Theorem get_field_rt_spec X ord st t : wf_state st -> ok_oracle ord ->
  Permutation (get_field X ord st (with_rt st (compile_target X t))) (spec_selects_rt X st t).
Proof.
  intros Hwf Hord. pose proof (get_field_selected X ord st t Hwf Hord) as HP.
  unfold get_field, spec_selects_rt, with_rt. cbn [c_count c_var c_excs c_keystr].
  change (field_matches X ord (collection st (c_var (compile_target X t)))
            (mk_cparams (c_count (compile_target X t)) (c_var (compile_target X t)) (c_keystr (compile_target X t))
                        (c_keyrx (compile_target X t)) (c_excs (compile_target X t) ++ rt_excs st (c_var (compile_target X t)))))
    with (field_matches X ord (collection st (rt_var t)) (compile_target X t)).
  replace (c_count (compile_target X t)) with (rt_count t) by reflexivity.
  replace (c_var (compile_target X t)) with (rt_var t) in * by reflexivity.
  assert (HQ : Permutation
            (filter (fun e => negb (is_exception X (c_excs (compile_target X t) ++ rt_excs st (rt_var t)) (key_lower (fst e))))
                    (field_matches X ord (collection st (rt_var t)) (compile_target X t)))
            (spec_selected_rt X st t)).
  { unfold spec_selected_rt.
    erewrite filter_ext; [|intro e; rewrite is_exception_app, negb_orb; reflexivity].
    rewrite <- filter_filter. apply Permutation_filter. exact HP. }
  destruct (rt_count t).
  - rewrite (Permutation_length HQ). apply Permutation_refl.
  - apply Permutation_map, HQ.
Qed.

Lemma target_matches_spec X ord st l neg o t : wf_state st -> ok_oracle ord ->
  Permutation (target_matches X ord st l neg o (compile_target X t))
              (flat_map (satisfying X l neg o) (spec_selects_rt X st t)).
Proof. intros Hwf Hord. unfold target_matches. apply Permutation_flat_map, get_field_rt_spec; assumption. Qed.

Lemma eval_targets_spec X ord l neg o : ok_oracle ord -> forall ts st i, wf_state st ->
  Permutation (fst (eval_targets X ord st l neg o i (map (compile_target X) ts)))
              (spec_targets X ord st l neg o i ts).
Proof.
  intro Hord. induction ts as [|t r IH]; intros st i Hwf; cbn [map eval_targets spec_targets fst]; [constructor|].
  apply Permutation_app.
  - apply target_matches_spec; [assumption | apply sub_ok, Hord].
  - apply IH. apply fold_match_wf, Hwf.
Qed.

(* the match data of a link is exactly the satisfying (variable, key, transformed value) triples,
   every target read in the state the earlier targets of the link left *)
Theorem link_matches_spec_t X ord st l : wf_state st -> ok_oracle ord ->
  Permutation (link_matches X ord st l) (spec_link_matches_t X ord st l).
Proof.
  intros Hwf Hord. unfold link_matches, link_eval, spec_link_matches_t. destruct (l_kind l) as [svs|neg o].
  - apply Permutation_refl.
  - rewrite compile_items_spec. apply eval_targets_spec; assumption.
Qed.

Lemma link_matches_nonempty X ord st l : wf_state st -> ok_oracle ord ->
  is_nil (link_matches X ord st l) = false <-> link_holds_t X ord st l.
Proof.
  intros Hwf Hord. pose proof (link_matches_spec_t X ord st l Hwf Hord) as HP.
  unfold link_holds_t. destruct (l_kind l) as [svs|neg o] eqn:Ek.
  - split; [auto|]. intros _. unfold link_matches, link_eval. rewrite Ek. reflexivity.
  - split.
    + intro H. destruct (link_matches X ord st l) as [|m ms] eqn:E; [discriminate|].
      exists m. eapply Permutation_in; [exact HP | left; reflexivity].
    + intros [md Hin]. destruct (link_matches X ord st l) eqn:E; [|reflexivity].
      apply Permutation_sym in HP. eapply Permutation_in in Hin; [|exact HP]. destruct Hin.
Qed.

(* ---- links that read none of the MATCHED_* variables: the declarative reading ---- *)
Definition same_but_mvar (st st' : state) : Prop :=
  (forall v, matched_family v = false -> spec_entries st' v = spec_entries st v)
  /\ s_excl st' = s_excl st /\ s_rid st' = s_rid st.

Lemma same_refl st : same_but_mvar st st.
Proof. split; [intros v _; reflexivity | split; reflexivity]. Qed.
Lemma same_trans a b c : same_but_mvar a b -> same_but_mvar b c -> same_but_mvar a c.
Proof.
  intros [H1 [E1 R1]] [H2 [E2 R2]]. split; [|split; congruence].
  intros v Hv. rewrite H2, H1; auto.
Qed.

Lemma match_variable_same st m : same_but_mvar st (match_variable st m).
Proof. split; [|split; reflexivity]. intros v Hv. destruct v; try reflexivity; discriminate. Qed.

Lemma fold_match_same ms : forall st, same_but_mvar st (fold_left match_variable ms st).
Proof.
  induction ms as [|m r IH]; cbn; intro st; [apply same_refl|].
  eapply same_trans; [apply match_variable_same | apply IH].
Qed.

Lemma eval_targets_same X ord l neg o cs : forall st i, same_but_mvar st (snd (eval_targets X ord st l neg o i cs)).
Proof.
  induction cs as [|c r IH]; intros st i; cbn [eval_targets snd]; [apply same_refl|].
  eapply same_trans; [apply fold_match_same | apply IH].
Qed.

Lemma reads_mvar_false l t : reads_mvar l = false -> In t (targets_of_items (l_items l)) -> matched_family (rt_var t) = false.
Proof.
  unfold reads_mvar. intros H Ht. destruct (matched_family (rt_var t)) eqn:E; [|reflexivity].
  assert (existsb (fun t => matched_family (rt_var t)) (targets_of_items (l_items l)) = true).
  { apply existsb_exists. exists t; split; assumption. }
  congruence.
Qed.

Lemma spec_selects_same X st st' t : same_but_mvar st st' -> matched_family (rt_var t) = false ->
  spec_selects_rt X st' t = spec_selects_rt X st t.
Proof.
  intros [Hs [He Hr]] Hv. unfold spec_selects_rt, spec_selected_rt, spec_selected, rt_excluded, rt_excs.
  rewrite (Hs _ Hv), He, Hr. reflexivity.
Qed.

Lemma spec_targets_decl X ord l neg o : forall ts st st' i, same_but_mvar st st' ->
  Forall (fun t => matched_family (rt_var t) = false) ts ->
  spec_targets X ord st' l neg o i ts = flat_map (fun t => flat_map (satisfying X l neg o) (spec_selects_rt X st t)) ts.
Proof.
  induction ts as [|t r IH]; intros st st' i Hs HF; cbn [spec_targets flat_map]; [reflexivity|].
  inversion HF as [|? ? Ht HFr]; subst. rewrite (spec_selects_same X st st' t Hs Ht). f_equal.
  apply IH; [|assumption]. eapply same_trans; [exact Hs|]. unfold target_post. apply fold_match_same.
Qed.

(* for such a link the exact match data is the order-free, state-free one *)
Theorem spec_link_matches_decl X ord st st' l : same_but_mvar st st' -> reads_mvar l = false ->
  spec_link_matches_t X ord st' l = spec_link_matches_rt X st l.
Proof.
  intros Hs Hr. unfold spec_link_matches_t, spec_link_matches_rt. destruct (l_kind l) as [svs|neg o]; [reflexivity|].
  apply spec_targets_decl; [exact Hs|]. rewrite Forall_forall. intros t Ht. eapply reads_mvar_false; eassumption.
Qed.

Theorem link_matches_spec_rt X ord st l : wf_state st -> ok_oracle ord -> reads_mvar l = false ->
  Permutation (link_matches X ord st l) (spec_link_matches_rt X st l).
Proof.
  intros Hwf Hord Hr. rewrite <- (spec_link_matches_decl X ord st st l (same_refl st) Hr).
  apply link_matches_spec_t; assumption.
Qed.

Lemma spec_link_nonempty_rt X st l : spec_link_matches_rt X st l <> [] <-> link_holds_rt X st l.
Proof.
  unfold spec_link_matches_rt, link_holds_rt. destruct (l_kind l) as [svs|neg o].
  - split; [auto | discriminate].
  - split.
    + intro H. destruct (flat_map _ _) as [|m ms] eqn:E; [contradiction|].
      assert (Hin : In m (m :: ms)) by (left; reflexivity). rewrite <- E in Hin.
      apply in_flat_map in Hin as [t [Ht Hin]]. apply in_flat_map in Hin as [md [Hmd Hin]].
      unfold satisfying in Hin. apply in_map_iff in Hin as [cv [_ Hcv]]. apply filter_In in Hcv as [Hcv Hop].
      exists t, md, cv. auto.
    + intros [t [md [cv [Ht [Hmd [Hcv Hop]]]]]] E.
      assert (Hin : In (fst md, cv) (flat_map (fun t => flat_map (satisfying X l neg o) (spec_selects_rt X st t)) (targets_of_items (l_items l)))).
      { apply in_flat_map. exists t; split; [assumption|]. apply in_flat_map. exists md; split; [assumption|].
        unfold satisfying. apply in_map_iff. exists cv; split; [reflexivity|]. apply filter_In; split; assumption. }
      rewrite E in Hin. contradiction.
Qed.

Lemma link_holds_decl X ord st st' l : same_but_mvar st st' -> reads_mvar l = false ->
  (link_holds_t X ord st' l <-> link_holds_rt X st l).
Proof.
  intros Hs Hr. rewrite <- spec_link_nonempty_rt. unfold link_holds_t.
  rewrite (spec_link_matches_decl X ord st st' l Hs Hr).
  unfold spec_link_matches_rt. destruct (l_kind l) as [svs|neg o]; [split; [discriminate | auto]|].
  split.
  - intros [md Hin] E. rewrite E in Hin. destruct Hin.
  - intro H. destruct (flat_map _ _) as [|m ms]; [contradiction|]. exists m. left; reflexivity.
Qed.

(* no run-time exclusion recorded: the rt-aware specification is the plain one *)
Lemma spec_selects_no_rt X st t : s_excl st = [] -> spec_selects_rt X st t = spec_selects X st t.
Proof.
  intro H. unfold spec_selects_rt, spec_selects, spec_selected_rt, rt_excluded, rt_excs. rewrite H. cbn [filter map existsb negb].
  rewrite filter_true. reflexivity.
Qed.

Lemma spec_link_matches_no_rt X st l : s_excl st = [] -> spec_link_matches_rt X st l = spec_link_matches X st l.
Proof.
  intro H. unfold spec_link_matches_rt, spec_link_matches. destruct (l_kind l); [reflexivity|].
  apply flat_map_ext. intro t. rewrite (spec_selects_no_rt X st t H). reflexivity.
Qed.

Theorem link_matches_spec X ord st l : wf_state st -> ok_oracle ord -> reads_mvar l = false -> s_excl st = [] ->
  Permutation (link_matches X ord st l) (spec_link_matches X st l).
Proof.
  intros Hwf Hord Hr He. rewrite <- (spec_link_matches_no_rt X st l He). apply link_matches_spec_rt; assumption.
Qed.

Lemma spec_link_nonempty X st l : spec_link_matches X st l <> [] <-> link_holds X st l.
Proof.
  unfold spec_link_matches, link_holds. destruct (l_kind l) as [svs|neg o].
  - split; [auto | discriminate].
  - split.
    + intro H. destruct (flat_map _ _) as [|m ms] eqn:E; [contradiction|].
      assert (Hin : In m (m :: ms)) by (left; reflexivity). rewrite <- E in Hin.
      apply in_flat_map in Hin as [t [Ht Hin]]. apply in_flat_map in Hin as [md [Hmd Hin]].
      unfold satisfying in Hin. apply in_map_iff in Hin as [cv [_ Hcv]]. apply filter_In in Hcv as [Hcv Hop].
      exists t, md, cv. auto.
    + intros [t [md [cv [Ht [Hmd [Hcv Hop]]]]]] E.
      assert (Hin : In (fst md, cv) (flat_map (fun t => flat_map (satisfying X l neg o) (spec_selects X st t)) (targets_of_items (l_items l)))).
      { apply in_flat_map. exists t; split; [assumption|]. apply in_flat_map. exists md; split; [assumption|].
        unfold satisfying. apply in_map_iff. exists cv; split; [reflexivity|]. apply filter_In; split; assumption. }
      rewrite E in Hin. contradiction.
Qed.

Lemma link_holds_no_rt X st l : s_excl st = [] -> (link_holds_rt X st l <-> link_holds X st l).
Proof.
  intro H. rewrite <- spec_link_nonempty_rt, <- spec_link_nonempty, (spec_link_matches_no_rt X st l H). tauto.
Qed.

Lemma link_post_same X ord st l : is_action l = false -> same_but_mvar st (link_post X ord st l).
Proof.
  unfold is_action, link_post, link_eval. destruct (l_kind l); [discriminate|]. intros _. apply eval_targets_same.
Qed.

(* ------------------------------------------------------------------------------------ *)
(* chains                                                                                *)
(* ------------------------------------------------------------------------------------ *)
Lemma eval_chain_cons X ord st lvl l r :
  eval_chain X ord st lvl (l :: r) =
  if is_nil (link_matches X (sub ord lvl) st l) then (None, link_post X (sub ord lvl) st l)
  else match eval_chain X ord (link_post X (sub ord lvl) st l) (S lvl) r with
       | (Some rest, st'') => (Some (tag lvl (link_matches X (sub ord lvl) st l) ++ rest), st'')
       | (None, st'') => (None, st'')
       end.
Proof. reflexivity. Qed.

Theorem chain_fires_iff X ord ls : ok_oracle ord -> forall st lvl, wf_state st ->
  (fst (eval_chain X ord st lvl ls) <> None <-> chain_holds X ord st lvl ls).
Proof.
  intro Hord. induction ls as [|l r IH]; intros st lvl Hwf.
  - cbn. split; [auto | discriminate].
  - rewrite eval_chain_cons. cbn [chain_holds].
    pose proof (link_matches_nonempty X (sub ord lvl) st l Hwf (sub_ok ord lvl Hord)) as Hl.
    specialize (IH (link_post X (sub ord lvl) st l) (S lvl) (link_post_wf X (sub ord lvl) st l Hwf)).
    destruct (is_nil (link_matches X (sub ord lvl) st l)) eqn:E.
    + cbn. split; [intro H; contradiction|]. intros [H _]. apply Hl in H. discriminate.
    + destruct (eval_chain X ord (link_post X (sub ord lvl) st l) (S lvl) r) as [[rest|] st''] eqn:Er; cbn in *.
      * split; [|discriminate]. intros _. split; [apply Hl; reflexivity | apply IH; discriminate].
      * split; [intro H; contradiction|]. intros [_ H]. apply IH in H. contradiction.
Qed.

Theorem chain_matchdata_exact X ord ls : ok_oracle ord -> forall st lvl mds st', wf_state st ->
  eval_chain X ord st lvl ls = (Some mds, st') ->
  Permutation mds (spec_chain_data X ord st lvl ls).
Proof.
  intro Hord. induction ls as [|l r IH]; intros st lvl mds st' Hwf.
  - cbn. intro H; inversion H; subst. constructor.
  - rewrite eval_chain_cons. cbn [spec_chain_data].
    destruct (is_nil (link_matches X (sub ord lvl) st l)); [discriminate|].
    destruct (eval_chain X ord (link_post X (sub ord lvl) st l) (S lvl) r) as [[rest|] st''] eqn:Er; [|discriminate].
    intro H; inversion H; subst. apply Permutation_app.
    + unfold tag. apply Permutation_map, link_matches_spec_t; [assumption | apply sub_ok, Hord].
    + eapply IH; [apply link_post_wf, Hwf | exact Er].
Qed.

Lemma eval_chain_wf X ord ls : forall st lvl, wf_state st -> wf_state (snd (eval_chain X ord st lvl ls)).
Proof.
  induction ls as [|l r IH]; intros st lvl Hwf; [exact Hwf|]. rewrite eval_chain_cons.
  destruct (is_nil _); [cbn; apply link_post_wf, Hwf|].
  specialize (IH (link_post X (sub ord lvl) st l) (S lvl) (link_post_wf X (sub ord lvl) st l Hwf)).
  destruct (eval_chain X ord (link_post X (sub ord lvl) st l) (S lvl) r) as [[rest|] st'']; exact IH.
Qed.

Theorem chain_holds_declarative X ord ls : forall st st' lvl,
  same_but_mvar st st' ->
  Forall (fun l => reads_mvar l = false /\ is_action l = false) ls ->
  (chain_holds X ord st' lvl ls <-> Forall (link_holds_rt X st) ls).
Proof.
  induction ls as [|l r IH]; intros st st' lvl Hs HF; cbn [chain_holds].
  - split; auto.
  - inversion HF as [|? ? [Hr Ha] HFr]; subst.
    rewrite (link_holds_decl X (sub ord lvl) st st' l Hs Hr).
    rewrite (IH st (link_post X (sub ord lvl) st' l) (S lvl)); [|eapply same_trans; [exact Hs | apply link_post_same, Ha] | assumption].
    split; [intros [H1 H2]; constructor; assumption | intro H; inversion H; auto].
Qed.

(* ------------------------------------------------------------------------------------ *)
(* rules and phases                                                                      *)
(* ------------------------------------------------------------------------------------ *)
Theorem rule_fires_iff X ord st r : wf_state st -> ok_oracle ord ->
  (rule_fires X ord st r = true <-> chain_holds X ord st 0 (rule_links r)).
Proof.
  intros Hwf Hord. rewrite <- (chain_fires_iff X ord (rule_links r) Hord st 0%nat Hwf).
  unfold rule_fires, eval_rule. destruct (fst (eval_chain X ord st 0 (rule_links r))); split; congruence.
Qed.

Theorem rule_fires_declarative_rt X ord st r : wf_state st -> ok_oracle ord ->
  Forall (fun l => reads_mvar l = false /\ is_action l = false) (rule_links r) ->
  (rule_fires X ord st r = true <-> Forall (link_holds_rt X st) (rule_links r)).
Proof.
  intros Hwf Hord HF. rewrite rule_fires_iff by assumption.
  apply chain_holds_declarative; [apply same_refl | assumption].
Qed.

(* the same when no run-time exclusion has been recorded in the transaction *)
Theorem rule_fires_declarative X ord st r : wf_state st -> ok_oracle ord -> s_excl st = [] ->
  Forall (fun l => reads_mvar l = false /\ is_action l = false) (rule_links r) ->
  (rule_fires X ord st r = true <-> Forall (link_holds X st) (rule_links r)).
Proof.
  intros Hwf Hord He HF. rewrite (rule_fires_declarative_rt X ord st r Hwf Hord HF).
  split; intro H; (eapply Forall_impl; [|exact H]); intros l Hl; apply (link_holds_no_rt X st l He); exact Hl.
Qed.

Theorem rule_matchdata_exact X ord st r mds st' : wf_state st -> ok_oracle ord ->
  eval_rule X ord st r = (Some mds, st') ->
  Permutation mds (spec_chain_data X ord st 0 (rule_links r)).
Proof. intros Hwf Hord H. eapply chain_matchdata_exact; eassumption. Qed.

Inductive subseq {A} : list A -> list A -> Prop :=
  | ss_nil : subseq [] []
  | ss_take x a b : subseq a b -> subseq (x :: a) (x :: b)
  | ss_skip x a b : subseq a b -> subseq a (x :: b).

(* fired ids: a subsequence of the configuration order restricted to the phase *)
Theorem phase_order X ord ph rules : forall st i,
  subseq (map fst (fst (eval_rules X ord st ph i rules))) (map r_id (filter (in_phase ph) rules)).
Proof.
  induction rules as [|r rest IH]; intros st i; cbn [eval_rules filter]; [constructor|].
  destruct (in_phase ph r); [|apply IH].
  destruct (eval_rule X (sub ord i) (rule_start st r) r) as [res st'].
  specialize (IH st' (S i)). destruct (eval_rules X ord st' ph (S i) rest) as [out st''].
  cbn [fst map] in *. destruct res as [mds|]; [destruct (r_id r =? 0)|]; cbn [map fst]; constructor; exact IH.
Qed.

(* no missed rule, no phantom rule, configuration order: the reported ids are exactly spec_fired *)
Theorem phase_exact X ord ph rules : forall st i,
  map fst (fst (eval_rules X ord st ph i rules)) = spec_fired X ord st ph i rules.
Proof.
  induction rules as [|r rest IH]; intros st i; cbn [eval_rules spec_fired]; [reflexivity|].
  destruct (in_phase ph r); cbn [andb]; [|apply IH].
  unfold rule_fires. destruct (eval_rule X (sub ord i) (rule_start st r) r) as [res st']. cbn [fst snd].
  specialize (IH st' (S i)). destruct (eval_rules X ord st' ph (S i) rest) as [out st''].
  cbn [fst] in *. destruct res as [mds|]; cbn [andb]; [|exact IH].
  destruct (r_id r =? 0); cbn [negb map fst app]; [exact IH | f_equal; exact IH].
Qed.

Lemma reset_wf st r : wf_state st -> wf_state (rule_start st r).
Proof. intro H. apply set_rid_wf, set_mvars_wf; [exact H | apply wf_map_nil]. Qed.

Lemma eval_rules_wf X ord ph rules : forall st i, wf_state st -> wf_state (snd (eval_rules X ord st ph i rules)).
Proof.
  induction rules as [|r rest IH]; intros st i Hwf; cbn [eval_rules]; [assumption|].
  destruct (in_phase ph r); [|apply IH, Hwf].
  pose proof (eval_chain_wf X (sub ord i) (rule_links r) (rule_start st r) 0%nat (reset_wf st r Hwf)) as Hw. unfold eval_rule.
  destruct (eval_chain X (sub ord i) (rule_start st r) 0 (rule_links r)) as [res st']. cbn in Hw.
  specialize (IH st' (S i) Hw). destruct (eval_rules X ord st' ph (S i) rest) as [out st'']. exact IH.
Qed.

(* no phantom rule: everything reported fired is a rule of this phase, with a non-zero id, whose
   chain holds in the (well-formed) state it was evaluated in, with exactly the specified data *)
Theorem fired_sound X ord ph rules : ok_oracle ord -> forall st i id mds, wf_state st ->
  In (id, mds) (fst (eval_rules X ord st ph i rules)) ->
  exists r j st0, In r rules /\ r_id r = id /\ id <> 0 /\ in_phase ph r = true /\ wf_state st0
    /\ chain_holds X (sub ord j) st0 0 (rule_links r)
    /\ Permutation mds (spec_chain_data X (sub ord j) st0 0 (rule_links r)).
Proof.
  intro Hord. induction rules as [|r rest IH]; intros st i id mds Hwf; cbn [eval_rules]; [intros []|].
  destruct (in_phase ph r) eqn:Hph.
  - pose proof (reset_wf st r Hwf) as Hwf0.
    pose proof (eval_chain_wf X (sub ord i) (rule_links r) (rule_start st r) 0%nat Hwf0) as Hw.
    pose proof (chain_fires_iff X (sub ord i) (rule_links r) (sub_ok ord i Hord) (rule_start st r) 0%nat Hwf0) as Hf.
    pose proof (chain_matchdata_exact X (sub ord i) (rule_links r) (sub_ok ord i Hord) (rule_start st r) 0%nat) as Hm.
    unfold eval_rule. destruct (eval_chain X (sub ord i) (rule_start st r) 0 (rule_links r)) as [res st'] eqn:Er. cbn [fst snd] in Hw, Hf.
    specialize (IH st' (S i) id mds Hw). destruct (eval_rules X ord st' ph (S i) rest) as [out st''].
    cbn [fst] in *. intro Hin.
    assert (Hrest : In (id, mds) out -> exists r0 j st0, In r0 (r :: rest) /\ r_id r0 = id /\ id <> 0 /\ in_phase ph r0 = true
              /\ wf_state st0 /\ chain_holds X (sub ord j) st0 0 (rule_links r0)
              /\ Permutation mds (spec_chain_data X (sub ord j) st0 0 (rule_links r0))).
    { intro H. destruct (IH H) as [r0 [j [st0 [H1 H2]]]]. exists r0, j, st0. split; [right; assumption | assumption]. }
    destruct res as [m|]; [|auto]. destruct (r_id r =? 0) eqn:Eid; [auto|].
    destruct Hin as [Heq|Hin]; [|auto]. inversion Heq; subst. clear Hrest IH.
    exists r, i, (rule_start st r). split; [left; reflexivity|]. split; [reflexivity|]. split; [apply N.eqb_neq, Eid|].
    split; [exact Hph|]. split; [exact Hwf0|]. split; [apply Hf; discriminate | eapply Hm; [exact Hwf0 | reflexivity]].
  - intro Hin. destruct (IH st (S i) id mds Hwf Hin) as [r0 [j [st0 [H1 H2]]]].
    exists r0, j, st0. split; [right; assumption | assumption].
Qed.

(* SecRuleRemoveById keeps the configuration order of the remaining rules *)
Lemma subseq_refl {A} (l : list A) : subseq l l.
Proof. induction l; constructor; assumption. Qed.

Lemma subseq_trans {A} (b c : list A) : subseq b c -> forall a, subseq a b -> subseq a c.
Proof.
  induction 1 as [|x b c Hbc IH|x b c Hbc IH]; intros a Hab.
  - exact Hab.
  - inversion Hab; subst; [apply ss_take | apply ss_skip]; apply IH; assumption.
  - apply ss_skip, IH, Hab.
Qed.

Lemma filter_subseq {A} (f : A -> bool) l : subseq (filter f l) l.
Proof. induction l as [|x l IH]; cbn; [constructor|]. destruct (f x); constructor; exact IH. Qed.

Lemma delete_by_id_subseq id rules : subseq (delete_by_id id rules) rules.
Proof.
  induction rules as [|r rest IH]; cbn; [constructor|].
  destruct (r_id r =? id); [apply ss_skip, subseq_refl | apply ss_take, IH].
Qed.

Theorem remove_rules_subseq rms : forall rules, subseq (remove_rules rms rules) rules.
Proof.
  unfold remove_rules. induction rms as [|rm r IH]; intro rules; cbn [fold_left]; [apply subseq_refl|].
  eapply subseq_trans; [|apply IH]. destruct rm; cbn [apply_removal]; [apply delete_by_id_subseq | apply filter_subseq].
Qed.

(* a removed id is gone (ids being unique), every other rule stays *)
Lemma delete_by_id_other id rules r : r_id r <> id -> (In r (delete_by_id id rules) <-> In r rules).
Proof.
  intro Hne. induction rules as [|x rest IH]; cbn; [tauto|].
  destruct (r_id x =? id) eqn:E.
  - apply N.eqb_eq in E. split; [auto|]. intros [->|H]; [contradiction | exact H].
  - cbn. rewrite IH. tauto.
Qed.

(* ARGS_COMBINED_SIZE: the sum of |original name| + |value| over the arguments of the query string
   and of the body AS SENT - whatever the names are (any bytes: invalid UTF-8, letters whose
   lower-case form has another length) and however the maps group them *)
Definition args_size (l : list entry) : N := fold_right N.add 0 (map entry_size l).

Lemma sum_perm (a b : list N) : Permutation a b -> fold_right N.add 0 a = fold_right N.add 0 b.
Proof. induction 1; cbn; try lia. Qed.

Lemma maps_size_of_lists g p : maps_size [map_of_list g; map_of_list p] = args_size (g ++ p).
Proof.
  unfold maps_size, args_size. apply sum_perm, Permutation_map. cbn [flat_map]. rewrite app_nil_r.
  apply Permutation_app; apply map_of_list_entries.
Qed.

Definition st_args (st : state) (g p : list entry) : Prop := s_get st = map_of_list g /\ s_post st = map_of_list p.

Theorem size_of_request X ord st g p : st_args st g p -> rt_excs st VArgsCombinedSize = [] ->
  get_field X ord st (with_rt st (compile_target X (mk_rtarget false VArgsCombinedSize SelAll [])))
  = [(VArgsCombinedSize, [], itoa (args_size (g ++ p)))].
Proof.
  intros [Hg Hp] Hrt.
  unfold get_field, with_rt, compile_target, field_matches, collection. cbn [c_count c_var c_keystr c_keyrx c_excs rt_var rt_sel rt_count rt_negs
    args_family var_shape sel_rx sel_text key_lower lower_ascii map is_empty find_all get_map].
  rewrite Hrt, Hg, Hp, maps_size_of_lists. reflexivity.
Qed.

(* ------------------------------------------------------------------------------------ *)
(* the known finding F24b and the repaired F24a on the model                             *)
(* ------------------------------------------------------------------------------------ *)
Definition q_foo : request := mk_request [(str "Foo"%string, str "1"%string)] [] [] [] (str "/?Foo=1"%string) (str "GET"%string) (str "Foo=1"%string).

(* ARGS:/^Foo/ never selects the argument Foo although the pattern as written matches the name *)
Lemma regex_key_case_refuted :
  exists (q : request) (t : rtarget) (p : rxpat) (key v : bytes),
    In (key, v) (q_get q) /\ rt_var t = VArgs /\ rt_sel t = SelRx p /\ rt_negs t = [] /\
    rxm csem p key = true /\ get_field csem ord_id (build1 q) (compile_target csem t) = [].
Proof.
  exists q_foo, (mk_rtarget false VArgs (SelRx (RxLit true false (str "Foo"%string))) []),
         (RxLit true false (str "Foo"%string)), (str "Foo"%string), (str "1"%string).
  repeat split; try reflexivity. left; reflexivity.
Qed.

(* ... and the same regex as an exclusion never removes it *)
Lemma regex_excl_case_refuted :
  exists (q : request) (t : rtarget) (p : rxpat) (key v : bytes),
    In (key, v) (q_get q) /\ rt_var t = VArgs /\ rt_sel t = SelAll /\ rt_negs t = [SelRx p] /\
    rxm csem p key = true /\ In (VArgs, key, v) (get_field csem ord_id (build1 q) (compile_target csem t)).
Proof.
  exists q_foo, (mk_rtarget false VArgs SelAll [SelRx (RxLit true false (str "Foo"%string))]),
         (RxLit true false (str "Foo"%string)), (str "Foo"%string), (str "1"%string).
  repeat split; try reflexivity; left; reflexivity.
Qed.

(* F24a (repaired by 1583cb7): ARGS_NAMES:Foo selects the argument Foo *)
Example names_key_case_holds :
  get_field csem ord_id (build1 q_foo) (compile_target csem (mk_rtarget false VArgsNames (SelStr (str "Foo"%string)) []))
  = [(VArgsNames, str "Foo"%string, str "Foo"%string)].
Proof. reflexivity. Qed.

(* F51 (repaired by 45c27b9).  Before the repair the SOURCE TEXT of a regex key of a variable outside
   the ARGS family was lower-cased as a whole, which turned \D into \d (likewise \S, \W, \B, \A, \P):
   REQUEST_HEADERS:/^\D+$/ selected the header "123" and missed "X-Id".  lowerRegexSource now keeps
   escape sequences: the folded pattern applied to the folded key decides what the pattern as
   written decides on the key (class patterns do not look at letter case). *)
Definition q_hdr_xid : request :=
  mk_request [] [] [(str "X-Id"%string, str "v1"%string); (str "123"%string, str "v2"%string)] []
             (str "/"%string) (str "GET"%string) [].

Lemma digit_lower c : in_rng 48 57 (ascii_lower c) = in_rng 48 57 c.
Proof.
  unfold ascii_lower, in_rng. destruct ((65 <=? c) && (c <=? 90)) eqn:E; [|reflexivity].
  apply andb_true_iff in E as [E1 E2]. apply N.leb_le in E1, E2.
  replace (c + 32 <=? 57) with false by (symmetry; apply N.leb_gt; lia).
  replace (c <=? 57) with false by (symmetry; apply N.leb_gt; lia).
  rewrite !andb_false_r. reflexivity.
Qed.

Lemma forallb_lower (f : N -> bool) k : (forall c, f (ascii_lower c) = f c) ->
  forallb f (key_lower k) = forallb f k.
Proof.
  intro H. unfold key_lower, lower_ascii. induction k as [|c r IH]; cbn; [reflexivity|]. rewrite H, IH. reflexivity.
Qed.

Lemma space_lower c : rx_space (ascii_lower c) = rx_space c.
Proof.
  unfold ascii_lower, rx_space. destruct ((65 <=? c) && (c <=? 90)) eqn:E; [|reflexivity].
  apply andb_true_iff in E as [E1 E2]. apply N.leb_le in E1, E2.
  repeat match goal with |- context [?a =? ?b] => replace (a =? b) with false by (symmetry; apply N.eqb_neq; lia) end.
  reflexivity.
Qed.

Theorem class_key_fold_exact p k : p = RxNonDigits \/ p = RxDigits \/ p = RxNonSpace ->
  rxm csem (rxlow csem p) (key_lower k) = rxm csem p k.
Proof.
  intros [-> | [-> | ->]]; cbn [rxm rxlow csem rx_small_low rx_small]; rewrite key_lower_nil_iff; f_equal;
    apply forallb_lower; intro c; rewrite ?digit_lower, ?space_lower; reflexivity.
Qed.

(* the old witness on the repaired code: X-Id is selected, 123 is not; as an exclusion it removes X-Id only *)
Example regex_key_escape_repaired :
  get_field csem ord_id (build1 q_hdr_xid) (compile_target csem (mk_rtarget false VReqHeaders (SelRx RxNonDigits) []))
  = [(VReqHeaders, str "X-Id"%string, str "v1"%string)]
  /\ get_field csem ord_id (build1 q_hdr_xid) (compile_target csem (mk_rtarget false VReqHeaders SelAll [SelRx RxNonDigits]))
  = [(VReqHeaders, str "123"%string, str "v2"%string)].
Proof. split; reflexivity. Qed.

(* a later target of the SAME link reads the earlier targets' last match:
   SecRule ARGS_GET|MATCHED_VAR "@streq x" on ?a=x reports two matched data *)
Example same_link_matched_var :
  link_matches csem ord_id
    (build1 (mk_request [(str "a"%string, str "x"%string)] [] [] [] (str "/?a=x"%string) (str "GET"%string) (str "a=x"%string)))
    (mk_link [TPos false VArgsGet SelAll; TPos false VMatchedVar SelAll] (LRule false (mk_op OpStreq (str "x"%string))) [] false)
  = [(VArgsGet, str "a"%string, str "x"%string); (VMatchedVar, [], str "x"%string)].
Proof. reflexivity. Qed.
