(* Transform.v — byte-exact executable models of Coraza's transformations
   (/repo/internal/transformations/*.go).  Every Go loop is written as structural recursion
   over the unread suffix; every result is (output bytes, changed flag, error bit) exactly as
   the Go function returns (string, bool, error).  Proofs are in TransformProofs.v. *)
From Verif Require Import Base Utf8.
Open Scope N_scope.

Record tres := mk_tres { t_out : bytes; t_changed : bool; t_err : bool }.
Definition ok_res (o : bytes) (c : bool) : tres := mk_tres o c false.

(* ---- character classes (internal/strings.ValidHex, X2c) ---- *)
Definition valid_hex (x : N) : bool :=
  in_rng 48 57 x || in_rng 97 102 x || in_rng 65 70 x.
(* X2c digit: uint8 arithmetic, (x & 0xdf) - 'A' + 10 for x >= 'A', else x - '0' *)
Definition x2c_digit (x : N) : N :=
  if 65 <=? x then ((N.land x 223) + 256 - 65 + 10) mod 256 else (x + 256 - 48) mod 256.
Definition x2c (a b : N) : N := (x2c_digit a * 16 + x2c_digit b) mod 256.

(* ---- none / length ---- *)
Definition t_none (s : bytes) : tres := ok_res s false.
Definition t_length (s : bytes) : tres := ok_res (itoa (N.of_nat (length s))) true.

(* ---- lowercase / uppercase: modelled on all-ASCII input (Go's strings.ToLower fast path);
        non-ASCII input goes through Go's unicode tables (oracle) and is outside the model ---- *)
Definition t_lowercase (s : bytes) : tres :=
  let o := map ascii_lower s in ok_res o (negb (bytes_eqb s o)).
Definition t_uppercase (s : bytes) : tres :=
  let o := map ascii_upper s in ok_res o (negb (bytes_eqb s o)).

(* ---- removeNulls / replaceNulls ---- *)
Definition t_remove_nulls (s : bytes) : tres :=
  let o := filter (fun b => negb (b =? 0)) s in
  ok_res o (negb (Nat.eqb (length s) (length o))).
Definition t_replace_nulls (s : bytes) : tres :=
  let o := map (fun b => if b =? 0 then 32 else b) s in
  ok_res o (negb (bytes_eqb s o)).

(* ---- trim family: cutset " \t\n\r\f\v" ---- *)
Definition is_trim_space (b : N) : bool :=
  (b =? 32) || (b =? 9) || (b =? 10) || (b =? 13) || (b =? 12) || (b =? 11).
Fixpoint drop_while (f : N -> bool) (s : bytes) : bytes :=
  match s with
  | [] => []
  | b :: r => if f b then drop_while f r else s
  end.
Definition trim_left_b (s : bytes) : bytes := drop_while is_trim_space s.
Definition trim_right_b (s : bytes) : bytes := rev (drop_while is_trim_space (rev s)).
Definition len_changed (s o : bytes) : bool := negb (Nat.eqb (length s) (length o)).
Definition t_trim_left (s : bytes) : tres := let o := trim_left_b s in ok_res o (len_changed s o).
Definition t_trim_right (s : bytes) : tres := let o := trim_right_b s in ok_res o (len_changed s o).
Definition t_trim (s : bytes) : tres := let o := trim_right_b (trim_left_b s) in ok_res o (len_changed s o).

(* ---- hexEncode / hexDecode (encoding/hex) ---- *)
Definition hex_digit (n : N) : N := if n <? 10 then 48 + n else 87 + n.
Fixpoint hex_encode_b (s : bytes) : bytes :=
  match s with
  | [] => []
  | b :: r => hex_digit (b / 16) :: hex_digit (b mod 16) :: hex_encode_b r
  end.
Definition t_hex_encode (s : bytes) : tres := ok_res (hex_encode_b s) true.

Definition from_hex_char (c : N) : option N :=
  if in_rng 48 57 c then Some (c - 48)
  else if in_rng 97 102 c then Some (c - 87)
  else if in_rng 65 70 c then Some (c - 55)
  else None.
(* hex.DecodeString: error on odd length or a bad digit; on error the transformation returns "" *)
Fixpoint hex_decode_b (s : bytes) : option bytes :=
  match s with
  | [] => Some []
  | [_] => None
  | a :: b :: r =>
    match from_hex_char a, from_hex_char b, hex_decode_b r with
    | Some x, Some y, Some o => Some (x * 16 + y :: o)
    | _, _, _ => None
    end
  end.
Definition t_hex_decode (s : bytes) : tres :=
  match hex_decode_b s with
  | Some o => ok_res o true
  | None => mk_tres [] false true
  end.

(* ---- base64Encode (StdEncoding, padded) ---- *)
Definition b64_char (n : N) : N :=
  if n <? 26 then 65 + n else if n <? 52 then 71 + n else if n <? 62 then n - 4
  else if n =? 62 then 43 else 47.
Fixpoint base64_encode_b (s : bytes) : bytes :=
  match s with
  | [] => []
  | [a] => [b64_char (a / 4); b64_char ((a mod 4) * 16); 61; 61]
  | [a; b] => [b64_char (a / 4); b64_char ((a mod 4) * 16 + b / 16); b64_char ((b mod 16) * 4); 61]
  | a :: b :: c :: r =>
    b64_char (a / 4) :: b64_char ((a mod 4) * 16 + b / 16)
      :: b64_char ((b mod 16) * 4 + c / 64) :: b64_char (c mod 64) :: base64_encode_b r
  end.
Definition t_base64_encode (s : bytes) : tres := ok_res (base64_encode_b s) true.

(* ---- base64Decode / base64DecodeExt (doBase64decode) ---- *)
(* base64DecMap: 127 = invalid, 64 = '=' *)
Definition b64_dec (c : N) : N :=
  if in_rng 65 90 c then c - 65
  else if in_rng 97 122 c then c - 71
  else if in_rng 48 57 c then c + 4
  else if c =? 43 then 62 else if c =? 47 then 63 else if c =? 61 then 64 else 127.
(* unicode.IsSpace on rune(byte): latin-1 *)
Definition is_space_latin1 (c : N) : bool := in_rng 9 13 c || (c =? 32) || (c =? 133) || (c =? 160).

(* state: n (0..3), x (accumulated 6-bit groups); output accumulated in order *)
Fixpoint b64_loop (ext : bool) (s : bytes) (n x : N) : bytes * N * N :=
  match s with
  | [] => ([], n, x)
  | c :: r =>
    if ext && (is_space_latin1 c || (c =? 46)) then b64_loop ext r n x
    else if (c =? 13) || (c =? 10) then b64_loop ext r n x
    else if (c =? 61) || (c =? 32) then ([], n, x)
    else
      let c' := if ext then (if c =? 45 then 43 else if c =? 95 then 47 else c) else c in
      let d := if c' <=? 127 then b64_dec c' else 127 in
      if d =? 127 then (if ext then b64_loop ext r n x else ([], n, x))
      else
        let x' := x * 64 + (d mod 64) in
        if n =? 3 then
          let '(o, n2, x2) := b64_loop ext r 0 0 in
          ((x' / 65536) mod 256 :: (x' / 256) mod 256 :: x' mod 256 :: o, n2, x2)
        else b64_loop ext r (n + 1) x'
  end.
Definition base64_decode_b (ext : bool) (s : bytes) : bytes :=
  let '(o, n, x) := b64_loop ext s 0 0 in
  o ++ (if n =? 2 then [((x * 4096) / 65536) mod 256]
        else if n =? 3 then [((x * 64) / 65536) mod 256; ((x * 64) / 256) mod 256]
        else []).
Definition t_base64_decode (s : bytes) : tres := ok_res (base64_decode_b false s) true.
Definition t_base64_decode_ext (s : bytes) : tres := ok_res (base64_decode_b true s) true.

(* ---- urlDecode ---- *)
Fixpoint url_decode_b (s : bytes) : bytes :=
  match s with
  | [] => []
  | c :: r =>
    if c =? 37 then
      match r with
      | c1 :: c2 :: r2 =>
        if valid_hex c1 && valid_hex c2 then x2c c1 c2 :: url_decode_b r2
        else c :: url_decode_b r
      | _ => c :: url_decode_b r
      end
    else if c =? 43 then 32 :: url_decode_b r
    else c :: url_decode_b r
  end.
Definition has_pct_or_plus (s : bytes) : bool := existsb (fun c => (c =? 37) || (c =? 43)) s.
Definition t_url_decode (s : bytes) : tres :=
  if has_pct_or_plus s then ok_res (url_decode_b s) true else ok_res s false.

(* ---- urlEncode ---- *)
Definition url_safe (c : N) : bool := (c =? 42) || in_rng 48 57 c || in_rng 65 90 c || in_rng 97 122 c.
Fixpoint url_encode_b (s : bytes) : bytes * bool :=
  match s with
  | [] => ([], false)
  | c :: r =>
    let '(o, ch) := url_encode_b r in
    if c =? 32 then (43 :: o, true)
    else if url_safe c then (c :: o, ch)
    else (37 :: hex_digit (c / 16) :: hex_digit (c mod 16) :: o, true)
  end.
Definition t_url_encode (s : bytes) : tres := let '(o, ch) := url_encode_b s in ok_res o ch.

(* ---- cmdLine ---- *)
Definition cmd_needs (c : N) : bool :=
  in_rng 65 90 c || (c =? 34) || (c =? 39) || (c =? 92) || (c =? 94) || (c =? 32) || (c =? 44)
  || (c =? 59) || (c =? 9) || (c =? 13) || (c =? 10) || (c =? 47) || (c =? 40).
(* ret is kept reversed; returns (rev ret, changed) *)
Fixpoint cmd_loop (s : bytes) (ret : bytes) (space changed : bool) : bytes * bool :=
  match s with
  | [] => (ret, changed)
  | a :: r =>
    if (a =? 34) || (a =? 39) || (a =? 92) || (a =? 94) then cmd_loop r ret space true
    else if (a =? 32) || (a =? 44) || (a =? 59) || (a =? 9) || (a =? 13) || (a =? 10) then
      if space then cmd_loop r ret true true
      else cmd_loop r (32 :: ret) true (changed || negb (a =? 32))
    else if (a =? 47) || (a =? 40) then
      if space then cmd_loop r (a :: tl ret) false true
      else cmd_loop r (a :: ret) false changed
    else if in_rng 65 90 a then cmd_loop r (a + 32 :: ret) false true
    else cmd_loop r (a :: ret) false changed
  end.
Fixpoint split_at_first (f : N -> bool) (s : bytes) : option (bytes * bytes) :=
  match s with
  | [] => None
  | c :: r => if f c then Some ([], s)
              else match split_at_first f r with
                   | Some (p, q) => Some (c :: p, q)
                   | None => None
                   end
  end.
Definition t_cmd_line (s : bytes) : tres :=
  match split_at_first cmd_needs s with
  | None => ok_res s false
  | Some (p, q) => let '(ret, ch) := cmd_loop q (rev p) false false in ok_res (rev ret) ch
  end.

(* ---- removeCommentsChar ---- *)
Fixpoint rcc_loop (fuel : nat) (s : bytes) : bytes * bool :=
  match fuel with
  | O => ([], false)
  | S f =>
    match s with
    | [] => ([], false)
    | c :: r =>
      if is_prefix [47; 42] s || is_prefix [42; 47] s then (fst (rcc_loop f (skipn 2 s)), true)
      else if is_prefix [60; 33; 45; 45] s then (fst (rcc_loop f (skipn 4 s)), true)
      else if is_prefix [45; 45; 62] s then (fst (rcc_loop f (skipn 3 s)), true)
      else if is_prefix [45; 45] s then (fst (rcc_loop f (skipn 2 s)), true)
      else if c =? 35 then (fst (rcc_loop f r), true)
      else let '(o, ch) := rcc_loop f r in (c :: o, ch)
    end
  end.
Definition t_remove_comments_char (s : bytes) : tres :=
  let '(o, ch) := rcc_loop (S (length s)) s in ok_res o ch.

(* ---- replaceComments ---- *)
Fixpoint rpc_loop (fuel : nat) (s : bytes) (incomment : bool) : bytes * bool :=
  match fuel with
  | O => ([], false)
  | S f =>
    match s with
    | [] => (if incomment then [32] else [], false)
    | c :: r =>
      if incomment then
        if is_prefix [42; 47] s then let '(o, ch) := rpc_loop f (skipn 2 s) false in (32 :: o, ch)
        else rpc_loop f r true
      else
        if is_prefix [47; 42] s then (fst (rpc_loop f (skipn 2 s) true), true)
        else let '(o, ch) := rpc_loop f r false in (c :: o, ch)
    end
  end.
Definition t_replace_comments (s : bytes) : tres :=
  let '(o, ch) := rpc_loop (S (length s)) s false in ok_res o ch.

(* ---- escapeSeqDecode ---- *)
Definition is_odigit (c : N) : bool := in_rng 48 55 c.
Definition esc_simple (c : N) : option N :=
  if c =? 97 then Some 7 else if c =? 98 then Some 8 else if c =? 102 then Some 12
  else if c =? 110 then Some 10 else if c =? 114 then Some 13 else if c =? 116 then Some 9
  else if c =? 118 then Some 11 else if c =? 92 then Some 92 else if c =? 63 then Some 63
  else if c =? 39 then Some 39 else if c =? 34 then Some 34 else None.
(* strconv.ParseUint(digits, 8, 8): value if it fits in 8 bits, else 255 (range error, max kept) *)
Definition parse_oct8 (ds : bytes) : N :=
  let v := fold_left (fun acc d => acc * 8 + (d - 48)) ds 0 in if 255 <? v then 255 else v.
(* one escape: c1 is the byte after the backslash, r1 what follows; returns the decoded byte
   and the unread rest (always a suffix of r1) *)
Definition esd_step (c1 : N) (r1 : bytes) : N * bytes :=
  match esc_simple c1 with
  | Some c => (c, r1)
  | None =>
    match (if (c1 =? 120) || (c1 =? 88) then
             match r1 with
             | h1 :: h2 :: r2 => if valid_hex h1 && valid_hex h2 then Some (x2c h1 h2, r2) else None
             | _ => None
             end
           else None) with
    | Some p => p
    | None =>
      if is_odigit c1 then
        match r1 with
        | d2 :: r2 =>
          if is_odigit d2 then
            match r2 with
            | d3 :: r3 => if is_odigit d3 then (parse_oct8 [c1; d2; d3], r3) else (parse_oct8 [c1; d2], r2)
            | [] => (parse_oct8 [c1; d2], r2)
            end
          else (parse_oct8 [c1], r1)
        | [] => (parse_oct8 [c1], r1)
        end
      else (c1, r1)
    end
  end.
Fixpoint esd_loop (fuel : nat) (s : bytes) : bytes * bool :=
  match fuel with
  | O => ([], false)
  | S f =>
    match s with
    | [] => ([], false)
    | c :: r =>
      match r with
      | c1 :: r1 =>
        if c =? 92 then let '(v, rest) := esd_step c1 r1 in (v :: fst (esd_loop f rest), true)
        else let '(o, ch) := esd_loop f r in (c :: o, ch)
      | [] => ([c], false)
      end
    end
  end.
Definition has_backslash (s : bytes) : bool := existsb (fun c => c =? 92) s.
Definition t_escape_seq_decode (s : bytes) : tres :=
  if has_backslash s then let '(o, ch) := esd_loop (S (length s)) s in ok_res o ch
  else ok_res s false.

(* ---- compressWhitespace (rune-wise) ---- *)
Definition is_latin_space (r : N) : bool :=
  (r =? 9) || (r =? 10) || (r =? 11) || (r =? 12) || (r =? 13) || (r =? 32) || (r =? 133) || (r =? 160).
Fixpoint cw_loop (fuel : nat) (s : bytes) (inws : bool) : bytes * bool :=
  match fuel with
  | O => ([], false)
  | S f =>
    match s with
    | [] => ([], false)
    | b0 :: _ =>
      let '(r, size) := decode_rune s in
      if is_latin_space r || (b0 =? 160) then
        if inws then let '(o, _) := cw_loop f (skipn size s) true in (o, true)
        else let '(o, ch) := cw_loop f (skipn size s) true in (32 :: o, ch || negb (r =? 32))
      else let '(o, ch) := cw_loop f (skipn size s) false in (firstn size s ++ o, ch)
    end
  end.
(* the outer scan of compressWhitespace: is there a rune that is a latin space, or a rune
   whose first byte is the raw 0xA0 *)
Fixpoint cw_needs (fuel : nat) (s : bytes) : bool :=
  match fuel with
  | O => false
  | S f =>
    match s with
    | [] => false
    | b0 :: _ =>
      let '(r, size) := decode_rune s in
      if is_latin_space r || (b0 =? 160) then true else cw_needs f (skipn size s)
    end
  end.
Definition t_compress_whitespace (s : bytes) : tres :=
  if cw_needs (S (length s)) s then let '(o, ch) := cw_loop (S (length s)) s false in ok_res o ch
  else ok_res s false.

(* ---- removeWhitespace (strings.Map over runes; invalid bytes become U+FFFD) ---- *)
Fixpoint rw_loop (fuel : nat) (s : bytes) : bytes :=
  match fuel with
  | O => []
  | S f =>
    match s with
    | [] => []
    | _ :: _ =>
      let '(r, size) := decode_rune s in
      if is_unicode_space r then rw_loop f (skipn size s)
      else encode_rune r ++ rw_loop f (skipn size s)
    end
  end.
Definition t_remove_whitespace (s : bytes) : tres :=
  let o := rw_loop (S (length s)) s in ok_res o (negb (bytes_eqb o s)).

(* ---- utf8toUnicode ---- *)
Definition hex_lower_digits (fuel : nat) (n : N) : bytes :=
  (fix go (fuel : nat) (n : N) (acc : bytes) :=
     match fuel with
     | O => acc
     | S f => let acc' := hex_digit (n mod 16) :: acc in
              if n / 16 =? 0 then acc' else go f (n / 16) acc'
     end) fuel n [].
Definition u_escape (c : N) : bytes :=
  let ds := hex_lower_digits 8 c in
  [37; 117] ++ repeat 48 (4 - length ds) ++ ds.
Fixpoint u2u_loop (fuel : nat) (s : bytes) : bytes :=
  match fuel with
  | O => []
  | S f =>
    match s with
    | [] => []
    | _ :: _ =>
      let '(r, size) := decode_rune s in
      (if r <? 128 then [r] else u_escape r) ++ u2u_loop f (skipn size s)
    end
  end.
Definition t_utf8_to_unicode (s : bytes) : tres :=
  if is_ascii s then ok_res s false else ok_res (u2u_loop (S (length s)) s) true.

(* ---- jsDecode ---- *)
Definition js_simple (c : N) : N :=
  if c =? 97 then 7 else if c =? 98 then 8 else if c =? 102 then 12 else if c =? 110 then 10
  else if c =? 114 then 13 else if c =? 116 then 9 else if c =? 118 then 11 else c.
(* one escape: c1 is the byte after the backslash, r1 what follows; returns decoded byte and rest.
   The octal case is modelled AS CODED: the digit buffer is filled starting at the backslash itself
   (buf[j] = input[i+j]), so strconv.ParseInt always fails and the decoded byte is 0; the escape
   consumes the backslash, the first digit and - when present - ONE more byte whatever it is. *)
Definition js_step (c1 : N) (r1 : bytes) : N * bytes :=
  match (if c1 =? 117 then
           match r1 with
           | h1 :: h2 :: h3 :: h4 :: r5 =>
             if valid_hex h1 && valid_hex h2 && valid_hex h3 && valid_hex h4 then
               let v := x2c h3 h4 in
               Some (if (0 <? v) && (v <? 95) && ((h1 =? 102) || (h1 =? 70)) && ((h2 =? 102) || (h2 =? 70))
                     then (v + 32) mod 256 else v, r5)
             else None
           | _ => None
           end
         else None) with
  | Some p => p
  | None =>
    match (if c1 =? 120 then
             match r1 with
             | h1 :: h2 :: r3 => if valid_hex h1 && valid_hex h2 then Some (x2c h1 h2, r3) else None
             | _ => None
             end
           else None) with
    | Some p => p
    | None => if is_odigit c1 then (0, tl r1) else (js_simple c1, r1)
    end
  end.
Fixpoint js_loop (fuel : nat) (s : bytes) : bytes * bool :=
  match fuel with
  | O => ([], false)
  | S f =>
    match s with
    | [] => ([], false)
    | c :: r =>
      match r with
      | c1 :: r1 =>
        if c =? 92 then let '(v, rest) := js_step c1 r1 in (v :: fst (js_loop f rest), true)
        else let '(o, ch) := js_loop f r in (c :: o, ch)
      | [] => ([c], false)
      end
    end
  end.
Definition t_js_decode (s : bytes) : tres :=
  if has_backslash s then let '(o, ch) := js_loop (S (length s)) s in ok_res o ch
  else ok_res s false.

(* ---- cssDecode ---- *)
Definition is_c_space (c : N) : bool :=
  (c =? 32) || (c =? 12) || (c =? 10) || (c =? 9) || (c =? 13) || (c =? 11).
Fixpoint take_hex (n : nat) (s : bytes) : bytes * bytes :=
  match n with
  | O => ([], s)
  | S n' => match s with
            | h :: r => if valid_hex h then let '(ds, rest) := take_hex n' r in (h :: ds, rest) else ([], s)
            | [] => ([], [])
            end
  end.
Definition css_code (ds : bytes) : N :=
  let code := fold_left (fun acc d => acc * 16 + x2c_digit d) ds 0 in
  let code := if code =? 0 then rune_error else code in
  if in_rng 65281 65374 code then code - 65248 else code.
Fixpoint css_loop (fuel : nat) (s : bytes) : bytes :=
  match fuel with
  | O => []
  | S f =>
    match s with
    | [] => []
    | c :: r =>
      if c =? 92 then
        match r with
        | [] => []
        | c1 :: r1 =>
          let '(ds, rest) := take_hex 6 r in
          match ds with
          | _ :: _ =>
            encode_rune (css_code ds)
              ++ css_loop f (match rest with x :: rest' => if is_c_space x then rest' else rest | [] => [] end)
          | [] => if c1 =? 10 then css_loop f r1 else c1 :: css_loop f r1
          end
        end
      else c :: css_loop f r
    end
  end.
Definition t_css_decode (s : bytes) : tres :=
  if has_backslash s then ok_res (css_loop (S (length s)) s) true else ok_res s false.

(* ---- removeComments (in-place scan over the input padded with one NUL) ---- *)
Fixpoint rc_loop (fuel : nat) (s : bytes) (incomment : bool) : bytes * bool :=
  match fuel with
  | O => ([], false)
  | S f =>
    match s with
    | [] => if incomment then ([32], true) else ([], false)
    | c :: r =>
      if incomment then
        if is_prefix [42; 47] s then
          match skipn 2 s with
          | [] => ([0], true)                      (* the pad byte after the input is copied *)
          | x :: rest => (x :: fst (rc_loop f rest false), true)
          end
        else if is_prefix [45; 45; 62] s then
          match skipn 3 s with
          | [] => ([0], true)
          | x :: rest => (x :: fst (rc_loop f rest false), true)
          end
        else (fst (rc_loop f r true), true)
      else
        if is_prefix [47; 42] s then (fst (rc_loop f (skipn 2 s) true), true)
        else if is_prefix [60; 33; 45; 45] s then (fst (rc_loop f (skipn 4 s) true), true)
        else if is_prefix [45; 45] s then ([], true)
        else if c =? 35 then ([], true)
        else let '(o, ch) := rc_loop f r false in (c :: o, ch)
    end
  end.
Definition t_remove_comments (s : bytes) : tres :=
  let '(o, ch) := rc_loop (S (length s)) s false in ok_res o ch.

(* ---- urlDecodeUni: parametric in the best-fit table (regenerated from
        unicode_bestfit.go by the translator: coq/gen/FactsC14.v) ---- *)
Fixpoint udu_loop (tbl : N -> option N) (fuel : nat) (s : bytes) : bytes * bool :=
  match fuel with
  | O => ([], false)
  | S f =>
    match s with
    | [] => ([], false)
    | c :: r =>
      if c =? 43 then (32 :: fst (udu_loop tbl f r), true)
      else if c =? 37 then
        match r with
        | u :: r1 =>
          if (u =? 117) || (u =? 85) then
            match (match r1 with
                   | h2 :: h3 :: h4 :: h5 :: r5 =>
                     match from_hex_char h2, from_hex_char h3, from_hex_char h4, from_hex_char h5 with
                     | Some v2, Some v3, Some v4, Some v5 =>
                       let code := v2 * 4096 + v3 * 256 + v4 * 16 + v5 in
                       let low := v4 * 16 + v5 in
                       let low := if (0 <? low) && (low <? 95) && (v2 =? 15) && (v3 =? 15) then low + 32 else low in
                       Some (match tbl code with Some b => b | None => low end, r5)
                     | _, _, _, _ => None
                     end
                   | _ => None
                   end) with
            | Some (b, r5) => (b :: fst (udu_loop tbl f r5), true)
            | None => let '(o, ch) := udu_loop tbl f r1 in (c :: u :: o, ch)
            end
          else
            match (match r with
                   | h1 :: h2 :: r2 =>
                     match from_hex_char h1, from_hex_char h2 with
                     | Some v1, Some v2 => Some (v1 * 16 + v2, r2)
                     | _, _ => None
                     end
                   | _ => None
                   end) with
            | Some (b, r2) => (b :: fst (udu_loop tbl f r2), true)
            | None => let '(o, ch) := udu_loop tbl f r in (c :: o, ch)
            end
        | [] => ([c], false)
        end
      else let '(o, ch) := udu_loop tbl f r in (c :: o, ch)
    end
  end.
Definition t_url_decode_uni (tbl : N -> option N) (s : bytes) : tres :=
  if has_pct_or_plus s then let '(o, ch) := udu_loop tbl (S (length s)) s in ok_res o ch
  else ok_res s false.

Fixpoint assoc_N (l : list (N * N)) (k : N) : option N :=
  match l with
  | [] => None
  | (a, b) :: r => if a =? k then Some b else assoc_N r k
  end.

(* ---- registry: transformation ids used by the correspondence and by Engine ---- *)
Inductive tid :=
  | TNone | TLength | TLowercase | TUppercase | TRemoveNulls | TReplaceNulls | TTrim | TTrimLeft
  | TTrimRight | THexEncode | THexDecode | TBase64Encode | TBase64Decode | TBase64DecodeExt
  | TUrlDecode | TUrlEncode | TCmdLine | TRemoveCommentsChar | TReplaceComments | TEscapeSeqDecode
  | TCompressWhitespace | TRemoveWhitespace | TUtf8ToUnicode | TJsDecode | TCssDecode | TRemoveComments.

Definition apply_t (t : tid) : bytes -> tres :=
  match t with
  | TNone => t_none | TLength => t_length | TLowercase => t_lowercase | TUppercase => t_uppercase
  | TRemoveNulls => t_remove_nulls | TReplaceNulls => t_replace_nulls | TTrim => t_trim
  | TTrimLeft => t_trim_left | TTrimRight => t_trim_right | THexEncode => t_hex_encode
  | THexDecode => t_hex_decode | TBase64Encode => t_base64_encode | TBase64Decode => t_base64_decode
  | TBase64DecodeExt => t_base64_decode_ext | TUrlDecode => t_url_decode | TUrlEncode => t_url_encode
  | TCmdLine => t_cmd_line | TRemoveCommentsChar => t_remove_comments_char
  | TReplaceComments => t_replace_comments | TEscapeSeqDecode => t_escape_seq_decode
  | TCompressWhitespace => t_compress_whitespace | TRemoveWhitespace => t_remove_whitespace
  | TUtf8ToUnicode => t_utf8_to_unicode
  | TJsDecode => t_js_decode | TCssDecode => t_css_decode | TRemoveComments => t_remove_comments
  end.

(* Rule.executeTransformations: a failing step is counted and skipped (the value stays). *)
Fixpoint exec_tfs (ts : list tid) (s : bytes) : bytes * nat :=
  match ts with
  | [] => (s, 0%nat)
  | t :: r => let x := apply_t t s in
              if t_err x then let '(o, n) := exec_tfs r s in (o, S n)
              else exec_tfs r (t_out x)
  end.

(* Rule.executeTransformationsMultimatch: the original value, then every value whose
   transformation reported a change; the running value only advances on a reported change. *)
Fixpoint exec_tfs_multi (ts : list tid) (s : bytes) : list bytes :=
  match ts with
  | [] => []
  | t :: r => let x := apply_t t s in
              if t_err x then exec_tfs_multi r s
              else if t_changed x then t_out x :: exec_tfs_multi r (t_out x)
              else exec_tfs_multi r s
  end.
Definition multimatch_values (ts : list tid) (s : bytes) : list bytes := s :: exec_tfs_multi ts s.
