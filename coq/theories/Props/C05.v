(* Props/C05.v — the property theorems of C05 (transactions are isolated from earlier
   transactions on the same WAF).  The isolation theorems are parametric in the source facts;
   coq/gen/FactsC05.v (regenerated from go/ast on every run) instantiates them with the field
   lists the code has NOW and discharges the three boolean obligations by computation. *)
From Coq Require Import String List.
From Verif Require Import Pool PoolProofs.

(* a recycled object starts from exactly the state of a brand-new one, on everything observable *)
Theorem C05_recycled_equals_fresh : forall src,
  tx_fields_ok src = true -> var_fields_ok src = true -> close_ok src = true ->
  forall (w : waf_defaults) (o : obj) (k : string),
    observable src k = true ->
    new_transaction src w (close src o) k = new_transaction src w brand_new k.
Proof. exact recycled_equals_fresh. Qed.
Print Assumptions C05_recycled_equals_fresh.

(* after ANY history of transactions (created, dirtied arbitrarily, closed) the state a probe
   transaction starts from is that of a fresh WAF *)
Theorem C05_probe_independent_of_history : forall src,
  tx_fields_ok src = true -> var_fields_ok src = true -> close_ok src = true ->
  forall (w : waf_defaults) (hs : list hop) (k : string),
    observable src k = true ->
    probe_start src w (hrun src w hs) k = new_transaction src w brand_new k.
Proof. exact probe_independent_of_history. Qed.
Print Assumptions C05_probe_independent_of_history.

(* no two live transactions are the same object, as long as Close is only called on live ones *)
Theorem C05_no_aliasing_partial : forall src w hs, NoDup (ids (p_live (hrun src w hs))).
Proof. exact live_objects_distinct. Qed.
Print Assumptions C05_no_aliasing_partial.

(* F22 (known finding c05-double-close): a second Close of the same object makes two later
   transactions alias *)
Theorem C05_double_close_refuted : exists src w s id o,
  alias_free s /\
  let s1 := double_close_step src (hstep src w s (HClose id)) id o in
  let s2 := hstep src w (hstep src w s1 HNew) HNew in
  ~ NoDup (ids (p_live s2)).
Proof. exact double_close_refuted. Qed.
Print Assumptions C05_double_close_refuted.
