(* TCacheProofs.v — proofs about TCache.v (property C12). *)
From Coq Require Import String.
From Verif Require Import Base Transform TCache.
From Coq Require Import Arith Lia.
Local Open Scope nat_scope.

(* ------------------------------------------------------------------------------------- *)
(* list helpers                                                                            *)
(* ------------------------------------------------------------------------------------- *)
Lemma tcp_firstn_S {A} (d : A) : forall (l : list A) k, k < length l ->
  firstn (S k) l = firstn k l ++ [nth k l d].
Proof.
  induction l as [|x l IH]; intros k Hk; cbn [length] in Hk; [lia|].
  destruct k as [|k]; [reflexivity|].
  cbn [firstn nth app]. f_equal. rewrite <- IH by lia. reflexivity.
Qed.

Lemma tcp_skipn_cons {A} (d : A) : forall (l : list A) k, k < length l ->
  skipn k l = nth k l d :: skipn (S k) l.
Proof.
  induction l as [|x l IH]; intros k Hk; cbn [length] in Hk; [lia|].
  destruct k as [|k]; [reflexivity|].
  cbn [skipn nth]. rewrite (IH k) by lia. reflexivity.
Qed.

Lemma tcp_skipn_nil_len {A} : forall (l : list A) k, skipn k l = [] -> length l <= k.
Proof.
  induction l as [|x l IH]; intros k H; cbn [length]; [lia|].
  destruct k as [|k]; [discriminate|]. cbn [skipn] in H. apply IH in H. lia.
Qed.

(* ------------------------------------------------------------------------------------- *)
(* heap / slices                                                                           *)
(* ------------------------------------------------------------------------------------- *)
Section Heap.
Variable T : Type.

Lemma tcp_set_arr_length : forall (h : tc_heap T) a arr, length (tc_set_arr T h a arr) = length h.
Proof. induction h as [|y h IH]; intros [|a] arr; cbn [tc_set_arr length]; auto. Qed.

Lemma tcp_set_arr_same : forall (h : tc_heap T) a arr, a < length h -> nth a (tc_set_arr T h a arr) [] = arr.
Proof.
  induction h as [|y h IH]; intros [|a] arr Ha; cbn [length] in Ha; try lia; cbn [tc_set_arr nth]; auto.
  apply IH; lia.
Qed.

Lemma tcp_set_arr_other : forall (h : tc_heap T) a a' arr, a' <> a -> nth a' (tc_set_arr T h a arr) [] = nth a' h [].
Proof.
  induction h as [|y h IH]; intros [|a] [|a'] arr Hne; cbn [tc_set_arr nth]; auto; try congruence.
Qed.

Lemma tcp_set_nth_firstn_le : forall (l : list T) n m x, m <= n -> m <= length l ->
  firstn m (tc_set_nth l n x) = firstn m l.
Proof.
  induction l as [|y l IH]; intros n m x Hmn Hml; cbn [length] in Hml.
  - assert (m = 0) by lia. subst. reflexivity.
  - destruct n as [|n]; [assert (m = 0) by lia; subst; reflexivity|].
    destruct m as [|m]; [reflexivity|]. cbn [tc_set_nth firstn]. f_equal. apply IH; lia.
Qed.

Lemma tcp_set_nth_firstn_S : forall (l : list T) n x, n <= length l ->
  firstn (S n) (tc_set_nth l n x) = firstn n l ++ [x].
Proof.
  induction l as [|y l IH]; intros n x Hn; cbn [length] in Hn.
  - assert (n = 0) by lia. subst. reflexivity.
  - destruct n as [|n]; [reflexivity|]. cbn [tc_set_nth]. change (firstn (S (S n)) (y :: tc_set_nth l n x)) with (y :: firstn (S n) (tc_set_nth l n x)).
    rewrite IH by lia. reflexivity.
Qed.

Lemma tcp_read_length_arr (h : tc_heap T) s : length (tc_read h s) = s_len s -> s_len s <= length (nth (s_arr s) h []).
Proof. unfold tc_read. rewrite firstn_length. lia. Qed.

Lemma tcp_read_pos_valid (h : tc_heap T) s : length (tc_read h s) = s_len s -> 0 < s_len s -> s_arr s < length h.
Proof.
  unfold tc_read. intros H Hp. destruct (Nat.lt_ge_cases (s_arr s) (length h)) as [|Hge]; auto.
  rewrite (nth_overflow h [] Hge) in H. rewrite firstn_nil in H. cbn in H. lia.
Qed.
End Heap.

(* ------------------------------------------------------------------------------------- *)
(* the cache                                                                               *)
(* ------------------------------------------------------------------------------------- *)
Lemma tcp_key_eqb_eq a b : tc_key_eqb a b = true -> a = b.
Proof.
  unfold tc_key_eqb. intro H. repeat (apply andb_true_iff in H; destruct H as [H ?]).
  apply Nat.eqb_eq in H. repeat match goal with H : Nat.eqb _ _ = true |- _ => apply Nat.eqb_eq in H end.
  destruct a, b; cbn in *; congruence.
Qed.

Lemma tcp_find_some k c e : tc_find k c = Some e -> In e c /\ e_key e = k.
Proof.
  induction c as [|x c IH]; cbn [tc_find]; [discriminate|].
  destruct (tc_key_eqb (e_key x) k) eqn:E; intro H.
  - injection H as <-. split; [left; reflexivity | apply tcp_key_eqb_eq; exact E].
  - destruct (IH H) as [H1 H2]. split; [right; exact H1 | exact H2].
Qed.

Lemma tcp_put_in e' c e : In e (tc_put e' c) -> e = e' \/ In e c.
Proof.
  unfold tc_put. intros [H|H]; [left; congruence|]. right. apply filter_In in H. tauto.
Qed.

Section Sound.
Variable T : Type.
Variable tf : T -> bytes -> tres.
Variable sem : nat -> list T.

Notation exec := (tc_exec T tf).
Notation run := (tc_run T tf).

Lemma tcp_run_app a b acc : run (a ++ b) acc = run b (run a acc).
Proof. unfold tc_run. apply fold_left_app. Qed.

Lemma tcp_run_snoc a t acc : run (a ++ [t]) acc = tc_step T tf (run a acc) t.
Proof. rewrite tcp_run_app. reflexivity. Qed.

(* tc_search with the input check returns an entry for this argument's value and one of the
   rule's prefix ids *)
Lemma tcp_search_some : forall n pids a idx c i e,
  tc_search true n pids a idx c = Some (i, e) ->
  i < n /\ In e c /\ k_pid (e_key e) = nth i pids 0 /\ e_in e = a_val a.
Proof.
  induction n as [|n IH]; intros pids a idx c i e H; cbn [tc_search] in H; [discriminate|].
  destruct (tc_find (tc_mkkey a idx (nth n pids 0)) c) as [e0|] eqn:F.
  - cbn [negb orb] in H. destruct (bytes_eqb (e_in e0) (a_val a)) eqn:B.
    + injection H as <- <-. apply tcp_find_some in F as [F1 F2]. apply bytes_eqb_eq in B.
      repeat split; auto. rewrite F2. reflexivity.
    + apply IH in H. intuition lia.
  - apply IH in H. intuition lia.
Qed.

(* ownership of the local errs slice during the fill loop: either the next append allocates,
   or the backing array is valid and no cache entry sees beyond the local length *)
Definition tc_frontier (h : tc_heap T) (c : tc_cache) (es : tc_slice) : Prop :=
  s_cap es <= s_len es \/
  (s_arr es < length h /\ forall e, In e c -> s_arr (e_errs e) = s_arr es -> s_len (e_errs e) <= s_len es).

Lemma tcp_entry_ok_heap_ext (h : tc_heap T) x e :
  tc_entry_ok T tf sem h e -> tc_entry_ok T tf sem (h ++ [x]) e.
Proof.
  intros (H1 & H2 & H3). split; [exact H1|]. split; [|exact H3].
  destruct (Nat.eq_dec (s_len (e_errs e)) 0) as [Z|NZ].
  - unfold tc_read in *. rewrite Z in *. cbn [firstn] in *. exact H2.
  - assert (s_arr (e_errs e) < length h).
    { apply tcp_read_pos_valid; [rewrite H2; symmetry; exact H3 | lia]. }
    unfold tc_read in *. rewrite app_nth1 by assumption. exact H2.
Qed.

Lemma tcp_fill_sound (r : tc_rule T) (a : tc_arg) (idx : nat) :
  tc_rule_wf T sem r ->
  forall rest i v es st,
  rest = skipn i (r_ts r) -> i <= length (r_ts r) ->
  tc_cache_inv T tf sem st ->
  v = fst (exec (firstn i (r_ts r)) (a_val a)) ->
  tc_read (st_heap st) es = snd (exec (firstn i (r_ts r)) (a_val a)) ->
  s_len es = length (snd (exec (firstn i (r_ts r)) (a_val a))) ->
  tc_frontier (st_heap st) (st_cache st) es ->
  forall v' es' st', tc_fill T tf i rest (r_pids r) a idx v es st = (v', es', st') ->
  v' = fst (exec (r_ts r) (a_val a)) /\
  tc_read (st_heap st') es' = snd (exec (r_ts r) (a_val a)) /\
  tc_cache_inv T tf sem st'.
Proof.
  intros [Hlen Hsem]. induction rest as [|t rest IH]; intros i v es st Hrest Hi Hinv Hv Hes Hl Hfr v' es' st' Hfill.
  - cbn [tc_fill] in Hfill. injection Hfill as <- <- <-.
    symmetry in Hrest. apply tcp_skipn_nil_len in Hrest. assert (i = length (r_ts r)) by lia. subst i.
    rewrite firstn_all in *. auto.
  - assert (Hi' : i < length (r_ts r)).
    { destruct (Nat.eq_dec i (length (r_ts r))) as [->|]; [|lia]. rewrite skipn_all in Hrest. discriminate. }
    pose proof (tcp_skipn_cons t (r_ts r) i Hi') as Hsk. rewrite <- Hrest in Hsk. injection Hsk as Ht Hrest'.
    pose proof (tcp_firstn_S t (r_ts r) i Hi') as Hfs. rewrite <- Ht in Hfs.
    (* the uncached run over one more transformation *)
    assert (Hex : exec (firstn (S i) (r_ts r)) (a_val a) =
                  tc_step T tf (exec (firstn i (r_ts r)) (a_val a)) t).
    { rewrite Hfs. unfold tc_exec. apply tcp_run_snoc. }
    set (P := exec (firstn i (r_ts r)) (a_val a)) in *.
    cbn [tc_fill] in Hfill.
    destruct (t_err (tf t v)) eqn:Eerr.
    + (* the transformation fails: errs = append(errs, err) *)
      destruct (tc_append (st_heap st) es t) as [h1 es1] eqn:Eapp.
      assert (Hstep : tc_step T tf P t = (fst P, snd P ++ [t])).
      { unfold tc_step. rewrite <- Hv, Eerr. reflexivity. }
      eapply (IH (S i) v es1 _ Hrest'); [lia| | | | | |exact Hfill]; cbn [st_cache st_heap].
      * (* invariant *)
        unfold tc_append in Eapp. destruct (Nat.ltb (s_len es) (s_cap es)) eqn:Elt.
        -- apply Nat.ltb_lt in Elt. injection Eapp as <- <-.
           destruct Hfr as [Hfr|[Hva Hfr]]; [lia|].
           assert (Hal : s_len es <= length (nth (s_arr es) (st_heap st) [])).
           { apply tcp_read_length_arr. rewrite Hes. symmetry. exact Hl. }
           unfold tc_cache_inv; cbn [st_cache st_heap]; intros e He. apply tcp_put_in in He as [->|He].
           ++ unfold tc_entry_ok. cbn [e_key e_in e_out e_errs tc_mkkey k_pid s_len s_arr].
              rewrite Hsem by exact Hi'. rewrite Hex, Hstep. cbn [fst snd].
              split; [exact Hv|]. split; [|rewrite app_length; cbn [length]; lia].
              unfold tc_read. cbn [s_arr s_len]. rewrite tcp_set_arr_same by exact Hva.
              rewrite tcp_set_nth_firstn_S by exact Hal. unfold tc_read in Hes. rewrite Hes. reflexivity.
           ++ destruct (Hinv e He) as (H1 & H2 & H3). split; [exact H1|]. split; [|exact H3].
              unfold tc_read in *. destruct (Nat.eq_dec (s_arr (e_errs e)) (s_arr es)) as [Ea|Ea].
              ** rewrite Ea. rewrite tcp_set_arr_same by exact Hva.
                 rewrite tcp_set_nth_firstn_le; [rewrite <- Ea; exact H2 | apply Hfr; auto |].
                 rewrite <- Ea. apply (tcp_read_length_arr T (st_heap st) (e_errs e)). unfold tc_read. rewrite H2. symmetry. exact H3.
              ** rewrite tcp_set_arr_other by exact Ea. exact H2.
        -- apply Nat.ltb_ge in Elt. injection Eapp as <- <-.
           unfold tc_cache_inv; cbn [st_cache st_heap]; intros e He. apply tcp_put_in in He as [->|He].
           ++ unfold tc_entry_ok. cbn [e_key e_in e_out e_errs tc_mkkey k_pid s_len s_arr].
              rewrite Hsem by exact Hi'. rewrite Hex, Hstep. cbn [fst snd].
              split; [exact Hv|]. split; [|rewrite app_length; cbn [length]; lia].
              unfold tc_read at 1. cbn [s_arr s_len]. rewrite nth_middle. rewrite Hes.
              rewrite firstn_all2; [reflexivity|]. rewrite app_length. cbn [length]. lia.
           ++ apply tcp_entry_ok_heap_ext. apply Hinv. exact He.
      * rewrite Hex, Hstep. exact Hv.
      * (* read of the new local slice *)
        rewrite Hex, Hstep. cbn [snd].
        unfold tc_append in Eapp. destruct (Nat.ltb (s_len es) (s_cap es)) eqn:Elt.
        -- apply Nat.ltb_lt in Elt. injection Eapp as <- <-.
           destruct Hfr as [Hfr|[Hva Hfr]]; [lia|].
           unfold tc_read. cbn [s_arr s_len]. rewrite tcp_set_arr_same by exact Hva.
           rewrite tcp_set_nth_firstn_S; [unfold tc_read in Hes; rewrite Hes; reflexivity|].
           apply tcp_read_length_arr. rewrite Hes. symmetry. exact Hl.
        -- injection Eapp as <- <-. unfold tc_read at 1. cbn [s_arr s_len]. rewrite nth_middle. rewrite Hes.
           rewrite firstn_all2; [reflexivity|]. rewrite app_length. cbn [length]. lia.
      * rewrite Hex, Hstep. cbn [snd]. rewrite app_length. cbn [length].
        unfold tc_append in Eapp. destruct (Nat.ltb (s_len es) (s_cap es)); injection Eapp as <- <-; cbn [s_len]; lia.
      * (* frontier *)
        unfold tc_append in Eapp. destruct (Nat.ltb (s_len es) (s_cap es)) eqn:Elt.
        -- apply Nat.ltb_lt in Elt. injection Eapp as <- <-.
           destruct Hfr as [Hfr|[Hva Hfr]]; [lia|]. right. cbn [s_arr s_len]. split; [rewrite tcp_set_arr_length; exact Hva|].
           intros e He Ea. apply tcp_put_in in He as [->|He]; [cbn [e_errs s_len]; lia|].
           specialize (Hfr e He Ea). lia.
        -- injection Eapp as <- <-. right. cbn [s_arr s_len]. split; [rewrite app_length; cbn [length]; lia|].
           intros e He Ea. apply tcp_put_in in He as [->|He]; [cbn [e_errs s_len]; lia|].
           destruct (Nat.eq_dec (s_len (e_errs e)) 0) as [Z|NZ]; [lia|]. exfalso.
           destruct (Hinv e He) as (H1 & H2 & H3).
           assert (s_arr (e_errs e) < length (st_heap st)).
           { apply tcp_read_pos_valid; [rewrite H2; symmetry; exact H3 | lia]. }
           lia.
    + (* the transformation succeeds: value = v, errs unchanged *)
      assert (Hstep : tc_step T tf P t = (t_out (tf t v), snd P)).
      { unfold tc_step. rewrite <- Hv, Eerr. reflexivity. }
      eapply (IH (S i) (t_out (tf t v)) es _ Hrest'); [lia| | | | | |exact Hfill]; cbn [st_cache st_heap].
      * unfold tc_cache_inv; cbn [st_cache st_heap]; intros e He. apply tcp_put_in in He as [->|He]; [|apply Hinv; exact He].
        unfold tc_entry_ok. cbn [e_key e_in e_out e_errs tc_mkkey k_pid].
        rewrite Hsem by exact Hi'. rewrite Hex, Hstep. cbn [fst snd]. auto.
      * rewrite Hex, Hstep. reflexivity.
      * rewrite Hex, Hstep. exact Hes.
      * rewrite Hex, Hstep. exact Hl.
      * destruct Hfr as [Hfr|[Hva Hfr]]; [left; exact Hfr|]. right. split; [exact Hva|].
        intros e He Ea. apply tcp_put_in in He as [->|He]; [cbn [e_errs]; lia|]. apply Hfr; auto.
Qed.

(* ---- transformArg is sound and keeps the invariant ---- *)
Theorem tc_transform_arg_sound r a idx st :
  tc_rule_wf T sem r -> tc_cache_inv T tf sem st ->
  forall vs es st', tc_transform_arg T tf r a idx st = (vs, es, st') ->
  (vs, es) = tc_uncached T tf r a /\ tc_cache_inv T tf sem st'.
Proof.
  intros Hwf Hinv vs es st' H. pose proof Hwf as [Hlen Hsem].
  unfold tc_transform_arg, tc_transform_arg_gen, tc_uncached in *.
  destruct (r_multi r).
  { destruct (tc_exec_multi T tf (r_ts r) (a_val a)) as [vs0 es0]. injection H as <- <- <-. auto. }
  destruct (r_ts r) as [|t0 ts0] eqn:Ets.
  { injection H as <- <- <-. cbn. auto. }
  rewrite <- Ets in *. clear Ets t0 ts0.
  destruct (Nat.eqb (a_var a) tc_var_tx).
  { destruct (exec (r_ts r) (a_val a)) as [v0 es0]. injection H as <- <- <-. auto. }
  destruct (tc_search true (length (r_pids r)) (r_pids r) a idx (st_cache st)) as [[i e]|] eqn:Es.
  - apply tcp_search_some in Es as (Hi & Hin & Hpid & Hinp).
    destruct (Hinv e Hin) as (H1 & H2 & H3). rewrite Hpid, Hinp in H1, H2, H3.
    rewrite Hlen in Hi. rewrite Hsem in H1, H2, H3 by exact Hi.
    destruct (Nat.eqb (S i) (length (r_pids r))) eqn:Efull.
    + apply Nat.eqb_eq in Efull. rewrite Hlen in Efull. injection H as <- <- <-.
      rewrite Efull, firstn_all in H1, H2. rewrite H1, H2.
      destruct (exec (r_ts r) (a_val a)); auto.
    + destruct (tc_fill T tf (S i) (skipn (S i) (r_ts r)) (r_pids r) a idx (e_out e) (tc_clip true (e_errs e)) st)
        as [[v1 es1] st1] eqn:Ef.
      injection H as <- <- <-.
      assert (Hfr : tc_frontier (st_heap st) (st_cache st) (tc_clip true (e_errs e))) by (left; cbn; lia).
      assert (H2' : tc_read (st_heap st) (tc_clip true (e_errs e)) = snd (exec (firstn (S i) (r_ts r)) (a_val a))) by exact H2.
      destruct (tcp_fill_sound r a idx Hwf _ (S i) (e_out e) (tc_clip true (e_errs e)) st eq_refl
                  ltac:(lia) Hinv H1 H2' H3 Hfr _ _ _ Ef) as (Ev & Ee & Ei).
      rewrite Ev, Ee. destruct (exec (r_ts r) (a_val a)); auto.
  - destruct (tc_fill T tf 0 (r_ts r) (r_pids r) a idx (a_val a) tc_nil_slice st) as [[v1 es1] st1] eqn:Ef.
    injection H as <- <- <-.
    assert (Hfr : tc_frontier (st_heap st) (st_cache st) tc_nil_slice) by (left; cbn; lia).
    destruct (tcp_fill_sound r a idx Hwf _ 0 (a_val a) tc_nil_slice st eq_refl
                ltac:(lia) Hinv eq_refl eq_refl eq_refl Hfr _ _ _ Ef) as (Ev & Ee & Ei).
    rewrite Ev, Ee. destruct (exec (r_ts r) (a_val a)); auto.
Qed.

(* ---- every sequence of calls in a phase ---- *)
Definition tc_calls_wf (cs : list (tc_call T)) : Prop := Forall (fun c => tc_rule_wf T sem (c_rule c)) cs.

Theorem tc_eval_calls_sound : forall cs st, tc_calls_wf cs -> tc_cache_inv T tf sem st ->
  fst (tc_eval_calls T tf cs st) = tc_uncached_calls T tf cs /\
  tc_cache_inv T tf sem (snd (tc_eval_calls T tf cs st)).
Proof.
  induction cs as [|c cs IH]; intros st Hwf Hinv; [cbn; auto|].
  inversion Hwf as [|? ? Hc Hcs]; subst.
  unfold tc_eval_calls in *. cbn [tc_eval_calls_gen].
  destruct (tc_transform_arg_gen T tf true true (c_rule c) (c_arg c) (c_idx c) st) as [[vs es] st1] eqn:E.
  destruct (tc_transform_arg_sound _ _ _ _ Hc Hinv _ _ _ E) as [Eo Ei].
  specialize (IH st1 Hcs Ei).
  destruct (tc_eval_calls_gen T tf true true cs st1) as [outs st2]. cbn [fst snd] in *.
  destruct IH as [IH1 IH2]. split; [|exact IH2].
  unfold tc_uncached_calls. cbn [map]. rewrite Eo, IH1. reflexivity.
Qed.

Lemma tc_phase_start_inv st : tc_cache_inv T tf sem (tc_phase_start T st).
Proof. intros e []. Qed.

Theorem tc_eval_phases_sound : forall ps st, Forall tc_calls_wf ps ->
  fst (tc_eval_phases T tf ps st) = map (tc_uncached_calls T tf) ps.
Proof.
  induction ps as [|p ps IH]; intros st Hwf; [reflexivity|].
  inversion Hwf as [|? ? Hp Hps]; subst. cbn [tc_eval_phases map].
  destruct (tc_eval_calls_sound p (tc_phase_start T st) Hp (tc_phase_start_inv st)) as [E1 E2].
  destruct (tc_eval_calls T tf p (tc_phase_start T st)) as [o st1]. cbn [fst snd] in *.
  specialize (IH st1 Hps). destruct (tc_eval_phases T tf ps st1) as [os st2]. cbn [fst] in *.
  rewrite E1, IH. reflexivity.
Qed.

(* the input check makes the per-phase clearing unnecessary for correctness: phases evaluated
   WITHOUT clearing give the same results *)
Theorem tc_no_clear_sound : forall ps, Forall tc_calls_wf ps ->
  fst (tc_eval_calls T tf (concat ps) (tc_empty)) = concat (map (tc_uncached_calls T tf) ps).
Proof.
  intros ps Hwf.
  assert (Hc : tc_calls_wf (concat ps)).
  { unfold tc_calls_wf. apply Forall_concat. exact Hwf. }
  destruct (tc_eval_calls_sound (concat ps) tc_empty Hc) as [E _]; [intros e []|].
  rewrite E. unfold tc_uncached_calls. rewrite concat_map. reflexivity.
Qed.

End Sound.
