(* Props/C12.v — the property theorems of C12 and nothing else.
   C12: sharing transformation work between rules never substitutes a wrong value. *)
From Verif Require Import Base Transform TCache TCacheProofs.

(* one call of transformArg on a cache satisfying the invariant: the rule is evaluated against
   its own transformation list applied to the current value (and gets that run's errors),
   whatever the cache holds, and the invariant is kept *)
Theorem C12_cache_sound : forall (T : Type) (tf : T -> bytes -> tres) (sem : nat -> list T) r a idx st,
  tc_rule_wf T sem r -> tc_cache_inv T tf sem st ->
  forall vs es st', tc_transform_arg T tf r a idx st = (vs, es, st') ->
  (vs, es) = tc_uncached T tf r a /\ tc_cache_inv T tf sem st'.
Proof. exact tc_transform_arg_sound. Qed.
Print Assumptions C12_cache_sound.
