package c11

import (
	"regexp"
	"strings"
)

// Deterministic grids (both tiers, run before the random generator): every pattern family that
// has exposed a defect is enumerated here instead of being left to the random stream.

func dedupe(l []string) []string {
	seen := map[string]bool{}
	var out []string
	for _, s := range l {
		if !seen[s] {
			seen[s] = true
			out = append(out, s)
		}
	}
	return out
}

var foldVariant = strings.NewReplacer("k", "\u212a", "K", "\u212a", "s", "\u017f", "S", "\u017f")

// variants of one base input: context, case, Unicode folds, truncation
func variants(base string) []string {
	v := []string{base, "x" + base, base + "x", base + "\n", "\n" + base, base + "\nmore", "first\n" + base,
		strings.ToUpper(base), foldVariant.Replace(base)}
	if len(base) > 1 {
		v = append(v, base[1:], base[:len(base)-1])
	}
	return v
}

// gridAnchoredLiterals: (number of required literals 2..4) x (length order) x (anchor) x (separator),
// case-sensitive and (?i); inputs that do and do not start / end with each literal.
func (rn *runner) gridAnchoredLiterals() {
	orders := map[string][]string{
		"asc":   {"ks", "desk", "select", "sKelvins"},
		"desc":  {"sKelvins", "select", "desk", "ks"},
		"equal": {"desk", "task", "skip", "kiss"},
	}
	type sep struct{ re, fill string }
	seps := []sep{{`.*`, "zz"}, {`.+`, "z"}, {`\s*`, " "}, {`=`, "="}}
	type anchor struct{ name, pre, post string }
	anchors := []anchor{{"none", "", ""}, {"A", `\A`, ""}, {"z", "", `\z`}, {"Az", `\A`, `\z`}, {"caret", "^", ""}, {"dollar", "", "$"}}
	idx := 0
	for _, oname := range []string{"asc", "desc", "equal"} {
		for n := 2; n <= 4; n++ {
			lits := orders[oname][:n]
			if oname == "desc" {
				lits = orders[oname][4-n:]
			}
			for _, an := range anchors {
				for si, sp := range seps {
					idx++
					for ci := 0; ci < 2; ci++ {
						if !rn.cfg.Thorough() && (si+n+ci)%2 == 1 {
							continue
						}
						q := make([]string, n)
						for i, l := range lits {
							q[i] = regexp.QuoteMeta(l)
						}
						pat := an.pre + strings.Join(q, sp.re) + an.post
						if ci == 1 {
							pat = "(?i)" + pat
						}
						base := strings.Join(lits, sp.fill)
						in := variants(base)
						for _, l := range lits {
							in = append(in, base+l, l+base)
							// one literal spelled with its Unicode fold / in the other case
							in = append(in, strings.Replace(base, l, foldVariant.Replace(l), 1), strings.Replace(base, l, strings.ToUpper(l), 1))
						}
						rev := make([]string, n)
						for i := range lits {
							rev[i] = lits[n-1-i]
						}
						in = append(in, strings.Join(rev, sp.fill), strings.Join(lits, ""), "")
						rn.process(pat, dedupe(in), "grid", "anchored-literals/"+oname+"/"+an.name, 0, true)
					}
				}
			}
		}
	}
}

// gridMixedFlags: a case-sensitive literal with upper-case letters next to a (?i) part.
func (rn *runner) gridMixedFlags() {
	for _, cs := range []string{"SELECT", "Ab", "xY", "Multipart"} {
		for _, sp := range []string{`\s+`, `.*`} {
			fill := " "
			pats := []string{
				`(?i:union)` + sp + cs,
				cs + sp + `(?i:union)`,
				`(?i)content-type(?-i):` + sp + cs,
				`(?:(?i:union)|` + cs + `)`,
				`(?i:union|insert)` + sp + cs,
				cs + sp + `(?i:union|insert)` + sp + cs + `x`,
			}
			for _, p := range pats {
				var in []string
				for _, a := range []string{"union", "UNION", "Union", "content-type:", "Content-Type:", "insert"} {
					for _, b := range []string{cs, strings.ToLower(cs), strings.ToUpper(cs)} {
						in = append(in, a+fill+b, b+fill+a, b+fill+a+fill+b+"x")
					}
				}
				in = append(in, cs, strings.ToLower(cs), foldVariant.Replace("union"+fill+cs))
				rn.process(p, dedupe(in), "grid", "mixed-flags", 0, true)
			}
		}
	}
}

// gridExactPath: pure anchored literals (and their near misses) with newline / case / fold inputs.
func (rn *runner) gridExactPath() {
	for _, l := range []string{"admin", "Upload", "Kiss", "ks"} {
		q := regexp.QuoteMeta(l)
		pats := []string{`^` + q + `$`, `(?i)^` + q + `$`, `\A` + q + `\z`, `(?i)\A` + q + `\z`, `\A` + q + `$`, `^` + q + `\z`,
			`(^` + q + `$)`, `^(?i)` + q + `$`, `^(` + q + `)$`, `^` + q}
		for _, p := range pats {
			in := variants(l)
			in = append(in, "a\n"+l+"\nb", "guest\n"+strings.ToUpper(l), l+"\n\n", "\n"+l+"\n", l+"s", "sys"+l, strings.ToUpper(l)+"S",
				l+"istrator", l+l, "", strings.ToLower(l)+"\nx", foldVariant.Replace(l)+"\n")
			rn.process(p, dedupe(in), "grid", "exact-path", 0, true)
		}
	}
}

// gridNonASCIIClass: classes whose lowest rune is multi-byte but which contain U+FFFD, on invalid UTF-8.
func (rn *runner) gridNonASCIIClass() {
	pats := []string{`[^\x00-\x7f]`, `[^[:ascii:]]`, `\p{So}`, `[\x{100}-\x{10FFFF}]`, `id=([^\x00-\x7f])`, `^[^[:ascii:]]{2}$`,
		`[^\x00-\x7f]+end`, `(?i)[^\x00-\x7f]k`, `[\x{3041}-\x{3093}]`, `\PL\pL`, `[^a]\z`}
	in := []string{"\xff", "\xa0\xa1", "id=\xfe", "\u00e9", "\xe2\x82", "\xffend", "\xc3", "id=\u00e9", "\u00e9\u00e9", "\xffk", "\xffK",
		"\u3042", "a", "", "\xe3\x81", "\ufffd", "id=\ufffd", "1a", "\xf0\x9f\x98", "ab", "\xff\n"}
	for _, p := range pats {
		rn.process(p, in, "grid", "non-ascii-class", 0, true)
	}
}

// gridAnyNeedles: alternations of needles (Wu-Manber path), alone and combined with a required literal;
// the byte at index minLen-1 runs over punctuation around the letters, digits and control bytes.
func (rn *runner) gridAnyNeedles() {
	for _, c := range []string{"@", "[", `\`, "]", "^", "_", "\x01", "a", "-", "Z", "{", "`"} {
		qc := regexp.QuoteMeta(c)
		for _, pre := range []string{"", "(?i)"} {
			pats := []string{pre + `(?:ab` + qc + `x|cd` + qc + `yz)`, pre + `go.*(?:ab` + qc + `x|cd` + qc + `yz)`, pre + `(?:k` + qc + `|s` + qc + `s|xy` + qc + `)(\w+)`}
			for _, p := range pats {
				var in []string
				for _, b := range []string{"ab" + c + "x", "cd" + c + "yz", "k" + c + "w", "s" + c + "sw", "xy" + c + "w", "ab" + c, "cd" + c + "y"} {
					in = append(in, b, strings.ToUpper(b), "go "+b, "GO "+strings.ToUpper(b), "EXEC "+strings.ToUpper(b)+"1", foldVariant.Replace(b), "go"+foldVariant.Replace(b))
				}
				rn.process(p, dedupe(in), "grid", "any-needles", 0, true)
			}
		}
	}
	// combinedRequired with s/k keywords and Unicode-fold spellings
	for _, p := range []string{`(?i)union.*(?:select|insert)`, `(?i)(select|insert)\s+into`, `(?i)drop\s+(?:token|table)`,
		`(?i)(?:script|iframe)[^>]*onload`, `(?i)\b(?:xp_|sp_)(\w+)`, `(?i)(?:root@|admin@)([a-z.]+)`, `(?i)(?:id\[\]|pk\[\])=(\d+)`,
		`union.*(?:select|insert)`, `(?i)as|aab`, `as|aab`, `(?i)\Aselect\s+(\w+)\s+from`, `(?i)(\w+)\.ask\z`} {
		var in []string
		for _, b := range []string{"union select", "union insert", "select into", "insert  into", "drop token", "drop table", "<script onload", "<iframe x onload",
			"EXEC xp_cmdshell", "exec sp_who", "ROOT@example.com", "Admin@x.y", "ID[]=7", "pk[]=1", "as", "aaB", "select id from users", "index.ask"} {
			in = append(in, b, strings.ToUpper(b), foldVariant.Replace(b), strings.Replace(b, "s", "\u017f", 1), strings.Replace(b, "k", "\u212a", 1))
		}
		rn.process(p, dedupe(in), "grid", "combined-fold", 0, true)
	}
}

// gridOneByteBranch: an alternation branch that is a one-byte word and the common first byte of its siblings
// (factored into x(?:(?:)|...) with an empty branch); short literal + capture group (single-needle trie); U+FFFD.
func (rn *runner) gridOneByteBranch() {
	in := []string{"p", "/list?p=2", "pg", "page", "pa", "x", "", "?p=1", "&pg=2", "s", "set", "select", "sel", "w", "who", "whoami", "a", "an", "and",
		"xp", "xpage", "S", "SET", "\u017f", "P=1", "ab1", "AB1", "Ab", "a\x83", "a\ufffd", "\xe1", "\ufffd"}
	for _, p := range []string{`p|pg|page`, `s|set|select`, `(p|pg|page)=\d+`, `[?&](p|pg|page)=\d+`, `w|who|whoami`, `a|an|and`, `x(?:p|pg|page)`,
		`sel|select`, `(?i)s|set|select`, `(?i)(p|pg|page)=\d+`, `(?:p|pg|page)|xyz`, `(?i)a(b\d)`, `a(b\d)`, "a\ufffd\\z", "\\A[\ufffd]", `-?|s`, `^(?:and)?`} {
		rn.process(p, in, "grid", "one-byte-branch", 0, true)
	}
}

func (rn *runner) grids() {
	rn.sampleExtra = 2
	rn.gridAnchoredLiterals()
	rn.gridMixedFlags()
	rn.gridExactPath()
	rn.gridNonASCIIClass()
	rn.gridAnyNeedles()
	rn.gridOneByteBranch()
	rn.sampleExtra = 0
}
