(* SetvarProofs.v — lemmas and proofs about the model of Setvar.v (property C09). *)
From Verif Require Import Base Transform Setvar.
From Coq Require Import String ZArith Lia ZifyN ZifyBool ZifyNat.
From Coq Require Import List.
Ltac Zify.zify_post_hook ::= Z.div_mod_to_equations.
Open Scope N_scope.

(* ------------------------------------------------------------------------------------ *)
(* decimal rendering and parsing                                                        *)
(* ------------------------------------------------------------------------------------ *)
Lemma itoa_fuel_digits : forall f n acc,
  Forall (fun b => sv_is_digit b = true) acc -> Forall (fun b => sv_is_digit b = true) (itoa_fuel f n acc).
Proof.
  induction f as [|f IH]; intros n acc H; cbn [itoa_fuel]; [exact H|].
  assert (Hd : sv_is_digit (48 + n mod 10) = true).
  { unfold sv_is_digit. assert (n mod 10 < 10) by (apply N.mod_lt; lia).
    apply andb_true_iff; split; apply N.leb_le; lia. }
  destruct (n / 10 =? 0); [constructor; assumption|].
  apply IH. constructor; assumption.
Qed.

Lemma itoa_fuel_nonempty : forall f n acc, acc <> [] -> itoa_fuel f n acc <> [].
Proof.
  induction f as [|f IH]; intros n acc H; cbn [itoa_fuel]; [exact H|].
  destruct (n / 10 =? 0); [discriminate|]. apply IH. discriminate.
Qed.

Lemma itoa_digits n : Forall (fun b => sv_is_digit b = true) (itoa n).
Proof. apply itoa_fuel_digits. constructor. Qed.

Lemma itoa_nonempty n : itoa n <> [].
Proof.
  unfold itoa. cbn [itoa_fuel]. destruct (n / 10 =? 0); [discriminate|].
  apply itoa_fuel_nonempty. discriminate.
Qed.

Fixpoint pow2 (f : nat) : N := match f with O => 1 | S f' => 2 * pow2 f' end.

Lemma itoa_fuel_val : forall f n acc,
  n < pow2 f ->
  fold_left sv_dec_step (itoa_fuel f n acc) 0 = fold_left sv_dec_step acc n.
Proof.
  induction f as [|f IH]; intros n acc H; cbn [itoa_fuel pow2] in *.
  - assert (n = 0) by lia. subst. reflexivity.
  - assert (Hdm : n = 10 * (n / 10) + n mod 10) by (apply N.div_mod; lia).
    assert (Hm : n mod 10 < 10) by (apply N.mod_lt; lia).
    destruct (n / 10 =? 0) eqn:E.
    + apply N.eqb_eq in E. cbn [fold_left]. unfold sv_dec_step at 2. f_equal. lia.
    + rewrite IH.
      * cbn [fold_left]. unfold sv_dec_step at 2. f_equal. lia.
      * assert (n / 10 <= n / 2) by (apply N.div_le_compat_l; lia).
        assert (n / 2 < pow2 f) by (apply N.div_lt_upper_bound; lia). lia.
Qed.

Lemma pow2_log2 n : n < pow2 (S (N.to_nat (N.log2 n))).
Proof.
  assert (Hp : forall k, pow2 k = 2 ^ N.of_nat k).
  { induction k as [|k IH]; [reflexivity|]. cbn [pow2]. rewrite IH, Nnat.Nat2N.inj_succ, N.pow_succ_r'. reflexivity. }
  rewrite Hp, Nnat.Nat2N.inj_succ, Nnat.N2Nat.id.
  destruct (N.eq_dec n 0) as [->|Hn]; [reflexivity|].
  apply N.log2_spec. lia.
Qed.

Lemma itoa_val n : sv_dec_val (itoa n) = n.
Proof. unfold sv_dec_val, itoa. rewrite itoa_fuel_val; [reflexivity | apply pow2_log2]. Qed.

Lemma dec_fold_ge : forall ds n, n <= fold_left sv_dec_step ds n.
Proof.
  induction ds as [|d ds IH]; intro n; cbn [fold_left]; [lia|].
  specialize (IH (sv_dec_step n d)). unfold sv_dec_step in *. lia.
Qed.

Lemma parse_uint_small : forall ds n,
  Forall (fun b => sv_is_digit b = true) ds ->
  fold_left sv_dec_step ds n <= 9223372036854775808 ->
  sv_parse_uint ds n = Some (Some (fold_left sv_dec_step ds n)).
Proof.
  induction ds as [|d ds IH]; intros n Hd Hb; cbn [sv_parse_uint fold_left]; [reflexivity|].
  inversion Hd as [|? ? H1 H2]; subst. rewrite H1. cbn [negb].
  cbn [fold_left] in Hb. pose proof (dec_fold_ge ds (sv_dec_step n d)) as Hge.
  assert (Hn : sv_dec_step n d <= 9223372036854775808) by lia.
  assert (n * 10 <= sv_dec_step n d) by (unfold sv_dec_step; lia).
  unfold sv_cutoff_u, sv_max_u.
  destruct (1844674407370955162 <=? n) eqn:E1; [apply N.leb_le in E1; lia|].
  destruct (18446744073709551615 <? sv_dec_step n d) eqn:E2; [apply N.ltb_lt in E2; lia|].
  apply IH; assumption.
Qed.

Lemma itoa_head_not_sign n : match itoa n with c :: _ => (c =? 43) = false /\ (c =? 45) = false | [] => False end.
Proof.
  pose proof (itoa_digits n) as H. pose proof (itoa_nonempty n) as Hn.
  destruct (itoa n) as [|c r]; [congruence|]. inversion H as [|? ? H1 _]; subst.
  unfold sv_is_digit in H1. apply andb_true_iff in H1 as [A B]. apply N.leb_le in A. apply N.leb_le in B.
  split; apply N.eqb_neq; lia.
Qed.

Lemma atoi_digits_itoa n neg :
  n <= 9223372036854775808 ->
  sv_atoi_digits neg (itoa n) =
    let m := Z.of_N n in
    if neg then (if (two63 <? m)%Z then AErr (- two63)%Z else AOk (- m)%Z)
    else (if (two63 <=? m)%Z then AErr (two63 - 1)%Z else AOk m).
Proof.
  intro Hb. unfold sv_atoi_digits.
  pose proof (itoa_nonempty n) as Hn. destruct (itoa n) as [|c r] eqn:E; [congruence|].
  rewrite <- E. rewrite parse_uint_small.
  - fold (sv_dec_val (itoa n)). rewrite itoa_val. reflexivity.
  - apply itoa_digits.
  - fold (sv_dec_val (itoa n)). rewrite itoa_val. exact Hb.
Qed.

(* the value written by an arithmetic setvar is read back unchanged *)
Lemma atoi_z_itoa z : (- two63 <= z < two63)%Z -> atoi (z_itoa z) = AOk z.
Proof.
  intro H. unfold z_itoa, two63 in *. destruct (z <? 0)%Z eqn:E.
  - apply Z.ltb_lt in E. cbn [atoi]. change (45 =? 43) with false. change (45 =? 45) with true. cbn iota.
    rewrite atoi_digits_itoa by lia. cbn zeta. rewrite Z2N.id by lia. unfold two63.
    destruct (9223372036854775808 <? - z)%Z eqn:E2; [apply Z.ltb_lt in E2; lia|]. f_equal. lia.
  - apply Z.ltb_ge in E. pose proof (itoa_head_not_sign (Z.to_N z)) as Hh.
    unfold atoi. destruct (itoa (Z.to_N z)) as [|c r] eqn:Ei; [contradiction|]. destruct Hh as [A B]. rewrite A, B.
    rewrite <- Ei. rewrite atoi_digits_itoa by lia. cbn zeta. rewrite Z2N.id by lia. unfold two63.
    destruct (9223372036854775808 <=? z)%Z eqn:E2; [apply Z.leb_le in E2; lia|]. reflexivity.
Qed.

Lemma wrap64_id z : (- two63 <= z < two63)%Z -> wrap64 z = z.
Proof. intro H. unfold wrap64, two63 in *. rewrite Z.mod_small by lia. lia. Qed.

(* ------------------------------------------------------------------------------------ *)
(* the TX map                                                                           *)
(* ------------------------------------------------------------------------------------ *)
Lemma tx_get_set_same m k vs : tx_get (tx_set m k vs) k = vs.
Proof.
  induction m as [|[k' vs'] m IH]; cbn [tx_set tx_get].
  - rewrite bytes_eqb_refl. reflexivity.
  - destruct (bytes_eqb k' k) eqn:E; cbn [tx_get].
    + rewrite bytes_eqb_refl. reflexivity.
    + rewrite E. exact IH.
Qed.

Lemma tx_get_set_other m k vs k2 : k2 <> k -> tx_get (tx_set m k vs) k2 = tx_get m k2.
Proof.
  intro Hne. induction m as [|[k' vs'] m IH]; cbn [tx_set tx_get].
  - destruct (bytes_eqb k k2) eqn:E; [apply bytes_eqb_eq in E; congruence | reflexivity].
  - destruct (bytes_eqb k' k) eqn:E; cbn [tx_get].
    + apply bytes_eqb_eq in E. subst k'.
      destruct (bytes_eqb k k2) eqn:E2; [apply bytes_eqb_eq in E2; congruence | reflexivity].
    + destruct (bytes_eqb k' k2); [reflexivity | exact IH].
Qed.

Lemma tx_get_remove_same m k : tx_get (tx_remove m k) k = [].
Proof.
  induction m as [|[k' vs'] m IH]; cbn [tx_remove tx_get]; [reflexivity|].
  destruct (bytes_eqb k' k) eqn:E; [exact IH|]. cbn [tx_get]. rewrite E. exact IH.
Qed.

Lemma tx_get_remove_other m k k2 : k2 <> k -> tx_get (tx_remove m k) k2 = tx_get m k2.
Proof.
  intro Hne. induction m as [|[k' vs'] m IH]; cbn [tx_remove tx_get]; [reflexivity|].
  destruct (bytes_eqb k' k) eqn:E.
  - apply bytes_eqb_eq in E. subst k'.
    destruct (bytes_eqb k k2) eqn:E2; [apply bytes_eqb_eq in E2; congruence | exact IH].
  - cbn [tx_get]. destruct (bytes_eqb k' k2); [reflexivity | exact IH].
Qed.

Lemma tx_get_setindex0_other m k v k2 : k2 <> k -> tx_get (tx_setindex0 m k v) k2 = tx_get m k2.
Proof. intro H. unfold tx_setindex0. destruct (tx_get m k); apply tx_get_set_other; exact H. Qed.

Lemma tx_get_setindex0_same m k v : exists rest, tx_get (tx_setindex0 m k v) k = v :: rest.
Proof. unfold tx_setindex0. destruct (tx_get m k) as [|x rest]; rewrite tx_get_set_same; eauto. Qed.

(* keys stay distinct: the association list is a faithful picture of a Go map *)
Definition tx_keys (m : txmap) : list bytes := map fst m.

Lemma tx_set_keys_in m k vs x : In x (tx_keys (tx_set m k vs)) <-> x = k \/ In x (tx_keys m).
Proof.
  induction m as [|[k' vs'] m IH]; cbn [tx_set tx_keys map In fst].
  - intuition congruence.
  - destruct (bytes_eqb k' k) eqn:E; cbn [tx_keys map In fst].
    + apply bytes_eqb_eq in E. subst. intuition congruence.
    + unfold tx_keys in IH. rewrite IH. intuition congruence.
Qed.

Lemma tx_set_nodup m k vs : NoDup (tx_keys m) -> NoDup (tx_keys (tx_set m k vs)).
Proof.
  induction m as [|[k' vs'] m IH]; intro H; cbn [tx_set tx_keys map fst].
  - constructor; [intros []|constructor].
  - inversion H as [|? ? Hn Hd]; subst. destruct (bytes_eqb k' k) eqn:E; cbn [tx_keys map fst].
    + apply bytes_eqb_eq in E. subst. constructor; assumption.
    + constructor; [|apply IH; exact Hd].
      intro Hin. apply tx_set_keys_in in Hin as [->|Hin]; [rewrite bytes_eqb_refl in E; discriminate | contradiction].
Qed.

Lemma tx_remove_keys_in m k x : In x (tx_keys (tx_remove m k)) -> In x (tx_keys m).
Proof.
  induction m as [|[k' vs'] m IH]; cbn [tx_remove tx_keys map In fst]; [tauto|].
  destruct (bytes_eqb k' k); cbn [tx_keys map In fst]; intuition.
Qed.

Lemma tx_remove_nodup m k : NoDup (tx_keys m) -> NoDup (tx_keys (tx_remove m k)).
Proof.
  induction m as [|[k' vs'] m IH]; intro H; cbn [tx_remove tx_keys map fst]; [constructor|].
  inversion H as [|? ? Hn Hd]; subst. destruct (bytes_eqb k' k); [apply IH; exact Hd|].
  cbn [tx_keys map fst]. constructor; [|apply IH; exact Hd].
  intro Hin. apply tx_remove_keys_in in Hin. contradiction.
Qed.

(* ------------------------------------------------------------------------------------ *)
(* setvar semantics (C09_setvar_semantics)                                               *)
(* ------------------------------------------------------------------------------------ *)
Lemma setvar_apply_nodup rm k v m : NoDup (tx_keys m) -> NoDup (tx_keys (setvar_apply rm k v m)).
Proof.
  intro H. unfold setvar_apply. destruct rm; [apply tx_remove_nodup; exact H|].
  destruct v as [|c rest]; [apply tx_set_nodup; exact H|].
  destruct ((c =? 43) || (c =? 45)); [|apply tx_set_nodup; exact H].
  destruct (match rest with [] => AOk 0%Z | _ :: _ => atoi rest end).
  - destruct (match match tx_get m k with c0 :: _ => c0 | [] => [] end with [] => AOk 0%Z | _ :: _ => atoi _ end);
      [destruct (c =? 43); apply tx_set_nodup; exact H | exact H].
  - destruct (is_prefix (str "tx.") rest); [exact H | apply tx_set_nodup; exact H].
Qed.

(* every other key is left alone *)
Lemma setvar_apply_frame rm k v m k2 : k2 <> k -> tx_get (setvar_apply rm k v m) k2 = tx_get m k2.
Proof.
  intro Hne. unfold setvar_apply. destruct rm; [apply tx_get_remove_other; exact Hne|].
  destruct v as [|c rest]; [apply tx_get_set_other; exact Hne|].
  destruct ((c =? 43) || (c =? 45)); [|apply tx_get_set_other; exact Hne].
  destruct (match rest with [] => AOk 0%Z | _ :: _ => atoi rest end).
  - destruct (match match tx_get m k with c0 :: _ => c0 | [] => [] end with [] => AOk 0%Z | _ :: _ => atoi _ end);
      [destruct (c =? 43); apply tx_get_set_other; exact Hne | reflexivity].
  - destruct (is_prefix (str "tx.") rest); [reflexivity | apply tx_get_set_other; exact Hne].
Qed.

Lemma setvar_delete_removes k v m : tx_get (setvar_apply true k v m) k = [].
Proof. apply tx_get_remove_same. Qed.

Lemma setvar_empty_value k m : tx_get (setvar_apply false k [] m) k = [[]].
Proof. unfold setvar_apply. apply tx_get_set_same. Qed.

Lemma setvar_assign_one_value k c rest m :
  (c =? 43) || (c =? 45) = false -> tx_get (setvar_apply false k (c :: rest) m) k = [c :: rest].
Proof. intro H. unfold setvar_apply. rewrite H. apply tx_get_set_same. Qed.

(* the integer the code reads as the current value of a key (None: Atoi fails) *)
Definition tx_counter (m : txmap) (k : bytes) : option Z :=
  match (match tx_get m k with c :: _ => c | [] => [] end) with
  | [] => Some 0%Z
  | v => match atoi v with AOk z => Some z | AErr _ => None end
  end.
Definition sv_operand (rest : bytes) : atoi_res := match rest with [] => AOk 0%Z | _ => atoi rest end.

Lemma setvar_arith k sign rest m cur n :
  (sign = 43 \/ sign = 45) -> tx_counter m k = Some cur -> sv_operand rest = AOk n ->
  tx_get (setvar_apply false k (sign :: rest) m) k =
    [z_itoa (wrap64 (if sign =? 43 then cur + n else cur - n))].
Proof.
  intros Hs Hc Hn. unfold setvar_apply, tx_counter, sv_operand in *.
  assert (Hsg : (sign =? 43) || (sign =? 45) = true) by (destruct Hs; subst; reflexivity).
  rewrite Hsg, Hn.
  destruct (match tx_get m k with c :: _ => c | [] => [] end) as [|c0 r0].
  - inversion Hc; subst. destruct (sign =? 43); apply tx_get_set_same.
  - destruct (atoi (c0 :: r0)); [|discriminate]. inversion Hc; subst.
    destruct (sign =? 43); apply tx_get_set_same.
Qed.

Lemma setvar_non_numeric_current k sign rest m n :
  (sign = 43 \/ sign = 45) -> tx_counter m k = None -> sv_operand rest = AOk n ->
  setvar_apply false k (sign :: rest) m = m.
Proof.
  intros Hs Hc Hn. unfold setvar_apply, tx_counter, sv_operand in *.
  assert (Hsg : (sign =? 43) || (sign =? 45) = true) by (destruct Hs; subst; reflexivity).
  rewrite Hsg, Hn.
  destruct (match tx_get m k with c :: _ => c | [] => [] end) as [|c0 r0]; [discriminate|].
  destruct (atoi (c0 :: r0)); [discriminate | reflexivity].
Qed.

Lemma setvar_non_numeric_operand k sign rest m z :
  (sign = 43 \/ sign = 45) -> sv_operand rest = AErr z ->
  setvar_apply false k (sign :: rest) m =
    if is_prefix (str "tx.") rest then m else tx_set m k [sign :: rest].
Proof.
  intros Hs Hn. unfold setvar_apply, sv_operand in *.
  assert (Hsg : (sign =? 43) || (sign =? 45) = true) by (destruct Hs; subst; reflexivity).
  rewrite Hsg, Hn. reflexivity.
Qed.

(* the prefix test that recognises an unresolved %{tx.x} operand is case sensitive: the same
   missing variable written %{TX.x} overwrites the counter with the text "+TX.x" *)
Example setvar_missing_operand_case :
  let m := [(str "score", [str "5"])] in
  setvar_apply false (str "score") (str "+tx.inc") m = m /\
  setvar_apply false (str "score") (str "+TX.inc") m = [(str "score", [str "+TX.inc"])].
Proof. vm_compute. split; reflexivity. Qed.

(* numeric increments under the no-overflow guard: the counter moves by exactly the operand *)
Lemma setvar_counter_step k sign rest m cur n :
  (sign = 43 \/ sign = 45) -> tx_counter m k = Some cur -> sv_operand rest = AOk n ->
  let d := if sign =? 43 then n else (- n)%Z in
  (- two63 <= cur + d < two63)%Z ->
  tx_counter (setvar_apply false k (sign :: rest) m) k = Some (cur + d)%Z.
Proof.
  intros Hs Hc Hn d Hb. unfold tx_counter at 1.
  rewrite (setvar_arith k sign rest m cur n Hs Hc Hn).
  assert (Hv : (if sign =? 43 then (cur + n)%Z else (cur - n)%Z) = (cur + d)%Z).
  { subst d. destruct (sign =? 43); lia. }
  rewrite Hv, wrap64_id by exact Hb.
  pose proof (atoi_z_itoa (cur + d) Hb) as Ha.
  destruct (z_itoa (cur + d)) as [|c r] eqn:E.
  - unfold z_itoa in E. destruct (cur + d <? 0)%Z; [discriminate|]. exfalso. exact (itoa_nonempty _ E).
  - rewrite Ha. reflexivity.
Qed.

(* ------------------------------------------------------------------------------------ *)
(* the ghost trace: which action ran how often                                          *)
(* ------------------------------------------------------------------------------------ *)
Definition is_nd (a : action) : bool := match a with ANd _ | ASetvar _ => true | _ => false end.

(* tags (level, index) of the "Evaluating action" lines of a trace *)
Definition act_tags (tr : list event) : list (nat * nat) :=
  flat_map (fun e => match e with EvAct l i _ => [(l, i)] | _ => [] end) tr.
(* the flow / disruptive lines and the MatchRule lines of a trace *)
Definition ev_is_fd (e : event) : bool :=
  match e with EvFlow _ | EvDisr _ | EvRuleMatched _ => true | _ => false end.
Definition fd_events (tr : list event) : list event := filter ev_is_fd tr.

Definition tag_eqb (a b : nat * nat) : bool := Nat.eqb (fst a) (fst b) && Nat.eqb (snd a) (snd b).
Definition count_tag (t : nat * nat) (l : list (nat * nat)) : nat := length (filter (tag_eqb t) l).

Fixpoint nd_tags (idx : nat) (acts : list action) : list nat :=
  match acts with
  | [] => []
  | a :: r => if is_nd a then idx :: nd_tags (S idx) r else nd_tags (S idx) r
  end.
(* one execution of a link's non-disruptive actions, newest first *)
Definition link_tags {opid} (lvl : nat) (l : link opid) : list (nat * nat) :=
  rev (map (pair lvl) (nd_tags 0 (l_actions l))).

Lemma act_tags_app a b : act_tags (a ++ b) = act_tags a ++ act_tags b.
Proof. unfold act_tags. apply flat_map_app. Qed.
Lemma fd_events_app a b : fd_events (a ++ b) = fd_events a ++ fd_events b.
Proof. unfold fd_events. apply filter_app. Qed.
Lemma count_tag_app t a b : count_tag t (a ++ b) = (count_tag t a + count_tag t b)%nat.
Proof. unfold count_tag. rewrite filter_app, app_length. reflexivity. Qed.
Lemma count_tag_rev t a : count_tag t (rev a) = count_tag t a.
Proof.
  induction a as [|x a IH]; [reflexivity|]. cbn [rev]. rewrite count_tag_app, IH.
  unfold count_tag. cbn [filter]. destruct (tag_eqb t x); cbn [length]; lia.
Qed.
Lemma count_tag_concat_repeat t l n : count_tag t (concat (repeat l n)) = (n * count_tag t l)%nat.
Proof. induction n as [|n IH]; [reflexivity|]. cbn [repeat concat]. rewrite count_tag_app, IH. lia. Qed.

Lemma nd_tags_ge : forall acts idx x, In x (nd_tags idx acts) -> (idx <= x)%nat.
Proof.
  induction acts as [|a r IH]; intros idx x H; cbn [nd_tags] in H; [contradiction|].
  destruct (is_nd a); [destruct H as [<-|H]; [lia|]|]; apply IH in H; lia.
Qed.

Lemma count_tag_map_lvl lvl lvl' i l : lvl' <> lvl -> count_tag (lvl', i) (map (pair lvl) l) = 0%nat.
Proof.
  intro H. induction l as [|x l IH]; [reflexivity|]. unfold count_tag in *. cbn [map filter].
  unfold tag_eqb at 1. cbn [fst snd]. destruct (Nat.eqb lvl' lvl) eqn:E; [apply Nat.eqb_eq in E; congruence|].
  cbn [andb]. exact IH.
Qed.

Lemma count_tag_absent lvl i l : ~ In i l -> count_tag (lvl, i) (map (pair lvl) l) = 0%nat.
Proof.
  induction l as [|x l IH]; intro H; [reflexivity|]. unfold count_tag in *. cbn [map filter].
  unfold tag_eqb at 1. cbn [fst snd]. rewrite Nat.eqb_refl. cbn [andb].
  destruct (Nat.eqb i x) eqn:E; [apply Nat.eqb_eq in E; subst; exfalso; apply H; left; reflexivity|].
  apply IH. intro Hin. apply H. right. exact Hin.
Qed.

(* an action that is non-disruptive appears exactly once in one execution of the list *)
Lemma count_nd_tags : forall acts idx i a lvl,
  nth_error acts i = Some a -> is_nd a = true ->
  count_tag (lvl, (idx + i)%nat) (map (pair lvl) (nd_tags idx acts)) = 1%nat.
Proof.
  induction acts as [|b r IH]; intros idx i a lvl Hn Ha; [destruct i; discriminate|].
  destruct i as [|i]; cbn [nth_error] in Hn.
  - inversion Hn; subst b. cbn [nd_tags]. rewrite Ha. cbn [map]. unfold count_tag. cbn [filter].
    unfold tag_eqb at 1. cbn [fst snd]. rewrite Nat.add_0_r, !Nat.eqb_refl. cbn [andb length].
    f_equal. fold (count_tag (lvl, idx) (map (pair lvl) (nd_tags (S idx) r))).
    apply count_tag_absent. intro Hin. apply nd_tags_ge in Hin. lia.
  - cbn [nd_tags]. replace (idx + S i)%nat with (S idx + i)%nat by lia.
    destruct (is_nd b); [|eapply IH; eassumption].
    cbn [map]. unfold count_tag. cbn [filter]. unfold tag_eqb at 1. cbn [fst snd].
    destruct (Nat.eqb (S idx + i) idx) eqn:E; [apply Nat.eqb_eq in E; lia|].
    rewrite andb_false_r. eapply IH; eassumption.
Qed.

Lemma count_link_tags {opid} (l : link opid) lvl i a :
  nth_error (l_actions l) i = Some a -> is_nd a = true -> count_tag (lvl, i) (link_tags lvl l) = 1%nat.
Proof.
  intros Hn Ha. unfold link_tags. rewrite count_tag_rev.
  exact (count_nd_tags (l_actions l) 0 i a lvl Hn Ha).
Qed.

Lemma count_link_tags_other {opid} (l : link opid) lvl lvl' i :
  lvl' <> lvl -> count_tag (lvl', i) (link_tags lvl l) = 0%nat.
Proof. intro H. unfold link_tags. rewrite count_tag_rev. apply count_tag_map_lvl. exact H. Qed.

(* a state whose trace extends another's by [new] (newest first) *)
Definition ext (s s' : st) (new : list event) : Prop := s_trace s' = new ++ s_trace s.
Lemma ext_refl s : ext s s [].
Proof. reflexivity. Qed.
Lemma ext_trans s1 s2 s3 n1 n2 : ext s1 s2 n1 -> ext s2 s3 n2 -> ext s1 s3 (n2 ++ n1).
Proof. unfold ext. intros H1 H2. rewrite H2, H1, app_assoc. reflexivity. Qed.

Definition no_fd (tr : list event) : Prop := fd_events tr = [].
Lemma no_fd_app a b : no_fd a -> no_fd b -> no_fd (a ++ b).
Proof. unfold no_fd. intros Ha Hb. rewrite fd_events_app, Ha, Hb. reflexivity. Qed.

Section EngineProofs.
  Variable opid : Type.
  Variable op_eval : opid -> env -> st -> bytes -> bool * list (N * bytes).
  Notation link := (link opid).
  Notation rule := (rule opid).

  Lemma setvar_eval_ext e rid a s :
    exists new, ext s (setvar_eval e rid a s) new /\ act_tags new = [] /\ no_fd new.
  Proof. unfold setvar_eval. eexists [_]. repeat split. Qed.

  Lemma run_nd_ext e rid lvl : forall acts idx s,
    exists new, ext s (run_nd e rid lvl idx acts s) new /\
                act_tags new = rev (map (pair lvl) (nd_tags idx acts)) /\ no_fd new.
  Proof.
    induction acts as [|a r IH]; intros idx s; cbn [run_nd nd_tags].
    - exists []. repeat split.
    - destruct a as [name|sv|name d|name|name]; cbn [is_nd].
      + destruct (IH (S idx) (st_log (EvAct lvl idx name) s)) as (n & He & Ht & Hf).
        exists (n ++ [EvAct lvl idx name]). split; [|split].
        * eapply ext_trans; [|exact He]. reflexivity.
        * rewrite act_tags_app, Ht. reflexivity.
        * apply no_fd_app; [exact Hf | reflexivity].
      + destruct (setvar_eval_ext e rid sv (st_log (EvAct lvl idx (str "setvar")) s)) as (n1 & He1 & Ht1 & Hf1).
        destruct (IH (S idx) (setvar_eval e rid sv (st_log (EvAct lvl idx (str "setvar")) s))) as (n & He & Ht & Hf).
        exists (n ++ n1 ++ [EvAct lvl idx (str "setvar")]). split; [|split].
        * eapply ext_trans; [|exact He]. eapply ext_trans; [|exact He1]. reflexivity.
        * rewrite !act_tags_app, Ht, Ht1. reflexivity.
        * apply no_fd_app; [exact Hf|]. apply no_fd_app; [exact Hf1 | reflexivity].
      + apply IH.
      + apply IH.
      + apply IH.
  Qed.

  Lemma on_match_ext e (l : link) lvl known vn key value s :
    exists new, ext s (on_match e l lvl known vn key value s) new /\
                act_tags new = link_tags lvl l /\ no_fd new.
  Proof.
    unfold on_match.
    set (s0 := if known then st_log (EvMatching (link_rid l) vn key) s else s).
    destruct (run_nd_ext e (l_id l) lvl (l_actions l) 0 (st_match_variable vn key value s0)) as (n & He & Ht & Hf).
    exists (n ++ (if known then [EvMatching (link_rid l) vn key] else [])). split; [|split].
    - unfold ext in *. rewrite He. cbn [st_match_variable s_trace]. subst s0. destruct known; cbn [st_log s_trace].
      + rewrite <- app_assoc. reflexivity.
      + rewrite app_nil_r. reflexivity.
    - rewrite act_tags_app, Ht. destruct known; cbn; rewrite app_nil_r; reflexivity.
    - apply no_fd_app; [exact Hf|]. destruct known; reflexivity.
  Qed.

  Lemma apply_caps_trace caps s : s_trace (apply_caps caps s) = s_trace s.
  Proof. unfold apply_caps. destruct (s_capture s); reflexivity. Qed.

  (* the innermost loop: one execution of the action list per value appended to matchedValues *)
  Lemma eval_cands_ext e (l : link) lvl o neg : forall cands s acc s' acc',
    eval_cands op_eval e l lvl o neg cands s acc = (s', acc') ->
    exists new k, ext s s' new /\ length acc' = (k + length acc)%nat /\
                  act_tags new = concat (repeat (link_tags lvl l) k) /\ no_fd new.
  Proof.
    induction cands as [|[[vn key] carg] r IH]; intros s acc s' acc' H; cbn [eval_cands] in H.
    - inversion H; subst. exists [], 0%nat. repeat split.
    - destruct (op_eval o e s carg) as [res caps].
      destruct (xorb res neg).
      + match type of H with eval_cands _ _ _ _ _ _ _ ?s2 (?md :: _) = _ =>
          destruct (IH s2 (md :: acc) s' acc' H) as (n & k & He & Hl & Ht & Hf) end.
        destruct (on_match_ext e l lvl true vn key carg (apply_caps caps s)) as (n1 & He1 & Ht1 & Hf1).
        exists (n ++ n1), (S k). split; [|split; [|split]].
        * unfold ext in *. rewrite He, He1, apply_caps_trace, app_assoc. reflexivity.
        * cbn [length] in Hl. lia.
        * rewrite act_tags_app, Ht, Ht1. clear. induction k as [|k IHk]; cbn [repeat concat].
          -- rewrite app_nil_r. reflexivity.
          -- rewrite <- app_assoc, IHk. reflexivity.
        * apply no_fd_app; assumption.
      + destruct (IH (apply_caps caps s) acc s' acc' H) as (n & k & He & Hl & Ht & Hf).
        exists n, k. repeat split; try assumption. unfold ext in *. rewrite He, apply_caps_trace. reflexivity.
  Qed.

  Lemma eval_targets_ext e (l : link) lvl o neg : forall ts s acc s' acc',
    eval_targets op_eval e l lvl o neg ts s acc = (s', acc') ->
    exists new k, ext s s' new /\ length acc' = (k + length acc)%nat /\
                  act_tags new = concat (repeat (link_tags lvl l) k) /\ no_fd new.
  Proof.
    induction ts as [|t r IH]; intros s acc s' acc' H; cbn [eval_targets] in H.
    - inversion H; subst. exists [], 0%nat. repeat split.
    - destruct (eval_cands op_eval e l lvl o neg (target_cands e l s t) s acc) as [s1 acc1] eqn:E.
      destruct (eval_cands_ext e l lvl o neg _ _ _ _ _ E) as (n1 & k1 & He1 & Hl1 & Ht1 & Hf1).
      destruct (IH _ _ _ _ H) as (n2 & k2 & He2 & Hl2 & Ht2 & Hf2).
      exists (n2 ++ n1), (k2 + k1)%nat. split; [|split; [|split]].
      + eapply ext_trans; eassumption.
      + lia.
      + rewrite act_tags_app, Ht1, Ht2, repeat_app, concat_app. reflexivity.
      + apply no_fd_app; assumption.
  Qed.

  Lemma link_prologue_trace e (l : link) s : s_trace (link_prologue e l s) = s_trace s.
  Proof. unfold link_prologue. destruct (l_msg l), (l_logdata l); reflexivity. Qed.

  (* C09_once_per_match, link level *)
  Lemma eval_link_ext e (l : link) lvl s s' mds :
    eval_link op_eval e l lvl s = (s', mds) ->
    exists new, ext s s' new /\ act_tags new = concat (repeat (link_tags lvl l) (length mds)) /\ no_fd new.
  Proof.
    unfold eval_link. intro H. cbv zeta in H. destruct (l_op l) as [[[ts o] neg]|].
    - destruct (eval_targets op_eval e l lvl o neg ts (link_prologue e l s) []) as [s1 acc] eqn:E.
      inversion H; subst. destruct (eval_targets_ext e l lvl o neg _ _ _ _ _ E) as (n & k & He & Hl & Ht & Hf).
      exists n. split; [|split; [|exact Hf]].
      + unfold ext in *. rewrite He, link_prologue_trace. reflexivity.
      + rewrite rev_length, Hl. cbn [length]. rewrite Nat.add_0_r. exact Ht.
    - destruct (on_match_ext e l lvl false (var_name VUnknown) [] [] (link_prologue e l s)) as (n & He & Ht & Hf).
      injection H as Hs Hm. subst s' mds.
      exists n. split; [|split; [|exact Hf]].
      + unfold ext in *. etransitivity; [exact He|]. rewrite link_prologue_trace. reflexivity.
      + cbn [length repeat concat]. rewrite app_nil_r. exact Ht.
  Qed.

  (* number of matched values of every evaluated link of a chain walk *)
  Fixpoint chain_counts (e : env) (links : list link) (lvl : nat) (s : st) : list nat :=
    match links with
    | [] => []
    | l :: r =>
      let '(s1, mds) := eval_link op_eval e l lvl s in
      length mds :: match mds with [] => [] | _ => chain_counts e r (S lvl) s1 end
    end.
  Fixpoint chain_tags (links : list link) (lvl : nat) (counts : list nat) : list (nat * nat) :=
    match links, counts with
    | l :: r, n :: cr => chain_tags r (S lvl) cr ++ concat (repeat (link_tags lvl l) n)
    | _, _ => []
    end.
  Definition chain_complete (links : list link) (counts : list nat) : bool :=
    Nat.eqb (length counts) (length links) && forallb (fun n => negb (Nat.eqb n 0)) counts.

  Lemma eval_chain_ext e : forall links lvl s s' res,
    eval_chain op_eval e links lvl s = (s', res) ->
    exists new, ext s s' new /\ act_tags new = chain_tags links lvl (chain_counts e links lvl s) /\ no_fd new /\
                (match res with Some _ => true | None => false end) = chain_complete links (chain_counts e links lvl s).
  Proof.
    induction links as [|l r IH]; intros lvl s s' res H; cbn [eval_chain chain_counts] in *.
    - inversion H; subst. exists []. repeat split.
    - destruct (eval_link op_eval e l lvl s) as [s1 mds] eqn:E.
      destruct (eval_link_ext e l lvl s s1 mds E) as (n1 & He1 & Ht1 & Hf1).
      destruct mds as [|md mds'].
      + inversion H; subst. exists n1. split; [exact He1|]. split; [|split; [exact Hf1|]].
        * cbn [chain_tags]. destruct r; cbn [chain_tags]; cbn [length repeat concat app] in *; rewrite Ht1; reflexivity.
        * unfold chain_complete. cbn [length forallb Nat.eqb negb andb]. rewrite andb_false_r. reflexivity.
      + destruct (eval_chain op_eval e r (S lvl) s1) as [s2 rest] eqn:E2.
        destruct (IH _ _ _ _ E2) as (n2 & He2 & Ht2 & Hf2 & Hc2).
        inversion H; subst. exists (n2 ++ n1). split; [eapply ext_trans; eassumption|]. split; [|split].
        * cbn [chain_tags]. rewrite act_tags_app, Ht1, Ht2. reflexivity.
        * apply no_fd_app; assumption.
        * transitivity (chain_complete r (chain_counts e r (S lvl) s1)); [rewrite <- Hc2; destruct rest; reflexivity|].
          unfold chain_complete. cbn [length forallb Nat.eqb negb andb]. reflexivity.
  Qed.

  (* counting in the tags of a walk: level lvl+k belongs to link k alone *)
  Lemma chain_tags_count_high : forall links lvl counts lvl' i,
    (lvl' < lvl)%nat -> count_tag (lvl', i) (chain_tags links lvl counts) = 0%nat.
  Proof.
    induction links as [|l r IH]; intros lvl counts lvl' i H; [reflexivity|].
    destruct counts as [|n cr]; [reflexivity|]. cbn [chain_tags].
    rewrite count_tag_app, count_tag_concat_repeat, count_link_tags_other by lia.
    rewrite IH by lia. lia.
  Qed.

  Lemma chain_tags_count : forall links lvl counts k l i a,
    nth_error links k = Some l -> nth_error (l_actions l) i = Some a -> is_nd a = true ->
    count_tag ((lvl + k)%nat, i) (chain_tags links lvl counts) = nth k counts 0%nat.
  Proof.
    induction links as [|l0 r IH]; intros lvl counts k l i a Hk Hi Ha; [destruct k; discriminate|].
    destruct counts as [|n cr]; [destruct k; reflexivity|]. cbn [chain_tags].
    rewrite count_tag_app, count_tag_concat_repeat.
    destruct k as [|k]; cbn [nth_error nth] in *.
    - inversion Hk; subst l0. rewrite Nat.add_0_r, (count_link_tags l lvl i a Hi Ha).
      rewrite chain_tags_count_high by lia. lia.
    - replace (lvl + S k)%nat with (S lvl + k)%nat by lia.
      rewrite (IH (S lvl) cr k l i a Hk Hi Ha), count_link_tags_other by lia. lia.
  Qed.
End EngineProofs.

(* ------------------------------------------------------------------------------------ *)
(* frames: what the individual steps leave alone                                        *)
(* ------------------------------------------------------------------------------------ *)
Lemma macro_expand_log e ev s m : macro_expand e (st_log ev s) m = macro_expand e s m.
Proof. reflexivity. Qed.

Lemma setvar_eval_fields e rid a s :
  s_mv (setvar_eval e rid a s) = s_mv s /\ s_mvn (setvar_eval e rid a s) = s_mvn s /\
  s_hs (setvar_eval e rid a s) = s_hs s /\ s_matched (setvar_eval e rid a s) = s_matched s /\
  s_interrupted (setvar_eval e rid a s) = s_interrupted s /\ s_capture (setvar_eval e rid a s) = s_capture s.
Proof. repeat split. Qed.

Lemma run_nd_fields e rid lvl : forall acts idx s,
  let s' := run_nd e rid lvl idx acts s in
  s_mv s' = s_mv s /\ s_mvn s' = s_mvn s /\ s_hs s' = s_hs s /\ s_matched s' = s_matched s /\
  s_interrupted s' = s_interrupted s /\ s_capture s' = s_capture s.
Proof.
  induction acts as [|a r IH]; intros idx s; cbn [run_nd]; [repeat split|].
  destruct a; try apply IH.
  - specialize (IH (S idx) (st_log (EvAct lvl idx name) s)). cbn zeta in IH. exact IH.
  - specialize (IH (S idx) (setvar_eval e rid a (st_log (EvAct lvl idx (str "setvar")) s))). cbn zeta in IH.
    exact IH.
Qed.

Lemma run_nd_app e rid lvl : forall a1 idx a2 s,
  run_nd e rid lvl idx (a1 ++ a2) s = run_nd e rid lvl (idx + length a1) a2 (run_nd e rid lvl idx a1 s).
Proof.
  induction a1 as [|a r IH]; intros idx a2 s; cbn [app run_nd length].
  - rewrite Nat.add_0_r. reflexivity.
  - rewrite IH. replace (S idx + length r)%nat with (idx + S (length r))%nat by lia. reflexivity.
Qed.

(* C09_macro_at_that_moment: the j-th action of a match is a setvar; its key and value are
   expanded in the state reached after the MATCHED_* update for this very match and after the
   j preceding actions, where MATCHED_VAR / MATCHED_VAR_NAME still are this match's *)
Lemma macro_at_that_moment {opid} e (l : link opid) lvl (known : bool) vn key value s pre a post :
  l_actions l = pre ++ ASetvar a :: post ->
  let s0 := if known then st_log (EvMatching (link_rid l) vn key) s else s in
  let sp := run_nd e (l_id l) lvl 0 pre (st_match_variable vn key value s0) in
  let k := macro_expand e sp (sv_key a) in
  let v := macro_expand_opt e sp (sv_value a) in
  on_match e l lvl known vn key value s =
    run_nd e (l_id l) lvl (S (length pre)) post
      (st_with_tx (st_log (EvSetvar k v (l_id l)) (st_log (EvAct lvl (length pre) (str "setvar")) sp))
                  (setvar_apply (sv_remove a) (lower_ascii k) v (s_tx sp)))
  /\ s_mv sp = value /\ s_mvn sp = sv_match_name vn key.
Proof.
  intros Hacts s0 sp k v. split; [|split].
  - unfold on_match. fold s0. rewrite Hacts, run_nd_app. cbn [run_nd Nat.add]. fold sp.
    replace (0 + length pre)%nat with (length pre) by lia. reflexivity.
  - subst sp. destruct (run_nd_fields e (l_id l) lvl pre 0 (st_match_variable vn key value s0)) as (H & _). exact H.
  - subst sp. destruct (run_nd_fields e (l_id l) lvl pre 0 (st_match_variable vn key value s0)) as (_ & H & _). exact H.
Qed.

(* ------------------------------------------------------------------------------------ *)
(* flow / disruptive actions and MatchRule at rule level                                *)
(* ------------------------------------------------------------------------------------ *)
Definition fd_names (acts : list action) : list event :=
  flat_map (fun a => match a with AFlow n => [EvFlow n] | ADisr n _ => [EvDisr n] | _ => [] end) acts.

Lemma run_flow_disr_ext rid : forall acts s,
  exists new, ext s (run_flow_disr rid acts s) new /\ act_tags new = [] /\ fd_events new = rev (fd_names acts) /\
              s_tx (run_flow_disr rid acts s) = s_tx s /\ s_hs (run_flow_disr rid acts s) = s_hs s /\
              s_matched (run_flow_disr rid acts s) = s_matched s.
Proof.
  induction acts as [|a r IH]; intro s; cbn [run_flow_disr fd_names flat_map].
  - exists []. repeat split.
  - destruct a as [name|sv|name d|name|name]; try apply IH.
    + set (s1 := st_log (EvDisr name) s).
      set (s2 := if d then match s_interrupted s1 with Some _ => s1 | None => _ end else s1).
      assert (H2 : s_trace s2 = s_trace s1 /\ s_tx s2 = s_tx s /\ s_hs s2 = s_hs s /\ s_matched s2 = s_matched s).
      { subst s2. destruct d; [destruct (s_interrupted s1)|]; repeat split. }
      destruct H2 as (T2 & X2 & Hs2 & M2).
      destruct (IH s2) as (n & He & Ht & Hf & Hx & Hh & Hm).
      exists (n ++ [EvDisr name]). split; [|split; [|split; [|split; [|split]]]].
      * unfold ext in *. rewrite He, T2. subst s1. cbn [st_log s_trace]. rewrite <- app_assoc. reflexivity.
      * rewrite act_tags_app, Ht. reflexivity.
      * rewrite fd_events_app, Hf. cbn [rev]. fold (fd_names r). rewrite rev_app_distr. reflexivity.
      * rewrite Hx. exact X2.
      * rewrite Hh. exact Hs2.
      * rewrite Hm. exact M2.
    + destruct (IH (st_log (EvFlow name) s)) as (n & He & Ht & Hf & Hx & Hh & Hm).
      exists (n ++ [EvFlow name]). split; [|split; [|split; [|split; [|split]]]].
      * unfold ext in *. rewrite He. cbn [st_log s_trace]. rewrite <- app_assoc. reflexivity.
      * rewrite act_tags_app, Ht. reflexivity.
      * rewrite fd_events_app, Hf. cbn [rev]. fold (fd_names r). rewrite rev_app_distr. reflexivity.
      * exact Hx.
      * exact Hh.
      * exact Hm.
Qed.

Section RuleProofs.
  Variable opid : Type.
  Variable op_eval : opid -> env -> st -> bytes -> bool * list (N * bytes).

  Definition rule_links (r : rule opid) : list (link opid) := r_head r :: r_chain r.
  Definition rule_counts (e : env) (r : rule opid) (s : st) : list nat :=
    chain_counts opid op_eval e (rule_links r) 0 s.

  (* C09_once_per_match / C09_starter_once_per_chain at rule level *)
  Lemma eval_rule_ext e (r : rule opid) s :
    exists new, ext s (eval_rule op_eval e r s) new /\
      act_tags new = chain_tags opid (rule_links r) 0 (rule_counts e r s) /\
      fd_events new =
        if chain_complete opid (rule_links r) (rule_counts e r s)
        then (if (l_id (r_head r) =? 0)%Z then [] else [EvRuleMatched (l_id (r_head r))]) ++ rev (fd_names (l_actions (r_head r)))
        else [].
  Proof.
    unfold eval_rule, rule_counts, rule_links.
    destruct (eval_chain op_eval e (r_head r :: r_chain r) 0 s) as [s2 res] eqn:E.
    destruct (eval_chain_ext opid op_eval e _ _ _ _ _ E) as (n & He & Ht & Hf & Hc).
    rewrite <- Hc. destruct res as [all|].
    - destruct (run_flow_disr_ext (link_rid (r_head r)) (l_actions (r_head r)) s2) as (n2 & He2 & Ht2 & Hf2 & _).
      destruct (l_id (r_head r) =? 0)%Z.
      + exists (n2 ++ n). split; [eapply ext_trans; eassumption|]. split.
        * rewrite act_tags_app, Ht2, Ht. reflexivity.
        * rewrite fd_events_app, Hf2, Hf, app_nil_r. reflexivity.
      + exists (EvRuleMatched (l_id (r_head r)) :: n2 ++ n). split; [|split].
        * unfold ext in *. unfold match_rule. destruct (first_msg _). cbn [s_trace st_log]. rewrite He2, He, app_assoc. reflexivity.
        * cbn [act_tags flat_map app]. fold (act_tags (n2 ++ n)). rewrite act_tags_app, Ht2, Ht. reflexivity.
        * cbn [fd_events filter ev_is_fd]. fold (fd_events (n2 ++ n)). rewrite fd_events_app, Hf2, Hf, app_nil_r. reflexivity.
    - exists n. repeat split; assumption.
  Qed.
End RuleProofs.

(* ------------------------------------------------------------------------------------ *)
(* C09_sum: a counter only touched by +N / -N moves by exactly the sum over all matches  *)
(* ------------------------------------------------------------------------------------ *)
Definition tok_is_text (t : token) : bool := match tk_var t with VUnknown => true | _ => false end.
(* a macro without variable references: its expansion is the text itself *)
Definition macro_lit (m : macro) : option bytes :=
  if forallb tok_is_text m then Some (flat_map tk_text m) else None.

Lemma macro_lit_expand e s m k : macro_lit m = Some k -> macro_expand e s m = k.
Proof.
  unfold macro_lit, macro_expand. destruct (forallb tok_is_text m) eqn:E; [|discriminate].
  intro H. inversion H; subst. clear H. induction m as [|t m IH]; [reflexivity|].
  cbn [forallb] in E. apply andb_true_iff in E as [Et Em]. cbn [flat_map]. rewrite IH by exact Em.
  f_equal. unfold expand_token, tok_is_text in *. destruct (tk_var t); try discriminate. reflexivity.
Qed.

(* the expanded key can never be [c]: a literal key different from c, or a literal first token
   that is not a prefix of c (keys such as tx.cnt_%{MATCHED_VAR_NAME}) *)
Definition key_avoids (c : bytes) (m : macro) : bool :=
  match macro_lit m with
  | Some k => negb (bytes_eqb (lower_ascii k) c)
  | None => match m with
            | t :: _ => tok_is_text t && negb (is_prefix (lower_ascii (tk_text t)) c)
            | [] => false
            end
  end.

Lemma is_prefix_app p x : is_prefix p (p ++ x) = true.
Proof. induction p as [|a p IH]; [reflexivity|]. cbn [app is_prefix]. rewrite N.eqb_refl. exact IH. Qed.

Lemma key_avoids_ne e s c m : key_avoids c m = true -> lower_ascii (macro_expand e s m) <> c.
Proof.
  unfold key_avoids. destruct (macro_lit m) as [k|] eqn:E.
  - rewrite (macro_lit_expand e s m k E). intros H Heq. apply negb_true_iff, bytes_eqb_neq in H. contradiction.
  - destruct m as [|t m]; [discriminate|]. intros H Heq. apply andb_true_iff in H as [Ht Hp].
    unfold macro_expand in Heq. cbn [flat_map] in Heq.
    assert (Hx : expand_token e s t = tk_text t).
    { unfold expand_token, tok_is_text in *. destruct (tk_var t); try discriminate. reflexivity. }
    rewrite Hx in Heq. unfold lower_ascii in Heq. rewrite map_app in Heq. subst c.
    rewrite is_prefix_app in Hp. discriminate.
Qed.

(* the movement of counter [c] by one execution of a setvar; None: the action is outside the
   hypothesis of C09_sum (assigns / deletes c, or may or may not hit c, or non-literal operand) *)
Definition sv_delta (c : bytes) (a : setvar) : option Z :=
  if key_avoids c (sv_key a) then Some 0%Z
  else match macro_lit (sv_key a), sv_value a with
       | Some k, Some vm =>
         if bytes_eqb (lower_ascii k) c && negb (sv_remove a) then
           match macro_lit vm with
           | Some (sg :: rest) =>
             if (sg =? 43) || (sg =? 45) then
               match sv_operand rest with
               | AOk n => Some (if sg =? 43 then n else (- n)%Z)
               | AErr _ => None
               end
             else None
           | _ => None
           end
         else None
       | _, _ => None
       end.
Definition act_delta (c : bytes) (a : action) : option Z :=
  match a with ASetvar sv => sv_delta c sv | _ => Some 0%Z end.
Definition dl (c : bytes) (a : action) : Z := match act_delta c a with Some d => d | None => 0%Z end.
Definition acts_ok (c : bytes) (acts : list action) : bool :=
  forallb (fun a => match act_delta c a with Some _ => true | None => false end) acts.
Fixpoint acts_delta (c : bytes) (acts : list action) : Z :=
  match acts with [] => 0%Z | a :: r => (dl c a + acts_delta c r)%Z end.
Fixpoint acts_abs (c : bytes) (acts : list action) : Z :=
  match acts with [] => 0%Z | a :: r => (Z.abs (dl c a) + acts_abs c r)%Z end.

Lemma acts_abs_nonneg c acts : (0 <= acts_abs c acts)%Z.
Proof. induction acts; cbn [acts_abs]; lia. Qed.
Lemma acts_delta_le_abs c acts : (Z.abs (acts_delta c acts) <= acts_abs c acts)%Z.
Proof. induction acts; cbn [acts_abs acts_delta]; lia. Qed.

Definition has_nondigit (c : bytes) : bool := existsb (fun b => negb (sv_is_digit b)) c.
Definition inb (z A : Z) : Prop := (Z.abs z + A < two63)%Z.

Lemma tx_counter_frame m m' c : tx_get m' c = tx_get m c -> tx_counter m' c = tx_counter m c.
Proof. unfold tx_counter. intros ->. reflexivity. Qed.

Lemma setvar_eval_counter e rid a s c z d :
  sv_delta c a = Some d -> tx_counter (s_tx s) c = Some z -> inb z (Z.abs d) ->
  tx_counter (s_tx (setvar_eval e rid a s)) c = Some (z + d)%Z.
Proof.
  intros Hd Hz Hb. unfold setvar_eval. cbn [st_with_tx st_log s_tx]. unfold sv_delta in Hd.
  destruct (key_avoids c (sv_key a)) eqn:Ek.
  - inversion Hd; subst d. rewrite Z.add_0_r, <- Hz. apply tx_counter_frame, setvar_apply_frame.
    intro Heq. exact (key_avoids_ne e s c (sv_key a) Ek (eq_sym Heq)).
  - destruct (macro_lit (sv_key a)) as [k|] eqn:Elk; [|discriminate].
    destruct (sv_value a) as [vm|] eqn:Ev; [|discriminate].
    destruct (bytes_eqb (lower_ascii k) c && negb (sv_remove a)) eqn:Ec; [|discriminate].
    apply andb_true_iff in Ec as [Ekc Erm]. apply bytes_eqb_eq in Ekc. apply negb_true_iff in Erm.
    destruct (macro_lit vm) as [[|sg rest]|] eqn:Elv; try discriminate.
    destruct ((sg =? 43) || (sg =? 45)) eqn:Es; [|discriminate].
    destruct (sv_operand rest) as [n|] eqn:En; [|discriminate]. inversion Hd; subst d. clear Hd.
    rewrite (macro_lit_expand e s _ k Elk). unfold macro_expand_opt. rewrite (macro_lit_expand e s vm _ Elv).
    rewrite Erm, Ekc. apply setvar_counter_step; try assumption.
    + apply orb_true_iff in Es as [E1|E1]; apply N.eqb_eq in E1; [left|right]; exact E1.
    + unfold inb, two63 in *. cbn zeta. lia.
Qed.

Lemma run_nd_counter e rid lvl c : forall acts idx s z,
  acts_ok c acts = true -> tx_counter (s_tx s) c = Some z -> inb z (acts_abs c acts) ->
  tx_counter (s_tx (run_nd e rid lvl idx acts s)) c = Some (z + acts_delta c acts)%Z.
Proof.
  induction acts as [|a r IH]; intros idx s z Hok Hz Hb; cbn [run_nd acts_delta acts_abs] in *.
  - rewrite Z.add_0_r. exact Hz.
  - cbn [acts_ok forallb] in Hok. apply andb_true_iff in Hok as [Ha Hr]. fold (acts_ok c r) in Hr.
    pose proof (acts_abs_nonneg c r) as Hnn. unfold inb in *.
    destruct a as [name|sv|name d|name|name]; unfold dl in *; cbn [act_delta] in *;
      try (rewrite Z.add_0_l; apply IH; [exact Hr | exact Hz | unfold inb; cbn in Hb; lia]).
    destruct (sv_delta c sv) as [d|] eqn:Ed; [|discriminate].
    rewrite Z.add_assoc. apply IH; [exact Hr| |unfold inb; lia].
    apply setvar_eval_counter; [exact Ed | exact Hz | unfold inb; lia].
Qed.

Lemma apply_caps_counter caps s c :
  has_nondigit c = true -> tx_counter (s_tx (apply_caps caps s)) c = tx_counter (s_tx s) c.
Proof.
  intro Hc. unfold apply_caps. destruct (s_capture s); [|reflexivity]. cbn [st_with_tx s_tx].
  apply tx_counter_frame. generalize (s_tx s). induction caps as [|[i v] r IH]; intro m; cbn [fold_left]; [reflexivity|].
  rewrite IH. cbn [fst snd]. apply tx_get_setindex0_other. intro Heq. subst c.
  unfold has_nondigit in Hc. apply existsb_exists in Hc as (b & Hin & Hb).
  pose proof (itoa_digits i) as Hd. rewrite Forall_forall in Hd. rewrite (Hd b Hin) in Hb. discriminate.
Qed.

Section SumProofs.
  Variable opid : Type.
  Variable op_eval : opid -> env -> st -> bytes -> bool * list (N * bytes).
  Variable c : bytes.
  Hypothesis c_nondigit : has_nondigit c = true.

  Definition link_delta (l : link opid) : Z := acts_delta c (l_actions l).
  Definition link_abs (l : link opid) : Z := acts_abs c (l_actions l).
  Definition link_ok (l : link opid) : bool := acts_ok c (l_actions l).

  Lemma on_match_counter e (l : link opid) lvl known vn key value s z :
    link_ok l = true -> tx_counter (s_tx s) c = Some z -> inb z (link_abs l) ->
    tx_counter (s_tx (on_match e l lvl known vn key value s)) c = Some (z + link_delta l)%Z.
  Proof.
    intros Hok Hz Hb. unfold on_match. apply run_nd_counter; try assumption.
    destruct known; exact Hz.
  Qed.

  Lemma scale_succ (k : nat) (A : Z) : (Z.of_nat (S k) * A = A + Z.of_nat k * A)%Z.
  Proof. rewrite Nat2Z.inj_succ, Z.mul_succ_l. lia. Qed.

  Lemma eval_cands_counter e (l : link opid) lvl o neg : link_ok l = true -> forall cands s acc s' acc' k z,
    eval_cands op_eval e l lvl o neg cands s acc = (s', acc') ->
    length acc' = (k + length acc)%nat ->
    tx_counter (s_tx s) c = Some z -> inb z (Z.of_nat k * link_abs l) ->
    tx_counter (s_tx s') c = Some (z + Z.of_nat k * link_delta l)%Z.
  Proof.
    intro Hok. pose proof (acts_abs_nonneg c (l_actions l)) as HA. fold (link_abs l) in HA.
    pose proof (acts_delta_le_abs c (l_actions l)) as HD. fold (link_abs l) (link_delta l) in HD.
    induction cands as [|[[vn key] carg] r IH]; intros s acc s' acc' k z H Hl Hz Hb; cbn [eval_cands] in H.
    - inversion H; subst. assert (k = 0%nat) by lia. subst k. rewrite Z.mul_0_l, Z.add_0_r. exact Hz.
    - destruct (op_eval o e s carg) as [res caps].
      assert (Hz1 : tx_counter (s_tx (apply_caps caps s)) c = Some z) by (rewrite apply_caps_counter; assumption).
      destruct (xorb res neg).
      + match type of H with eval_cands _ _ _ _ _ _ _ ?s2 (?md :: _) = _ =>
          destruct (eval_cands_ext opid op_eval e l lvl o neg r s2 (md :: acc) s' acc' H) as (n & k' & _ & Hl' & _) end.
        cbn [length] in Hl'. assert (k = S k') by lia. subst k. rewrite scale_succ in *.
        assert (0 <= Z.of_nat k' * link_abs l)%Z by (apply Z.mul_nonneg_nonneg; lia).
        rewrite Z.add_assoc. eapply IH; [exact H | cbn [length]; lia | | unfold inb in *; lia].
        apply on_match_counter; [exact Hok | exact Hz1 | unfold inb in *; lia].
      + eapply IH; eassumption.
  Qed.

  Lemma eval_targets_counter e (l : link opid) lvl o neg : link_ok l = true -> forall ts s acc s' acc' k z,
    eval_targets op_eval e l lvl o neg ts s acc = (s', acc') ->
    length acc' = (k + length acc)%nat ->
    tx_counter (s_tx s) c = Some z -> inb z (Z.of_nat k * link_abs l) ->
    tx_counter (s_tx s') c = Some (z + Z.of_nat k * link_delta l)%Z.
  Proof.
    intro Hok. pose proof (acts_abs_nonneg c (l_actions l)) as HA. fold (link_abs l) in HA.
    pose proof (acts_delta_le_abs c (l_actions l)) as HD. fold (link_abs l) (link_delta l) in HD.
    induction ts as [|t r IH]; intros s acc s' acc' k z H Hl Hz Hb; cbn [eval_targets] in H.
    - inversion H; subst. assert (k = 0%nat) by lia. subst k. rewrite Z.mul_0_l, Z.add_0_r. exact Hz.
    - destruct (eval_cands op_eval e l lvl o neg (target_cands e l s t) s acc) as [s1 acc1] eqn:E.
      destruct (eval_cands_ext opid op_eval e l lvl o neg _ _ _ _ _ E) as (n1 & k1 & _ & Hl1 & _).
      destruct (eval_targets_ext opid op_eval e l lvl o neg _ _ _ _ _ H) as (n2 & k2 & _ & Hl2 & _).
      assert (k = (k2 + k1)%nat) by lia. subst k. rewrite Nat2Z.inj_add, Z.mul_add_distr_r in *.
      assert (0 <= Z.of_nat k1 * link_abs l)%Z by (apply Z.mul_nonneg_nonneg; lia).
      assert (0 <= Z.of_nat k2 * link_abs l)%Z by (apply Z.mul_nonneg_nonneg; lia).
      assert (Z.abs (Z.of_nat k1 * link_delta l) <= Z.of_nat k1 * link_abs l)%Z.
      { rewrite Z.abs_mul, Z.abs_eq by lia. apply Z.mul_le_mono_nonneg_l; lia. }
      pose proof (eval_cands_counter e l lvl o neg Hok _ _ _ _ _ k1 z E Hl1 Hz) as Hcs.
      replace (z + (Z.of_nat k2 * link_delta l + Z.of_nat k1 * link_delta l))%Z
        with ((z + Z.of_nat k1 * link_delta l) + Z.of_nat k2 * link_delta l)%Z by lia.
      eapply IH; [exact H | exact Hl2 | apply Hcs; unfold inb in *; lia | unfold inb in *; lia].
  Qed.

  Lemma link_prologue_tx e (l : link opid) s : s_tx (link_prologue e l s) = s_tx s.
  Proof. unfold link_prologue. destruct (l_msg l), (l_logdata l); reflexivity. Qed.

  Lemma eval_link_counter e (l : link opid) lvl s s' mds z :
    link_ok l = true -> eval_link op_eval e l lvl s = (s', mds) ->
    tx_counter (s_tx s) c = Some z -> inb z (Z.of_nat (length mds) * link_abs l) ->
    tx_counter (s_tx s') c = Some (z + Z.of_nat (length mds) * link_delta l)%Z.
  Proof.
    intros Hok H Hz Hb. unfold eval_link in H. cbv zeta in H. destruct (l_op l) as [[[ts o] neg]|].
    - destruct (eval_targets op_eval e l lvl o neg ts (link_prologue e l s) []) as [s1 acc] eqn:E.
      injection H as Hs Hm. subst s' mds. rewrite rev_length in *.
      eapply eval_targets_counter; [exact Hok | exact E | cbn [length]; lia | rewrite link_prologue_tx; exact Hz | exact Hb].
    - assert (Hz' : tx_counter (s_tx (link_prologue e l s)) c = Some z) by (rewrite link_prologue_tx; exact Hz).
      pose proof (on_match_counter e l lvl false (var_name VUnknown) [] [] (link_prologue e l s) z Hok Hz') as Hom.
      injection H as Hs Hm. subst s' mds. cbn [length] in *. rewrite Z.mul_1_l in *. apply Hom. exact Hb.
  Qed.

  (* the sum over the evaluated links of a chain walk: matches of the link times f link *)
  Fixpoint chain_sum (f : link opid -> Z) (e : env) (links : list (link opid)) (lvl : nat) (s : st) : Z :=
    match links with
    | [] => 0%Z
    | l :: r =>
      let '(s1, mds) := eval_link op_eval e l lvl s in
      (Z.of_nat (length mds) * f l + match mds with [] => 0 | _ => chain_sum f e r (S lvl) s1 end)%Z
    end.

  Lemma chain_sum_abs_nonneg e : forall links lvl s, (0 <= chain_sum link_abs e links lvl s)%Z.
  Proof.
    induction links as [|l r IH]; intros lvl s; cbn [chain_sum]; [lia|].
    destruct (eval_link op_eval e l lvl s) as [s1 mds].
    assert (0 <= Z.of_nat (length mds) * link_abs l)%Z by (apply Z.mul_nonneg_nonneg; [lia | apply acts_abs_nonneg]).
    destruct mds; [lia|]. specialize (IH (S lvl) s1). lia.
  Qed.

  Lemma eval_chain_counter e : forall links lvl s s' res z,
    forallb link_ok links = true -> eval_chain op_eval e links lvl s = (s', res) ->
    tx_counter (s_tx s) c = Some z -> inb z (chain_sum link_abs e links lvl s) ->
    tx_counter (s_tx s') c = Some (z + chain_sum link_delta e links lvl s)%Z.
  Proof.
    induction links as [|l r IH]; intros lvl s s' res z Hok H Hz Hb; cbn [eval_chain chain_sum forallb] in *.
    - inversion H; subst. rewrite Z.add_0_r. exact Hz.
    - apply andb_true_iff in Hok as [Hl Hr].
      destruct (eval_link op_eval e l lvl s) as [s1 mds] eqn:E.
      pose proof (acts_abs_nonneg c (l_actions l)) as HA. fold (link_abs l) in HA.
      pose proof (acts_delta_le_abs c (l_actions l)) as HD. fold (link_abs l) (link_delta l) in HD.
      assert (HkA : (0 <= Z.of_nat (length mds) * link_abs l)%Z) by (apply Z.mul_nonneg_nonneg; lia).
      assert (HkD : (Z.abs (Z.of_nat (length mds) * link_delta l) <= Z.of_nat (length mds) * link_abs l)%Z).
      { rewrite Z.abs_mul, Z.abs_eq by lia. apply Z.mul_le_mono_nonneg_l; lia. }
      destruct mds as [|md mds'].
      + inversion H; subst.
        replace (z + (Z.of_nat (length (@nil mdata)) * link_delta l + 0))%Z
          with (z + Z.of_nat (length (@nil mdata)) * link_delta l)%Z by lia.
        eapply eval_link_counter; [exact Hl | exact E | exact Hz | unfold inb in *; lia].
      + destruct (eval_chain op_eval e r (S lvl) s1) as [s2 rest] eqn:E2. inversion H; subst.
        pose proof (chain_sum_abs_nonneg e r (S lvl) s1) as Hnn.
        rewrite Z.add_assoc. eapply IH; [exact Hr | exact E2 | | unfold inb in *; lia].
        eapply eval_link_counter; [exact Hl | exact E | exact Hz | unfold inb in *; lia].
  Qed.

  Definition rule_ok (r : rule opid) : bool := forallb link_ok (r_head r :: r_chain r).
  Definition rule_sum (f : link opid -> Z) (e : env) (r : rule opid) (s : st) : Z :=
    chain_sum f e (r_head r :: r_chain r) 0 s.

  Lemma match_rule_tx (l : link opid) mds s : s_tx (match_rule l mds s) = s_tx s.
  Proof. unfold match_rule. destruct (first_msg mds). reflexivity. Qed.

  Lemma eval_rule_counter e (r : rule opid) s z :
    rule_ok r = true -> tx_counter (s_tx s) c = Some z -> inb z (rule_sum link_abs e r s) ->
    tx_counter (s_tx (eval_rule op_eval e r s)) c = Some (z + rule_sum link_delta e r s)%Z.
  Proof.
    intros Hok Hz Hb. unfold eval_rule, rule_sum in *.
    destruct (eval_chain op_eval e (r_head r :: r_chain r) 0 s) as [s2 res] eqn:E.
    pose proof (eval_chain_counter e _ _ _ _ _ z Hok E Hz Hb) as H.
    destruct res as [all|]; [|exact H].
    destruct (run_flow_disr_ext (link_rid (r_head r)) (l_actions (r_head r)) s2) as (n & _ & _ & _ & Hx & _).
    destruct (l_id (r_head r) =? 0)%Z; [|rewrite match_rule_tx]; rewrite Hx; exact H.
  Qed.

  (* the sum over the rules evaluated in one phase, in order (mirrors eval_rules) *)
  Fixpoint rules_sum (f : link opid -> Z) (e : env) (phase : N) (rs : list (rule opid)) (s : st) : Z :=
    match rs with
    | [] => 0%Z
    | r :: rest =>
      match s_interrupted s, negb (phase =? 5) with
      | Some _, true => 0%Z
      | _, _ =>
        if r_phase r =? phase then
          (rule_sum f e r (st_reset_mvs s) +
           rules_sum f e phase rest (st_with_capture (eval_rule op_eval e r (st_reset_mvs s)) false))%Z
        else rules_sum f e phase rest s
      end
    end.
  Definition phase_sum (f : link opid -> Z) (e : env) (rs : list (rule opid)) (s : st) (phase : N) : Z :=
    match s_interrupted s, negb (phase =? 5) with
    | Some _, true => 0%Z
    | _, _ => rules_sum f e phase rs s
    end.
  Fixpoint phases_sum (f : link opid -> Z) (e : env) (rs : list (rule opid)) (ps : list N) (s : st) : Z :=
    match ps with
    | [] => 0%Z
    | p :: r => (phase_sum f e rs s p + phases_sum f e rs r (eval_phase op_eval e rs s p))%Z
    end.
  Definition tx_sum (f : link opid -> Z) (e : env) (rs : list (rule opid)) (s : st) : Z :=
    phases_sum f e rs [1; 2; 3; 4; 5] s.

  Lemma rules_sum_abs_nonneg e phase : forall rs s, (0 <= rules_sum link_abs e phase rs s)%Z.
  Proof.
    induction rs as [|r rest IH]; intro s; cbn [rules_sum]; [lia|].
    destruct (s_interrupted s), (negb (phase =? 5)); try lia;
      (destruct (r_phase r =? phase); [|apply IH];
       pose proof (chain_sum_abs_nonneg e (r_head r :: r_chain r) 0 (st_reset_mvs s)) as H1; unfold rule_sum;
       specialize (IH (st_with_capture (eval_rule op_eval e r (st_reset_mvs s)) false)); lia).
  Qed.

  Lemma eval_rules_counter e phase : forall rs s z,
    forallb rule_ok rs = true -> tx_counter (s_tx s) c = Some z -> inb z (rules_sum link_abs e phase rs s) ->
    tx_counter (s_tx (eval_rules op_eval e phase rs s)) c = Some (z + rules_sum link_delta e phase rs s)%Z.
  Proof.
    induction rs as [|r rest IH]; intros s z Hok Hz Hb; cbn [eval_rules rules_sum forallb] in *.
    - rewrite Z.add_0_r. exact Hz.
    - apply andb_true_iff in Hok as [Hr Hrest].
      assert (Hstep : r_phase r =? phase = true ->
        inb z (rule_sum link_abs e r (st_reset_mvs s) +
               rules_sum link_abs e phase rest (st_with_capture (eval_rule op_eval e r (st_reset_mvs s)) false)) ->
        tx_counter (s_tx (eval_rules op_eval e phase rest (st_with_capture (eval_rule op_eval e r (st_reset_mvs s)) false))) c =
        Some (z + (rule_sum link_delta e r (st_reset_mvs s) +
                   rules_sum link_delta e phase rest (st_with_capture (eval_rule op_eval e r (st_reset_mvs s)) false)))%Z).
      { intros _ Hb'.
        pose proof (chain_sum_abs_nonneg e (r_head r :: r_chain r) 0 (st_reset_mvs s)) as H1. fold (rule_sum link_abs e r (st_reset_mvs s)) in H1.
        pose proof (rules_sum_abs_nonneg e phase rest (st_with_capture (eval_rule op_eval e r (st_reset_mvs s)) false)) as H2.
        assert (Hz0 : tx_counter (s_tx (st_reset_mvs s)) c = Some z) by exact Hz.
        assert (Hb0 : inb z (rule_sum link_abs e r (st_reset_mvs s))) by (unfold inb in *; lia).
        pose proof (eval_rule_counter e r (st_reset_mvs s) z Hr Hz0 Hb0) as Hc.
        rewrite Z.add_assoc. apply IH; [exact Hrest | exact Hc |].
        assert (Z.abs (rule_sum link_delta e r (st_reset_mvs s)) <= rule_sum link_abs e r (st_reset_mvs s))%Z.
        { clear - c. unfold rule_sum. generalize (r_head r :: r_chain r) 0%nat (st_reset_mvs s).
          induction l as [|l0 l IHl]; intros lvl s0; cbn [chain_sum]; [lia|].
          destruct (eval_link op_eval e l0 lvl s0) as [s1 mds].
          pose proof (acts_abs_nonneg c (l_actions l0)) as HA. fold (link_abs l0) in HA.
          pose proof (acts_delta_le_abs c (l_actions l0)) as HD. fold (link_abs l0) (link_delta l0) in HD.
          assert (Z.abs (Z.of_nat (length mds) * link_delta l0) <= Z.of_nat (length mds) * link_abs l0)%Z.
          { rewrite Z.abs_mul, Z.abs_eq by lia. apply Z.mul_le_mono_nonneg_l; lia. }
          destruct mds; [lia|]. specialize (IHl (S lvl) s1). lia. }
        unfold inb in *. lia. }
      destruct (s_interrupted s) eqn:Ei, (negb (phase =? 5)) eqn:Ep;
        try (rewrite Z.add_0_r; exact Hz);
        (destruct (r_phase r =? phase) eqn:Eph; [apply Hstep; [reflexivity | exact Hb] | apply IH; assumption]).
  Qed.

  Lemma eval_phase_counter e rs s z phase :
    forallb rule_ok rs = true -> tx_counter (s_tx s) c = Some z -> inb z (phase_sum link_abs e rs s phase) ->
    tx_counter (s_tx (eval_phase op_eval e rs s phase)) c = Some (z + phase_sum link_delta e rs s phase)%Z.
  Proof.
    intros Hok Hz Hb. unfold eval_phase, phase_sum in *.
    destruct (s_interrupted s), (negb (phase =? 5)); try (rewrite Z.add_0_r; exact Hz);
      apply eval_rules_counter; assumption.
  Qed.

  Lemma phase_sum_abs_nonneg e rs s p : (0 <= phase_sum link_abs e rs s p)%Z.
  Proof. unfold phase_sum. destruct (s_interrupted s), (negb (p =? 5)); try lia; apply rules_sum_abs_nonneg. Qed.

  Lemma phases_sum_abs_nonneg e rs : forall ps s, (0 <= phases_sum link_abs e rs ps s)%Z.
  Proof.
    induction ps as [|p r IH]; intro s; cbn [phases_sum]; [lia|].
    pose proof (phase_sum_abs_nonneg e rs s p). specialize (IH (eval_phase op_eval e rs s p)). lia.
  Qed.

  Lemma phase_sum_delta_le_abs e rs s p : (Z.abs (phase_sum link_delta e rs s p) <= phase_sum link_abs e rs s p)%Z.
  Proof.
    assert (Hchain : forall links lvl s0, (Z.abs (chain_sum link_delta e links lvl s0) <= chain_sum link_abs e links lvl s0)%Z).
    { induction links as [|l0 l IHl]; intros lvl s0; cbn [chain_sum]; [lia|].
      destruct (eval_link op_eval e l0 lvl s0) as [s1 mds].
      pose proof (acts_abs_nonneg c (l_actions l0)) as HA. fold (link_abs l0) in HA.
      pose proof (acts_delta_le_abs c (l_actions l0)) as HD. fold (link_abs l0) (link_delta l0) in HD.
      assert (Z.abs (Z.of_nat (length mds) * link_delta l0) <= Z.of_nat (length mds) * link_abs l0)%Z.
      { rewrite Z.abs_mul, Z.abs_eq by lia. apply Z.mul_le_mono_nonneg_l; lia. }
      destruct mds; [lia|]. specialize (IHl (S lvl) s1). lia. }
    assert (Hrules : forall l s0, (Z.abs (rules_sum link_delta e p l s0) <= rules_sum link_abs e p l s0)%Z).
    { induction l as [|r rest IH]; intro s0; cbn [rules_sum]; [lia|].
      destruct (s_interrupted s0), (negb (p =? 5)); try lia;
        (destruct (r_phase r =? p); [|apply IH];
         pose proof (Hchain (r_head r :: r_chain r) 0%nat (st_reset_mvs s0)) as H1; unfold rule_sum;
         specialize (IH (st_with_capture (eval_rule op_eval e r (st_reset_mvs s0)) false)); lia). }
    unfold phase_sum. destruct (s_interrupted s), (negb (p =? 5)); try lia; apply Hrules.
  Qed.

  Lemma phases_counter e rs : forallb rule_ok rs = true -> forall ps s z,
    tx_counter (s_tx s) c = Some z -> inb z (phases_sum link_abs e rs ps s) ->
    tx_counter (s_tx (fold_left (eval_phase op_eval e rs) ps s)) c = Some (z + phases_sum link_delta e rs ps s)%Z.
  Proof.
    intro Hok. induction ps as [|p r IH]; intros s z Hz Hb; cbn [fold_left phases_sum] in *.
    - rewrite Z.add_0_r. exact Hz.
    - pose proof (phase_sum_abs_nonneg e rs s p) as H1.
      pose proof (phases_sum_abs_nonneg e rs r (eval_phase op_eval e rs s p)) as H2.
      pose proof (phase_sum_delta_le_abs e rs s p) as H3.
      rewrite Z.add_assoc. apply IH; [|unfold inb in *; lia].
      apply eval_phase_counter; [exact Hok | exact Hz | unfold inb in *; lia].
  Qed.

  (* C09_sum *)
  Theorem sum_exact e rs s z :
    forallb rule_ok rs = true -> tx_counter (s_tx s) c = Some z -> inb z (tx_sum link_abs e rs s) ->
    tx_counter (s_tx (eval_tx op_eval e rs s)) c = Some (z + tx_sum link_delta e rs s)%Z.
  Proof. intros Hok Hz Hb. unfold eval_tx, tx_sum in *. apply phases_counter; assumption. Qed.
End SumProofs.

(* ------------------------------------------------------------------------------------ *)
(* C09_highest_severity_min                                                             *)
(* ------------------------------------------------------------------------------------ *)
Definition hm (s : st) : bytes * list mrule := (s_hs s, s_matched s).
Definition sev_ok (sv : option Z) : bool :=
  match sv with Some v => (- two63 <=? v)%Z && (v <? two63)%Z | None => true end.
(* minimum of h and the severities that are set among the matched rules *)
Definition fold_min (h : Z) (ms : list mrule) : Z :=
  fold_right (fun m acc => match mr_sev m with Some v => Z.min v acc | None => acc end) h ms.
Definition hs_inv (h0 : Z) (s : st) : Prop :=
  s_hs s = z_itoa (fold_min h0 (s_matched s)) /\ (- two63 <= fold_min h0 (s_matched s) < two63)%Z.

Section SeverityProofs.
  Variable opid : Type.
  Variable op_eval : opid -> env -> st -> bytes -> bool * list (N * bytes).

  Lemma run_nd_hm e rid lvl acts idx s : hm (run_nd e rid lvl idx acts s) = hm s.
  Proof.
    destruct (run_nd_fields e rid lvl acts idx s) as (_ & _ & H1 & H2 & _). unfold hm. cbn zeta in *. rewrite H1, H2. reflexivity.
  Qed.

  Lemma on_match_hm e (l : link opid) lvl known vn key value s : hm (on_match e l lvl known vn key value s) = hm s.
  Proof. unfold on_match. rewrite run_nd_hm. destruct known; reflexivity. Qed.

  Lemma apply_caps_hm caps s : hm (apply_caps caps s) = hm s.
  Proof. unfold apply_caps. destruct (s_capture s); reflexivity. Qed.

  Lemma eval_cands_hm e (l : link opid) lvl o neg : forall cands s acc s' acc',
    eval_cands op_eval e l lvl o neg cands s acc = (s', acc') -> hm s' = hm s.
  Proof.
    induction cands as [|[[vn key] carg] r IH]; intros s acc s' acc' H; cbn [eval_cands] in H.
    - inversion H; reflexivity.
    - destruct (op_eval o e s carg) as [res caps]. destruct (xorb res neg).
      + apply IH in H. rewrite H, on_match_hm, apply_caps_hm. reflexivity.
      + apply IH in H. rewrite H, apply_caps_hm. reflexivity.
  Qed.

  Lemma eval_targets_hm e (l : link opid) lvl o neg : forall ts s acc s' acc',
    eval_targets op_eval e l lvl o neg ts s acc = (s', acc') -> hm s' = hm s.
  Proof.
    induction ts as [|t r IH]; intros s acc s' acc' H; cbn [eval_targets] in H.
    - inversion H; reflexivity.
    - destruct (eval_cands op_eval e l lvl o neg (target_cands e l s t) s acc) as [s1 acc1] eqn:E.
      apply eval_cands_hm in E. apply IH in H. congruence.
  Qed.

  Lemma link_prologue_hm e (l : link opid) s : hm (link_prologue e l s) = hm s.
  Proof. unfold link_prologue. destruct (l_msg l), (l_logdata l); reflexivity. Qed.

  Lemma eval_link_hm e (l : link opid) lvl s s' mds : eval_link op_eval e l lvl s = (s', mds) -> hm s' = hm s.
  Proof.
    unfold eval_link. intro H. cbv zeta in H. destruct (l_op l) as [[[ts o] neg]|].
    - destruct (eval_targets op_eval e l lvl o neg ts (link_prologue e l s) []) as [s1 acc] eqn:E.
      apply eval_targets_hm in E. inversion H; subst. rewrite E. apply link_prologue_hm.
    - pose proof (on_match_hm e l lvl false (var_name VUnknown) [] [] (link_prologue e l s)) as Ho.
      injection H as Hs Hm. subst s'. etransitivity; [exact Ho|]. apply link_prologue_hm.
  Qed.

  Lemma eval_chain_hm e : forall links lvl s s' res, eval_chain op_eval e links lvl s = (s', res) -> hm s' = hm s.
  Proof.
    induction links as [|l r IH]; intros lvl s s' res H; cbn [eval_chain] in H.
    - inversion H; reflexivity.
    - destruct (eval_link op_eval e l lvl s) as [s1 mds] eqn:E. apply eval_link_hm in E.
      destruct mds; [inversion H; subst; exact E|].
      destruct (eval_chain op_eval e r (S lvl) s1) as [s2 rest] eqn:E2. apply IH in E2. inversion H; subst. congruence.
  Qed.

  Lemma match_rule_inv h0 (l : link opid) mds s :
    sev_ok (l_sev l) = true -> hs_inv h0 s -> hs_inv h0 (match_rule l mds s).
  Proof.
    intros Hs [Hh Hr]. unfold hs_inv, match_rule. destruct (first_msg mds) as [m d]. cbn [s_hs s_matched st_log fold_min fold_right mr_sev].
    fold (fold_min h0 (s_matched s)). destruct (l_sev l) as [sv|]; [|split; assumption].
    unfold sev_ok in Hs. apply andb_true_iff in Hs as [H1 H2]. apply Z.leb_le in H1. apply Z.ltb_lt in H2.
    rewrite Hh, (atoi_z_itoa _ Hr). cbn [atoi_val].
    destruct (sv <? fold_min h0 (s_matched s))%Z eqn:E.
    - apply Z.ltb_lt in E. rewrite Z.min_l by lia. split; [reflexivity | lia].
    - apply Z.ltb_ge in E. rewrite Z.min_r by lia. split; [reflexivity | exact Hr].
  Qed.

  Lemma hs_inv_hm h0 s s' : hm s' = hm s -> hs_inv h0 s -> hs_inv h0 s'.
  Proof. unfold hm, hs_inv. intro H. inversion H as [[H1 H2]]. rewrite H1, H2. tauto. Qed.

  Lemma eval_rule_inv h0 e (r : rule opid) s :
    sev_ok (l_sev (r_head r)) = true -> hs_inv h0 s -> hs_inv h0 (eval_rule op_eval e r s).
  Proof.
    intros Hs Hi. unfold eval_rule.
    destruct (eval_chain op_eval e (r_head r :: r_chain r) 0 s) as [s2 res] eqn:E. apply eval_chain_hm in E.
    pose proof (hs_inv_hm h0 s s2 E Hi) as Hi2. destruct res as [all|]; [|exact Hi2].
    destruct (run_flow_disr_ext (link_rid (r_head r)) (l_actions (r_head r)) s2) as (n & _ & _ & _ & _ & Hh & Hm).
    assert (Hi3 : hs_inv h0 (run_flow_disr (link_rid (r_head r)) (l_actions (r_head r)) s2)).
    { apply (hs_inv_hm h0 s2); [unfold hm; rewrite Hh, Hm; reflexivity | exact Hi2]. }
    destruct (l_id (r_head r) =? 0)%Z; [exact Hi3|]. apply match_rule_inv; assumption.
  Qed.

  Definition rules_sev_ok (rs : list (rule opid)) : bool := forallb (fun r => sev_ok (l_sev (r_head r))) rs.

  Lemma eval_rules_inv h0 e phase : forall rs s,
    rules_sev_ok rs = true -> hs_inv h0 s -> hs_inv h0 (eval_rules op_eval e phase rs s).
  Proof.
    induction rs as [|r rest IH]; intros s Hok Hi; cbn [eval_rules]; [exact Hi|].
    cbn [rules_sev_ok forallb] in Hok. apply andb_true_iff in Hok as [Hr Hrest].
    assert (Hstep : hs_inv h0 (eval_rules op_eval e phase rest (st_with_capture (eval_rule op_eval e r (st_reset_mvs s)) false))).
    { apply IH; [exact Hrest|]. apply (hs_inv_hm h0 (eval_rule op_eval e r (st_reset_mvs s))); [reflexivity|].
      apply eval_rule_inv; [exact Hr|]. apply (hs_inv_hm h0 s); [reflexivity | exact Hi]. }
    destruct (s_interrupted s), (negb (phase =? 5)); try exact Hi;
      (destruct (r_phase r =? phase); [exact Hstep | apply IH; assumption]).
  Qed.

  (* C09_highest_severity_min *)
  Theorem highest_severity_min h0 e rs s :
    rules_sev_ok rs = true -> hs_inv h0 s -> hs_inv h0 (eval_tx op_eval e rs s).
  Proof.
    intros Hok Hi. unfold eval_tx. generalize [1; 2; 3; 4; 5]. intro ps. revert s Hi.
    induction ps as [|p r IH]; intros s Hi; cbn [fold_left]; [exact Hi|].
    apply IH. unfold eval_phase. destruct (s_interrupted s), (negb (p =? 5)); try exact Hi; apply eval_rules_inv; assumption.
  Qed.

  Corollary highest_severity_min_init e rs :
    rules_sev_ok rs = true ->
    s_hs (eval_tx op_eval e rs st_init) = z_itoa (fold_min 255 (s_matched (eval_tx op_eval e rs st_init))).
  Proof.
    intro Hok. apply (highest_severity_min 255 e rs st_init Hok). split; [reflexivity | cbn; unfold two63; lia].
  Qed.
End SeverityProofs.

(* ------------------------------------------------------------------------------------ *)
(* the counting form of the trace theorems                                              *)
(* ------------------------------------------------------------------------------------ *)
Lemma once_per_match_link opid op_eval e (l : link opid) lvl s s' mds :
  eval_link op_eval e l lvl s = (s', mds) ->
  exists new, s_trace s' = new ++ s_trace s /\
    forall i a, nth_error (l_actions l) i = Some a -> is_nd a = true ->
                count_tag (lvl, i) (act_tags new) = length mds.
Proof.
  intro H. destruct (eval_link_ext opid op_eval e l lvl s s' mds H) as (n & He & Ht & _).
  exists n. split; [exact He|]. intros i a Hi Ha.
  rewrite Ht, count_tag_concat_repeat, (count_link_tags l lvl i a Hi Ha). lia.
Qed.

Lemma once_per_match_rule opid op_eval e (r : rule opid) s :
  exists new, s_trace (eval_rule op_eval e r s) = new ++ s_trace s /\
    (forall k l i a, nth_error (rule_links opid r) k = Some l -> nth_error (l_actions l) i = Some a -> is_nd a = true ->
       count_tag (k, i) (act_tags new) = nth k (rule_counts opid op_eval e r s) 0%nat) /\
    fd_events new =
      if chain_complete opid (rule_links opid r) (rule_counts opid op_eval e r s)
      then (if (l_id (r_head r) =? 0)%Z then [] else [EvRuleMatched (l_id (r_head r))]) ++ rev (fd_names (l_actions (r_head r)))
      else [].
Proof.
  destruct (eval_rule_ext opid op_eval e r s) as (n & He & Ht & Hf). exists n. split; [exact He|]. split; [|exact Hf].
  intros k l i a Hk Hi Ha. rewrite Ht.
  exact (chain_tags_count opid (rule_links opid r) 0 (rule_counts opid op_eval e r s) k l i a Hk Hi Ha).
Qed.

(* the guard of C09_sum is satisfiable by the rule shapes of anomaly scoring *)
Example sum_guard_nontrivial :
  let c := str "score" in
  match setvar_init (str "tx.score=+5"), setvar_init (str "tx.cnt_%{MATCHED_VAR_NAME}=+1"),
        setvar_init (str "tx.score=-2"), setvar_init (str "tx.last=%{MATCHED_VAR}") with
  | Some a1, Some a2, Some a3, Some a4 =>
      acts_ok c [ANd (str "log"); ASetvar a1; ASetvar a2; ASetvar a3; ASetvar a4; ADisr (str "pass") false] = true /\
      acts_delta c [ASetvar a1; ASetvar a2; ASetvar a3; ASetvar a4] = 3%Z /\
      acts_abs c [ASetvar a1; ASetvar a2; ASetvar a3; ASetvar a4] = 7%Z
  | _, _, _, _ => False
  end.
Proof. vm_compute. repeat split. Qed.

(* ------------------------------------------------------------------------------------ *)
(* captures: TX.0-9 seen by a match's actions are that value's captures                 *)
(* ------------------------------------------------------------------------------------ *)
Lemma itoa_inj a b : itoa a = itoa b -> a = b.
Proof. intro H. rewrite <- (itoa_val a), <- (itoa_val b), H. reflexivity. Qed.

Lemma fold_setindex_other caps : forall m k,
  (forall c, In c caps -> itoa (fst c) <> k) ->
  tx_get (fold_left (fun m c => tx_setindex0 m (itoa (fst c)) (snd c)) caps m) k = tx_get m k.
Proof.
  induction caps as [|c r IH]; intros m k H; cbn [fold_left]; [reflexivity|].
  rewrite IH by (intros c0 Hc0; apply H; right; exact Hc0).
  apply tx_get_setindex0_other. intro Heq. exact (H c (or_introl eq_refl) (eq_sym Heq)).
Qed.

(* every field the operator reports (the empty string of a group that did not participate
   included) is the first value of TX.<index> in the state handed to the match's actions *)
Lemma apply_caps_get caps s i v :
  s_capture s = true -> NoDup (map fst caps) -> In (i, v) caps ->
  exists rest, tx_get (s_tx (apply_caps caps s)) (itoa i) = v :: rest.
Proof.
  intros Hc Hnd Hin. unfold apply_caps. rewrite Hc. cbn [st_with_tx s_tx]. generalize (s_tx s).
  induction caps as [|c r IH]; intro m; [contradiction|]. cbn [fold_left map] in *.
  inversion Hnd as [|? ? Hn Hr]; subst. destruct Hin as [->|Hin].
  - cbn [fst snd]. rewrite fold_setindex_other.
    + apply tx_get_setindex0_same.
    + intros c Hc0 Heq. apply itoa_inj in Heq. apply Hn. cbn [fst]. rewrite <- Heq. apply (in_map fst). exact Hc0.
  - apply IH; assumption.
Qed.

Lemma eval_cands_step opid op_eval e (l : link opid) lvl o neg vn key carg r s acc :
  eval_cands op_eval e l lvl o neg ((vn, key, carg) :: r) s acc =
    let '(res, caps) := op_eval o e s carg in
    let s1 := apply_caps caps s in
    if xorb res neg then
      let s2 := on_match e l lvl true vn key carg s1 in
      eval_cands op_eval e l lvl o neg r s2
        (mk_md e l (negb (l_parent l =? 0)%Z || negb (l_haschain l)) vn key carg s2 :: acc)
    else eval_cands op_eval e l lvl o neg r s1 acc.
Proof. reflexivity. Qed.

(* ------------------------------------------------------------------------------------ *)
(* pooled transaction objects: the n-th transaction starts like the first               *)
(* ------------------------------------------------------------------------------------ *)
Lemma st_new_close_init s : st_new (st_close s) = st_init.
Proof. reflexivity. Qed.

Lemma run_priors_init opid op_eval (rs : list (rule opid)) priors :
  run_priors op_eval rs priors st_init = st_init.
Proof.
  induction priors as [|e r IH]; [reflexivity|]. cbn [run_priors]. rewrite st_new_close_init. exact IH.
Qed.

Lemma nth_tx_is_first opid op_eval (rs : list (rule opid)) priors e :
  eval_nth_tx op_eval rs priors e = eval_tx op_eval e rs st_init.
Proof. unfold eval_nth_tx. rewrite run_priors_init. reflexivity. Qed.

Lemma highest_severity_min_nth opid op_eval (rs : list (rule opid)) priors e :
  rules_sev_ok opid rs = true ->
  s_hs (eval_nth_tx op_eval rs priors e) = z_itoa (fold_min 255 (s_matched (eval_nth_tx op_eval rs priors e))).
Proof. intro H. rewrite nth_tx_is_first. apply highest_severity_min_init. exact H. Qed.
