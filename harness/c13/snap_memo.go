//go:build !coraza.no_memoize

package c13

import (
	"fmt"
	"reflect"
	"regexp"
	"strings"

	"github.com/kaptinlin/jsonschema"
	ahocorasick "github.com/petar-dambovaliev/aho-corasick"
	"rsc.io/binaryregexp"

	"github.com/corazawaf/coraza/v3/internal/corazawaf"
	"github.com/corazawaf/coraza/v3/internal/memoize"
	"github.com/corazawaf/coraza/v3/internal/operators"
)

const memoized = true

type obsEntry struct {
	Key    string
	Type   int
	Desc   string
	Owners []uint64 // WAF slots + 1 (0: an owner id that belongs to no WAF of the case)
}

func ownerID(w *corazawaf.WAF) uint64 { return w.Memoizer().VerifOwnerID() }
func resetCache()                     { memoize.Reset() }

// describe maps a cached value to (type code, content descriptor) — see CorrC13.art_type / art_desc
func describe(v any) (code int, desc string) {
	defer func() {
		if r := recover(); r != nil {
			code, desc = 0, fmt.Sprintf("%T: %v", v, r)
		}
	}()
	if rv := reflect.ValueOf(v); !rv.IsValid() || (rv.Kind() == reflect.Pointer && rv.IsNil()) {
		return 0, fmt.Sprintf("nil %T", v)
	}
	switch x := v.(type) {
	case *regexp.Regexp:
		return 1, x.String()
	case *binaryregexp.Regexp:
		return 2, x.String()
	case ahocorasick.AhoCorasick:
		impl := "?"
		f := reflect.ValueOf(x).Field(0)
		if f.Kind() == reflect.Interface && !f.IsNil() {
			tn := f.Elem().Type().String()
			switch {
			case strings.HasSuffix(tn, "iDFA"):
				impl = "dfa"
			case strings.HasSuffix(tn, "iNFA"):
				impl = "nfa"
			default:
				impl = tn
			}
		}
		var bits strings.Builder
		for _, w := range acVocab {
			if x.Iter(w).Next() != nil {
				bits.WriteByte('1')
			} else {
				bits.WriteByte('0')
			}
		}
		return 4, fmt.Sprintf("%s|%d|%s", impl, x.PatternCount(), bits.String())
	case *jsonschema.Schema:
		if x != nil && x.Title != nil {
			return 5, *x.Title
		}
		return 5, ""
	}
	if re, pf, ok := operators.VerifC13RxCompiled(v); ok {
		if pf {
			return 3, re + "|1"
		}
		return 3, re + "|0"
	}
	return 0, fmt.Sprintf("%T", v)
}

// snapshot reads the real cache; owner ids are mapped to the WAF slots of the case
func snapshot(ownerSlot map[uint64]int) []obsEntry {
	var out []obsEntry
	for _, e := range memoize.VerifSnapshot() {
		t, d := describe(e.Value)
		if e.Deleted {
			t, d = 0, "deleted entry reachable through the map"
		}
		o := obsEntry{Key: e.Key, Type: t, Desc: d}
		for _, id := range e.Owners {
			o.Owners = append(o.Owners, uint64(ownerSlot[id]))
		}
		out = append(out, o)
	}
	return out
}
