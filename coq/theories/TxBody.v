(* TxBody.v — executable model of the body entry points of internal/corazawaf/transaction.go:
   WriteRequestBody (:923), ReadRequestBodyFrom (:991), ProcessRequestBody (:1070),
   WriteResponseBody (:1203), ReadResponseBodyFrom (:1257), ProcessResponseBody (:1327),
   setAndReturnBodyLimitInterruption (:908), every guard in source order, parametrised by the
   direction (request: status 413, overflow guard, body processor; response: status 500,
   IsResponseBodyProcessable).

   What a body phase does is abstracted to what matters here: Rules.Eval sets lastPhase, the
   harness's counting rule runs (ghost counter [s_runs], ghost [s_seen] = the value of
   REQUEST_BODY / RESPONSE_BODY the rule read), and an optional unconditional deny rule of that
   phase sets the interruption (status 403). *)
From Verif Require Import Base BodyBuffer.
Open Scope Z_scope.

Inductive tb_action := Reject | ProcessPartial.
Inductive tb_dir := Req | Resp.
(* how REQUEST_BODY gets populated: no processor; URLENCODED from the content-type header;
   RAW set explicitly; ForceRequestBodyVariable with no processor (falls back to URLENCODED) *)
Inductive tb_bproc := BPnone | BPurlencoded | BPraw | BPforce.

Record tb_cfg := {
  c_dir : tb_dir;
  c_opt : bbopt;               (* the buffer's Limit / MemoryLimit, fixed at construction *)
  c_action : tb_action;
  c_access : bool;             (* RequestBodyAccess / ResponseBodyAccess *)
  c_engine_on : bool;          (* RuleEngine != Off *)
  c_bp : tb_bproc;             (* request only *)
  c_processable : bool;        (* response only: IsResponseBodyProcessable() *)
  c_deny : bool                (* the body phase holds an unconditional deny (403) *)
}.

Record tb_st := {
  s_buf : bbuf;
  s_limit : Z;                 (* tx.RequestBodyLimit / tx.ResponseBodyLimit (ctl can change it) *)
  s_intr : option Z;           (* tx.interruption: its status *)
  s_dataerr : bool;            (* INBOUND_DATA_ERROR / OUTBOUND_DATA_ERROR = "1" *)
  s_phase : Z;                 (* tx.lastPhase *)
  s_runs : nat;                (* ghost: times the body phase's rules were evaluated *)
  s_seen : option bytes;       (* ghost: body variable as read by that phase's rule (last run) *)
  s_bodyvar : bytes            (* REQUEST_BODY / RESPONSE_BODY ("" when never set) *)
}.

Inductive tb_call :=
  | WriteSlice (d : bytes)                       (* WriteRequestBody / WriteResponseBody *)
  | ReadFrom (known : bool) (rs : nat) (d : bytes) (* Read...BodyFrom; known = reader has Len(); rs = bytes per Read (0: all) *)
  | ProcessBody                                  (* ProcessRequestBody / ProcessResponseBody *)
  | CtlLimit (z : Z).                            (* ctl:requestBodyLimit / responseBodyLimit (tx field assignment) *)

Record tb_ret := { r_intr : option Z; r_n : Z; r_err : bool; r_panic : bool }.

Definition mk_ret (i : option Z) (n : Z) (e : bool) : tb_ret :=
  {| r_intr := i; r_n := n; r_err := e; r_panic := false |}.
Definition ret_panic : tb_ret := {| r_intr := None; r_n := 0; r_err := false; r_panic := true |}.

Definition max_int64 : Z := 9223372036854775807.
Definition hdr_phase (d : tb_dir) : Z := match d with Req => 1 | Resp => 3 end.
Definition body_phase (d : tb_dir) : Z := match d with Req => 2 | Resp => 4 end.
Definition limit_status (d : tb_dir) : Z := match d with Req => 413 | Resp => 500 end.

Definition tb_init (c : tb_cfg) (phase : Z) : tb_st :=
  {| s_buf := bb_empty; s_limit := bo_limit (c_opt c); s_intr := None; s_dataerr := false;
     s_phase := phase; s_runs := 0; s_seen := None; s_bodyvar := [] |}.

Definition set_buf (s : tb_st) (b : bbuf) : tb_st :=
  {| s_buf := b; s_limit := s_limit s; s_intr := s_intr s; s_dataerr := s_dataerr s;
     s_phase := s_phase s; s_runs := s_runs s; s_seen := s_seen s; s_bodyvar := s_bodyvar s |}.
Definition set_dataerr (s : tb_st) : tb_st :=
  {| s_buf := s_buf s; s_limit := s_limit s; s_intr := s_intr s; s_dataerr := true;
     s_phase := s_phase s; s_runs := s_runs s; s_seen := s_seen s; s_bodyvar := s_bodyvar s |}.
Definition set_limit (s : tb_st) (z : Z) : tb_st :=
  {| s_buf := s_buf s; s_limit := z; s_intr := s_intr s; s_dataerr := s_dataerr s;
     s_phase := s_phase s; s_runs := s_runs s; s_seen := s_seen s; s_bodyvar := s_bodyvar s |}.

(* setAndReturnBodyLimitInterruption: an existing interruption is kept (commit 44b3d67) *)
Definition set_limit_intr (c : tb_cfg) (s : tb_st) : tb_st * tb_ret :=
  match s_intr s with
  | Some i => (s, mk_ret (Some i) 0 false)
  | None =>
    let st := limit_status (c_dir c) in
    ({| s_buf := s_buf s; s_limit := s_limit s; s_intr := Some st; s_dataerr := s_dataerr s;
        s_phase := s_phase s; s_runs := s_runs s; s_seen := s_seen s; s_bodyvar := s_bodyvar s |},
     mk_ret (Some st) 0 false)
  end.

(* does the body phase populate the body variable from the buffer? *)
Definition body_var_set (c : tb_cfg) (s : tb_st) : bool :=
  match c_dir c with
  | Req => c_access c && negb (bb_len (s_buf s) =? 0)
           && match c_bp c with BPnone => false | _ => true end
  | Resp => c_access c && c_processable c
  end.

(* ProcessRequestBody / ProcessResponseBody: (state, returned interruption); the error is always nil
   on the modelled paths (Reader() never fails, urlencoded/raw never fail) *)
Definition process_body (c : tb_cfg) (s : tb_st) : tb_st * option Z :=
  if negb (c_engine_on c) then (s, None)
  else match s_intr s with
  | Some i => (s, Some i)
  | None =>
    if negb (s_phase s =? hdr_phase (c_dir c)) then (s, None)
    else
      let var := if body_var_set c s then bb_contents (s_buf s) else s_bodyvar s in
      let intr := if c_deny c then Some 403 else None in
      ({| s_buf := s_buf s; s_limit := s_limit s; s_intr := intr; s_dataerr := s_dataerr s;
          s_phase := body_phase (c_dir c); s_runs := S (s_runs s); s_seen := Some var;
          s_bodyvar := var |}, intr)
  end.

(* the overflow guard exists in the request functions only *)
Definition overflow_guard (c : tb_cfg) (s : tb_st) (wb : Z) : bool :=
  match c_dir c with
  | Req => bb_len (s_buf s) >=? max_int64 - wb
  | Resp => false
  end.

Definition write_slice (c : tb_cfg) (s : tb_st) (d : bytes) : tb_st * tb_ret :=
  if negb (c_engine_on c) then (s, mk_ret None 0 false)
  else if negb (c_access c) then (s, mk_ret None 0 false)
  else if s_limit s =? bb_len (s_buf s) then
    match c_action c with
    | Reject => (s, mk_ret (s_intr s) 0 false)
    | ProcessPartial => (s, mk_ret None 0 false)
    end
  else
    let wb := blen d in
    if overflow_guard c s wb then (s, mk_ret None 0 true)
    else
      let reached := bb_len (s_buf s) + wb >=? s_limit s in
      let s1 := if reached then set_dataerr s else s in
      match reached, c_action c with
      | true, Reject => set_limit_intr c s1
      | _, _ =>
        (* ProcessPartial clamp (commits 71fdc14, 9bda2e1): 0 unless limit > length *)
        let wb' := if reached then Z.max 0 (s_limit s - bb_len (s_buf s)) else wb in
        if (wb' <? 0) || (wb' >? blen d) then (s1, ret_panic)     (* b[:writingBytes] out of range *)
        else
          let '(b', w, err) := bb_write (c_opt c) (s_buf s1) (firstn (Z.to_nat wb') d) in
          if err then (s1, mk_ret None 0 true)
          else
            let s2 := set_buf s1 b' in
            if reached then let '(s3, _) := process_body c s2 in (s3, mk_ret (s_intr s3) w false)
            else (s2, mk_ret (s_intr s2) w false)
      end.

Definition read_from (c : tb_cfg) (s : tb_st) (known : bool) (rs : nat) (d : bytes) : tb_st * tb_ret :=
  if negb (c_engine_on c) then (s, mk_ret None 0 false)
  else if negb (c_access c) then (s, mk_ret None 0 false)
  else if s_limit s =? bb_len (s_buf s) then
    match c_action c with
    | Reject => (s, mk_ret (s_intr s) 0 false)
    | ProcessPartial => (s, mk_ret None 0 false)
    end
  else
    let len := bb_len (s_buf s) in
    let wb := blen d in
    if known && overflow_guard c s wb then (s, mk_ret None 0 true)
    else
      let reached := known && (len + wb >=? s_limit s) in
      let s1 := if reached then set_dataerr s else s in
      match reached, c_action c with
      | true, Reject => set_limit_intr c s1
      | _, _ =>
        let n := if known && negb reached then wb else s_limit s - len in
        let '(b', w, err) := bb_copyN (c_opt c) (s_buf s1) d rs n in
        let s2 := set_buf s1 b' in
        if err then (s2, mk_ret None w true)
        else
          let full := bb_len b' =? s_limit s in
          let s3 := if full then set_dataerr s2 else s2 in
          match full, c_action c with
          | true, Reject => set_limit_intr c s3
          | _, _ =>
            if reached || full then let '(s4, _) := process_body c s3 in (s4, mk_ret (s_intr s4) w false)
            else (s3, mk_ret (s_intr s3) w false)
          end
      end.

Definition tb_step (c : tb_cfg) (s : tb_st) (k : tb_call) : tb_st * tb_ret :=
  match k with
  | WriteSlice d => write_slice c s d
  | ReadFrom known rs d => read_from c s known rs d
  | ProcessBody => let '(s', i) := process_body c s in (s', mk_ret i 0 false)
  | CtlLimit z => (set_limit s z, mk_ret None 0 false)
  end.

Fixpoint tb_run (c : tb_cfg) (s : tb_st) (ks : list tb_call) : tb_st * list tb_ret :=
  match ks with
  | [] => (s, [])
  | k :: r => let '(s1, x) := tb_step c s k in let '(s2, xs) := tb_run c s1 r in (s2, x :: xs)
  end.

Definition tb_final (c : tb_cfg) (s : tb_st) (ks : list tb_call) : tb_st := fst (tb_run c s ks).
Definition tb_rets (c : tb_cfg) (s : tb_st) (ks : list tb_call) : list tb_ret := snd (tb_run c s ks).

(* the bytes a call supplies *)
Definition call_data (k : tb_call) : bytes :=
  match k with WriteSlice d => d | ReadFrom _ _ d => d | _ => [] end.
Definition supplied (ks : list tb_call) : bytes := concat (map call_data ks).

(* ---- from the WAF's settings to the two buffers (waf.go newTransaction) ----
   The request buffer gets Limit = SecRequestBodyLimit and MemoryLimit = SecRequestBodyInMemoryLimit
   (the limit itself when no in-memory limit was configured); the response buffer gets
   Limit = MemoryLimit = SecResponseBodyLimit: it is held in memory only, whatever the request
   in-memory limit is. *)
Record waf_limits := { w_req_limit : Z; w_req_inmem : option Z; w_resp_limit : Z }.

Definition waf_buf_opts (w : waf_limits) (d : tb_dir) : bbopt :=
  match d with
  | Req => {| bo_limit := w_req_limit w;
              bo_mem := match w_req_inmem w with Some m => m | None => w_req_limit w end |}
  | Resp => {| bo_limit := w_resp_limit w; bo_mem := w_resp_limit w |}
  end.

(* ---- the length variable that accompanies the body variable ----
   REQUEST_BODY_LENGTH: "0" at transaction start, set together with REQUEST_BODY by the urlencoded / raw
   processors (the body variable is non-empty exactly when they ran over a body);
   RESPONSE_CONTENT_LENGTH: unset until ProcessResponseBody copies the buffer into RESPONSE_BODY
   (response body access on and a processable content type), then the number of bytes copied. *)
Definition body_length_var (c : tb_cfg) (s : tb_st) : bytes :=
  match c_dir c with
  | Req => itoa (N.of_nat (length (s_bodyvar s)))
  | Resp =>
    match s_seen s with
    | Some _ => if c_access c && c_processable c then itoa (N.of_nat (length (s_bodyvar s))) else []
    | None => []
    end
  end.

(* ---- rule engine modes, as far as the body entry points are concerned ----
   Off: every entry point returns at its first line.  DetectionOnly: IsRuleEngineOff() is false, so
   buffering, limits, the self-invoked body phase and the data-error variables are exactly those of On;
   a disruptive rule of the phase records only tx.detectionOnlyInterruption (Transaction.Interrupt), so
   tx.interruption stays nil after the phase; setAndReturnBodyLimitInterruption does not look at the
   mode and still records and returns the 413/500 rejection (finding F12, listed under C02). *)
Inductive tb_engine := EngOn | EngDetectionOnly | EngOff.

Definition engine_cfg (e : tb_engine) (c : tb_cfg) : tb_cfg :=
  {| c_dir := c_dir c; c_opt := c_opt c; c_action := c_action c; c_access := c_access c;
     c_engine_on := match e with EngOff => false | _ => true end;
     c_bp := c_bp c; c_processable := c_processable c;
     c_deny := match e with EngOn => c_deny c | _ => false end |}.
