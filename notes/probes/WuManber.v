(* Feasibility probe (design round): soundness of the Wu-Manber style multi-needle scan used by
   the rx prefilter: if the scan answers false, no needle occurs in the haystack.
   The shift table and the verification step are abstracted by the two properties the real
   construction gives them; case-insensitive scanning is the same proof over folded bytes.
   Not framework code. *)
From Coq Require Import List NArith Lia Bool Arith.
Import ListNotations.
Definition bytes := list N.

Fixpoint prefix_at (l w : bytes) (i : nat) : bool :=
  match l with
  | [] => true
  | c :: l' => match nth_error w i with Some d => N.eqb c d && prefix_at l' w (S i) | None => false end
  end.

Lemma prefix_at_nth l : forall w i j c, prefix_at l w i = true -> nth_error l j = Some c -> nth_error w (i + j) = Some c.
Proof.
  induction l as [|x l IH]; intros w i j c H Hj; [destruct j; discriminate|].
  cbn [prefix_at] in H. destruct (nth_error w i) as [d|] eqn:E; [|discriminate].
  apply andb_prop in H. destruct H as [H1 H2]. apply N.eqb_eq in H1. subst d.
  destruct j as [|j]; simpl in Hj.
  - injection Hj as <-. rewrite Nat.add_0_r. exact E.
  - replace (i + S j) with (S i + j) by lia. eapply IH; eauto.
Qed.

Section Scan.
Variable s : bytes.                 (* haystack *)
Variable needles : list bytes.
Variable ml : nat.                  (* length of the shortest needle, > 0 *)
Variable shift : N -> nat.
Variable verify : nat -> bool.      (* verify p : some needle occurs at position p *)
Hypothesis ml_pos : 0 < ml.
Hypothesis ml_min : forall n, In n needles -> ml <= length n.
(* what newIndexedMatcher establishes: a byte occurring at offset j < ml of some needle has shift <= ml-1-j *)
Hypothesis shift_ok : forall n j c, In n needles -> j < ml -> nth_error n j = Some c -> shift c <= ml - 1 - j.
(* the table is initialised with min(ml,255) and only ever lowered *)
Hypothesis shift_le : forall c, shift c <= ml.
(* what the bucket comparison establishes *)
Hypothesis verify_complete : forall n p, In n needles -> prefix_at n s p = true -> verify p = true.

(* the loop of matchCS with explicit fuel; running out of fuel answers "maybe" *)
Fixpoint scan (fuel i : nat) : bool :=
  match fuel with
  | O => true
  | S f =>
      match nth_error s i with
      | None => false
      | Some c =>
          match shift c with
          | O => if verify (i + 1 - ml) then true else scan f (S i)
          | S k => scan f (i + S k)
          end
      end
  end.

(* an occurrence of needle n at p has its window's right edge at p + ml - 1 *)
Lemma scan_sound fuel : forall i, ml - 1 <= i -> scan fuel i = false ->
  forall n p, In n needles -> prefix_at n s p = true -> i <= p + ml - 1 -> False.
Proof.
  induction fuel as [|f IH]; intros i Hi H n p Hn Hp He; [discriminate|].
  cbn [scan] in H.
  pose proof (ml_min _ Hn) as Hlen. pose proof ml_pos as Hpos.
  (* the byte under the window edge, seen from the needle *)
  destruct (nth_error s i) as [c|] eqn:Ec.
  2:{ (* i is beyond the haystack, but the occurrence covers index p+ml-1 >= i *)
      assert (Hj : ml - 1 < length n) by lia.
      destruct (nth_error n (ml - 1)) as [d|] eqn:Ed; [|apply nth_error_None in Ed; lia].
      pose proof (prefix_at_nth _ _ _ _ _ Hp Ed) as Hw.
      assert (i <= p + (ml - 1)) by lia.
      apply nth_error_None in Ec. assert (nth_error s (p + (ml - 1)) = None) by (apply nth_error_None; lia). congruence. }
  destruct (Nat.eq_dec (p + ml - 1) i) as [Heq|Hne].
  - (* the occurrence sits exactly under the window: shift must be 0 and verify must succeed *)
    assert (Hd : nth_error n (ml - 1) = Some c).
    { destruct (nth_error n (ml - 1)) as [d|] eqn:Ed; [|apply nth_error_None in Ed; lia].
      pose proof (prefix_at_nth _ _ _ _ _ Hp Ed) as Hw. replace (p + (ml - 1)) with i in Hw by lia. congruence. }
    assert (Hlt : ml - 1 < ml) by lia.
    pose proof (shift_ok n (ml - 1) c Hn Hlt Hd) as Hs. replace (ml - 1 - (ml - 1)) with 0 in Hs by lia.
    destruct (shift c) as [|k]; [|lia].
    replace (i + 1 - ml) with p in H by lia. rewrite (verify_complete _ _ Hn Hp) in H. discriminate.
  - (* the occurrence lies further right: e = p + ml - 1 > i *)
    assert (Hgt : i < p + ml - 1) by lia.
    destruct (shift c) as [|k] eqn:Es.
    + destruct (verify (i + 1 - ml)); [discriminate|]. eapply (IH (S i)); eauto; lia.
    + (* the jump cannot skip it: s[i] is the needle byte at offset j = i - p < ml when p <= i *)
      destruct (le_lt_dec p i) as [Hpi|Hpi].
      * assert (Hj : i - p < ml) by lia.
        destruct (nth_error n (i - p)) as [d|] eqn:Ed; [|apply nth_error_None in Ed; lia].
        pose proof (prefix_at_nth _ _ _ _ _ Hp Ed) as Hw. replace (p + (i - p)) with i in Hw by lia.
        assert (d = c) by congruence. subst d.
        pose proof (shift_ok _ _ _ Hn Hj Ed) as Hs. rewrite Es in Hs.
        eapply (IH (i + S k)); eauto; lia.
      * (* the occurrence starts to the right of i; a window of ml bytes ending at i+S k, S k <= ml *)
        (* every byte has shift <= ml (initial table value), so i + S k <= i + ml <= p + ml - 1 when p > i ... *)
        pose proof (shift_le c) as Hb. rewrite Es in Hb.
        eapply (IH (i + S k)); eauto; lia.
Qed.

(* the whole matcher: start with the window edge at ml-1; fuel = |s| is enough because i grows *)
Definition wm_match : bool := if length s <? ml then false else scan (S (length s)) (ml - 1).

Theorem wm_sound : wm_match = false -> forall n p, In n needles -> prefix_at n s p = true -> False.
Proof.
  unfold wm_match. intros H n p Hn Hp.
  pose proof (ml_min _ Hn) as Hlen. pose proof ml_pos as Hpos.
  destruct (length s <? ml) eqn:E.
  - apply Nat.ltb_lt in E.
    destruct (nth_error n (ml - 1)) as [d|] eqn:Ed; [|apply nth_error_None in Ed; lia].
    pose proof (prefix_at_nth _ _ _ _ _ Hp Ed) as Hw.
    assert (nth_error s (p + (ml - 1)) = None) by (apply nth_error_None; lia). congruence.
  - eapply (scan_sound (S (length s)) (ml - 1)); eauto; lia.
Qed.
End Scan.

Print Assumptions wm_sound.
