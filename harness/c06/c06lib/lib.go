// Package c06lib is shared by the C06 driver (harness/c06) and the race-detector stress program
// (harness/c06/stress): the rule set, the transaction runner and the case generator.
package c06lib

import (
	"fmt"
	"math/rand"
	"net/url"
	"sort"
	"strings"

	"github.com/corazawaf/coraza/v3/internal/corazawaf"
	"github.com/corazawaf/coraza/v3/internal/seclang"
	"github.com/corazawaf/coraza/v3/types"
)

// ExNames are the argument names a transaction can exclude from rule 100 / 300 through
// ctl:ruleRemoveTargetById (one phase-1 rule per name, fired by the header X-Ex-<name>: 1).
var ExNames = []string{"a", "b", "c", "d", "e", "x", "q"}

// StaticEx are the exclusions written in rule 100 itself: ARGS|!ARGS:x|!ARGS:y|!ARGS:z.
// Three appends to an empty slice leave len 3, cap 4: the spare slot F27 wrote into.
var StaticEx = []string{"x", "y", "z"}

const Needle = "evil"

// Directives returns the rule set of the shared WAF. auditPath != "" turns the serial audit log on.
// variant changes patterns that are NOT shared between WAFs (builders use their own variant) while
// the @rx / @pm patterns and the transformation chains named here are shared through memoize and
// the intern table.
func Directives(auditPath string, variant int) string {
	var b strings.Builder
	b.WriteString("SecRuleEngine On\nSecRequestBodyAccess On\n")
	// WAF-wide settings a transaction copies and a ctl may overwrite for ONE transaction
	fmt.Fprintf(&b, "SecRequestBodyLimit %d\nSecRequestBodyLimitAction Reject\nSecResponseBodyAccess On\nSecResponseBodyMimeType text/plain\nSecResponseBodyLimit %d\nSecResponseBodyLimitAction ProcessPartial\n", WafReqLimit, WafRespLimit)
	if auditPath != "" {
		b.WriteString("SecAuditEngine RelevantOnly\nSecAuditLogRelevantStatus ^403\nSecAuditLogParts ABHZ\nSecAuditLogFormat json\nSecAuditLogType Serial\n")
		fmt.Fprintf(&b, "SecAuditLog %s\n", auditPath)
	}
	for i, n := range ExNames {
		fmt.Fprintf(&b, "SecRule REQUEST_HEADERS:X-Ex-%s \"@streq 1\" \"id:%d,phase:1,pass,nolog,ctl:ruleRemoveTargetById=100;ARGS:%s,ctl:ruleRemoveTargetById=300;ARGS:%s\"\n", n, 10+i, n, n)
	}
	// the family of per-transaction ctl actions, each fired by the request marker X-Ctl-<name>: 1
	for i, c := range Ctls {
		fmt.Fprintf(&b, "SecRule REQUEST_HEADERS:X-Ctl-%s \"@streq 1\" \"id:%d,phase:1,pass,nolog,ctl:%s\"\n", c.Name, 30+i, c.Ctl)
	}
	// observers whose outcome depends on such a setting
	b.WriteString(`SecRule REQUEST_BODY "@contains rawevil" "id:510,phase:2,pass,log"` + "\n")
	b.WriteString(`SecRule RESPONSE_BODY "@contains respevil" "id:500,phase:4,pass,log"` + "\n")
	// the F27 shape
	b.WriteString(`SecRule ARGS|!ARGS:x|!ARGS:y|!ARGS:z "@contains evil" "id:100,phase:2,pass,log,msg:'hit %{MATCHED_VAR_NAME}',setvar:tx.hits=+1"` + "\n")
	// transformation cache + shared regex / pm patterns
	b.WriteString(`SecRule ARGS|!ARGS:y "@rx (?i)ev[i1]l\d" "id:110,phase:2,pass,log,t:lowercase,t:trim,capture,setvar:tx.cap=%{tx.0}"` + "\n")
	b.WriteString(`SecRule ARGS_NAMES|ARGS "@pm evil select union" "id:120,phase:2,pass,log,t:lowercase,t:trim,t:urlDecodeUni"` + "\n")
	// a chain whose exclusions are looked up under the parent's id; regex selector shared via memoize
	b.WriteString(`SecRule ARGS:/^[a-e]$/|!ARGS:b|!ARGS:c|!ARGS:d "@contains evil" "id:300,phase:2,pass,log,chain"` + "\n")
	b.WriteString(`  SecRule ARGS|!ARGS:x|!ARGS:y|!ARGS:z "@contains 2" "t:none,t:lowercase"` + "\n")
	chains := []string{"t:lowercase,t:removeNulls", "t:removeNulls,t:lowercase,t:trim", "t:trim,t:removeNulls,t:compressWhitespace"}
	fmt.Fprintf(&b, "SecRule ARGS \"@rx variant%d[0-9]+\" \"id:400,phase:2,pass,log,%s\"\n", variant, chains[variant%3])
	b.WriteString(`SecRule TX:hits "@ge 2" "id:900,phase:2,deny,status:403,log,auditlog,msg:'blocked'"` + "\n")
	return b.String()
}

const (
	WafReqLimit  = 4096
	WafRespLimit = 2048
	CtlReqLimit  = 64
	CtlRespLimit = 32
)

// CtlSpec is one per-transaction ctl of the family: its marker name, the ctl action, and its effect
// on the settings vector (index, value; Inc = the setting is a list that grows by one).
type CtlSpec struct {
	Name string
	Ctl  string
	Idx  int
	Val  int
	Inc  bool
}

// SettingNames gives the order of (*Transaction).VerifC06Settings.
var SettingNames = []string{"RequestBodyLimit", "ResponseBodyLimit", "RuleEngine", "RequestBodyAccess", "ResponseBodyAccess",
	"ForceRequestBodyVariable", "ForceResponseBodyVariable", "AuditEngine", "len(AuditLogParts)", "len(ruleRemoveByID)",
	"len(ruleRemoveByIDRanges)", "len(ruleRemoveTargetByID)", "Skip", "AllowType", "HashEngine", "HashEnforcement", "len(SkipAfter)"}

// Ctls, in RULE order (a later one wins when two write the same setting).
var Ctls = []CtlSpec{
	{"reqlimit", fmt.Sprintf("requestBodyLimit=%d", CtlReqLimit), 0, CtlReqLimit, false},
	{"resplimit", fmt.Sprintf("responseBodyLimit=%d", CtlRespLimit), 1, CtlRespLimit, false},
	{"engine-det", "ruleEngine=DetectionOnly", 2, int(types.RuleEngineDetectionOnly), false},
	{"engine-off", "ruleEngine=Off", 2, int(types.RuleEngineOff), false},
	{"reqbody-off", "requestBodyAccess=Off", 3, 0, false},
	{"respbody-off", "responseBodyAccess=Off", 4, 0, false},
	{"force-body", "forceRequestBodyVariable=On", 5, 1, false},
	{"audit-on", "auditEngine=On", 7, int(types.AuditEngineOn), false},
	{"audit-off", "auditEngine=Off", 7, int(types.AuditEngineOff), false},
	{"audit-parts", "auditLogParts=+E", 8, 0, true},
	{"rm-id", "ruleRemoveById=110", 9, 0, true},
	{"rm-range", "ruleRemoveById=120-121", 10, 0, true},
}

// NewWAF builds a WAF from directives.
func NewWAF(directives string) (*corazawaf.WAF, error) {
	waf := corazawaf.NewWAF()
	p := seclang.NewParser(waf)
	if err := p.FromString(directives); err != nil {
		return nil, err
	}
	return waf, nil
}

// TxCase is the input of one transaction.
type TxCase struct {
	Get  [][2]string `json:"get"`  // query arguments, in order
	Post [][2]string `json:"post"` // urlencoded body arguments, in order
	Ex   []string    `json:"ex"`   // names whose X-Ex-<name> header is sent (any order; duplicates allowed)
	Ctl  []string    `json:"ctl,omitempty"`  // names of Ctls whose X-Ctl-<name> marker is sent
	Pad  int         `json:"pad,omitempty"`  // extra body argument pad=<Pad bytes>: body sizes between a ctl limit and the WAF-wide one
	Raw  string      `json:"raw,omitempty"`  // a body of an unknown content type (REQUEST_BODY only when forced)
	Resp string      `json:"resp,omitempty"` // text/plain response body
}

// CtlActs: the ctl writes the markers produce, in rule order. A marker sent n times gives the header n
// values, the rule matches n times and its non-disruptive actions (the ctl) run once PER MATCH: a ctl
// that appends (ruleRemoveById=<range> -> ruleRemoveByIDRanges) is therefore listed n times; the
// ones that add to a set (ruleRemoveById=<id> -> a map, auditLogParts=+E -> a part already present is
// not added again) and the plain assignments are idempotent and listed once.
func (c TxCase) CtlActs() []CtlSpec {
	var out []CtlSpec
	for _, sp := range Ctls {
		n := 0
		for _, name := range c.Ctl {
			if name == sp.Name {
				n++
			}
		}
		if n > 1 && !(sp.Inc && sp.Name == "rm-range") {
			n = 1
		}
		for i := 0; i < n; i++ {
			out = append(out, sp)
		}
	}
	return out
}

// Plain: no marker of the ctl family and no raw body: the outcome of rule 100 is the one modelled by cc_*.
func (c TxCase) Plain() bool { return len(c.Ctl) == 0 && c.Raw == "" }

// PostAll is the urlencoded body: Post plus the padding argument.
func (c TxCase) PostAll() [][2]string {
	p := append([][2]string{}, c.Post...)
	if c.Pad > 0 {
		p = append(p, [2]string{"pad", strings.Repeat("p", c.Pad)})
	}
	return p
}

// Ecol is the content of tx.ruleRemoveTargetByID[100] the headers produce: one entry per name in
// RULE order (the ctl rules are evaluated in file order, each at most once).
func (c TxCase) Ecol() []string {
	var out []string
	for _, n := range ExNames {
		for _, e := range c.Ex {
			if e == n {
				out = append(out, n)
				break
			}
		}
	}
	return out
}

// Args is ARGS in collection order (ARGS_GET then ARGS_POST).
func (c TxCase) Args() [][2]string {
	return append(append([][2]string{}, c.Get...), c.PostAll()...)
}

// Outcome is everything compared between a transaction inside the concurrent run and the same
// transaction alone.
type Outcome struct {
	Matched     map[int][][2]string `json:"matched"` // rule id -> sorted (key, value) of its MatchedDatas
	Interrupted int                 `json:"interrupted"`
	Status      int                 `json:"status"`
	Hits        string              `json:"hits"`
	Cap         string              `json:"cap"`
	// the settings vector of the transaction right after NewTransaction and after phase 1 (ctl applied);
	// not part of String(): compared with the model (CSet)
	SetStart []int `json:"set_start,omitempty"`
	SetAfter []int `json:"set_after,omitempty"`
	WafSet   []int `json:"waf_set,omitempty"`
}

func (o Outcome) String() string {
	ids := make([]int, 0, len(o.Matched))
	for id := range o.Matched {
		ids = append(ids, id)
	}
	sort.Ints(ids)
	var b strings.Builder
	for _, id := range ids {
		fmt.Fprintf(&b, "%d:%q;", id, o.Matched[id])
	}
	// TX.0 after a rule matching several arguments depends on Go's map order (known finding F26 of
	// C04, c04-matched-var-hash-order): o.Cap is recorded but not compared
	fmt.Fprintf(&b, "int=%d/%d;hits=%s", o.Interrupted, o.Status, o.Hits)
	return b.String()
}

func enc(kv [][2]string) string {
	parts := make([]string, len(kv))
	for i, p := range kv {
		parts[i] = url.QueryEscape(p[0]) + "=" + url.QueryEscape(p[1])
	}
	return strings.Join(parts, "&")
}

// RunTx processes one transaction to the end on waf and closes it.
func RunTx(waf *corazawaf.WAF, id string, c TxCase) (Outcome, error) {
	tx := waf.NewTransactionWithOptions(corazawaf.Options{ID: id})
	defer tx.Close()
	setStart := tx.VerifC06Settings()
	tx.ProcessConnection("10.0.0.1", 40000, "10.0.0.2", 80)
	uri := "/p"
	if len(c.Get) > 0 {
		uri += "?" + enc(c.Get)
	}
	post := c.PostAll()
	method := "GET"
	if len(post) > 0 || c.Raw != "" {
		method = "POST"
	}
	tx.ProcessURI(uri, method, "HTTP/1.1")
	tx.AddRequestHeader("Host", "h")
	for _, e := range c.Ex {
		tx.AddRequestHeader("X-Ex-"+e, "1")
	}
	for _, e := range c.Ctl {
		tx.AddRequestHeader("X-Ctl-"+e, "1")
	}
	var body []byte
	switch {
	case c.Raw != "":
		tx.AddRequestHeader("Content-Type", "text/x-c06")
		body = []byte(c.Raw)
	case len(post) > 0:
		tx.AddRequestHeader("Content-Type", "application/x-www-form-urlencoded")
		body = []byte(enc(post))
	}
	it := tx.ProcessRequestHeaders()
	setAfter := tx.VerifC06Settings()
	if it == nil {
		if len(body) > 0 {
			if i2, _, err := tx.WriteRequestBody(body); err != nil {
				return Outcome{}, err
			} else if i2 != nil {
				it = i2
			}
		}
		if it == nil {
			i3, err := tx.ProcessRequestBody()
			if err != nil {
				return Outcome{}, err
			}
			it = i3
		}
	}
	if it == nil && c.Resp != "" {
		tx.AddResponseHeader("Content-Type", "text/plain")
		it = tx.ProcessResponseHeaders(200, "HTTP/1.1")
		if it == nil && tx.IsResponseBodyProcessable() {
			if i4, _, err := tx.WriteResponseBody([]byte(c.Resp)); err != nil {
				return Outcome{}, err
			} else if i4 != nil {
				it = i4
			}
		}
		if it == nil {
			i5, err := tx.ProcessResponseBody()
			if err != nil {
				return Outcome{}, err
			}
			it = i5
		}
	}
	tx.ProcessLogging()
	o := Outcome{Matched: map[int][][2]string{}, SetStart: setStart, SetAfter: setAfter, WafSet: waf.VerifC06Settings()}
	for _, mr := range tx.MatchedRules() {
		id := mr.Rule().ID()
		l := o.Matched[id]
		for _, md := range mr.MatchedDatas() {
			l = append(l, [2]string{md.Key(), md.Value()})
		}
		if l == nil {
			l = [][2]string{}
		}
		o.Matched[id] = l
	}
	for id := range o.Matched {
		l := o.Matched[id]
		sort.Slice(l, func(i, j int) bool {
			if l[i][0] != l[j][0] {
				return l[i][0] < l[j][0]
			}
			return l[i][1] < l[j][1]
		})
	}
	if it != nil {
		o.Interrupted, o.Status = it.RuleID, it.Status
	}
	if v := tx.Variables().TX().Get("hits"); len(v) > 0 {
		o.Hits = v[0]
	}
	if v := tx.Variables().TX().Get("cap"); len(v) > 0 {
		o.Cap = v[0]
	}
	return o, nil
}

var argNames = []string{"a", "b", "c", "d", "e", "x", "y", "z", "q", "A", "X", "Y", "id", "name", "foo"}
var argValues = []string{"evil", "evil1", "xevil2", "EVIL3", " Evil4 ", "ev1l5", "good", "", "2", "select 1", "union", "variant07", "e%76il", "evil\x00"}

// GenTx draws one transaction input: most have several arguments matching the needle and a
// non-empty exclusion set, so that the merged exception list decides the outcome.
func GenTx(rng *rand.Rand) TxCase {
	var c TxCase
	nGet := 1 + rng.Intn(5)
	for i := 0; i < nGet; i++ {
		c.Get = append(c.Get, [2]string{argNames[rng.Intn(len(argNames))], argValues[rng.Intn(len(argValues))]})
	}
	if rng.Intn(3) == 0 {
		nPost := 1 + rng.Intn(3)
		for i := 0; i < nPost; i++ {
			c.Post = append(c.Post, [2]string{argNames[rng.Intn(len(argNames))], argValues[rng.Intn(len(argValues))]})
		}
	}
	switch rng.Intn(8) {
	case 0: // no exclusion
	default:
		n := 1 + rng.Intn(4)
		for i := 0; i < n; i++ {
			c.Ex = append(c.Ex, ExNames[rng.Intn(len(ExNames))])
		}
	}
	// the per-transaction ctl family: a third of the transactions fire one or two; the others are the
	// ones whose outcome is SENSITIVE to a setting somebody else changed (bodies between the ctl value
	// and the WAF-wide limit, response bodies with the needle beyond the ctl limit, raw bodies)
	if rng.Intn(3) == 0 {
		n := 1 + rng.Intn(2)
		for i := 0; i < n; i++ {
			c.Ctl = append(c.Ctl, Ctls[rng.Intn(len(Ctls))].Name)
		}
	}
	switch rng.Intn(6) {
	case 0, 1:
		c.Pad = CtlReqLimit + 1 + rng.Intn(400)
	case 2:
		if len(c.Post) == 0 {
			c.Raw = "raw body with rawevil inside " + strings.Repeat("r", rng.Intn(150))
		}
	}
	if rng.Intn(2) == 0 {
		c.Resp = strings.Repeat("a", rng.Intn(3*CtlRespLimit)) + " respevil tail"
	}
	if c.Ex == nil {
		c.Ex = []string{}
	}
	if c.Post == nil {
		c.Post = [][2]string{}
	}
	return c
}

// SpareSlotsWritten checks the shared rules of waf: every slot of every Exceptions backing array
// beyond the slice length must still be empty. Returns a description of the first written slot.
func SpareSlotsWritten(waf *corazawaf.WAF) string {
	rules := waf.Rules.GetRules()
	for i := range rules {
		r := &rules[i]
		for vi, s := range r.VerifC06ExceptionSlots() {
			for j := s.Len; j < len(s.Slots); j++ {
				if s.Slots[j] != "" {
					return fmt.Sprintf("rule %d variable #%d: slot %d of the Exceptions backing array (len %d, cap %d) holds %q", r.ID_, vi, j, s.Len, len(s.Slots), s.Slots[j])
				}
			}
		}
	}
	return ""
}

// HasSpareSlot reports whether rule id of waf has a variable whose exception slice has cap > len
// (the precondition of F27).
func HasSpareSlot(waf *corazawaf.WAF, id int) bool {
	r := waf.Rules.FindByID(id)
	if r == nil {
		return false
	}
	for _, s := range r.VerifC06ExceptionSlots() {
		if len(s.Slots) > s.Len {
			return true
		}
	}
	return false
}
