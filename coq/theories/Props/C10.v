(* Props/C10.v — the property theorems of C10 and nothing else. *)
From Verif Require Import Base BodyBuffer TxBody.
