(* WhitespaceProofs.v — idempotence of removeWhitespace and compressWhitespace (C14), on top of the UTF-8
   round trips of Utf8Proofs.v.  removeWhitespace re-encodes every rune it keeps, so its output decodes back to
   the same runes; compressWhitespace copies the bytes of every rune it keeps and leaves one 0x20 for each run,
   so (a) a genuine rune decodes the same whatever follows it and (b) a lead byte that was not the start of a
   rune still is not in front of the compressed rest, because a continuation byte of the rest is either copied
   or (0xA0, which compressWhitespace treats as white space) replaced by 0x20. *)
From Verif Require Import Base Utf8 Transform TransformProofs Utf8Proofs.
From Coq Require Import ZifyBool ZifyN ZifyNat.
Open Scope N_scope.


Lemma rune_norm_not_space r : is_unicode_space r = false -> is_unicode_space (rune_norm r) = false.
Proof.
  unfold rune_norm. destruct ((1114111 <? r) || in_rng 55296 57343 r); [intros _; reflexivity|exact (fun H => H)].
Qed.

Lemma encode_rune_norm r : encode_rune (rune_norm r) = encode_rune r.
Proof.
  unfold rune_norm, encode_rune, in_rng, rune_error.
  destruct ((1114111 <? r) || ((55296 <=? r) && (r <=? 57343))) eqn:E; [|rewrite E; reflexivity].
  reflexivity.
Qed.

Lemma encode_rune_nonempty r : encode_rune r <> [].
Proof. unfold encode_rune. repeat match goal with |- context [if ?c then _ else _] => destruct c end; discriminate. Qed.

Lemma skipn_app_len' {A} (a b : list A) : skipn (length a) (a ++ b) = b.
Proof. induction a as [|x a IH]; [reflexivity|exact IH]. Qed.

(* what removeWhitespace wrote is a fixed point of removeWhitespace (any sufficient fuel) *)
Lemma rw_loop_fixed fuel : forall s fuel2,
  (length (rw_loop fuel s) <= fuel2)%nat -> rw_loop fuel2 (rw_loop fuel s) = rw_loop fuel s.
Proof.
  induction fuel as [|f IH]; intros s fuel2 Hl.
  - cbn. destruct fuel2; reflexivity.
  - destruct s as [|b s]; [cbn; destruct fuel2; reflexivity|].
    cbn [rw_loop] in *. destruct (decode_rune (b :: s)) as [r size].
    destruct (is_unicode_space r) eqn:Sp; [apply IH; exact Hl|].
    set (o' := rw_loop f (skipn size (b :: s))) in *.
    assert (Hlen : (1 <= length (encode_rune r))%nat).
    { pose proof (encode_rune_nonempty r). destruct (encode_rune r); [contradiction|cbn; lia]. }
    rewrite app_length in Hl.
    destruct fuel2 as [|k]; [lia|].
    assert (Hk : (length o' <= k)%nat) by lia.
    destruct (encode_rune r ++ o') as [|c rest] eqn:E.
    { apply app_eq_nil in E as [E _]. exfalso; exact (encode_rune_nonempty r E). }
    cbn [rw_loop]. rewrite <- E. rewrite decode_encode.
    rewrite (rune_norm_not_space r Sp). rewrite encode_rune_norm. rewrite skipn_app_len'.
    f_equal. apply IH. exact Hk.
Qed.

Theorem remove_whitespace_idem s :
  t_out (t_remove_whitespace (t_out (t_remove_whitespace s))) = t_out (t_remove_whitespace s).
Proof. unfold t_remove_whitespace. cbn [t_out ok_res]. apply rw_loop_fixed. lia. Qed.

(* ---------------- compressWhitespace ---------------- *)


Definition is_cont (c : N) : bool := in_rng 128 191 c.
Definition head_not_cont (o : bytes) : bool := match o with [] => true | h :: _ => negb (is_cont h) end.

(* one step of compressWhitespace on a stand-alone continuation byte other than 0xA0: copied *)
Lemma cw_step_cont f c rest inws :
  is_cont c = true -> c <> 160 ->
  fst (cw_loop (S f) (c :: rest) inws) = c :: fst (cw_loop f rest false).
Proof.
  intros Hc Hn. unfold is_cont, in_rng in Hc. cbn [cw_loop].
  assert (D : decode_rune (c :: rest) = (rune_error, 1%nat)).
  { unfold decode_rune, in_rng.
    assert ((c <? 128) = false) as -> by lia.
    assert (((194 <=? c) && (c <=? 223)) = false) as -> by lia.
    assert (((224 <=? c) && (c <=? 239)) = false) as -> by lia.
    assert (((240 <=? c) && (c <=? 244)) = false) as -> by lia. reflexivity. }
  rewrite D. assert ((c =? 160) = false) as -> by lia.
  change (is_latin_space rune_error) with false. cbn [orb skipn firstn].
  destruct (cw_loop f rest false) as [o ch]. reflexivity.
Qed.

(* on any other first byte the output (after a chunk: not inside a run) does not start with a continuation byte *)
Lemma cw_step_other f s :
  (match s with [] => true | c :: _ => negb (is_cont c) || (c =? 160) end) = true ->
  head_not_cont (fst (cw_loop f s false)) = true.
Proof.
  intros H. destruct f as [|f]; [reflexivity|]. destruct s as [|c rest]; [reflexivity|].
  cbn [cw_loop]. destruct (decode_rune (c :: rest)) as [r size] eqn:D.
  destruct (is_latin_space r || (c =? 160)) eqn:W.
  - destruct (cw_loop f (skipn size (c :: rest)) true) as [o ch]. reflexivity.
  - destruct (cw_loop f (skipn size (c :: rest)) false) as [o ch]. cbn [fst].
    pose proof (decode_rune_size_pos c rest) as Hp. rewrite D in Hp. cbn [snd] in Hp.
    destruct size as [|n]; [lia|]. cbn [firstn app head_not_cont].
    apply orb_false_iff in W as [_ W]. rewrite W in H. rewrite orb_false_r in H. exact H.
Qed.

(* the head of the output after a chunk: either the same stand-alone continuation byte, or no continuation byte *)
Lemma cw_head_cases f s :
  (exists c rest, s = c :: rest /\ is_cont c = true /\ c <> 160 /\
     match f with O => True | S f' => fst (cw_loop f s false) = c :: fst (cw_loop f' rest false) end)
  \/ head_not_cont (fst (cw_loop f s false)) = true.
Proof.
  destruct s as [|c rest]; [right; destruct f; reflexivity|].
  destruct (is_cont c && negb (c =? 160)) eqn:E.
  - apply andb_true_iff in E as [E1 E2]. left. exists c, rest. repeat split; try assumption; [lia|].
    destruct f as [|f']; [exact I|]. apply cw_step_cont; [exact E1|lia].
  - right. apply cw_step_other. apply andb_false_iff in E as [E|E]; [rewrite E; reflexivity|].
    apply negb_false_iff in E. rewrite E. apply orb_true_r.
Qed.

Fixpoint tail_rel (n : nat) (s o : bytes) : Prop :=
  match n with
  | O => True
  | S n' =>
    (exists c rest o', s = c :: rest /\ o = c :: o' /\ tail_rel n' rest o')
    \/ head_not_cont o = true
  end.

Lemma cw_tail_rel n : forall f s, tail_rel n s (fst (cw_loop f s false)).
Proof.
  induction n as [|n IH]; intros f s; [exact I|].
  cbn [tail_rel]. destruct (cw_head_cases f s) as [(c & rest & -> & Hc & Hn & Hf)|H]; [|right; exact H].
  destruct f as [|f']; [right; reflexivity|].
  left. exists c, rest, (fst (cw_loop f' rest false)). repeat split; [exact Hf|apply IH].
Qed.

Lemma hnc_invalid b1 o : head_not_cont (b1 :: o) = true -> forall lo hi, 128 <= lo -> hi <= 191 -> in_rng lo hi b1 = false.
Proof. unfold head_not_cont, is_cont, in_rng. intros H lo hi Hl Hh. lia. Qed.

(* an invalid lead byte stays invalid in front of the compressed rest *)
Lemma decode_invalid_stable b0 s o :
  decode_rune (b0 :: s) = (rune_error, 1%nat) -> tail_rel 3 s o -> decode_rune (b0 :: o) = (rune_error, 1%nat).
Proof.
  intros D R. unfold decode_rune in *.
  destruct (b0 <? 128) eqn:E0; [exact D|].
  destruct (in_rng 194 223 b0) eqn:E1.
  { destruct o as [|b1 o]; [reflexivity|].
    cbn [tail_rel] in R. destruct R as [(c & rest & o' & -> & Ho & _)|H].
    - inversion Ho; subst. destruct (in_rng 128 191 c); [discriminate D|reflexivity].
    - rewrite (hnc_invalid b1 o H 128 191) by lia. reflexivity. }
  destruct (in_rng 224 239 b0) eqn:E2.
  { set (lo := if b0 =? 224 then 160 else 128) in *. set (hi := if b0 =? 237 then 159 else 191) in *.
    assert (Hlo : 128 <= lo) by (subst lo; destruct (b0 =? 224); lia).
    assert (Hhi : hi <= 191) by (subst hi; destruct (b0 =? 237); lia).
    destruct o as [|b1 [|b2 o]]; try reflexivity.
    cbn [tail_rel] in R. destruct R as [(c & rest & o' & -> & Ho & R)|H].
    - inversion Ho; subst. destruct R as [(c2 & rest2 & o2 & -> & Ho2 & _)|H2].
      + inversion Ho2; subst. exact D.
      + rewrite (hnc_invalid b2 o H2 128 191) by lia. rewrite andb_false_r. reflexivity.
    - rewrite (hnc_invalid b1 _ H lo hi) by assumption. reflexivity. }
  destruct (in_rng 240 244 b0) eqn:E3; [|reflexivity].
  set (lo := if b0 =? 240 then 144 else 128) in *. set (hi := if b0 =? 244 then 143 else 191) in *.
  assert (Hlo : 128 <= lo) by (subst lo; destruct (b0 =? 240); lia).
  assert (Hhi : hi <= 191) by (subst hi; destruct (b0 =? 244); lia).
  destruct o as [|b1 [|b2 [|b3 o]]]; try reflexivity.
  cbn [tail_rel] in R. destruct R as [(c & rest & o' & -> & Ho & R)|H].
  - inversion Ho; subst. destruct R as [(c2 & rest2 & o2 & -> & Ho2 & R)|H2].
    + inversion Ho2; subst. destruct R as [(c3 & rest3 & o3 & -> & Ho3 & _)|H3].
      * inversion Ho3; subst. exact D.
      * rewrite (hnc_invalid b3 o H3 128 191) by lia. rewrite andb_false_r. reflexivity.
    + rewrite (hnc_invalid b2 _ H2 128 191) by lia. rewrite andb_false_r. reflexivity.
  - rewrite (hnc_invalid b1 _ H lo hi) by assumption. reflexivity.
Qed.

Lemma decode_size1_invalid c rest r :
  decode_rune (c :: rest) = (r, 1%nat) -> (c <? 128) = false -> r = rune_error.
Proof.
  unfold decode_rune. intros D E. rewrite E in D.
  repeat match type of D with
  | (if ?b then _ else _) = _ => destruct b
  | (match ?l with [] => _ | _ :: _ => _ end) = _ => destruct l
  end; inversion D; reflexivity.
Qed.

(* a genuine rune decodes the same whatever follows it *)
Lemma decode_prefix_valid s r size t :
  wf_bytes s -> decode_rune s = (r, size) ->
  (match s with b0 :: _ => (b0 <? 128) || Nat.ltb 1 size | [] => false end) = true ->
  decode_rune (firstn size s ++ t) = (r, size).
Proof.
  intros Hwf D V. pose proof (encode_decode s r size Hwf D V) as E.
  pose proof (decode_encode r (skipn size s)) as DE. rewrite E, firstn_skipn, D in DE.
  assert (Hr : rune_norm r = r) by congruence.
  assert (Hs : length (firstn size s) = size) by congruence.
  pose proof (decode_encode r t) as DT. rewrite E, Hr, Hs in DT. exact DT.
Qed.

Lemma wf_bytes_skipn' n s : wf_bytes s -> wf_bytes (skipn n s).
Proof.
  unfold wf_bytes. revert s; induction n as [|n IH]; intros s H; [exact H|].
  destruct s as [|b s]; [exact H|]. cbn [skipn]. apply IH. inversion H; assumption.
Qed.

Lemma skipn_app_len'' {A} (a b : list A) n : length a = n -> skipn n (a ++ b) = b.
Proof. intros <-. induction a as [|x a IH]; [reflexivity|exact IH]. Qed.
Lemma firstn_app_len'' {A} (a b : list A) n : length a = n -> firstn n (a ++ b) = a.
Proof. intros <-. induction a as [|x a IH]; [reflexivity|cbn; f_equal; exact IH]. Qed.

(* what compressWhitespace wrote is a fixed point of compressWhitespace (same run mode, any sufficient fuel) *)
Lemma cw_fixed f : forall s inws k, wf_bytes s ->
  (length (fst (cw_loop f s inws)) < k)%nat ->
  fst (cw_loop k (fst (cw_loop f s inws)) inws) = fst (cw_loop f s inws).
Proof.
  induction f as [|f IH]; intros s inws k Hwf Hk.
  - cbn. destruct k; reflexivity.
  - destruct s as [|c rest]; [cbn; destruct k; reflexivity|].
    cbn [cw_loop] in *. destruct (decode_rune (c :: rest)) as [r size] eqn:D.
    pose proof (decode_rune_size_pos c rest) as Hp. rewrite D in Hp. cbn [snd] in Hp.
    pose proof (decode_rune_size_le (c :: rest)) as Hle. rewrite D in Hle. cbn [snd] in Hle.
    assert (Hwf' : wf_bytes (skipn size (c :: rest))) by (apply wf_bytes_skipn'; exact Hwf).
    destruct (is_latin_space r || (c =? 160)) eqn:W.
    + destruct inws.
      * specialize (IH (skipn size (c :: rest)) true k Hwf').
        destruct (cw_loop f (skipn size (c :: rest)) true) as [o ch]. cbn [fst] in *. apply IH. exact Hk.
      * specialize (IH (skipn size (c :: rest)) true).
        destruct (cw_loop f (skipn size (c :: rest)) true) as [o ch]. cbn [fst] in *.
        destruct k as [|k']; [lia|]. cbn [cw_loop].
        change (decode_rune (32 :: o)) with (32, 1%nat). cbn [is_latin_space N.eqb orb skipn].
        change (is_latin_space 32) with true. cbn [orb].
        specialize (IH k' Hwf'). destruct (cw_loop k' o true) as [o2 ch2]. cbn [fst] in *.
        f_equal. apply IH. cbn [length] in Hk. lia.
    + specialize (IH (skipn size (c :: rest)) false).
      pose proof (cw_tail_rel 3 f (skipn size (c :: rest))) as TR.
      destruct (cw_loop f (skipn size (c :: rest)) false) as [o ch]. cbn [fst] in *.
      assert (Hfl : length (firstn size (c :: rest)) = size) by (apply firstn_length_le; exact Hle).
      rewrite app_length, Hfl in Hk.
      destruct k as [|k']; [lia|].
      destruct size as [|n]; [lia|]. cbn [firstn app]. cbn [cw_loop].
      assert (D2 : decode_rune (c :: firstn n rest ++ o) = (r, S n)).
      { destruct ((c <? 128) || Nat.ltb 1 (S n)) eqn:V.
        - exact (decode_prefix_valid (c :: rest) r (S n) o Hwf D V).
        - apply orb_false_iff in V as [V1 V2].
          assert (n = 0%nat) as -> by (destruct n; [reflexivity|discriminate]).
          pose proof (decode_size1_invalid c rest r D V1) as ->.
          cbn [firstn app]. cbn [skipn] in TR.
          exact (decode_invalid_stable c rest o D TR). }
      rewrite D2. rewrite W.
      change (c :: firstn n rest ++ o) with ((c :: firstn n rest) ++ o).
      rewrite (skipn_app_len'' (c :: firstn n rest) o (S n)) by exact Hfl.
      rewrite (firstn_app_len'' (c :: firstn n rest) o (S n)) by exact Hfl.
      specialize (IH k' Hwf'). destruct (cw_loop k' o false) as [o2 ch2]. cbn [fst] in *.
      cbn [app]. f_equal. f_equal. apply IH. lia.
Qed.

Theorem compress_whitespace_idem s : wf_bytes s ->
  t_out (t_compress_whitespace (t_out (t_compress_whitespace s))) = t_out (t_compress_whitespace s).
Proof.
  intros Hwf. unfold t_compress_whitespace at 2 3.
  destruct (cw_needs (S (length s)) s) eqn:N.
  - pose proof (cw_fixed (S (length s)) s false) as F.
    destruct (cw_loop (S (length s)) s false) as [o ch] eqn:E. cbn [t_out ok_res fst] in *.
    unfold t_compress_whitespace. destruct (cw_needs (S (length o)) o); [|reflexivity].
    specialize (F (S (length o)) Hwf (Nat.lt_succ_diag_r _)).
    destruct (cw_loop (S (length o)) o false) as [o2 ch2]. cbn [t_out ok_res fst] in *. exact F.
  - cbn [t_out ok_res]. unfold t_compress_whitespace. rewrite N. reflexivity.
Qed.
