(* Props/C14.v — the property theorems of C14 and nothing else.
   C14: transformations are total, pure functions with sound change reports. *)
From Verif Require Import Base Utf8 Transform TransformProofs Utf8Proofs CaseMap CaseMapProofs WhitespaceProofs.

(* never 'unchanged' when the output differs — for every modelled transformation, every input *)
Theorem C14_flag_sound : forall t s,
  t_err (apply_t t s) = false -> t_out (apply_t t s) <> s -> t_changed (apply_t t s) = true.
Proof. exact all_flags_sound_holds. Qed.
Print Assumptions C14_flag_sound.

(* same output for the same input (the model is a function of the input only) *)
Theorem C14_pure : forall t s1 s2, s1 = s2 -> apply_t t s1 = apply_t t s2.
Proof. exact apply_t_pure. Qed.
Print Assumptions C14_pure.

(* with multiMatch the operator sees the original and every intermediate value of the chain *)
Theorem C14_multimatch_sees_all : forall ts s v,
  v = s \/ In v (chain_values ts s) -> In v (multimatch_values ts s).
Proof. exact multimatch_sees_all_holds. Qed.
Print Assumptions C14_multimatch_sees_all.

(* the last value of the chain is the value a non-multiMatch rule is evaluated against *)
Theorem C14_chain_last : forall ts s, last (chain_values ts s) s = fst (exec_tfs ts s).
Proof. exact chain_last. Qed.
Print Assumptions C14_chain_last.

(* defining identities *)
Theorem C14_hex_roundtrip : forall s, wf_bytes s -> t_out (t_hex_decode (t_out (t_hex_encode s))) = s.
Proof. exact t_hex_roundtrip. Qed.
Print Assumptions C14_hex_roundtrip.

Theorem C14_url_roundtrip : forall s, wf_bytes s -> t_out (t_url_decode (t_out (t_url_encode s))) = s.
Proof. exact t_url_roundtrip. Qed.
Print Assumptions C14_url_roundtrip.

Theorem C14_base64_roundtrip : forall s, wf_bytes s -> t_out (t_base64_decode (t_out (t_base64_encode s))) = s.
Proof. exact t_base64_roundtrip. Qed.
Print Assumptions C14_base64_roundtrip.

Theorem C14_length_spec : forall s, t_out (t_length s) = itoa (N.of_nat (length s)).
Proof. exact t_length_spec. Qed.
Print Assumptions C14_length_spec.

Theorem C14_lowercase_spec : forall s, t_out (t_lowercase s) = map ascii_lower s.
Proof. exact t_lowercase_spec. Qed.
Print Assumptions C14_lowercase_spec.

Theorem C14_uppercase_spec : forall s, t_out (t_uppercase s) = map ascii_upper s.
Proof. exact t_uppercase_spec. Qed.
Print Assumptions C14_uppercase_spec.

(* idempotence *)
Theorem C14_trim_idem : forall s, t_out (t_trim (t_out (t_trim s))) = t_out (t_trim s).
Proof. exact trim_idem. Qed.
Print Assumptions C14_trim_idem.

Theorem C14_trim_left_idem : forall s, trim_left_b (trim_left_b s) = trim_left_b s.
Proof. exact trim_left_idem. Qed.
Print Assumptions C14_trim_left_idem.

Theorem C14_trim_right_idem : forall s, trim_right_b (trim_right_b s) = trim_right_b s.
Proof. exact trim_right_idem. Qed.
Print Assumptions C14_trim_right_idem.

Theorem C14_remove_nulls_idem : forall s,
  t_out (t_remove_nulls (t_out (t_remove_nulls s))) = t_out (t_remove_nulls s).
Proof. exact remove_nulls_idem. Qed.
Print Assumptions C14_remove_nulls_idem.

(* ---- lowercase / uppercase beyond ASCII: strings.ToLower / ToUpper = the simple case mapping applied rune
   by rune (CaseMap.v), parametric in the range table that verif-facts regenerates from Go's unicode package;
   the instances on the generated tables are in gen/FactsC14.v (apply_src_*, lowercase_src_spec, ...). ---- *)

(* the change flag of a case map is exact: 'unchanged' iff output = input, for every table and byte string *)
Theorem C14_case_flag_exact : forall tbl s, t_changed (t_case tbl s) = false <-> t_out (t_case tbl s) = s.
Proof. exact t_case_flag. Qed.
Print Assumptions C14_case_flag_exact.

(* the whole registry with any case tables plugged in never reports 'unchanged' when the output differs *)
Theorem C14_flag_sound_unicode : forall lo up t s,
  t_err (apply_tu lo up t s) = false -> t_out (apply_tu lo up t s) <> s -> t_changed (apply_tu lo up t s) = true.
Proof. exact all_flags_sound_u. Qed.
Print Assumptions C14_flag_sound_unicode.

(* multiMatch sees every intermediate value, for any apply function with sound flags (so with any tables) *)
Theorem C14_multimatch_sees_all_unicode : forall lo up ts s v,
  v = s \/ In v (chain_values_g (apply_tu lo up) ts s) -> In v (multimatch_values_g (apply_tu lo up) ts s).
Proof. intros lo up. exact (multimatch_sees_all_g (apply_tu lo up) (all_flags_sound_u lo up)). Qed.
Print Assumptions C14_multimatch_sees_all_unicode.

Theorem C14_chain_last_unicode : forall lo up ts s,
  last (chain_values_g (apply_tu lo up) ts s) s = fst (exec_tfs_g (apply_tu lo up) ts s).
Proof. intros lo up. exact (chain_last_g (apply_tu lo up)). Qed.
Print Assumptions C14_chain_last_unicode.

(* on all-ASCII input the Unicode registry is the ASCII registry (tables agreeing with the byte maps on 0..127) *)
Theorem C14_unicode_registry_ascii : forall lo up t s,
  tbl_ascii_ok ascii_lower lo = true -> tbl_ascii_ok ascii_upper up = true -> all_ascii s = true ->
  apply_tu lo up t s = apply_t t s.
Proof. exact apply_tu_ascii. Qed.
Print Assumptions C14_unicode_registry_ascii.

(* the early exit of the table lookup is sound on a sorted table *)
Theorem C14_case_table_lookup : forall tbl r, tbl_sorted tbl = true -> map_rune tbl r = map_rune_full tbl r.
Proof. exact map_rune_sorted. Qed.
Print Assumptions C14_case_table_lookup.

(* UTF-8: decoding what EncodeRune wrote returns the rune and consumes exactly those bytes ... *)
Theorem C14_utf8_decode_encode : forall r t,
  decode_rune (encode_rune r ++ t) = (rune_norm r, length (encode_rune r)).
Proof. exact decode_encode. Qed.
Print Assumptions C14_utf8_decode_encode.

(* ... and a decoding step that is not the width-1 replacement of a bad byte re-encodes to the bytes it read *)
Theorem C14_utf8_encode_decode : forall s r w,
  wf_bytes s -> decode_rune s = (r, w) ->
  (match s with b0 :: _ => (b0 <? 128) || Nat.ltb 1 w | [] => false end) = true ->
  encode_rune r = firstn w s.
Proof. exact encode_decode. Qed.
Print Assumptions C14_utf8_encode_decode.

(* a case map leaves valid UTF-8 whose runes it does not map untouched (here: the identity mapping) ... *)
Theorem C14_case_identity_on_valid_utf8 : forall s,
  wf_bytes s -> valid_utf8 s = true -> utf8_map (fun r => r) s = s.
Proof. exact utf8_map_id. Qed.
Print Assumptions C14_case_identity_on_valid_utf8.

(* ... and always produces valid UTF-8, whatever bytes it is given *)
Theorem C14_case_output_valid_utf8 : forall f s, valid_utf8 (utf8_map f s) = true.
Proof. exact utf8_map_valid. Qed.
Print Assumptions C14_case_output_valid_utf8.

(* F33, refuted half of 'equals the standard definition': a byte that is not UTF-8 becomes U+FFFD (3 bytes) *)
Theorem C14_case_invalid_byte_refuted : forall tbl, map_rune tbl rune_error = rune_error ->
  t_out (t_case tbl [255]) = [239; 191; 189] /\ t_changed (t_case tbl [255]) = true.
Proof. exact t_case_invalid_byte_refuted. Qed.
Print Assumptions C14_case_invalid_byte_refuted.

(* ---- whitespace removal is idempotent (both rune-wise transformations, every byte string) ---- *)
Theorem C14_remove_whitespace_idem : forall s,
  t_out (t_remove_whitespace (t_out (t_remove_whitespace s))) = t_out (t_remove_whitespace s).
Proof. exact remove_whitespace_idem. Qed.
Print Assumptions C14_remove_whitespace_idem.

Theorem C14_compress_whitespace_idem : forall s, wf_bytes s ->
  t_out (t_compress_whitespace (t_out (t_compress_whitespace s))) = t_out (t_compress_whitespace s).
Proof. exact compress_whitespace_idem. Qed.
Print Assumptions C14_compress_whitespace_idem.
