(* Props/C03.v — the property theorems of C03 and nothing else.
   C03: every piece of request data is visible to rules, decoded once, never dropped. *)
From Verif Require Import Base Decode DecodeProofs.

(* queryUnescape inverts the percent encoder on every byte string *)
Theorem C03_unescape_encode : forall s, wf_bytes s -> query_unescape (pct_enc s) = s.
Proof. exact unescape_encode. Qed.
Print Assumptions C03_unescape_encode.
