module github.com/corazawaf/coraza/v3/verifharness

go 1.25.0

require github.com/corazawaf/coraza/v3 v3.0.0

require golang.org/x/net v0.56.0 // indirect

replace github.com/corazawaf/coraza/v3 => /repo
