// Package c06lib is shared by the C06 driver (harness/c06) and the race-detector stress program
// (harness/c06/stress): the rule set, the transaction runner and the case generator.
package c06lib

import (
	"fmt"
	"math/rand"
	"net/url"
	"sort"
	"strings"

	"github.com/corazawaf/coraza/v3/internal/corazawaf"
	"github.com/corazawaf/coraza/v3/internal/seclang"
)

// ExNames are the argument names a transaction can exclude from rule 100 / 300 through
// ctl:ruleRemoveTargetById (one phase-1 rule per name, fired by the header X-Ex-<name>: 1).
var ExNames = []string{"a", "b", "c", "d", "e", "x", "q"}

// StaticEx are the exclusions written in rule 100 itself: ARGS|!ARGS:x|!ARGS:y|!ARGS:z.
// Three appends to an empty slice leave len 3, cap 4: the spare slot F27 wrote into.
var StaticEx = []string{"x", "y", "z"}

const Needle = "evil"

// Directives returns the rule set of the shared WAF. auditPath != "" turns the serial audit log on.
// variant changes patterns that are NOT shared between WAFs (builders use their own variant) while
// the @rx / @pm patterns and the transformation chains named here are shared through memoize and
// the intern table.
func Directives(auditPath string, variant int) string {
	var b strings.Builder
	b.WriteString("SecRuleEngine On\nSecRequestBodyAccess On\n")
	if auditPath != "" {
		b.WriteString("SecAuditEngine RelevantOnly\nSecAuditLogRelevantStatus ^403\nSecAuditLogParts ABHZ\nSecAuditLogFormat json\nSecAuditLogType Serial\n")
		fmt.Fprintf(&b, "SecAuditLog %s\n", auditPath)
	}
	for i, n := range ExNames {
		fmt.Fprintf(&b, "SecRule REQUEST_HEADERS:X-Ex-%s \"@streq 1\" \"id:%d,phase:1,pass,nolog,ctl:ruleRemoveTargetById=100;ARGS:%s,ctl:ruleRemoveTargetById=300;ARGS:%s\"\n", n, 10+i, n, n)
	}
	// the F27 shape
	b.WriteString(`SecRule ARGS|!ARGS:x|!ARGS:y|!ARGS:z "@contains evil" "id:100,phase:2,pass,log,msg:'hit %{MATCHED_VAR_NAME}',setvar:tx.hits=+1"` + "\n")
	// transformation cache + shared regex / pm patterns
	b.WriteString(`SecRule ARGS|!ARGS:y "@rx (?i)ev[i1]l\d" "id:110,phase:2,pass,log,t:lowercase,t:trim,capture,setvar:tx.cap=%{tx.0}"` + "\n")
	b.WriteString(`SecRule ARGS_NAMES|ARGS "@pm evil select union" "id:120,phase:2,pass,log,t:lowercase,t:trim,t:urlDecodeUni"` + "\n")
	// a chain whose exclusions are looked up under the parent's id; regex selector shared via memoize
	b.WriteString(`SecRule ARGS:/^[a-e]$/|!ARGS:b|!ARGS:c|!ARGS:d "@contains evil" "id:300,phase:2,pass,log,chain"` + "\n")
	b.WriteString(`  SecRule ARGS|!ARGS:x|!ARGS:y|!ARGS:z "@contains 2" "t:none,t:lowercase"` + "\n")
	chains := []string{"t:lowercase,t:removeNulls", "t:removeNulls,t:lowercase,t:trim", "t:trim,t:removeNulls,t:compressWhitespace"}
	fmt.Fprintf(&b, "SecRule ARGS \"@rx variant%d[0-9]+\" \"id:400,phase:2,pass,log,%s\"\n", variant, chains[variant%3])
	b.WriteString(`SecRule TX:hits "@ge 2" "id:900,phase:2,deny,status:403,log,auditlog,msg:'blocked'"` + "\n")
	return b.String()
}

// NewWAF builds a WAF from directives.
func NewWAF(directives string) (*corazawaf.WAF, error) {
	waf := corazawaf.NewWAF()
	p := seclang.NewParser(waf)
	if err := p.FromString(directives); err != nil {
		return nil, err
	}
	return waf, nil
}

// TxCase is the input of one transaction.
type TxCase struct {
	Get  [][2]string `json:"get"`  // query arguments, in order
	Post [][2]string `json:"post"` // urlencoded body arguments, in order
	Ex   []string    `json:"ex"`   // names whose X-Ex-<name> header is sent (any order; duplicates allowed)
}

// Ecol is the content of tx.ruleRemoveTargetByID[100] the headers produce: one entry per name in
// RULE order (the ctl rules are evaluated in file order, each at most once).
func (c TxCase) Ecol() []string {
	var out []string
	for _, n := range ExNames {
		for _, e := range c.Ex {
			if e == n {
				out = append(out, n)
				break
			}
		}
	}
	return out
}

// Args is ARGS in collection order (ARGS_GET then ARGS_POST).
func (c TxCase) Args() [][2]string {
	return append(append([][2]string{}, c.Get...), c.Post...)
}

// Outcome is everything compared between a transaction inside the concurrent run and the same
// transaction alone.
type Outcome struct {
	Matched     map[int][][2]string `json:"matched"` // rule id -> sorted (key, value) of its MatchedDatas
	Interrupted int                 `json:"interrupted"`
	Status      int                 `json:"status"`
	Hits        string              `json:"hits"`
	Cap         string              `json:"cap"`
}

func (o Outcome) String() string {
	ids := make([]int, 0, len(o.Matched))
	for id := range o.Matched {
		ids = append(ids, id)
	}
	sort.Ints(ids)
	var b strings.Builder
	for _, id := range ids {
		fmt.Fprintf(&b, "%d:%q;", id, o.Matched[id])
	}
	// TX.0 after a rule matching several arguments depends on Go's map order (known finding F26 of
	// C04, c04-matched-var-hash-order): o.Cap is recorded but not compared
	fmt.Fprintf(&b, "int=%d/%d;hits=%s", o.Interrupted, o.Status, o.Hits)
	return b.String()
}

func enc(kv [][2]string) string {
	parts := make([]string, len(kv))
	for i, p := range kv {
		parts[i] = url.QueryEscape(p[0]) + "=" + url.QueryEscape(p[1])
	}
	return strings.Join(parts, "&")
}

// RunTx processes one transaction to the end on waf and closes it.
func RunTx(waf *corazawaf.WAF, id string, c TxCase) (Outcome, error) {
	tx := waf.NewTransactionWithOptions(corazawaf.Options{ID: id})
	defer tx.Close()
	tx.ProcessConnection("10.0.0.1", 40000, "10.0.0.2", 80)
	uri := "/p"
	if len(c.Get) > 0 {
		uri += "?" + enc(c.Get)
	}
	method := "GET"
	if len(c.Post) > 0 {
		method = "POST"
	}
	tx.ProcessURI(uri, method, "HTTP/1.1")
	tx.AddRequestHeader("Host", "h")
	for _, e := range c.Ex {
		tx.AddRequestHeader("X-Ex-"+e, "1")
	}
	if len(c.Post) > 0 {
		tx.AddRequestHeader("Content-Type", "application/x-www-form-urlencoded")
	}
	it := tx.ProcessRequestHeaders()
	if it == nil {
		if len(c.Post) > 0 {
			if i2, _, err := tx.WriteRequestBody([]byte(enc(c.Post))); err != nil {
				return Outcome{}, err
			} else if i2 != nil {
				it = i2
			}
		}
		if it == nil {
			i3, err := tx.ProcessRequestBody()
			if err != nil {
				return Outcome{}, err
			}
			it = i3
		}
	}
	tx.ProcessLogging()
	o := Outcome{Matched: map[int][][2]string{}}
	for _, mr := range tx.MatchedRules() {
		id := mr.Rule().ID()
		l := o.Matched[id]
		for _, md := range mr.MatchedDatas() {
			l = append(l, [2]string{md.Key(), md.Value()})
		}
		if l == nil {
			l = [][2]string{}
		}
		o.Matched[id] = l
	}
	for id := range o.Matched {
		l := o.Matched[id]
		sort.Slice(l, func(i, j int) bool {
			if l[i][0] != l[j][0] {
				return l[i][0] < l[j][0]
			}
			return l[i][1] < l[j][1]
		})
	}
	if it != nil {
		o.Interrupted, o.Status = it.RuleID, it.Status
	}
	if v := tx.Variables().TX().Get("hits"); len(v) > 0 {
		o.Hits = v[0]
	}
	if v := tx.Variables().TX().Get("cap"); len(v) > 0 {
		o.Cap = v[0]
	}
	return o, nil
}

var argNames = []string{"a", "b", "c", "d", "e", "x", "y", "z", "q", "A", "X", "Y", "id", "name", "foo"}
var argValues = []string{"evil", "evil1", "xevil2", "EVIL3", " Evil4 ", "ev1l5", "good", "", "2", "select 1", "union", "variant07", "e%76il", "evil\x00"}

// GenTx draws one transaction input: most have several arguments matching the needle and a
// non-empty exclusion set, so that the merged exception list decides the outcome.
func GenTx(rng *rand.Rand) TxCase {
	var c TxCase
	nGet := 1 + rng.Intn(5)
	for i := 0; i < nGet; i++ {
		c.Get = append(c.Get, [2]string{argNames[rng.Intn(len(argNames))], argValues[rng.Intn(len(argValues))]})
	}
	if rng.Intn(3) == 0 {
		nPost := 1 + rng.Intn(3)
		for i := 0; i < nPost; i++ {
			c.Post = append(c.Post, [2]string{argNames[rng.Intn(len(argNames))], argValues[rng.Intn(len(argValues))]})
		}
	}
	switch rng.Intn(8) {
	case 0: // no exclusion
	default:
		n := 1 + rng.Intn(4)
		for i := 0; i < n; i++ {
			c.Ex = append(c.Ex, ExNames[rng.Intn(len(ExNames))])
		}
	}
	if c.Ex == nil {
		c.Ex = []string{}
	}
	if c.Post == nil {
		c.Post = [][2]string{}
	}
	return c
}

// SpareSlotsWritten checks the shared rules of waf: every slot of every Exceptions backing array
// beyond the slice length must still be empty. Returns a description of the first written slot.
func SpareSlotsWritten(waf *corazawaf.WAF) string {
	rules := waf.Rules.GetRules()
	for i := range rules {
		r := &rules[i]
		for vi, s := range r.VerifC06ExceptionSlots() {
			for j := s.Len; j < len(s.Slots); j++ {
				if s.Slots[j] != "" {
					return fmt.Sprintf("rule %d variable #%d: slot %d of the Exceptions backing array (len %d, cap %d) holds %q", r.ID_, vi, j, s.Len, len(s.Slots), s.Slots[j])
				}
			}
		}
	}
	return ""
}

// HasSpareSlot reports whether rule id of waf has a variable whose exception slice has cap > len
// (the precondition of F27).
func HasSpareSlot(waf *corazawaf.WAF, id int) bool {
	r := waf.Rules.FindByID(id)
	if r == nil {
		return false
	}
	for _, s := range r.VerifC06ExceptionSlots() {
		if len(s.Slots) > s.Len {
			return true
		}
	}
	return false
}
