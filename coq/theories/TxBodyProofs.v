(* TxBodyProofs.v — proofs about the TxBody.v model (property C10). *)
From Coq Require Import ZifyBool.
From Verif Require Import Base BodyBuffer BodyBufferProofs TxBody.
Open Scope Z_scope.

(* ---------- hypotheses under which the theorems are stated ---------- *)
(* WAF.Validate: 0 < memory limit <= limit <= 1 GiB *)
Definition gib : Z := 1073741824.
Definition wf_cfg (c : tb_cfg) : Prop :=
  0 < bo_mem (c_opt c) /\ bo_mem (c_opt c) <= bo_limit (c_opt c) /\ bo_limit (c_opt c) <= gib.
(* rule engine not Off, body access on *)
Definition active (c : tb_cfg) : Prop := c_engine_on c = true /\ c_access c = true.
(* a write / read-from call *)
Definition is_write (k : tb_call) : bool :=
  match k with WriteSlice _ | ReadFrom _ _ _ => true | _ => false end.
Definition is_unknown (k : tb_call) : bool :=
  match k with ReadFrom false _ _ => true | _ => false end.
(* Go slices and readers hold fewer than 2^63 - 2^30 bytes (the overflow guard of the request
   functions is dead below that size) *)
Definition realistic (k : tb_call) : Prop := blen (call_data k) < max_int64 - gib.

Definition L (c : tb_cfg) : Z := bo_limit (c_opt c).
Definition slen (s : tb_st) : Z := bb_len (s_buf s).
Definition stored (s : tb_st) : bytes := bb_contents (s_buf s).

(* invariant of every run without ctl limit changes *)
Definition tinv (c : tb_cfg) (s : tb_st) : Prop :=
  bb_inv (c_opt c) (s_buf s) /\ s_limit s = L c /\ slen s <= L c /\ (slen s = L c -> s_dataerr s = true).

Lemma tinv_init c ph : wf_cfg c -> tinv c (tb_init c ph).
Proof.
  intros (A & B & C). unfold tinv, slen, L. cbn [tb_init s_buf s_limit s_dataerr].
  split; [apply bb_inv_empty; lia|]. cbn. repeat split; lia.
Qed.

Lemma tinv_len c s : tinv c s -> slen s = blen (stored s) /\ 0 <= slen s.
Proof. intros ((A & _) & _). unfold slen, stored. rewrite A. split; [reflexivity | apply blen_nonneg]. Qed.

(* the state in which the limit has just been reached: buffer replaced, data-error flag set *)
Definition mk_reached (s : tb_st) (b : bbuf) : tb_st :=
  {| s_buf := b; s_limit := s_limit s; s_intr := s_intr s; s_dataerr := true;
     s_phase := s_phase s; s_runs := s_runs s; s_seen := s_seen s; s_bodyvar := s_bodyvar s |}.

(* ---------- one write call, case A: the buffer already holds limit bytes ---------- *)
Lemma step_full c s k :
  active c -> tinv c s -> is_write k = true -> slen s = L c ->
  tb_step c s k = (s, mk_ret (match c_action c with Reject => s_intr s | ProcessPartial => None end) 0 false).
Proof.
  intros (He & Ha) (Hi & Hl & Hle & Hd) Hw Hf. unfold slen in *.
  destruct k as [d|kn rs d| |z]; try discriminate; cbn [tb_step]; unfold write_slice, read_from;
    rewrite He, Ha; cbn [negb]; rewrite Hl, <- Hf, Z.eqb_refl; destruct (c_action c); reflexivity.
Qed.

(* ---------- case B: the chunk fits strictly below the limit ---------- *)
Lemma step_fits c s k :
  wf_cfg c -> active c -> tinv c s -> is_write k = true -> realistic k ->
  slen s + blen (call_data k) < L c ->
  exists b', tb_step c s k = (set_buf s b', mk_ret (s_intr s) (blen (call_data k)) false)
    /\ bb_contents b' = stored s ++ call_data k
    /\ bb_len b' = slen s + blen (call_data k)
    /\ bb_inv (c_opt c) b'.
Proof.
  intros (W1 & W2 & W3) (He & Ha) (Hi & Hl & Hle & Hd) Hw Hr Hfit.
  pose proof (bb_inv_len_nonneg _ _ Hi) as Hn. unfold slen, stored, L, realistic, gib, max_int64 in *.
  destruct k as [d|kn rs d| |z]; try discriminate; cbn [call_data] in *; pose proof (blen_nonneg d) as Hd0;
    cbn [tb_step]; unfold write_slice, read_from; rewrite He, Ha; cbn [negb].
  - (* slice *)
    destruct (s_limit s =? bb_len (s_buf s)) eqn:E1; [lia|].
    assert (overflow_guard c s (blen d) = false) as ->.
    { unfold overflow_guard, max_int64. destruct (c_dir c); [lia | reflexivity]. }
    destruct (bb_len (s_buf s) + blen d >=? s_limit s) eqn:E2; [lia|].
    assert ((blen d <? 0) || (blen d >? blen d) = false) as -> by lia.
    replace (Z.to_nat (blen d)) with (length d) by (unfold blen; lia). rewrite firstn_all.
    destruct (bb_write_ok (c_opt c) (s_buf s) d Hi) as (b' & Hwr & Hc & Hlen & Hi'); [lia|].
    rewrite Hwr. exists b'. auto.
  - (* reader *)
    destruct (s_limit s =? bb_len (s_buf s)) eqn:E1; [lia|].
    assert (kn && overflow_guard c s (blen d) = false) as ->.
    { unfold overflow_guard, max_int64. destruct kn, (c_dir c); cbn [andb]; try reflexivity; lia. }
    assert (kn && (bb_len (s_buf s) + blen d >=? s_limit s) = false) as -> by (destruct kn; cbn [andb]; lia).
    cbn [negb andb].
    set (n := if kn && true then blen d else s_limit s - bb_len (s_buf s)).
    assert (Hn1 : blen d <= n) by (subst n; destruct kn; cbn [andb]; lia).
    unfold bb_copyN.
    destruct (bb_copy_loop_ok (c_opt c) rs (copy_bufsize n) (copy_bufsize_pos n) (S (length d)) (s_buf s) d n 0 Hi)
      as (b' & Hcp & Hc & Hlen & Hi'); [lia | lia |].
    rewrite Hcp. replace (Z.min (Z.max 0 n) (blen d)) with (blen d) in * by lia.
    rewrite firstn_all2 in Hc by (unfold blen in *; lia).
    cbn [set_buf s_buf]. rewrite Hlen.
    destruct (bb_len (s_buf s) + blen d =? s_limit s) eqn:E3; [lia|].
    cbn [orb]. exists b'. rewrite Z.add_0_l. auto.
Qed.

(* ---------- case C: the chunk reaches the limit ---------- *)
Lemma reached_1 s b : set_buf (set_dataerr s) b = mk_reached s b. Proof. reflexivity. Qed.
Lemma reached_2 s b : set_dataerr (set_buf s b) = mk_reached s b. Proof. reflexivity. Qed.
Lemma reached_3 s b : set_dataerr (mk_reached s b) = mk_reached s b. Proof. reflexivity. Qed.
Lemma reached_4 s : set_dataerr s = mk_reached s (s_buf s). Proof. reflexivity. Qed.

Definition reach_bytes (c : tb_cfg) (s : tb_st) (k : tb_call) : bytes :=
  firstn (Z.to_nat (L c - slen s)) (call_data k).

Lemma step_reaches c s k :
  wf_cfg c -> active c -> tinv c s -> is_write k = true -> realistic k ->
  slen s < L c -> L c <= slen s + blen (call_data k) ->
  exists b',
    bb_inv (c_opt c) b' /\
    match c_action c with
    | Reject =>
        (if is_unknown k then bb_contents b' = stored s ++ reach_bytes c s k /\ bb_len b' = L c
         else b' = s_buf s) /\
        tb_step c s k = set_limit_intr c (mk_reached s b')
    | ProcessPartial =>
        bb_contents b' = stored s ++ reach_bytes c s k /\ bb_len b' = L c /\
        tb_step c s k = (fst (process_body c (mk_reached s b')),
                         mk_ret (s_intr (fst (process_body c (mk_reached s b')))) (L c - slen s) false)
    end.
Proof.
  intros (W1 & W2 & W3) (He & Ha) (Hi & Hl & Hle & Hd) Hw Hr Hlt Hge.
  pose proof (bb_inv_len_nonneg _ _ Hi) as Hn. unfold reach_bytes, slen, stored, L, realistic, gib, max_int64 in *.
  destruct k as [d|kn rs d| |z]; try discriminate; cbn [call_data is_unknown] in *; pose proof (blen_nonneg d) as Hd0;
    cbn [tb_step]; unfold write_slice, read_from; rewrite He, Ha; cbn [negb].
  - (* slice *)
    destruct (s_limit s =? bb_len (s_buf s)) eqn:E1; [lia|].
    assert (overflow_guard c s (blen d) = false) as ->.
    { unfold overflow_guard, max_int64. destruct (c_dir c); [lia | reflexivity]. }
    destruct (bb_len (s_buf s) + blen d >=? s_limit s) eqn:E2; [|lia].
    destruct (c_action c).
    + exists (s_buf s). split; [exact Hi|]. split; [reflexivity|]. rewrite reached_4. reflexivity.
    + set (wb := Z.max 0 (s_limit s - bb_len (s_buf s))).
      assert ((wb <? 0) || (wb >? blen d) = false) as -> by lia.
      destruct (bb_write_ok (c_opt c) (s_buf s) (firstn (Z.to_nat wb) d) Hi) as (b' & Hwr & Hc & Hlen & Hi').
      { rewrite blen_firstn_Z. lia. }
      cbn [set_dataerr s_buf]. rewrite Hwr.
      rewrite blen_firstn_Z in *. exists b'. split; [exact Hi'|].
      replace (Z.to_nat (bo_limit (c_opt c) - bb_len (s_buf s))) with (Z.to_nat wb) by lia.
      split; [exact Hc|]. split; [lia|].
      rewrite reached_1. destruct (process_body c (mk_reached s b')) as [s3 i]. cbn [fst].
      f_equal. f_equal. lia.
  - (* reader *)
    destruct (s_limit s =? bb_len (s_buf s)) eqn:E1; [lia|].
    assert (kn && overflow_guard c s (blen d) = false) as ->.
    { unfold overflow_guard, max_int64. destruct kn, (c_dir c); cbn [andb]; try reflexivity; lia. }
    destruct kn; cbn [andb negb].
    + (* known length *)
      destruct (bb_len (s_buf s) + blen d >=? s_limit s) eqn:E2; [|lia].
      destruct (c_action c).
      * exists (s_buf s). split; [exact Hi|]. split; [reflexivity|]. rewrite reached_4. reflexivity.
      * cbn [negb]. set (n := s_limit s - bb_len (s_buf s)). unfold bb_copyN.
        destruct (bb_copy_loop_ok (c_opt c) rs (copy_bufsize n) (copy_bufsize_pos n) (S (length d))
                    (s_buf (set_dataerr s)) d n 0 Hi) as (b' & Hcp & Hc & Hlen & Hi'); [lia | cbn [set_dataerr s_buf]; lia |].
        rewrite Hcp. cbn [set_dataerr s_buf] in *. rewrite reached_1. cbn [mk_reached s_limit].
        replace (Z.min (Z.max 0 n) (blen d)) with n in * by lia.
        rewrite Hlen. replace (bb_len (s_buf s) + n =? s_limit s) with true by lia.
        rewrite reached_3. cbn [orb].
        exists b'. split; [exact Hi'|]. replace (bo_limit (c_opt c) - bb_len (s_buf s)) with n by lia.
        split; [exact Hc|]. split; [lia|].
        destruct (process_body c (mk_reached s b')) as [s3 i]. cbn [fst]. rewrite Z.add_0_l. reflexivity.
    + (* unknown length *)
      set (n := s_limit s - bb_len (s_buf s)). unfold bb_copyN.
      destruct (bb_copy_loop_ok (c_opt c) rs (copy_bufsize n) (copy_bufsize_pos n) (S (length d))
                  (s_buf s) d n 0 Hi) as (b' & Hcp & Hc & Hlen & Hi'); [lia | lia |].
      rewrite Hcp. cbn [set_buf s_limit].
      replace (Z.min (Z.max 0 n) (blen d)) with n in * by lia.
      rewrite Hlen. replace (bb_len (s_buf s) + n =? s_limit s) with true by lia.
      rewrite reached_2. exists b'. split; [exact Hi'|].
      replace (bo_limit (c_opt c) - bb_len (s_buf s)) with n by lia.
      destruct (c_action c).
      * split; [split; [exact Hc | lia]|]. reflexivity.
      * split; [exact Hc|]. split; [lia|]. cbn [orb].
        destruct (process_body c (mk_reached s b')) as [s3 i]. cbn [fst]. rewrite Z.add_0_l. reflexivity.
Qed.

(* ---------- runs ---------- *)
Lemma tb_run_app c s a b :
  tb_run c s (a ++ b) =
  let '(s1, r1) := tb_run c s a in let '(s2, r2) := tb_run c s1 b in (s2, r1 ++ r2).
Proof.
  revert s; induction a as [|k a IH]; intros s; cbn [tb_run app].
  - destruct (tb_run c s b); reflexivity.
  - destruct (tb_step c s k) as [s1 x]. rewrite IH.
    destruct (tb_run c s1 a) as [s2 r1]. destruct (tb_run c s2 b) as [s3 r2]. reflexivity.
Qed.

Lemma tb_final_cons c s k ks : tb_final c s (k :: ks) = tb_final c (fst (tb_step c s k)) ks.
Proof.
  unfold tb_final; cbn [tb_run]. destruct (tb_step c s k) as [s1 x]. cbn [fst]. destruct (tb_run c s1 ks); reflexivity.
Qed.

Lemma tb_final_app c s a b : tb_final c s (a ++ b) = tb_final c (tb_final c s a) b.
Proof.
  unfold tb_final. rewrite tb_run_app. destruct (tb_run c s a) as [s1 r1]. cbn [fst].
  destruct (tb_run c s1 b); reflexivity.
Qed.

Lemma tb_rets_snoc c s ks k :
  tb_rets c s (ks ++ [k]) = tb_rets c s ks ++ [snd (tb_step c (tb_final c s ks) k)].
Proof.
  unfold tb_rets, tb_final. rewrite tb_run_app. destruct (tb_run c s ks) as [s1 r1]. cbn [fst snd tb_run].
  destruct (tb_step c s1 k); reflexivity.
Qed.

Lemma supplied_cons k ks : supplied (k :: ks) = call_data k ++ supplied ks.
Proof. reflexivity. Qed.

Lemma supplied_app a b : supplied (a ++ b) = supplied a ++ supplied b.
Proof. unfold supplied. rewrite map_app, concat_app. reflexivity. Qed.

(* calls of a run without ctl limit changes: slice writes, reader writes, explicit body-phase calls *)
Definition body_call (k : tb_call) : bool := match k with CtlLimit _ => false | _ => true end.
Definition calls_ok (ks : list tb_call) : Prop := Forall (fun k => body_call k = true /\ realistic k) ks.
Definition writes_ok (ks : list tb_call) : Prop := Forall (fun k => is_write k = true /\ realistic k) ks.

Lemma writes_calls_ok ks : writes_ok ks -> calls_ok ks.
Proof.
  apply Forall_impl. intros k [H R]. split; [|exact R]. destruct k; try discriminate; reflexivity.
Qed.

(* ---------- the body phase ---------- *)
Definition var_cond (c : tb_cfg) (x : bytes) : bool :=
  match c_dir c with
  | Req => c_access c && negb (blen x =? 0) && match c_bp c with BPnone => false | _ => true end
  | Resp => c_access c && c_processable c
  end.
(* value of REQUEST_BODY / RESPONSE_BODY after the phase ran over buffer contents x *)
Definition var_after (c : tb_cfg) (old x : bytes) : bytes := if var_cond c x then x else old.
Definition deny_intr (c : tb_cfg) : option Z := if c_deny c then Some 403 else None.

Definition ran (c : tb_cfg) (x : tb_st) : tb_st :=
  {| s_buf := s_buf x; s_limit := s_limit x; s_intr := deny_intr c; s_dataerr := s_dataerr x;
     s_phase := body_phase (c_dir c); s_runs := S (s_runs x);
     s_seen := Some (var_after c (s_bodyvar x) (stored x));
     s_bodyvar := var_after c (s_bodyvar x) (stored x) |}.

Lemma process_runs c x :
  c_engine_on c = true -> bb_inv (c_opt c) (s_buf x) -> s_intr x = None -> s_phase x = hdr_phase (c_dir c) ->
  process_body c x = (ran c x, deny_intr c).
Proof.
  intros He [Hi _] Hn Hp. unfold process_body. rewrite He, Hn, Hp, Z.eqb_refl. cbn [negb].
  assert (body_var_set c x = var_cond c (stored x)) as E.
  { unfold body_var_set, var_cond, stored. rewrite Hi. reflexivity. }
  unfold ran, var_after, deny_intr, stored. rewrite E. reflexivity.
Qed.

Lemma process_noop c x :
  s_intr x <> None \/ s_phase x <> hdr_phase (c_dir c) -> fst (process_body c x) = x.
Proof.
  intros H. unfold process_body. destruct (negb (c_engine_on c)); [reflexivity|].
  destruct (s_intr x) eqn:Ei; [reflexivity|]. destruct H as [H|H]; [congruence|].
  destruct (s_phase x =? hdr_phase (c_dir c)) eqn:E; [lia|]. reflexivity.
Qed.

Lemma process_keeps c x :
  s_buf (fst (process_body c x)) = s_buf x /\ s_limit (fst (process_body c x)) = s_limit x
  /\ s_dataerr (fst (process_body c x)) = s_dataerr x.
Proof.
  unfold process_body. destruct (negb (c_engine_on c)); [auto|]. destruct (s_intr x); [auto|].
  destruct (negb (s_phase x =? hdr_phase (c_dir c))); cbn; auto.
Qed.

Lemma hdr_body_phase d : body_phase d <> hdr_phase d.
Proof. destruct d; cbn; lia. Qed.

(* the transaction is waiting for its body phase *)
Definition pending (c : tb_cfg) (s : tb_st) : Prop :=
  s_phase s = hdr_phase (c_dir c) /\ s_intr s = None /\ s_runs s = 0%nat /\ s_seen s = None.
(* everything except buffer and data-error flag is unchanged *)
Definition ghost_eq (s s' : tb_st) : Prop :=
  s_phase s' = s_phase s /\ s_runs s' = s_runs s /\ s_seen s' = s_seen s /\ s_bodyvar s' = s_bodyvar s
  /\ s_intr s' = s_intr s.

Lemma ghost_eq_refl s : ghost_eq s s.
Proof. repeat split. Qed.

Lemma ghost_eq_trans a b c' : ghost_eq a b -> ghost_eq b c' -> ghost_eq a c'.
Proof. unfold ghost_eq. intuition congruence. Qed.

Lemma firstn_full_app {A} n (a b : list A) : length a = n -> firstn n (a ++ b) = a.
Proof. intros <-. rewrite firstn_app, Nat.sub_diag, firstn_all. cbn. apply app_nil_r. Qed.

Lemma firstn_short_app {A} n (a : list A) : (length a <= n)%nat -> firstn n a = a.
Proof. apply firstn_all2. Qed.

(* ---------- ProcessPartial: one call ---------- *)
Definition triggers (c : tb_cfg) (s : tb_st) (k : tb_call) : bool :=
  negb (is_write k) || (L c <=? slen s + blen (call_data k)).

Lemma pp_step c s k :
  wf_cfg c -> active c -> c_action c = ProcessPartial -> tinv c s -> body_call k = true -> realistic k ->
  let s1 := fst (tb_step c s k) in
  tinv c s1
  /\ stored s1 = firstn (Z.to_nat (L c)) (stored s ++ call_data k)
  /\ s_dataerr s1 = s_dataerr s || (is_write k && (L c <=? slen s + blen (call_data k)))
  /\ (s_phase s <> hdr_phase (c_dir c) -> ghost_eq s s1)
  /\ (pending c s -> slen s < L c ->
      if triggers c s k
      then s_phase s1 = body_phase (c_dir c) /\ s_runs s1 = 1%nat /\ s_intr s1 = deny_intr c
           /\ s_seen s1 = Some (var_after c (s_bodyvar s) (stored s1))
           /\ s_bodyvar s1 = var_after c (s_bodyvar s) (stored s1)
      else pending c s1 /\ s_bodyvar s1 = s_bodyvar s /\ slen s1 < L c).
Proof.
  intros W A HP Ti Hb Hr. pose proof Ti as (Hi & Hl & Hle & Hd). pose proof (tinv_len c s Ti) as [Hsl Hs0].
  destruct A as [He Ha]. pose proof (conj He Ha : active c) as A.
  assert (HLnat : Z.of_nat (Z.to_nat (L c)) = L c) by (destruct W as (? & ? & ?); unfold L; lia).
  destruct (is_write k) eqn:Hw.
  2:{ (* ProcessBody *)
    destruct k; try discriminate. cbn [tb_step call_data is_write]. rewrite app_nil_r. unfold triggers. cbn [is_write negb orb andb].
    rewrite orb_false_r.
    destruct (process_keeps c s) as (B1 & B2 & B3).
    destruct (process_body c s) as [s1 i] eqn:Ep. cbn [fst] in *.
    split. { unfold tinv, slen. rewrite B1, B2, B3. exact Ti. }
    split. { unfold stored. rewrite B1. symmetry. apply firstn_short_app. unfold stored, slen, blen in *. lia. }
    split. { exact B3. }
    split.
    { intros Hne. replace s1 with (fst (process_body c s)) by (rewrite Ep; reflexivity).
      rewrite process_noop by (right; exact Hne). apply ghost_eq_refl. }
    intros (P1 & P2 & P3 & P4) Hlt. rewrite (process_runs c s He Hi P2 P1) in Ep. inversion Ep; subst s1 i.
    cbn [ran s_phase s_runs s_intr s_seen s_bodyvar]. rewrite P3. unfold stored at 2 4. cbn [ran s_buf]. auto. }
  (* a write call *)
  cbn [andb]. unfold triggers. rewrite Hw. cbn [negb orb].
  destruct (Z.eq_dec (slen s) (L c)) as [Hfull|Hnf].
  { (* already full *)
    rewrite (step_full c s k A Ti Hw Hfull). cbn [fst].
    split; [exact Ti|]. split.
    { symmetry. rewrite firstn_full_app; [reflexivity|]. unfold blen in *. lia. }
    split. { rewrite (Hd Hfull). reflexivity. }
    split. { intros _. apply ghost_eq_refl. }
    intros _ Hlt. lia. }
  destruct (Z.lt_ge_cases (slen s + blen (call_data k)) (L c)) as [Hfit|Hreach].
  { (* fits *)
    destruct (step_fits c s k W A Ti Hw Hr Hfit) as (b' & Hst & Hc & Hlen & Hi').
    rewrite Hst. cbn [fst]. replace (L c <=? slen s + blen (call_data k)) with false by lia.
    split. { unfold tinv, slen in *. cbn [set_buf s_buf s_limit s_dataerr].
             split; [exact Hi'|]. split; [exact Hl|]. split; [lia|]. intros X. lia. }
    split. { unfold stored at 1. cbn [set_buf s_buf]. rewrite Hc. symmetry. apply firstn_short_app.
             rewrite app_length. unfold blen in *. lia. }
    split. { cbn [set_buf s_dataerr]. rewrite orb_false_r. reflexivity. }
    split. { intros _. repeat split. }
    intros (P1 & P2 & P3 & P4) Hlt. split; [repeat split; assumption|]. split; [reflexivity|].
    unfold slen. cbn [set_buf s_buf]. unfold slen in *. lia. }
  (* reaches the limit *)
  assert (Hlt : slen s < L c) by lia.
  destruct (step_reaches c s k W A Ti Hw Hr Hlt Hreach) as (b' & Hi' & Hst). rewrite HP in Hst.
  destruct Hst as (Hc & Hlen & Hst). rewrite Hst. cbn [fst].
  replace (L c <=? slen s + blen (call_data k)) with true by lia.
  assert (Hstored : bb_contents b' = firstn (Z.to_nat (L c)) (stored s ++ call_data k)).
  { rewrite Hc. unfold reach_bytes. rewrite firstn_app_le by (unfold blen in *; lia). f_equal. f_equal.
    unfold blen in *. lia. }
  destruct (process_keeps c (mk_reached s b')) as (B1 & B2 & B3).
  split. { unfold tinv, slen. rewrite B1, B2, B3. cbn [mk_reached s_buf s_limit s_dataerr].
           split; [exact Hi'|]. split; [exact Hl|]. split; [lia|]. reflexivity. }
  split. { unfold stored at 1. rewrite B1. cbn [mk_reached s_buf]. exact Hstored. }
  split. { rewrite B3. cbn [mk_reached s_dataerr]. rewrite orb_true_r. reflexivity. }
  split.
  { intros Hne. rewrite process_noop by (right; exact Hne). repeat split. }
  intros (P1 & P2 & P3 & P4) _.
  rewrite (process_runs c (mk_reached s b') He Hi' P2 P1). cbn [fst ran s_phase s_runs s_intr s_seen s_bodyvar mk_reached].
  rewrite P3. unfold stored. cbn [ran s_buf mk_reached]. auto.
Qed.

(* ---------- ProcessPartial: whole runs ---------- *)
(* buffer contents at the moment the body phase is evaluated: at the first write that reaches the
   limit (the first limit bytes) or at the first explicit call (everything so far) *)
Fixpoint pp_trigger (lim : Z) (acc : bytes) (ks : list tb_call) : option bytes :=
  match ks with
  | [] => None
  | k :: r =>
    if is_write k then
      let acc' := acc ++ call_data k in
      if lim <=? blen acc' then Some (firstn (Z.to_nat lim) acc') else pp_trigger lim acc' r
    else Some acc
  end.

Lemma pp_gen c :
  wf_cfg c -> active c -> c_action c = ProcessPartial ->
  forall ks s, tinv c s -> calls_ok ks ->
  let s' := tb_final c s ks in
  tinv c s'
  /\ stored s' = firstn (Z.to_nat (L c)) (stored s ++ supplied ks)
  /\ s_dataerr s' = s_dataerr s || (L c <=? slen s + blen (supplied ks))
  /\ (s_phase s <> hdr_phase (c_dir c) -> ghost_eq s s')
  /\ (pending c s -> slen s < L c ->
      match pp_trigger (L c) (stored s) ks with
      | Some x => s_phase s' = body_phase (c_dir c) /\ s_runs s' = 1%nat /\ s_intr s' = deny_intr c
                  /\ s_seen s' = Some (var_after c (s_bodyvar s) x)
                  /\ s_bodyvar s' = var_after c (s_bodyvar s) x
      | None => pending c s' /\ s_bodyvar s' = s_bodyvar s /\ slen s' < L c
      end).
Proof.
  intros W A HP. induction ks as [|k ks IH]; intros s Ti Hok.
  - cbn [tb_final tb_run fst supplied map concat pp_trigger]. rewrite app_nil_r.
    pose proof (tinv_len c s Ti) as [Hsl Hs0]. destruct Ti as (Hi & Hl & Hle & Hd).
    pose proof (conj Hi (conj Hl (conj Hle Hd)) : tinv c s) as Ti.
    split; [exact Ti|]. split. { symmetry. apply firstn_short_app. unfold blen in *. lia. }
    split. { rewrite blen_nil, Z.add_0_r. destruct (Z.eq_dec (slen s) (L c)) as [E|E].
             - rewrite (Hd E). reflexivity.
             - replace (L c <=? slen s) with false by lia. rewrite orb_false_r. reflexivity. }
    split. { intros _. apply ghost_eq_refl. }
    intros P Hlt. auto.
  - inversion Hok as [|? ? [Hb Hr] Hok']; subst.
    rewrite tb_final_cons. pose proof (pp_step c s k W A HP Ti Hb Hr) as Hst. cbv zeta in Hst.
    set (s1 := fst (tb_step c s k)) in *. destruct Hst as (Ti1 & Hs1 & Hd1 & Hg1 & Hp1).
    specialize (IH s1 Ti1 Hok'). cbv zeta in IH. set (s' := tb_final c s1 ks) in *.
    destruct IH as (Ti' & Hs' & Hd' & Hg' & Hp').
    pose proof (tinv_len c s Ti) as [Hsl Hs0]. pose proof (tinv_len c s1 Ti1) as [Hsl1 Hs10].
    pose proof Ti as (Hi & Hl & Hle & Hdd).
    assert (HLnat : Z.of_nat (Z.to_nat (L c)) = L c) by (destruct W as (? & ? & ?); unfold L; lia).
    pose proof (blen_nonneg (call_data k)) as Hk0. pose proof (blen_nonneg (supplied ks)) as Hks0.
    assert (Hlen1 : slen s1 = Z.min (L c) (slen s + blen (call_data k))).
    { rewrite Hsl1, Hs1, blen_firstn_Z, blen_app. lia. }
    split; [exact Ti'|]. split.
    { rewrite Hs', Hs1, supplied_cons, app_assoc. apply firstn_firstn_app. }
    split.
    { rewrite Hd', Hd1, supplied_cons, blen_app, Hlen1.
      destruct (is_write k) eqn:Hw.
      - cbn [andb]. destruct (L c <=? slen s + blen (call_data k)) eqn:E.
        + rewrite orb_true_r. cbn [orb]. symmetry. apply orb_true_iff. right. lia.
        + rewrite orb_false_r. f_equal. lia.
      - cbn [andb]. rewrite orb_false_r. destruct k; try discriminate. cbn [call_data]. rewrite blen_nil. f_equal. lia. }
    split.
    { intros Hne. specialize (Hg1 Hne). apply (ghost_eq_trans _ _ _ Hg1). apply Hg'.
      destruct Hg1 as (E & _). rewrite E. exact Hne. }
    intros P Hlt. specialize (Hp1 P Hlt). cbn [pp_trigger]. unfold triggers in Hp1.
    destruct (is_write k) eqn:Hw; cbn [negb orb] in Hp1.
    + rewrite blen_app, <- Hsl.
      destruct (L c <=? slen s + blen (call_data k)) eqn:E.
      * destruct Hp1 as (Q1 & Q2 & Q3 & Q4 & Q5).
        assert (Hne : s_phase s1 <> hdr_phase (c_dir c)) by (rewrite Q1; apply hdr_body_phase).
        destruct (Hg' Hne) as (G1 & G2 & G3 & G4 & G5). rewrite <- Hs1.
        rewrite G1, G2, G3, G4, G5. auto.
      * destruct Hp1 as (Q1 & Q2 & Q3). specialize (Hp' Q1 Q3).
        assert (stored s1 = stored s ++ call_data k) as E1.
        { rewrite Hs1. apply firstn_short_app. rewrite app_length. unfold blen in *. lia. }
        rewrite E1, Q2 in Hp'. exact Hp'.
    + destruct Hp1 as (Q1 & Q2 & Q3 & Q4 & Q5).
      assert (Hne : s_phase s1 <> hdr_phase (c_dir c)) by (rewrite Q1; apply hdr_body_phase).
      destruct (Hg' Hne) as (G1 & G2 & G3 & G4 & G5).
      assert (stored s1 = stored s) as E1.
      { rewrite Hs1. destruct k; try discriminate. cbn [call_data]. rewrite app_nil_r.
        apply firstn_short_app. unfold blen in *. lia. }
      rewrite E1 in *. rewrite G1, G2, G3, G4, G5. auto.
Qed.

Lemma pp_trigger_writes lim ws : Forall (fun k => is_write k = true) ws -> forall acc,
  blen acc < lim ->
  pp_trigger lim acc ws =
  if lim <=? blen (acc ++ supplied ws) then Some (firstn (Z.to_nat lim) (acc ++ supplied ws)) else None.
Proof.
  induction 1 as [|k ws Hk Hws IH]; intros acc Hacc.
  - cbn [pp_trigger supplied map concat]. rewrite app_nil_r. replace (lim <=? blen acc) with false by lia. reflexivity.
  - cbn [pp_trigger]. rewrite Hk. rewrite supplied_cons, app_assoc.
    destruct (lim <=? blen (acc ++ call_data k)) eqn:E.
    + replace (lim <=? blen ((acc ++ call_data k) ++ supplied ws)) with true
        by (rewrite blen_app; pose proof (blen_nonneg (supplied ws)); lia).
      f_equal. rewrite (firstn_app (Z.to_nat lim) (acc ++ call_data k)).
      replace (Z.to_nat lim - length (acc ++ call_data k))%nat with 0%nat by (unfold blen in *; lia).
      cbn [firstn]. rewrite app_nil_r. reflexivity.
    + apply IH. lia.
Qed.

Lemma pp_trigger_app_some lim a b : forall acc x,
  pp_trigger lim acc a = Some x -> pp_trigger lim acc (a ++ b) = Some x.
Proof.
  induction a as [|k a IH]; intros acc x H; [discriminate|].
  cbn [pp_trigger app] in *. destruct (is_write k); [|exact H].
  destruct (lim <=? blen (acc ++ call_data k)); [exact H|]. apply IH. exact H.
Qed.

Lemma pp_trigger_app_none lim a b : Forall (fun k => is_write k = true) a -> forall acc,
  pp_trigger lim acc a = None -> pp_trigger lim acc (a ++ b) = pp_trigger lim (acc ++ supplied a) b.
Proof.
  induction 1 as [|k a Hk Ha IH]; intros acc H.
  - cbn. rewrite app_nil_r. reflexivity.
  - cbn [pp_trigger app] in *. rewrite Hk in *. rewrite supplied_cons, app_assoc.
    destruct (lim <=? blen (acc ++ call_data k)); [discriminate|]. apply IH. exact H.
Qed.

(* ---------- returned values of one write call (both actions) ---------- *)
Lemma step_ret c s k :
  wf_cfg c -> active c -> tinv c s -> is_write k = true -> realistic k ->
  let '(s1, r) := tb_step c s k in
  r_err r = false /\ r_panic r = false /\
  r_n r = match c_action c with
          | ProcessPartial => slen s1 - slen s
          | Reject => if L c <=? slen s + blen (call_data k) then 0 else blen (call_data k)
          end.
Proof.
  intros W A Ti Hw Hr. pose proof (tinv_len c s Ti) as [Hsl Hs0]. pose proof Ti as (Hi & Hl & Hle & Hd).
  pose proof (blen_nonneg (call_data k)) as Hk0.
  destruct (Z.eq_dec (slen s) (L c)) as [Hfull|Hnf].
  { rewrite (step_full c s k A Ti Hw Hfull). cbn [mk_ret r_err r_panic r_n]. repeat split.
    destruct (c_action c); [|lia]. replace (L c <=? slen s + blen (call_data k)) with true by lia. reflexivity. }
  destruct (Z.lt_ge_cases (slen s + blen (call_data k)) (L c)) as [Hfit|Hreach].
  { destruct (step_fits c s k W A Ti Hw Hr Hfit) as (b' & Hst & Hc & Hlen & Hi'). rewrite Hst.
    cbn [mk_ret r_err r_panic r_n]. repeat split.
    replace (L c <=? slen s + blen (call_data k)) with false by lia. destruct (c_action c); [reflexivity|].
    unfold slen in *. cbn [set_buf s_buf]. lia. }
  assert (Hlt : slen s < L c) by lia.
  destruct (step_reaches c s k W A Ti Hw Hr Hlt Hreach) as (b' & Hi' & Hst).
  replace (L c <=? slen s + blen (call_data k)) with true by lia.
  destruct (c_action c).
  - destruct Hst as (_ & Hst). rewrite Hst. unfold set_limit_intr. destruct (s_intr (mk_reached s b')); cbn; auto.
  - destruct Hst as (Hc & Hlen & Hst). rewrite Hst. cbn [mk_ret r_err r_panic r_n]. repeat split.
    destruct (process_keeps c (mk_reached s b')) as (B1 & _). unfold slen in *. rewrite B1. cbn [mk_reached s_buf]. lia.
Qed.

(* ---------- Reject: one write call ---------- *)
Definition status_after (c : tb_cfg) (s : tb_st) : option Z :=
  match s_intr s with Some i => Some i | None => Some (limit_status (c_dir c)) end.
Definition ghost_fixed (s s' : tb_st) : Prop :=
  s_phase s' = s_phase s /\ s_runs s' = s_runs s /\ s_seen s' = s_seen s /\ s_bodyvar s' = s_bodyvar s.

Lemma rj_step c s k :
  wf_cfg c -> active c -> c_action c = Reject -> tinv c s -> is_write k = true -> realistic k ->
  (slen s = L c -> s_intr s <> None) ->
  let s1 := fst (tb_step c s k) in let r := snd (tb_step c s k) in
  tinv c s1 /\ ghost_fixed s s1 /\ r_intr r = s_intr s1 /\ (slen s1 = L c -> s_intr s1 <> None)
  /\ (slen s + blen (call_data k) < L c ->
        stored s1 = stored s ++ call_data k /\ s_intr s1 = s_intr s /\ s_dataerr s1 = s_dataerr s)
  /\ (L c <= slen s + blen (call_data k) ->
        s_intr s1 = status_after c s /\ s_dataerr s1 = true
        /\ stored s1 = if (slen s <? L c) && is_unknown k
                       then firstn (Z.to_nat (L c)) (stored s ++ call_data k) else stored s).
Proof.
  intros W A HR Ti Hw Hr Hfi. pose proof (tinv_len c s Ti) as [Hsl Hs0]. pose proof Ti as (Hi & Hl & Hle & Hd).
  pose proof (blen_nonneg (call_data k)) as Hk0.
  destruct (Z.eq_dec (slen s) (L c)) as [Hfull|Hnf].
  { rewrite (step_full c s k A Ti Hw Hfull). rewrite HR. cbn [fst snd mk_ret r_intr].
    split; [exact Ti|]. split; [repeat split|]. split; [reflexivity|]. split; [exact Hfi|].
    split; [intros; lia|]. intros _. replace (slen s <? L c) with false by lia. cbn [andb].
    split; [|split; [apply Hd; exact Hfull | reflexivity]].
    unfold status_after. specialize (Hfi Hfull). destruct (s_intr s); [reflexivity | congruence]. }
  destruct (Z.lt_ge_cases (slen s + blen (call_data k)) (L c)) as [Hfit|Hreach].
  { destruct (step_fits c s k W A Ti Hw Hr Hfit) as (b' & Hst & Hc & Hlen & Hi'). rewrite Hst. cbn [fst snd mk_ret r_intr].
    split. { unfold tinv, slen in *. cbn [set_buf s_buf s_limit s_dataerr].
             split; [exact Hi'|]. split; [exact Hl|]. split; [lia|]. intros X. lia. }
    split; [repeat split|]. split; [reflexivity|].
    split. { unfold slen in *. cbn [set_buf s_buf]. intros X. lia. }
    split; [|intros; lia]. intros _. unfold stored at 1. cbn [set_buf s_buf s_intr s_dataerr]. auto. }
  assert (Hlt : slen s < L c) by lia.
  destruct (step_reaches c s k W A Ti Hw Hr Hlt Hreach) as (b' & Hi' & Hst). rewrite HR in Hst.
  destruct Hst as (Hb & Hst). rewrite Hst.
  assert (Hsli : set_limit_intr c (mk_reached s b') =
                 ({| s_buf := b'; s_limit := s_limit s; s_intr := status_after c s; s_dataerr := true;
                     s_phase := s_phase s; s_runs := s_runs s; s_seen := s_seen s; s_bodyvar := s_bodyvar s |},
                  mk_ret (status_after c s) 0 false)).
  { unfold set_limit_intr, status_after, mk_reached. cbn [s_intr]. destruct (s_intr s); reflexivity. }
  rewrite Hsli. cbn [fst snd mk_ret r_intr s_intr].
  assert (Hlen' : bb_len b' <= L c /\ (bb_len b' = L c -> is_unknown k = true)).
  { destruct (is_unknown k); [destruct Hb as (_ & E); lia|]. subst b'. unfold slen in *. lia. }
  split. { unfold tinv, slen. cbn [s_buf s_limit s_dataerr]. split; [exact Hi'|]. split; [exact Hl|]. split; [lia|]. reflexivity. }
  split; [repeat split|]. split; [reflexivity|].
  split. { intros _. unfold status_after. destruct (s_intr s); discriminate. }
  split; [intros; lia|]. intros _. split; [reflexivity|]. split; [reflexivity|].
  unfold stored at 1. cbn [s_buf]. replace (slen s <? L c) with true by lia. cbn [andb].
  destruct (is_unknown k); [|subst b'; reflexivity].
  destruct Hb as (Hc & _). rewrite Hc. unfold reach_bytes.
  assert (HLnat : Z.of_nat (Z.to_nat (L c)) = L c) by lia.
  rewrite firstn_app_le by (unfold blen in *; lia). f_equal. f_equal. unfold blen in *. lia.
Qed.


(* ---------- runs from a fresh transaction whose headers phase has been evaluated ---------- *)
Definition init (c : tb_cfg) : tb_st := tb_init c (hdr_phase (c_dir c)).

Lemma init_facts c : wf_cfg c ->
  tinv c (init c) /\ pending c (init c) /\ stored (init c) = [] /\ slen (init c) = 0 /\ s_bodyvar (init c) = []
  /\ s_dataerr (init c) = false.
Proof. intros W. split; [apply tinv_init; exact W|]. repeat split. Qed.

Definition body_visible (c : tb_cfg) : Prop :=
  match c_dir c with Req => c_bp c <> BPnone | Resp => c_processable c = true end.

Lemma var_after_visible c x : c_access c = true -> body_visible c -> var_after c [] x = x.
Proof.
  intros Ha Hv. unfold var_after, var_cond, body_visible in *. rewrite Ha. destruct (c_dir c).
  - destruct (blen x =? 0) eqn:E; cbn [negb andb].
    + symmetry. apply blen_zero. lia.
    + destruct (c_bp c); try reflexivity. congruence.
  - rewrite Hv. reflexivity.
Qed.

Section PP.
Variable c : tb_cfg.
Hypothesis W : wf_cfg c.
Hypothesis A : active c.
Hypothesis HP : c_action c = ProcessPartial.

Lemma Lpos : 0 < L c.
Proof. destruct W as (? & ? & ?). unfold L. lia. Qed.

Theorem pp_stored_prefix ks : calls_ok ks ->
  stored (tb_final c (init c) ks) = firstn (Z.to_nat (L c)) (supplied ks)
  /\ s_dataerr (tb_final c (init c) ks) = (L c <=? blen (supplied ks)).
Proof.
  intros Hok. destruct (init_facts c W) as (Ti & P & Hs & Hl & Hb & Hd).
  destruct (pp_gen c W A HP ks (init c) Ti Hok) as (_ & H1 & H2 & _).
  rewrite Hs in H1. rewrite Hd, Hl in H2. split; [exact H1 | exact H2].
Qed.

Theorem pp_phase_once ks : calls_ok ks ->
  let s' := tb_final c (init c) ks in
  match pp_trigger (L c) [] ks with
  | Some x => s_runs s' = 1%nat /\ s_phase s' = body_phase (c_dir c) /\ s_intr s' = deny_intr c
              /\ s_seen s' = Some (var_after c [] x) /\ s_bodyvar s' = var_after c [] x
  | None => s_runs s' = 0%nat /\ s_phase s' = hdr_phase (c_dir c) /\ s_intr s' = None
            /\ s_seen s' = None /\ s_bodyvar s' = []
  end.
Proof.
  intros Hok. destruct (init_facts c W) as (Ti & P & Hs & Hl & Hb & Hd).
  destruct (pp_gen c W A HP ks (init c) Ti Hok) as (_ & _ & _ & _ & H).
  pose proof Lpos. specialize (H P ltac:(lia)). rewrite Hs, Hb in H. cbv zeta.
  destruct (pp_trigger (L c) [] ks).
  - tauto.
  - destruct H as ((Q1 & Q2 & Q3 & Q4) & Q5 & _). auto.
Qed.

Lemma writes_ok_forall ws : writes_ok ws -> Forall (fun k => is_write k = true) ws.
Proof. apply Forall_impl. tauto. Qed.

(* the connector writes the body, then calls ProcessRequestBody/ProcessResponseBody: the phase is
   evaluated exactly once, over exactly the first min(limit, size) bytes, whatever follows *)
Theorem pp_explicit ws rest : writes_ok ws -> calls_ok rest ->
  let s' := tb_final c (init c) (ws ++ ProcessBody :: rest) in
  let x := firstn (Z.to_nat (L c)) (supplied ws) in
  s_runs s' = 1%nat /\ s_seen s' = Some (var_after c [] x) /\ s_bodyvar s' = var_after c [] x
  /\ s_phase s' = body_phase (c_dir c) /\ s_intr s' = deny_intr c.
Proof.
  intros Hw Hr. cbv zeta.
  assert (Hok : calls_ok (ws ++ ProcessBody :: rest)).
  { apply Forall_app. split; [apply writes_calls_ok; exact Hw|]. constructor; [|exact Hr].
    split; [reflexivity|]. unfold realistic, max_int64, gib. cbn. lia. }
  pose proof (pp_phase_once _ Hok) as H. cbv zeta in H.
  assert (pp_trigger (L c) [] (ws ++ ProcessBody :: rest) = Some (firstn (Z.to_nat (L c)) (supplied ws))) as E.
  { pose proof (pp_trigger_writes (L c) ws (writes_ok_forall ws Hw) [] ltac:(pose proof Lpos; cbn; lia)) as T.
    cbn [app] in T. destruct (L c <=? blen (supplied ws)) eqn:El.
    - apply pp_trigger_app_some. exact T.
    - rewrite pp_trigger_app_none by (try apply writes_ok_forall; assumption).
      cbn [app pp_trigger is_write]. f_equal. symmetry. apply firstn_all2. unfold blen in *. lia. }
  rewrite E in H. tauto.
Qed.

(* the phase is evaluated by the write that reaches the limit, not before *)
Theorem pp_at_limit ws rest : writes_ok ws -> calls_ok rest -> L c <= blen (supplied ws) ->
  let s' := tb_final c (init c) (ws ++ rest) in
  let x := firstn (Z.to_nat (L c)) (supplied ws) in
  s_runs s' = 1%nat /\ s_seen s' = Some (var_after c [] x) /\ s_bodyvar s' = var_after c [] x
  /\ blen x = L c.
Proof.
  intros Hw Hr Hl. cbv zeta.
  assert (Hok : calls_ok (ws ++ rest)) by (apply Forall_app; split; [apply writes_calls_ok|]; assumption).
  pose proof (pp_phase_once _ Hok) as H. cbv zeta in H.
  pose proof (pp_trigger_writes (L c) ws (writes_ok_forall ws Hw) [] ltac:(pose proof Lpos; cbn; lia)) as T.
  cbn [app] in T. replace (L c <=? blen (supplied ws)) with true in T by lia.
  rewrite (pp_trigger_app_some _ _ rest _ _ T) in H.
  repeat split; try tauto. rewrite blen_firstn_Z. pose proof Lpos. lia.
Qed.

Theorem pp_not_before ws : writes_ok ws -> blen (supplied ws) < L c ->
  s_runs (tb_final c (init c) ws) = 0%nat /\ s_phase (tb_final c (init c) ws) = hdr_phase (c_dir c).
Proof.
  intros Hw Hl. pose proof (pp_phase_once _ (writes_calls_ok _ Hw)) as H. cbv zeta in H.
  pose proof (pp_trigger_writes (L c) ws (writes_ok_forall ws Hw) [] ltac:(pose proof Lpos; cbn; lia)) as T.
  cbn [app] in T. replace (L c <=? blen (supplied ws)) with false in T by lia. rewrite T in H. tauto.
Qed.

(* once limit bytes are held, every further write is ignored: nothing stored, n = 0, no error, no
   interruption returned by that call *)
Theorem pp_later_ignored ks k : calls_ok ks -> is_write k = true -> L c <= blen (supplied ks) ->
  tb_step c (tb_final c (init c) ks) k = (tb_final c (init c) ks, mk_ret None 0 false).
Proof.
  intros Hok Hw Hl. destruct (init_facts c W) as (Ti & _).
  destruct (pp_gen c W A HP ks (init c) Ti Hok) as (Ti' & _).
  destruct (pp_stored_prefix ks Hok) as (Hs & _).
  pose proof (tinv_len c _ Ti') as [Hsl _].
  rewrite (step_full c _ k A Ti' Hw); [rewrite HP; reflexivity|].
  rewrite Hsl, Hs, blen_firstn_Z. pose proof Lpos. lia.
Qed.

(* n is the number of bytes this call added; never an error, never a panic *)
Theorem pp_ret ks k : calls_ok ks -> is_write k = true -> realistic k ->
  let s := tb_final c (init c) ks in
  let '(s1, r) := tb_step c s k in
  r_err r = false /\ r_panic r = false /\ r_n r = blen (stored s1) - blen (stored s).
Proof.
  intros Hok Hw Hr. cbv zeta. destruct (init_facts c W) as (Ti & _).
  destruct (pp_gen c W A HP ks (init c) Ti Hok) as (Ti' & _).
  pose proof (step_ret c _ k W A Ti' Hw Hr) as H.
  pose proof (pp_step c _ k W A HP Ti' ltac:(destruct k; try discriminate; reflexivity) Hr) as (Ti1 & _).
  destruct (tb_step c (tb_final c (init c) ks) k) as [s1 r]. cbn [fst] in Ti1.
  rewrite HP in H. destruct H as (H1 & H2 & H3). repeat split; try assumption.
  rewrite H3. destruct (tinv_len c _ Ti') as [E1 _]. destruct (tinv_len c _ Ti1) as [E2 _]. lia.
Qed.
End PP.


Section RJ.
Variable c : tb_cfg.
Hypothesis W : wf_cfg c.
Hypothesis A : active c.
Hypothesis HR : c_action c = Reject.

Definition no_unknown (ws : list tb_call) : bool := forallb (fun k => negb (is_unknown k)) ws.

Definition rj_inv (ws : list tb_call) (s : tb_st) : Prop :=
  tinv c s
  /\ (s_phase s = hdr_phase (c_dir c) /\ s_runs s = 0%nat /\ s_seen s = None /\ s_bodyvar s = [])
  /\ (slen s = L c -> s_intr s <> None)
  /\ ((blen (supplied ws) < L c /\ s_intr s = None /\ stored s = supplied ws /\ s_dataerr s = false)
      \/ (L c <= blen (supplied ws) /\ s_intr s = Some (limit_status (c_dir c)) /\ s_dataerr s = true))
  /\ (no_unknown ws = true -> slen s < L c).

Lemma tb_final_single s k : tb_final c s [k] = fst (tb_step c s k).
Proof. unfold tb_final. cbn [tb_run]. destruct (tb_step c s k). reflexivity. Qed.

Lemma writes_ok_app a b : writes_ok (a ++ b) <-> writes_ok a /\ writes_ok b.
Proof. apply Forall_app. Qed.

Lemma rj_run ws : writes_ok ws -> rj_inv ws (tb_final c (init c) ws).
Proof.
  induction ws as [|k ws IH] using rev_ind; intros Hw.
  - destruct (init_facts c W) as (Ti & (P1 & P2 & P3 & P4) & Hs & Hl & Hb & Hd). pose proof (Lpos c W).
    cbn [tb_final tb_run fst]. split; [exact Ti|]. split; [auto|]. split; [intros; lia|].
    split; [left; cbn; auto|]. intros _. lia.
  - apply writes_ok_app in Hw. destruct Hw as [Hw Hk]. inversion Hk as [|? ? [Hkw Hkr] _]; subst.
    specialize (IH Hw). destruct IH as (Ti & (G1 & G2 & G3 & G4) & Hfi & Hdis & Hnu).
    rewrite tb_final_app. set (s := tb_final c (init c) ws) in *.
    rewrite tb_final_single. destruct (tb_step c s k) as [s1 r] eqn:Est. cbn [fst].
    pose proof (rj_step c s k W A HR Ti Hkw Hkr Hfi) as H. cbv zeta in H. rewrite Est in H. cbn [fst snd] in H.
    destruct H as (Ti1 & (F1 & F2 & F3 & F4) & Hri & Hfi1 & Hfit & Hrch).
    pose proof (tinv_len c s Ti) as [Hsl Hs0]. pose proof (tinv_len c s1 Ti1) as [Hsl1 Hs10].
    pose proof (blen_nonneg (call_data k)) as Hk0.
    assert (Hsup : supplied (ws ++ [k]) = supplied ws ++ call_data k).
    { rewrite supplied_app. cbn. rewrite app_nil_r. reflexivity. }
    split; [exact Ti1|]. split. { rewrite F1, F2, F3, F4. auto. } split; [exact Hfi1|].
    split.
    + rewrite Hsup, blen_app. destruct Hdis as [(D1 & D2 & D3 & D4)|(D1 & D2 & D3)].
      * assert (slen s = blen (supplied ws)) as E by (rewrite Hsl, D3; reflexivity).
        destruct (Z.lt_ge_cases (slen s + blen (call_data k)) (L c)) as [Hlt|Hge].
        -- destruct (Hfit Hlt) as (X1 & X2 & X3). left. rewrite X1, X2, X3, D3. repeat split; try assumption. lia.
        -- destruct (Hrch Hge) as (X1 & X2 & X3). right. rewrite X1, X2. unfold status_after. rewrite D2.
           repeat split. lia.
      * right. split; [lia|].
        destruct (Z.lt_ge_cases (slen s + blen (call_data k)) (L c)) as [Hlt|Hge].
        -- destruct (Hfit Hlt) as (X1 & X2 & X3). rewrite X2, X3. auto.
        -- destruct (Hrch Hge) as (X1 & X2 & X3). rewrite X1, X2. unfold status_after. rewrite D2. auto.
    + unfold no_unknown. rewrite forallb_app. intros Hn. apply andb_true_iff in Hn. destruct Hn as [Hn1 Hn2].
      cbn in Hn2. rewrite andb_true_r in Hn2. specialize (Hnu Hn1).
      destruct (Z.lt_ge_cases (slen s + blen (call_data k)) (L c)) as [Hlt|Hge].
      * destruct (Hfit Hlt) as (X1 & _). rewrite Hsl1, X1, blen_app. lia.
      * destruct (Hrch Hge) as (_ & _ & X3). rewrite Hsl1, X3.
        destruct (is_unknown k); [discriminate|]. rewrite andb_false_r. lia.
Qed.

(* below the limit everything supplied is stored, nothing is refused *)
Theorem rj_below ws : writes_ok ws -> blen (supplied ws) < L c ->
  let s := tb_final c (init c) ws in
  stored s = supplied ws /\ s_intr s = None /\ s_dataerr s = false.
Proof.
  intros Hw Hl. destruct (rj_run ws Hw) as (_ & _ & _ & [(D1 & D2 & D3 & D4)|(D1 & _)] & _); [auto | lia].
Qed.

(* a call is answered with the rejection (413 / 500) exactly when the cumulative size supplied up to
   and including it reaches the limit - the first such call and every later one *)
Theorem rj_exact ws k : writes_ok (ws ++ [k]) ->
  let r := snd (tb_step c (tb_final c (init c) ws) k) in
  r_intr r = (if L c <=? blen (supplied (ws ++ [k])) then Some (limit_status (c_dir c)) else None)
  /\ r_err r = false /\ r_panic r = false
  /\ (blen (supplied ws) < L c ->
      r_n r = if L c <=? blen (supplied (ws ++ [k])) then 0 else blen (call_data k)).
Proof.
  intros Hw. cbv zeta. pose proof (rj_run _ Hw) as H1.
  apply writes_ok_app in Hw. destruct Hw as [Hw Hk]. inversion Hk as [|? ? [Hkw Hkr] _]; subst.
  pose proof (rj_run _ Hw) as (Ti & _ & Hfi & Hdis & _).
  rewrite tb_final_app in H1. set (s := tb_final c (init c) ws) in *. rewrite tb_final_single in H1.
  pose proof (rj_step c s k W A HR Ti Hkw Hkr Hfi) as H. cbv zeta in H.
  pose proof (step_ret c s k W A Ti Hkw Hkr) as H2.
  destruct (tb_step c s k) as [s1 r]. cbn [fst snd] in *. rewrite HR in H2.
  destruct H as (_ & _ & Hri & _). destruct H1 as (_ & _ & _ & Hdis1 & _). destruct H2 as (E1 & E2 & E3).
  split. { rewrite Hri. destruct Hdis1 as [(D1 & D2 & _)|(D1 & D2 & _)]; rewrite D2.
           - replace (L c <=? blen (supplied (ws ++ [k]))) with false by lia. reflexivity.
           - replace (L c <=? blen (supplied (ws ++ [k]))) with true by lia. reflexivity. }
  split; [exact E1|]. split; [exact E2|]. intros Hb. rewrite E3.
  destruct Hdis as [(D1 & D2 & D3 & D4)|(D1 & _)]; [|lia].
  pose proof (tinv_len c s Ti) as [Hsl _]. rewrite supplied_app, blen_app. cbn [supplied map concat]. rewrite app_nil_r.
  rewrite Hsl, D3. reflexivity.
Qed.

(* at the first refusal: nothing of the refusing chunk is stored by a slice or known-length write; a
   reader of unknown length has been copied up to the limit *)
Theorem rj_first_refusal ws k : writes_ok (ws ++ [k]) ->
  blen (supplied ws) < L c -> L c <= blen (supplied (ws ++ [k])) ->
  let s1 := tb_final c (init c) (ws ++ [k]) in
  stored s1 = (if is_unknown k then firstn (Z.to_nat (L c)) (supplied (ws ++ [k])) else supplied ws)
  /\ s_intr s1 = Some (limit_status (c_dir c)) /\ s_dataerr s1 = true.
Proof.
  intros Hw Hb Hge. cbv zeta. pose proof (rj_run _ Hw) as H1.
  apply writes_ok_app in Hw. destruct Hw as [Hw Hk]. inversion Hk as [|? ? [Hkw Hkr] _]; subst.
  pose proof (rj_run _ Hw) as (Ti & _ & Hfi & Hdis & _).
  rewrite tb_final_app in *. set (s := tb_final c (init c) ws) in *. rewrite tb_final_single in *.
  pose proof (rj_step c s k W A HR Ti Hkw Hkr Hfi) as H. cbv zeta in H.
  destruct (tb_step c s k) as [s1 r]. cbn [fst snd] in *.
  destruct H as (_ & _ & _ & _ & _ & Hrch).
  destruct Hdis as [(D1 & D2 & D3 & D4)|(D1 & _)]; [|lia].
  pose proof (tinv_len c s Ti) as [Hsl _].
  assert (Hsup : supplied (ws ++ [k]) = supplied ws ++ call_data k).
  { rewrite supplied_app. cbn. rewrite app_nil_r. reflexivity. }
  rewrite Hsup, blen_app in Hge. destruct Hrch as (X1 & X2 & X3); [rewrite Hsl, D3; lia|].
  split. { rewrite X3. replace (slen s <? L c) with true by (rewrite Hsl, D3; lia). cbn [andb].
           rewrite Hsup, D3. reflexivity. }
  split; [|exact X2]. rewrite X1. unfold status_after. rewrite D2. reflexivity.
Qed.

(* whatever the connector does after a refusal: never more than limit bytes stored (strictly fewer when
   no unknown-length reader was used), the rejection stays, the data-error flag tells the limit was reached *)
Theorem rj_bounds ws : writes_ok ws ->
  let s := tb_final c (init c) ws in
  blen (stored s) <= L c
  /\ (no_unknown ws = true -> blen (stored s) < L c)
  /\ s_intr s = (if L c <=? blen (supplied ws) then Some (limit_status (c_dir c)) else None)
  /\ s_dataerr s = (L c <=? blen (supplied ws))
  /\ s_runs s = 0%nat.
Proof.
  intros Hw. cbv zeta. destruct (rj_run ws Hw) as (Ti & (_ & G2 & _) & _ & Hdis & Hnu).
  pose proof (tinv_len c _ Ti) as [Hsl _]. destruct Ti as (_ & _ & Hle & _).
  split; [lia|]. split; [intros X; specialize (Hnu X); lia|].
  destruct Hdis as [(D1 & D2 & D3 & D4)|(D1 & D2 & D3)].
  - replace (L c <=? blen (supplied ws)) with false by lia. auto.
  - replace (L c <=? blen (supplied ws)) with true by lia. auto.
Qed.

(* the explicit body phase after an accepted body sees exactly the supplied bytes *)
Theorem rj_then_process ws : writes_ok ws -> blen (supplied ws) < L c ->
  let s' := fst (tb_step c (tb_final c (init c) ws) ProcessBody) in
  s_runs s' = 1%nat /\ s_seen s' = Some (var_after c [] (supplied ws))
  /\ s_bodyvar s' = var_after c [] (supplied ws) /\ stored s' = supplied ws.
Proof.
  intros Hw Hl. cbv zeta. destruct (rj_run ws Hw) as (Ti & (G1 & G2 & G3 & G4) & _ & Hdis & _).
  destruct Hdis as [(D1 & D2 & D3 & D4)|(D1 & _)]; [|lia].
  destruct A as [He Ha]. destruct Ti as (Hi & _).
  cbn [tb_step]. rewrite (process_runs c _ He Hi D2 G1). cbn [fst ran s_runs s_seen s_bodyvar].
  rewrite G2, G4, D3. unfold stored. cbn [ran s_buf]. fold (stored (tb_final c (init c) ws)). rewrite D3. auto.
Qed.
End RJ.

(* what the code does when a connector ignores a refusal: a later chunk that fits is stored, so the
   stored bytes are no longer a prefix of what was supplied (outside what C10 promises) *)
Definition demo_cfg : tb_cfg :=
  {| c_dir := Req; c_opt := {| bo_limit := 4; bo_mem := 2 |}; c_action := Reject; c_access := true;
     c_engine_on := true; c_bp := BPraw; c_processable := true; c_deny := false |}.
Lemma rj_after_ignored_refusal_stores :
  exists ws, writes_ok ws /\
    stored (tb_final demo_cfg (init demo_cfg) ws) = [97; 98; 102]%N
    /\ supplied ws = [97; 98; 99; 100; 101; 102]%N.
Proof.
  exists [WriteSlice [97; 98]%N; WriteSlice [99; 100; 101]%N; WriteSlice [102]%N].
  split; [|split; reflexivity].
  repeat constructor; unfold realistic, max_int64, gib; cbn; lia.
Qed.


(* ---------- no call ever slices out of range (b[:writingBytes]), whatever ctl did to the limit ---------- *)
Lemma step_no_panic c s k : r_panic (snd (tb_step c s k)) = false.
Proof.
  destruct k as [d|kn rs d| |z]; cbn [tb_step].
  - unfold write_slice.
    destruct (negb (c_engine_on c)); [reflexivity|]. destruct (negb (c_access c)); [reflexivity|].
    destruct (s_limit s =? bb_len (s_buf s)); [destruct (c_action c); reflexivity|].
    destruct (overflow_guard c s (blen d)); [reflexivity|].
    pose proof (blen_nonneg d) as Hd.
    destruct (bb_len (s_buf s) + blen d >=? s_limit s) eqn:E.
    + destruct (c_action c).
      * unfold set_limit_intr. destruct (s_intr (set_dataerr s)); reflexivity.
      * assert ((Z.max 0 (s_limit s - bb_len (s_buf s)) <? 0) || (Z.max 0 (s_limit s - bb_len (s_buf s)) >? blen d) = false) as -> by lia.
        destruct (bb_write _ _ _) as [[b' w] err]. destruct err; [reflexivity|].
        destruct (process_body _ _). reflexivity.
    + assert ((blen d <? 0) || (blen d >? blen d) = false) as -> by lia.
      destruct (c_action c); destruct (bb_write _ _ _) as [[b' w] err]; destruct err; reflexivity.
  - unfold read_from.
    destruct (negb (c_engine_on c)); [reflexivity|]. destruct (negb (c_access c)); [reflexivity|].
    destruct (s_limit s =? bb_len (s_buf s)); [destruct (c_action c); reflexivity|].
    destruct (kn && overflow_guard c s (blen d)); [reflexivity|].
    destruct (kn && (bb_len (s_buf s) + blen d >=? s_limit s)); destruct (c_action c);
      try (unfold set_limit_intr; destruct (s_intr (set_dataerr s)); reflexivity);
      destruct (bb_copyN _ _ _ _ _) as [[b' w] err]; destruct err; try reflexivity;
      destruct (bb_len b' =? s_limit s); cbn [orb];
      try (unfold set_limit_intr; match goal with |- context [s_intr ?x] => destruct (s_intr x) end; reflexivity);
      try (destruct (process_body _ _); reflexivity); reflexivity.
  - destruct (process_body c s). reflexivity.
  - reflexivity.
Qed.

Theorem run_no_panic c ks : forall s, Forall (fun r => r_panic r = false) (tb_rets c s ks).
Proof.
  induction ks as [|k ks IH]; intros s; unfold tb_rets in *; cbn [tb_run].
  - constructor.
  - pose proof (step_no_panic c s k) as H. destruct (tb_step c s k) as [s1 x]. specialize (IH s1).
    destruct (tb_run c s1 ks) as [s2 xs]. cbn [snd] in *. constructor; assumption.
Qed.

(* ---------- the memory limit is invisible: memory-held and spilled runs agree ---------- *)
Definition buf_equiv (o1 o2 : bbopt) (b1 b2 : bbuf) : Prop :=
  bb_contents b1 = bb_contents b2 /\ bb_len b1 = bb_len b2 /\ bb_inv o1 b1 /\ bb_inv o2 b2.

Lemma bb_write_sim o1 o2 b1 b2 d : bo_limit o1 = bo_limit o2 -> buf_equiv o1 o2 b1 b2 ->
  let '(b1', n1, e1) := bb_write o1 b1 d in let '(b2', n2, e2) := bb_write o2 b2 d in
  n1 = n2 /\ e1 = e2 /\ buf_equiv o1 o2 b1' b2'.
Proof.
  intros Hl (Hc & Hn & I1 & I2).
  pose proof (bb_write_spec o1 b1 d I1) as S1. pose proof (bb_write_spec o2 b2 d I2) as S2.
  destruct (bb_write o1 b1 d) as [[b1' n1] e1]. destruct (bb_write o2 b2 d) as [[b2' n2] e2].
  destruct S1 as (E1 & F1 & K1). destruct S2 as (E2 & F2 & K2).
  assert (e1 = e2) as He. { rewrite E1, E2. unfold bb_write_fails. rewrite Hl, Hn. reflexivity. }
  clear E1 E2. destruct e1, e2; try discriminate.
  - destruct (F1 eq_refl) as [-> ->]. destruct (F2 eq_refl) as [-> ->]. split; [reflexivity|]. split; [reflexivity|]. unfold buf_equiv. auto.
  - destruct (K1 eq_refl) as (A1 & A2 & A3 & A4). destruct (K2 eq_refl) as (B1 & B2 & B3 & B4).
    split; [congruence|]. split; [reflexivity|]. unfold buf_equiv. split; [congruence|]. split; [congruence|]. auto.
Qed.

Lemma bb_copy_loop_sim o1 o2 rs size : bo_limit o1 = bo_limit o2 ->
  forall fuel b1 b2 src left written, buf_equiv o1 o2 b1 b2 ->
  let '(b1', n1, e1) := bb_copy_loop fuel o1 b1 src rs size left written in
  let '(b2', n2, e2) := bb_copy_loop fuel o2 b2 src rs size left written in
  n1 = n2 /\ e1 = e2 /\ buf_equiv o1 o2 b1' b2'.
Proof.
  intros Hl. induction fuel as [|fuel IH]; intros b1 b2 src left written Hb; cbn [bb_copy_loop]; [auto|].
  destruct (left <=? 0); [auto|].
  set (want := if Nat.eqb rs 0 then _ else _).
  destruct (firstn want src) as [|x p] eqn:Ep; [auto|]. rewrite <- Ep.
  pose proof (bb_write_sim o1 o2 b1 b2 (firstn want src) Hl Hb) as H.
  destruct (bb_write o1 b1 (firstn want src)) as [[b1' n1] e1]. destruct (bb_write o2 b2 (firstn want src)) as [[b2' n2] e2].
  destruct H as (-> & -> & Hb'). destruct e2; [auto|]. apply IH. exact Hb'.
Qed.

(* same configuration except for the memory limit *)
Definition with_mem (c : tb_cfg) (m : Z) : tb_cfg :=
  {| c_dir := c_dir c; c_opt := {| bo_limit := bo_limit (c_opt c); bo_mem := m |}; c_action := c_action c;
     c_access := c_access c; c_engine_on := c_engine_on c; c_bp := c_bp c; c_processable := c_processable c;
     c_deny := c_deny c |}.

Definition st_equiv (o1 o2 : bbopt) (s1 s2 : tb_st) : Prop :=
  buf_equiv o1 o2 (s_buf s1) (s_buf s2) /\ s_limit s1 = s_limit s2 /\ s_intr s1 = s_intr s2
  /\ s_dataerr s1 = s_dataerr s2 /\ s_phase s1 = s_phase s2 /\ s_runs s1 = s_runs s2
  /\ s_seen s1 = s_seen s2 /\ s_bodyvar s1 = s_bodyvar s2.

Section SIM.
Variable c : tb_cfg.
Variable m : Z.
Let c2 := with_mem c m.
Let o1 := c_opt c.
Let o2 := c_opt c2.

Ltac split_st s b l i de ph ru se bv := destruct s as [b l i de ph ru se bv].

Lemma process_sim s1 s2 : st_equiv o1 o2 s1 s2 ->
  st_equiv o1 o2 (fst (process_body c s1)) (fst (process_body c2 s2))
  /\ snd (process_body c s1) = snd (process_body c2 s2).
Proof.
  destruct s1 as [b1 l1 i1 de1 ph1 ru1 se1 bv1]. destruct s2 as [b2 l2 i2 de2 ph2 ru2 se2 bv2].
  intros (Hb & E). cbn [s_buf s_limit s_intr s_dataerr s_phase s_runs s_seen s_bodyvar] in *.
  destruct E as (-> & -> & -> & -> & -> & -> & ->). pose proof Hb as (Hc & Hn & _).
  unfold process_body, body_var_set. unfold c2. cbn [with_mem c_engine_on c_dir c_access c_bp c_processable c_deny
     s_buf s_limit s_intr s_dataerr s_phase s_runs s_seen s_bodyvar].
  rewrite <- Hn, <- Hc.
  assert (T : forall x1 x2 (r1 r2 : option Z), s_buf x1 = b1 -> s_buf x2 = b2 -> r1 = r2 ->
              (s_limit x1 = s_limit x2 /\ s_intr x1 = s_intr x2 /\ s_dataerr x1 = s_dataerr x2 /\ s_phase x1 = s_phase x2
               /\ s_runs x1 = s_runs x2 /\ s_seen x1 = s_seen x2 /\ s_bodyvar x1 = s_bodyvar x2) ->
              st_equiv o1 o2 (fst (x1, r1)) (fst (x2, r2)) /\ snd (x1, r1) = snd (x2, r2)).
  { intros x1 x2 r1 r2 B1 B2 R E. cbn [fst snd]. split; [|exact R]. split; [rewrite B1, B2; exact Hb | exact E]. }
  destruct (negb (c_engine_on c)); [apply T; cbn; tauto|].
  destruct i2; [apply T; cbn; tauto|].
  destruct (negb (ph2 =? hdr_phase (c_dir c))); apply T; cbn; tauto.
Qed.

Lemma set_limit_intr_sim s1 s2 : st_equiv o1 o2 s1 s2 ->
  st_equiv o1 o2 (fst (set_limit_intr c s1)) (fst (set_limit_intr c2 s2))
  /\ snd (set_limit_intr c s1) = snd (set_limit_intr c2 s2).
Proof.
  destruct s1 as [b1 l1 i1 de1 ph1 ru1 se1 bv1]. destruct s2 as [b2 l2 i2 de2 ph2 ru2 se2 bv2].
  intros (Hb & E). cbn [s_buf s_limit s_intr s_dataerr s_phase s_runs s_seen s_bodyvar] in *.
  destruct E as (-> & -> & -> & -> & -> & -> & ->).
  unfold set_limit_intr. cbn [s_intr]. destruct i2; cbn [fst snd]; (split; [split; [exact Hb | cbn; tauto] | reflexivity]).
Qed.

Lemma st_equiv_dataerr s1 s2 : st_equiv o1 o2 s1 s2 -> st_equiv o1 o2 (set_dataerr s1) (set_dataerr s2).
Proof. intros (Hb & E). split; [exact Hb|]. cbn. tauto. Qed.

Lemma st_equiv_buf s1 s2 b1 b2 : st_equiv o1 o2 s1 s2 -> buf_equiv o1 o2 b1 b2 -> st_equiv o1 o2 (set_buf s1 b1) (set_buf s2 b2).
Proof. intros (_ & E) Hb. split; [exact Hb|]. cbn. tauto. Qed.

Ltac sim_write Hlim Hb :=
  match goal with |- context [bb_write ?oa ?ba ?p] =>
    match goal with |- context [bb_write ?ob ?bb p] =>
      lazymatch oa with ob => fail | _ => idtac end;
      let H := fresh "H" in
      pose proof (bb_write_sim oa ob ba bb p Hlim Hb) as H;
      destruct (bb_write oa ba p) as [[?b1' ?n1] ?e1]; destruct (bb_write ob bb p) as [[?b2' ?n2] ?e2];
      destruct H as (-> & -> & ?Hb')
    end
  end.

Ltac sim_process c c2 P :=
  match goal with |- context [process_body c ?x] =>
    match goal with |- context [process_body c2 ?y] =>
      let P1 := fresh "P1" in let P2 := fresh "P2" in
      pose proof (process_sim x y P) as (P1 & P2);
      destruct (process_body c x) as [?x1 ?j1]; destruct (process_body c2 y) as [?x2 ?j2];
      cbn [fst snd] in *; split; [exact P1 | destruct P1 as (_ & _ & -> & _); reflexivity]
    end
  end.

Lemma step_sim s1 s2 k : st_equiv o1 o2 s1 s2 ->
  st_equiv o1 o2 (fst (tb_step c s1 k)) (fst (tb_step c2 s2 k)) /\ snd (tb_step c s1 k) = snd (tb_step c2 s2 k).
Proof.
  intros He. pose proof He as (Hb & El & Ei & Ede & Eph & Eru & Ese & Ebv). pose proof Hb as (Hc & Hn & I1 & I2).
  assert (Hlim : bo_limit o1 = bo_limit o2) by reflexivity.
  destruct k as [d|kn rs d| |z]; cbn [tb_step].
  - (* slice *)
    unfold write_slice, overflow_guard.
    change (c_engine_on c2) with (c_engine_on c). change (c_access c2) with (c_access c).
    change (c_action c2) with (c_action c). change (c_dir c2) with (c_dir c).
    rewrite <- El, <- Hn, <- Ei.
    destruct (negb (c_engine_on c)); [auto|]. destruct (negb (c_access c)); [auto|].
    destruct (s_limit s1 =? bb_len (s_buf s1)); [destruct (c_action c); auto|].
    destruct (match c_dir c with Req => bb_len (s_buf s1) >=? max_int64 - blen d | Resp => false end); [auto|].
    destruct (bb_len (s_buf s1) + blen d >=? s_limit s1) eqn:E.
    + destruct (c_action c).
      * apply (set_limit_intr_sim _ _ (st_equiv_dataerr _ _ He)).
      * destruct ((Z.max 0 (s_limit s1 - bb_len (s_buf s1)) <? 0) || (Z.max 0 (s_limit s1 - bb_len (s_buf s1)) >? blen d)).
        { split; [apply st_equiv_dataerr; exact He | reflexivity]. }
        cbn [set_dataerr s_buf]. sim_write Hlim Hb. destruct e2.
        { split; [apply st_equiv_dataerr; exact He | reflexivity]. }
        assert (P : st_equiv o1 o2 (set_buf (set_dataerr s1) b1') (set_buf (set_dataerr s2) b2'))
          by (apply st_equiv_buf; [apply st_equiv_dataerr; exact He | assumption]).
        sim_process c c2 P.
    + destruct ((blen d <? 0) || (blen d >? blen d)).
      { destruct (c_action c); split; auto. }
      destruct (c_action c); sim_write Hlim Hb; destruct e2; cbn [fst snd]; try (split; [exact He | reflexivity]);
        (split; [apply st_equiv_buf; assumption | cbn [set_buf s_intr]; rewrite Ei; reflexivity]).
  - (* reader *)
    unfold read_from, overflow_guard.
    change (c_engine_on c2) with (c_engine_on c). change (c_access c2) with (c_access c).
    change (c_action c2) with (c_action c). change (c_dir c2) with (c_dir c).
    rewrite <- El, <- Hn, <- Ei.
    destruct (negb (c_engine_on c)); [auto|]. destruct (negb (c_access c)); [auto|].
    destruct (s_limit s1 =? bb_len (s_buf s1)); [destruct (c_action c); auto|].
    destruct (kn && match c_dir c with Req => bb_len (s_buf s1) >=? max_int64 - blen d | Resp => false end); [auto|].
    fold o1. change (c_opt c2) with o2.
    set (reached := kn && (bb_len (s_buf s1) + blen d >=? s_limit s1)).
    set (n := if kn && negb reached then blen d else s_limit s1 - bb_len (s_buf s1)).
    assert (He1 : st_equiv o1 o2 (if reached then set_dataerr s1 else s1) (if reached then set_dataerr s2 else s2)).
    { destruct reached; [apply st_equiv_dataerr|]; exact He. }
    set (t1 := if reached then set_dataerr s1 else s1) in *. set (t2 := if reached then set_dataerr s2 else s2) in *.
    assert (Hmain :
      let '(b1', w1, e1) := bb_copyN o1 (s_buf t1) d rs n in
      let '(b2', w2, e2) := bb_copyN o2 (s_buf t2) d rs n in
      w1 = w2 /\ e1 = e2 /\ buf_equiv o1 o2 b1' b2').
    { unfold bb_copyN. apply bb_copy_loop_sim; [exact Hlim|]. destruct He1 as (X & _). exact X. }
    assert (Hrej : st_equiv o1 o2 (fst (set_limit_intr c t1)) (fst (set_limit_intr c2 t2))
                   /\ snd (set_limit_intr c t1) = snd (set_limit_intr c2 t2)).
    { apply set_limit_intr_sim. exact He1. }
    destruct reached eqn:Er; destruct (c_action c) eqn:Ea; try exact Hrej;
      destruct (bb_copyN o1 (s_buf t1) d rs n) as [[b1' w1] e1]; destruct (bb_copyN o2 (s_buf t2) d rs n) as [[b2' w2] e2];
      destruct Hmain as (-> & -> & Hb'); pose proof Hb' as (_ & Hn' & _);
      pose proof (st_equiv_buf _ _ _ _ He1 Hb') as He2;
      (destruct e2; [split; [exact He2 | reflexivity]|]);
      rewrite <- Hn'; destruct (bb_len b1' =? s_limit s1); cbn [orb];
      try (apply set_limit_intr_sim; apply st_equiv_dataerr; exact He2);
      try (sim_process c c2 (st_equiv_dataerr _ _ He2));
      try (sim_process c c2 He2);
      (split; [exact He2 | destruct He2 as (_ & _ & -> & _); reflexivity]).
  - pose proof (process_sim _ _ He) as (P1 & P2).
    destruct (process_body c s1) as [x1 j1]. destruct (process_body c2 s2) as [x2 j2]. cbn [fst snd] in *.
    split; [exact P1 | rewrite P2; reflexivity].
  - split; [|reflexivity]. cbn [fst]. split; [exact Hb|]. cbn. tauto.
Qed.

Theorem run_sim ks : forall s1 s2, st_equiv o1 o2 s1 s2 ->
  st_equiv o1 o2 (tb_final c s1 ks) (tb_final c2 s2 ks) /\ tb_rets c s1 ks = tb_rets c2 s2 ks.
Proof.
  induction ks as [|k ks IH]; intros s1 s2 He.
  - split; [exact He | reflexivity].
  - pose proof (step_sim s1 s2 k He) as (H1 & H2). specialize (IH _ _ H1). destruct IH as (I1 & I2).
    rewrite !tb_final_cons. split; [exact I1|]. unfold tb_rets in *. cbn [tb_run].
    destruct (tb_step c s1 k) as [a1 r1]. destruct (tb_step c2 s2 k) as [a2 r2]. cbn [fst snd] in *.
    destruct (tb_run c a1 ks). destruct (tb_run c2 a2 ks). cbn [snd] in *. congruence.
Qed.
End SIM.

(* any two memory limits (>= 0): every return value, every byte later read back, the body variable,
   the phase bookkeeping and the flags are the same, for every call sequence including ctl limit changes *)
Theorem memory_file_agree c m1 m2 ph ks : 0 <= m1 -> 0 <= m2 ->
  let c1 := with_mem c m1 in let c2 := with_mem c m2 in
  let s1 := tb_final c1 (tb_init c1 ph) ks in let s2 := tb_final c2 (tb_init c2 ph) ks in
  tb_rets c1 (tb_init c1 ph) ks = tb_rets c2 (tb_init c2 ph) ks
  /\ stored s1 = stored s2 /\ s_bodyvar s1 = s_bodyvar s2 /\ s_seen s1 = s_seen s2
  /\ s_intr s1 = s_intr s2 /\ s_dataerr s1 = s_dataerr s2 /\ s_runs s1 = s_runs s2 /\ s_phase s1 = s_phase s2.
Proof.
  intros H1 H2. cbv zeta.
  assert (E : st_equiv (c_opt (with_mem c m1)) (c_opt (with_mem (with_mem c m1) m2))
                (tb_init (with_mem c m1) ph) (tb_init (with_mem c m2) ph)).
  { split; [|cbn; tauto]. cbn [tb_init s_buf]. repeat split; cbn; lia. }
  pose proof (run_sim (with_mem c m1) m2 ks _ _ E) as (((Hc & _) & Q) & R).
  change (with_mem (with_mem c m1) m2) with (with_mem c m2) in *.
  split; [exact R|]. split; [exact Hc|]. tauto.
Qed.

(* the spill file is in use exactly when more than the memory limit is stored *)
Theorem spill_exact c ph ks : 0 <= bo_mem (c_opt c) ->
  let s := tb_final c (tb_init c ph) ks in
  (bb_spilled (s_buf s) = true <-> bo_mem (c_opt c) < blen (stored s)).
Proof.
  intros Hm. cbv zeta.
  assert (E : st_equiv (c_opt c) (c_opt (with_mem c (bo_mem (c_opt c)))) (tb_init c ph) (tb_init c ph)).
  { split; [|cbn; tauto]. cbn [tb_init s_buf]. repeat split; cbn; lia. }
  pose proof (run_sim c (bo_mem (c_opt c)) ks _ _ E) as (((_ & _ & I & _) & _) & _).
  pose proof (bb_spilled_iff _ _ I) as H. destruct I as (Hl & _). unfold stored. rewrite <- Hl. exact H.
Qed.

(* ---------- body access off or rule engine off: nothing is buffered, nothing is evaluated ---------- *)
Theorem inactive_noop c s k : c_engine_on c = false \/ c_access c = false -> is_write k = true ->
  tb_step c s k = (s, mk_ret None 0 false).
Proof.
  intros H Hw. destruct k as [d|kn rs d| |z]; try discriminate; cbn [tb_step]; unfold write_slice, read_from;
    destruct (c_engine_on c); cbn [negb]; try reflexivity; destruct H as [H|H]; try discriminate; rewrite H; reflexivity.
Qed.


(* ---------- no buffer ever holds more than its own Limit (any calls, any ctl limit) ---------- *)
Lemma bb_write_len_le o b d : bb_len b <= bo_limit o -> bb_len (fst (fst (bb_write o b d))) <= bo_limit o.
Proof.
  intros H. unfold bb_write. destruct (blen d =? 0); [exact H|].
  destruct (bb_len b >? bo_limit o - blen d) eqn:E; [exact H|].
  destruct (bb_len b + blen d >? bo_mem o); [destruct (bb_file b)|]; cbn [fst bb_len]; lia.
Qed.

Lemma bb_copy_loop_len_le o rs size fuel : forall b src left written,
  bb_len b <= bo_limit o -> bb_len (fst (fst (bb_copy_loop fuel o b src rs size left written))) <= bo_limit o.
Proof.
  induction fuel as [|fuel IH]; intros b src left written H; cbn [bb_copy_loop]; [exact H|].
  destruct (left <=? 0); [exact H|].
  set (want := if Nat.eqb rs 0 then _ else _).
  destruct (firstn want src) as [|x p] eqn:Ep; [exact H|]. rewrite <- Ep.
  pose proof (bb_write_len_le o b (firstn want src) H) as Hw.
  destruct (bb_write o b (firstn want src)) as [[b' n] err]. cbn [fst] in Hw.
  destruct err; [exact Hw|]. apply IH. exact Hw.
Qed.

Lemma step_len_le c s k :
  bb_len (s_buf s) <= bo_limit (c_opt c) -> bb_len (s_buf (fst (tb_step c s k))) <= bo_limit (c_opt c).
Proof.
  intros H.
  assert (HP : forall x, bb_len (s_buf x) <= bo_limit (c_opt c) ->
                         bb_len (s_buf (fst (process_body c x))) <= bo_limit (c_opt c)).
  { intros x Hx. destruct (process_keeps c x) as (-> & _). exact Hx. }
  assert (HS : forall x, bb_len (s_buf x) <= bo_limit (c_opt c) ->
                         bb_len (s_buf (fst (set_limit_intr c x))) <= bo_limit (c_opt c)).
  { intros x Hx. unfold set_limit_intr. destruct (s_intr x); exact Hx. }
  destruct k as [d|kn rs d| |z]; cbn [tb_step].
  - unfold write_slice.
    destruct (negb (c_engine_on c)); [exact H|]. destruct (negb (c_access c)); [exact H|].
    destruct (s_limit s =? bb_len (s_buf s)); [destruct (c_action c); exact H|].
    destruct (overflow_guard c s (blen d)); [exact H|].
    set (reached := bb_len (s_buf s) + blen d >=? s_limit s).
    set (s1 := if reached then set_dataerr s else s).
    assert (H1 : bb_len (s_buf s1) <= bo_limit (c_opt c)) by (subst s1; destruct reached; exact H).
    set (wb' := if reached then Z.max 0 (s_limit s - bb_len (s_buf s)) else blen d).
    assert (Hcommon :
      bb_len (s_buf (fst (if (wb' <? 0) || (wb' >? blen d) then (s1, ret_panic)
        else let '(b', w, err) := bb_write (c_opt c) (s_buf s1) (firstn (Z.to_nat wb') d) in
             if err then (s1, mk_ret None 0 true)
             else let s2 := set_buf s1 b' in
                  if reached then let '(s3, _) := process_body c s2 in (s3, mk_ret (s_intr s3) w false)
                  else (s2, mk_ret (s_intr s2) w false)))) <= bo_limit (c_opt c)).
    { destruct ((wb' <? 0) || (wb' >? blen d)); [exact H1|].
      pose proof (bb_write_len_le (c_opt c) (s_buf s1) (firstn (Z.to_nat wb') d) H1) as Hw.
      destruct (bb_write _ _ _) as [[b' w] err]. cbn [fst] in Hw. destruct err; [exact H1|].
      cbv zeta. destruct reached; [|exact Hw].
      pose proof (HP (set_buf s1 b') Hw) as Hq. destruct (process_body c (set_buf s1 b')). cbn [fst] in *. exact Hq. }
    destruct reached; [destruct (c_action c); [apply HS; exact H1 | exact Hcommon] | destruct (c_action c); exact Hcommon].
  - unfold read_from.
    destruct (negb (c_engine_on c)); [exact H|]. destruct (negb (c_access c)); [exact H|].
    destruct (s_limit s =? bb_len (s_buf s)); [destruct (c_action c); exact H|].
    destruct (kn && overflow_guard c s (blen d)); [exact H|].
    set (reached := kn && (bb_len (s_buf s) + blen d >=? s_limit s)).
    set (s1 := if reached then set_dataerr s else s).
    assert (H1 : bb_len (s_buf s1) <= bo_limit (c_opt c)) by (subst s1; destruct reached; exact H).
    set (n := if kn && negb reached then blen d else s_limit s - bb_len (s_buf s)).
    assert (Hcommon :
      bb_len (s_buf (fst (
        let '(b', w, err) := bb_copyN (c_opt c) (s_buf s1) d rs n in
        let s2 := set_buf s1 b' in
        if err then (s2, mk_ret None w true)
        else
          let full := bb_len b' =? s_limit s in
          let s3 := if full then set_dataerr s2 else s2 in
          match full, c_action c with
          | true, Reject => set_limit_intr c s3
          | _, _ =>
            if reached || full then let '(s4, _) := process_body c s3 in (s4, mk_ret (s_intr s4) w false)
            else (s3, mk_ret (s_intr s3) w false)
          end))) <= bo_limit (c_opt c)).
    { unfold bb_copyN.
      pose proof (bb_copy_loop_len_le (c_opt c) rs (copy_bufsize n) (S (length d)) (s_buf s1) d n 0 H1) as Hw.
      destruct (bb_copy_loop _ _ _ _ _ _ _ _) as [[b' w] err]. cbn [fst] in Hw. cbv zeta.
      destruct err; [exact Hw|].
      set (s3 := if bb_len b' =? s_limit s then set_dataerr (set_buf s1 b') else set_buf s1 b').
      assert (H3 : bb_len (s_buf s3) <= bo_limit (c_opt c)) by (subst s3; destruct (bb_len b' =? s_limit s); exact Hw).
      pose proof (HP s3 H3) as Hq. pose proof (HS s3 H3) as Hr.
      destruct (bb_len b' =? s_limit s); destruct (c_action c); cbn [orb]; try exact Hr;
        try (destruct (process_body c s3); cbn [fst] in *; exact Hq);
        destruct reached; cbn [orb]; try (destruct (process_body c s3); cbn [fst] in *; exact Hq); exact H3. }
    destruct reached; [destruct (c_action c); [apply HS; exact H1 | exact Hcommon] | destruct (c_action c); exact Hcommon].
  - pose proof (HP s H) as Hq. destruct (process_body c s). cbn [fst] in *. exact Hq.
  - exact H.
Qed.

Lemma run_len_le c ks : forall s,
  bb_len (s_buf s) <= bo_limit (c_opt c) -> bb_len (s_buf (tb_final c s ks)) <= bo_limit (c_opt c).
Proof.
  induction ks as [|k ks IH]; intros s H; [exact H|]. rewrite tb_final_cons. apply IH. apply step_len_le. exact H.
Qed.

(* the response buffer is created with MemoryLimit = Limit (waf_buf_opts): it never spills, whatever the
   calls, the ctl limit changes and the WAF's request in-memory limit are *)
Theorem response_never_spills w c ph ks :
  c_opt c = waf_buf_opts w Resp -> 0 <= w_resp_limit w ->
  bb_spilled (s_buf (tb_final c (tb_init c ph) ks)) = false.
Proof.
  intros Ho Hl.
  assert (Hm : 0 <= bo_mem (c_opt c)) by (rewrite Ho; cbn; exact Hl).
  pose proof (spill_exact c ph ks Hm) as Hs. cbv zeta in Hs.
  pose proof (run_len_le c ks (tb_init c ph)) as Hle.
  assert (H0 : bb_len (s_buf (tb_init c ph)) <= bo_limit (c_opt c)) by (rewrite Ho; cbn; exact Hl).
  specialize (Hle H0).
  assert (Hi : bb_len (s_buf (tb_final c (tb_init c ph) ks)) = blen (stored (tb_final c (tb_init c ph) ks))).
  { assert (Eq : st_equiv (c_opt c) (c_opt (with_mem c (bo_mem (c_opt c)))) (tb_init c ph) (tb_init c ph)).
    { split; [|cbn; tauto]. cbn [tb_init s_buf]. repeat split; cbn; lia. }
    pose proof (run_sim c (bo_mem (c_opt c)) ks _ _ Eq) as (((_ & _ & (I & _) & _) & _) & _). exact I. }
  destruct (bb_spilled (s_buf (tb_final c (tb_init c ph) ks))) eqn:E; [|reflexivity].
  exfalso. pose proof (proj1 Hs eq_refl) as E2. clear Hs E. rename E2 into E. rewrite Ho in *. cbn [waf_buf_opts bo_mem bo_limit] in *.
  cbn [waf_buf_opts bo_limit] in *. lia.
Qed.

(* the response buffer's options do not depend on SecRequestBodyInMemoryLimit at all *)
Theorem response_opts_ignore_request_inmem rl m1 m2 pl :
  waf_buf_opts {| w_req_limit := rl; w_req_inmem := m1; w_resp_limit := pl |} Resp
  = waf_buf_opts {| w_req_limit := rl; w_req_inmem := m2; w_resp_limit := pl |} Resp.
Proof. reflexivity. Qed.

(* a WAF that passes Validate gives the request buffer options satisfying wf_cfg's constraints *)
Theorem request_opts_wf w c :
  c_opt c = waf_buf_opts w Req ->
  0 < w_req_limit w <= gib ->
  match w_req_inmem w with Some m => 0 < m <= w_req_limit w | None => True end ->
  wf_cfg c.
Proof.
  intros Ho Hl Hm. unfold wf_cfg. rewrite Ho. cbn [waf_buf_opts bo_mem bo_limit].
  destruct (w_req_inmem w); lia.
Qed.


(* ---------- RuleEngine DetectionOnly ---------- *)
Lemma engine_cfg_det c : wf_cfg c -> c_access c = true ->
  let c' := engine_cfg EngDetectionOnly c in
  wf_cfg c' /\ active c' /\ c_action c' = c_action c /\ deny_intr c' = None /\ L c' = L c /\ c_dir c' = c_dir c.
Proof. intros W Ha. cbv zeta. repeat split; try exact Ha; destruct W as (A & B & C); assumption. Qed.

(* ProcessPartial in DetectionOnly: buffering, truncation, the data-error flag and the single evaluation of
   the body phase are those of On, and no call sequence ever leaves an interruption, even with a deny rule
   in the body phase *)
Theorem detection_only_partial c ks : wf_cfg c -> c_access c = true -> c_action c = ProcessPartial -> calls_ok ks ->
  let c' := engine_cfg EngDetectionOnly c in
  let s' := tb_final c' (init c') ks in
  s_intr s' = None
  /\ stored s' = firstn (Z.to_nat (L c)) (supplied ks)
  /\ s_dataerr s' = (L c <=? blen (supplied ks))
  /\ (s_runs s' <= 1)%nat.
Proof.
  intros W Ha HP Hok. cbv zeta. destruct (engine_cfg_det c W Ha) as (W' & A' & Eact & Ed & EL & _).
  rewrite HP in Eact.
  pose proof (pp_stored_prefix _ W' A' Eact ks Hok) as (H1 & H2). rewrite EL in *.
  pose proof (pp_phase_once _ W' A' Eact ks Hok) as H3. cbv zeta in H3.
  destruct (pp_trigger _ _ _).
  - destruct H3 as (R1 & _ & R3 & _). rewrite Ed in R3. repeat split; try assumption. lia.
  - destruct H3 as (R1 & _ & R3 & _). repeat split; try assumption. lia.
Qed.

(* Reject in DetectionOnly: setAndReturnBodyLimitInterruption does not look at the engine mode - the call
   that reaches the limit is still answered with 413 / 500 (what the code does; finding F12 under C02) *)
Theorem detection_only_reject_still_rejects c ws k : wf_cfg c -> c_access c = true -> c_action c = Reject ->
  writes_ok (ws ++ [k]) ->
  let c' := engine_cfg EngDetectionOnly c in
  r_intr (snd (tb_step c' (tb_final c' (init c') ws) k))
  = (if L c <=? blen (supplied (ws ++ [k])) then Some (limit_status (c_dir c)) else None).
Proof.
  intros W Ha HR Hw. cbv zeta. destruct (engine_cfg_det c W Ha) as (W' & A' & Eact & _ & EL & Edir).
  rewrite HR in Eact. pose proof (rj_exact _ W' A' Eact ws k Hw) as (H & _). cbv zeta in H.
  rewrite EL, Edir in H. exact H.
Qed.
