(* NoPanicProofs.v — proofs about NoPanic.v (property C07): for every modelled function the
   outcome [Panic] is unreachable on every input (index < length invariants through the
   scanners' loops), and the pre-repair variants do reach it (_refuted). *)
From Coq Require Import String.
From Verif Require Import Base NoPanic.
Open Scope Z_scope.

(* ------------------------------------------------------------------------------------ *)
(* basics                                                                               *)
(* ------------------------------------------------------------------------------------ *)
Lemma np_len_nonneg s : 0 <= np_len s.
Proof. unfold np_len; lia. Qed.

Lemma np_len_cons c s : np_len (c :: s) = 1 + np_len s.
Proof. unfold np_len; cbn [List.length]; lia. Qed.

Lemma np_len_nil : np_len [] = 0.
Proof. reflexivity. Qed.

Lemma np_len_app a b : np_len (a ++ b) = np_len a + np_len b.
Proof. unfold np_len; rewrite app_length; lia. Qed.

Lemma np_at_ok s i : 0 <= i < np_len s -> exists c, np_at s i = Ok c.
Proof.
  intros H. unfold np_at.
  destruct (Z.leb_spec 0 i); [|lia]. destruct (Z.ltb_spec i (np_len s)); [|lia].
  cbn. eauto.
Qed.

Lemma np_at_0 c s : np_at (c :: s) 0 = Ok c.
Proof.
  unfold np_at. rewrite np_len_cons. pose proof (np_len_nonneg s).
  destruct (Z.ltb_spec 0 (1 + np_len s)); [|lia]. reflexivity.
Qed.

Lemma np_at_1 c d s : np_at (c :: d :: s) 1 = Ok d.
Proof.
  unfold np_at. rewrite !np_len_cons. pose proof (np_len_nonneg s).
  destruct (Z.ltb_spec 1 (1 + (1 + np_len s))); [|lia]. reflexivity.
Qed.

Lemma np_slice_ok s lo hi : 0 <= lo <= hi -> hi <= np_len s -> exists r, np_slice s lo hi = Ok r.
Proof.
  intros H1 H2. unfold np_slice.
  destruct (Z.leb_spec 0 lo); [|lia]. destruct (Z.leb_spec lo hi); [|lia].
  destruct (Z.leb_spec hi (np_len s)); [|lia]. cbn. eauto.
Qed.

Lemma np_bind_not_panic {A B} (o : outcome A) (f : A -> outcome B) :
  o <> Panic -> (forall a, o = Ok a -> f a <> Panic) -> np_bind o f <> Panic.
Proof. destruct o; cbn; intros H1 H2; auto; congruence. Qed.

(* replace the first [np_at s i] / [np_slice s lo hi] of the goal by its value *)
Ltac at_ok s i :=
  let c := fresh "c" in let H := fresh "Hat" in
  destruct (np_at_ok s i) as [c H]; [lia | rewrite H; cbn [np_bind]].
Ltac slice_ok s lo hi :=
  let c := fresh "sl" in let H := fresh "Hsl" in
  destruct (np_slice_ok s lo hi) as [c H]; [lia | lia | rewrite H; cbn [np_bind]].

(* ------------------------------------------------------------------------------------ *)
(* (a) macro compile / expand                                                           *)
(* ------------------------------------------------------------------------------------ *)
Lemma np_macro_loop_total : forall fuel inp i ismac cur toks,
  0 <= i -> (ismac = true -> 1 <= i) -> np_macro_loop fuel inp i ismac cur toks <> Panic.
Proof.
  induction fuel as [|f IH]; intros inp i ismac cur toks Hi Hm; cbn [np_macro_loop]; [discriminate|].
  destruct (Z.ltb_spec i (np_len inp)) as [Hlt|Hge]; [|discriminate].
  at_ok inp i.
  destruct (isb c 37 && (i + 1 <? np_len inp)) eqn:Ho.
  - apply andb_true_iff in Ho as [_ Ho]. apply Z.ltb_lt in Ho.
    at_ok inp (i + 1).
    destruct (isb c0 123).
    + apply IH; [lia | intros; lia].
    + destruct ismac.
      * specialize (Hm eq_refl).
        destruct (isb c 125).
        -- at_ok inp (i - 1). destruct (isb c1 46); [discriminate|].
           destruct (np_cut 46 cur) as [[vn key] fnd]. destruct (np_var_parse vn); [|discriminate].
           apply IH; [lia | discriminate].
        -- destruct (negb (np_macro_char c)); [discriminate|].
           destruct (i + 1 =? np_len inp); [discriminate|]. apply IH; [lia | intros; lia].
      * apply IH; [lia | discriminate].
  - cbn [np_bind].
    destruct ismac.
    + specialize (Hm eq_refl).
      destruct (isb c 125).
      * at_ok inp (i - 1). destruct (isb c0 46); [discriminate|].
        destruct (np_cut 46 cur) as [[vn key] fnd]. destruct (np_var_parse vn); [|discriminate].
        apply IH; [lia | discriminate].
      * destruct (negb (np_macro_char c)); [discriminate|].
        destruct (i + 1 =? np_len inp); [discriminate|]. apply IH; [lia | intros; lia].
    + apply IH; [lia | discriminate].
Qed.

(* NewMacro never panics, whatever the bytes *)
Theorem np_new_macro_total : forall data, np_new_macro data <> Panic.
Proof.
  intros [|c r]; cbn [np_new_macro]; [discriminate|].
  apply np_macro_loop_total; [lia | discriminate].
Qed.

Lemma np_expand_token_total tx t : np_expand_token true tx t <> Panic.
Proof.
  unfold np_expand_token. destruct (mt_var t =? 0)%N; [discriminate|].
  destruct (tx (mt_var t)) as [[kv|v|all]|]; try discriminate.
  - destruct (np_assoc (mt_key t) kv); discriminate.
  - destruct all; discriminate.
Qed.

(* Expand never panics for any transaction state, including nil collections (repaired F03) *)
Theorem np_expand_total : forall tx toks, np_expand true tx toks <> Panic.
Proof.
  intros tx toks. induction toks as [|t r IH]; cbn [np_expand]; [discriminate|].
  apply np_bind_not_panic; [apply np_expand_token_total|]. intros a _.
  apply np_bind_not_panic; [exact IH|]. intros b _. discriminate.
Qed.

Theorem np_macro_total : forall data tx,
  np_new_macro data <> Panic /\
  (forall toks, np_new_macro data = Ok toks -> np_expand true tx toks <> Panic).
Proof. intros; split; [apply np_new_macro_total | intros; apply np_expand_total]. Qed.

(* F03 before 5665fe3: a macro naming JSON compiles and panics when expanded *)
Definition np_tx_json_nil : np_tx := fun v => if (v =? np_var_json)%N then None else Some (COther []).
Theorem np_macro_expand_nil_collection_refuted :
  exists data toks, np_new_macro data = Ok toks /\ np_expand false np_tx_json_nil toks = Panic.
Proof.
  exists (str "%{JSON.x}"%string). eexists. split; [vm_compute; reflexivity | vm_compute; reflexivity].
Qed.

(* ------------------------------------------------------------------------------------ *)
(* (b) scanners of rule_parser.go                                                       *)
(* ------------------------------------------------------------------------------------ *)
Lemma np_maybe_remove_quotes_total s : np_maybe_remove_quotes s <> Panic.
Proof.
  unfold np_maybe_remove_quotes. destruct (Z.ltb_spec (np_len s) 2); [discriminate|].
  at_ok s 0.
  destruct (isb c 34).
  - at_ok s (np_len s - 1). destruct (negb (isb c0 34)); [discriminate|].
    slice_ok s 1 (np_len s - 1). discriminate.
  - destruct (isb c 39); [|discriminate].
    at_ok s (np_len s - 1). destruct (negb (isb c0 39)); [discriminate|].
    slice_ok s 1 (np_len s - 1). discriminate.
Qed.

Lemma np_unescape_loop_total : forall fuel s i acc, 0 <= i -> np_unescape_loop fuel s i acc <> Panic.
Proof.
  induction fuel as [|f IH]; intros s i acc Hi; cbn [np_unescape_loop]; [discriminate|].
  destruct (Z.ltb_spec i (np_len s)); [|discriminate].
  at_ok s i.
  destruct (isb c 92 && (i + 1 <? np_len s)) eqn:He.
  - apply andb_true_iff in He as [_ He]. apply Z.ltb_lt in He.
    at_ok s (i + 1). destruct (isb c0 34); apply IH; lia.
  - cbn [np_bind]. apply IH; lia.
Qed.

Lemma np_unescape_total s : np_unescape s <> Panic.
Proof.
  unfold np_unescape. destruct (existsb _ s); [|discriminate]. apply np_unescape_loop_total; lia.
Qed.

Lemma np_cqs_loop_total : forall fuel s i esc, 1 <= i -> np_cqs_loop fuel s i esc <> Panic.
Proof.
  induction fuel as [|f IH]; intros s i esc Hi; cbn [np_cqs_loop]; [discriminate|].
  destruct (Z.ltb_spec i (np_len s)); [|discriminate].
  at_ok s i.
  destruct (negb (isb c 34)); [apply IH; lia|].
  destruct (esc mod 2 =? 1); [apply IH; lia|].
  slice_ok s 0 (i + 1). slice_ok s (i + 1) (np_len s). discriminate.
Qed.

Theorem np_cut_quoted_string_total : forall s, np_cut_quoted_string s <> Panic.
Proof.
  intros s. unfold np_cut_quoted_string. destruct (Z.eqb_spec (np_len s) 0); [discriminate|].
  pose proof (np_len_nonneg s). at_ok s 0.
  destruct (negb (isb c 34)); [discriminate|]. apply np_cqs_loop_total; lia.
Qed.

Theorem np_parse_action_operator_total : forall data, np_parse_action_operator data <> Panic.
Proof.
  intros data0. unfold np_parse_action_operator.
  destruct (np_cut 32 (np_trim_sp data0)) as [[vars rest0] ok].
  destruct (negb ok); [discriminate|].
  set (rest := np_trim_left_sp rest0).
  destruct (Z.eqb_spec (np_len rest) 0); [discriminate|].
  pose proof (np_len_nonneg rest). at_ok rest 0.
  destruct (negb (isb c 34)); [discriminate|].
  apply np_bind_not_panic; [apply np_cut_quoted_string_total|]. intros [op0 rest1] _.
  apply np_bind_not_panic; [apply np_maybe_remove_quotes_total|]. intros op1 _.
  apply np_bind_not_panic; [apply np_unescape_total|]. intros op _.
  set (rest2 := np_trim_left_sp rest1).
  destruct (Z.eqb_spec (np_len rest2) 0); [discriminate|].
  destruct (Z.ltb_spec (np_len rest2) 2); [discriminate|].
  at_ok rest2 0. destruct (negb (isb c0 34)); [discriminate|].
  at_ok rest2 (np_len rest2 - 1). destruct (negb (isb c1 34)); [discriminate|].
  apply np_bind_not_panic; [apply np_maybe_remove_quotes_total|]. intros acts _. discriminate.
Qed.

(* --- parseActions --- *)
Definition np_dai_inv (res : list np_raction) (dai : Z) : Prop :=
  dai = -1 \/ (0 <= dai < Z.of_nat (List.length res)).

Lemma np_set_nth_length {A} (l : list A) i a : List.length (np_set_nth l i a) = List.length l.
Proof.
  revert i; induction l as [|x l IH]; intros [|i]; cbn [np_set_nth List.length]; auto.
Qed.

Lemma np_append_rule_action_inv res k v dai :
  np_dai_inv res dai ->
  np_append_rule_action res k v dai <> Panic /\
  (forall res' dai', np_append_rule_action res k v dai = Ok (res', dai') -> np_dai_inv res' dai').
Proof.
  intros Hinv. unfold np_append_rule_action.
  pose proof (np_maybe_remove_quotes_total (np_trim_space v)) as Hq.
  destruct (np_maybe_remove_quotes (np_trim_space v)) as [val| |]; cbn [np_bind]; [|split; [discriminate|intros; discriminate]|congruence].
  destruct (np_action_lookup _ np_actions) as [disr|]; [|split; [discriminate|intros; discriminate]].
  destruct disr; cbn [andb].
  - destruct (Z.eqb_spec dai (-1)) as [E|NE]; cbn [negb].
    + split; [discriminate|]. intros res' dai' H. inversion H; subst. right.
      rewrite app_length; cbn [List.length]. lia.
    + destruct Hinv as [|Hin]; [contradiction|].
      unfold np_store.
      destruct (Z.leb_spec 0 dai); [|lia]. destruct (Z.ltb_spec dai (Z.of_nat (List.length res))); [|lia].
      cbn. split; [discriminate|]. intros res' dai' HH. inversion HH; subst. right.
      rewrite np_set_nth_length. lia.
  - split; [discriminate|]. intros res' dai' H. inversion H; subst.
    destruct Hinv as [->|Hin]; [left; reflexivity|]. right. rewrite app_length; cbn [List.length]. lia.
Qed.

Ltac pa_side Hak Hbkl :=
  first [ lia | assumption
        | (destruct Hak as [?|[? [? ?]]]; [left; lia | right; lia])
        | (destruct Hbkl; [left; lia | right; lia])
        | (left; lia) | (right; lia) ].

Lemma np_pa_loop_total : forall fuel s i bk ak inq res dai,
  1 <= i ->
  -1 <= bk -> bk < i -> bk < np_len s \/ bk = -1 ->
  (ak = -1 \/ (bk < ak /\ ak < i /\ ak < np_len s)) ->
  np_dai_inv res dai ->
  np_pa_loop fuel s i bk ak inq res dai <> Panic.
Proof.
  induction fuel as [|f IH]; intros s i bk ak inq res dai Hi Hbk0 Hbk Hbkl Hak Hdai;
    cbn [np_pa_loop]; [discriminate|].
  pose proof (np_len_nonneg s) as Hl.
  destruct (Z.ltb_spec i (np_len s)) as [Hlt|Hge].
  - at_ok s i. at_ok s (i - 1).
    destruct (isb c0 92); [apply IH; pa_side Hak Hbkl|].
    destruct (isb c 39); [apply IH; pa_side Hak Hbkl|].
    destruct inq; [apply IH; pa_side Hak Hbkl|].
    destruct (isb c 58).
    { destruct (Z.eqb_spec ak (-1)) as [E|NE]; cbn [negb]; apply IH; pa_side Hak Hbkl. }
    destruct (isb c 44).
    { destruct (Z.eqb_spec ak (-1)) as [E|NE]; cbn [np_bind].
      - slice_ok s (bk + 1) i.
        destruct (np_append_rule_action_inv res sl [] dai Hdai) as [Hnp Hpost].
        destruct (np_append_rule_action res sl [] dai) as [[res' dai']| |]; cbn [np_bind]; [|discriminate|congruence].
        specialize (Hpost res' dai' eq_refl).
        apply IH; pa_side Hak Hbkl.
      - destruct Hak as [|[Ha1 [Ha2 Ha3]]]; [contradiction|].
        slice_ok s (ak + 1) i. slice_ok s (bk + 1) ak.
        destruct (np_append_rule_action_inv res sl0 sl dai Hdai) as [Hnp Hpost].
        destruct (np_append_rule_action res sl0 sl dai) as [[res' dai']| |]; cbn [np_bind]; [|discriminate|congruence].
        specialize (Hpost res' dai' eq_refl).
        apply IH; first [lia | assumption | (left; lia) | (right; lia)]. }
    apply IH; pa_side Hak Hbkl.
  - destruct (Z.eqb_spec ak (-1)) as [E|NE]; cbn [np_bind].
    + destruct (np_slice_ok s (bk + 1) (np_len s)) as [sl Hsl]; [lia|lia|]. rewrite Hsl; cbn [np_bind].
      destruct (np_append_rule_action_inv res sl [] dai Hdai) as [Hnp _].
      destruct (np_append_rule_action res sl [] dai) as [r| |]; cbn [np_bind]; [discriminate|discriminate|congruence].
    + destruct Hak as [|[Ha1 [Ha2 Ha3]]]; [contradiction|].
      slice_ok s (ak + 1) (np_len s). slice_ok s (bk + 1) ak.
      destruct (np_append_rule_action_inv res sl0 sl dai Hdai) as [Hnp _].
      destruct (np_append_rule_action res sl0 sl dai) as [r| |]; cbn [np_bind]; [discriminate|discriminate|congruence].
Qed.

(* parseActions never panics: actions[i-1], the two slice expressions and res[disruptiveActionIndex]
   stay in bounds for every action text *)
Theorem np_parse_actions_total : forall s, np_parse_actions s <> Panic.
Proof.
  intros s. unfold np_parse_actions.
  apply np_pa_loop_total; try lia; left; reflexivity.
Qed.

(* --- ParseOperator --- *)
Lemma np_trim_right_head f c a : f c = false -> exists t, np_trim_right_f f (c :: a) = c :: t.
Proof.
  intros Hc. cbn [np_trim_right_f]. destruct (np_trim_right_f f a); [rewrite Hc|]; eauto.
Qed.

Lemma np_trim_space_head c a : np_is_space c = false -> exists t, np_trim_space (c :: a) = c :: t.
Proof.
  intros Hc. unfold np_trim_space. cbn [np_trim_left_f]. rewrite Hc. apply np_trim_right_head; exact Hc.
Qed.

Definition np_op_lead (c : N) : Prop := c = 64%N \/ c = 33%N.

Lemma np_operator_rewrite_spec o :
  np_operator_rewrite o <> Panic /\
  (forall o', np_operator_rewrite o = Ok o' -> exists c r, o' = c :: r /\ np_op_lead c).
Proof.
  unfold np_operator_rewrite. destruct o as [|a r].
  - cbn. split; [discriminate|]. intros o' HH; inversion HH. exists 64%N; eexists; split; [reflexivity|left; reflexivity].
  - rewrite np_len_cons. pose proof (np_len_nonneg r) as Hr.
    destruct (Z.eqb_spec (1 + np_len r) 0); [lia|].
    rewrite np_at_0. cbn [np_bind].
    destruct (isb a 64) eqn:E64; cbn [negb andb].
    + destruct ((1 + np_len r =? 1) && bytes_eqb (a :: r) b_bang) eqn:Eb.
      { split; [discriminate|]. intros o' HH; inversion HH. exists 33%N; eexists; split; [reflexivity|right; reflexivity]. }
      assert (Ha : a = 64%N) by (unfold isb in E64; apply Z.eqb_eq in E64; lia).
      destruct (Z.ltb_spec 1 (1 + np_len r)).
      * subst a. cbn [isb]. replace (isb 64 33) with false by reflexivity. cbn [np_bind].
        split; [discriminate|]. intros o' HH; inversion HH. exists 64%N, r; split; [reflexivity|left; reflexivity].
      * cbn [np_bind]. split; [discriminate|]. intros o' HH; inversion HH. exists a, r; split; [reflexivity|left; exact Ha].
    + destruct (isb a 33) eqn:E33; cbn [negb andb].
      * assert (Ha : a = 33%N) by (unfold isb in E33; apply Z.eqb_eq in E33; lia).
        destruct ((1 + np_len r =? 1) && bytes_eqb (a :: r) b_bang) eqn:Eb.
        { split; [discriminate|]. intros o' HH; inversion HH. exists 33%N; eexists; split; [reflexivity|right; reflexivity]. }
        destruct (Z.ltb_spec 1 (1 + np_len r)) as [Hlt|Hge].
        -- destruct r as [|b r']; [rewrite np_len_nil in Hlt; lia|].
           rewrite np_at_1. cbn [np_bind].
           destruct (negb (isb b 64)).
           ++ rewrite !np_len_cons. pose proof (np_len_nonneg r').
              destruct (np_slice_ok (a :: b :: r') 1 (1 + (1 + np_len r'))) as [t Ht]; [lia|rewrite !np_len_cons; lia|].
              rewrite Ht. cbn [np_bind]. split; [discriminate|]. intros o' H'; inversion H'.
              exists 33%N; eexists; split; [reflexivity|right; reflexivity].
           ++ split; [discriminate|]. intros o' H'; inversion H'. exists a; eexists; split; [reflexivity|right; exact Ha].
        -- cbn [np_bind]. split; [discriminate|]. intros o' H'; inversion H'. exists a, r; split; [reflexivity|right; exact Ha].
      * split; [discriminate|]. intros o' HH; inversion HH. exists 64%N; eexists; split; [reflexivity|left; reflexivity].
Qed.

Lemma np_operator_split_total c r : np_op_lead c -> np_operator_split (c :: r) <> Panic.
Proof.
  intros Hc. unfold np_operator_split.
  assert (Hsp : isb c 32 = false) by (destruct Hc; subst; reflexivity).
  assert (Hns : np_is_space c = false) by (destruct Hc; subst; reflexivity).
  cbn [np_cut]. rewrite Hsp. destruct (np_cut 32 r) as [[a b] fnd].
  destruct (np_trim_space_head c a Hns) as [t Ht]. rewrite Ht.
  rewrite np_at_0. cbn [np_bind]. rewrite np_len_cons. pose proof (np_len_nonneg t).
  destruct (isb c 64).
  - destruct (np_slice_ok (c :: t) 1 (1 + np_len t)) as [x Hx]; [lia|rewrite np_len_cons; lia|].
    rewrite Hx. discriminate.
  - destruct (Z.ltb_spec 2 (1 + np_len t)) as [Hlt|]; [|discriminate].
    destruct (isb c 33); [|discriminate].
    destruct t as [|d t']; [rewrite np_len_nil in Hlt; lia|].
    rewrite np_at_1. cbn [np_bind]. destruct (isb d 64); [|discriminate].
    rewrite np_len_cons in *. pose proof (np_len_nonneg t').
    destruct (np_slice_ok (c :: d :: t') 2 (1 + (1 + np_len t'))) as [x Hx]; [lia|rewrite !np_len_cons; lia|].
    rewrite Hx. discriminate.
Qed.

(* ParseOperator: operator[0], operator[1], op[0], op[1] and the slices never fail *)
Theorem np_parse_operator_total : forall o, np_parse_operator o <> Panic.
Proof.
  intros o. unfold np_parse_operator, np_operator_prefix.
  destruct (np_operator_rewrite_spec o) as [Hnp Hsp].
  apply np_bind_not_panic.
  - apply np_bind_not_panic; [exact Hnp|]. intros o' Ho'.
    destruct (Hsp o' Ho') as [c [r [-> Hc]]]. apply np_operator_split_total; exact Hc.
  - intros r _. destruct (np_find_name _ _ _); discriminate.
Qed.

(* --- ParseVariables --- *)
Lemma np_pv_loop_total : forall fuel s i st, 0 <= i -> np_pv_loop fuel s i st <> Panic.
Proof.
  induction fuel as [|f IH]; intros s i st Hi; cbn [np_pv_loop]; [discriminate|].
  destruct (Z.ltb_spec i (np_len s)) as [Hlt|]; [|discriminate].
  at_ok s i.
  match goal with |- (if ?b then _ else _) <> _ => destruct b end.
  - match goal with |- match np_var_parse ?x with _ => _ end <> _ => destruct (np_var_parse x) end; [|discriminate].
    match goal with |- (if ?b then _ else _) <> _ => destruct b end; [discriminate|].
    destruct (pv_quoted st).
    + destruct (Z.leb_spec (np_len s) (i + 1)); cbn [np_bind].
      * destruct (negb (isb c 39)); [discriminate|]. cbn [np_bind]. apply IH; lia.
      * at_ok s (i + 1). destruct (isb c0 39); cbn [np_bind]; [apply IH; lia|].
        destruct (negb (isb c 39)); [discriminate|]. cbn [np_bind]. apply IH; lia.
    + destruct (pv_curr st =? 2); cbn [np_bind]; apply IH; lia.
  - apply IH; lia.
Qed.

Theorem np_parse_variables_total : forall s, np_parse_variables s <> Panic.
Proof. intros s. apply np_pv_loop_total; lia. Qed.

(* ------------------------------------------------------------------------------------ *)
(* (c) setvar                                                                           *)
(* ------------------------------------------------------------------------------------ *)
Lemma np_cut_notfound sep : forall s a b, np_cut sep s = (a, b, false) -> b = [].
Proof.
  induction s as [|c r IH]; intros a b H; cbn [np_cut] in H.
  - inversion H; reflexivity.
  - destruct (isb c sep); [discriminate|].
    destruct (np_cut sep r) as [[a' b'] f']. inversion H; subst. eapply IH; reflexivity.
Qed.

Theorem np_setvar_init_total : forall data, np_setvar_init data <> Panic.
Proof.
  intros data0. unfold np_setvar_init.
  destruct (Z.eqb_spec (np_len data0) 0); [discriminate|].
  pose proof (np_len_nonneg data0). at_ok data0 0.
  destruct (isb c 33).
  - slice_ok data0 1 (np_len data0).
    destruct (np_cut 61 sl) as [[key val] val_ok]. destruct (np_cut 46 key) as [[colkey colval] col_ok].
    destruct (negb _); [discriminate|]. destruct (np_trim_space colval); [discriminate|].
    destruct (np_var_parse colkey); [|discriminate].
    apply np_bind_not_panic.
    { destruct col_ok; [|discriminate]. apply np_bind_not_panic; [apply np_new_macro_total|]. discriminate. }
    intros k _. apply np_bind_not_panic; [|discriminate].
    destruct val_ok; [|discriminate]. apply np_bind_not_panic; [apply np_new_macro_total|]. discriminate.
  - cbn [np_bind].
    destruct (np_cut 61 data0) as [[key val] val_ok]. destruct (np_cut 46 key) as [[colkey colval] col_ok].
    destruct (negb _); [discriminate|]. destruct (np_trim_space colval); [discriminate|].
    destruct (np_var_parse colkey); [|discriminate].
    apply np_bind_not_panic.
    { destruct col_ok; [|discriminate]. apply np_bind_not_panic; [apply np_new_macro_total|]. discriminate. }
    intros k _. apply np_bind_not_panic; [|discriminate].
    destruct val_ok; [|discriminate]. apply np_bind_not_panic; [apply np_new_macro_total|]. discriminate.
Qed.

(* what Evaluate relies on: an accepted setvar always carries a key macro *)
Lemma np_setvar_init_key_present : forall data sv, np_setvar_init data = Ok sv -> sv_key sv <> None.
Proof.
  intros data0 sv. unfold np_setvar_init.
  destruct (np_len data0 =? 0); [discriminate|].
  destruct (np_at data0 0) as [c| |]; cbn [np_bind]; try discriminate.
  assert (G : forall isrem data,
    (let '(key, val, val_ok) := np_cut 61 data in
     let '(colkey, colval, col_ok) := np_cut 46 key in
     if negb (bytes_eqb (np_upper colkey) b_TX) then Err
     else match np_trim_space colval with
          | [] => Err
          | _ => match np_var_parse colkey with
                 | None => Err
                 | Some _ =>
                   do! k <- (if col_ok then (do! m <- np_new_macro colval; Ok (Some m)) else Ok None);
                   do! v <- (if val_ok then (do! m <- np_new_macro val; Ok (Some m)) else Ok None);
                   Ok {| sv_key := k; sv_value := v; sv_remove := isrem |}
                 end
          end) = Ok sv -> sv_key sv <> None).
  { intros isrem data.
    destruct (np_cut 61 data) as [[key val] val_ok]. destruct (np_cut 46 key) as [[colkey colval] col_ok] eqn:Ec.
    destruct (negb _); [discriminate|].
    destruct col_ok.
    - destruct (np_trim_space colval); [discriminate|]. destruct (np_var_parse colkey); [|discriminate].
      destruct (np_new_macro colval) as [m| |]; cbn [np_bind]; try discriminate.
      destruct (if val_ok then _ else _) as [v| |]; cbn [np_bind]; try discriminate.
      intros H; inversion H; cbn. discriminate.
    - apply np_cut_notfound in Ec. subst colval. cbn. discriminate. }
  destruct (isb c 33).
  - destruct (np_slice data0 1 (np_len data0)) as [d| |]; cbn [np_bind]; try discriminate. apply G.
  - cbn [np_bind]. apply G.
Qed.

Lemma np_setvar_tx_total rm tx key value : np_setvar_tx rm tx key value <> Panic.
Proof.
  unfold np_setvar_tx. destruct (tx np_var_tx) as [[kv|v|all]|]; try discriminate.
  destruct rm; [discriminate|].
  destruct (Z.eqb_spec (np_len value) 0); [discriminate|].
  pose proof (np_len_nonneg value). at_ok value 0.
  destruct (isb c 43 || isb c 45); [|discriminate].
  slice_ok value 1 (np_len value).
  destruct (1 <? np_len value).
  - destruct (np_atoi sl).
    + destruct (match np_assoc key kv with x :: _ => x | [] => [] end); [destruct (isb c 43); discriminate|].
      destruct (np_atoi _); [destruct (isb c 43); discriminate|discriminate].
    + destruct (is_prefix b_tx_dot sl); discriminate.
  - destruct (match np_assoc key kv with x :: _ => x | [] => [] end); [destruct (isb c 43); discriminate|].
    destruct (np_atoi _); [destruct (isb c 43); discriminate|discriminate].
Qed.

Lemma np_setvar_eval_total sv tx : sv_key sv <> None -> np_setvar_eval true sv tx <> Panic.
Proof.
  intros Hk. unfold np_setvar_eval.
  destruct (sv_key sv) as [m|]; [|congruence].
  apply np_bind_not_panic; [apply np_expand_total|]. intros key _.
  apply np_bind_not_panic.
  - destruct (sv_value sv); [apply np_expand_total|discriminate].
  - intros v _. apply np_setvar_tx_total.
Qed.

(* setvar in every spelling (deletion, bare, assignment, arithmetic, macros) never panics, neither
   when the configuration is compiled nor when the rule matches, for any transaction state *)
Theorem np_setvar_total : forall data tx, np_setvar_run true data tx <> Panic.
Proof.
  intros data tx. unfold np_setvar_run.
  apply np_bind_not_panic; [apply np_setvar_init_total|].
  intros sv Hsv. apply np_setvar_eval_total. eapply np_setvar_init_key_present; exact Hsv.
Qed.

(* F02 before e674a84: setvar:!tx.a and setvar:tx.a are accepted and panic when the rule matches *)
Definition np_tx_empty : np_tx := fun v => if (v =? np_var_json)%N then None else Some (CKeyed []).
Theorem np_setvar_nil_value_refuted :
  np_setvar_run false (str "!tx.a"%string) np_tx_empty = Panic /\
  np_setvar_run false (str "tx.a"%string) np_tx_empty = Panic /\
  np_is_ok (np_setvar_init (str "!tx.a"%string)) = true.
Proof. repeat split; vm_compute; reflexivity. Qed.

(* ------------------------------------------------------------------------------------ *)
(* (d) DeleteByMsg                                                                      *)
(* ------------------------------------------------------------------------------------ *)
Theorem np_delete_by_msg_total : forall rules msg, np_delete_by_msg true rules msg <> Panic.
Proof.
  intros rules msg. induction rules as [|r t IH]; cbn [np_delete_by_msg]; [discriminate|].
  apply np_bind_not_panic; [destruct (r_msg r); discriminate|]. intros keep _.
  apply np_bind_not_panic; [exact IH|]. intros t' _. discriminate.
Qed.

(* and it keeps exactly the rules without that msg (rules without any msg are kept) *)
Theorem np_delete_by_msg_spec : forall rules msg,
  np_delete_by_msg true rules msg =
  Ok (filter (fun r => match r_msg r with None => true | Some m => negb (bytes_eqb m msg) end) rules).
Proof.
  intros rules msg. induction rules as [|r t IH]; cbn [np_delete_by_msg filter]; [reflexivity|].
  rewrite IH. destruct (r_msg r) as [m|]; cbn [np_bind]; [destruct (negb (bytes_eqb m msg))|]; reflexivity.
Qed.

(* F01 before c155495: any rule or marker without msg makes SecRuleRemoveByMsg panic *)
Theorem np_delete_by_msg_nil_msg_refuted :
  exists rules msg, np_delete_by_msg false rules msg = Panic.
Proof.
  exists [{| r_id := 1; r_msg := Some (str "a"%string) |}; {| r_id := 2; r_msg := None |}], (str "a"%string).
  vm_compute; reflexivity.
Qed.

(* ------------------------------------------------------------------------------------ *)
(* (e) b[:writingBytes]                                                                 *)
(* ------------------------------------------------------------------------------------ *)
Lemma np_wrap64_id z : np_min_int64 <= z <= np_max_int64 -> np_wrap64 z = z.
Proof.
  unfold np_wrap64, np_min_int64, np_max_int64. intros H.
  rewrite Z.mod_small; lia.
Qed.

(* for EVERY int64 limit (negative, MinInt64, MaxInt64 ..), every buffered length and chunk
   length, the slice expression b[:writingBytes] is in bounds *)
Theorem np_write_body_slice_in_bounds : forall partial limit buffered blen,
  np_int64 limit = true -> 0 <= buffered <= np_max_int64 -> 0 <= blen <= np_max_int64 ->
  np_write_body WbCompareFirst partial limit buffered blen <> Panic /\
  (forall n, np_write_body WbCompareFirst partial limit buffered blen = Ok (Some n) -> 0 <= n <= blen).
Proof.
  intros partial limit buffered blen Hl Hb Hn.
  unfold np_int64 in Hl. apply andb_true_iff in Hl as [Hl1 Hl2].
  apply Z.leb_le in Hl1. apply Z.leb_le in Hl2.
  unfold np_write_body.
  destruct (Z.eqb_spec limit buffered); [split; [discriminate|intros; discriminate]|].
  rewrite (np_wrap64_id (np_max_int64 - blen)) by (unfold np_min_int64, np_max_int64 in *; lia).
  destruct (Z.leb_spec (np_max_int64 - blen) buffered); [split; [discriminate|intros; discriminate]|].
  rewrite (np_wrap64_id (buffered + blen)) by (unfold np_min_int64, np_max_int64 in *; lia).
  destruct (Z.leb_spec limit (buffered + blen)) as [Hov|Hno]; cbn [andb].
  - destruct partial; cbn [negb]; [|split; [discriminate|intros; discriminate]].
    unfold np_partial_len.
    destruct (Z.ltb_spec buffered limit).
    + rewrite np_wrap64_id by (unfold np_min_int64, np_max_int64 in *; lia).
      destruct (Z.leb_spec 0 (limit - buffered)); [|lia].
      destruct (Z.leb_spec (limit - buffered) blen); [|lia].
      cbn. split; [discriminate|]. intros m H'; inversion H'; lia.
    + destruct (Z.leb_spec 0 blen); [|lia]. cbn.
      split; [discriminate|]. intros m H'; inversion H'; lia.
  - destruct (Z.leb_spec 0 blen); [|lia]. destruct (Z.leb_spec blen blen); [|lia]. cbn.
    split; [discriminate|]. intros m H'; inversion H'; lia.
Qed.

(* ... and never past the limit: buffered + n <= max limit buffered *)
Theorem np_write_body_respects_limit : forall limit buffered blen n,
  np_int64 limit = true -> 0 <= buffered <= np_max_int64 -> 0 <= blen <= np_max_int64 ->
  np_write_body WbCompareFirst true limit buffered blen = Ok (Some n) -> buffered + n <= Z.max limit buffered.
Proof.
  intros limit buffered blen m Hl Hb Hn.
  unfold np_int64 in Hl. apply andb_true_iff in Hl as [Hl1 Hl2].
  apply Z.leb_le in Hl1. apply Z.leb_le in Hl2.
  unfold np_write_body.
  destruct (Z.eqb_spec limit buffered); [discriminate|].
  rewrite (np_wrap64_id (np_max_int64 - blen)) by (unfold np_min_int64, np_max_int64 in *; lia).
  destruct (Z.leb_spec (np_max_int64 - blen) buffered); [discriminate|].
  rewrite (np_wrap64_id (buffered + blen)) by (unfold np_min_int64, np_max_int64 in *; lia).
  destruct (Z.leb_spec limit (buffered + blen)) as [Hov|Hno]; cbn [andb negb].
  - unfold np_partial_len. destruct (Z.ltb_spec buffered limit).
    + rewrite np_wrap64_id by (unfold np_min_int64, np_max_int64 in *; lia).
      destruct ((0 <=? limit - buffered) && (limit - buffered <=? blen)); [|discriminate].
      intros H'; inversion H'; lia.
    + destruct ((0 <=? 0) && (0 <=? blen)); [|discriminate]. intros H'; inversion H'; lia.
  - destruct ((0 <=? blen) && (blen <=? blen)); [|discriminate]. intros H'; inversion H'; lia.
Qed.

(* F06/F34 before 71fdc14: a limit below the buffered length; F43 before 9bda2e1: the low clamp
   misses the int64 wrap-around of MinInt64 - 1 *)
Theorem np_write_body_old_variants_refuted :
  np_write_body WbNoClamp true 5 13 1 = Panic /\
  np_write_body WbNoClamp true (-1) 0 4 = Panic /\
  np_write_body WbClampLow true np_min_int64 1 1 = Panic /\
  np_write_body WbClampLow true 5 13 1 = Ok (Some 0).
Proof. repeat split; vm_compute; reflexivity. Qed.

(* ------------------------------------------------------------------------------------ *)
(* (f) memoize: typed lookups under tagged keys                                         *)
(* ------------------------------------------------------------------------------------ *)
Lemma np_app_eq_prefix : forall p q x y : bytes, p ++ x = q ++ y -> is_prefix p q = true \/ is_prefix q p = true.
Proof.
  induction p as [|a p IH]; intros q x y H.
  - left; reflexivity.
  - destruct q as [|b q]; [right; reflexivity|].
    cbn [app] in H. inversion H; subst. cbn [is_prefix]. rewrite N.eqb_refl. cbn [andb].
    eapply IH; eassumption.
Qed.

Lemma np_incomparable_app p q x y : np_incomparable p q = true -> p ++ x <> q ++ y.
Proof.
  unfold np_incomparable. intros H E. apply andb_true_iff in H as [H1 H2].
  destruct (np_app_eq_prefix p q x y E) as [K|K]; rewrite K in *; discriminate.
Qed.

(* every cached key was built by some site, and carries that site's type *)
Definition np_cache_inv (sites : list np_msite) (c : np_cache) : Prop :=
  forall k t, np_cache_find k c = Some t ->
  exists s x, In s sites /\ k = ms_prefix s ++ x /\ ms_type s = t.

Lemma np_sites_ok_spec sites a b :
  np_sites_ok sites = true -> In a sites -> In b sites ->
  ms_type a = ms_type b \/ np_incomparable (ms_prefix a) (ms_prefix b) = true.
Proof.
  unfold np_sites_ok. intros H Ha Hb.
  rewrite forallb_forall in H. specialize (H a Ha). rewrite forallb_forall in H. specialize (H b Hb).
  apply orb_true_iff in H as [H|H]; [left; apply N.eqb_eq; exact H | right; exact H].
Qed.

Lemma np_memo_do_step sites c s x f :
  np_sites_ok sites = true -> In s sites -> np_cache_inv sites c ->
  snd (np_memo_do c s x f) <> Panic /\ np_cache_inv sites (fst (np_memo_do c s x f)).
Proof.
  intros Hok Hs Hinv. unfold np_memo_do.
  destruct (np_cache_find (ms_prefix s ++ x) c) as [t|] eqn:Ef.
  - cbn [fst snd]. split; [|exact Hinv].
    destruct (Hinv _ _ Ef) as [s' [x' [Hs' [Hk Ht]]]].
    destruct (np_sites_ok_spec sites s s' Hok Hs Hs') as [Ety|Hinc].
    + rewrite <- Ht, <- Ety, N.eqb_refl. discriminate.
    + exfalso. eapply np_incomparable_app; eassumption.
  - destruct f; cbn [fst snd]; [split; [discriminate|exact Hinv]|].
    split; [discriminate|].
    intros k t Hk. cbn [np_cache_find] in Hk.
    destruct (bytes_eqb k (ms_prefix s ++ x)) eqn:Ek.
    + apply bytes_eqb_eq in Ek. inversion Hk; subst. exists s, x. auto.
    + apply Hinv; exact Hk.
Qed.

Lemma np_memo_run_inv sites : np_sites_ok sites = true ->
  forall calls c, np_cache_inv sites c ->
  (forall s x f, In (s, x, f) calls -> In s sites) -> np_memo_run c calls = false.
Proof.
  intros Hok. induction calls as [|[[s x] f] r IH]; intros c Hinv Hin; cbn [np_memo_run]; [reflexivity|].
  destruct (np_memo_do_step sites c s x f Hok (Hin s x f (or_introl eq_refl)) Hinv) as [Hnp Hinv'].
  destruct (np_memo_do c s x f) as [c' o]. cbn [fst snd] in *.
  apply orb_false_iff. split.
  - destruct o; cbn; congruence.
  - apply IH; [exact Hinv'|]. intros; eapply Hin; right; eassumption.
Qed.

(* under keys tagged per artefact type no sequence of lookups (any sites of the table, any texts, in
   any order, starting from any cache built that way) ever fails its type assertion *)
Theorem np_memo_typed_lookup_total : forall sites, np_sites_ok sites = true ->
  forall calls, (forall s x f, In (s, x, f) calls -> In s sites) -> np_memo_run [] calls = false.
Proof.
  intros sites Hok calls Hin. eapply np_memo_run_inv; eauto.
  intros k t H; discriminate.
Qed.

Lemma np_sites_fixed_ok : np_sites_ok np_sites_fixed = true.
Proof. vm_compute; reflexivity. Qed.

Theorem np_memo_fixed_total :
  forall calls, (forall s x f, In (s, x, f) calls -> In s np_sites_fixed) -> np_memo_run [] calls = false.
Proof. apply np_memo_typed_lookup_total. exact np_sites_fixed_ok. Qed.

(* F04 before efe1f8f: one untagged key space; the text "foo" as a regex key and as a @pm list *)
Theorem np_memo_untagged_refuted :
  exists calls, (forall s x f, In (s, x, f) calls -> In s np_sites_old) /\ np_memo_run [] calls = true.
Proof.
  exists [({| ms_prefix := []; ms_type := 1%N |}, str "foo"%string, false);
          ({| ms_prefix := []; ms_type := 2%N |}, str "foo"%string, false)].
  split; [|vm_compute; reflexivity].
  intros s x f [H|[H|[]]]; inversion H; subst; vm_compute; auto 10.
Qed.
