(* Props/C08.v — the property theorems of C08 and nothing else.
   C08: skip, skipAfter, allow and chain steer evaluation exactly as documented.
   Code side: fl_eval_loop / fl_eval_phase / fl_run (Flow.v, transcribed from RuleGroup.Eval,
   Rule.doEvaluate, the flow actions and the Process* entry points); these are the functions the
   correspondence run (CorrC08.ok) evaluates. eng: the configured SecRuleEngine (MOn | MDet | MOff); the
   transaction's current mode s_eng is state, changed by ctl:ruleEngine of a matching link; Allow and
   Interrupt read the current mode. req: which link keys match in this request (arbitrary). *)
From Verif Require Import Base Flow FlowProofs.
Local Open Scope nat_scope.

(* The coded phase loop (residual skip counter, pending marker, allow type; iteration over all rules of
   the WAF, phase filter inside) shows exactly the evaluations, matches and interruptions of the
   documented semantics (fl_spec_run: per phase, rewriting of the agenda = the phase-filtered list of
   live entries; no skip counter and no pending marker survive a rule, let alone a phase).
   Every rule list (markers present / absent / before / after / duplicated, any mix of actions, chains
   of any length, ctl:ruleRemoveById and ctl:ruleEngine switches anywhere), every assignment of matches,
   every configured engine mode; no well-formedness guard. *)
Theorem C08_refines_spec : forall eng req rules,
  fl_obs (fl_run eng req rules) = fl_gobs (fl_spec_run eng req rules).
Proof. exact refines_spec. Qed.
Print Assumptions C08_refines_spec.

(* skip:N: when the loop of phase p evaluates r (no pending state, r of this phase and not removed) and
   r's effective actions hold no skipAfter, the phase goes on exactly as on the rule list without the
   shortest prefix holding N entries of phase p (markers count, removed rules do not) *)
Theorem C08_skip_exact : forall req p r rest s,
  s_skip s = 0 -> s_after s = None -> fl_halted p s = false -> fl_in_phase p r = true ->
  fl_removed s r = false -> fl_allow_break p s = None ->
  fl_last_after (fl_fired_acts req r) = None ->
  let s1 := fl_evaluate req p r s in
  fl_eval_phase req p (r :: rest) s =
  fl_eval_phase req p (fl_drop_entries p (s_rm s1) (fl_last_skip (fl_fired_acts req r)) rest) (set_skip 0 s1).
Proof. exact skip_exact. Qed.
Print Assumptions C08_skip_exact.

(* skipAfter:M: the phase resumes right after the first later live marker M (a skip count set by the
   same rule applies from there) *)
Theorem C08_skipafter_resume : forall req p r rest s m,
  s_skip s = 0 -> s_after s = None -> fl_halted p s = false -> fl_in_phase p r = true ->
  fl_removed s r = false -> fl_allow_break p s = None ->
  fl_last_after (fl_fired_acts req r) = Some m ->
  let s1 := fl_evaluate req p r s in
  fl_eval_phase req p (r :: rest) s =
  fl_eval_phase req p (fl_after_entry p (s_rm s1) m rest) (set_after None s1).
Proof. exact skipafter_resume. Qed.
Print Assumptions C08_skipafter_resume.

(* ... and when no such marker follows (absent, or only before the rule), nothing more is evaluated
   in this phase and the phase ends with the end-of-phase resets applied to the state right after r *)
Theorem C08_skipafter_absent : forall req p r rest s m,
  s_skip s = 0 -> s_after s = None -> fl_halted p s = false -> fl_in_phase p r = true ->
  fl_removed s r = false -> fl_allow_break p s = None ->
  fl_last_after (fl_fired_acts req r) = Some m ->
  let s1 := fl_evaluate req p r s in
  fl_after_entry p (s_rm s1) m rest = [] ->
  fl_eval_phase req p (r :: rest) s = fl_end_phase s1.
Proof. exact skipafter_absent. Qed.
Print Assumptions C08_skipafter_absent.

(* allow scopes (transaction in mode On after the rule's own ctl actions).  (1) the rule setting an allow that covers its own phase is the last one
   evaluated in it; (2) a phase that starts under an allow covering it (bare allow: phases <= 4,
   allow:request: phases <= 2, allow:phase: never carried, see C08_no_cross_phase) evaluates nothing;
   (3) bare allow stays in force through phases 1-4, allow:request from phase 1 into phase 2;
   (4) from phase 3 on a carried allow:request is without any effect *)
Theorem C08_allow_scopes :
  (forall req p r rest s sc, 1 <= p <= 5 ->
     s_skip s = 0 -> s_after s = None -> fl_halted p s = false -> fl_in_phase p r = true ->
     fl_removed s r = false -> fl_allow_break p s = None ->
     fl_prefix_eng req (r_links r) (s_eng s) = MOn ->
     fl_last_allow (fl_fired_acts req r) = Some sc -> fl_blocks (Some sc) p = true ->
     let s1 := fl_evaluate req p r s in
     fl_obs (fl_eval_phase req p (r :: rest) s) = fl_obs s1 /\
     s_rm (fl_eval_phase req p (r :: rest) s) = s_rm s1)
  /\ (forall req q rs s, 1 <= q <= 5 -> fl_blocks (s_allow s) q = true ->
     fl_obs (fl_eval_phase req q rs s) = fl_obs s /\ s_rm (fl_eval_phase req q rs s) = s_rm s)
  /\ (forall req q rs s, 1 <= q <= 4 -> s_allow s = Some ScAll ->
     s_allow (fl_eval_phase req q rs s) = Some ScAll)
  /\ (forall req rs s, s_allow s = Some ScRequest ->
     s_allow (fl_eval_phase req 1 rs s) = Some ScRequest)
  /\ (forall req q rs s, 3 <= q <= 5 -> s_skip s = 0 -> s_after s = None -> s_allow s = Some ScRequest ->
     fl_obs (fl_eval_phase req q rs s) = fl_obs (fl_eval_phase req q rs (set_allow None s))).
Proof.
  split; [exact allow_ends_phase|]. split; [exact allow_blocks_phase|].
  split; [exact allow_all_persists|]. split; [exact allow_request_persists | exact allow_request_expired].
Qed.
Print Assumptions C08_allow_scopes.

(* no effect across phases: (1) whatever state a phase starts in, it ends with skip counter 0, no
   pending marker and no allow:phase; (2) a rule of another phase is invisible to the loop of phase p
   (not evaluated, not counted by skip, not consumed by skipAfter), wherever it stands in the file *)
Theorem C08_no_cross_phase :
  (forall req p rs s, fl_boundary (fl_eval_phase req p rs s))
  /\ (forall req p r', fl_in_phase p r' = false -> forall pre post s,
      fl_eval_loop req p (pre ++ r' :: post) s = fl_eval_loop req p (pre ++ post) s).
Proof. split; [exact phase_end_boundary | exact other_phase_invisible]. Qed.
Print Assumptions C08_no_cross_phase.

(* the logging phase always runs (unless the transaction's rule engine has been switched Off, in which
   case ProcessLogging evaluates nothing), and whatever allow scope / interruption / earlier skips the
   transaction carries, it evaluates exactly what a fresh transaction with the same per-transaction
   removals and the same engine mode would *)
Theorem C08_logging_always_runs : forall eng req rs, exists s4,
  fl_boundary s4 /\
  (s_eng s4 <> MOff ->
   fl_run eng req rs = fl_eval_phase req 5 rs s4 /\
   s_ev (fl_run eng req rs) = s_ev s4 ++ s_ev (fl_eval_phase req 5 rs (fl_fresh (s_rm s4) (s_eng s4)))).
Proof. exact logging_always_runs. Qed.
Print Assumptions C08_logging_always_runs.

(* DetectionOnly refers to the transaction's CURRENT mode: (1) an allow executed while the mode is not On
   changes nothing, whatever SecRuleEngine says; (2) a transaction that does not start in mode On and
   whose rule set holds no ctl:ruleEngine=On is, state for state, the one of the same rule set with every
   allow deleted, and its allow type is never set *)
Theorem C08_detection_only_allow_ignored :
  (forall p id s sc, s_eng s <> MOn -> fl_apply_act p id s (AAllow sc) = s)
  /\ (forall eng req rs, eng <> MOn -> fl_no_switch_on rs = true ->
      fl_run eng req (map fl_strip_allow rs) = fl_run eng req rs /\ s_allow (fl_run eng req rs) = None).
Proof. split; [exact allow_not_on_ignored | exact detection_only_allow_ignored]. Qed.
Print Assumptions C08_detection_only_allow_ignored.

(* chains: (1) every link matched: the starter's flow/disruptive actions are applied exactly once each,
   in written order, after the non-disruptive actions of all links; (2) some link did not match: skip
   counter, pending marker, allow type and both interruptions are untouched and the rule is not
   recorded as matched; (3) flow actions written on chain members never take effect *)
Theorem C08_chain_starter_actions_once :
  (forall req p r s, fl_all_match req r = true ->
     fl_evaluate req p r s =
     add_ev (Ev p (r_id r) (negb (r_id r =? 0)))
            (fold_left (fl_apply_act p (r_id r)) (r_acts r) (fold_left (fun s l => fl_link_ctl l s) (r_links r) s)))
  /\ (forall req p r s, fl_all_match req r = false ->
     let s' := fl_evaluate req p r s in
     s_skip s' = s_skip s /\ s_after s' = s_after s /\ s_allow s' = s_allow s /\
     s_intr s' = s_intr s /\ s_dintr s' = s_dintr s /\
     s_ev s' = s_ev s ++ [Ev p (r_id r) false])
  /\ (forall req p r s,
     fl_evaluate req p (fl_strip_link_acts r) s = fl_evaluate req p r s).
Proof.
  split; [exact chain_all_matched|]. split; [exact chain_not_all_matched | exact chain_link_actions_inert].
Qed.
Print Assumptions C08_chain_starter_actions_once.

(* ---- removals and inherited actions (configure time and run time) ---- *)

(* ctl:ruleRemoveById=lo-hi is carried in the model as the ids lo..hi: exactly the loop's test
   rng[0] <= ID_ <= rng[1] *)
Theorem C08_range_membership : forall id lo hi,
  existsb (Nat.eqb id) (fl_range lo hi) = (lo <=? id) && (id <=? hi).
Proof. exact range_membership. Qed.
Print Assumptions C08_range_membership.

(* a removed rule is as good as absent: the rule set from which the rules hit by `extra` were deleted
   (SecRuleRemoveById) shows the same evaluations / matches / interruptions as the full rule set in a
   transaction that starts with `extra` removed (ctl:ruleRemoveById) - from any state, so removed rules
   are not evaluated, not counted by skip:N and not found by skipAfter *)
Theorem C08_removed_as_absent : forall extra req p rs s,
  fl_obs (fl_eval_phase req p (filter (fl_live extra) rs) s) = fl_obs (fl_eval_phase req p rs (add_rm extra s)).
Proof. exact removed_as_absent. Qed.
Print Assumptions C08_removed_as_absent.

(* SecRuleRemoveById: a range deletes exactly the rules whose id lies in it; a single id deletes, under
   unique ids, exactly the rules carrying it (order kept) - without the guard only the first one
   (FlowProofs.delete_first_only_first: SecRuleRemoveById 0 removes the first SecMarker only); a directive
   at the end of the file acts on everything configured before it *)
Theorem C08_secruleremovebyid :
  (forall rs lo hi r, In r (fl_delete rs (RmRange lo hi)) <-> In r rs /\ ~ (lo <= r_id r <= hi))
  /\ (forall id rs, NoDup (map r_id rs) ->
      fl_delete_first id rs = filter (fun r => negb (r_id r =? id)) rs)
  /\ (forall ds l, fl_configure (ds ++ [DRemove l]) = fold_left fl_delete l (fl_configure ds)).
Proof. split; [exact delete_range_spec|]. split; [exact delete_first_unique | exact configure_remove_last]. Qed.
Print Assumptions C08_secruleremovebyid.

(* SecDefaultAction / block: a rule with no disruptive action of its own (none written, or block) gets
   the default disruptive action of its phase appended behind its own actions; a rule with its own
   disruptive action keeps exactly its own actions; without a SecDefaultAction for the phase block is a
   no-op; `block,skip..` under a default deny/allow is `skip..,deny/allow`; and the configured rule list
   (whatever directives produced it) obeys the documented flow semantics *)
Theorem C08_inherited_actions :
  (forall da src, existsb fl_sact_is_da src = false ->
     fl_resolve_acts (Some da) src = flat_map fl_sact_keep src ++ match da with Some a => [a] | None => [] end)
  /\ (forall dflt src, existsb fl_sact_is_da src = true -> fl_resolve_acts dflt src = flat_map fl_sact_keep src)
  /\ (forall src, fl_resolve_acts None src = flat_map fl_sact_keep src)
  /\ (forall a flow,
      forallb (fun x => match x with SA (ASkip _) | SA (ASkipAfter _) => true | _ => false end) flow = true ->
      fl_resolve_acts (Some (Some a)) (SBlock :: flow) = flat_map fl_sact_keep flow ++ [a])
  /\ (forall eng req ds,
      fl_obs (fl_run eng req (fl_configure ds)) = fl_gobs (fl_spec_run eng req (fl_configure ds))).
Proof.
  split; [exact resolve_inherits|]. split; [exact resolve_own_da|]. split; [exact resolve_no_default|].
  split; [exact resolve_block | intros; apply refines_spec].
Qed.
Print Assumptions C08_inherited_actions.

(* an action list naming several disruptive actions (pass / block / deny / allow with any scope) compiles
   to one that keeps every other action in order and exactly one disruptive action: the last one
   written, with ITS OWN parameter *)
Theorem C08_last_disruptive_wins : forall src,
  filter not_dis (fl_collapse src) = filter not_dis src /\
  filter fl_sact_is_dis (fl_collapse src) = match fl_last_dis src with Some d => [d] | None => [] end.
Proof. exact collapse_spec. Qed.
Print Assumptions C08_last_disruptive_wins.
