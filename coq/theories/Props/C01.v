(* Props/C01.v — the property theorems of C01 and nothing else.
   C01: rule matching is exact: no missed match, no phantom match.
   Every statement quantifies over every semantics X of regex keys / operators (record sem), every
   order oracle ord (Go's map iteration, any permutation at every call), every well-formed state
   (every collection content: duplicate, mixed-case, empty keys). *)
From Coq Require Import Permutation.
From Verif Require Import Base Transform CaseMap Match MatchProofs MatchFold MatchFoldProofs.

(* a collection built from the request's (name, value) pairs holds exactly those pairs, and is well formed *)
Theorem C01_collection_holds_request : forall l, Permutation (flat_entries (map_of_list l)) l /\ wf_map (map_of_list l).
Proof. intro l. split; [apply map_of_list_entries | apply map_of_list_wf]. Qed.
Print Assumptions C01_collection_holds_request.

(* a negation applies to exactly the earlier targets of the same variable *)
Theorem C01_target_compilation : forall X items,
  compile_items X items [] = map (compile_target X) (targets_of_items items).
Proof. exact compile_items_spec. Qed.
Print Assumptions C01_target_compilation.

(* GetField = the declarative selection: entries whose key the selector accepts (case-insensitive
   string key / regex key on the folded key / everything), minus the excluded ones; or their count *)
Theorem C01_get_field_spec : forall X ord st t, wf_state st -> ok_oracle ord ->
  Permutation (get_field X ord st (compile_target X t)) (spec_selects X st t).
Proof. exact get_field_spec. Qed.
Print Assumptions C01_get_field_spec.

(* GetField as doEvaluate calls it: with the exclusions added at run time for the rule being
   evaluated (ctl:ruleRemoveTargetById/ByTag/ByMsg: regex stored with an empty string key, string key
   lower-cased, bare collection) appended to the written ones: an entry is removed when a written
   exclusion accepts its key OR a run-time one hits it - nothing else *)
Theorem C01_get_field_runtime_exclusions : forall X ord st t, wf_state st -> ok_oracle ord ->
  Permutation (get_field X ord st (with_rt st (compile_target X t))) (spec_selects_rt X st t).
Proof. exact get_field_rt_spec. Qed.
Print Assumptions C01_get_field_runtime_exclusions.

(* ARGS_COMBINED_SIZE hands the operator the sum of |original name| + |value| over the arguments
   of the query string and of the body as sent - for ANY names (invalid UTF-8 bytes, letters whose
   lower-case form has another length: the map keys the entries are grouped under do not matter) *)
Theorem C01_combined_size_is_request_size : forall X ord st g p, st_args st g p ->
  rt_excs st VArgsCombinedSize = [] ->
  get_field X ord st (with_rt st (compile_target X (mk_rtarget false VArgsCombinedSize SelAll [])))
  = [(VArgsCombinedSize, [], itoa (args_size (g ++ p)))].
Proof. exact size_of_request. Qed.
Print Assumptions C01_combined_size_is_request_size.

(* SecRuleRemoveById: the remaining rules keep their configuration order *)
Theorem C01_removal_keeps_order : forall rms rules, subseq (remove_rules rms rules) rules.
Proof. exact remove_rules_subseq. Qed.
Print Assumptions C01_removal_keeps_order.

(* the match data of one link: exactly the (variable, key, transformed value) triples that satisfy
   the operator (xor '!'); with multiMatch one triple per satisfying intermediate value.  Each target
   is read in the state the EARLIER targets of the same link left (every match moves MATCHED_VAR,
   MATCHED_VAR_NAME, MATCHED_VARS at once): ARGS_GET|MATCHED_VAR reports both ARGS_GET:a and MATCHED_VAR *)
Theorem C01_link_matchdata_exact : forall X ord st l, wf_state st -> ok_oracle ord ->
  Permutation (link_matches X ord st l) (spec_link_matches_t X ord st l).
Proof. exact link_matches_spec_t. Qed.
Print Assumptions C01_link_matchdata_exact.

(* ... and for a link that reads none of the MATCHED_* variables this is the order-free
   list: every target selected in the state before the link (run-time exclusions included) *)
Theorem C01_link_matchdata_declarative : forall X ord st l, wf_state st -> ok_oracle ord ->
  reads_mvar l = false ->
  Permutation (link_matches X ord st l) (spec_link_matches_rt X st l).
Proof. exact link_matches_spec_rt. Qed.
Print Assumptions C01_link_matchdata_declarative.

(* a rule fires iff every link holds, in order, each against the state its predecessor left *)
Theorem C01_fires_iff : forall X ord st r, wf_state st -> ok_oracle ord ->
  (rule_fires X ord st r = true <-> chain_holds X ord st 0 (rule_links r)).
Proof. exact rule_fires_iff. Qed.
Print Assumptions C01_fires_iff.

(* ... which, for SecRule links that read none of MATCHED_VAR / MATCHED_VAR_NAME / MATCHED_VARS(_NAMES), is: every link has a selected value
   that satisfies its operator after the transformations (xor '!') - no reference to the order oracle *)
Theorem C01_fires_iff_declarative : forall X ord st r, wf_state st -> ok_oracle ord ->
  Forall (fun l => reads_mvar l = false /\ is_action l = false) (rule_links r) ->
  (rule_fires X ord st r = true <-> Forall (link_holds_rt X st) (rule_links r)).
Proof. exact rule_fires_declarative_rt. Qed.
Print Assumptions C01_fires_iff_declarative.

(* the match data of a fired rule: exactly the satisfying triples of every link, with chain levels *)
Theorem C01_matchdata_exact : forall X ord st r mds st', wf_state st -> ok_oracle ord ->
  eval_rule X ord st r = (Some mds, st') ->
  Permutation mds (spec_chain_data X ord st 0 (rule_links r)).
Proof. exact rule_matchdata_exact. Qed.
Print Assumptions C01_matchdata_exact.

(* fired ids are a subsequence of the configuration order restricted to the phase *)
Theorem C01_phase_order : forall X ord ph rules st i,
  subseq (map fst (fst (eval_rules X ord st ph i rules))) (map r_id (filter (in_phase ph) rules)).
Proof. exact phase_order. Qed.
Print Assumptions C01_phase_order.

(* the ids a phase reports are exactly the in-phase rules that fire (C01_fires_iff) in the state
   their predecessors left, in configuration order: no missed rule, no phantom rule *)
Theorem C01_phase_exact : forall X ord ph rules st i,
  map fst (fst (eval_rules X ord st ph i rules)) = spec_fired X ord st ph i rules.
Proof. exact phase_exact. Qed.
Print Assumptions C01_phase_exact.

(* no phantom rule: whatever is reported fired is a rule of this phase whose chain holds in the
   well-formed state it was evaluated in, reported with exactly the specified match data *)
Theorem C01_fired_sound : forall X ord ph rules, ok_oracle ord -> forall st i id mds, wf_state st ->
  In (id, mds) (fst (eval_rules X ord st ph i rules)) ->
  exists r j st0, In r rules /\ r_id r = id /\ id <> 0%N /\ in_phase ph r = true /\ wf_state st0
    /\ chain_holds X (sub ord j) st0 0 (rule_links r)
    /\ Permutation mds (spec_chain_data X (sub ord j) st0 0 (rule_links r)).
Proof. exact fired_sound. Qed.
Print Assumptions C01_fired_sound.

(* known finding c01-args-regex-key-case (F24b): the documented intent "ARGS:/^Foo/ selects the
   argument Foo" fails on the model exactly as on the code, for selection and for exclusion *)
Theorem C01_regex_key_case_refuted :
  exists (q : request) (t : rtarget) (p : rxpat) (key v : bytes),
    In (key, v) (q_get q) /\ rt_var t = VArgs /\ rt_sel t = SelRx p /\ rt_negs t = [] /\
    rxm csem p key = true /\ get_field csem ord_id (build1 q) (compile_target csem t) = [].
Proof. exact regex_key_case_refuted. Qed.
Print Assumptions C01_regex_key_case_refuted.

Theorem C01_regex_excl_case_refuted :
  exists (q : request) (t : rtarget) (p : rxpat) (key v : bytes),
    In (key, v) (q_get q) /\ rt_var t = VArgs /\ rt_sel t = SelAll /\ rt_negs t = [SelRx p] /\
    rxm csem p key = true /\ In (VArgs, key, v) (get_field csem ord_id (build1 q) (compile_target csem t)).
Proof. exact regex_excl_case_refuted. Qed.
Print Assumptions C01_regex_excl_case_refuted.

(* F51 (repaired by 45c27b9; before it the whole source text of a regex key was lower-cased and
   REQUEST_HEADERS:/^\D+$/ selected the header 123 instead of X-Id): for the escape-class patterns
   the folded pattern on the folded key decides exactly what the pattern as written decides on the key *)
Theorem C01_regex_key_escape_exact : forall p k, p = RxNonDigits \/ p = RxDigits \/ p = RxNonSpace ->
  rxm csem (rxlow csem p) (key_lower k) = rxm csem p k.
Proof. exact class_key_fold_exact. Qed.
Print Assumptions C01_regex_key_escape_exact.

(* ---- keyed selection with the key folding as a parameter (any F; strings.ToLower = cm_fold lower_table) ---- *)
(* a collection built with fold F loses and invents nothing and is well formed, whatever the names *)
Theorem C01_fold_collection_holds_request : forall F l,
  Permutation (flat_entries (fmap_of_list F l)) l /\ fwf_map F (fmap_of_list F l).
Proof. intros F l. split; [apply fmap_of_list_entries | apply fmap_of_list_wf]. Qed.
Print Assumptions C01_fold_collection_holds_request.

(* FindString(k): exactly the entries whose folded name equals the folded key - for every fold, so also
   for names with invalid UTF-8 bytes or letters whose lower-case form is ASCII (U+212A vs k) *)
Theorem C01_fold_find_string_exact : forall F l k,
  Permutation (ffind_string F (fmap_of_list F l) k) (filter (fun e => bytes_eqb (F k) (F (fst e))) l).
Proof. exact ffind_string_spec. Qed.
Print Assumptions C01_fold_find_string_exact.

(* FindRegex: exactly the entries whose folded name the pattern accepts *)
Theorem C01_fold_find_regex_exact : forall F rx l,
  Permutation (ffind_regex rx (fmap_of_list F l)) (filter (fun e => rx (F (fst e))) l).
Proof. exact ffind_regex_spec. Qed.
Print Assumptions C01_fold_find_regex_exact.

(* with Go's case table (any table that agrees with ASCII lower-casing below 128) and ASCII names these
   are the collections of Match.v, i.e. the ones the correspondence validates *)
Theorem C01_fold_is_match_on_ascii : forall tbl l, tbl_ascii_ok ascii_lower tbl = true ->
  Forall (fun e => all_ascii (fst e) = true) l -> fmap_of_list (cm_fold tbl) l = map_of_list l.
Proof. exact fmap_of_list_ascii. Qed.
Print Assumptions C01_fold_is_match_on_ascii.
