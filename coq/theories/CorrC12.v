(* CorrC12.v — correspondence checker for C12 (transformation cache): evaluates the TCache.v
   model (instantiated with the Transform.v models plus the harness' plugin transformations)
   on what the Go harness ran and compares with what the implementation did. *)
From Coq Require Import String.
From Verif Require Import Base Transform CaseMap TCache.
Local Open Scope nat_scope.

(* transformations of the correspondence: the modelled built-ins, plus the plugin
   transformations the harness registers through experimental/plugins:
   c12fail<n> always fails (returns its input and an error), c12id<n> is the identity *)
(* CBang is the plugin transformation the harness registers under the NAME "lowercase+trim"
   (a name containing '+', F38): upper-case, then append "!" *)
Inductive ctf := CT (t : tid) | CFail (n : nat) | CId (n : nat) | CBang.

(* lo / up: the Unicode case tables regenerated from Go's unicode package (VerifGen.FactsC14);
   built-ins go through CaseMap.apply_tu lo up: lowercase / uppercase are strings.ToLower / ToUpper on
   ARBITRARY bytes (non-ASCII runes mapped, invalid UTF-8 rewritten to U+FFFD), the rest is apply_t *)
Section Reg.
Variables lo up : list case_range.
Definition ctf_apply (c : ctf) (s : bytes) : tres :=
  match c with
  | CT t => apply_tu lo up t s
  | CFail _ => mk_tres s false true
  | CId _ => mk_tres s false false
  | CBang => mk_tres (t_out (t_case up s) ++ [33%N]) true false
  end.
End Reg.

Definition tid_code (t : tid) : nat :=
  match t with
  | TNone => 0 | TLength => 1 | TLowercase => 2 | TUppercase => 3 | TRemoveNulls => 4
  | TReplaceNulls => 5 | TTrim => 6 | TTrimLeft => 7 | TTrimRight => 8 | THexEncode => 9
  | THexDecode => 10 | TBase64Encode => 11 | TBase64Decode => 12 | TBase64DecodeExt => 13
  | TUrlDecode => 14 | TUrlEncode => 15 | TCmdLine => 16 | TRemoveCommentsChar => 17
  | TReplaceComments => 18 | TEscapeSeqDecode => 19 | TCompressWhitespace => 20
  | TRemoveWhitespace => 21 | TUtf8ToUnicode => 22
  | _ => 99          (* transformations added to Transform.v later are not used by this harness *)
  end.
Definition ctf_code (c : ctf) : nat :=
  match c with CT t => tid_code t | CFail n => 100 + n | CId n => 200 + n | CBang => 300 end.

(* ---- generic comparisons ---- *)
Fixpoint list_eqb {A} (eqb : A -> A -> bool) (a b : list A) : bool :=
  match a, b with
  | [], [] => true
  | x :: a', y :: b' => eqb x y && list_eqb eqb a' b'
  | _, _ => false
  end.

(* multiset equality: remove one occurrence at a time *)
Fixpoint ms_remove {A} (eqb : A -> A -> bool) (x : A) (l : list A) : option (list A) :=
  match l with
  | [] => None
  | y :: r => if eqb x y then Some r
              else match ms_remove eqb x r with Some r' => Some (y :: r') | None => None end
  end.
Fixpoint ms_eqb {A} (eqb : A -> A -> bool) (a b : list A) : bool :=
  match a with
  | [] => match b with [] => true | _ => false end
  | x :: a' => match ms_remove eqb x b with Some b' => ms_eqb eqb a' b' | None => false end
  end.

Definition nats_eqb := list_eqb Nat.eqb.
Definition codes (es : list ctf) : list nat := map ctf_code es.

Definition out_eqb (a b : list bytes * list nat) : bool :=
  list_eqb bytes_eqb (fst a) (fst b) && nats_eqb (snd a) (snd b).

(* ---- case types ---- *)
Definition crule := (list ctf * list nat * bool)%type.                 (* ts, prefix ids, multiMatch *)
Definition ccall := (nat * (nat * nat * nat) * nat)%type.              (* rule index, (variable, key pointer id, index of the value), position *)
Definition cdump := ((nat * nat * nat * nat) * nat * bytes * list nat)%type.    (* (kid,idx,var,pid), index of the input, output, errs *)

Inductive case :=
  (* direct calls of Rule.transformArg / transformMultiMatchArg on one cache *)
  | CD (rules : list crule) (vals : list bytes) (calls : list ccall) (obs : list (list bytes * list nat))
       (dump : list cdump + nat)        (* the real cache at the end, or only its size *)
  (* one phase of a real transaction: per rule, the values its transformations were applied to
     (recorded in the identity-prefixed run), the values the operator saw, the logged error lists *)
  | CW (rules : list (list ctf * bool * nat))      (* transformations, multiMatch, phase *)
       (per_rule : list (list bytes * list bytes * list (list nat)))
  (* dump of a real transaction's cache after a phase: the values the rules of that phase started
     from; entries (chain of the prefix id, input, output, errs) *)
  | CI (started_from : list bytes) (entries : list (list ctf * bytes * bytes * list nat))
  (* interning: t: argument lists of a rule set in compilation order; the real prefix ids *)
  | CN (names : list (list bytes)) (pids : list (list nat)).

Definition to_rule (r : crule) : tc_rule ctf := mk_rule (fst (fst r)) (snd (fst r)) (snd r).
Definition dflt_rule : tc_rule ctf := mk_rule [] [] false.

Definition to_call (rs : list (tc_rule ctf)) (vals : list bytes) (c : ccall) : tc_call ctf :=
  let '(ri, (var, kid, vi), idx) := c in mk_call (nth ri rs dflt_rule) (mk_arg var kid (nth vi vals [])) idx.

Definition dump_ok (st : tc_state ctf) (vals : list bytes) (d : cdump) : bool :=
  let '((kid, idx, var, pid), i, o, es) := d in
  match tc_find (mk_key kid idx var pid) (st_cache st) with
  | Some e => bytes_eqb (e_in e) (nth i vals []) && bytes_eqb (e_out e) o && nats_eqb (codes (tc_read (st_heap st) (e_errs e))) es
  | None => false
  end.

(* first-appearance renumbering *)
Fixpoint first_index (x : nat) (l : list nat) (i : nat) : nat :=
  match l with [] => i | y :: r => if Nat.eqb x y then i else first_index x r (S i) end.
Definition canon (l : list nat) : list nat := map (fun x => first_index x l 0) l.

(* ---- the whole transaction through the model: the rules' lists are interned by it_compile
   (a transformation is named by its code), the phases are evaluated by tc_eval_tx on ONE
   variable and ONE key pointer (every value collides with every other in (variable, key),
   positions as doEvaluate numbers them) ---- *)
Definition pseudo_name (c : ctf) : bytes := [N.of_nat (ctf_code c)].

Definition cw_rules (rules : list (list ctf * bool * nat)) : list (tc_rule ctf) :=
  let '(_, rs) := it_compile it_init (map (fun r => (map pseudo_name (fst (fst r)), snd (fst r))) rules) in
  map (fun p => mk_rule (fst (fst (fst p))) (ir_pids (fst (snd p))) (snd (fst (fst p)))) (combine rules rs).

Definition cw_content (origs : list bytes) : tc_content := fun _ => map (fun v => (0, v)) origs.

(* rules of one phase, in order, with what they started from and what was observed *)
Definition cw_item := (tc_rule ctf * (list bytes * list bytes * list (list nat)))%type.
Definition cw_phase_items (ph : nat) (items : list (nat * cw_item)) : list cw_item :=
  map snd (filter (fun x => Nat.eqb (fst x) ph) items).

Fixpoint cw_check (items : list cw_item) (outs : list (list bytes * list ctf)) : bool :=
  match items with
  | [] => match outs with [] => true | _ => false end
  | (_, (origs, seen, errs)) :: rest =>
    let n := length origs in
    let mine := firstn n outs in
    Nat.eqb (length mine) n &&
    ms_eqb bytes_eqb (concat (map fst mine)) seen &&
    ms_eqb nats_eqb (filter (fun l => negb (Nat.eqb (length l) 0)) (map (fun o => codes (snd o)) mine)) errs &&
    cw_check rest (skipn n outs)
  end.

Definition cw_phases : list nat := [1; 2; 3; 4; 5].

Section Ok.
Variables lo up : list case_range.
Notation ctf_apply := (ctf_apply lo up).
Definition ok (c : case) : bool :=
  match c with
  | CD rules vals calls obs dump =>
    let rs := map to_rule rules in
    let '(outs, st) := tc_eval_calls ctf ctf_apply (map (to_call rs vals) calls) tc_empty in
    list_eqb out_eqb (map (fun o => (fst o, codes (snd o))) outs) obs &&
    match dump with
    | inl d => Nat.eqb (length (st_cache st)) (length d) && forallb (dump_ok st vals) d
    | inr n => Nat.eqb (length (st_cache st)) n
    end
  | CW rules per_rule =>
    let items := combine (map snd rules) (combine (cw_rules rules) per_rule) in
    let phases := map (fun ph => cw_phase_items ph items) cw_phases in
    let tx := map (map (fun it : cw_item => (mk_txrule (fst it) [0], cw_content (fst (fst (snd it)))))) phases in
    let outs := fst (tc_eval_tx ctf ctf_apply tx tc_empty) in
    Nat.eqb (length rules) (length per_rule) &&
    forallb (fun r => existsb (Nat.eqb (snd r)) cw_phases) rules &&
    forallb (fun po => cw_check (fst po) (snd po)) (combine phases outs)
  | CI started_from entries =>
    forallb (fun en =>
      let '(chain, i, o, es) := en in
      let x := tc_exec ctf ctf_apply chain i in
      bytes_eqb (fst x) o && nats_eqb (codes (snd x)) es &&
      existsb (bytes_eqb i) started_from) entries
  | CN names pids =>
    let '(_, rs) := it_compile it_init (map (fun n => (n, false)) names) in
    list_eqb Nat.eqb (map (fun r => length (ir_pids (fst r))) rs) (map (@length nat) pids) &&
    nats_eqb (canon (concat (map (fun r => ir_pids (fst r)) rs))) (canon (concat pids))
  end.

End Ok.

Definition mismatches (lo up : list case_range) (l : list case) : list nat := mismatches_of (ok lo up) l.
