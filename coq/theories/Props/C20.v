(* Props/C20.v — the property theorems of C20 and nothing else.
   C20: failures are reported, never swallowed, and no temporary file is left behind.
   Every statement quantifies over EVERY fault schedule S (which file-system operation fails, and how
   far a failing write got), EVERY verdict of the third-party body parser (parse), every
   configuration, every call list l (any prefix of a transaction = any abandonment point) and every
   starting world; [cur] is the code that is in /repo now. *)
From Verif Require Import Base Faults FaultsProofs.
Local Open Scope nat_scope.

(* A failed file-system operation of any call of any call list surfaces: the call returns an error,
   or "Failed to process request body" is logged (with REQBODY_ERROR = 1, see the next theorem), or
   "Failed to write audit log" / "Failed to read the request body for the audit log" is logged.  The
   only class that is excepted is the deferred Close of an upload file (swallowed cur). *)
Theorem C20_failure_surfaces : forall parse S c l w x,
  In x (trace parse cur S c l w) ->
  forall o, In o (w_faults (fst x)) -> swallowed cur o = false ->
  r_err (snd x) = true \/ In LgProc (w_log (fst x)) \/ In LgAudit (w_log (fst x))
  \/ In LgAuditBody (w_log (fst x)).
Proof. intros parse S c l w x. exact (failure_surfaces parse cur S c l w x). Qed.
Print Assumptions C20_failure_surfaces.

(* what is excepted, exactly *)
Theorem C20_swallowed_class : forall o,
  swallowed cur o = true <-> (oi_tgt o = TUpload /\ oi_kind o = OClose).
Proof. exact swallowed_class. Qed.
Print Assumptions C20_swallowed_class.

(* ProcessRequestBody reached in phase 1 without interruption: phase 2 ALWAYS runs (exactly once);
   REQBODY_ERROR = 1 is seen by the phase-2 rule on it; the error log entry comes with both error
   variables; and REQBODY_ERROR = 0 afterwards means that no read of the spilled body, no creation
   and no copy of an upload failed during the call and that the parser accepted the stored body -
   a body whose read-back, storage or parse failed is never taken for an inspected one. *)
Theorem C20_not_silently_inspected : forall parse S c w,
  t_phase (w_tx w) = 1 -> t_intr (w_tx w) = false ->
  let w' := fst (step parse cur S c CProcess w) in
  t_phase (w_tx w') = 2 /\ t_p2 (w_tx w') = Datatypes.S (t_p2 (w_tx w)) /\
  (t_rberr (w_tx w') = true -> t_e (w_tx w') = true) /\
  (In LgProc (w_log w') -> t_rberr (w_tx w') = true /\ t_rbperr (w_tx w') = true) /\
  (t_rberr (w_tx w') = false ->
     Forall (fun o => body_fault o = false) (w_faults w') /\
     (0 < bb_len (wbuf w) -> c_proc c = PJson \/ c_proc c = PMultipart ->
      pr_ok (parse (stored_body w)) = true)).
Proof. intros parse S c w. exact (step_process_inspected parse cur S c w). Qed.
Print Assumptions C20_not_silently_inspected.

(* the same for ProcessRequestBody wherever it is called from (WriteRequestBody calls it when the
   ProcessPartial limit is reached), for any faults already recorded *)
Theorem C20_not_silently_inspected_any_caller : forall parse S c w,
  t_phase (w_tx w) = 1 -> t_intr (w_tx w) = false ->
  let w' := fst (process_body parse cur S c w) in
  t_phase (w_tx w') = 2 /\ t_p2 (w_tx w') = Datatypes.S (t_p2 (w_tx w)) /\
  (t_rberr (w_tx w') = true -> t_e (w_tx w') = true) /\
  (t_rberr (w_tx w') = false ->
     (Forall (fun o => body_fault o = false) (w_faults w) ->
      Forall (fun o => body_fault o = false) (w_faults w')) /\
     (0 < bb_len (wbuf w) -> c_proc c = PJson \/ c_proc c = PMultipart ->
      pr_ok (parse (stored_body w)) = true)).
Proof. intros parse S c w. exact (process_body_inspected parse cur S c w). Qed.
Print Assumptions C20_not_silently_inspected_any_caller.

(* a body over the limit is never silently cut: after ANY call list on a fresh transaction, a
   WriteRequestBody whose data reaches or exceeds the limit - including the case where earlier chunks
   filled the buffer EXACTLY and this chunk is dropped whole - leaves INBOUND_DATA_ERROR = 1
   (invariant: the buffer holds [limit] bytes only with the signal raised) *)
Theorem C20_over_limit_surfaces : forall parse S c l fs d,
  0 < c_limit c ->
  let w := run parse cur S c l (init_world fs) in
  c_limit c <= bb_len (wbuf w) + length d ->
  t_inbound (w_tx (fst (step parse cur S c (CWrite d) w))) = true.
Proof. intros parse S c l fs d. exact (over_limit_surfaces parse cur S c l fs d). Qed.
Print Assumptions C20_over_limit_surfaces.

(* Close after any call list returns an error exactly when one of its own operations failed
   (Remove of an upload, Close or Remove of the spill file): nothing is swallowed, nothing invented *)
Theorem C20_close_reports_exactly_its_faults : forall parse S c l w,
  fst (finish parse cur S c l w) = true <-> w_faults (snd (finish parse cur S c l w)) = [].
Proof. intros. apply finish_close_error_iff. Qed.
Print Assumptions C20_close_reports_exactly_its_faults.

(* keep-files off (or RelevantOnly without a relevant rule), EVERY schedule, every abandonment point:
   the pre-existing files are untouched, and every file of the transaction that is still there after
   Close is a file whose OWN Remove is among the failures Close recorded (an upload: the Remove at its
   position in FILES_TMPNAMES; the spill file: its Remove) - i.e. every file whose own Remove does not
   fail is gone, whatever else failed: Close tries every entry and collects every error. *)
Theorem C20_no_temp_left : forall parse S c l fs,
  fs_wf fs ->
  let w := run parse cur S c l (init_world fs) in
  keep_files c (w_tx w) = false ->
  let w' := snd (finish parse cur S c l (init_world fs)) in
  filter (low (fs_next fs)) (fs_files (w_fs w')) = fs_files fs /\
  forall f, In f (fs_files (w_fs w')) -> fs_next fs <= f_id f ->
    own_remove_failed (t_tmpnames (w_tx w)) (bb_writer (t_buf (w_tx w))) (w_faults w') (f_id f).
Proof. intros parse S c l fs W. apply no_temp_left_per_file; auto. Qed.
Print Assumptions C20_no_temp_left.

(* consequence: when the schedule never fails a Remove, the files after Close are exactly the files
   that existed before the transaction *)
Theorem C20_no_temp_left_when_no_remove_fails : forall parse S c l fs,
  fs_wf fs -> no_remove_fault S ->
  keep_files c (w_tx (run parse cur S c l (init_world fs))) = false ->
  fs_files (w_fs (snd (finish parse cur S c l (init_world fs)))) = fs_files fs.
Proof. intros. apply no_temp_left; auto. Qed.
Print Assumptions C20_no_temp_left_when_no_remove_fails.

(* refuted (seeded defect C20-d): a removal loop that returns at the first failure leaves a file
   behind whose own Remove never failed - unlike remove_from *)
Theorem C20_no_temp_left_refuted_stop_at_first_failure :
  exists S ids w, let w' := snd (remove_from_stop S 0 ids w) in
    exists f, In f (fs_files (w_fs w')) /\
      ~ own_remove_failed ids None (w_faults w') (f_id f) /\
      ~ In f (fs_files (w_fs (snd (remove_from S 0 ids w)))).
Proof. exact stop_at_first_failure_leaves_files. Qed.
Print Assumptions C20_no_temp_left_refuted_stop_at_first_failure.

(* refuted (seeded defect C20-e): assigning the spill file to the buffer only after the dump of the
   memory part leaves the file created by CreateTemp behind when that dump fails (no Remove failed);
   as coded (writer assigned first) Reset removes it *)
Theorem C20_no_temp_left_refuted_late_writer_assignment :
  exists S c d1 d2,
    let w1 := snd (bb_write S c d1 (init_world (mkfs [] 0 []))) in
    fs_files (w_fs (snd (bb_reset cur S (snd (bb_write S c d2 w1))))) = [] /\
    fst (bb_write_late S c d2 w1) = false /\
    let w' := snd (bb_reset cur S (snd (bb_write_late S c d2 w1))) in
    fs_files (w_fs w') <> [] /\ Forall (fun o => oi_kind o <> ORemove) (w_faults w').
Proof. exact late_writer_assignment_leaves_file. Qed.
Print Assumptions C20_no_temp_left_refuted_late_writer_assignment.

(* the guard is satisfiable by schedules that do fail things: the two F29 schedules *)
Theorem C20_no_temp_left_guard_nontrivial :
  no_remove_fault (only_fail OClose TSpill) /\ no_remove_fault (only_fail OWrite TUpload) /\
  fs_files (w_fs (snd (finish (fun _ => mkpr [] true) cur (only_fail OClose TSpill) (cfg_plain PNone AOff)
                         [CHeaders; CWrite [1%N; 2%N; 3%N]] (init_world (mkfs [] 0 []))))) = [] /\
  fs_files (w_fs (snd (finish (fun _ => mkpr [PtFile 5] true) cur (only_fail OWrite TUpload) (cfg_plain PMultipart AOff)
                         [CHeaders; CWrite [1%N]; CProcess] (init_world (mkfs [] 0 []))))) = [].
Proof. exact no_temp_left_guard_nontrivial. Qed.
Print Assumptions C20_no_temp_left_guard_nontrivial.

(* no handle opened for the transaction stays open after Close: every schedule, no guard *)
Theorem C20_no_handle_left : forall parse S c l fs,
  fs_hwf fs -> fs_open (w_fs (snd (finish parse cur S c l (init_world fs)))) = fs_open fs.
Proof. intros. apply no_handle_left; assumption. Qed.
Print Assumptions C20_no_handle_left.

(* whatever happened before and whatever fails during Close, the object handed out again by
   NewTransaction is in the initial state and its buffer is empty *)
Theorem C20_recycled_object_works : forall S c w,
  tx_renew (w_tx (snd (tx_close cur S c w))) = tx_init /\
  t_buf (w_tx (snd (tx_close cur S c w))) = bb_init.
Proof. intros; split; [apply recycled_initial | apply close_buffer_initial]. Qed.
Print Assumptions C20_recycled_object_works.

(* ---- refuted: the pre-repair code (documentation of F29a, F29b, F45, F46) ---- *)

(* before 1eb7c59: a failing Close of the spill file left the file behind (no Remove failed) *)
Theorem C20_no_temp_left_refuted_pre_reset_fix :
  exists S c l, no_remove_fault S /\
    keep_files c (w_tx (run (fun _ => mkpr [] true) (mkvar false true true true) S c l (init_world (mkfs [] 0 [])))) = false /\
    fs_files (w_fs (snd (finish (fun _ => mkpr [] true) (mkvar false true true true) S c l (init_world (mkfs [] 0 []))))) <> [].
Proof. exact no_temp_left_refuted_pre_reset_fix. Qed.
Print Assumptions C20_no_temp_left_refuted_pre_reset_fix.

(* before cd4fc4d: a failing copy of an upload left the unregistered file behind *)
Theorem C20_no_temp_left_refuted_pre_multipart_fix :
  exists S c l parse, no_remove_fault S /\
    keep_files c (w_tx (run parse (mkvar true false true true) S c l (init_world (mkfs [] 0 [])))) = false /\
    fs_files (w_fs (snd (finish parse (mkvar true false true true) S c l (init_world (mkfs [] 0 []))))) <> [].
Proof. exact no_temp_left_refuted_pre_multipart_fix. Qed.
Print Assumptions C20_no_temp_left_refuted_pre_multipart_fix.

(* before 96c5a47: a failed write of the serial audit log: no error, no log entry, no variable *)
Theorem C20_failure_surfaces_refuted_pre_audit_fix :
  exists S c w, let x := step (fun _ => mkpr [] true) (mkvar true true false true) S c CLogging w in
    (exists o, In o (w_faults (fst x)) /\ oi_tgt o = TAuditSerial) /\ silent (snd x) (fst x).
Proof. exact failure_surfaces_refuted_pre_audit_fix. Qed.
Print Assumptions C20_failure_surfaces_refuted_pre_audit_fix.

(* before 802b513: a failed read-back of the spilled body for audit part C surfaced nowhere *)
Theorem C20_failure_surfaces_refuted_pre_auditc_fix :
  exists S c l, let w := run (fun _ => mkpr [] true) (mkvar true true true false) S c l (init_world (mkfs [] 0 [])) in
    let x := step (fun _ => mkpr [] true) (mkvar true true true false) S c CLogging w in
    (exists o, In o (w_faults (fst x)) /\ oi_tgt o = TSpillAudit) /\ silent (snd x) (fst x).
Proof. exact failure_surfaces_refuted_pre_auditc_fix. Qed.
Print Assumptions C20_failure_surfaces_refuted_pre_auditc_fix.

(* still the case (observation, by reading only - not injectable): the error of the deferred Close
   of an upload file is dropped *)
Theorem C20_upload_close_fault_is_swallowed :
  exists S c l parse, let w := run parse cur S c l (init_world (mkfs [] 0 [])) in
    let x := step parse cur S c CProcess w in
    (exists o, In o (w_faults (fst x)) /\ oi_tgt o = TUpload /\ oi_kind o = OClose) /\ silent (snd x) (fst x).
Proof. exact upload_close_fault_is_swallowed. Qed.
Print Assumptions C20_upload_close_fault_is_swallowed.
