(* CorrC10.v — correspondence checker for C10: evaluates the BodyBuffer.v / TxBody.v models on the
   call sequences the Go harness drove through the real Transaction / BodyBuffer API and compares
   every observable. *)
From Verif Require Import Base BodyBuffer TxBody.
Open Scope Z_scope.

(* body: literal bytes, or (length, seed) of the pattern both sides generate *)
Inductive bodyspec := BHex (b : bytes) | BGen (len seed : N).

(* the pattern: a walks around Z_251 in steps of [step], with one extra step every 251 bytes
   (so that the period is 251*251); additions and conditional subtractions only *)
Fixpoint gen_go (n : nat) (step a k : N) : bytes :=
  match n with
  | O => []
  | S n' =>
    let a1 := (a + step + (if k =? 0 then 1 else 0))%N in
    let a2 := if (251 <=? a1)%N then (a1 - 251)%N else a1 in
    a :: gen_go n' step a2 (if (k =? 0)%N then 250%N else (k - 1)%N)
  end.
Definition gen_body (len seed : N) : bytes :=
  gen_go (N.to_nat len) (1 + seed mod 250)%N (seed mod 251)%N 250%N.
Definition body_of (b : bodyspec) : bytes :=
  match b with BHex x => x | BGen l s => gen_body l s end.

(* observed byte strings: literal, or (length, hash) *)
Inductive obytes := OHex (b : bytes) | OHash (len h1 h2 : N).
(* Adler-style pair without reduction: h1 = sum of (byte+1), h2 = sum of the running h1 *)
Definition hash_bytes (s : bytes) : N * N :=
  fold_left (fun '(h1, h2) b => let h := (h1 + b + 1)%N in (h, (h2 + h)%N)) s (0%N, 0%N).
Definition obytes_ok (model : bytes) (o : obytes) : bool :=
  match o with
  | OHex b => bytes_eqb model b
  | OHash l h1 h2 =>
    let '(m1, m2) := hash_bytes model in
    N.eqb (N.of_nat (length model)) l && N.eqb m1 h1 && N.eqb m2 h2
  end.

(* calls, as consecutive pieces of the body *)
Inductive ccall :=
  | CW (n : nat)                          (* slice write of the next n bytes *)
  | CR (known : bool) (rs n : nat)        (* reader over the next n bytes *)
  | CP                                    (* Process{Request,Response}Body *)
  | CC (z : Z).                           (* ctl limit *)

Fixpoint decode (body : bytes) (ks : list ccall) : list tb_call :=
  match ks with
  | [] => []
  | CW n :: r => WriteSlice (firstn n body) :: decode (skipn n body) r
  | CR k rs n :: r => ReadFrom k rs (firstn n body) :: decode (skipn n body) r
  | CP :: r => ProcessBody :: decode body r
  | CC z :: r => CtlLimit z :: decode body r
  end.

(* per call: interruption status (0 = none), n, err + 2*panic, body-phase runs after the call *)
Definition oret := (Z * Z * Z * Z)%type.

Record ofinal := {
  f_contents : obytes;       (* bytes read back from RequestBodyReader()/ResponseBodyReader() *)
  f_size : Z;                (* buffer length as seen by the tx (reader length) *)
  f_bodyvar : obytes;        (* REQUEST_BODY / RESPONSE_BODY *)
  f_seen : option obytes;    (* TX.seen (what the phase rule read) when the rule ran *)
  f_dataerr : bool;          (* INBOUND/OUTBOUND_DATA_ERROR = 1 *)
  f_phase : Z;               (* tx.LastPhase() *)
  f_spilled : bool;          (* a body* file exists in the tmp dir *)
  f_intr : Z;                (* tx.Interruption() status, 0 = none *)
  f_lenvar : bytes           (* REQUEST_BODY_LENGTH / RESPONSE_CONTENT_LENGTH *)
}.

Inductive bop := BW (n : nat) | BR.

Inductive case :=
  (* transaction level: limit = SecRequestBodyLimit resp. SecResponseBodyLimit of the WAF, inmem = its
     explicit SecRequestBodyInMemoryLimit (<= 0: not configured), set in BOTH directions *)
  | CT (dir : tb_dir) (limit inmem : Z) (act : tb_action) (access engine_on : bool) (bp : tb_bproc)
       (processable deny : bool) (phase0 : Z) (body : bodyspec) (calls : list ccall)
       (rets : list oret) (fin : ofinal)
  (* the same with RuleEngine = DetectionOnly (engine_on is ignored) *)
  | CTD (dir : tb_dir) (limit inmem : Z) (act : tb_action) (access engine_on : bool) (bp : tb_bproc)
       (processable deny : bool) (phase0 : Z) (body : bodyspec) (calls : list ccall)
       (rets : list oret) (fin : ofinal)
  (* buffer level: writes of consecutive pieces of the body / Reset on NewBodyBuffer(limit, mem);
     observed (n, err) per op, final contents, Size(), spilled *)
  | CB (limit mem : Z) (body : bytes) (ops : list bop) (rets : list (Z * bool))
       (contents : bytes) (size : Z) (spilled : bool).

Definition intr_code (i : option Z) : Z := match i with Some x => x | None => 0 end.

Fixpoint run_obs (c : tb_cfg) (s : tb_st) (ks : list tb_call) : tb_st * list oret :=
  match ks with
  | [] => (s, [])
  | k :: r =>
    let '(s1, x) := tb_step c s k in
    let o := (intr_code (r_intr x), r_n x,
              (if r_err x then 1 else 0) + (if r_panic x then 2 else 0), Z.of_nat (s_runs s1)) in
    (* a panic unwinds the call: nothing after it in this case is compared *)
    if r_panic x then (s1, [o]) else
    let '(s2, os) := run_obs c s1 r in (s2, o :: os)
  end.

Definition oret_eqb (a b : oret) : bool :=
  let '(a1, a2, a3, a4) := a in let '(b1, b2, b3, b4) := b in
  (a1 =? b1) && (a2 =? b2) && (a3 =? b3) && (a4 =? b4).

Fixpoint list_eqb {A} (f : A -> A -> bool) (a b : list A) : bool :=
  match a, b with
  | [], [] => true
  | x :: a', y :: b' => f x y && list_eqb f a' b'
  | _, _ => false
  end.

Fixpoint bb_ops (o : bbopt) (b : bbuf) (body : bytes) (ops : list bop) : bbuf * list (Z * bool) :=
  match ops with
  | [] => (b, [])
  | BR :: r => let '(b2, os) := bb_ops o (bb_reset b) body r in (b2, (0, false) :: os)
  | BW n :: r =>
    let '(b1, w, e) := bb_write o b (firstn n body) in
    let '(b2, os) := bb_ops o b1 (skipn n body) r in (b2, (w, e) :: os)
  end.

Definition ok_tx (det : bool) dir limit inmem act access eng bp proc deny phase0 body calls rets fin : bool :=
    let w := {| w_req_limit := match dir with Req => limit | Resp => 134217728 end;
                w_req_inmem := if inmem <=? 0 then None else Some inmem;
                w_resp_limit := match dir with Req => 524288 | Resp => limit end |} in
    let cfg0 := {| c_dir := dir; c_opt := waf_buf_opts w dir; c_action := act;
                  c_access := access; c_engine_on := eng; c_bp := bp; c_processable := proc;
                  c_deny := deny |} in
    let cfg := if det then engine_cfg EngDetectionOnly cfg0 else cfg0 in
    let '(s, os) := run_obs cfg (tb_init cfg phase0) (decode (body_of body) calls) in
    let panicked := existsb (fun '(_, _, f, _) => 2 <=? f) os in
    list_eqb oret_eqb os rets &&
    (panicked ||
     (obytes_ok (bb_contents (s_buf s)) (f_contents fin)
      && (bb_len (s_buf s) =? f_size fin)
      && obytes_ok (s_bodyvar s) (f_bodyvar fin)
      && match s_seen s, f_seen fin with
         | None, None => true
         | Some a, Some b => obytes_ok a b
         | _, _ => false
         end
      && Bool.eqb (s_dataerr s) (f_dataerr fin)
      && (s_phase s =? f_phase fin)
      && Bool.eqb (bb_spilled (s_buf s)) (f_spilled fin)
      && (intr_code (s_intr s) =? f_intr fin)
      && bytes_eqb (body_length_var cfg s) (f_lenvar fin))).

Definition ok (c : case) : bool :=
  match c with
  | CT dir limit inmem act access eng bp proc deny phase0 body calls rets fin =>
    ok_tx false dir limit inmem act access eng bp proc deny phase0 body calls rets fin
  | CTD dir limit inmem act access eng bp proc deny phase0 body calls rets fin =>
    ok_tx true dir limit inmem act access eng bp proc deny phase0 body calls rets fin
  | CB limit mem body ops rets contents size spilled =>
    let o := {| bo_limit := limit; bo_mem := mem |} in
    let '(b, os) := bb_ops o bb_empty body ops in
    list_eqb (fun x y => (fst x =? fst y) && Bool.eqb (snd x) (snd y)) os rets
    && bytes_eqb (bb_contents b) contents && (bb_len b =? size) && Bool.eqb (bb_spilled b) spilled
  end.

Definition mismatches (l : list case) : list nat := mismatches_of ok l.
