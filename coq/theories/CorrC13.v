(* CorrC13.v — correspondence for C13.  A case is a process history observed on the real code:
   WAF constructions (the memoizer calls of the configuration, in call order, as the values
   each call site has in hand) and closures; after EVERY event the harness snapshots the real
   cache (hook internal/memoize/zz_verif_c13.go): key, Go type of the value, a descriptor of
   the value's content, owner ids.  The model (Memo.v, the same functions the theorems are
   about: cstep / cconstruct / ckey_of / cbuild) is run on the same history and must agree on
   the status of every construction (built / failed / panicked) and on the whole cache after
   every event.  External compilers enter through the tables of the case (which patterns Go
   rejects, MD5 of the schema files, titles of the schemas). *)
From Coq Require Import String.
From Coq Require Import List NArith Bool.
From Verif Require Import Base Utf8 Transform CaseMap Memo.
Import ListNotations.
Open Scope N_scope.

(* o_type: 1 *regexp.Regexp, 2 *binaryregexp.Regexp, 3 *operators.rxCompiled,
   4 ahocorasick.AhoCorasick, 5 *jsonschema.Schema, 0 anything else *)
Record obs_entry := mk_obs { o_key : bytes; o_type : N; o_desc : bytes; o_owners : list N }.

Inductive status := StBuilt | StFailed | StPanicked.

Inductive cev :=
| CBuild (id : N) (rs : list creq) (st : status) (snap : list obs_entry)
| CClose (id : N) (snap : list obs_entry).

Record case := mk_case {
  c_bad_re : list bytes;                     (* patterns regexp.Compile rejects *)
  c_bad_binre : list bytes;                  (* patterns binaryregexp.Compile rejects *)
  c_bad_schema : list bytes;                 (* schema files the JSON-schema compiler rejects *)
  c_hashes : list (bytes * bytes);           (* schema file -> md5Hash *)
  c_titles : list (bytes * bytes);           (* schema file -> its "title" (descriptor of *jsonschema.Schema) *)
  c_vocab : list bytes;                      (* probe words: the descriptor of a matcher is which of them it matches *)
  c_events : list cev
}.

Definition bmem (x : bytes) (l : list bytes) : bool := existsb (bytes_eqb x) l.
Fixpoint assoc (x : bytes) (l : list (bytes * bytes)) : bytes :=
  match l with
  | [] => []
  | (k, v) :: r => if bytes_eqb k x then v else assoc x r
  end.

(* ---- what the harness can observe of an artefact ---- *)
Definition art_type (a : cart) : N :=
  match a with
  | ARegexp _ => 1
  | ABinRegexp _ => 2
  | ARxCompiled _ _ => 3
  | AAho _ _ => 4
  | ASchema _ => 5
  end.

(* an Aho-Corasick matcher (ASCII case-insensitive, substring semantics) matches a word iff one
   of its patterns occurs in it *)
Definition aho_matches (dict : list bytes) (w : bytes) : bool :=
  existsb (fun p => is_substring (lower_ascii p) (lower_ascii w)) dict.

Definition art_desc (c : case) (a : cart) : bytes :=
  match a with
  | ARegexp pat => pat                                                (* re.String() *)
  | ABinRegexp pat => pat
  | ARxCompiled pf data => data ++ 124 :: (if pf then [49] else [48]) (* re.String() | prefilter artefacts present *)
  | AAho dfa dict =>
      (if dfa then str "dfa" else str "nfa")%string ++ 124 :: itoa (N.of_nat (length dict))
      ++ 124 :: map (fun w => if aho_matches dict w then 49 else 48) (c_vocab c)
  | ASchema content => assoc content (c_titles c)
  end.

Definition owners_eqb (a b : list N) : bool :=
  forallb (fun x => memo_mem x b) a && forallb (fun x => memo_mem x a) b.

Definition snap_ok (c : case) (m : cache cart) (snap : list obs_entry) : bool :=
  Nat.eqb (length m) (length snap)
  && forallb (fun o =>
       match load cart m (o_key o) with
       | Some e => N.eqb (art_type (e_val e)) (o_type o)
                   && bytes_eqb (art_desc c (e_val e)) (o_desc o)
                   && owners_eqb (e_owners e) (o_owners o)
                   && negb (e_deleted e)
       | None => false
       end) snap.

Definition status_ok (o : outcome cart cerr) (st : status) : bool :=
  match o, st with
  | Built _, StBuilt | Failed _ _, StFailed | Panicked _, StPanicked => true
  | _, _ => false
  end.

Section Run.
  Variable tags : kind -> bytes.
  Variable ltbl : list case_range.    (* unicode.ToLower as a range table (regenerated: FactsC13.lower_table) *)

  (* strings.ToLower on arbitrary bytes (CaseMap.v) *)
  Definition go_lower (s : bytes) : bytes := utf8_map (map_rune ltbl) s.

  Variable c : case.

  Definition re_ok (p : bytes) : bool := negb (bmem p (c_bad_re c)).
  Definition binre_ok (p : bytes) : bool := negb (bmem p (c_bad_binre c)).
  Definition schema_ok (p : bytes) : bool := negb (bmem p (c_bad_schema c)).
  Definition hash (p : bytes) : bytes := assoc p (c_hashes c).

  Definition mstep := cstep tags go_lower hash re_ok binre_ok schema_ok.
  Definition mconstruct := cconstruct tags go_lower hash re_ok binre_ok schema_ok.

  Fixpoint events_ok (s : pstate cart) (evs : list cev) : bool :=
    match evs with
    | [] => true
    | CBuild id rs st snap :: r =>
        let s' := mstep s (EBuild id rs) in
        status_ok (snd (mconstruct (ps_cache s) id rs)) st
        && snap_ok c (ps_cache s') snap
        && events_ok s' r
    | CClose id snap :: r =>
        let s' := mstep s (EClose id) in
        snap_ok c (ps_cache s') snap && events_ok s' r
    end.
End Run.

Definition ok (tags : kind -> bytes) (ltbl : list case_range) (c : case) : bool :=
  events_ok tags ltbl c (mk_ps [] []) (c_events c).

Definition mismatches (tags : kind -> bytes) (ltbl : list case_range) (l : list case) : list nat :=
  mismatches_of (ok tags ltbl) l.
