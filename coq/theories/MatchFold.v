(* MatchFold.v — the keyed collections of Match.v with the key folding as a PARAMETER.
   Go folds a name with strings.ToLower before it is used as map key (Map.Add / Set / FindString, and
   GetField's exclusion test).  Match.v models that fold by lower_ascii, which is exact for ASCII
   names.  Here the fold is any function F : bytes -> bytes; the instance of interest is
   cm_fold tbl = CaseMap.utf8_map (map_rune tbl) with tbl the lower-case table regenerated from Go's
   unicode package (gen/FactsC14.lower_table): invalid bytes become U+FFFD, U+212A folds to k,
   U+0130 to i, ...  No proofs here (MatchFoldProofs.v). *)
From Verif Require Import Base Utf8 Transform CaseMap Match.
Open Scope N_scope.

Section Fold.
Variable F : bytes -> bytes.

(* Map.Add with fold F *)
Fixpoint fmap_add (m : gomap) (k v : bytes) : gomap :=
  match m with
  | [] => [(F k, [(k, v)])]
  | b :: r => if bytes_eqb (fst b) (F k) then (fst b, snd b ++ [(k, v)]) :: r
              else b :: fmap_add r k v
  end.
Definition fmap_of_list (l : list entry) : gomap :=
  fold_left (fun m e => fmap_add m (fst e) (snd e)) l [].

(* FindString / NamedCollectionNames.FindString: one bucket, the key folded *)
Definition ffind_string (m : gomap) (k : bytes) : list entry := map_lookup m (F k).
(* Map.FindString: the empty key means FindAll (NamedCollectionNames.FindString has no such case) *)
Definition ffind_string_map (m : gomap) (k : bytes) : list entry :=
  if is_empty k then flat_entries m else ffind_string m k.
(* FindRegex: the pattern on the stored (folded) key *)
Definition ffind_regex (rx : bytes -> bool) (m : gomap) : list entry :=
  flat_entries (filter (fun b => rx (fst b)) m).

Definition fbucket_ok (b : bucket) : Prop := Forall (fun e => F (fst e) = fst b) (snd b).
Definition fwf_map (m : gomap) : Prop := Forall fbucket_ok m /\ NoDup (map fst m).
End Fold.

(* strings.ToLower, parametric in the case table *)
Definition cm_fold (tbl : list case_range) (s : bytes) : bytes := utf8_map (map_rune tbl) s.
