(* FlowProofs.v — proofs about Flow.v (property C08).
   Main result: the coded phase loop (residual skip counter / pending marker / allow type, iteration
   over all rules) refines the documented semantics (agenda rewriting) for every rule list, every
   assignment of matches, both engine modes. The other theorems are stated on the coded loop itself. *)
From Verif Require Import Base Flow.
Local Open Scope nat_scope.

(* ================================================================================== *)
(* records                                                                             *)
(* ================================================================================== *)

Lemma st_eta s : mkSt (s_skip s) (s_after s) (s_allow s) (s_intr s) (s_dintr s) (s_rm s) (s_eng s) (s_ev s) = s.
Proof. destruct s; reflexivity. Qed.

Lemma add_rm_nil s : add_rm [] s = s.
Proof. destruct s; unfold add_rm; cbn. rewrite app_nil_r. reflexivity. Qed.

Lemma add_rm_add_rm a b s : add_rm b (add_rm a s) = add_rm (a ++ b) s.
Proof. destruct s; unfold add_rm; cbn. rewrite app_assoc. reflexivity. Qed.

(* ================================================================================== *)
(* actions of a rule that fired                                                        *)
(* ================================================================================== *)

Lemma apply_act_eng p id s a : s_eng (fl_apply_act p id s a) = s_eng s.
Proof. destruct s as [sk af al [i|] [d|] rm [| |] ev], a; reflexivity. Qed.

Lemma fold_acts p id acts : forall s,
  fold_left (fl_apply_act p id) acts s =
  mkSt (match fl_last_skip_opt acts with Some n => n | None => s_skip s end)
       (match fl_last_after acts with Some m => Some m | None => s_after s end)
       (match s_eng s with
        | MOn => match fl_last_allow acts with Some sc => Some sc | None => s_allow s end
        | _ => s_allow s
        end)
       (match s_eng s with
        | MOn => if fl_has_deny acts && negb (is_some (s_intr s)) then Some (p, id) else s_intr s
        | _ => s_intr s
        end)
       (match s_eng s with
        | MDet => if fl_has_deny acts && negb (is_some (s_dintr s)) then Some (p, id) else s_dintr s
        | _ => s_dintr s
        end)
       (s_rm s) (s_eng s) (s_ev s).
Proof.
  induction acts as [|a t IH]; intro s.
  - destruct s as [sk af al i d rm [| |] ev]; reflexivity.
  - cbn [fold_left]. rewrite IH. unfold fl_has_deny.
    cbn [fl_last_skip_opt fl_last_after fl_last_allow existsb].
    fold (fl_has_deny t).
    destruct s as [sk af al [i|] [d|] rm [| |] ev];
      destruct a, (fl_last_skip_opt t), (fl_last_after t), (fl_last_allow t), (fl_has_deny t); reflexivity.
Qed.

Lemma walk_spec req ls : forall s,
  fl_walk req ls s = (forallb (fl_link_matches req) ls,
                      set_eng (fl_prefix_eng req ls (s_eng s)) (add_rm (fl_prefix_rm req ls) s)).
Proof.
  induction ls as [|l t IH]; intro s; cbn [fl_walk forallb fl_prefix_rm fl_prefix_eng].
  - destruct s; unfold set_eng, add_rm; cbn. rewrite app_nil_r. reflexivity.
  - destruct (fl_link_matches req l); cbn [andb].
    + rewrite IH. f_equal. unfold fl_link_ctl.
      destruct s as [sk af al i d rm e ev]; destruct (l_eng l); unfold set_eng, add_rm; cbn;
        rewrite app_assoc; reflexivity.
    + destruct s; unfold set_eng, add_rm; cbn. rewrite app_nil_r. reflexivity.
Qed.

Notation fired_acts := fl_fired_acts.

Lemma evaluate_spec req p r s :
  fl_evaluate req p r s =
  let acts := fired_acts req r in
  let eng := fl_prefix_eng req (r_links r) (s_eng s) in
  mkSt (match fl_last_skip_opt acts with Some n => n | None => s_skip s end)
       (match fl_last_after acts with Some m => Some m | None => s_after s end)
       (match eng with
        | MOn => match fl_last_allow acts with Some sc => Some sc | None => s_allow s end
        | _ => s_allow s
        end)
       (match eng with
        | MOn => if fl_has_deny acts && negb (is_some (s_intr s)) then Some (p, r_id r) else s_intr s
        | _ => s_intr s
        end)
       (match eng with
        | MDet => if fl_has_deny acts && negb (is_some (s_dintr s)) then Some (p, r_id r) else s_dintr s
        | _ => s_dintr s
        end)
       (s_rm s ++ fl_prefix_rm req (r_links r)) eng
       (s_ev s ++ [Ev p (r_id r) (fl_all_match req r && negb (r_id r =? 0))]).
Proof.
  unfold fl_evaluate, fl_fired_acts, fl_all_match. rewrite walk_spec.
  destruct (forallb (fl_link_matches req) (r_links r)).
  - rewrite fold_acts. destruct s; reflexivity.
  - destruct s; cbn. destruct (fl_prefix_eng req (r_links r) s_eng); reflexivity.
Qed.

(* ================================================================================== *)
(* refinement: coded loop  =>  documented semantics                                    *)
(* ================================================================================== *)

(* allow scopes of the two sides: equal, or the code still carries an allow:request that the
   documentation considers expired (phases >= 3, where it has no effect) *)
Definition arel (p : nat) (a b : option fl_scope) : Prop :=
  a = b \/ (3 <= p /\ a = Some ScRequest /\ b = None).

Definition rel_rest (s : fl_st) (g : fl_g) : Prop :=
  s_intr s = g_intr g /\ s_dintr s = g_dintr g /\ s_rm s = g_rm g /\ s_eng s = g_eng g /\ s_ev s = g_ev g.

Definition rel (p : nat) (s : fl_st) (g : fl_g) : Prop := arel p (s_allow s) (g_allow g) /\ rel_rest s g.

(* after the loop of phase 2 the code may already have reset allow:request *)
Definition rel_post (p : nat) (s : fl_st) (g : fl_g) : Prop :=
  (arel p (s_allow s) (g_allow g) \/ (p = 2 /\ s_allow s = None /\ g_allow g = Some ScRequest)) /\ rel_rest s g.

Lemma rel_rel_post p s g : rel p s g -> rel_post p s g.
Proof. intros [A R]. split; [left; exact A | exact R]. Qed.

(* what the coded loop will still look at, given its residual state *)
Definition residual (p : nat) (s : fl_st) (rest : list fl_rule) : list fl_rule :=
  let l0 := fl_agenda p (s_rm s) rest in
  let l1 := match s_after s with Some m => fl_after_marker m l0 | None => l0 end in
  let l2 := skipn (s_skip s) l1 in
  if fl_blocks (s_allow s) p then [] else l2.

Lemma phase_cases p : 1 <= p <= 5 -> p = 1 \/ p = 2 \/ p = 3 \/ p = 4 \/ p = 5.
Proof. lia. Qed.

Lemma allow_break_blocks p s : 1 <= p <= 5 ->
  match fl_allow_break p s with
  | None => fl_blocks (s_allow s) p = false
  | Some s' => fl_blocks (s_allow s) p = true /\
               (s' = s \/ (p = 2 /\ s_allow s = Some ScRequest /\ s' = set_allow None s))
  end.
Proof.
  intro H. unfold fl_allow_break.
  destruct (phase_cases p H) as [-> | [-> | [-> | [-> | ->]]]];
    destruct (s_allow s) as [[| |]|] eqn:E; cbn; auto.
Qed.

Lemma blocks_arel p a b : arel p a b -> fl_blocks a p = fl_blocks b p.
Proof.
  intros [-> | (H & -> & ->)]; [reflexivity|]. cbn.
  destruct (Nat.leb_spec p 2); [lia | reflexivity].
Qed.

Lemma spec_go_nil f req p g : fl_spec_go f req p [] g = g.
Proof. destruct f; reflexivity. Qed.

Lemma spec_go_halted f req p l g :
  is_some (g_intr g) && negb (p =? 5) = true -> fl_spec_go f req p l g = g.
Proof. intro H. destruct f; [reflexivity|]. destruct l; cbn [fl_spec_go]; [reflexivity|]. rewrite H. reflexivity. Qed.

Lemma agenda_cons p rm r rest :
  fl_agenda p rm (r :: rest) =
  if fl_in_phase p r then (if fl_live rm r then r :: fl_agenda p rm rest else fl_agenda p rm rest)
  else fl_agenda p rm rest.
Proof.
  unfold fl_agenda. cbn [filter]. destruct (fl_in_phase p r); [|reflexivity].
  cbn [filter]. destruct (fl_live rm r); reflexivity.
Qed.

Lemma removed_live s r : fl_removed s r = negb (fl_live (s_rm s) r).
Proof. unfold fl_removed, fl_live. rewrite negb_involutive. reflexivity. Qed.

Lemma live_app rm extra r : fl_live (rm ++ extra) r = fl_live rm r && fl_live extra r.
Proof. unfold fl_live. rewrite existsb_app, negb_orb. reflexivity. Qed.

Lemma filter_live_app rm extra l :
  filter (fl_live (rm ++ extra)) (filter (fl_live rm) l) = filter (fl_live (rm ++ extra)) l.
Proof.
  induction l as [|x t IH]; [reflexivity|]. cbn [filter].
  destruct (fl_live rm x) eqn:E; cbn [filter]; rewrite live_app, E; cbn [andb].
  - destruct (fl_live extra x); rewrite IH; reflexivity.
  - exact IH.
Qed.

Lemma after_marker_length m l : length (fl_after_marker m l) <= length l.
Proof.
  induction l as [|x t IH]; cbn [fl_after_marker length]; [lia|].
  destruct (opt_nat_eqb (r_mark x) (Some m)); lia.
Qed.

Lemma filter_length {A} (f : A -> bool) l : length (filter f l) <= length l.
Proof. induction l as [|x t IH]; cbn [filter length]; [lia|]. destruct (f x); cbn [length]; lia. Qed.

Lemma resume_length req p r g rest : length (fl_resume req p r g rest) <= length rest.
Proof.
  unfold fl_resume.
  destruct (fl_blocks (g_allow g) p); cbn [length]; [lia|].
  rewrite skipn_length.
  pose proof (filter_length (fl_live (g_rm g)) rest) as F.
  destruct (fl_last_after (if fl_all_match req r then r_acts r else [])) as [m|].
  - pose proof (after_marker_length m (filter (fl_live (g_rm g)) rest)). lia.
  - lia.
Qed.

(* evaluating r keeps the two sides related *)
Lemma evaluate_fire_rel req p r s g :
  rel p s g -> rel p (fl_evaluate req p r s) (fl_fire req p r g).
Proof.
  intros [A (I & D & RM & EN & EV)]. rewrite evaluate_spec. unfold fl_fire, fl_fired_acts, rel, rel_rest. cbn.
  rewrite I, D, RM, EN, EV. repeat split.
  destruct (fl_prefix_eng req (r_links r) (g_eng g)); try exact A.
  destruct (fl_last_allow (if fl_all_match req r then r_acts r else [])); [left; reflexivity | exact A].
Qed.

(* ... and leaves, as residual work, exactly the rewritten agenda *)
Lemma residual_after_evaluate req p r s g rest :
  rel p s g -> s_skip s = 0 -> s_after s = None ->
  residual p (fl_evaluate req p r s) rest =
  fl_resume req p r (fl_fire req p r g) (fl_agenda p (s_rm s) rest).
Proof.
  intros R SK AF.
  pose proof (evaluate_fire_rel req p r s g R) as [A' (_ & _ & RM' & _)].
  unfold residual, fl_resume.
  rewrite (blocks_arel _ _ _ A'), RM'.
  destruct (fl_blocks (g_allow (fl_fire req p r g)) p); [reflexivity|].
  assert (AG : fl_agenda p (g_rm (fl_fire req p r g)) rest =
               filter (fl_live (g_rm (fl_fire req p r g))) (fl_agenda p (s_rm s) rest)).
  { destruct R as [_ (_ & _ & RM & _)]. unfold fl_fire; cbn [g_rm]. rewrite <- RM.
    unfold fl_agenda. rewrite filter_live_app. reflexivity. }
  rewrite AG. rewrite evaluate_spec. cbn [s_skip s_after]. unfold fl_fired_acts, fl_last_skip.
  rewrite SK, AF.
  destruct (fl_last_after (if fl_all_match req r then r_acts r else [])); reflexivity.
Qed.

Lemma loop_refines req p : 1 <= p <= 5 -> forall rest s g f,
  rel p s g -> length (residual p s rest) <= f ->
  rel_post p (fl_eval_loop req p rest s) (fl_spec_go f req p (residual p s rest) g).
Proof.
  intro HP. induction rest as [|r rest IH]; intros s g f R LEN.
  - cbn [fl_eval_loop]. unfold residual, fl_agenda. cbn [filter].
    assert (E : (if fl_blocks (s_allow s) p then []
                 else skipn (s_skip s) match s_after s with Some m => fl_after_marker m [] | None => [] end) = @nil fl_rule).
    { destruct (fl_blocks (s_allow s) p); [reflexivity|]. destruct (s_after s); cbn; destruct (s_skip s); reflexivity. }
    rewrite E, spec_go_nil. apply rel_rel_post; exact R.
  - cbn [fl_eval_loop].
    destruct (fl_halted p s) eqn:HALT.
    { (* interrupted: both sides stop *)
      rewrite spec_go_halted; [apply rel_rel_post; exact R|].
      unfold fl_halted in HALT. destruct R as [_ (I & _)]. rewrite <- I. exact HALT. }
    assert (RES : forall s', s_rm s' = s_rm s -> residual p s' (r :: rest) =
              if fl_in_phase p r then (if fl_live (s_rm s) r then residual p s' (r :: rest) else residual p s' rest)
              else residual p s' rest).
    { intros s' E. unfold residual. rewrite E, agenda_cons.
      destruct (fl_in_phase p r); [|reflexivity]. destruct (fl_live (s_rm s) r); reflexivity. }
    destruct (fl_in_phase p r) eqn:INP; cbn [negb].
    2:{ (* rule of another phase *)
      rewrite (RES s eq_refl) in *. apply IH; assumption. }
    rewrite removed_live. destruct (fl_live (s_rm s) r) eqn:LIVE; cbn [negb].
    2:{ (* removed by ctl:ruleRemoveById *)
      rewrite (RES s eq_refl) in *. apply IH; assumption. }
    clear RES.
    assert (AG : fl_agenda p (s_rm s) (r :: rest) = r :: fl_agenda p (s_rm s) rest).
    { rewrite agenda_cons, INP, LIVE. reflexivity. }
    destruct (s_after s) as [m|] eqn:AF.
    { (* pending skipAfter *)
      destruct (opt_nat_eqb (r_mark r) (Some m)) eqn:MK.
      - assert (E : residual p s (r :: rest) = residual p (set_after None s) rest).
        { unfold residual. cbn [set_after s_rm s_after s_skip s_allow]. rewrite AF, AG.
          cbn [fl_after_marker]. rewrite MK. reflexivity. }
        rewrite E in *. apply IH; [exact R | exact LEN].
      - assert (E : residual p s (r :: rest) = residual p s rest).
        { unfold residual. rewrite AF, AG. cbn [fl_after_marker]. rewrite MK. reflexivity. }
        rewrite E in *. apply IH; assumption. }
    destruct (s_skip s) as [|k] eqn:SK.
    2:{ (* skip counter *)
      assert (E : residual p s (r :: rest) = residual p (set_skip k s) rest).
      { unfold residual. cbn [set_skip s_rm s_after s_skip s_allow]. rewrite AF, SK, AG. reflexivity. }
      rewrite E in *. apply IH; [exact R | exact LEN]. }
    pose proof (allow_break_blocks p s HP) as AB.
    destruct (fl_allow_break p s) as [s'|] eqn:BRK.
    { (* allow in force: break *)
      destruct AB as [BL CASES].
      assert (E : residual p s (r :: rest) = []). { unfold residual. rewrite BL. reflexivity. }
      rewrite E, spec_go_nil.
      destruct CASES as [-> | (-> & AL & ->)]; [apply rel_rel_post; exact R|].
      destruct R as [A RR]. split; [|exact RR].
      right. repeat split.
      destruct A as [A | (H3 & _)]; [|lia]. rewrite <- A. exact AL. }
    (* the rule is evaluated *)
    assert (E : residual p s (r :: rest) = r :: fl_agenda p (s_rm s) rest).
    { unfold residual. rewrite AB, AF, SK, AG. reflexivity. }
    rewrite E in *. cbn [length] in LEN.
    destruct f as [|f]; [lia|].
    cbn [fl_spec_go].
    assert (HG : is_some (g_intr g) && negb (p =? 5) = false).
    { unfold fl_halted in HALT. destruct R as [_ (I & _)]. rewrite <- I. exact HALT. }
    rewrite HG.
    rewrite <- (residual_after_evaluate req p r s g rest R SK AF).
    apply IH.
    + apply evaluate_fire_rel; exact R.
    + rewrite (residual_after_evaluate req p r s g rest R SK AF).
      pose proof (resume_length req p r (fl_fire req p r g) (fl_agenda p (s_rm s) rest)). lia.
Qed.

(* ---- phases ---- *)

Definition clean (s : fl_st) : Prop := s_skip s = 0 /\ s_after s = None.

Lemma end_phase_clean s : clean (fl_end_phase s).
Proof. unfold fl_end_phase. destruct (s_allow s) as [[| |]|]; split; reflexivity. Qed.

Lemma arel_mono p a b : arel p a b -> arel (S p) a b.
Proof. intros [E | (H & A & B)]; [left; exact E | right; repeat split; [lia | exact A | exact B]]. Qed.

Lemma rel_mono p s g : rel p s g -> rel (S p) s g.
Proof. intros [A R]; split; [apply arel_mono; exact A | exact R]. Qed.

Lemma residual_clean p s rs : clean s ->
  residual p s rs = if fl_blocks (s_allow s) p then [] else fl_agenda p (s_rm s) rs.
Proof. intros [SK AF]. unfold residual. rewrite SK, AF. reflexivity. Qed.

Lemma phase_refines req rs p s g : 1 <= p <= 5 -> rel p s g -> clean s ->
  rel (S p) (fl_eval_phase req p rs s) (fl_spec_phase req rs g p)
  /\ clean (fl_eval_phase req p rs s).
Proof.
  intros HP R CL. split; [|apply end_phase_clean].
  unfold fl_eval_phase, fl_spec_phase.
  set (g1 := if fl_blocks (g_allow g) p then g
             else fl_spec_go (length (fl_agenda p (g_rm g) rs)) req p (fl_agenda p (g_rm g) rs) g).
  assert (POST : rel_post p (fl_eval_loop req p rs s) g1).
  { pose proof (loop_refines req p HP rs s g (length (residual p s rs)) R (le_n _)) as L.
    rewrite (residual_clean p s rs CL) in L.
    destruct R as [A (I & D & RM & EN & EV)].
    rewrite (blocks_arel _ _ _ A), RM in L. subst g1.
    destruct (fl_blocks (g_allow g) p); [rewrite spec_go_nil in L|]; exact L. }
  clearbody g1. destruct POST as [A (I & D & RM & EN & EV)].
  set (s1 := fl_eval_loop req p rs s) in *. clearbody s1.
  unfold fl_end_phase, rel, rel_rest.
  assert (HA : arel (S p)
      (s_allow (set_after None (set_skip 0 match s_allow s1 with Some ScPhase => set_allow None s1 | _ => s1 end)))
      (match g_allow g1 with
       | Some ScPhase => None
       | Some ScRequest => if 2 <=? p then None else Some ScRequest
       | a => a
       end)).
  { destruct A as [[A | (H3 & A1 & A2)] | (P2 & A1 & A2)].
    - rewrite <- A. destruct (s_allow s1) as [[| |]|] eqn:E;
        cbn [s_allow set_after set_skip set_allow]; rewrite ?E; try (left; reflexivity).
      destruct (Nat.leb_spec 2 p); [right; repeat split; lia | left; reflexivity].
    - rewrite A1, A2. cbn [s_allow set_after set_skip set_allow]. rewrite A1. right. repeat split. lia.
    - subst p. rewrite A1, A2. cbn [s_allow set_after set_skip set_allow]. rewrite A1. left. reflexivity. }
  split; [exact HA|].
  destruct (s_allow s1) as [[| |]|]; cbn; repeat split; assumption.
Qed.

Lemma rel_off p s g : rel p s g -> fl_is_off (s_eng s) = fl_is_off (g_eng g).
Proof. intros [_ (_ & _ & _ & EN & _)]. rewrite EN. reflexivity. Qed.

Lemma guarded_refines req rs p s g : 1 <= p <= 5 -> rel p s g -> clean s ->
  rel (S p) (fl_guarded_phase req rs s p) (fl_spec_guarded req rs g p)
  /\ clean (fl_guarded_phase req rs s p).
Proof.
  intros HP R CL. unfold fl_guarded_phase, fl_spec_guarded.
  rewrite <- (rel_off p s g R). destruct (fl_is_off (s_eng s)).
  { split; [apply rel_mono; exact R | exact CL]. }
  assert (E : is_some (s_intr s) = is_some (g_intr g)). { destruct R as [_ (I & _)]. rewrite I. reflexivity. }
  rewrite <- E. destruct (is_some (s_intr s)).
  - split; [apply rel_mono; exact R | exact CL].
  - apply phase_refines; assumption.
Qed.

Lemma init_rel eng : rel 1 (fl_init eng) (fl_ginit eng) /\ clean (fl_init eng).
Proof. repeat split. left. reflexivity. Qed.

Theorem refines_spec eng req rs : fl_obs (fl_run eng req rs) = fl_gobs (fl_spec_run eng req rs).
Proof.
  unfold fl_run, fl_spec_run, fl_logging. cbn [fold_left].
  destruct (init_rel eng) as [R1 C1].
  destruct (guarded_refines req rs 1 _ _ ltac:(lia) R1 C1) as [R2 C2].
  destruct (guarded_refines req rs 2 _ _ ltac:(lia) R2 C2) as [R3 C3].
  destruct (guarded_refines req rs 3 _ _ ltac:(lia) R3 C3) as [R4 C4].
  destruct (guarded_refines req rs 4 _ _ ltac:(lia) R4 C4) as [R5 C5].
  rewrite <- (rel_off 5 _ _ R5).
  match goal with |- context [fl_is_off ?e] => destruct (fl_is_off e) end.
  - destruct R5 as [_ (I & D & _ & _ & EV)]. unfold fl_obs, fl_gobs. rewrite I, D, EV. reflexivity.
  - destruct (phase_refines req rs 5 _ _ ltac:(lia) R5 C5) as [[_ (I & D & _ & _ & EV)] _].
    unfold fl_obs, fl_gobs. rewrite I, D, EV. reflexivity.
Qed.

(* ================================================================================== *)
(* theorems about the coded loop                                                       *)
(* ================================================================================== *)

Lemma halted_loop req p l s : fl_halted p s = true -> fl_eval_loop req p l s = s.
Proof. intro H. destruct l; cbn [fl_eval_loop]; [reflexivity | rewrite H; reflexivity]. Qed.

(* ---- no effect across phases ---- *)

(* a rule of another phase is invisible to the loop of phase p: it is not evaluated, not counted by
   skip, not looked at by skipAfter *)
Theorem other_phase_invisible req p r' : fl_in_phase p r' = false -> forall pre post s,
  fl_eval_loop req p (pre ++ r' :: post) s = fl_eval_loop req p (pre ++ post) s.
Proof.
  intros NP. induction pre as [|x pre IH]; intros post s; cbn [app fl_eval_loop].
  - rewrite NP. cbn [negb]. destruct (fl_halted p s) eqn:H; [|reflexivity].
    symmetry. apply halted_loop. exact H.
  - destruct (fl_halted p s); [reflexivity|].
    destruct (negb (fl_in_phase p x)); [apply IH|].
    destruct (fl_removed s x); [apply IH|].
    destruct (s_after s).
    + destruct (opt_nat_eqb (r_mark x) (Some n)); apply IH.
    + destruct (s_skip s); [|apply IH].
      destruct (fl_allow_break p s); [reflexivity | apply IH].
Qed.

(* whatever state a phase starts in, it ends without skip counter, without pending marker and
   without allow:phase *)
Theorem phase_end_boundary req p rs s : fl_boundary (fl_eval_phase req p rs s).
Proof.
  unfold fl_eval_phase, fl_end_phase, fl_boundary.
  destruct (s_allow (fl_eval_loop req p rs s)) as [[| |]|] eqn:E; cbn; rewrite ?E; repeat split; congruence.
Qed.

(* ---- skip ---- *)

Lemma end_phase_set_skip k s : fl_end_phase (set_skip k s) = fl_end_phase s.
Proof. destruct s as [sk af [[| |]|] i d rm ev]; reflexivity. Qed.

Lemma end_phase_set_after m s : fl_end_phase (set_after m s) = fl_end_phase s.
Proof. destruct s as [sk af [[| |]|] i d rm ev]; reflexivity. Qed.

Lemma set_skip_same s : set_skip (s_skip s) s = s.
Proof. destruct s; reflexivity. Qed.

Lemma skip_drop req p : forall rest s, s_after s = None ->
  fl_end_phase (fl_eval_loop req p rest s) =
  fl_end_phase (fl_eval_loop req p (fl_drop_entries p (s_rm s) (s_skip s) rest) (set_skip 0 s)).
Proof.
  induction rest as [|x t IH]; intros s AF.
  - cbn. rewrite end_phase_set_skip. reflexivity.
  - destruct (s_skip s) as [|k] eqn:SK.
    { cbn [fl_drop_entries]. rewrite <- SK, set_skip_same. reflexivity. }
    cbn [fl_drop_entries fl_eval_loop].
    destruct (fl_halted p s) eqn:H.
    { rewrite halted_loop; [rewrite end_phase_set_skip; reflexivity | exact H]. }
    rewrite removed_live.
    destruct (fl_in_phase p x); cbn [negb andb].
    2:{ rewrite (IH s AF), SK. reflexivity. }
    destruct (fl_live (s_rm s) x); cbn [negb].
    2:{ rewrite (IH s AF), SK. reflexivity. }
    rewrite AF, SK.
    rewrite (IH (set_skip k s) AF). reflexivity.
Qed.

Lemma loop_evaluated req p r rest s :
  s_skip s = 0 -> s_after s = None -> fl_halted p s = false -> fl_in_phase p r = true ->
  fl_removed s r = false -> fl_allow_break p s = None ->
  fl_eval_loop req p (r :: rest) s = fl_eval_loop req p rest (fl_evaluate req p r s).
Proof. intros SK AF H IP RM AB. cbn [fl_eval_loop]. rewrite H, IP, RM, AF, SK, AB. reflexivity. Qed.

(* skip:N — the phase goes on exactly as if the next N entries of this phase were not there *)
Theorem skip_exact req p r rest s :
  s_skip s = 0 -> s_after s = None -> fl_halted p s = false -> fl_in_phase p r = true ->
  fl_removed s r = false -> fl_allow_break p s = None ->
  fl_last_after (fl_fired_acts req r) = None ->
  let s1 := fl_evaluate req p r s in
  fl_eval_phase req p (r :: rest) s =
  fl_eval_phase req p (fl_drop_entries p (s_rm s1) (fl_last_skip (fl_fired_acts req r)) rest) (set_skip 0 s1).
Proof.
  intros SK AF H IP RM AB LA s1. unfold fl_eval_phase.
  rewrite loop_evaluated by assumption. fold s1.
  assert (A1 : s_after s1 = None).
  { unfold s1. rewrite evaluate_spec. cbn. rewrite LA. exact AF. }
  assert (S1 : s_skip s1 = fl_last_skip (fl_fired_acts req r)).
  { unfold s1. rewrite evaluate_spec. cbn. unfold fl_last_skip. rewrite SK. reflexivity. }
  rewrite (skip_drop req p rest s1 A1), S1. reflexivity.
Qed.

(* ---- skipAfter ---- *)

Lemma after_drop req p : forall rest s m, s_after s = Some m ->
  fl_end_phase (fl_eval_loop req p rest s) =
  fl_end_phase (fl_eval_loop req p (fl_after_entry p (s_rm s) m rest) (set_after None s)).
Proof.
  induction rest as [|x t IH]; intros s m AF.
  - cbn. rewrite end_phase_set_after. reflexivity.
  - cbn [fl_after_entry fl_eval_loop].
    destruct (fl_halted p s) eqn:H.
    { rewrite halted_loop; [rewrite end_phase_set_after; reflexivity | exact H]. }
    rewrite removed_live.
    destruct (fl_in_phase p x); cbn [negb andb].
    2:{ apply IH; exact AF. }
    destruct (fl_live (s_rm s) x); cbn [negb andb].
    2:{ apply IH; exact AF. }
    rewrite AF. destruct (opt_nat_eqb (r_mark x) (Some m)); [reflexivity|].
    apply IH; exact AF.
Qed.

(* skipAfter:M — the phase resumes after the first later live marker M (a skip count of the same rule
   then applies from there); without such a marker nothing more is evaluated in this phase *)
Theorem skipafter_resume req p r rest s m :
  s_skip s = 0 -> s_after s = None -> fl_halted p s = false -> fl_in_phase p r = true ->
  fl_removed s r = false -> fl_allow_break p s = None ->
  fl_last_after (fl_fired_acts req r) = Some m ->
  let s1 := fl_evaluate req p r s in
  fl_eval_phase req p (r :: rest) s =
  fl_eval_phase req p (fl_after_entry p (s_rm s1) m rest) (set_after None s1).
Proof.
  intros SK AF H IP RM AB LA s1. unfold fl_eval_phase.
  rewrite loop_evaluated by assumption. fold s1.
  assert (A1 : s_after s1 = Some m).
  { unfold s1. rewrite evaluate_spec. cbn. rewrite LA. reflexivity. }
  apply after_drop. exact A1.
Qed.

Corollary skipafter_absent req p r rest s m :
  s_skip s = 0 -> s_after s = None -> fl_halted p s = false -> fl_in_phase p r = true ->
  fl_removed s r = false -> fl_allow_break p s = None ->
  fl_last_after (fl_fired_acts req r) = Some m ->
  let s1 := fl_evaluate req p r s in
  fl_after_entry p (s_rm s1) m rest = [] ->
  fl_eval_phase req p (r :: rest) s = fl_end_phase s1.
Proof.
  intros SK AF H IP RM AB LA s1 E.
  unfold s1 in *. rewrite (skipafter_resume req p r rest s m) by assumption.
  rewrite E. unfold fl_eval_phase. cbn [fl_eval_loop]. apply end_phase_set_after.
Qed.

(* ---- allow ---- *)

Lemma end_phase_obs s : fl_obs (fl_end_phase s) = fl_obs s /\ s_rm (fl_end_phase s) = s_rm s.
Proof. destruct s as [sk af [[| |]|] i d rm ev]; split; reflexivity. Qed.

(* while an allow covering phase p is in force the loop evaluates nothing *)
Lemma blocked_loop req p : 1 <= p <= 5 -> forall rest s,
  fl_blocks (s_allow s) p = true ->
  let s' := fl_eval_loop req p rest s in
  fl_obs s' = fl_obs s /\ s_rm s' = s_rm s /\
  (s_allow s' = s_allow s \/ (p = 2 /\ s_allow s = Some ScRequest /\ s_allow s' = None)).
Proof.
  intro HP. induction rest as [|x t IH]; intros s B; cbn [fl_eval_loop].
  - repeat split. left; reflexivity.
  - destruct (fl_halted p s); [repeat split; left; reflexivity|].
    destruct (negb (fl_in_phase p x)); [apply IH; exact B|].
    destruct (fl_removed s x); [apply IH; exact B|].
    destruct (s_after s).
    + destruct (opt_nat_eqb (r_mark x) (Some n)); [apply (IH (set_after None s) B) | apply (IH s B)].
    + destruct (s_skip s) as [|k]; [|apply (IH (set_skip k s) B)].
      pose proof (allow_break_blocks p s HP) as AB.
      destruct (fl_allow_break p s) as [s'|].
      * destruct AB as [_ [-> | (-> & AL & ->)]].
        -- repeat split. left; reflexivity.
        -- repeat split. right. repeat split. exact AL.
      * congruence.
Qed.

(* an allow covering phase q (bare allow: q <= 4, allow:request: q <= 2, allow:phase: its own phase)
   that is in force when phase q starts: nothing of phase q is evaluated *)
Theorem allow_blocks_phase req q rs s : 1 <= q <= 5 ->
  fl_blocks (s_allow s) q = true ->
  fl_obs (fl_eval_phase req q rs s) = fl_obs s /\ s_rm (fl_eval_phase req q rs s) = s_rm s.
Proof.
  intros HQ B. unfold fl_eval_phase.
  destruct (blocked_loop req q HQ rs s B) as (O & R & _).
  destruct (end_phase_obs (fl_eval_loop req q rs s)) as [O' R'].
  rewrite O', R'. split; assumption.
Qed.

Lemma end_phase_allow s :
  s_allow (fl_end_phase s) = match s_allow s with Some ScPhase => None | a => a end.
Proof. destruct s as [sk af [[| |]|] i d rm ev]; reflexivity. Qed.

(* bare allow stays in force across phases *)
Theorem allow_all_persists req q rs s : 1 <= q <= 4 ->
  s_allow s = Some ScAll -> s_allow (fl_eval_phase req q rs s) = Some ScAll.
Proof.
  intros HQ A. unfold fl_eval_phase.
  assert (B : fl_blocks (s_allow s) q = true).
  { rewrite A. cbn. apply Nat.leb_le. lia. }
  destruct (blocked_loop req q ltac:(lia) rs s B) as (_ & _ & [E | (_ & E & _)]); [|congruence].
  rewrite end_phase_allow, E, A. reflexivity.
Qed.

(* allow:request set in phase 1 is still in force in phase 2 *)
Theorem allow_request_persists req rs s :
  s_allow s = Some ScRequest -> s_allow (fl_eval_phase req 1 rs s) = Some ScRequest.
Proof.
  intros A. unfold fl_eval_phase.
  assert (B : fl_blocks (s_allow s) 1 = true) by (rewrite A; reflexivity).
  destruct (blocked_loop req 1 ltac:(lia) rs s B) as (_ & _ & [E | (E & _)]); [|discriminate].
  rewrite end_phase_allow, E, A. reflexivity.
Qed.

(* the rule that sets an allow covering its own phase is the last one evaluated in that phase *)
Theorem allow_ends_phase req p r rest s sc : 1 <= p <= 5 ->
  s_skip s = 0 -> s_after s = None -> fl_halted p s = false -> fl_in_phase p r = true ->
  fl_removed s r = false -> fl_allow_break p s = None ->
  fl_prefix_eng req (r_links r) (s_eng s) = MOn ->
  fl_last_allow (fl_fired_acts req r) = Some sc -> fl_blocks (Some sc) p = true ->
  let s1 := fl_evaluate req p r s in
  fl_obs (fl_eval_phase req p (r :: rest) s) = fl_obs s1 /\
  s_rm (fl_eval_phase req p (r :: rest) s) = s_rm s1.
Proof.
  intros HP SK AF H IP RM AB EN LA BL s1. unfold fl_eval_phase.
  rewrite loop_evaluated by assumption. fold s1.
  assert (A1 : s_allow s1 = Some sc).
  { unfold s1. rewrite evaluate_spec. cbn. rewrite EN, LA. reflexivity. }
  assert (B : fl_blocks (s_allow s1) p = true) by (rewrite A1; exact BL).
  destruct (blocked_loop req p HP rest s1 B) as (O & R & _).
  destruct (end_phase_obs (fl_eval_loop req p rest s1)) as [O' R'].
  rewrite O', R'. split; assumption.
Qed.

Definition g_of (s : fl_st) : fl_g := mkG (s_allow s) (s_intr s) (s_dintr s) (s_rm s) (s_eng s) (s_ev s).

(* from the response phases on, a carried allow:request is without effect *)
Theorem allow_request_expired req q rs s : 3 <= q <= 5 ->
  s_skip s = 0 -> s_after s = None -> s_allow s = Some ScRequest ->
  fl_obs (fl_eval_phase req q rs s) = fl_obs (fl_eval_phase req q rs (set_allow None s)).
Proof.
  intros HQ SK AF A.
  set (g := g_of (set_allow None s)).
  assert (R1 : rel q s g).
  { split; [right; repeat split; [lia | exact A] | repeat split]. }
  assert (R2 : rel q (set_allow None s) g).
  { split; [left; reflexivity | repeat split]. }
  destruct (phase_refines req rs q s g ltac:(lia) R1 (conj SK AF)) as [[_ (I1 & D1 & _ & _ & E1)] _].
  destruct (phase_refines req rs q (set_allow None s) g ltac:(lia) R2 (conj SK AF)) as [[_ (I2 & D2 & _ & _ & E2)] _].
  unfold fl_obs. rewrite I1, D1, E1, I2, D2, E2. reflexivity.
Qed.

(* ---- the logging phase ---- *)

Definition log_rel (e1 e2 : list fl_event) (s1 s2 : fl_st) : Prop :=
  s_skip s1 = s_skip s2 /\ s_after s1 = s_after s2 /\ s_rm s1 = s_rm s2 /\ s_eng s1 = s_eng s2 /\
  (s_allow s1 = s_allow s2 \/ (s_allow s1 <> Some ScPhase /\ s_allow s2 <> Some ScPhase)) /\
  exists d, s_ev s1 = e1 ++ d /\ s_ev s2 = e2 ++ d.

Lemma allow_break_5_nophase s : s_allow s <> Some ScPhase -> fl_allow_break 5 s = None.
Proof. unfold fl_allow_break. destruct (s_allow s) as [[| |]|]; cbn; congruence. Qed.

Lemma log_rel_set_after e1 e2 s1 s2 m : log_rel e1 e2 s1 s2 -> log_rel e1 e2 (set_after m s1) (set_after m s2).
Proof. intros (A & B & C & D & E & F). repeat split; assumption. Qed.

Lemma log_rel_set_skip e1 e2 s1 s2 k : log_rel e1 e2 s1 s2 -> log_rel e1 e2 (set_skip k s1) (set_skip k s2).
Proof. intros (A & B & C & D & E & F). repeat split; assumption. Qed.

Lemma log_rel_evaluate req r e1 e2 s1 s2 :
  log_rel e1 e2 s1 s2 -> log_rel e1 e2 (fl_evaluate req 5 r s1) (fl_evaluate req 5 r s2).
Proof.
  intros (SK & AF & RM & EN & AL & d & E1 & E2). rewrite !evaluate_spec. unfold log_rel. cbn.
  rewrite SK, AF, RM, EN. repeat split.
  - destruct (fl_prefix_eng req (r_links r) (s_eng s2)); try exact AL.
    destruct (fl_last_allow (fl_fired_acts req r)); [left; reflexivity | exact AL].
  - exists (d ++ [Ev 5 (r_id r) (fl_all_match req r && negb (r_id r =? 0))]).
    rewrite E1, E2, !app_assoc. split; reflexivity.
Qed.

Lemma log_loop req e1 e2 : forall rest s1 s2, log_rel e1 e2 s1 s2 ->
  log_rel e1 e2 (fl_eval_loop req 5 rest s1) (fl_eval_loop req 5 rest s2).
Proof.
  induction rest as [|x t IH]; intros s1 s2 R; cbn [fl_eval_loop]; [exact R|].
  assert (H1 : fl_halted 5 s1 = false) by (unfold fl_halted; cbn; apply andb_false_r).
  assert (H2 : fl_halted 5 s2 = false) by (unfold fl_halted; cbn; apply andb_false_r).
  rewrite H1, H2.
  destruct (negb (fl_in_phase 5 x)); [apply IH; exact R|].
  pose proof R as (SK & AF & RM & EN & AL & EV).
  unfold fl_removed. rewrite RM.
  destruct (existsb (Nat.eqb (r_id x)) (s_rm s2)); [apply IH; exact R|].
  rewrite AF. destruct (s_after s2) as [m|].
  { destruct (opt_nat_eqb (r_mark x) (Some m)); apply IH; [apply log_rel_set_after|]; exact R. }
  rewrite SK. destruct (s_skip s2) as [|k].
  2:{ apply IH. apply log_rel_set_skip. exact R. }
  destruct AL as [AL | [N1 N2]].
  - unfold fl_allow_break. rewrite AL.
    destruct (s_allow s2) as [[| |]|]; cbn; try (apply IH; apply log_rel_evaluate; exact R).
    exact R.
  - rewrite (allow_break_5_nophase s1 N1), (allow_break_5_nophase s2 N2).
    apply IH. apply log_rel_evaluate. exact R.
Qed.

Lemma end_phase_ev s : s_ev (fl_end_phase s) = s_ev s.
Proof. destruct s as [sk af [[| |]|] i d rm e ev]; reflexivity. Qed.

(* whatever allow scope and interruption a transaction carries into the logging phase, the logging
   phase evaluates exactly what a fresh transaction (same per-transaction removals, same engine mode)
   would *)
Theorem logging_independent req rs s : fl_boundary s ->
  s_ev (fl_eval_phase req 5 rs s) = s_ev s ++ s_ev (fl_eval_phase req 5 rs (fl_fresh (s_rm s) (s_eng s))).
Proof.
  intros (SK & AF & NP). unfold fl_eval_phase. rewrite !end_phase_ev.
  assert (R : log_rel (s_ev s) [] s (fl_fresh (s_rm s) (s_eng s))).
  { unfold log_rel, fl_fresh; cbn. repeat split; try assumption.
    - right. split; [exact NP | discriminate].
    - exists []. rewrite app_nil_r. split; reflexivity. }
  destruct (log_loop req _ _ rs _ _ R) as (_ & _ & _ & _ & _ & d & E1 & E2).
  rewrite E1, E2. reflexivity.
Qed.

Lemma guarded_boundary req rs s p : fl_boundary s -> fl_boundary (fl_guarded_phase req rs s p).
Proof.
  intro B. unfold fl_guarded_phase. destruct (fl_is_off (s_eng s)); [exact B|].
  destruct (is_some (s_intr s)); [exact B | apply phase_end_boundary].
Qed.

(* unless the rule engine of the transaction has been switched Off, the logging phase runs *)
Theorem logging_always_runs eng req rs : exists s4,
  fl_boundary s4 /\
  (s_eng s4 <> MOff ->
   fl_run eng req rs = fl_eval_phase req 5 rs s4 /\
   s_ev (fl_run eng req rs) = s_ev s4 ++ s_ev (fl_eval_phase req 5 rs (fl_fresh (s_rm s4) (s_eng s4)))).
Proof.
  exists (fold_left (fl_guarded_phase req rs) [1; 2; 3; 4] (fl_init eng)).
  assert (B : fl_boundary (fold_left (fl_guarded_phase req rs) [1; 2; 3; 4] (fl_init eng))).
  { cbn [fold_left]. repeat apply guarded_boundary. repeat split. discriminate. }
  split; [exact B|]. intro ON.
  assert (E : fl_run eng req rs = fl_eval_phase req 5 rs (fold_left (fl_guarded_phase req rs) [1; 2; 3; 4] (fl_init eng))).
  { unfold fl_run, fl_logging.
    destruct (s_eng (fold_left (fl_guarded_phase req rs) [1; 2; 3; 4] (fl_init eng))); try reflexivity.
    congruence. }
  split; [exact E|]. rewrite E. apply logging_independent. exact B.
Qed.

(* ---- DetectionOnly (the transaction's current mode) ---- *)

(* an allow executed while the transaction's mode is not On changes nothing *)
Theorem allow_not_on_ignored p id s sc : s_eng s <> MOn -> fl_apply_act p id s (AAllow sc) = s.
Proof. intro N. cbn. destruct (s_eng s); [congruence | reflexivity | reflexivity]. Qed.

Lemma fold_strip_allow p id acts : forall s, s_eng s <> MOn ->
  fold_left (fl_apply_act p id) (filter fl_not_allow acts) s = fold_left (fl_apply_act p id) acts s.
Proof.
  induction acts as [|a t IH]; intros s N; [reflexivity|].
  cbn [filter]. destruct a; cbn [fl_not_allow fold_left];
    try (apply IH; rewrite apply_act_eng; exact N).
  rewrite (allow_not_on_ignored p id s sc N). apply IH. exact N.
Qed.

Lemma prefix_eng_no_on req ls : forall e, forallb fl_link_no_on ls = true -> e <> MOn ->
  fl_prefix_eng req ls e <> MOn.
Proof.
  induction ls as [|l t IH]; intros e F N; cbn [fl_prefix_eng]; [exact N|].
  cbn [forallb] in F. apply andb_true_iff in F as [F1 F2].
  destruct (fl_link_matches req l); [|exact N].
  apply IH; [exact F2|]. unfold fl_link_no_on in F1.
  destruct (l_eng l) as [[| |]|]; congruence.
Qed.

Lemma evaluate_eng req p r s : s_eng (fl_evaluate req p r s) = fl_prefix_eng req (r_links r) (s_eng s).
Proof. rewrite evaluate_spec. reflexivity. Qed.

Lemma evaluate_strip_allow req p r s : forallb fl_link_no_on (r_links r) = true -> s_eng s <> MOn ->
  fl_evaluate req p (fl_strip_allow r) s = fl_evaluate req p r s.
Proof.
  intros F N. unfold fl_evaluate, fl_strip_allow. cbn [r_links r_acts r_id].
  rewrite walk_spec. destruct (forallb (fl_link_matches req) (r_links r)); [|reflexivity].
  rewrite fold_strip_allow; [reflexivity|].
  cbn. apply prefix_eng_no_on; assumption.
Qed.

Lemma loop_strip_allow req p : forall rs s, fl_no_switch_on rs = true -> s_eng s <> MOn ->
  fl_eval_loop req p (map fl_strip_allow rs) s = fl_eval_loop req p rs s
  /\ s_eng (fl_eval_loop req p rs s) <> MOn
  /\ (s_allow s = None -> s_allow (fl_eval_loop req p rs s) = None).
Proof.
  induction rs as [|x t IH]; intros s F N; [repeat split; [exact N | auto]|].
  cbn [fl_no_switch_on forallb] in F. apply andb_true_iff in F as [F1 F2].
  cbn [map fl_eval_loop].
  change (fl_in_phase p (fl_strip_allow x)) with (fl_in_phase p x).
  change (fl_removed s (fl_strip_allow x)) with (fl_removed s x).
  change (r_mark (fl_strip_allow x)) with (r_mark x).
  rewrite (evaluate_strip_allow req p x s F1 N).
  destruct (fl_halted p s); [repeat split; [exact N | auto]|].
  destruct (negb (fl_in_phase p x)); [apply (IH s F2 N)|].
  destruct (fl_removed s x); [apply (IH s F2 N)|].
  destruct (s_after s).
  - destruct (opt_nat_eqb (r_mark x) (Some n)); [apply (IH (set_after None s) F2 N) | apply (IH s F2 N)].
  - destruct (s_skip s) as [|k]; [|apply (IH (set_skip k s) F2 N)].
    destruct (fl_allow_break p s) as [s'|] eqn:AB.
    + unfold fl_allow_break in AB.
      repeat split.
      * destruct (s_allow s) as [[| |]|]; try discriminate; try (injection AB as <-; exact N).
        -- destruct (p =? 1); [injection AB as <-; exact N|].
           destruct (p =? 2); [injection AB as <-; exact N | discriminate].
        -- destruct (p =? 5); [discriminate | injection AB as <-; exact N].
      * intro A. rewrite A in AB. discriminate.
    + assert (N' : s_eng (fl_evaluate req p x s) <> MOn).
      { rewrite evaluate_eng. apply prefix_eng_no_on; assumption. }
      destruct (IH (fl_evaluate req p x s) F2 N') as (E1 & E2 & E3).
      repeat split; [exact E1 | exact E2|].
      intro A. apply E3. rewrite evaluate_spec. cbn.
      pose proof (prefix_eng_no_on req (r_links x) (s_eng s) F1 N) as NN.
      destruct (fl_prefix_eng req (r_links x) (s_eng s)); [congruence | exact A | exact A].
Qed.

Lemma end_phase_eng s : s_eng (fl_end_phase s) = s_eng s.
Proof. destruct s as [sk af [[| |]|] i d rm e ev]; reflexivity. Qed.

Lemma phase_strip_allow req p rs s : fl_no_switch_on rs = true -> s_eng s <> MOn ->
  fl_eval_phase req p (map fl_strip_allow rs) s = fl_eval_phase req p rs s
  /\ s_eng (fl_eval_phase req p rs s) <> MOn
  /\ (s_allow s = None -> s_allow (fl_eval_phase req p rs s) = None).
Proof.
  intros F N. unfold fl_eval_phase.
  destruct (loop_strip_allow req p rs s F N) as (E1 & E2 & E3).
  rewrite E1, end_phase_eng. repeat split; [exact E2|].
  intro A. rewrite end_phase_allow, (E3 A). reflexivity.
Qed.

Lemma guarded_strip_allow req rs : fl_no_switch_on rs = true -> forall ps s, s_eng s <> MOn ->
  fold_left (fl_guarded_phase req (map fl_strip_allow rs)) ps s = fold_left (fl_guarded_phase req rs) ps s
  /\ s_eng (fold_left (fl_guarded_phase req rs) ps s) <> MOn
  /\ (s_allow s = None -> s_allow (fold_left (fl_guarded_phase req rs) ps s) = None).
Proof.
  intro F. induction ps as [|p ps IH]; intros s N; [repeat split; [exact N | auto]|].
  cbn [fold_left].
  assert (G : fl_guarded_phase req (map fl_strip_allow rs) s p = fl_guarded_phase req rs s p
              /\ s_eng (fl_guarded_phase req rs s p) <> MOn
              /\ (s_allow s = None -> s_allow (fl_guarded_phase req rs s p) = None)).
  { unfold fl_guarded_phase. destruct (fl_is_off (s_eng s)); [repeat split; [exact N | auto]|].
    destruct (is_some (s_intr s)); [repeat split; [exact N | auto]|].
    apply phase_strip_allow; assumption. }
  destruct G as (G1 & G2 & G3). rewrite G1.
  destruct (IH _ G2) as (I1 & I2 & I3). repeat split; [exact I1 | exact I2|].
  intro A. apply I3, G3, A.
Qed.

(* a transaction that is not in mode On and whose rule set never switches it On (configured
   DetectionOnly, no ctl:ruleEngine=On) is, state for state, the transaction of the same rule set with
   every allow deleted; the allow type is never set *)
Theorem detection_only_allow_ignored eng req rs : eng <> MOn -> fl_no_switch_on rs = true ->
  fl_run eng req (map fl_strip_allow rs) = fl_run eng req rs /\ s_allow (fl_run eng req rs) = None.
Proof.
  intros N F. unfold fl_run.
  destruct (guarded_strip_allow req rs F [1; 2; 3; 4] (fl_init eng) N) as (E1 & E2 & E3).
  rewrite E1. set (s4 := fold_left (fl_guarded_phase req rs) [1; 2; 3; 4] (fl_init eng)) in *.
  unfold fl_logging. destruct (fl_is_off (s_eng s4)); [split; [reflexivity | apply E3; reflexivity]|].
  destruct (phase_strip_allow req 5 rs s4 F E2) as (P1 & _ & P3).
  split; [exact P1 | apply P3, E3; reflexivity].
Qed.

(* ---- chains ---- *)

Lemma walk_all req ls : forall s, forallb (fl_link_matches req) ls = true ->
  fl_walk req ls s = (true, fold_left (fun s l => fl_link_ctl l s) ls s).
Proof.
  induction ls as [|l t IH]; intros s M; cbn [fl_walk fold_left]; [reflexivity|].
  cbn [forallb] in M. apply andb_true_iff in M as [M1 M2]. rewrite M1. apply IH. exact M2.
Qed.

(* every link matched: the starter's flow/disruptive actions are applied once each, in order, after the
   non-disruptive (ctl) actions of all links *)
Theorem chain_all_matched req p r s : fl_all_match req r = true ->
  fl_evaluate req p r s =
  add_ev (Ev p (r_id r) (negb (r_id r =? 0)))
         (fold_left (fl_apply_act p (r_id r)) (r_acts r) (fold_left (fun s l => fl_link_ctl l s) (r_links r) s)).
Proof.
  intro M. unfold fl_evaluate. unfold fl_all_match in M. rewrite (walk_all req _ s M). reflexivity.
Qed.

(* some link did not match: no flow or disruptive action takes effect *)
Theorem chain_not_all_matched req p r s : fl_all_match req r = false ->
  let s' := fl_evaluate req p r s in
  s_skip s' = s_skip s /\ s_after s' = s_after s /\ s_allow s' = s_allow s /\
  s_intr s' = s_intr s /\ s_dintr s' = s_dintr s /\
  s_ev s' = s_ev s ++ [Ev p (r_id r) false].
Proof.
  intro M. cbn zeta. rewrite evaluate_spec. unfold fl_fired_acts. rewrite M. cbn.
  destruct (fl_prefix_eng req (r_links r) (s_eng s)); cbn; repeat split.
Qed.

Lemma walk_strip_link_acts req ls : forall s,
  fl_walk req (map (fun l => mkLink (l_key l) (l_rm l) (l_eng l) []) ls) s = fl_walk req ls s.
Proof.
  induction ls as [|l t IH]; intro s; [reflexivity|].
  cbn [map fl_walk]. unfold fl_link_matches at 1. cbn [l_key].
  change (match l_key l with Some k => nth k req false | None => true end) with (fl_link_matches req l).
  destruct (fl_link_matches req l); [|reflexivity].
  change (fl_link_ctl (mkLink (l_key l) (l_rm l) (l_eng l) []) s) with (fl_link_ctl l s). apply IH.
Qed.

(* flow actions written on chain members never take effect *)
Theorem chain_link_actions_inert req p r s :
  fl_evaluate req p (fl_strip_link_acts r) s = fl_evaluate req p r s.
Proof.
  unfold fl_evaluate, fl_strip_link_acts. cbn [r_links r_acts r_id].
  rewrite walk_strip_link_acts. reflexivity.
Qed.

(* ---- sanity: the specification on the witnesses of the repaired defects F07 / F08 ---- *)

Definition ex_rule (id p : nat) (k : option nat) (acts : list fl_act) : fl_rule :=
  mkRule id p None [mkLink k [] None []] acts.

(* F07: skipAfter to an absent marker in phase 1 passes over the rest of phase 1 only *)
Example spec_skipafter_absent_marker :
  let rs := [ex_rule 1 1 None [ASkipAfter 7]; ex_rule 2 1 (Some 0) []; ex_rule 3 2 None []; ex_rule 4 5 None []] in
  map (fun p => fl_evaluated_in p (g_ev (fl_spec_run MOn [true] rs))) [1; 2; 3; 4; 5] = [[1]; [3]; []; []; [4]]
  /\ fl_obs (fl_run MOn [true] rs) = fl_gobs (fl_spec_run MOn [true] rs).
Proof. vm_compute. split; reflexivity. Qed.

(* F08: bare allow in phase 1 ends phases 1-4, the logging phase runs *)
Example spec_bare_allow_logging :
  let rs := [ex_rule 1 1 (Some 0) [AAllow ScAll]; ex_rule 2 1 None []; ex_rule 3 2 None []; ex_rule 4 5 None []] in
  map (fun p => fl_evaluated_in p (g_ev (fl_spec_run MOn [true] rs))) [1; 2; 3; 4; 5] = [[1]; []; []; []; [4]]
  /\ map (fun p => fl_evaluated_in p (g_ev (fl_spec_run MDet [true] rs))) [1; 2; 3; 4; 5] = [[1; 2]; [3]; []; []; [4]].
Proof. vm_compute. split; reflexivity. Qed.

(* skip:2 counts the marker; the chain starter's skip is withheld when the second link fails *)
Example spec_skip_counts_marker :
  let rs := [mkRule 1 2 None [mkLink (Some 0) [] None []; mkLink (Some 1) [] None []] [ASkip 2];
             fl_marker 0; ex_rule 2 2 None []; ex_rule 3 2 None []] in
  fl_evaluated_in 2 (g_ev (fl_spec_run MOn [true; true] rs)) = [1; 3]
  /\ fl_evaluated_in 2 (g_ev (fl_spec_run MOn [true; false] rs)) = [1; 0; 2; 3].
Proof. vm_compute. split; reflexivity. Qed.

(* seed C08-b shape: a transaction switched to DetectionOnly by ctl:ruleEngine does not enforce allow;
   switched to On under a configured DetectionOnly it does *)
Example spec_allow_follows_transaction_mode :
  let sw m := mkRule 1 1 None [mkLink None [] (Some m) []] [] in
  let rs m := [sw m; ex_rule 2 1 None [AAllow ScAll]; ex_rule 3 1 None []; ex_rule 4 2 None []; ex_rule 5 5 None []] in
  map (fun p => fl_evaluated_in p (s_ev (fl_run MOn [] (rs MDet)))) [1; 2; 3; 4; 5] = [[1; 2; 3]; [4]; []; []; [5]]
  /\ map (fun p => fl_evaluated_in p (s_ev (fl_run MDet [] (rs MOn)))) [1; 2; 3; 4; 5] = [[1; 2]; []; []; []; [5]].
Proof. vm_compute. split; reflexivity. Qed.

(* seed C08-a shape: deny,skip:2 in phase 1 - the skip count does not reach the logging phase *)
Example spec_deny_skip_no_leak :
  let rs := [ex_rule 1 1 None [ADeny; ASkip 2]; ex_rule 2 1 None []; ex_rule 3 5 None []; ex_rule 4 5 None []] in
  map (fun p => fl_evaluated_in p (s_ev (fl_run MOn [] rs))) [1; 2; 3; 4; 5] = [[1]; []; []; []; [3; 4]].
Proof. vm_compute. reflexivity. Qed.

(* ================================================================================== *)
(* removals: ranges, configure time, inherited disruptive actions                      *)
(* ================================================================================== *)

(* the id list standing for ctl:ruleRemoveById=lo-hi has exactly the range's membership test *)
Theorem range_membership id lo hi :
  existsb (Nat.eqb id) (fl_range lo hi) = (lo <=? id) && (id <=? hi).
Proof.
  apply eq_true_iff_eq. rewrite existsb_exists, andb_true_iff, !Nat.leb_le. unfold fl_range. split.
  - intros (x & IN & E). apply Nat.eqb_eq in E. subst x. apply in_seq in IN. lia.
  - intros [A B]. exists id. split; [apply in_seq; lia | apply Nat.eqb_refl].
Qed.

(* ---- SecDefaultAction / block ---- *)

Theorem resolve_inherits da src : existsb fl_sact_is_da src = false ->
  fl_resolve_acts (Some da) src = flat_map fl_sact_keep src ++ match da with Some a => [a] | None => [] end.
Proof. intro H. unfold fl_resolve_acts. rewrite H. reflexivity. Qed.

Theorem resolve_own_da dflt src : existsb fl_sact_is_da src = true ->
  fl_resolve_acts dflt src = flat_map fl_sact_keep src.
Proof. intro H. unfold fl_resolve_acts. destruct dflt; [rewrite H|]; reflexivity. Qed.

Theorem resolve_no_default src : fl_resolve_acts None src = flat_map fl_sact_keep src.
Proof. reflexivity. Qed.

(* block alone with a default deny / allow: the rule acts exactly as if it said deny / allow *)
Theorem resolve_block a flow :
  forallb (fun x => match x with SA (ASkip _) | SA (ASkipAfter _) => true | _ => false end) flow = true ->
  fl_resolve_acts (Some (Some a)) (SBlock :: flow) = flat_map fl_sact_keep flow ++ [a].
Proof.
  intro F. rewrite resolve_inherits; [reflexivity|]. cbn [existsb fl_sact_is_da orb].
  induction flow as [|x t IH]; [reflexivity|]. cbn [forallb] in F. apply andb_true_iff in F as [F1 F2].
  cbn [existsb]. rewrite (IH F2). destruct x as [[| | |]| |]; try discriminate; reflexivity.
Qed.

(* ---- SecRuleRemoveById ---- *)

Theorem delete_range_spec rs lo hi r :
  In r (fl_delete rs (RmRange lo hi)) <-> In r rs /\ ~ (lo <= r_id r <= hi).
Proof.
  cbn [fl_delete]. rewrite filter_In. cbn [fl_rm_hit].
  rewrite negb_true_iff, andb_false_iff, !Nat.leb_gt. split; intros [A B]; (split; [exact A | lia]).
Qed.

(* with unique ids, removing an id removes every rule carrying it and nothing else, order kept *)
Theorem delete_first_unique id rs : NoDup (map r_id rs) ->
  fl_delete_first id rs = filter (fun r => negb (r_id r =? id)) rs.
Proof.
  induction rs as [|r t IH]; intro ND; [reflexivity|].
  cbn [map] in ND. inversion ND as [|? ? NI ND']; subst.
  cbn [fl_delete_first filter]. destruct (r_id r =? id) eqn:E; cbn [negb].
  - apply Nat.eqb_eq in E. symmetry. 
    assert (H : forall x, In x t -> negb (r_id x =? id) = true).
    { intros x IN. apply negb_true_iff, Nat.eqb_neq. intro EQ. apply NI. rewrite E, <- EQ. apply in_map. exact IN. }
    clear -H. induction t as [|y t IH]; [reflexivity|]. cbn [filter].
    rewrite (H y (or_introl eq_refl)). f_equal. apply IH. intros x IN. apply H. right. exact IN.
  - f_equal. apply IH. exact ND'.
Qed.

(* outside that guard (SecMarkers all carry id 0): only the first one goes *)
Example delete_first_only_first :
  fl_delete [fl_marker 1; fl_marker 2; fl_marker 1] (RmId 0) = [fl_marker 2; fl_marker 1].
Proof. reflexivity. Qed.

Lemma configure_from_app defs acc ds1 ds2 :
  fl_configure_from defs acc (ds1 ++ ds2) =
  fl_configure_from (fold_left (fun d x => match x with DDefault p da => d ++ [(p, da)] | _ => d end) ds1 defs)
                    (fl_configure_from defs acc ds1) ds2.
Proof.
  revert defs acc. induction ds1 as [|d t IH]; intros defs acc; [reflexivity|].
  destruct d; cbn [app fl_configure_from fold_left]; apply IH.
Qed.

(* a SecRuleRemoveById at the end of the configuration acts on everything configured before it *)
Theorem configure_remove_last ds l :
  fl_configure (ds ++ [DRemove l]) = fold_left fl_delete l (fl_configure ds).
Proof. unfold fl_configure. rewrite configure_from_app. reflexivity. Qed.

(* a rule read when its phase has a SecDefaultAction deny/allow and that says block (or nothing
   disruptive) is configured with that action behind its own flow actions *)
Theorem configure_rule_last ds r sa :
  fl_configure (ds ++ [DRule r sa]) =
  fl_configure ds ++
  [fl_set_acts r (fl_resolve_acts
     (fl_find_default (fold_left (fun d x => match x with DDefault p da => d ++ [(p, da)] | _ => d end) ds [])
                      (r_phase r)) (fl_collapse sa))].
Proof. unfold fl_configure. rewrite configure_from_app. reflexivity. Qed.

(* ---- several disruptive actions in one action list ---- *)

Definition not_dis (y : fl_sact) : bool := negb (fl_sact_is_dis y).

Lemma filter_not_dis_idem t : filter not_dis (filter (fun y => negb (fl_sact_is_dis y)) t) = filter not_dis t.
Proof.
  induction t as [|y t IH]; [reflexivity|]. cbn [filter]. fold (not_dis y).
  destruct (not_dis y) eqn:Y; cbn [filter]; rewrite ?Y, IH; reflexivity.
Qed.

Lemma filter_dis_not_dis t : filter fl_sact_is_dis (filter (fun y => negb (fl_sact_is_dis y)) t) = [].
Proof.
  induction t as [|y t IH]; [reflexivity|]. cbn [filter].
  destruct (fl_sact_is_dis y) eqn:Y; cbn [negb filter]; rewrite ?Y; exact IH.
Qed.

Lemma place_dis_spec d src : fl_sact_is_dis d = true -> existsb fl_sact_is_dis src = true ->
  filter not_dis (fl_place_dis d src) = filter not_dis src /\
  filter fl_sact_is_dis (fl_place_dis d src) = [d].
Proof.
  intros HD. assert (ND : not_dis d = false) by (unfold not_dis; rewrite HD; reflexivity).
  induction src as [|x t IH]; intro E; [discriminate|].
  cbn [fl_place_dis]. destruct (fl_sact_is_dis x) eqn:X.
  - assert (NX : not_dis x = false) by (unfold not_dis; rewrite X; reflexivity).
    cbn [filter]. rewrite ND, NX, HD, filter_not_dis_idem, filter_dis_not_dis. split; reflexivity.
  - assert (NX : not_dis x = true) by (unfold not_dis; rewrite X; reflexivity).
    cbn [existsb] in E. rewrite X in E. cbn [orb] in E. destruct (IH E) as [A B].
    cbn [filter]. rewrite NX, X, A, B. split; reflexivity.
Qed.

Lemma last_dis_some src d : fl_last_dis src = Some d -> fl_sact_is_dis d = true /\ existsb fl_sact_is_dis src = true.
Proof.
  revert d. induction src as [|x t IH]; intros d H; [discriminate|].
  cbn [fl_last_dis existsb] in *. destruct (fl_last_dis t) as [d'|].
  - injection H as <-. destruct (IH d' eq_refl) as [A B]. rewrite B, orb_true_r. split; [exact A | reflexivity].
  - destruct (fl_sact_is_dis x) eqn:X; [|discriminate]. injection H as <-. split; [exact X | reflexivity].
Qed.

(* the compiled list keeps every non-disruptive action in order and exactly one disruptive action: the
   LAST one written, with its own parameter (allow:phase stays allow:phase) *)
Theorem collapse_spec src :
  filter not_dis (fl_collapse src) = filter not_dis src /\
  filter fl_sact_is_dis (fl_collapse src) = match fl_last_dis src with Some d => [d] | None => [] end.
Proof.
  unfold fl_collapse. destruct (fl_last_dis src) as [d|] eqn:L.
  - destruct (last_dis_some src d L) as [A B]. apply place_dis_spec; assumption.
  - split; [reflexivity|]. induction src as [|x t IH]; [reflexivity|].
    cbn [fl_last_dis] in L. destruct (fl_last_dis t); [discriminate|].
    destruct (fl_sact_is_dis x) eqn:X; [discriminate|]. cbn [filter]. rewrite X. apply IH. reflexivity.
Qed.

Example collapse_keeps_parameter :
  fl_collapse [SPass; SA (ASkip 2); SA (AAllow ScPhase)] = [SA (AAllow ScPhase); SA (ASkip 2)]
  /\ fl_collapse [SA ADeny; SA (AAllow ScRequest)] = [SA (AAllow ScRequest)]
  /\ fl_collapse [SA ADeny; SA (ASkipAfter 1); SBlock] = [SBlock; SA (ASkipAfter 1)].
Proof. repeat split. Qed.

(* ---- a removed rule is as good as absent ---- *)

Definition rm_rel (extra : list nat) (s s' : fl_st) : Prop :=
  s_skip s = s_skip s' /\ s_after s = s_after s' /\ s_allow s = s_allow s' /\ s_intr s = s_intr s' /\
  s_dintr s = s_dintr s' /\ s_eng s = s_eng s' /\ s_ev s = s_ev s' /\
  forall r, fl_live (s_rm s') r = fl_live (s_rm s) r && fl_live extra r.

Lemma rm_rel_evaluate extra req p x s s' : rm_rel extra s s' ->
  rm_rel extra (fl_evaluate req p x s) (fl_evaluate req p x s').
Proof.
  intros (SK & AF & AL & I & D & EN & EV & L). rewrite !evaluate_spec. unfold rm_rel. cbn.
  rewrite SK, AF, AL, I, D, EN, EV. repeat split.
  intro r. rewrite !live_app, L.
  destruct (fl_live (s_rm s) r), (fl_live extra r), (fl_live (fl_prefix_rm req (r_links x)) r); reflexivity.
Qed.

Lemma rm_rel_set_after extra m s s' : rm_rel extra s s' -> rm_rel extra (set_after m s) (set_after m s').
Proof. intros (SK & AF & AL & I & D & EN & EV & L). unfold rm_rel; cbn. repeat split; auto. Qed.
Lemma rm_rel_set_skip extra k s s' : rm_rel extra s s' -> rm_rel extra (set_skip k s) (set_skip k s').
Proof. intros (SK & AF & AL & I & D & EN & EV & L). unfold rm_rel; cbn. repeat split; auto. Qed.
Lemma rm_rel_set_allow extra a s s' : rm_rel extra s s' -> rm_rel extra (set_allow a s) (set_allow a s').
Proof. intros (SK & AF & AL & I & D & EN & EV & L). unfold rm_rel; cbn. repeat split; auto. Qed.

Lemma rm_rel_loop extra req p : forall rs s s', rm_rel extra s s' ->
  rm_rel extra (fl_eval_loop req p (filter (fl_live extra) rs) s) (fl_eval_loop req p rs s').
Proof.
  induction rs as [|x t IH]; intros s s' R; [exact R|].
  pose proof R as (SK & AF & AL & I & D & EN & EV & L).
  assert (HH : fl_halted p s = fl_halted p s') by (unfold fl_halted; rewrite I; reflexivity).
  cbn [filter]. destruct (fl_live extra x) eqn:LX.
  - cbn [fl_eval_loop]. rewrite <- HH. destruct (fl_halted p s); [exact R|].
    destruct (negb (fl_in_phase p x)); [apply IH; exact R|].
    rewrite !removed_live, L, LX, andb_true_r.
    destruct (negb (fl_live (s_rm s) x)); [apply IH; exact R|].
    rewrite <- AF. destruct (s_after s) as [m|].
    { destruct (opt_nat_eqb (r_mark x) (Some m)); apply IH; [|exact R].
      apply rm_rel_set_after. exact R. }
    rewrite <- SK. destruct (s_skip s) as [|k].
    2:{ apply IH. apply rm_rel_set_skip. exact R. }
    unfold fl_allow_break. rewrite <- AL.
    destruct (s_allow s) as [[| |]|] eqn:ALS.
    + exact R.
    + destruct (p =? 1); [exact R|]. destruct (p =? 2).
      * apply rm_rel_set_allow. exact R.
      * apply IH. apply rm_rel_evaluate. exact R.
    + destruct (p =? 5); [|exact R]. apply IH. apply rm_rel_evaluate. exact R.
    + apply IH. apply rm_rel_evaluate. exact R.
  - cbn [fl_eval_loop]. rewrite <- HH. destruct (fl_halted p s) eqn:H.
    { rewrite halted_loop by exact H. exact R. }
    destruct (negb (fl_in_phase p x)); [apply IH; exact R|].
    rewrite removed_live, L, LX, andb_false_r. cbn [negb]. apply IH. exact R.
Qed.

(* evaluating a rule set from which the rules hit by `extra` were deleted (configure time) shows the
   same as evaluating the full rule set in a transaction that starts with `extra` removed (run time):
   removed rules are not evaluated, not counted by skip, not found by skipAfter *)
Theorem removed_as_absent extra req p rs s :
  fl_obs (fl_eval_phase req p (filter (fl_live extra) rs) s) = fl_obs (fl_eval_phase req p rs (add_rm extra s)).
Proof.
  unfold fl_eval_phase.
  assert (R : rm_rel extra s (add_rm extra s)).
  { unfold rm_rel; cbn. repeat split. intro r. apply live_app. }
  destruct (rm_rel_loop extra req p rs s _ R) as (_ & _ & _ & I & D & _ & EV & _).
  destruct (end_phase_obs (fl_eval_loop req p (filter (fl_live extra) rs) s)) as [O1 _].
  destruct (end_phase_obs (fl_eval_loop req p rs (add_rm extra s))) as [O2 _].
  rewrite O1, O2. unfold fl_obs. rewrite I, D, EV. reflexivity.
Qed.
