(* Props/C11.v — the property theorems of C11 and nothing else.
   C11: SecRxPreFilter never changes what @rx matches or captures.
   M w r i j: the regex r (Go's simplified AST) matches the bytes of w from offset i to j;
   re_matches r w: regexp.MatchString; wf_re r: the decidable facts about Go's Unicode tables
   carried by a serialised pattern (checked on every pattern of the correspondence run). *)
From Verif Require Import Base Utf8 Regex RegexProofs Prefilter PrefilterProofs.

(* The AST ranges over every node kind of regexp/syntax: literals (with FoldCase orbits), classes,
   . and (?s)., ^ $ \A \z \b \B, empty and no-match, captures, * + ? (greedy or not: same match
   set), counted repetition {n,m} / {n,} (Rep; present before Simplify), n-ary concatenation and
   alternation.  All theorems below quantify over all such ASTs. *)

(* counted repetition: between mn and mx iterations of the body, one after the other *)
Theorem C11_repeat_semantics : forall w f mn mx a i j, M w (Rep f mn mx a) i j <->
  exists n, ML w (repeat a n) i j /\ (mn <= n)%nat /\ match mx with Some m => (n <= m)%nat | None => True end.
Proof. exact M_rep_iff. Qed.
Print Assumptions C11_repeat_semantics.

(* the main theorem: when the prefilter closure answers "cannot match", the regex has no match *)
Theorem C11_prefilter_sound : forall r w,
  wf_re r = true -> prefilter r w = false -> ~ re_matches r w.
Proof. exact prefilter_sound. Qed.
Print Assumptions C11_prefilter_sound.

(* the same without the restriction of match starts to decode boundaries *)
Theorem C11_prefilter_sound_any_start : forall r w,
  wf_re r = true -> prefilter r w = false -> forall i j, (i <= length w)%nat -> ~ M w r i j.
Proof. exact prefilter_sound_M. Qed.
Print Assumptions C11_prefilter_sound_any_start.

(* minLen: every match is at least min_len r bytes long *)
Theorem C11_minlen_sound : forall w r i j,
  wf_re r = true -> M w r i j -> (i + min_len r <= j)%nat.
Proof. exact min_len_sound. Qed.
Print Assumptions C11_minlen_sound.

(* extractLiterals: every allRequired literal / some anyRequired literal occurs inside every
   matched segment (exactly, or ASCII-case-insensitively on ASCII input when any node has (?i)) *)
Theorem C11_literals_sound : forall r w i j,
  wf_re r = true -> (has_flag r = true -> is_ascii w = true) -> M w r i j ->
  lits_hold (has_flag r) w i j (extract_literals r (has_flag r)).
Proof. exact literals_sound. Qed.
Print Assumptions C11_literals_sound.

(* trie reconstruction only produces needles that occur in every match *)
Theorem C11_trie_sound : forall ci w f l i j T,
  mode_ok ci w (Cat f l) -> ML w l i j -> trie_reconstruct l ci = Some T -> Exists (occ_in ci w i j) T.
Proof. exact trie_sound. Qed.
Print Assumptions C11_trie_sound.

(* the anchored tests: the literal after \A sits at offset 0, the literal before \z ends the input *)
Theorem C11_anchor_prefix_sound : forall ci w r i j,
  mode_ok ci w r -> M w r i j -> lit_after_begin r ci <> [] ->
  i = 0%nat /\ seg_at ci w 0 (lit_after_begin r ci).
Proof. exact lit_after_begin_sound. Qed.
Print Assumptions C11_anchor_prefix_sound.

Theorem C11_anchor_suffix_sound : forall ci w r i j,
  mode_ok ci w r -> M w r i j -> (i <= length w)%nat -> lit_before_end r ci <> [] ->
  j = length w /\ (length (lit_before_end r ci) <= length w)%nat
  /\ seg_at ci w (length w - length (lit_before_end r ci)) (lit_before_end r ci).
Proof. exact lit_before_end_sound. Qed.
Print Assumptions C11_anchor_suffix_sound.

(* the matchers never miss an occurrence: the Wu-Manber style scan with its uint8 shift table
   (any number and length of non-empty needles), containsFoldASCII *)
Theorem C11_indexed_matcher_sound : forall needles ci s p n,
  In n needles -> (forall n', In n' needles -> n' <> []) -> seg_at ci s p n ->
  im_match (new_indexed needles ci) s = true.
Proof. exact im_match_complete. Qed.
Print Assumptions C11_indexed_matcher_sound.

Theorem C11_contains_fold_sound : forall s p n, seg_at true s p n -> contains_fold_ascii s n = true.
Proof. exact contains_fold_ascii_of_seg. Qed.
Print Assumptions C11_contains_fold_sound.

(* the exact-match fast path decides exactly what the compiled pattern decides (newline-free input) *)
Theorem C11_exact_path_sound : forall r0 r rs ci w,
  wf_re r = true -> exact_rel r0 r = true -> extract_exact r0 = Some (rs, ci) -> memN 10 w = false ->
  ((exists i j, (i <= length w)%nat /\ M w r i j) <-> exact_eq ci w rs = true).
Proof. exact exact_path_sound. Qed.
Print Assumptions C11_exact_path_sound.

(* the property: for an engine that agrees with the semantics (reports a match iff there is one,
   group 0 a matched segment, one group per capture node), rx.Evaluate gives the same result and
   the same captured fields with the prefilter artefacts as without them *)
Theorem C11_same_result_and_captures : forall r r0 engine,
  wf_re r = true -> exact_rel r0 r = true ->
  (forall w g, engine w = Some g ->
     length g = S (num_caps r) /\
     exists i j, In i (boundaries w) /\ M w r i j /\ nth_error g 0 = Some (Some (firstn (j - i) (skipn i w)))) ->
  (forall w, re_matches r w -> engine w <> None) ->
  forall capturing w,
    evaluate engine (rx_compile true r r0) capturing w = evaluate engine (rx_compile false r r0) capturing w.
Proof. exact same_result_and_captures. Qed.
Print Assumptions C11_same_result_and_captures.

(* the executable semantics that the correspondence compares with Go's engine IS the declarative one *)
Theorem C11_exec_semantics_exact : forall r w, re_matchb r w = true <-> re_matches r w.
Proof. exact re_matchb_exact. Qed.
Print Assumptions C11_exec_semantics_exact.
