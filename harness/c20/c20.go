// Package c20 drives the correspondence for C20 (failures are reported, never swallowed, and no
// temporary file is left behind): FAULT ENUMERATION over the real Transaction.  For generated
// transactions (memory / disk buffered bodies, urlencoded / JSON / multipart with 0..3 uploads,
// every keep-files mode, serial / concurrent audit log) every injectable file-system operation
// is made to fail in turn and the transaction is abandoned after every prefix of its calls, then
// closed.  Faults are injected WITHOUT rewriting code:
//
//	fsize     RLIMIT_FSIZE lowered around one call with SIGXFSZ ignored: writes beyond the limit
//	          return EFBIG after a short write (spill file, upload copy, audit log)
//	hswap     the spill file's *os.File (exposed by the add-only hook VerifC20Spill) is made a closed
//	          handle for the duration of one call: Write / ReadAt / Close on it fail
//	tmpdir    TmpDir moved away during one call: CreateTemp and Remove fail (the file stays)
//	updir     the same for UploadDir
//	rmspill   the spill file is removed before Close: Remove fails, nothing is left
//	rmup      the registered upload files are removed before Close
//	auditdir  the concurrent writer's storage directory replaced by a regular file: MkdirAll fails
//	idx       the concurrent writer's index file is beyond the file size limit, the record is not
//
// Observed after every call: returned error / interruption, error variables, Error and Warn
// debug-log entries (capturing logger), buffer state, listing of TmpDir and UploadDir, open file
// descriptors; after Close the same plus the state of the recycled object and a probe transaction
// on it.  Everything is compared with the Gallina model (Faults.v) evaluated under the same
// injections, and the property's statement is checked directly on the observations (oracles).
package c20

import (
	"bytes"
	"encoding/hex"
	"encoding/json"
	"errors"
	"fmt"
	"io"
	"math/rand"
	"mime"
	"mime/multipart"
	"os"
	"os/signal"
	"path/filepath"
	"sort"
	"strings"
	"syscall"

	"github.com/tidwall/gjson"

	"github.com/corazawaf/coraza/v3/debuglog"
	"github.com/corazawaf/coraza/v3/internal/corazawaf"
	"github.com/corazawaf/coraza/v3/internal/seclang"
	"github.com/corazawaf/coraza/v3/types"
	"github.com/corazawaf/coraza/v3/verifharness/vh"
)

func init() { vh.Register("C20", Run) }

// ---- case description -------------------------------------------------------------------

type cfgJ struct {
	Limit   int64  `json:"limit"`
	Mem     int64  `json:"mem"`
	Reject  bool   `json:"reject"`
	Keep    string `json:"keep"`  // off | relevant | on
	Proc    string `json:"proc"`  // none | url | json | multipart
	Audit   string `json:"audit"` // off | serial | concurrent
	AuditC  bool   `json:"auditc"`
	Deny    int    `json:"deny"`
	LogRule bool   `json:"logrule"`
}

type callJ struct {
	K string `json:"k"` // h | w | p | l
	N int    `json:"n,omitempty"`
}

type faultJ struct {
	At    int    `json:"at"` // call index; len(calls) = Close
	M     string `json:"m"`
	Limit int64  `json:"limit,omitempty"`
	Idx   int    `json:"idx,omitempty"` // rmup1: which entry of FILES_TMPNAMES is removed before Close
}

type caseJ struct {
	Name   string   `json:"name,omitempty"`
	Cfg    cfgJ     `json:"cfg"`
	PreTmp []int    `json:"pre_tmp,omitempty"`
	PreUp  []int    `json:"pre_up,omitempty"`
	Body   string   `json:"body_hex"`
	Calls  []callJ  `json:"calls"`
	Faults []faultJ `json:"faults,omitempty"`
	// observed (informative in replays)
	Obs        []obsJ   `json:"obs,omitempty"`
	Fin        *finJ    `json:"fin,omitempty"`
	Applied    []string `json:"applied_injections,omitempty"`
	FindingKey string   `json:"finding_key,omitempty"`
}

type obsJ struct {
	Err, Intr                        bool
	Phase                            int
	Inbound, RbErr, RbPErr, MpStrict bool
	P2                               int
	E                                bool
	NTmp, NFiles                     int
	Len, MemLen                      int
	Spilled                          bool
	Logs                             []string
	Tmp, Up                          []int
	Open                             int
	ErrText                          string `json:",omitempty"`
	Panic                            string `json:",omitempty"`
	Chunk                            int    `json:",omitempty"` // bytes offered by this call (w)
}

type finJ struct {
	Ok      bool
	Tmp, Up []int
	Open    int
	Clean   bool
	ErrText string `json:",omitempty"`
	Panic   string `json:",omitempty"`
}

const boundary = "BnD"

// ---- WAF environments -------------------------------------------------------------------

type wafEnv struct {
	waf      *corazawaf.WAF
	base     string
	tmp, up  string
	auditDir string
	logbuf   *bytes.Buffer
}

type env struct {
	base string
	wafs map[string]*wafEnv
	n    int
}

func (c cfgJ) key() string {
	return fmt.Sprintf("%d|%d|%v|%s|%s|%s|%v|%d|%v", c.Limit, c.Mem, c.Reject, c.Keep, c.Proc, c.Audit, c.AuditC, c.Deny, c.LogRule)
}

const idxPrefill = 65536
const idxLimit = 32768

func (e *env) get(c cfgJ) (*wafEnv, error) {
	if w, ok := e.wafs[c.key()]; ok {
		return w, nil
	}
	if len(e.wafs) > 400 {
		for _, w := range e.wafs {
			w.waf.Close()
			os.RemoveAll(w.base)
		}
		e.wafs = map[string]*wafEnv{}
	}
	e.n++
	base := filepath.Join(e.base, fmt.Sprintf("w%d", e.n))
	we := &wafEnv{base: base, tmp: filepath.Join(base, "tmp"), up: filepath.Join(base, "up"), auditDir: filepath.Join(base, "audit"), logbuf: &bytes.Buffer{}}
	for _, d := range []string{we.tmp, we.up, we.auditDir} {
		if err := os.MkdirAll(d, 0o755); err != nil {
			return nil, err
		}
	}
	waf := corazawaf.NewWAF()
	waf.TmpDir = we.tmp
	waf.Logger = debuglog.Default().WithOutput(we.logbuf).WithLevel(debuglog.LevelWarn)
	waf.RequestBodyAccess = true
	waf.RequestBodyLimit = c.Limit
	waf.SetRequestBodyInMemoryLimit(c.Mem)
	if c.Reject {
		waf.RequestBodyLimitAction = types.BodyLimitActionReject
	} else {
		waf.RequestBodyLimitAction = types.BodyLimitActionProcessPartial
	}
	var b strings.Builder
	fmt.Fprintf(&b, "SecUploadDir %s\n", we.up)
	switch c.Keep {
	case "on":
		b.WriteString("SecUploadKeepFiles On\n")
	case "relevant":
		b.WriteString("SecUploadKeepFiles RelevantOnly\n")
	default:
		b.WriteString("SecUploadKeepFiles Off\n")
	}
	parts := "ABFHZ"
	if c.AuditC {
		parts = "ABCFHZ"
	}
	switch c.Audit {
	case "serial":
		fmt.Fprintf(&b, "SecAuditEngine On\nSecAuditLogParts %s\nSecAuditLogFormat Native\nSecAuditLogType Serial\nSecAuditLog %s\n", parts, filepath.Join(base, "audit.log"))
	case "concurrent":
		idx := filepath.Join(base, "audit.idx")
		if err := os.WriteFile(idx, bytes.Repeat([]byte("#"), idxPrefill), 0o644); err != nil {
			return nil, err
		}
		fmt.Fprintf(&b, "SecAuditEngine On\nSecAuditLogParts %s\nSecAuditLogFormat Native\nSecAuditLogType Concurrent\nSecAuditLog %s\nSecAuditLogStorageDir %s\n", parts, idx, we.auditDir)
	default:
		b.WriteString("SecAuditEngine Off\n")
	}
	if c.Proc == "json" {
		b.WriteString("SecAction \"id:10,phase:1,pass,nolog,ctl:requestBodyProcessor=JSON\"\n")
	}
	lg := "nolog"
	if c.LogRule {
		lg = "log"
	}
	fmt.Fprintf(&b, "SecRule REQBODY_ERROR \"@eq 1\" \"id:1,phase:2,pass,%s,setvar:tx.e=1\"\n", lg)
	b.WriteString("SecAction \"id:2,phase:2,pass,nolog,setvar:tx.p=+1\"\n")
	if c.Deny == 1 || c.Deny == 2 {
		fmt.Fprintf(&b, "SecAction \"id:3,phase:%d,deny,status:403,nolog\"\n", c.Deny)
	}
	if err := seclang.NewParser(waf).FromString(b.String()); err != nil {
		return nil, fmt.Errorf("rules: %w\n%s", err, b.String())
	}
	if c.Audit != "off" {
		if err := waf.InitAuditLogWriter(); err != nil {
			return nil, fmt.Errorf("InitAuditLogWriter: %w", err)
		}
	}
	if err := waf.Validate(); err != nil {
		return nil, fmt.Errorf("Validate: %w", err)
	}
	we.waf = waf
	e.wafs[c.key()] = we
	return we, nil
}

// ---- helpers ----------------------------------------------------------------------------

func dirSizes(dir string) []int {
	es, _ := os.ReadDir(dir)
	out := []int{}
	for _, e := range es {
		fi, err := e.Info()
		if err == nil && !fi.IsDir() {
			out = append(out, int(fi.Size()))
		}
	}
	sort.Ints(out)
	return out
}

func dirNames(dir string) []string {
	es, _ := os.ReadDir(dir)
	out := []string{}
	for _, e := range es {
		out = append(out, e.Name())
	}
	sort.Strings(out)
	return out
}

// fdCount counts the open descriptors of this process that point into the WAF's TmpDir or
// UploadDir (moved-away directories and deleted files included): the handles a transaction may own.
func fdCount(we *wafEnv) int {
	es, _ := os.ReadDir("/proc/self/fd")
	n := 0
	for _, e := range es {
		t, err := os.Readlink("/proc/self/fd/" + e.Name())
		if err == nil && (strings.HasPrefix(t, we.tmp) || strings.HasPrefix(t, we.up)) {
			n++
		}
	}
	return n
}

func withLimit(l int64, f func()) {
	var old syscall.Rlimit
	_ = syscall.Getrlimit(syscall.RLIMIT_FSIZE, &old)
	_ = syscall.Setrlimit(syscall.RLIMIT_FSIZE, &syscall.Rlimit{Cur: uint64(l), Max: old.Max})
	defer func() { _ = syscall.Setrlimit(syscall.RLIMIT_FSIZE, &old) }()
	f()
}

func classify(line string) string {
	switch {
	case strings.Contains(line, "Failed to process request body"):
		return "LgProc"
	case strings.Contains(line, "Failed to write audit log"):
		return "LgAudit"
	case strings.Contains(line, "Failed to read the request body for the audit log"):
		return "LgAuditBody"
	case strings.Contains(line, "there is a preexisting interruption"):
		return "LgPre"
	case strings.Contains(line, "ProcessRequestHeaders has already been called"):
		return "LgAlready"
	case strings.Contains(line, "Skipping anomalous call to ProcessRequestBody"):
		return "LgAnom"
	case strings.Contains(line, "Disrupting transaction with body size above"):
		return "LgReject"
	case strings.Contains(line, "Processing request body whose size reached"):
		return "LgPartial"
	}
	return "LgOther:" + line
}

func takeLogs(buf *bytes.Buffer) []string {
	out := []string{}
	for _, ln := range strings.Split(buf.String(), "\n") {
		if strings.Contains(ln, "[ERROR]") || strings.Contains(ln, "[WARN]") {
			out = append(out, classify(ln))
		}
	}
	buf.Reset()
	return out
}

func atoi(s string) int {
	n := 0
	fmt.Sscanf(s, "%d", &n)
	return n
}

// independent parse of the stored body (what the third-party parser says about it): the parts
// the multipart loop would see and whether the parser ends without error
type partJ struct {
	File bool
	Size int
}

func parseMultipart(body []byte) ([]partJ, bool) {
	mr := multipart.NewReader(bytes.NewReader(body), boundary)
	var parts []partJ
	for {
		p, err := mr.NextPart()
		if err == io.EOF {
			return parts, true
		}
		if err != nil {
			return parts, false
		}
		fn := ""
		if _, dp, e := mime.ParseMediaType(p.Header.Get("Content-Disposition")); e == nil {
			fn = dp["filename"]
		}
		n, cerr := io.Copy(io.Discard, p)
		if cerr != nil && !errors.Is(cerr, io.ErrUnexpectedEOF) {
			// the processor returns this error after having created (and registered) the file
			parts = append(parts, partJ{File: fn != "", Size: int(n)})
			return parts, false
		}
		parts = append(parts, partJ{File: fn != "", Size: int(n)})
		if cerr != nil {
			return parts, true // unexpected EOF inside a part: recorded, loop left, no error
		}
	}
}

// ---- running one case ---------------------------------------------------------------------

type runOut struct {
	obs     []obsJ
	fin     finJ
	injs    []string // Coq terms of the injections that were applied
	applied []string
	parts   []partJ
	pok     bool
	oracle  []vh.OracleFailure
	samePtr bool
	effects map[string]bool
}

func contentType(p string) string {
	switch p {
	case "url":
		return "application/x-www-form-urlencoded"
	case "json":
		return "application/json"
	case "multipart":
		return "multipart/form-data; boundary=" + boundary
	}
	return ""
}

func observe(tx *corazawaf.Transaction, we *wafEnv, baseFD int) obsJ {
	v := tx.Variables()
	l, m, sp, _ := tx.VerifC20BufferState(false)
	p2 := 0
	if g := v.TX().Get("p"); len(g) > 0 {
		p2 = atoi(g[0])
	}
	e := false
	if g := v.TX().Get("e"); len(g) > 0 && g[0] == "1" {
		e = true
	}
	return obsJ{
		Phase:   int(tx.LastPhase()),
		Inbound: v.InboundDataError().Get() == "1", RbErr: v.RequestBodyError().Get() == "1",
		RbPErr: v.RequestBodyProcessorError().Get() == "1", MpStrict: v.MultipartStrictError().Get() == "1",
		P2: p2, E: e,
		NTmp: len(v.FilesTmpNames().Get("")), NFiles: len(v.Files().Get("")),
		Len: int(l), MemLen: m, Spilled: sp,
		Tmp: dirSizes(we.tmp), Up: dirSizes(we.up), Open: fdCount(we) - baseFD,
	}
}

type undo func()

// applyFault prepares the fault f for the coming call (index at) and returns the Coq injection
// terms describing what was really set up, a wrapper for the call and an undo function.
func applyFault(f faultJ, at int, tx *corazawaf.Transaction, we *wafEnv, c cfgJ, isClose bool) (terms []string, wrap func(func()), un undo, note string) {
	wrap = func(g func()) { g() }
	un = func() {}
	fail := func(kind, tgt string, gone int) string {
		return fmt.Sprintf("InjFail %d %s %s %d", at, kind, tgt, gone)
	}
	switch f.M {
	case "fsize":
		wrap = func(g func()) { withLimit(f.Limit, g) }
		terms = append(terms, fmt.Sprintf("InjLimit %d TSpill %d", at, f.Limit), fmt.Sprintf("InjLimit %d TUpload %d", at, f.Limit))
		// the audit writes of a logging call under a limit of 0 fail as a whole
		if f.Limit == 0 {
			terms = append(terms, fail("OWrite", "TAuditSerial", 0), fail("OWrite", "TAuditRec", 0))
		}
		note = fmt.Sprintf("fsize=%d", f.Limit)
	case "idx":
		wrap = func(g func()) { withLimit(idxLimit, g) }
		terms = append(terms, fail("OWrite", "TAuditIdx", 0),
			fmt.Sprintf("InjLimit %d TSpill %d", at, idxLimit), fmt.Sprintf("InjLimit %d TUpload %d", at, idxLimit))
		note = "idx"
	case "hswap":
		fh, name := tx.VerifC20Spill(false)
		if fh == nil {
			return nil, wrap, un, ""
		}
		g, err := os.Open(name)
		if err != nil {
			return nil, wrap, un, ""
		}
		g.Close()
		saved := *fh
		*fh = *g
		un = func() {
			*fh = saved
			if isClose {
				fh.Close() // the buffer dropped the handle: release the descriptor it really held
			}
		}
		terms = append(terms, fail("OWrite", "TSpill", 0), fail("ORead", "TSpill", 0), fail("OClose", "TSpill", 0), fail("ORead", "TSpillAudit", 0))
		note = "hswap"
	case "tmpdir":
		away := we.tmp + ".away"
		if os.Rename(we.tmp, away) != nil {
			return nil, wrap, un, ""
		}
		un = func() { os.Rename(away, we.tmp) }
		terms = append(terms, fail("OCreate", "TSpill", 0), fail("ORemove", "TSpill", 0))
		note = "tmpdir"
	case "updir":
		away := we.up + ".away"
		if os.Rename(we.up, away) != nil {
			return nil, wrap, un, ""
		}
		un = func() { os.Rename(away, we.up) }
		terms = append(terms, fail("OCreate", "TUpload", 0), fail("ORemove", "TUpload", 0))
		note = "updir"
	case "rmspill":
		_, name := tx.VerifC20Spill(false)
		if name == "" || !isClose {
			return nil, wrap, un, ""
		}
		os.Remove(name)
		terms = append(terms, fail("ORemove", "TSpill", 1))
		note = "rmspill"
	case "rmup":
		names := tx.Variables().FilesTmpNames().Get("")
		keep := c.Keep == "on" || (c.Keep == "relevant" && c.LogRule && len(tx.Variables().TX().Get("e")) > 0 && tx.Variables().TX().Get("e")[0] == "1")
		if len(names) == 0 || !isClose || keep {
			return nil, wrap, un, ""
		}
		for _, n := range names {
			os.Remove(n)
		}
		terms = append(terms, fail("ORemove", "TUpload", 1))
		note = "rmup"
	case "rmup1":
		// exactly ONE registered upload file disappears before Close (a tmp cleaner): its Remove
		// fails, every other entry must still be removed and the error reported
		names := tx.Variables().FilesTmpNames().Get("")
		keep := c.Keep == "on" || (c.Keep == "relevant" && c.LogRule && len(tx.Variables().TX().Get("e")) > 0 && tx.Variables().TX().Get("e")[0] == "1")
		if f.Idx >= len(names) || !isClose || keep {
			return nil, wrap, un, ""
		}
		os.Remove(names[f.Idx])
		terms = append(terms, fmt.Sprintf("InjFailAt %d ORemove TUpload %d 1", at, f.Idx))
		note = "rmup1"
	case "auditdir":
		away := we.auditDir + ".away"
		if os.Rename(we.auditDir, away) != nil {
			return nil, wrap, un, ""
		}
		os.WriteFile(we.auditDir, []byte("x"), 0o644)
		un = func() { os.Remove(we.auditDir); os.Rename(away, we.auditDir) }
		terms = append(terms, fail("OCreate", "TAuditRec", 0))
		note = "auditdir"
	}
	return
}

func cleanDir(d string) {
	es, _ := os.ReadDir(d)
	for _, e := range es {
		os.RemoveAll(filepath.Join(d, e.Name()))
	}
}

func runCase(e *env, c *caseJ) (*runOut, error) {
	we, err := e.get(c.Cfg)
	if err != nil {
		return nil, err
	}
	out := &runOut{pok: true, effects: map[string]bool{}}
	body, _ := hex.DecodeString(c.Body)
	// the directories start with the pre-existing files only
	os.Rename(we.tmp+".away", we.tmp)
	os.Rename(we.up+".away", we.up)
	cleanDir(we.tmp)
	cleanDir(we.up)
	for i, n := range c.PreTmp {
		os.WriteFile(filepath.Join(we.tmp, fmt.Sprintf("pre%d", i)), bytes.Repeat([]byte{0}, n), 0o644)
	}
	for i, n := range c.PreUp {
		os.WriteFile(filepath.Join(we.up, fmt.Sprintf("pre%d", i)), bytes.Repeat([]byte{0}, n), 0o644)
	}
	preTmpNames, preUpNames := dirNames(we.tmp), dirNames(we.up)
	we.logbuf.Reset()
	baseFD := fdCount(we)
	tx := we.waf.NewTransaction()
	if ct := contentType(c.Cfg.Proc); ct != "" {
		tx.AddRequestHeader("Content-Type", ct)
	}
	tx.AddRequestHeader("Host", "example.com")
	rest := body
	parsed := false
	for i, k := range c.Calls {
		var o obsJ
		var terms []string
		wraps := []func(func()){}
		undos := []undo{}
		notes := []string{}
		for _, f := range c.Faults {
			if f.At != i {
				continue
			}
			t, w, u, note := applyFault(f, i, tx, we, c.Cfg, false)
			if note == "" {
				continue
			}
			terms = append(terms, t...)
			wraps = append(wraps, w)
			undos = append(undos, u)
			notes = append(notes, fmt.Sprintf("%d:%s", i, note))
		}
		phaseBefore := int(tx.LastPhase())
		var rerr error
		var intr *types.Interruption
		var pan any
		chunk := 0
		call := func() {
			defer func() { pan = recover() }()
			switch k.K {
			case "h":
				intr = tx.ProcessRequestHeaders()
			case "w":
				n := k.N
				if n > len(rest) {
					n = len(rest)
				}
				chunk = n
				intr, _, rerr = tx.WriteRequestBody(rest[:n])
				rest = rest[n:]
			case "p":
				intr, rerr = tx.ProcessRequestBody()
			case "l":
				tx.ProcessLogging()
			}
		}
		wrapped := call
		for _, w := range wraps {
			inner, ww := wrapped, w
			wrapped = func() { ww(inner) }
		}
		wrapped()
		for j := len(undos) - 1; j >= 0; j-- {
			undos[j]()
		}
		o = observe(tx, we, baseFD)
		o.Err, o.Intr = rerr != nil, intr != nil
		o.Chunk = chunk
		if rerr != nil {
			o.ErrText = rerr.Error()
		}
		o.Logs = takeLogs(we.logbuf)
		if pan != nil {
			o.Panic = fmt.Sprint(pan)
			out.oracle = append(out.oracle, vh.OracleFailure{Key: "c20-panic", What: fmt.Sprintf("call %d (%s) panicked: %v", i, k.K, pan), Case: c})
		}
		out.obs = append(out.obs, o)
		out.injs = append(out.injs, terms...)
		out.applied = append(out.applied, notes...)
		// what the parser says about the stored body, read right after the call that processed it
		if !parsed && phaseBefore == 1 && o.Phase == 2 {
			parsed = true
			if rd, err := tx.RequestBodyReader(); err == nil {
				if stored, err := io.ReadAll(rd); err == nil {
					switch c.Cfg.Proc {
					case "multipart":
						out.parts, out.pok = parseMultipart(stored)
					case "json":
						out.pok = gjson.Valid(string(stored))
					}
					out.effects["stored_len"] = true
				}
			}
		}
	}
	// Close
	{
		at := len(c.Calls)
		var terms []string
		wraps := []func(func()){}
		undos := []undo{}
		for _, f := range c.Faults {
			if f.At != at {
				continue
			}
			t, w, u, note := applyFault(f, at, tx, we, c.Cfg, true)
			if note == "" {
				continue
			}
			terms = append(terms, t...)
			wraps = append(wraps, w)
			undos = append(undos, u)
			out.applied = append(out.applied, fmt.Sprintf("%d:%s", at, note))
		}
		var cerr error
		var pan any
		call := func() {
			defer func() { pan = recover() }()
			cerr = tx.Close()
		}
		wrapped := call
		for _, w := range wraps {
			inner, ww := wrapped, w
			wrapped = func() { ww(inner) }
		}
		wrapped()
		for j := len(undos) - 1; j >= 0; j-- {
			undos[j]()
		}
		out.injs = append(out.injs, terms...)
		we.logbuf.Reset()
		out.fin = finJ{Ok: cerr == nil, Tmp: dirSizes(we.tmp), Up: dirSizes(we.up), Open: fdCount(we) - baseFD}
		if cerr != nil {
			out.fin.ErrText = cerr.Error()
		}
		if pan != nil {
			out.fin.Panic = fmt.Sprint(pan)
			out.oracle = append(out.oracle, vh.OracleFailure{Key: "c20-panic", What: fmt.Sprintf("Close panicked: %v", pan), Case: c})
		}
	}
	// the recycled object
	tx2 := we.waf.NewTransaction()
	out.samePtr = tx2 == tx
	{
		v := tx2.Variables()
		l, m, sp, rds := tx2.VerifC20BufferState(false)
		l2, m2, sp2, rds2 := tx2.VerifC20BufferState(true)
		clean := tx2.LastPhase() == 0 && l == 0 && m == 0 && !sp && rds == 0 && l2 == 0 && m2 == 0 && !sp2 && rds2 == 0 &&
			!tx2.IsInterrupted() && v.InboundDataError().Get() != "1" && v.RequestBodyError().Get() == "0" &&
			v.RequestBodyProcessorError().Get() == "0" && v.MultipartStrictError().Get() != "1" &&
			len(v.FilesTmpNames().Get("")) == 0 && len(v.Files().Get("")) == 0 && len(v.TX().Get("p")) == 0 &&
			len(v.TX().Get("e")) == 0 && len(tx2.MatchedRules()) == 0
		out.fin.Clean = clean
	}
	out.oracle = append(out.oracle, oracles(c, out, we, tx2, preTmpNames, preUpNames, baseFD)...)
	return out, nil
}

// ---- the property's statement, checked directly on the real code ---------------------------------

func hasFault(c *caseJ, out *runOut, at int, m string) bool {
	for _, a := range out.applied {
		if a == fmt.Sprintf("%d:%s", at, m) || (m == "fsize" && strings.HasPrefix(a, fmt.Sprintf("%d:fsize", at))) {
			return true
		}
	}
	return false
}

func contains(l []string, s string) bool {
	for _, x := range l {
		if x == s {
			return true
		}
	}
	return false
}

func oracles(c *caseJ, out *runOut, we *wafEnv, tx2 *corazawaf.Transaction, preTmp, preUp []string, baseFD int) []vh.OracleFailure {
	var fails []vh.OracleFailure
	bad := func(key, what string) { fails = append(fails, vh.OracleFailure{Key: key, What: what, Case: c}) }
	prev := obsJ{}
	hadErr := false      // an earlier call already reported a failure to the caller
	interrupted := false // an interruption exists (deny rule or body limit Reject)
	for i, k := range c.Calls {
		o := out.obs[i]
		switch k.K {
		case "w":
			// never silently Ok: a write that reports success stored what the buffer length promises
			if !o.Err && !o.Intr && o.Spilled {
				spill := 0
				for _, s := range o.Tmp {
					spill += s
				}
				for _, s := range c.PreTmp {
					spill -= s
				}
				if spill+o.MemLen != o.Len && !hadErr {
					bad("c20-write-silent-loss", fmt.Sprintf("call %d: WriteRequestBody returned no error but %d bytes are stored for a buffer length of %d", i, spill+o.MemLen, o.Len))
				}
			}
			fallthrough
		case "p":
			// ProcessRequestBody reached the body processor (directly, or through the ProcessPartial path)
			attempted := prev.Phase == 1 && !interrupted && !o.Err &&
				((k.K == "p" && prev.Len > 0) || (k.K == "w" && !c.Cfg.Reject && int64(prev.Len+o.Chunk) >= c.Cfg.Limit && o.Len > 0 && int64(prev.Len) != c.Cfg.Limit))
			if k.K == "p" && prev.Phase == 1 && !interrupted {
				attempted = attempted || prev.Len == 0
			}
			// phase 2 always runs, whatever failed
			if attempted && (o.Phase != 2 || o.P2 != prev.P2+1) {
				bad("c20-phase2-not-run", fmt.Sprintf("call %d: ProcessRequestBody ran in phase 1 without interruption but phase %d, phase-2 rule runs %d->%d", i, o.Phase, prev.P2, o.P2))
			}
			processed := attempted && o.Len > 0 && (k.K == "w" || prev.Len > 0)
			// a failed read of the spilled body is never taken for an inspected body
			if processed && k.K == "p" && prev.Spilled && hasFault(c, out, i, "hswap") && c.Cfg.Proc != "none" {
				if !o.RbErr || !o.RbPErr || o.P2 != prev.P2+1 || !o.E || !contains(o.Logs, "LgProc") {
					bad("c20-read-fault-not-surfaced", fmt.Sprintf("call %d: the spill file could not be read but REQBODY_ERROR=%v REQBODY_PROCESSOR_ERROR=%v phase-2 runs %d->%d tx.e=%v logs=%v", i, o.RbErr, o.RbPErr, prev.P2, o.P2, o.E, o.Logs))
				}
			}
			// a parse failure reported by the parser is never taken for an inspected body
			if processed && !out.pok && out.effects["stored_len"] && (c.Cfg.Proc == "json" || c.Cfg.Proc == "multipart") {
				if !o.RbErr || o.P2 != prev.P2+1 || !o.E {
					bad("c20-parse-error-not-surfaced", fmt.Sprintf("call %d: the stored body does not parse but REQBODY_ERROR=%v, phase-2 runs %d->%d", i, o.RbErr, prev.P2, o.P2))
				}
			}
			// an upload shorter than its part, or a part without its file, only with REQBODY_ERROR
			if processed && c.Cfg.Proc == "multipart" && out.effects["stored_len"] && !o.RbErr {
				var want []int
				for _, p := range out.parts {
					if p.File {
						want = append(want, p.Size)
					}
				}
				sort.Ints(want)
				got := append([]int(nil), o.Up...)
				for _, s := range c.PreUp {
					for j, g := range got {
						if g == s {
							got = append(got[:j], got[j+1:]...)
							break
						}
					}
				}
				if fmt.Sprint(want) != fmt.Sprint(got) && !(len(want) == 0 && len(got) == 0) {
					bad("c20-upload-silently-short", fmt.Sprintf("call %d: REQBODY_ERROR=0 but the upload files %v do not match the file parts %v", i, got, want))
				}
			}
		case "l":
			if c.Cfg.Audit != "off" && (hasFault(c, out, i, "fsize") && faultLimit(c, i) == 0 || hasFault(c, out, i, "auditdir") && c.Cfg.Audit == "concurrent" || hasFault(c, out, i, "idx") && c.Cfg.Audit == "concurrent") {
				if !contains(o.Logs, "LgAudit") {
					bad("c20-audit-write-not-surfaced", fmt.Sprintf("call %d: the audit write failed but no error-level log entry (logs %v)", i, o.Logs))
				}
			}
			if c.Cfg.Audit != "off" && c.Cfg.AuditC && prev.Spilled && hasFault(c, out, i, "hswap") {
				if !contains(o.Logs, "LgAuditBody") && !contains(o.Logs, "LgAudit") {
					bad("c20-audit-part-c-read-swallowed", fmt.Sprintf("call %d: the spilled request body could not be read back for audit part C; the record was written without it and nothing was logged (logs %v)", i, o.Logs))
				}
			}
		}
		prev = o
		hadErr = hadErr || o.Err
		interrupted = interrupted || o.Intr
	}
	at := len(c.Calls)
	// faults that hit Close come back from Close
	closeFault := prev.Spilled && (hasFault(c, out, at, "hswap") || hasFault(c, out, at, "tmpdir") || hasFault(c, out, at, "rmspill"))
	keep := c.Cfg.Keep == "on" || (c.Cfg.Keep == "relevant" && c.Cfg.LogRule && prev.E)
	if !keep && prev.NTmp > 0 && (hasFault(c, out, at, "updir") || hasFault(c, out, at, "rmup") || hasFault(c, out, at, "rmup1")) {
		closeFault = true
	}
	if closeFault && out.fin.Ok {
		bad("c20-close-fault-not-surfaced", "a file-system operation of Close failed but Close returned nil")
	}
	if !closeFault && !out.fin.Ok {
		bad("c20-close-spurious-error", "Close returned an error without any injected fault hitting it: "+out.fin.ErrText)
	}
	// no temporary file left (guard: no fault on a Remove that leaves the file)
	removeKept := hasFault(c, out, at, "tmpdir") || hasFault(c, out, at, "updir")
	if !removeKept {
		if got := dirNames(we.tmp); fmt.Sprint(got) != fmt.Sprint(preTmp) {
			bad("c20-spill-file-left", fmt.Sprintf("TmpDir after Close: %v, before the transaction: %v", got, preTmp))
		}
		if !keep {
			if got := dirNames(we.up); fmt.Sprint(got) != fmt.Sprint(preUp) {
				bad("c20-upload-file-left", fmt.Sprintf("UploadDir after Close: %v, before the transaction: %v", got, preUp))
			}
		}
	}
	if out.fin.Open != 0 {
		bad("c20-fd-leak", fmt.Sprintf("%d file descriptors more than before the transaction are open after Close", out.fin.Open))
	}
	// the recycled object works normally
	if out.samePtr && !out.fin.Clean {
		bad("c20-recycled-not-clean", "the object handed out again by NewTransaction is not in the initial state")
	}
	if msg := probe(we, tx2, c.Cfg); msg != "" {
		bad("c20-recycled-probe", msg)
	}
	return fails
}

func faultLimit(c *caseJ, at int) int64 {
	for _, f := range c.Faults {
		if f.At == at && f.M == "fsize" {
			return f.Limit
		}
	}
	return -1
}

// probe runs a clean transaction on the recycled object and checks it behaves like a fresh one.
func probe(we *wafEnv, tx *corazawaf.Transaction, c cfgJ) string {
	defer we.logbuf.Reset()
	cleanDir(we.tmp)
	cleanDir(we.up)
	var body []byte
	files := 0
	switch c.Proc {
	case "multipart":
		body, files = buildMultipart([]partSpec{{File: true, Size: 9}, {File: false, Size: 3}}, ""), 1
	case "json":
		body = []byte(`{"a":1,"b":[1,2]}`)
	default:
		body = []byte("a=1&bb=22&ccc=333")
	}
	if int64(len(body)) >= c.Limit {
		body = body[:0]
		files = 0
	}
	if ct := contentType(c.Proc); ct != "" {
		tx.AddRequestHeader("Content-Type", ct)
	}
	msg := ""
	func() {
		defer func() {
			if r := recover(); r != nil {
				msg = fmt.Sprintf("probe transaction on the recycled object panicked: %v", r)
			}
		}()
		tx.ProcessRequestHeaders()
		if len(body) > 0 {
			if _, _, err := tx.WriteRequestBody(body); err != nil {
				msg = "probe: WriteRequestBody failed: " + err.Error()
			}
		}
		_, err := tx.ProcessRequestBody()
		v := tx.Variables()
		if err != nil {
			msg = "probe: ProcessRequestBody failed: " + err.Error()
		}
		if c.Deny != 1 {
			if v.RequestBodyError().Get() != "0" {
				msg = "probe: REQBODY_ERROR=" + v.RequestBodyError().Get() + " on a well-formed body"
			}
			if g := v.TX().Get("p"); len(g) != 1 || g[0] != "1" {
				msg = fmt.Sprintf("probe: phase-2 counter %v, want 1", g)
			}
			if c.Proc != "none" && len(v.Files().Get("")) != files {
				msg = fmt.Sprintf("probe: %d FILES entries, want %d", len(v.Files().Get("")), files)
			}
			l, _, _, _ := tx.VerifC20BufferState(false)
			if int(l) != len(body) {
				msg = fmt.Sprintf("probe: buffer length %d, want %d", l, len(body))
			}
		}
		tx.ProcessLogging()
		if err := tx.Close(); err != nil {
			msg = "probe: Close failed: " + err.Error()
		}
		if n := len(dirNames(we.tmp)); n != 0 {
			msg = fmt.Sprintf("probe: %d files left in TmpDir", n)
		}
		if n := len(dirNames(we.up)); n != 0 && c.Keep == "off" {
			msg = fmt.Sprintf("probe: %d files left in UploadDir", n)
		}
	}()
	return msg
}

// ---- bodies ---------------------------------------------------------------------------------

type partSpec struct {
	File bool
	Size int
}

func buildMultipart(parts []partSpec, tail string) []byte {
	var b bytes.Buffer
	for i, p := range parts {
		fmt.Fprintf(&b, "--%s\r\n", boundary)
		if p.File {
			fmt.Fprintf(&b, "Content-Disposition: form-data; name=\"f%d\"; filename=\"u%d.bin\"\r\nContent-Type: application/octet-stream\r\n\r\n", i, i)
		} else {
			fmt.Fprintf(&b, "Content-Disposition: form-data; name=\"a%d\"\r\n\r\n", i)
		}
		for j := 0; j < p.Size; j++ {
			b.WriteByte(byte('a' + (i*7+j)%26))
		}
		b.WriteString("\r\n")
	}
	switch tail {
	case "":
		fmt.Fprintf(&b, "--%s--\r\n", boundary)
	case "nofinal":
	case "garbage":
		b.WriteString("--" + boundary + "\r\nContent-Disposition form-data\r\n")
	}
	return b.Bytes()
}

// ---- Coq terms ---------------------------------------------------------------------------------

// the shards open nat_scope (Prelude), so naturals are printed bare
func nat(n int) string { return fmt.Sprintf("%d", n) }

func natList(l []int) string {
	it := make([]string, len(l))
	for i, n := range l {
		it[i] = nat(n)
	}
	return vh.List(it)
}

func cfgTerm(c cfgJ) string {
	keep := map[string]string{"off": "KOff", "relevant": "KRelevant", "on": "KOn"}[c.Keep]
	proc := map[string]string{"none": "PNone", "url": "PUrl", "json": "PJson", "multipart": "PMultipart"}[c.Proc]
	audit := map[string]string{"off": "AOff", "serial": "ASerial", "concurrent": "AConcurrent"}[c.Audit]
	return fmt.Sprintf("(mkcfg %s %s %s %s %s %s %s %s %s)", nat(int(c.Limit)), nat(int(c.Mem)), vh.Bool(c.Reject), keep, proc, audit, vh.Bool(c.AuditC), nat(c.Deny), vh.Bool(c.LogRule))
}

func obsTerm(o obsJ) string {
	logs := make([]string, len(o.Logs))
	for i, l := range o.Logs {
		if strings.HasPrefix(l, "LgOther") {
			l = "LgAuditBody" // an entry the model does not know: forces a visible mismatch
		}
		logs[i] = l
	}
	return fmt.Sprintf("(mkobs %s %s %s %s %s %s %s %s %s %s %s %s %s %s %s %s %s %s)",
		vh.Bool(o.Err), vh.Bool(o.Intr), nat(o.Phase), vh.Bool(o.Inbound), vh.Bool(o.RbErr), vh.Bool(o.RbPErr), vh.Bool(o.MpStrict),
		nat(o.P2), vh.Bool(o.E), nat(o.NTmp), nat(o.NFiles), nat(o.Len), nat(o.MemLen), vh.Bool(o.Spilled),
		vh.List(logs), natList(o.Tmp), natList(o.Up), nat(o.Open))
}

func caseTerm(c *caseJ, out *runOut) string {
	body, _ := hex.DecodeString(c.Body)
	rest := body
	calls := make([]string, len(c.Calls))
	for i, k := range c.Calls {
		switch k.K {
		case "h":
			calls[i] = "CHeaders"
		case "p":
			calls[i] = "CProcess"
		case "l":
			calls[i] = "CLogging"
		case "w":
			n := k.N
			if n > len(rest) {
				n = len(rest)
			}
			calls[i] = "CWrite " + vh.Hx(rest[:n])
			rest = rest[n:]
		}
	}
	parts := make([]string, len(out.parts))
	for i, p := range out.parts {
		if p.File {
			parts[i] = fmt.Sprintf("PtFile %s", nat(p.Size))
		} else {
			parts[i] = "PtField"
		}
	}
	obs := make([]string, len(out.obs))
	for i, o := range out.obs {
		obs[i] = obsTerm(o)
	}
	fin := fmt.Sprintf("(mkfin %s %s %s %s %s)", vh.Bool(out.fin.Ok), natList(out.fin.Tmp), natList(out.fin.Up), nat(out.fin.Open), vh.Bool(out.fin.Clean))
	return fmt.Sprintf("Case %s %s %s (mkpr %s %s) %s %s %s %s", cfgTerm(c.Cfg), natList(c.PreTmp), natList(c.PreUp),
		vh.List(parts), vh.Bool(out.pok), vh.List(out.injs), vh.List(calls), vh.List(obs), fin)
}

// ---- generation ---------------------------------------------------------------------------------

type shape struct {
	cfg    cfgJ
	body   []byte
	calls  []callJ
	pre    [2][]int
	kind   string
	nfiles int
}

func genShape(r *rand.Rand, i int) shape {
	var s shape
	procs := []string{"multipart", "multipart", "multipart", "url", "json", "none"}
	s.cfg.Proc = procs[i%len(procs)]
	s.cfg.Keep = []string{"off", "relevant", "on", "off", "on"}[i%5]
	s.cfg.Audit = []string{"serial", "concurrent", "off"}[(i/2)%3]
	s.cfg.AuditC = r.Intn(3) != 0
	s.cfg.LogRule = r.Intn(3) != 0
	s.cfg.Deny = []int{0, 0, 0, 0, 0, 2, 1}[r.Intn(7)]
	tail := ""
	switch s.cfg.Proc {
	case "multipart":
		nf := []int{2, 3, 1, 0, 3, 2}[((i/6)*3+i%6)%6]
		s.nfiles = nf
		var ps []partSpec
		for j := 0; j < nf; j++ {
			ps = append(ps, partSpec{File: true, Size: []int{0, 1, 7, 20, 33, 60}[r.Intn(6)]})
		}
		for j := r.Intn(3); j > 0; j-- {
			ps = append(ps, partSpec{File: false, Size: r.Intn(12)})
		}
		r.Shuffle(len(ps), func(a, b int) { ps[a], ps[b] = ps[b], ps[a] })
		switch r.Intn(8) {
		case 0:
			tail = "nofinal"
		case 1:
			tail = "garbage"
		}
		s.body = buildMultipart(ps, tail)
		if r.Intn(10) == 0 && len(s.body) > 10 {
			s.body = s.body[:r.Intn(len(s.body))]
			tail = "cut"
		}
		s.kind = fmt.Sprintf("multipart/%dfiles", nf)
		if tail != "" {
			s.kind += "/malformed"
		}
	case "json":
		if r.Intn(3) == 0 {
			s.body = []byte(`{"a":1,"b":[1,2,{"c":"x"}],"d":"` + strings.Repeat("y", r.Intn(30)))
			s.kind = "json/invalid"
		} else {
			s.body = []byte(`{"a":1,"b":[1,2,{"c":"x"}],"d":"` + strings.Repeat("y", r.Intn(30)) + `"}`)
			s.kind = "json/valid"
		}
	case "url":
		s.body = []byte("a=1&bb=22&ccc=" + strings.Repeat("z", r.Intn(40)))
		s.kind = "url"
	default:
		s.body = []byte(strings.Repeat("raw-", 1+r.Intn(12)))
		s.kind = "noprocessor"
	}
	n := len(s.body)
	// buffering: in memory, spilled at the first / a later write
	switch r.Intn(5) {
	case 0:
		s.cfg.Mem = int64(n + 100)
		s.kind += "/memory"
	case 1:
		s.cfg.Mem = 1
		s.kind += "/disk"
	default:
		s.cfg.Mem = int64(1 + r.Intn(n+1))
		s.kind += "/disk"
	}
	// limit: far, or hit (reject / partial)
	switch (i + r.Intn(2)) % 7 {
	case 0:
		s.cfg.Limit = int64(1 + r.Intn(n+1))
		s.cfg.Reject = true
		s.kind += "/reject"
	case 1:
		s.cfg.Limit = int64(1 + r.Intn(n+1))
		s.cfg.Reject = false
		s.kind += "/partial"
	default:
		s.cfg.Limit = int64(n + 1 + r.Intn(50))
		s.cfg.Reject = r.Intn(2) == 0
	}
	if s.cfg.Mem > s.cfg.Limit {
		s.cfg.Mem = s.cfg.Limit
	}
	// every sixth pair of shapes is a clean upload transaction (all uploads stored, deleting keep mode)
	if s.cfg.Proc == "multipart" && i%6 < 2 && tail == "" {
		s.cfg.Limit = int64(n + 1 + r.Intn(50))
		s.cfg.Deny = 0
		if s.cfg.Keep == "on" {
			s.cfg.Keep = "off"
		}
		if s.cfg.Mem > s.cfg.Limit {
			s.cfg.Mem = s.cfg.Limit
		}
		s.kind = fmt.Sprintf("multipart/%dfiles/clean", s.nfiles)
	}
	// calls
	s.calls = append(s.calls, callJ{K: "h"})
	left := n
	cross := i%4 == 3 && n >= 4
	if cross {
		// the first chunk stays in memory, the second one crosses the in-memory limit (the spill file
		// is created by a call that first has to dump the memory part), the limit is far
		k1 := 1 + r.Intn(n/2)
		k2 := 1 + r.Intn(n-k1)
		s.cfg.Mem = int64(k1 + r.Intn(k2))
		s.cfg.Limit = int64(n + 1 + r.Intn(50))
		s.calls = append(s.calls, callJ{K: "w", N: k1}, callJ{K: "w", N: k2})
		left -= k1 + k2
		if left > 0 {
			s.calls = append(s.calls, callJ{K: "w", N: left})
			left = 0
		}
		s.kind += "/cross"
	}
	exact := i%4 == 2 && n >= 4
	if exact {
		// the partial sums of the first 1..3 chunks hit SecRequestBodyLimit EXACTLY, then more data
		// arrives in 1..2 further chunks
		L := 2 + r.Intn(n-2) // 2 .. n-1
		s.cfg.Limit = int64(L)
		s.cfg.Reject = (i/4)%2 == 0
		if s.cfg.Mem > s.cfg.Limit || r.Intn(2) == 0 {
			s.cfg.Mem = int64(1 + r.Intn(L))
		}
		parts := 1 + r.Intn(3)
		rem := L
		for j := 0; j < parts && rem > 0; j++ {
			k := rem
			if j < parts-1 && rem > 1 {
				k = 1 + r.Intn(rem-1)
			}
			s.calls = append(s.calls, callJ{K: "w", N: k})
			rem -= k
		}
		left = n - L
		if left > 1 && r.Intn(2) == 0 {
			k := 1 + r.Intn(left-1)
			s.calls = append(s.calls, callJ{K: "w", N: k})
			left -= k
		}
		s.calls = append(s.calls, callJ{K: "w", N: left})
		left = 0
		s.kind += "/exact-limit"
	}
	for w := 1 + r.Intn(3); w > 0 && left > 0; w-- {
		k := left
		if w > 1 {
			k = 1 + r.Intn(left)
		}
		s.calls = append(s.calls, callJ{K: "w", N: k})
		left -= k
	}
	s.calls = append(s.calls, callJ{K: "p"}, callJ{K: "l"})
	if !cross && !exact && r.Intn(6) == 0 { // anomalous orders
		a, b := r.Intn(len(s.calls)), r.Intn(len(s.calls))
		s.calls[a], s.calls[b] = s.calls[b], s.calls[a]
	}
	for j := r.Intn(3); j > 0; j-- {
		s.pre[0] = append(s.pre[0], r.Intn(9))
	}
	for j := r.Intn(3); j > 0; j-- {
		s.pre[1] = append(s.pre[1], r.Intn(9))
	}
	return s
}

func (s shape) mk(calls []callJ, faults []faultJ) *caseJ {
	return &caseJ{Cfg: s.cfg, PreTmp: s.pre[0], PreUp: s.pre[1], Body: hex.EncodeToString(s.body), Calls: calls, Faults: faults}
}

// faultsFor lists the single faults worth trying at call index at (len(calls) = Close).
func (s shape) faultsFor(r *rand.Rand, at int) []faultJ {
	var fs []faultJ
	n := int64(len(s.body))
	if at == len(s.calls) {
		for _, m := range []string{"hswap", "tmpdir", "updir", "rmspill", "rmup"} {
			fs = append(fs, faultJ{At: at, M: m})
		}
		// one chosen upload (first / middle / last) removed before Close
		for idx := 0; idx < s.nfiles && idx < 3; idx++ {
			fs = append(fs, faultJ{At: at, M: "rmup1", Idx: idx})
		}
		return fs
	}
	switch s.calls[at].K {
	case "w":
		fs = append(fs, faultJ{At: at, M: "tmpdir"}, faultJ{At: at, M: "hswap"}, faultJ{At: at, M: "fsize", Limit: 0},
			faultJ{At: at, M: "fsize", Limit: r.Int63n(n + 1)}, faultJ{At: at, M: "fsize", Limit: s.cfg.Mem})
		if !s.cfg.Reject && s.cfg.Limit <= n {
			fs = append(fs, faultJ{At: at, M: "updir"})
		}
	case "p":
		fs = append(fs, faultJ{At: at, M: "hswap"})
		if s.cfg.Proc == "multipart" {
			fs = append(fs, faultJ{At: at, M: "updir"}, faultJ{At: at, M: "fsize", Limit: 0}, faultJ{At: at, M: "fsize", Limit: int64(1 + r.Intn(40))})
		}
	case "l":
		if s.cfg.Audit != "off" {
			fs = append(fs, faultJ{At: at, M: "fsize", Limit: 0})
			if s.cfg.AuditC {
				fs = append(fs, faultJ{At: at, M: "hswap"})
			}
		}
		if s.cfg.Audit == "concurrent" {
			fs = append(fs, faultJ{At: at, M: "auditdir"}, faultJ{At: at, M: "idx"})
		}
	}
	return fs
}

// ---- driver -----------------------------------------------------------------------------------

func Run(cfg vh.Config) (*vh.Result, error) {
	signal.Ignore(syscall.SIGXFSZ)
	base, err := os.MkdirTemp("", "verif-c20-")
	if err != nil {
		return nil, err
	}
	defer os.RemoveAll(base)
	e := &env{base: base, wafs: map[string]*wafEnv{}}
	res := &vh.Result{InputDistribution: map[string]int{}}
	res.Rule = "a case is non-trivial when at least one injected fault was really set up (applied_injections non-empty) or the transaction is abandoned before its last call or its body fails to parse / exceeds the limit"
	var terms []string
	var cases []any
	distinct := map[string]bool{}
	shardN := 0
	flush := func() error {
		if len(terms) == 0 {
			return nil
		}
		si, err := vh.WriteShard(cfg.OutDir, vh.Shard{Name: fmt.Sprintf("C20_%d", shardN), Imports: "From Verif Require Import Base Faults CorrC20.",
			CaseType: "CorrC20.case", MismatchF: "CorrC20.mismatches", Terms: terms, Cases: cases, Prelude: "Local Open Scope nat_scope."})
		if err != nil {
			return err
		}
		res.Shards = append(res.Shards, si)
		shardN++
		terms, cases = nil, nil
		return nil
	}
	// warm-up: the runtime's own descriptors (epoll) exist before any baseline is taken
	if _, err := runCase(e, genShape(rand.New(rand.NewSource(1)), 0).mk([]callJ{{K: "h"}, {K: "w", N: 1000}, {K: "p"}, {K: "l"}}, nil)); err != nil {
		return nil, err
	}
	notSame := 0
	add := func(c *caseJ) error {
		out, err := runCase(e, c)
		if err != nil {
			return err
		}
		c.Obs, c.Fin, c.Applied = out.obs, &out.fin, out.applied
		terms = append(terms, caseTerm(c, out))
		cases = append(cases, c)
		res.Evaluations++
		res.OracleEvaluations++
		res.OracleFailures = append(res.OracleFailures, out.oracle...)
		if !out.samePtr {
			notSame++
		}
		nontrivial := len(out.applied) > 0 || !out.pok
		for _, o := range out.obs {
			if o.Inbound || o.Err {
				nontrivial = true
			}
		}
		full := len(c.Calls) > 0 && c.Calls[len(c.Calls)-1].K == "l"
		if !full {
			nontrivial = true
		}
		if nontrivial {
			j, _ := json.Marshal([]any{c.Cfg, c.Body, c.Calls, c.Faults, c.PreTmp, c.PreUp})
			distinct[string(j)] = true
		}
		for _, a := range out.applied {
			res.InputDistribution["fault:"+strings.SplitN(a[strings.Index(a, ":")+1:], "=", 2)[0]]++
		}
		if len(out.applied) == 0 {
			res.InputDistribution["fault:none"]++
		}
		if len(res.Samples) < 6 && len(out.applied) > 0 && res.Evaluations%37 == 0 {
			res.Samples = append(res.Samples, c)
		}
		if len(terms) >= 200 {
			return flush()
		}
		return nil
	}
	if cfg.Replay != "" {
		b, err := os.ReadFile(cfg.Replay)
		if err != nil {
			return nil, err
		}
		var doc struct {
			Case json.RawMessage `json:"case"`
		}
		c := &caseJ{}
		raw := b
		if json.Unmarshal(b, &doc) == nil && len(doc.Case) > 0 {
			raw = doc.Case
		}
		lc := &limitCaseJ{}
		if json.Unmarshal(raw, lc) == nil && lc.Kind == "limit" {
			fails, err := runLimitCase(e, &limitCaseJ{Kind: "limit", Entry: lc.Entry, Reject: lc.Reject, Limit: lc.Limit, Chunks: lc.Chunks})
			if err != nil {
				return nil, err
			}
			res.OracleFailures = append(res.OracleFailures, fails...)
			res.OracleEvaluations++
			res.Shards = []vh.ShardInfo{}
			return res, nil
		}
		hc := &httpCaseJ{}
		if json.Unmarshal(raw, hc) == nil && hc.Kind == "http" {
			he, err := newHTTPEnv(filepath.Join(base, "http"))
			if err != nil {
				return nil, err
			}
			hc.TmpLeft, hc.UpLeft, hc.Records, hc.Panicked, hc.ClientErr = nil, nil, 0, "", ""
			res.OracleFailures = append(res.OracleFailures, runHTTPCase(he, hc)...)
			res.OracleEvaluations++
			res.Shards = []vh.ShardInfo{}
			return res, nil
		}
		if json.Unmarshal(b, &doc) == nil && len(doc.Case) > 0 {
			err = json.Unmarshal(doc.Case, c)
		} else {
			err = json.Unmarshal(b, c)
		}
		if err != nil {
			return nil, err
		}
		c.Obs, c.Fin, c.Applied = nil, nil, nil
		if err := add(c); err != nil {
			return nil, err
		}
		if err := flush(); err != nil {
			return nil, err
		}
		res.DistinctNontrivial = len(distinct)
		return res, nil
	}
	docs, names := vh.LoadCorpus(cfg.Corpus)
	for i, d := range docs {
		c := &caseJ{}
		if err := json.Unmarshal(d, c); err != nil {
			return nil, fmt.Errorf("corpus %s: %w", names[i], err)
		}
		c.Obs, c.Fin, c.Applied = nil, nil, nil
		if err := add(c); err != nil {
			return nil, err
		}
		res.InputDistribution["corpus"]++
	}
	// exact-limit family: every split of the limit into 1..3 chunks, then 1..2 more chunks, both limit
	// actions, memory and disk buffered (correspondence cases, no injected fault)
	for _, c := range exactLimitCases() {
		if err := add(c); err != nil {
			return nil, err
		}
		res.InputDistribution["family:exact-limit"]++
	}
	// the io.Reader entry points and the response side (oracle only)
	runLimitFamily(e, res)
	// the middleware family (oracle only)
	if err := runHTTPFamily(base, res); err != nil {
		return nil, err
	}
	r := vh.Rng(cfg.Seed, "c20")
	nShapes := cfg.Pick(16, 240)
	for i := 0; i < nShapes; i++ {
		s := genShape(r, i)
		res.InputDistribution["shape:"+s.kind]++
		res.InputDistribution["keep:"+s.cfg.Keep]++
		// every abandonment point, no fault
		for k := 0; k <= len(s.calls); k++ {
			if err := add(s.mk(s.calls[:k], nil)); err != nil {
				return nil, err
			}
		}
		// every single fault at every call, full run and abandoned right after the faulted call
		for at := 0; at <= len(s.calls); at++ {
			for _, f := range s.faultsFor(r, at) {
				if err := add(s.mk(s.calls, []faultJ{f})); err != nil {
					return nil, err
				}
				if at+1 < len(s.calls) {
					if err := add(s.mk(s.calls[:at+1], []faultJ{f})); err != nil {
						return nil, err
					}
				}
			}
		}
		// a few random multi-fault schedules with a random abandonment point
		for m := 0; m < cfg.Pick(3, 6); m++ {
			k := r.Intn(len(s.calls) + 1)
			var fs []faultJ
			for at := 0; at <= k; at++ {
				if at < k {
					cand := s.faultsFor(r, at)
					if len(cand) > 0 && r.Intn(2) == 0 {
						fs = append(fs, cand[r.Intn(len(cand))])
					}
				}
			}
			sub := s
			sub.calls = s.calls[:k]
			closeF := sub.faultsFor(r, k)
			if r.Intn(2) == 0 {
				fs = append(fs, closeF[r.Intn(len(closeF))])
			}
			if err := add(s.mk(s.calls[:k], fs)); err != nil {
				return nil, err
			}
		}
	}
	if err := flush(); err != nil {
		return nil, err
	}
	res.DistinctNontrivial = len(distinct)
	if notSame > 0 {
		res.Notes = append(res.Notes, fmt.Sprintf("%d cases: NewTransaction did not hand the closed object out again (recycled-state check skipped)", notSame))
	}
	res.Notes = append(res.Notes, "modelled, not validated (cannot be injected without rewriting code): short writes without error, io.Copy destination errors other than EFBIG, Close errors of upload files, read faults in the middle of a multipart body")
	return res, nil
}

// exactLimitCases: bodies of limit+3 bytes written as (composition of the limit into 1..3 chunks) ++
// ([3] | [1,2]).
func exactLimitCases() []*caseJ {
	const L = 5
	body := []byte("a=1&b=23")
	var comps [][]int
	for a := 1; a <= L; a++ {
		if a == L {
			comps = append(comps, []int{a})
			continue
		}
		for b := 1; a+b <= L; b++ {
			if a+b == L {
				comps = append(comps, []int{a, b})
				continue
			}
			comps = append(comps, []int{a, b, L - a - b})
		}
	}
	var out []*caseJ
	for _, comp := range comps {
		for _, more := range [][]int{{3}, {1, 2}} {
			for _, reject := range []bool{true, false} {
				for _, mem := range []int64{L, 2} {
					c := &caseJ{Cfg: cfgJ{Limit: L, Mem: mem, Reject: reject, Keep: "off", Proc: "url", Audit: "off", LogRule: true}, Body: hex.EncodeToString(body)}
					c.Calls = append(c.Calls, callJ{K: "h"})
					for _, k := range append(append([]int{}, comp...), more...) {
						c.Calls = append(c.Calls, callJ{K: "w", N: k})
					}
					c.Calls = append(c.Calls, callJ{K: "p"}, callJ{K: "l"})
					out = append(out, c)
				}
			}
		}
	}
	return out
}
