(* Memo.v — executable model of coraza's process-wide pattern cache (property C13).

   Modelled code (read line by line):
     internal/memoize/sync.go     entry{value,owners,deleted}, cache (sync.Map), Memoizer.addOwner,
                                  Memoizer.Do (fast path / singleflight body with double check /
                                  "ensure registered" epilogue), Release
     internal/memoize/noop.go     Do = fn()            (build tag coraza.no_memoize)
     internal/corazawaf/waf.go    one Memoizer per WAF (unique owner id), Close -> Release(id)
     every call site of the memoizer (the key each one builds, the builder it runs, the type
     assertion it applies to the result):
       internal/operators/pm.go:newPM, pm_from_dataset.go:newPMFromDataset,
       pm_from_file.go:newPMFromFile, rx.go:newRX / newBinaryRX, restpath.go:newRESTPath,
       validate_nid.go:newValidateNID, validate_schema.go:NewValidateSchema,
       internal/corazawaf/rule.go:AddVariable / AddVariableNegation,
       internal/actions/ctl.go:parseCtl, internal/seclang/directives.go:SecAuditLogRelevantStatus

   The model is SEQUENTIAL (one goroutine): singleflight then only runs its body, and an entry
   with deleted = true is never reachable through the map (proved in MemoProofs.v); concurrency
   belongs to C06.  Compiled artefacts are immutable values: what a WAF obtained at construction
   is what its operators use for ever (Go references keep them alive after Release).

   Part 1 is generic in the request / artefact / error types, the key function, the builder and
   the type assertion.  Part 2 is the concrete instance: the seven artefact families of the
   code, the key of every call site (parametric in the TAG TABLE, which the translator
   verif-facts regenerates from the source on every run), the builders (external compilers are
   Section variables).  No proofs here. *)
From Coq Require Import List NArith Bool String.
From Verif Require Import Base.
Import ListNotations.
Open Scope N_scope.

Inductive result (A E : Type) : Type := Ok (a : A) | Err (e : E).
Arguments Ok {A E} a.
Arguments Err {A E} e.

(* ------------------------------------------------------------------------------------------ *)
(* Part 1: the cache, Do, Release, WAF construction, histories                                *)
(* ------------------------------------------------------------------------------------------ *)

Definition memo_mem (x : N) (l : list N) : bool := existsb (N.eqb x) l.

(* owners[m.ownerID] = struct{}{} *)
Definition memo_set_add (x : N) (l : list N) : list N := if memo_mem x l then l else x :: l.
(* delete(owners, ownerID) *)
Definition memo_set_remove (x : N) (l : list N) : list N := filter (fun y => negb (N.eqb x y)) l.

Section MemoGeneric.
  Variables (req art err : Type).
  Variable key_of : req -> bytes.                  (* the key expression of the call site *)
  Variable build : req -> result art err.          (* the closure handed to Do *)
  Variable expect : req -> art -> bool.            (* the type assertion applied to Do's result *)

  (* type entry struct { value any; mu; owners map[uint64]struct{}; deleted bool } *)
  Record entry := mk_entry { e_val : art; e_owners : list N; e_deleted : bool }.

  (* var cache sync.Map: an association list without duplicate keys (order is irrelevant) *)
  Definition cache := list (bytes * entry).

  Fixpoint load (c : cache) (k : bytes) : option entry :=
    match c with
    | [] => None
    | (k', e) :: r => if bytes_eqb k' k then Some e else load r k
    end.

  Fixpoint delete (c : cache) (k : bytes) : cache :=
    match c with
    | [] => []
    | (k', e) :: r => if bytes_eqb k' k then delete r k else (k', e) :: delete r k
    end.

  Definition store (c : cache) (k : bytes) (e : entry) : cache := (k, e) :: delete c k.

  (* func (m *Memoizer) addOwner(e *entry) bool — the entry is mutated in place *)
  Definition add_owner (id : N) (e : entry) : option entry :=
    if e_deleted e then None
    else Some (mk_entry (e_val e) (memo_set_add id (e_owners e)) false).

  (* if v, ok := cache.Load(key); ok { if m.addOwner(e) { return e.value, nil } } *)
  Definition try_hit (c : cache) (id : N) (k : bytes) : option (cache * art) :=
    match load c k with
    | Some e =>
        match add_owner id e with
        | Some e' => Some (store c k e', e_val e)
        | None => None
        end
    | None => None
    end.

  (* func (m *Memoizer) Do(key string, fn func() (any, error)) (any, error) *)
  Definition memo_do (c : cache) (id : N) (k : bytes) (fn : unit -> result art err)
    : cache * result art err :=
    match try_hit c id k with
    | Some (c', v) => (c', Ok v)                                   (* fast path *)
    | None =>
        let '(c1, res) :=                                          (* group.Do(key, func() ...) *)
          match try_hit c id k with                                (* double check *)
          | Some (c', v) => (c', Ok v)
          | None =>
              match fn tt with
              | Ok v => (store c k (mk_entry v [id] false), Ok v)  (* cache.Store(key, e) *)
              | Err e => (c, Err e)                                (* errors are not cached *)
              end
          end in
        match res with                                             (* "ensure registered" *)
        | Ok _ =>
            match load c1 k with
            | Some e =>
                match add_owner id e with
                | Some e' => (store c1 k e', res)
                | None => (c1, res)
                end
            | None => (c1, res)
            end
        | Err _ => (c1, res)
        end
    end.

  (* func Release(ownerID uint64): Range over the map; delete the owner; an entry without
     owners is marked deleted and removed from the map (the mark is only visible to a
     concurrent holder of the *entry, never through the map) *)
  Fixpoint release (c : cache) (id : N) : cache :=
    match c with
    | [] => []
    | (k, e) :: r =>
        let ow := memo_set_remove id (e_owners e) in
        match ow with
        | [] => release r id
        | _ :: _ => (k, mk_entry (e_val e) ow (e_deleted e)) :: release r id
        end
    end.

  (* what a WAF construction ends with: the artefacts obtained so far, and how it ended *)
  Inductive outcome :=
  | Built (arts : list art)                    (* every call site got its artefact *)
  | Failed (arts : list art) (e : err)         (* a builder returned an error: the parser stops *)
  | Panicked (arts : list art).                (* a type assertion on Do's result failed *)

  Definition cons_art (a : art) (o : outcome) : outcome :=
    match o with
    | Built l => Built (a :: l)
    | Failed l e => Failed (a :: l) e
    | Panicked l => Panicked (a :: l)
    end.

  (* WAF construction = the memoizer calls of its configuration, in order, on the WAF's
     memoizer (owner id) *)
  Fixpoint construct (c : cache) (id : N) (rs : list req) : cache * outcome :=
    match rs with
    | [] => (c, Built [])
    | r :: rest =>
        let '(c1, res) := memo_do c id (key_of r) (fun _ => build r) in
        match res with
        | Err e => (c1, Failed [] e)
        | Ok a =>
            if expect r a then
              let '(c2, o) := construct c1 id rest in (c2, cons_art a o)
            else (c1, Panicked [])
        end
    end.

  (* the same configuration with the cache compiled out (noop.go: Do = fn()) *)
  Fixpoint construct_nocache (rs : list req) : outcome :=
    match rs with
    | [] => Built []
    | r :: rest =>
        match build r with
        | Err e => Failed [] e
        | Ok a => if expect r a then cons_art a (construct_nocache rest) else Panicked []
        end
    end.

  (* process histories: WAF [id] runs the memoizer calls [rs] (NewWAF + parsing; a second
     EBuild of the same id = more rules added to the same WAF); WAF [id] is closed *)
  Inductive event := EBuild (id : N) (rs : list req) | EClose (id : N).

  (* process state: the cache and the WAFs whose Close already ran (closeOnce: a second Close
     of the same WAF does nothing) *)
  Record pstate := mk_ps { ps_cache : cache; ps_closed : list N }.

  Definition step (s : pstate) (ev : event) : pstate :=
    match ev with
    | EBuild id rs => mk_ps (fst (construct (ps_cache s) id rs)) (ps_closed s)
    | EClose id =>
        if memo_mem id (ps_closed s) then s
        else mk_ps (release (ps_cache s) id) (id :: ps_closed s)
    end.

  Definition run_from (s : pstate) (h : list event) : pstate := fold_left step h s.
  Definition run (h : list event) : pstate := run_from (mk_ps [] []) h.

  Definition ev_id (ev : event) : N := match ev with EBuild id _ => id | EClose id => id end.

  (* the keys a construction registered successfully (those of the artefacts it obtained) *)
  Fixpoint obtained_keys (rs : list req) (n : nat) : list bytes :=
    match n, rs with
    | S n', r :: rest => key_of r :: obtained_keys rest n'
    | _, _ => []
    end.
  Definition outcome_arts (o : outcome) : list art :=
    match o with Built l => l | Failed l _ => l | Panicked l => l end.
End MemoGeneric.

Arguments mk_entry {art} _ _ _.
Arguments e_val {art} _.
Arguments e_owners {art} _.
Arguments e_deleted {art} _.
Arguments Built {art err} _.
Arguments Failed {art err} _ _.
Arguments Panicked {art err} _.
Arguments EBuild {req} _ _.
Arguments EClose {req} _.
Arguments mk_ps {art} _ _.
Arguments ps_cache {art} _.
Arguments ps_closed {art} _.

(* ------------------------------------------------------------------------------------------ *)
(* Part 2: the call sites of the code                                                         *)
(* ------------------------------------------------------------------------------------------ *)

(* the artefact families (one per key tag) *)
Inductive kind := KRe | KPm | KPmDs | KPmF | KRx | KBinRx | KSchema.
Definition all_kinds : list kind := [KRe; KPm; KPmDs; KPmF; KRx; KBinRx; KSchema].

Definition kind_eqb (a b : kind) : bool :=
  match a, b with
  | KRe, KRe | KPm, KPm | KPmDs, KPmDs | KPmF, KPmF | KRx, KRx | KBinRx, KBinRx | KSchema, KSchema => true
  | _, _ => false
  end.

(* the six call sites that compile a plain *regexp.Regexp under the "re:" tag *)
Inductive resite := SRestPath | SValidateNid | SRuleVar | SRuleVarNeg | SCtl | SRelevantStatus.

(* one memoizer call, with the values the call site has in hand *)
Inductive creq :=
| RPm (args : bytes)                      (* newPM: options.Arguments *)
| RPmDs (name : bytes) (ds : list bytes)  (* newPMFromDataset: data-set name, options.Datasets[name] *)
| RPmF (raw : list bytes)                 (* newPMFromFile: the trimmed, non-empty, non-comment lines BEFORE strings.ToLower *)
| RRx (pf : bool) (args : bytes)          (* newRX: options.RxPreFilterEnabled, options.Arguments *)
| RBinRx (args : bytes)                   (* newBinaryRX: options.Arguments (newRX passes its flagged pattern "(?sm)..." there) *)
| RRe (s : resite) (pat : bytes)          (* regexp.Compile(pat) at one of the six sites *)
| RReL (s : resite) (raw : bytes)         (* rule.go: regex key of a case-INsensitive variable: rx = strings.ToLower(raw), then as RRe *)
| RSchema (content : bytes).              (* NewValidateSchema: bytes of the schema file *)

(* compiled artefacts, identified by Go type + everything the compilation depended on *)
Inductive cart :=
| ARegexp (pat : bytes)                   (* *regexp.Regexp *)
| ABinRegexp (pat : bytes)                (* *binaryregexp.Regexp *)
| ARxCompiled (pf : bool) (data : bytes)  (* *operators.rxCompiled: regexp + prefilter artefacts *)
| AAho (dfa : bool) (dict : list bytes)   (* ahocorasick.AhoCorasick built with Opts{DFA: dfa} *)
| ASchema (content : bytes).              (* *jsonschema.Schema *)

Inductive cerr := EBadRegex (pat : bytes) | EBadBinRegex (pat : bytes) | EBadSchema (content : bytes).

Definition kind_of (r : creq) : kind :=
  match r with
  | RPm _ => KPm | RPmDs _ _ => KPmDs | RPmF _ => KPmF | RRx _ _ => KRx
  | RBinRx _ => KBinRx | RRe _ _ => KRe | RReL _ _ => KRe | RSchema _ => KSchema
  end.

(* strings.Join(l, sep) for a one-byte separator *)
Fixpoint memo_join (sep : N) (l : list bytes) : bytes :=
  match l with
  | [] => []
  | [a] => a
  | a :: r => a ++ sep :: memo_join sep r
  end.

(* strings.Split(s, sep) for a one-byte separator *)
Fixpoint memo_split (sep : N) (s : bytes) : list bytes :=
  match s with
  | [] => [[]]
  | c :: r =>
      if c =? sep then [] :: memo_split sep r
      else match memo_split sep r with
           | h :: t => (c :: h) :: t
           | [] => [[c]]
           end
  end.

(* newRX: data = fmt.Sprintf("(?sm)%s", options.Arguments)  (default build: multiline on) *)
Definition rx_prefix : bytes := str "(?sm)".
Definition rx_data (args : bytes) : bytes := rx_prefix ++ args.

Definition bool_text (b : bool) : bytes := if b then str "true" else str "false".  (* %v *)

(* the part of the key after the tag.  [lower] is strings.ToLower: any function in the theorems,
   CaseMap.utf8_map (map_rune <regenerated unicode table>) in the correspondence, i.e. Go's rune-by-rune
   mapping on ARBITRARY bytes (an invalid byte becomes U+FFFD, U+212A becomes k, U+0130 becomes i) *)
Definition payload (lower hash : bytes -> bytes) (r : creq) : bytes :=
  match r with
  | RPm args => lower args                                  (* "pm:"+data, data = ToLower(args) *)
  | RPmDs _ ds => memo_join 10 ds                           (* "pmds:"+Join(dataset,"\n")  (fix 54cadaf) *)
  | RPmF raw => memo_join 10 (map lower raw)                (* "pmf:"+Join(lines,"\n"), lines = ToLower of each kept line *)
  | RRx pf args => bool_text pf ++ 58 :: rx_data args       (* Sprintf("rx:%v:%s", pf, data) *)
  | RBinRx args => args                                     (* "binrx:"+data *)
  | RRe _ pat => pat                                        (* "re:"+pattern *)
  | RReL _ raw => lower raw                                 (* "re:"+ToLower(pattern) *)
  | RSchema content => hash content                         (* "schema:"+md5Hash(schemaData) *)
  end.

Section MemoConcrete.
  Variable tags : kind -> bytes.           (* the string literal each family's key starts with *)
  Variable lower : bytes -> bytes.         (* strings.ToLower *)
  Variable hash : bytes -> bytes.          (* md5Hash (hex of MD5) *)
  Variables re_ok binre_ok schema_ok : bytes -> bool.   (* regexp.Compile / binaryregexp.Compile /
                                                           json.Unmarshal+jsonschema Compile succeed *)

  Definition ckey_of (r : creq) : bytes := tags (kind_of r) ++ payload lower hash r.

  Definition cbuild (r : creq) : result cart cerr :=
    match r with
    | RPm args => Ok (AAho true (memo_split 32 (lower args)))         (* builder.Build(dict) *)
    | RPmDs _ ds => Ok (AAho true ds)                                 (* builder.Build(dataset) *)
    | RPmF raw => Ok (AAho false (map lower raw))                     (* builder.Build(lines), DFA:false *)
    | RRx pf args => if re_ok (rx_data args) then Ok (ARxCompiled pf (rx_data args))
                     else Err (EBadRegex (rx_data args))
    | RBinRx args => if binre_ok args then Ok (ABinRegexp args) else Err (EBadBinRegex args)
    | RRe _ pat => if re_ok pat then Ok (ARegexp pat) else Err (EBadRegex pat)
    | RReL _ raw => if re_ok (lower raw) then Ok (ARegexp (lower raw)) else Err (EBadRegex (lower raw))
    | RSchema c => if schema_ok c then Ok (ASchema c) else Err (EBadSchema c)
    end.

  (* m.(ahocorasick.AhoCorasick), compiled.( *rxCompiled), re.( *regexp.Regexp), ... *)
  Definition cexpect (r : creq) (a : cart) : bool :=
    match r, a with
    | RPm _, AAho _ _ | RPmDs _ _, AAho _ _ | RPmF _, AAho _ _ => true
    | RRx _ _, ARxCompiled _ _ => true
    | RBinRx _, ABinRegexp _ => true
    | RRe _ _, ARegexp _ => true
    | RReL _ _, ARegexp _ => true
    | RSchema _, ASchema _ => true
    | _, _ => false
    end.

  Definition cconstruct := construct creq cart cerr ckey_of cbuild cexpect.
  Definition cconstruct_nocache := construct_nocache creq cart cerr cbuild cexpect.
  Definition crun := run creq cart cerr ckey_of cbuild cexpect.
  Definition cstep := step creq cart cerr ckey_of cbuild cexpect.
End MemoConcrete.

(* the tags as they are in the source now (fix efe1f8f); the translator regenerates the table
   and gen/FactsC13.v proves it equal to this one *)
Definition default_tags (k : kind) : bytes :=
  match k with
  | KRe => str "re:" | KPm => str "pm:" | KPmDs => str "pmds:" | KPmF => str "pmf:"
  | KRx => str "rx:" | KBinRx => str "binrx:" | KSchema => str "schema:"
  end.

(* no tag is a prefix of another one: keys of different families never coincide *)
Definition tags_prefix_free (tags : kind -> bytes) : bool :=
  forallb (fun a => forallb (fun b => kind_eqb a b || negb (is_prefix (tags a) (tags b))) all_kinds) all_kinds.

(* well-formed requests: what the code guarantees by construction about the values a call site
   has in hand (SecDataset splits on "\n", trims and drops empty entries; newPMFromFile does the
   same with a line scanner; lower-casing keeps a line non-empty and newline-free, proved for
   the real ToLower in MemoProofs.lower_keeps_wf_line) *)
Definition wf_line (l : bytes) : bool := negb (memo_mem 10 l) && match l with [] => false | _ => true end.
Definition wf_creq (lower : bytes -> bytes) (r : creq) : bool :=
  match r with
  | RPmDs _ ds => forallb wf_line ds
  | RPmF raw => forallb wf_line (map lower raw)
  | _ => true
  end.

(* the key shapes before the repairs, for the refutation lemmas *)
Definition untagged (_ : kind) : bytes := [].                         (* before efe1f8f (F04) *)
Definition payload_name_only (lower hash : bytes -> bytes) (r : creq) : bytes :=   (* before 0162365 (F05) *)
  match r with
  | RPmDs name _ => name
  | _ => payload lower hash r
  end.
Definition payload_name_nul (lower hash : bytes -> bytes) (r : creq) : bytes :=    (* 0162365 .. 54cadaf (F44) *)
  match r with
  | RPmDs name ds => name ++ 0 :: memo_join 10 ds
  | _ => payload lower hash r
  end.

(* ------------------------------------------------------------------------------------------ *)
(* Part 3: call-site facts (what the translator extracts) and the checks over them            *)
(* ------------------------------------------------------------------------------------------ *)

Local Open Scope string_scope.

Record site_fact := mk_site {
  sf_file : string;           (* path below /repo *)
  sf_func : string;           (* enclosing function *)
  sf_key : string;            (* source text of the key expression (a local variable is resolved to its definition) *)
  sf_tag : string;            (* leading string literal of the key ("" when there is none) *)
  sf_builders : list string;  (* functions called inside the closure *)
  sf_assert : string;         (* type asserted on the result at the call site *)
  sf_key_idents : list string;      (* variables / options.X selectors mentioned in the key *)
  sf_key_calls : list string;       (* functions called inside the key expression *)
  sf_captured : list string         (* variables / options.X selectors of the enclosing function used inside the closure *)
}.

Definition str_mem (s : string) (l : list string) : bool := existsb (String.eqb s) l.
Definition strs_eqb (a b : list string) : bool :=
  Nat.eqb (length a) (length b) && forallb (fun p => String.eqb (fst p) (snd p)) (combine a b).

(* which model family each call site belongs to; a call site that is not listed here is not
   modelled and makes the obligation [sites_modelled] fail *)
Definition site_kind (file func : string) : option kind :=
  let at_ f g := String.eqb file f && String.eqb func g in
  if at_ "internal/operators/pm.go" "newPM" then Some KPm
  else if at_ "internal/operators/pm_from_dataset.go" "newPMFromDataset" then Some KPmDs
  else if at_ "internal/operators/pm_from_file.go" "newPMFromFile" then Some KPmF
  else if at_ "internal/operators/rx.go" "newRX" then Some KRx
  else if at_ "internal/operators/rx.go" "newBinaryRX" then Some KBinRx
  else if at_ "internal/operators/restpath.go" "newRESTPath" then Some KRe
  else if at_ "internal/operators/validate_nid.go" "newValidateNID" then Some KRe
  else if at_ "internal/operators/validate_schema.go" "NewValidateSchema" then Some KSchema
  else if at_ "internal/corazawaf/rule.go" "AddVariable" then Some KRe
  else if at_ "internal/corazawaf/rule.go" "AddVariableNegation" then Some KRe
  else if at_ "internal/actions/ctl.go" "parseCtl" then Some KRe
  else if at_ "internal/seclang/directives.go" "directiveSecAuditLogRelevantStatus" then Some KRe
  else None.

(* the Go type the model's artefact of each family has *)
Definition kind_go_type (k : kind) : string :=
  match k with
  | KRe => "*regexp.Regexp" | KPm | KPmDs | KPmF => "ahocorasick.AhoCorasick"
  | KRx => "*rxCompiled" | KBinRx => "*binaryregexp.Regexp" | KSchema => "*jsonschema.Schema"
  end%string.

(* the builder calls the model's [cbuild] stands for, per family *)
Definition kind_builders (k : kind) : list string :=
  match k with
  | KRe => ["regexp.Compile"]
  | KPm | KPmDs | KPmF => ["builder.Build"]
  | KRx => ["regexp.Compile"; "minMatchLength"; "prefilterFunc"; "syntax.Parse"; "extractExactMatch"; "origParsed.Simplify"]
  | KBinRx => ["binaryregexp.Compile"]
  | KSchema => ["json.Unmarshal"; "fmt.Errorf"; "jsonschema.NewCompiler"; "compiler.Compile"; "fmt.Errorf"]
  end%string.

(* Captured values that the key does not mention literally, each with the reason why the key
   still determines it.  KEEP SHORT.
   - pm.go newPM, dict: `dict := strings.Split(data, " ")` two lines above the call; the key
     carries data itself (model: cbuild (RPm args) splits the same lower-cased data).
   - pm.go / pm_from_dataset.go / pm_from_file.go, builder: the AhoCorasickBuilder is built
     from a constant Opts literal in the same function (DFA true/true/false: the three
     functions have three different tags).
   - rx.go newRX, options.Arguments: `data = fmt.Sprintf("(?sm)%s", options.Arguments)`; the key
     carries data, a fixed prefix followed by options.Arguments (model: rx_data). *)
Definition justified_captures : list (string * string * string) :=
  [ ("internal/operators/pm.go", "newPM", "dict");
    ("internal/operators/pm.go", "newPM", "builder");
    ("internal/operators/pm_from_dataset.go", "newPMFromDataset", "builder");
    ("internal/operators/pm_from_file.go", "newPMFromFile", "builder");
    ("internal/operators/rx.go", "newRX", "options.Arguments") ]%string.

(* Functions a key expression may call, each injective on the values it is applied to:
   strings.Join (entries never contain the separator), fmt.Sprintf("rx:%v:%s") (a boolean, a
   colon, the rest), md5Hash (injective up to MD5 collisions: an assumption of the level). *)
Definition allowed_key_calls : list string := ["strings.Join"; "fmt.Sprintf"; "md5Hash"]%string.

Definition justified (s : site_fact) (v : string) : bool :=
  existsb (fun j => String.eqb (fst (fst j)) (sf_file s) && String.eqb (snd (fst j)) (sf_func s)
                    && String.eqb (snd j) v) justified_captures.

Definition site_tagged (s : site_fact) : bool := negb (String.eqb (sf_tag s) "").
Definition site_modelled (s : site_fact) : bool :=
  match site_kind (sf_file s) (sf_func s) with
  | Some k => String.eqb (sf_assert s) (kind_go_type k) && strs_eqb (sf_builders s) (kind_builders k)
  | None => false
  end.
Definition site_key_covers (s : site_fact) : bool :=
  forallb (fun v => str_mem v (sf_key_idents s) || justified s v) (sf_captured s)
  && forallb (fun f => str_mem f allowed_key_calls) (sf_key_calls s).

(* same tag => same asserted type and same builder calls: a key never maps to two artefact types *)
Definition tag_determines_type (sites : list site_fact) : bool :=
  forallb (fun a => forallb (fun b =>
     negb (String.eqb (sf_tag a) (sf_tag b))
     || (String.eqb (sf_assert a) (sf_assert b) && strs_eqb (sf_builders a) (sf_builders b))) sites) sites.

(* the tag table read off the sites: the tag of the first site of each family *)
Fixpoint src_tag (sites : list site_fact) (k : kind) : string :=
  match sites with
  | [] => ""
  | s :: r =>
      match site_kind (sf_file s) (sf_func s) with
      | Some k' => if kind_eqb k k' then sf_tag s else src_tag r k
      | None => src_tag r k
      end
  end.
Definition src_tags (sites : list site_fact) (k : kind) : bytes := str (src_tag sites k).

(* all sites of a family carry that family's tag; every family has a site *)
Definition tags_consistent (sites : list site_fact) : bool :=
  forallb (fun s => match site_kind (sf_file s) (sf_func s) with
                    | Some k => String.eqb (sf_tag s) (src_tag sites k)
                    | None => false end) sites
  && forallb (fun k => existsb (fun s => match site_kind (sf_file s) (sf_func s) with
                                          | Some k' => kind_eqb k k' | None => false end) sites) all_kinds.

Definition sites_ok (sites : list site_fact) : bool :=
  forallb site_tagged sites && forallb site_modelled sites && forallb site_key_covers sites
  && tag_determines_type sites && tags_consistent sites && tags_prefix_free (src_tags sites).
