package c20

// The middleware family: http/middleware.go is an anchor of C20 ("the middleware always runs logging
// and Close").  txhttp.WrapHandler is driven over net/http/httptest with wrapped handlers that return
// normally or END BY PANICKING (http.ErrAbortHandler as httputil.ReverseProxy does on a client
// disconnect, or a plain panic) before / after reading the body and before / after writing, with
// requests whose body is spilled to disk and multipart requests with uploads, keep-files Off, audit
// engine On (serial, JSON lines).  Oracle of the property on the real code: after the exchange the
// listings of TmpDir and UploadDir equal the ones before it and exactly one audit record was written.
// No Gallina term is produced (the deferred clean-up is "ProcessLogging, then Close" = the model's
// "any prefix of calls, then Close"; the Transaction part is what the correspondence cases cover).

import (
	"bytes"
	"fmt"
	"io"
	"log"
	"net/http"
	"net/http/httptest"
	"os"
	"path/filepath"
	"strings"
	"time"

	coraza "github.com/corazawaf/coraza/v3"
	txhttp "github.com/corazawaf/coraza/v3/http"
	"github.com/corazawaf/coraza/v3/verifharness/vh"
)

type httpCaseJ struct {
	Kind   string `json:"kind"`   // "http"
	Driver string `json:"driver"` // recorder | server
	Body   string `json:"body"`   // spilled | multipart | small
	Mode   string `json:"mode"`   // handler behaviour
	// observed
	TmpLeft   []string `json:"obs_tmp_left,omitempty"`
	UpLeft    []string `json:"obs_up_left,omitempty"`
	Records   int      `json:"obs_audit_records"`
	Panicked  string   `json:"obs_panic,omitempty"`
	ClientErr string   `json:"obs_client_err,omitempty"`
}

var httpModes = []string{
	"ok", "ok-read", "abort-first", "abort-after-read", "abort-after-write", "abort-after-read-write",
	"boom-first", "boom-after-read", "boom-after-write",
}

type httpEnv struct {
	base, tmp, up, audit string
	waf                  coraza.WAF
}

func newHTTPEnv(base string) (*httpEnv, error) {
	he := &httpEnv{base: base, tmp: filepath.Join(base, "tmp"), up: filepath.Join(base, "up"), audit: filepath.Join(base, "audit.log")}
	for _, d := range []string{he.tmp, he.up} {
		if err := os.MkdirAll(d, 0o755); err != nil {
			return nil, err
		}
	}
	// the spill directory of a WAF built through the public API is os.TempDir() at construction
	old, had := os.LookupEnv("TMPDIR")
	os.Setenv("TMPDIR", he.tmp)
	defer func() {
		if had {
			os.Setenv("TMPDIR", old)
		} else {
			os.Unsetenv("TMPDIR")
		}
	}()
	directives := fmt.Sprintf(`SecRuleEngine On
SecRequestBodyAccess On
SecRequestBodyLimit 100000
SecRequestBodyInMemoryLimit 8
SecResponseBodyAccess Off
SecUploadDir %s
SecUploadKeepFiles Off
SecAuditEngine On
SecAuditLogParts ABFHZ
SecAuditLogFormat JSON
SecAuditLogType Serial
SecAuditLog %s
SecAction "id:2,phase:2,pass,nolog,setvar:tx.p=+1"
`, he.up, he.audit)
	waf, err := coraza.NewWAF(coraza.NewWAFConfig().WithDirectives(directives))
	if err != nil {
		return nil, err
	}
	he.waf = waf
	return he, nil
}

func (he *httpEnv) records() int {
	b, _ := os.ReadFile(he.audit)
	n := 0
	for _, ln := range strings.Split(string(b), "\n") {
		if strings.TrimSpace(ln) != "" {
			n++
		}
	}
	return n
}

func httpBody(kind string) (string, []byte) {
	switch kind {
	case "multipart":
		return "multipart/form-data; boundary=" + boundary, buildMultipart([]partSpec{{File: true, Size: 30}, {File: false, Size: 4}, {File: true, Size: 12}}, "")
	case "small":
		return "application/x-www-form-urlencoded", []byte("a=1")
	}
	return "application/x-www-form-urlencoded", []byte("a=1&bb=22&ccc=333&dddd=4444&eeeee=55555")
}

func httpHandler(mode string) http.Handler {
	return http.HandlerFunc(func(w http.ResponseWriter, r *http.Request) {
		read := func() { _, _ = io.Copy(io.Discard, r.Body) }
		write := func() { w.Header().Set("Content-Type", "text/plain"); _, _ = w.Write([]byte("hello")) }
		var p any = "boom"
		if strings.HasPrefix(mode, "abort") {
			p = http.ErrAbortHandler
		}
		switch mode {
		case "ok":
			write()
		case "ok-read":
			read()
			write()
		case "abort-first", "boom-first":
			panic(p)
		case "abort-after-read", "boom-after-read":
			read()
			panic(p)
		case "abort-after-write", "boom-after-write":
			write()
			panic(p)
		case "abort-after-read-write":
			read()
			write()
			panic(p)
		}
	})
}

func runHTTPCase(he *httpEnv, c *httpCaseJ) []vh.OracleFailure {
	cleanDir(he.tmp)
	cleanDir(he.up)
	before := he.records()
	ct, body := httpBody(c.Body)
	done := make(chan struct{}, 1)
	wrapped := txhttp.WrapHandler(he.waf, httpHandler(c.Mode))
	outer := http.HandlerFunc(func(w http.ResponseWriter, r *http.Request) {
		defer func() { done <- struct{}{} }() // runs after the middleware's own deferred clean-up, panic or not
		wrapped.ServeHTTP(w, r)
	})
	switch c.Driver {
	case "recorder":
		req := httptest.NewRequest("POST", "http://example.com/upload?x=1", bytes.NewReader(body))
		req.Header.Set("Content-Type", ct)
		rec := httptest.NewRecorder()
		func() {
			defer func() {
				if p := recover(); p != nil {
					c.Panicked = fmt.Sprint(p)
				}
			}()
			outer.ServeHTTP(rec, req)
		}()
	default:
		srv := httptest.NewUnstartedServer(outer)
		srv.Config.ErrorLog = log.New(io.Discard, "", 0)
		srv.Start()
		req, _ := http.NewRequest("POST", srv.URL+"/upload?x=1", bytes.NewReader(body))
		req.Header.Set("Content-Type", ct)
		cl := &http.Client{Timeout: 10 * time.Second}
		resp, err := cl.Do(req)
		if err != nil {
			c.ClientErr = "client error (the server aborted the exchange)"
		} else {
			_, _ = io.Copy(io.Discard, resp.Body)
			resp.Body.Close()
		}
		select {
		case <-done:
		case <-time.After(10 * time.Second):
		}
		srv.Close()
	}
	c.TmpLeft, c.UpLeft = dirNames(he.tmp), dirNames(he.up)
	c.Records = he.records() - before
	var fails []vh.OracleFailure
	if len(c.TmpLeft) != 0 || len(c.UpLeft) != 0 {
		fails = append(fails, vh.OracleFailure{Key: "c20-middleware-files-left", Case: c,
			What: fmt.Sprintf("middleware (%s, %s body, handler %s): after the exchange TmpDir holds %v and UploadDir %v (keep-files Off): the deferred ProcessLogging + Close did not run", c.Driver, c.Body, c.Mode, c.TmpLeft, c.UpLeft)})
	}
	if c.Records != 1 {
		fails = append(fails, vh.OracleFailure{Key: "c20-middleware-audit-records", Case: c,
			What: fmt.Sprintf("middleware (%s, %s body, handler %s): %d audit records written for one exchange, want exactly 1", c.Driver, c.Body, c.Mode, c.Records)})
	}
	cleanDir(he.tmp)
	cleanDir(he.up)
	return fails
}

// runHTTPFamily runs every driver x body x handler mode.
func runHTTPFamily(base string, res *vh.Result) error {
	he, err := newHTTPEnv(filepath.Join(base, "http"))
	if err != nil {
		return err
	}
	for _, drv := range []string{"recorder", "server"} {
		for _, body := range []string{"spilled", "multipart", "small"} {
			for _, mode := range httpModes {
				c := &httpCaseJ{Kind: "http", Driver: drv, Body: body, Mode: mode}
				res.OracleFailures = append(res.OracleFailures, runHTTPCase(he, c)...)
				res.OracleEvaluations++
				res.InputDistribution["http:"+drv+"/"+body]++
			}
		}
	}
	return nil
}
