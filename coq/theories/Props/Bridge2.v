(* Props/Bridge2.v — the theorems of the bridge C09 x C01 and nothing else.
   C09 (Setvar.v) proves "non-disruptive actions run once per match; counters add up exactly" for
   an evaluation whose operator is a parameter and whose number of matched values per link is
   whatever that evaluation finds; C01 (Match.v) defines WHICH values a link matches and proves
   it exact against a declarative specification.  Here Setvar.v's evaluation is instantiated with
   Match.v's pipeline (translation bl_sv / br_sv of a Match.v link decorated with ids and actions,
   operator b2_op X = Match.v's operator semantics on the transformed value) and C09's theorems
   are restated over Match.v's specification.
   Quantification: every operator / regex semantics X, every request (environment e of Setvar.v
   and state st of Match.v describing the same request: b2_agree), every Setvar.v state s, every
   decoration (ids, actions, msg, severity ...), every rule set within the guard b2_link_ok /
   br_ok: targets over ARGS, ARGS_GET, REQUEST_HEADERS, no key or a string key, with or without
   the count '&', no exclusions, no regex keys; any operator of Match.v, negation, any
   transformation list, multiMatch, SecAction links, chains. *)
From Coq Require Import String ZArith Permutation.
From Verif Require Import Base Utf8 Transform Match MatchProofs Setvar SetvarProofs EngineBridge2 EngineBridge2Proofs.
Open Scope N_scope.

(* the same request in both models *)
Theorem Bridge2_request_agrees : forall q, b2_agree (b2_env q) (build1 q).
Proof. exact b2_agree_build1. Qed.
Print Assumptions Bridge2_request_agrees.

(* (1) the matched values Setvar.v's evaluation of a link finds - one execution of the link's
   action list each - are, as (variable, key, transformed value) triples, a permutation of
   Match.v's declarative match data of the link ... *)
Theorem Bridge2_matches_are_c01_satisfying : forall X e st b lvl s s' mds,
  b2_agree e st -> b2_link_ok b = true ->
  Setvar.eval_link (b2_op X) e (bl_sv X b) lvl s = (s', mds) ->
  Permutation (map sv_triple mds) (map m_triple (spec_link_matches X st (bl_m b))).
Proof. exact b2_matches_are_spec. Qed.
Print Assumptions Bridge2_matches_are_c01_satisfying.

(* ... and of the match data Match.v's evaluation computes under any order oracle *)
Theorem Bridge2_matches_are_c01_link_matches : forall X ord e st b lvl s s' mds,
  b2_agree e st -> b2_link_ok b = true -> wf_state st -> ok_oracle ord -> s_excl st = [] ->
  Setvar.eval_link (b2_op X) e (bl_sv X b) lvl s = (s', mds) ->
  Permutation (map sv_triple mds) (map m_triple (Match.link_matches X ord st (bl_m b))).
Proof. exact b2_matches_are_link_matches. Qed.
Print Assumptions Bridge2_matches_are_c01_link_matches.

(* (2) every non-disruptive action of a link runs exactly once per C01-satisfying value *)
Theorem Bridge2_once_per_satisfying_value : forall X e st b lvl s s' mds,
  b2_agree e st -> b2_link_ok b = true ->
  Setvar.eval_link (b2_op X) e (bl_sv X b) lvl s = (s', mds) ->
  exists new, s_trace s' = new ++ s_trace s /\
    forall i a, nth_error (Setvar.l_actions (bl_d b)) i = Some a -> is_nd a = true ->
                count_tag (lvl, i) (act_tags new) = List.length (spec_link_matches X st (bl_m b)).
Proof. exact b2_once_per_satisfying_value. Qed.
Print Assumptions Bridge2_once_per_satisfying_value.

(* a whole rule: action i of link k runs once per C01-satisfying value of link k when the chain
   walk reaches it (every earlier link has one), not at all otherwise; the starter's flow /
   disruptive actions and MatchRule run once iff every link has a C01-satisfying value *)
Theorem Bridge2_rule_once_per_satisfying_value : forall X e st r s,
  b2_agree e st -> br_ok r = true ->
  exists new, s_trace (Setvar.eval_rule (b2_op X) e (br_sv X r) s) = new ++ s_trace s /\
    (forall k b i a, nth_error (br_links r) k = Some b -> nth_error (Setvar.l_actions (bl_d b)) i = Some a -> is_nd a = true ->
       count_tag (k, i) (act_tags new) = nth k (b2_chain_counts X st (br_links r)) 0%nat) /\
    fd_events new =
      if b2_all_match X st (br_links r)
      then (if (Setvar.l_id (bl_d (br_head r)) =? 0)%Z then [] else [EvRuleMatched (Setvar.l_id (bl_d (br_head r)))])
           ++ rev (fd_names (Setvar.l_actions (bl_d (br_head r))))
      else [].
Proof. exact b2_rule_once_per_satisfying_value. Qed.
Print Assumptions Bridge2_rule_once_per_satisfying_value.

(* "every link has a C01-satisfying value" is C01's link_holds for every link (the right-hand side
   of C01_fires_iff_declarative) *)
Theorem Bridge2_all_match_iff_links_hold : forall X st bs,
  b2_all_match X st bs = true <-> Forall (fun b => link_holds X st (bl_m b)) bs.
Proof. exact b2_all_match_holds. Qed.
Print Assumptions Bridge2_all_match_iff_links_hold.

(* the number of C01-satisfying values of a covered link depends on the request only *)
Theorem Bridge2_count_request_only : forall X e st st' b,
  b2_agree e st -> b2_agree e st' -> b2_link_ok b = true -> b2_count X st b = b2_count X st' b.
Proof. exact b2_count_request_only. Qed.
Print Assumptions Bridge2_count_request_only.

(* (3) C09_sum over Match.v's specification, under C09_sum's own hypotheses (every action moves
   the counter by a literal +N / -N or cannot reach it: rule_ok; no int64 overflow): the final
   counter is the initial one plus, over the rules the transaction evaluates (b2_tx_sum follows
   RuleGroup.Eval: phases 1..5, configuration order, nothing after an interruption) and the
   links the chain walk reaches, delta(link) x |C01-satisfying values of the link| *)
Theorem Bridge2_sum_over_c01_matches : forall X e st c rs s z,
  has_nondigit c = true ->
  b2_agree e st -> forallb br_ok rs = true ->
  forallb (rule_ok op c) (map (br_sv X) rs) = true ->
  tx_counter (s_tx s) c = Some z ->
  (Z.abs z + b2_tx_sum (link_abs op c) X st e rs s < two63)%Z ->
  tx_counter (s_tx (Setvar.eval_tx (b2_op X) e (map (br_sv X) rs) s)) c =
    Some (z + b2_tx_sum (link_delta op c) X st e rs s)%Z.
Proof. exact b2_sum_over_c01_matches. Qed.
Print Assumptions Bridge2_sum_over_c01_matches.

(* ... and when no rule carries an interrupting disruptive action (anomaly scoring: pass / block
   decided by a later rule): a plain sum, no reference to any Setvar.v state *)
Theorem Bridge2_sum_over_c01_matches_no_interruption : forall X e st c rs s z,
  has_nondigit c = true ->
  b2_agree e st -> forallb br_ok rs = true -> forallb br_no_deny rs = true -> s_interrupted s = None ->
  forallb (rule_ok op c) (map (br_sv X) rs) = true ->
  tx_counter (s_tx s) c = Some z ->
  (Z.abs z + b2_plain_tx_sum (link_abs op c) X st rs < two63)%Z ->
  tx_counter (s_tx (Setvar.eval_tx (b2_op X) e (map (br_sv X) rs) s)) c =
    Some (z + b2_plain_tx_sum (link_delta op c) X st rs)%Z.
Proof. exact b2_sum_plain. Qed.
Print Assumptions Bridge2_sum_over_c01_matches_no_interruption.

