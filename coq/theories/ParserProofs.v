(* ParserProofs.v — lemmas and proofs about the SecLang text-layer model (Parser.v). *)
From Coq Require Import String.
From Verif Require Import Base Parser.
Open Scope N_scope.
Local Notation length := List.length.

(* ------------------------------------------------------------------------------------ *)
(* small helpers                                                                        *)
(* ------------------------------------------------------------------------------------ *)
Lemma p_rev_eq l : p_rev l = rev l.
Proof. unfold p_rev. symmetry. apply rev_alt. Qed.

Lemma p_trim_right_eq s : p_trim_right s = rev (p_trim_left_rev (rev s)).
Proof. unfold p_trim_right. now rewrite !p_rev_eq. Qed.

Lemma eqb_false_ne a b : (a =? b) = false -> a <> b.
Proof. apply N.eqb_neq. Qed.

Lemma p_last_app s c : p_last (s ++ [c]) = c.
Proof. unfold p_last. apply last_last. Qed.

Lemma p_last_cons_app a s c : p_last (a :: s ++ [c]) = c.
Proof. change (a :: s ++ [c]) with ((a :: s) ++ [c]). apply p_last_app. Qed.

Lemma removelast_cons_app {A} (a : A) s c : removelast (a :: s ++ [c]) = a :: s.
Proof. change (a :: s ++ [c]) with ((a :: s) ++ [c]). apply removelast_last. Qed.

Lemma no_byte_app ch a b : no_byte ch (a ++ b) = no_byte ch a && no_byte ch b.
Proof. unfold no_byte. apply forallb_app. Qed.

Lemma no_byte_cons ch c s : no_byte ch (c :: s) = negb (c =? ch) && no_byte ch s.
Proof. reflexivity. Qed.

(* ------------------------------------------------------------------------------------ *)
(* Part 1: the quoted operator token (cutQuotedString + MaybeRemoveQuotes + Unescape)   *)
(* ------------------------------------------------------------------------------------ *)
Lemma escape_dq_head_not_quote s : match escape_dq s with c :: _ => (c =? cDQ) = false | [] => True end.
Proof.
  destruct s as [|c s]; cbn [escape_dq]; [exact I|].
  destruct (c =? cDQ) eqn:E; [reflexivity | exact E].
Qed.

Lemma unescape_cons2 c d s :
  unescape_quoted_string (c :: d :: s) =
  if (c =? cBS) && (d =? cDQ) then cDQ :: unescape_quoted_string s else c :: unescape_quoted_string (d :: s).
Proof. reflexivity. Qed.

(* unconditional: the unescaper undoes the escaper on every text *)
Lemma unescape_escape s : unescape_quoted_string (escape_dq s) = s.
Proof.
  induction s as [|c s IH]; [reflexivity|].
  cbn [escape_dq]. destruct (c =? cDQ) eqn:EQ.
  - apply N.eqb_eq in EQ. subst c.
    change (unescape_quoted_string (cBS :: cDQ :: escape_dq s)) with (cDQ :: unescape_quoted_string (escape_dq s)).
    now rewrite IH.
  - pose proof (escape_dq_head_not_quote s) as Hh.
    destruct (escape_dq s) as [|d X] eqn:EX.
    + cbn in IH. subst s. reflexivity.
    + rewrite unescape_cons2, Hh, andb_false_r. now rewrite IH.
Qed.

Lemma cut_body_escape s rest : forall e, wf_esc s e = true ->
  cut_body (escape_dq s ++ cDQ :: rest) e = Some (escape_dq s, rest).
Proof.
  induction s as [|c s IH]; intros e H.
  - cbn [wf_esc] in H. apply negb_true_iff in H. subst e. reflexivity.
  - cbn [wf_esc] in H. cbn [escape_dq]. destruct (c =? cDQ) eqn:EQ.
    + apply andb_prop in H as [He H]. apply negb_true_iff in He. subst e.
      apply N.eqb_eq in EQ. subst c.
      cbn [app cut_body]. change (cBS =? cDQ) with false. change (cBS =? cBS) with true. cbn [negb].
      change (cDQ =? cDQ) with true. cbn match. rewrite (IH false H). reflexivity.
    + cbn [app cut_body]. rewrite EQ. destruct (c =? cBS) eqn:EB.
      * rewrite (IH _ H). reflexivity.
      * rewrite (IH _ H). reflexivity.
Qed.

Theorem cut_quoted_roundtrip s rest : wf_esc s false = true ->
  cut_quoted_string (cDQ :: escape_dq s ++ cDQ :: rest) = Some (cDQ :: escape_dq s ++ [cDQ], rest).
Proof.
  intros H. unfold cut_quoted_string. change (cDQ =? cDQ) with true. cbn match.
  rewrite (cut_body_escape s rest false H). reflexivity.
Qed.

Lemma maybe_remove_quotes_wrapped q s :
  (q = cDQ \/ q = cSQ) -> maybe_remove_quotes (q :: s ++ [q]) = s.
Proof.
  intros Hq. unfold maybe_remove_quotes.
  destruct s as [|a s].
  - cbn [app]. unfold p_last. cbn [last]. rewrite N.eqb_refl.
    destruct Hq; subst q; reflexivity.
  - cbn [app]. rewrite (p_last_cons_app a s q), N.eqb_refl, andb_true_r.
    rewrite (removelast_cons_app a s q).
    destruct Hq; subst q; reflexivity.
Qed.

(* the scanner refuses a token without a closing quote *)
Lemma cut_body_no_quote s : forall e, no_byte cDQ s = true -> cut_body s e = None.
Proof.
  induction s as [|c s IH]; intros e H; [reflexivity|].
  rewrite no_byte_cons in H. apply andb_prop in H as [Hc Hs]. apply negb_true_iff in Hc.
  cbn [cut_body]. rewrite Hc. rewrite (IH _ Hs). reflexivity.
Qed.

(* whatever the scanner cuts is a prefix of the input: nothing is dropped or altered *)
Lemma cut_body_lossless s : forall e a r, cut_body s e = Some (a, r) -> s = a ++ cDQ :: r.
Proof.
  induction s as [|c s IH]; intros e a r H; [discriminate|].
  cbn [cut_body] in H. destruct (c =? cDQ) eqn:EQ.
  - destruct e.
    + destruct (cut_body s false) as [[a' r']|] eqn:E; [|discriminate].
      cbn in H. inversion H; subst. rewrite (IH _ _ _ E). reflexivity.
    + inversion H; subst. apply N.eqb_eq in EQ. subst c. reflexivity.
  - destruct (cut_body s _) as [[a' r']|] eqn:E; [|discriminate].
    cbn in H. inversion H; subst. rewrite (IH _ _ _ E). reflexivity.
Qed.

Lemma cut_quoted_lossless s tok r : cut_quoted_string s = Some (tok, r) -> s = tok ++ r.
Proof.
  unfold cut_quoted_string. destruct s as [|c s]; [discriminate|].
  destruct (c =? cDQ) eqn:EQ; [|discriminate].
  destruct (cut_body s false) as [[a r']|] eqn:E; [|discriminate].
  cbn. intros H. inversion H; subst. apply N.eqb_eq in EQ. subst c.
  rewrite (cut_body_lossless _ _ _ _ E). cbn [app]. rewrite <- app_assoc. reflexivity.
Qed.

(* ------------------------------------------------------------------------------------ *)
(* Part 2: trimming                                                                     *)
(* ------------------------------------------------------------------------------------ *)
(* an ASCII byte that is not white space *)
Definition nsp (c : N) : bool := (c <? 128) && negb (p_is_ascii_space c).

Lemma p_trim_left_nsp c r : nsp c = true -> p_trim_left (c :: r) = c :: r.
Proof.
  unfold nsp. intros H. apply andb_prop in H as [H1 H2]. apply negb_true_iff in H2.
  apply N.ltb_lt in H1.
  cbn [p_trim_left]. rewrite H2. destruct r as [|b r2]; [reflexivity|].
  assert (E1 : (c =? 194) = false) by (apply N.eqb_neq; lia).
  unfold p_is_sp2. rewrite E1. cbn [andb]. destruct r2 as [|d r3]; [reflexivity|].
  assert (E2 : (c =? 225) = false) by (apply N.eqb_neq; lia).
  assert (E3 : (c =? 226) = false) by (apply N.eqb_neq; lia).
  assert (E4 : (c =? 227) = false) by (apply N.eqb_neq; lia).
  unfold p_is_sp3. rewrite E2, E3, E4. reflexivity.
Qed.

Lemma p_trim_left_rev_nsp c r : nsp c = true -> p_trim_left_rev (c :: r) = c :: r.
Proof.
  unfold nsp. intros H. apply andb_prop in H as [H1 H2]. apply negb_true_iff in H2.
  apply N.ltb_lt in H1.
  cbn [p_trim_left_rev]. rewrite H2. destruct r as [|b r2]; [reflexivity|].
  assert (E1 : (c =? 133) = false) by (apply N.eqb_neq; lia).
  assert (E2 : (c =? 160) = false) by (apply N.eqb_neq; lia).
  unfold p_is_sp2. rewrite E1, E2. rewrite andb_false_r. destruct r2 as [|d r3]; [reflexivity|].
  assert (E3 : (c =? 128) = false) by (apply N.eqb_neq; lia).
  assert (E4 : (128 <=? c) = false) by (apply N.leb_gt; lia).
  assert (E5 : (c =? 168) = false) by (apply N.eqb_neq; lia).
  assert (E6 : (c =? 169) = false) by (apply N.eqb_neq; lia).
  assert (E7 : (c =? 175) = false) by (apply N.eqb_neq; lia).
  assert (E8 : (c =? 159) = false) by (apply N.eqb_neq; lia).
  unfold p_is_sp3. rewrite E3, E4, E5, E6, E7, E8. cbn [andb orb].
  rewrite !andb_false_r. reflexivity.
Qed.

Lemma p_trim_space_id s a : s <> [] -> nsp (hd a s) = true -> nsp (p_last s) = true -> p_trim_space s = s.
Proof.
  intros Hne Hh Hl. unfold p_trim_space.
  destruct s as [|c r]; [congruence|]. cbn [hd] in Hh. rewrite (p_trim_left_nsp c r Hh).
  rewrite p_trim_right_eq.
  destruct (rev (c :: r)) as [|x y] eqn:ER.
  - apply (f_equal (@rev N)) in ER. rewrite rev_involutive in ER. discriminate.
  - assert (x = p_last (c :: r)).
    { apply (f_equal (@rev N)) in ER. rewrite rev_involutive in ER. rewrite ER. cbn [rev].
      now rewrite p_last_app. }
    subst x. rewrite (p_trim_left_rev_nsp _ y Hl). rewrite <- ER. apply rev_involutive.
Qed.

Lemma p_trim_left_pad pad s : is_pad pad = true -> p_trim_left (pad ++ s) = p_trim_left s.
Proof.
  induction pad as [|c pad IH]; intros H; [reflexivity|].
  cbn [is_pad forallb] in H. apply andb_prop in H as [Hc Hp].
  cbn [app p_trim_left].
  assert (Hs : p_is_ascii_space c = true).
  { unfold p_is_ascii_space. apply orb_prop in Hc as [Hc|Hc]; unfold cSP, cTAB in Hc;
      apply N.eqb_eq in Hc; subst c; reflexivity. }
  rewrite Hs. apply IH. exact Hp.
Qed.

Lemma p_trim_space_pad pad s : is_pad pad = true -> p_trim_space (pad ++ s) = p_trim_space s.
Proof. intros H. unfold p_trim_space. now rewrite p_trim_left_pad. Qed.

(* strings.Trim(s, " ") / TrimLeft(s, " ") *)
Lemma p_drop_char_spaces n ch s : p_drop_char ch (repeat ch n ++ s) = p_drop_char ch s.
Proof. induction n as [|n IH]; [reflexivity|]. cbn [repeat app p_drop_char]. now rewrite N.eqb_refl. Qed.

Lemma p_drop_char_ne ch c s : (c =? ch) = false -> p_drop_char ch (c :: s) = c :: s.
Proof. intros H. cbn [p_drop_char]. now rewrite H. Qed.

Lemma p_trim_char_id ch s a : s <> [] -> (hd a s =? ch) = false -> (p_last s =? ch) = false ->
  p_trim_char ch s = s.
Proof.
  intros Hne Hh Hl. unfold p_trim_char. destruct s as [|c r]; [congruence|]. cbn [hd] in Hh.
  rewrite (p_drop_char_ne ch c r Hh).
  destruct (rev (c :: r)) as [|x y] eqn:ER.
  - apply (f_equal (@rev N)) in ER. rewrite rev_involutive in ER. discriminate.
  - assert (x = p_last (c :: r)).
    { apply (f_equal (@rev N)) in ER. rewrite rev_involutive in ER. rewrite ER. cbn [rev].
      now rewrite p_last_app. }
    subst x. rewrite (p_drop_char_ne ch _ y Hl). rewrite <- ER. apply rev_involutive.
Qed.

(* strings.Cut at the first separator *)
Lemma p_cut_app ch a b : no_byte ch a = true -> p_cut ch (a ++ ch :: b) = (a, b, true).
Proof.
  induction a as [|c a IH]; intros H.
  - cbn [app p_cut]. now rewrite N.eqb_refl.
  - rewrite no_byte_cons in H. apply andb_prop in H as [Hc Ha]. apply negb_true_iff in Hc.
    cbn [app p_cut]. rewrite Hc. now rewrite (IH Ha).
Qed.

Lemma p_cut_none ch a : no_byte ch a = true -> p_cut ch a = (a, [], false).
Proof.
  induction a as [|c a IH]; intros H; [reflexivity|].
  rewrite no_byte_cons in H. apply andb_prop in H as [Hc Ha]. apply negb_true_iff in Hc.
  cbn [p_cut]. rewrite Hc. now rewrite (IH Ha).
Qed.

(* ------------------------------------------------------------------------------------ *)
(* Part 3: parseActionOperator on a rendered rule                                       *)
(* ------------------------------------------------------------------------------------ *)
Lemma p_is_quoted_dq_wrapped s : p_is_quoted_dq (cDQ :: s ++ [cDQ]) = true.
Proof.
  unfold p_is_quoted_dq. destruct s as [|a s]; [reflexivity|].
  cbn [app]. now rewrite (p_last_cons_app a s cDQ).
Qed.

Lemma hd_app_ne {A} (a : A) (s t : list A) : s <> [] -> hd a (s ++ t) = hd a s.
Proof. destruct s; [congruence|reflexivity]. Qed.

Lemma pao_render vars body acts g1 g2 :
  vars <> [] -> no_byte cSP vars = true -> wf_esc body false = true ->
  parse_action_operator
    (vars ++ cSP :: p_spaces g1 ++ cDQ :: escape_dq body ++ cDQ :: cSP :: p_spaces g2 ++ cDQ :: acts ++ [cDQ])
  = Some (vars, body, acts).
Proof.
  intros Hne Hsp Hwf. unfold parse_action_operator.
  set (data := vars ++ cSP :: p_spaces g1 ++ cDQ :: escape_dq body ++ cDQ :: cSP :: p_spaces g2 ++ cDQ :: acts ++ [cDQ]).
  assert (Hd : p_trim_char cSP data = data).
  { apply (p_trim_char_id cSP data 0).
    - unfold data. destruct vars; [congruence|discriminate].
    - unfold data. rewrite hd_app_ne by exact Hne. destruct vars as [|c v]; [congruence|].
      rewrite no_byte_cons in Hsp. apply andb_prop in Hsp as [Hc _]. now apply negb_true_iff in Hc.
    - unfold data.
      replace (vars ++ cSP :: p_spaces g1 ++ cDQ :: escape_dq body ++ cDQ :: cSP :: p_spaces g2 ++ cDQ :: acts ++ [cDQ])
        with ((vars ++ cSP :: p_spaces g1 ++ cDQ :: escape_dq body ++ cDQ :: cSP :: p_spaces g2 ++ cDQ :: acts) ++ [cDQ]).
      + rewrite p_last_app. reflexivity.
      + repeat (rewrite <- ?app_assoc; cbn [app]). reflexivity. }
  rewrite Hd. unfold data. rewrite (p_cut_app cSP vars _ Hsp). cbn [negb].
  unfold p_spaces. rewrite p_drop_char_spaces.
  rewrite (p_drop_char_ne cSP cDQ) by reflexivity.
  rewrite (cut_quoted_roundtrip body _ Hwf).
  rewrite maybe_remove_quotes_wrapped by (left; reflexivity).
  rewrite unescape_escape.
  change (cSP :: repeat cSP g2 ++ cDQ :: acts ++ [cDQ]) with (repeat cSP (S g2) ++ cDQ :: acts ++ [cDQ]).
  rewrite p_drop_char_spaces. rewrite (p_drop_char_ne cSP cDQ) by reflexivity.
  rewrite p_is_quoted_dq_wrapped.
  rewrite maybe_remove_quotes_wrapped by (left; reflexivity). reflexivity.
Qed.

(* ------------------------------------------------------------------------------------ *)
(* Part 4: ParseOperator                                                                *)
(* ------------------------------------------------------------------------------------ *)
Definition alnum_ (c : N) : bool :=
  ((48 <=? c) && (c <=? 57)) || ((65 <=? c) && (c <=? 90)) || ((97 <=? c) && (c <=? 122)) || (c =? 95).

Lemma p_mem_In k l : p_mem k l = true -> In k l.
Proof.
  induction l as [|x l IH]; [discriminate|]. cbn [p_mem]. intros H. apply orb_prop in H as [H|H].
  - left. symmetry. now apply bytes_eqb_eq.
  - right. now apply IH.
Qed.

Lemma p_assoc_In {A} k (l : list (bytes * A)) v : p_assoc k l = Some v -> In (k, v) l.
Proof.
  induction l as [|[k' v'] l IH]; [discriminate|]. cbn [p_assoc].
  destruct (bytes_eqb k k') eqn:E.
  - intros H. inversion H; subst. apply bytes_eqb_eq in E. subst. now left.
  - intros H. right. now apply IH.
Qed.

Definition name_ok (n : bytes) : bool := forallb alnum_ n && negb (match n with [] => true | _ => false end).

Lemma operator_names_ok : forallb name_ok operator_table = true.
Proof. vm_compute. reflexivity. Qed.

Lemma operator_known_ok name : operator_known name = true -> forallb alnum_ name = true /\ name <> [].
Proof.
  intros H. apply p_mem_In in H.
  pose proof (proj1 (forallb_forall name_ok operator_table) operator_names_ok name H) as Hk.
  unfold name_ok in Hk. apply andb_prop in Hk as [H1 H2]. split; [exact H1|].
  destruct name; [discriminate|congruence].
Qed.

Lemma alnum_nsp c : alnum_ c = true -> nsp c = true.
Proof.
  unfold alnum_, nsp, p_is_ascii_space. intros H.
  repeat match goal with
  | H : _ || _ = true |- _ => apply orb_prop in H as [H|H]
  | H : _ && _ = true |- _ => apply andb_prop in H as [? ?]
  end;
  repeat match goal with
  | H : (_ <=? _) = true |- _ => apply N.leb_le in H
  | H : (_ =? _) = true |- _ => apply N.eqb_eq in H
  end;
  (apply andb_true_intro; split; [apply N.ltb_lt; lia|]);
  apply negb_true_iff; repeat (apply orb_false_intro); apply N.eqb_neq; lia.
Qed.

Lemma alnum_ne c ch : alnum_ c = true -> alnum_ ch = false -> (c =? ch) = false.
Proof. intros H1 H2. apply N.eqb_neq. intros E. subst. congruence. Qed.

Lemma forallb_alnum_no_byte s ch : forallb alnum_ s = true -> alnum_ ch = false -> no_byte ch s = true.
Proof.
  intros H Hc. unfold no_byte. apply forallb_forall. intros x Hx.
  apply negb_true_iff. apply alnum_ne; [|exact Hc]. exact (proj1 (forallb_forall _ _) H x Hx).
Qed.

Lemma last_alnum s d : forallb alnum_ s = true -> s <> [] -> alnum_ (last s d) = true.
Proof.
  intros H Hne. apply (proj1 (forallb_forall _ _) H).
  destruct s as [|c s]; [congruence|]. clear.
  revert c. induction s as [|x s IH]; intros c; [now left|]. right. apply IH.
Qed.

Lemma last_app_ne {A} (a b : list A) d : b <> [] -> last (a ++ b) d = last b d.
Proof.
  intros Hb. induction a as [|x a IH]; [reflexivity|].
  cbn [app]. destruct (a ++ b) eqn:E.
  - destruct a; [cbn in E; congruence|discriminate].
  - exact IH.
Qed.

Lemma po_render name neg arg :
  operator_known name = true -> p_trim_space arg = arg ->
  parse_operator (op_prefix neg ++ name ++ match arg with [] => [] | _ => cSP :: arg end)
  = Some (mk_op (op_prefix neg ++ name) name neg arg).
Proof.
  intros Hk Ht. destruct (operator_known_ok name Hk) as [Hal Hne].
  assert (Hnsp : no_byte cSP (op_prefix neg ++ name) = true).
  { rewrite no_byte_app. rewrite (forallb_alnum_no_byte name cSP Hal eq_refl).
    destruct neg; reflexivity. }
  assert (Htrim : p_trim_space (op_prefix neg ++ name) = op_prefix neg ++ name).
  { apply (p_trim_space_id _ 0).
    - destruct neg; discriminate.
    - destruct neg; reflexivity.
    - unfold p_last. rewrite last_app_ne by exact Hne. apply alnum_nsp. now apply last_alnum. }
  unfold parse_operator.
  assert (Hn : po_normalise (op_prefix neg ++ name ++ match arg with [] => [] | _ => cSP :: arg end)
               = op_prefix neg ++ name ++ match arg with [] => [] | _ => cSP :: arg end).
  { destruct name as [|n0 name]; [congruence|]. destruct neg; reflexivity. }
  rewrite Hn. clear Hn.
  assert (Hcut : p_cut cSP (op_prefix neg ++ name ++ match arg with [] => [] | _ => cSP :: arg end)
                 = (op_prefix neg ++ name, arg, match arg with [] => false | _ => true end)).
  { destruct arg as [|a0 arg].
    - rewrite app_nil_r. apply p_cut_none. exact Hnsp.
    - rewrite app_assoc. apply p_cut_app. exact Hnsp. }
  rewrite Hcut. rewrite Htrim, Ht.
  destruct name as [|n0 name]; [congruence|].
  destruct neg; cbn [op_prefix app]; unfold cBANG, cAT; cbn [N.eqb Pos.eqb andb]; rewrite Hk; reflexivity.
Qed.

Lemma escape_dq_app_noq a b : no_byte cDQ a = true -> escape_dq (a ++ b) = a ++ escape_dq b.
Proof.
  induction a as [|c a IH]; intros H; [reflexivity|].
  rewrite no_byte_cons in H. apply andb_prop in H as [Hc Ha]. apply negb_true_iff in Hc.
  cbn [app escape_dq]. rewrite Hc. now rewrite (IH Ha).
Qed.

Lemma wf_esc_app_plain a b :
  no_byte cDQ a = true -> no_byte cBS a = true -> wf_esc b false = true -> wf_esc (a ++ b) false = true.
Proof.
  induction a as [|c a IH]; intros H1 H2 H3; [exact H3|].
  rewrite no_byte_cons in H1, H2. apply andb_prop in H1 as [Hc1 Ha1]. apply andb_prop in H2 as [Hc2 Ha2].
  apply negb_true_iff in Hc1, Hc2. cbn [app wf_esc]. rewrite Hc1, Hc2. now apply IH.
Qed.

(* ------------------------------------------------------------------------------------ *)
(* Part 5: parseActions on a rendered action list                                       *)
(* ------------------------------------------------------------------------------------ *)
Definition plain_key (c : N) : bool :=
  negb (c =? cSQ) && negb (c =? cCOLON) && negb (c =? cCOMMA) && negb (c =? cBS).
Definition plain_val (c : N) : bool := negb (c =? cSQ) && negb (c =? cCOMMA) && negb (c =? cBS).

Lemma last_cons {A} (c : A) k d : last (c :: k) d = last k c.
Proof. revert c d. induction k as [|x k IH]; intros c d; [reflexivity|]. cbn [last] in *. destruct k; [reflexivity|]. apply IH. Qed.

Lemma plain_key_split c : plain_key c = true ->
  (c =? cSQ) = false /\ (c =? cCOLON) = false /\ (c =? cCOMMA) = false /\ (c =? cBS) = false.
Proof.
  unfold plain_key. intros H. repeat (apply andb_prop in H as [H ?]).
  repeat match goal with H : negb _ = true |- _ => apply negb_true_iff in H end. auto.
Qed.
Lemma plain_val_split c : plain_val c = true ->
  (c =? cSQ) = false /\ (c =? cCOMMA) = false /\ (c =? cBS) = false.
Proof.
  unfold plain_val. intros H. repeat (apply andb_prop in H as [H ?]).
  repeat match goal with H : negb _ = true |- _ => apply negb_true_iff in H end. auto.
Qed.

Lemma pa_loop_key k : forall s prev key, (prev =? cBS) = false -> forallb plain_key k = true ->
  pa_loop (k ++ s) prev false key None = pa_loop s (last k prev) false (rev k ++ key) None.
Proof.
  induction k as [|c k IH]; intros s prev key Hp Hk; [reflexivity|].
  cbn [forallb] in Hk. apply andb_prop in Hk as [Hc Hk]. destruct (plain_key_split c Hc) as (E1 & E2 & E3 & E4).
  cbn [app pa_loop pa_push]. rewrite Hp, E1, E2, E3.
  rewrite (IH s c (c :: key) E4 Hk). rewrite last_cons. cbn [rev]. now rewrite <- app_assoc.
Qed.

Lemma pa_loop_val k : forall s prev key v, (prev =? cBS) = false -> forallb plain_val k = true ->
  pa_loop (k ++ s) prev false key (Some v) = pa_loop s (last k prev) false key (Some (rev k ++ v)).
Proof.
  induction k as [|c k IH]; intros s prev key v Hp Hk; [reflexivity|].
  cbn [forallb] in Hk. apply andb_prop in Hk as [Hc Hk]. destruct (plain_val_split c Hc) as (E1 & E3 & E4).
  cbn [app pa_loop pa_push]. rewrite Hp, E1, E3.
  destruct (c =? cCOLON); (etransitivity; [exact (IH s c key (c :: v) E4 Hk)|]); rewrite last_cons; cbn [rev];
    now rewrite <- app_assoc.
Qed.

Lemma pa_loop_inq val : forall s p key v, wf_qvalue val p = true ->
  pa_loop (val ++ cSQ :: s) p true key (Some v) = pa_loop s cSQ false key (Some (cSQ :: rev val ++ v)).
Proof.
  induction val as [|c val IH]; intros s p key v H.
  - cbn [wf_qvalue] in H. apply negb_true_iff in H.
    cbn [app pa_loop pa_push]. rewrite H. change (cSQ =? cSQ) with true. reflexivity.
  - cbn [wf_qvalue] in H. apply andb_prop in H as [Hc H].
    cbn [app pa_loop pa_push]. destruct (p =? cBS) eqn:Ep.
    + etransitivity; [exact (IH s c key (c :: v) H)|]. cbn [rev]. now rewrite <- app_assoc.
    + destruct (c =? cSQ) eqn:Ec; [discriminate|].
      etransitivity; [exact (IH s c key (c :: v) H)|]. cbn [rev]. now rewrite <- app_assoc.
Qed.

Lemma wf_uvalue_scan_last val : forall p, wf_uvalue_scan val p = true -> (last val p =? cBS) = false.
Proof.
  induction val as [|c val IH]; intros p H.
  - cbn [wf_uvalue_scan] in H. now apply negb_true_iff in H.
  - cbn [wf_uvalue_scan] in H. apply andb_prop in H as [_ H]. rewrite last_cons. now apply IH.
Qed.

Lemma pa_loop_uval val : forall s p key v, wf_uvalue_scan val p = true ->
  pa_loop (val ++ s) p false key (Some v) = pa_loop s (last val p) false key (Some (rev val ++ v)).
Proof.
  induction val as [|c val IH]; intros s p key v H; [reflexivity|].
  cbn [wf_uvalue_scan] in H. apply andb_prop in H as [Hc H].
  cbn [app pa_loop pa_push]. rewrite last_cons.
  destruct (p =? cBS) eqn:Ep.
  - etransitivity; [exact (IH s c key (c :: v) H)|]. cbn [rev]. now rewrite <- app_assoc.
  - destruct (c =? cSQ) eqn:E1; [discriminate|]. destruct (c =? cCOMMA) eqn:E2; [discriminate|].
    destruct (c =? cCOLON); (etransitivity; [exact (IH s c key (c :: v) H)|]); cbn [rev]; now rewrite <- app_assoc.
Qed.

Lemma wf_uvalue_scan_prev s p q : (p =? cBS) = false -> (q =? cBS) = false ->
  wf_uvalue_scan s p = wf_uvalue_scan s q.
Proof. intros Hp Hq. destruct s as [|c r]; cbn [wf_uvalue_scan]; now rewrite Hp, Hq. Qed.

(* the raw slices parseActions cuts out of a rendered action *)
Definition raw_key (v : avar) (a : action) : bytes := av_pad v ++ vary_case (av_mask v) (a_name a).
Definition raw_val (v : avar) (a : action) : bytes :=
  match a_value a with
  | [] => []
  | val => av_pad v ++ (if av_quote v then cSQ :: val ++ [cSQ] else val)
  end.
Fixpoint raws (vs : list avar) (al : list action) : list (bytes * bytes) :=
  match al with
  | [] => []
  | a :: r => (raw_key (hd avar_plain vs) a, raw_val (hd avar_plain vs) a) :: raws (tl vs) r
  end.

Lemma render_action_eq v a :
  render_action v a = raw_key v a ++ match a_value a with [] => [] | _ => cCOLON :: raw_val v a end.
Proof. unfold render_action, raw_key, raw_val. destruct (a_value a); now rewrite <- app_assoc. Qed.

Lemma is_pad_plain pad : is_pad pad = true -> forallb plain_val pad = true /\ forallb plain_key pad = true.
Proof.
  induction pad as [|c pad IH]; intros H; [split; reflexivity|].
  cbn [is_pad forallb] in H. apply andb_prop in H as [Hc Hp]. destruct (IH Hp) as [I1 I2].
  cbn [forallb]. rewrite I1, I2.
  apply orb_prop in Hc as [Hc|Hc]; apply N.eqb_eq in Hc; subst c; split; reflexivity.
Qed.

Lemma is_pad_last pad p : is_pad pad = true -> (p =? cBS) = false -> (last pad p =? cBS) = false.
Proof.
  revert p. induction pad as [|c pad IH]; intros p H Hp; [exact Hp|].
  cbn [is_pad forallb] in H. apply andb_prop in H as [Hc Hpad]. rewrite last_cons. apply IH; [exact Hpad|].
  apply orb_prop in Hc as [Hc|Hc]; apply N.eqb_eq in Hc; subst c; reflexivity.
Qed.

(* scanning the value part of one action (after its key), up to what follows it *)
Lemma pa_value v a key prev s :
  wf_avar v a = true -> wf_qvalue (a_value a) cSQ = true -> a_value a <> [] -> (prev =? cBS) = false ->
  exists prev', (prev' =? cBS) = false /\
  pa_loop (cCOLON :: raw_val v a ++ s) prev false key None
  = pa_loop s prev' false key (Some (rev (raw_val v a))).
Proof.
  intros Hv Hq Hne Hprev. unfold wf_avar in Hv. apply andb_prop in Hv as [Hpad Hqu].
  destruct (is_pad_plain _ Hpad) as [Hpv _].
  unfold raw_val. destruct (a_value a) as [|v0 val] eqn:EV; [congruence|]. clear Hne.
  set (vv := v0 :: val) in *.
  cbn [pa_loop pa_push]. rewrite Hprev. change (cCOLON =? cSQ) with false. change (cCOLON =? cCOLON) with true.
  cbn match. rewrite <- app_assoc.
  rewrite (pa_loop_val (av_pad v) _ cCOLON key [] eq_refl Hpv).
  assert (Hlp : (last (av_pad v) cCOLON =? cBS) = false) by (apply is_pad_last; [exact Hpad|reflexivity]).
  destruct (av_quote v) eqn:EQ.
  - exists cSQ. split; [reflexivity|].
    cbn [app pa_loop pa_push]. rewrite Hlp. change (cSQ =? cSQ) with true. cbn match. cbn [negb].
    rewrite <- app_assoc. cbn [app].
    rewrite (pa_loop_inq vv s cSQ key _ Hq).
    f_equal. f_equal. rewrite rev_app_distr. cbn [rev app]. rewrite rev_app_distr. cbn [rev app].
    rewrite app_nil_r. rewrite <- !app_assoc. reflexivity.
  - cbn [orb] in Hqu. unfold wf_uvalue in Hqu.
    apply andb_prop in Hqu as [Hqu _]. apply andb_prop in Hqu as [Hsc _].
    rewrite (wf_uvalue_scan_prev vv cCOLON (last (av_pad v) cCOLON) eq_refl Hlp) in Hsc.
    exists (last vv (last (av_pad v) cCOLON)). split.
    + now apply wf_uvalue_scan_last.
    + etransitivity; [exact (pa_loop_uval vv s _ key _ Hsc)|].
      f_equal. f_equal. rewrite rev_app_distr. rewrite app_nil_r. reflexivity.
Qed.

Definition lower_ (c : N) : bool := (97 <=? c) && (c <=? 122).
Definition letter_ (c : N) : bool := lower_ c || ((65 <=? c) && (c <=? 90)).

Lemma action_names_ok :
  forallb (fun e => forallb lower_ (fst e) && negb (match fst e with [] => true | _ => false end)) action_table = true.
Proof. vm_compute. reflexivity. Qed.

Lemma action_name_ok name ty : p_assoc name action_table = Some ty -> forallb lower_ name = true /\ name <> [].
Proof.
  intros H. apply p_assoc_In in H.
  pose proof (proj1 (forallb_forall _ action_table) action_names_ok (name, ty) H) as Hk.
  cbn [fst] in Hk. apply andb_prop in Hk as [H1 H2]. split; [exact H1|].
  destruct name; [discriminate|congruence].
Qed.

Lemma flip_case_letter c : letter_ c = true -> letter_ (flip_case c) = true.
Proof.
  unfold letter_, lower_, flip_case. intros H.
  destruct ((65 <=? c) && (c <=? 90)) eqn:EU.
  - apply andb_prop in EU as [U1 U2]. apply N.leb_le in U1, U2.
    apply orb_true_intro. left. apply andb_true_intro. split; apply N.leb_le; lia.
  - rewrite orb_false_r in H. rewrite H. apply andb_prop in H as [L1 L2]. apply N.leb_le in L1, L2.
    apply orb_true_intro. right. apply andb_true_intro. split; apply N.leb_le; lia.
Qed.

Lemma vary_case_letters mask : forall s, forallb letter_ s = true -> forallb letter_ (vary_case mask s) = true.
Proof.
  induction mask as [|b m IH]; intros s H; destruct s as [|c s]; try exact H; try reflexivity.
  cbn [forallb] in H. apply andb_prop in H as [Hc Hs]. cbn [vary_case forallb].
  rewrite (IH s Hs), andb_true_r. destruct b; [now apply flip_case_letter|exact Hc].
Qed.

Lemma vary_case_nil mask s : vary_case mask s = [] -> s = [].
Proof. destruct s; [reflexivity|]. destruct mask; discriminate. Qed.

Lemma ascii_lower_flip c : ascii_lower (flip_case c) = ascii_lower c.
Proof.
  unfold ascii_lower, flip_case.
  destruct ((65 <=? c) && (c <=? 90)) eqn:EU.
  - apply andb_prop in EU as [U1 U2]. apply N.leb_le in U1, U2.
    assert (E : (65 <=? c + 32) && (c + 32 <=? 90) = false).
    { apply andb_false_intro2. apply N.leb_gt. lia. }
    now rewrite E.
  - destruct ((97 <=? c) && (c <=? 122)) eqn:EL.
    + apply andb_prop in EL as [L1 L2]. apply N.leb_le in L1, L2.
      assert (E : (65 <=? c - 32) && (c - 32 <=? 90) = true).
      { apply andb_true_intro. split; apply N.leb_le; lia. }
      rewrite E. lia.
    + now rewrite EU.
Qed.

Lemma p_lower_vary mask : forall s, p_lower (vary_case mask s) = p_lower s.
Proof.
  induction mask as [|b m IH]; intros s; destruct s as [|c s]; try reflexivity.
  cbn [vary_case]. unfold p_lower in *. cbn [map]. rewrite IH. destruct b; [now rewrite ascii_lower_flip|reflexivity].
Qed.

Lemma p_lower_lower s : forallb lower_ s = true -> p_lower s = s.
Proof.
  induction s as [|c s IH]; intros H; [reflexivity|].
  cbn [forallb] in H. apply andb_prop in H as [Hc Hs]. unfold p_lower in *. cbn [map]. rewrite (IH Hs).
  f_equal. unfold ascii_lower. unfold lower_ in Hc. apply andb_prop in Hc as [L1 L2]. apply N.leb_le in L1, L2.
  assert (E : (65 <=? c) && (c <=? 90) = false) by (apply andb_false_intro2; apply N.leb_gt; lia).
  now rewrite E.
Qed.

Lemma lower_letter s : forallb lower_ s = true -> forallb letter_ s = true.
Proof.
  intros H. apply forallb_forall. intros x Hx. unfold letter_.
  now rewrite (proj1 (forallb_forall _ _) H x Hx).
Qed.

Lemma letter_plain c : letter_ c = true -> plain_key c = true /\ nsp c = true.
Proof.
  unfold letter_, lower_, plain_key, nsp, p_is_ascii_space. intros H.
  assert (R : (65 <= c /\ c <= 90) \/ (97 <= c /\ c <= 122)).
  { apply orb_prop in H as [H|H]; apply andb_prop in H as [A B]; apply N.leb_le in A, B; lia. }
  unfold cSQ, cCOLON, cCOMMA, cBS. split.
  - repeat (apply andb_true_intro; split); apply negb_true_iff; apply N.eqb_neq; lia.
  - apply andb_true_intro; split; [apply N.ltb_lt; lia|].
    apply negb_true_iff; repeat (apply orb_false_intro); apply N.eqb_neq; lia.
Qed.

Lemma letters_plain s : forallb letter_ s = true -> forallb plain_key s = true.
Proof.
  intros H. apply forallb_forall. intros x Hx.
  exact (proj1 (letter_plain x (proj1 (forallb_forall _ _) H x Hx))).
Qed.

Lemma plain_key_not_bs c : plain_key c = true -> (c =? cBS) = false.
Proof. intros H. now destruct (plain_key_split c H) as (_ & _ & _ & E). Qed.

Lemma last_forallb (f : N -> bool) s d : forallb f s = true -> s <> [] -> f (last s d) = true.
Proof.
  intros H Hne. apply (proj1 (forallb_forall _ _) H).
  destruct s as [|c s]; [congruence|]. clear.
  revert c. induction s as [|x s IH]; intros c; [now left|]. right. apply IH.
Qed.

Lemma raw_key_facts v a ty : is_pad (av_pad v) = true -> p_assoc (a_name a) action_table = Some ty ->
  forallb plain_key (raw_key v a) = true /\ raw_key v a <> [] /\
  p_lower (p_trim_space (raw_key v a)) = a_name a.
Proof.
  intros Hpad Hn. destruct (action_name_ok _ _ Hn) as [Hlow Hne].
  pose proof (vary_case_letters (av_mask v) _ (lower_letter _ Hlow)) as Hlet.
  set (x := vary_case (av_mask v) (a_name a)) in *.
  assert (Hx : x <> []) by (intro E; apply vary_case_nil in E; congruence).
  unfold raw_key. fold x. split; [|split].
  - rewrite forallb_app. rewrite (proj2 (is_pad_plain _ Hpad)). now rewrite (letters_plain _ Hlet).
  - destruct (av_pad v); [exact Hx|discriminate].
  - rewrite (p_trim_space_pad _ _ Hpad).
    rewrite (p_trim_space_id x 0 Hx).
    + unfold x. rewrite p_lower_vary. now apply p_lower_lower.
    + destruct x as [|c x']; [congruence|]. cbn [hd]. cbn [forallb] in Hlet. apply andb_prop in Hlet as [Hc _].
      exact (proj2 (letter_plain c Hc)).
    + unfold p_last. exact (proj2 (letter_plain _ (last_forallb letter_ x 0 Hlet Hx))).
Qed.

Lemma wf_action_split a : wf_action a = true ->
  exists ty, p_assoc (a_name a) action_table = Some ty /\ a_type a = ty /\
             wf_qvalue (a_value a) cSQ = true /\ line_safe (a_value a) = true.
Proof.
  unfold wf_action. destruct (p_assoc (a_name a) action_table) as [ty|]; [|discriminate].
  intros H. apply andb_prop in H as [H H3]. apply andb_prop in H as [H1 H2]. apply N.eqb_eq in H1.
  exists ty. auto.
Qed.

Lemma pa_actions al : forall vs prev, al <> [] -> forallb wf_action al = true -> wf_avars vs al = true ->
  (prev =? cBS) = false ->
  pa_loop (render_actions vs al) prev false [] None = raws vs al.
Proof.
  induction al as [|a r IH]; intros vs prev Hne Hwf Hvs Hprev; [congruence|].
  cbn [forallb] in Hwf. apply andb_prop in Hwf as [Ha Hr].
  cbn [wf_avars] in Hvs. apply andb_prop in Hvs as [Hva Hvr].
  destruct (wf_action_split a Ha) as (ty & Hn & Hty & Hq & _).
  set (v := hd avar_plain vs) in *.
  assert (Hpad : is_pad (av_pad v) = true) by (unfold wf_avar in Hva; now apply andb_prop in Hva as [? _]).
  destruct (raw_key_facts v a ty Hpad Hn) as (Hpk & Hkne & _).
  assert (Hlast : forall d, (last (raw_key v a) d =? cBS) = false).
  { intros d. apply plain_key_not_bs. now apply last_forallb. }
  cbn [raws]. fold v.
  assert (Hstep : forall tail rest,
            (tail = [] /\ rest = []) \/ (exists t, tail = cCOMMA :: t /\ rest = pa_loop t cCOMMA false [] None) ->
            pa_loop (render_action v a ++ tail) prev false [] None = (raw_key v a, raw_val v a) :: rest).
  { intros tail rest Htail. rewrite render_action_eq. rewrite <- app_assoc.
    rewrite (pa_loop_key (raw_key v a) _ prev [] Hprev Hpk). rewrite app_nil_r.
    destruct (a_value a) as [|v0 val] eqn:EV.
    - assert (Erv : raw_val v a = []) by (unfold raw_val; now rewrite EV). rewrite Erv.
      cbn [app]. destruct Htail as [[-> ->]|(t & -> & ->)].
      + cbn [pa_loop]. unfold pa_emit. now rewrite rev_involutive.
      + cbn [pa_loop pa_push]. rewrite Hlast. change (cCOMMA =? cSQ) with false. change (cCOMMA =? cCOLON) with false.
        change (cCOMMA =? cCOMMA) with true. cbn match. unfold pa_emit. now rewrite rev_involutive.
    - assert (Hvne : a_value a <> []) by (rewrite EV; discriminate).
      assert (Hq' : wf_qvalue (a_value a) cSQ = true) by (rewrite EV; exact Hq).
      cbn [app].
      destruct (pa_value v a (rev (raw_key v a)) (last (raw_key v a) prev) tail Hva Hq' Hvne (Hlast prev))
        as (p' & Hp' & Heq).
      etransitivity; [exact Heq|].
      destruct Htail as [[-> ->]|(t & -> & ->)].
      + cbn [pa_loop]. unfold pa_emit. now rewrite !rev_involutive.
      + cbn [pa_loop pa_push]. rewrite Hp'. change (cCOMMA =? cSQ) with false. change (cCOMMA =? cCOLON) with false.
        change (cCOMMA =? cCOMMA) with true. cbn match. unfold pa_emit. now rewrite !rev_involutive. }
  destruct r as [|a' r'].
  - change (render_actions vs [a]) with (render_action v a). cbn [raws].
    rewrite <- (app_nil_r (render_action v a)). apply Hstep. now left.
  - change (render_actions vs (a :: a' :: r')) with (render_action v a ++ cCOMMA :: render_actions (tl vs) (a' :: r')).
    rewrite (Hstep (cCOMMA :: render_actions (tl vs) (a' :: r')) (pa_loop (render_actions (tl vs) (a' :: r')) cCOMMA false [] None)).
    + f_equal. apply IH; [discriminate|exact Hr|exact Hvr|reflexivity].
    + right. eexists. split; reflexivity.
Qed.

Lemma pa_split_as_loop c r : plain_key c = true ->
  pa_split (c :: r) = pa_loop (c :: r) cCOMMA false [] None.
Proof.
  intros H. destruct (plain_key_split c H) as (E1 & E2 & E3 & E4).
  cbn [pa_split pa_loop pa_push]. change (cCOMMA =? cBS) with false. now rewrite E1, E2, E3.
Qed.

Lemma pa_split_render vs al : al <> [] -> forallb wf_action al = true -> wf_avars vs al = true ->
  pa_split (render_actions vs al) = raws vs al.
Proof.
  intros Hne Hwf Hvs.
  rewrite <- (pa_actions al vs cCOMMA Hne Hwf Hvs eq_refl).
  destruct al as [|a r]; [congruence|].
  cbn [forallb] in Hwf. apply andb_prop in Hwf as [Ha _].
  cbn [wf_avars] in Hvs. apply andb_prop in Hvs as [Hva _].
  destruct (wf_action_split a Ha) as (ty & Hn & _).
  assert (Hpad : is_pad (av_pad (hd avar_plain vs)) = true) by (unfold wf_avar in Hva; now apply andb_prop in Hva as [? _]).
  destruct (raw_key_facts (hd avar_plain vs) a ty Hpad Hn) as (Hpk & Hkne & _).
  assert (exists c x, render_actions vs (a :: r) = c :: x /\ plain_key c = true) as (c & x & E & Hc).
  { destruct (raw_key (hd avar_plain vs) a) as [|c k] eqn:EK; [congruence|].
    cbn [forallb] in Hpk. apply andb_prop in Hpk as [Hc _].
    destruct r as [|a' r'].
    - exists c. eexists. split; [|exact Hc]. cbn [render_actions]. rewrite render_action_eq, EK. reflexivity.
    - exists c. eexists. split; [|exact Hc].
      change (render_actions vs (a :: a' :: r')) with
        (render_action (hd avar_plain vs) a ++ cCOMMA :: render_actions (tl vs) (a' :: r')).
      rewrite render_action_eq, EK. reflexivity. }
  rewrite E. now apply pa_split_as_loop.
Qed.

Lemma raw_val_ok v a : wf_avar v a = true -> wf_qvalue (a_value a) cSQ = true ->
  maybe_remove_quotes (p_trim_space (raw_val v a)) = a_value a.
Proof.
  intros Hv Hq. unfold wf_avar in Hv. apply andb_prop in Hv as [Hpad Hqu].
  unfold raw_val. destruct (a_value a) as [|v0 val] eqn:EV; [reflexivity|].
  rewrite (p_trim_space_pad _ _ Hpad). destruct (av_quote v).
  - rewrite (p_trim_space_id (cSQ :: (v0 :: val) ++ [cSQ]) 0).
    + apply maybe_remove_quotes_wrapped. now right.
    + discriminate.
    + reflexivity.
    + change (cSQ :: (v0 :: val) ++ [cSQ]) with ((cSQ :: v0 :: val) ++ [cSQ]). now rewrite p_last_app.
  - cbn [orb] in Hqu. unfold wf_uvalue in Hqu. apply andb_prop in Hqu as [Hqu Hm]. apply andb_prop in Hqu as [_ Ht].
    apply bytes_eqb_eq in Ht, Hm. now rewrite Ht, Hm.
Qed.

Lemma count_disruptive_cons a r :
  count_disruptive (a :: r) = ((if (a_type a =? 2)%N then 1 else 0) + count_disruptive r)%nat.
Proof. unfold count_disruptive. cbn [filter]. destruct (a_type a =? 2); reflexivity. Qed.

Lemma pa_build_raws al : forall vs res didx, forallb wf_action al = true -> wf_avars vs al = true ->
  match didx with None => (count_disruptive al <= 1)%nat | Some _ => count_disruptive al = 0%nat end ->
  pa_build (raws vs al) res didx = Some (res ++ al).
Proof.
  induction al as [|a r IH]; intros vs res didx Hwf Hvs Hcnt.
  - cbn [raws pa_build]. now rewrite app_nil_r.
  - cbn [forallb] in Hwf. apply andb_prop in Hwf as [Ha Hr].
    cbn [wf_avars] in Hvs. apply andb_prop in Hvs as [Hva Hvr].
    destruct (wf_action_split a Ha) as (ty & Hn & Hty & Hq & _).
    set (v := hd avar_plain vs) in *.
    assert (Hpad : is_pad (av_pad v) = true) by (unfold wf_avar in Hva; now apply andb_prop in Hva as [? _]).
    destruct (raw_key_facts v a ty Hpad Hn) as (_ & _ & Hkey).
    cbn [raws pa_build]. fold v. rewrite Hkey. rewrite (raw_val_ok v a Hva Hq).
    destruct (action_name_ok _ _ Hn) as [Hlow _].
    unfold lookup_action. rewrite (p_lower_lower _ Hlow), Hn.
    assert (Ea : mk_action (a_name a) (a_value a) ty = a) by (destruct a; cbn in *; now subst).
    rewrite Ea. rewrite count_disruptive_cons, Hty in Hcnt.
    destruct (ty =? 2) eqn:E2.
    + destruct didx as [i|]; [lia|].
      rewrite (IH (tl vs) (res ++ [a]) (Some (length res)) Hr Hvr) by lia.
      now rewrite <- app_assoc.
    + rewrite (IH (tl vs) (res ++ [a]) didx Hr Hvr) by (destruct didx; lia).
      now rewrite <- app_assoc.
Qed.

Theorem parse_actions_render vs al :
  al <> [] -> forallb wf_action al = true -> wf_avars vs al = true -> (count_disruptive al <= 1)%nat ->
  parse_actions (render_actions vs al) = Some al.
Proof.
  intros Hne Hwf Hvs Hc. unfold parse_actions. rewrite (pa_split_render vs al Hne Hwf Hvs).
  exact (pa_build_raws al vs [] None Hwf Hvs Hc).
Qed.

(* ------------------------------------------------------------------------------------ *)
(* Part 6: ParseVariables on rendered targets                                           *)
(* ------------------------------------------------------------------------------------ *)
Ltac red_curr :=
  repeat first
    [ progress change (0 =? 0) with true | progress change (0 =? 1) with false
    | progress change (0 =? 2) with false | progress change (1 =? 0) with false
    | progress change (1 =? 1) with true | progress change (1 =? 2) with false
    | progress change (2 =? 0) with false | progress change (2 =? 1) with false
    | progress change (2 =? 2) with true | progress change (3 =? 0) with false
    | progress change (3 =? 1) with false | progress change (3 =? 2) with false ].
Ltac pv_unfold :=
  cbn [pv_loop pv_curr pv_neg pv_count pv_var pv_key pv_esc pv_quoted pv_res]; red_curr.

Definition name_char (c : N) : bool :=
  negb (c =? cPIPE) && negb (c =? cBANG) && negb (c =? cAMP) && negb (c =? cCOLON).
Definition key1_char (c : N) : bool := negb (c =? cPIPE) && negb (c =? cSLASH) && negb (c =? cSQ).

Lemma name_char_split c : name_char c = true ->
  (c =? cPIPE) = false /\ (c =? cBANG) = false /\ (c =? cAMP) = false /\ (c =? cCOLON) = false.
Proof.
  unfold name_char. intros H. repeat (apply andb_prop in H as [H ?]).
  repeat match goal with H : negb _ = true |- _ => apply negb_true_iff in H end. auto.
Qed.
Lemma key1_char_split c : key1_char c = true ->
  (c =? cPIPE) = false /\ (c =? cSLASH) = false /\ (c =? cSQ) = false.
Proof.
  unfold key1_char. intros H. repeat (apply andb_prop in H as [H ?]).
  repeat match goal with H : negb _ = true |- _ => apply negb_true_iff in H end. auto.
Qed.

(* one character that is simply appended, in each scanner state; the rest is not empty *)
Lemma pv_s0 c x y ng ct var key e q res : name_char c = true ->
  pv_loop (c :: x :: y) 0 (mk_pv 0 ng ct var key e q res)
  = pv_loop (x :: y) 0 (mk_pv 0 ng ct (c :: var) key e q res).
Proof.
  intros H. destruct (name_char_split c H) as (E1 & E2 & E3 & E4).
  pv_unfold. rewrite E1, E2, E3, E4. reflexivity.
Qed.

Lemma pv_s1 c x y ng ct var key e q res : key1_char c = true -> p_is_xml_or_json (rev var) = false ->
  pv_loop (c :: x :: y) 0 (mk_pv 1 ng ct var key e q res)
  = pv_loop (x :: y) 0 (mk_pv 1 ng ct var (c :: key) e q res).
Proof.
  intros H Hx. destruct (key1_char_split c H) as (E1 & E2 & E3).
  pv_unfold. rewrite E1, E2, E3, Hx. destruct key; reflexivity.
Qed.

Lemma pv_s1x c x y ng ct var e q res : (c =? cPIPE) = false -> p_is_xml_or_json (rev var) = true ->
  pv_loop (c :: x :: y) 0 (mk_pv 1 ng ct var [] e q res)
  = pv_loop (x :: y) 0 (mk_pv 3 ng ct var [c] e q res).
Proof. intros E1 Hx. pv_unfold. rewrite E1, Hx. reflexivity. Qed.

Lemma pv_s3 c x y ng ct var key e q res : (c =? cPIPE) = false ->
  pv_loop (c :: x :: y) 0 (mk_pv 3 ng ct var key e q res)
  = pv_loop (x :: y) 0 (mk_pv 3 ng ct var (c :: key) e q res).
Proof. intros E1. pv_unfold. rewrite E1. reflexivity. Qed.

Lemma pv_bang x y ct var key e q res :
  pv_loop (cBANG :: x :: y) 0 (mk_pv 0 false ct var key e q res)
  = pv_loop (x :: y) 0 (mk_pv 0 true ct var key e q res).
Proof. reflexivity. Qed.

Lemma pv_amp x y ng var key e q res :
  pv_loop (cAMP :: x :: y) 0 (mk_pv 0 ng false var key e q res)
  = pv_loop (x :: y) 0 (mk_pv 0 ng true var key e q res).
Proof. reflexivity. Qed.

Lemma pv_colon x y ng ct var key e q res :
  pv_loop (cCOLON :: x :: y) 0 (mk_pv 0 ng ct var key e q res)
  = pv_loop (x :: y) 0 (mk_pv 1 ng ct var key e q res).
Proof. reflexivity. Qed.

Lemma pv_slash_open x y ng ct var e q res : p_is_xml_or_json (rev var) = false ->
  pv_loop (cSLASH :: x :: y) 0 (mk_pv 1 ng ct var [] e q res)
  = pv_loop (x :: y) 0 (mk_pv 2 ng ct var [] e q res).
Proof. intros Hx. pv_unfold. change (cSLASH =? cPIPE) with false. rewrite Hx. reflexivity. Qed.

Lemma pv_quote_open x y ng ct var e res : p_is_xml_or_json (rev var) = false ->
  pv_loop (cSQ :: x :: y) 0 (mk_pv 1 ng ct var [] e false res)
  = pv_loop (x :: y) 0 (mk_pv 1 ng ct var [] e true res).
Proof. intros Hx. pv_unfold. change (cSQ =? cPIPE) with false. rewrite Hx. reflexivity. Qed.

Lemma app_cons_form {A} (n : list A) x y : exists x' y', n ++ x :: y = x' :: y'.
Proof. destruct n as [|a n]; [exists x, y|exists a, (n ++ x :: y)]; reflexivity. Qed.

Lemma pv_r0 n : forall x y ng ct var key e q res, forallb name_char n = true ->
  pv_loop (n ++ x :: y) 0 (mk_pv 0 ng ct var key e q res)
  = pv_loop (x :: y) 0 (mk_pv 0 ng ct (rev n ++ var) key e q res).
Proof.
  induction n as [|c n IH]; intros x y ng ct var key e q res H; [reflexivity|].
  cbn [forallb] in H. apply andb_prop in H as [Hc Hn]. cbn [app].
  destruct (app_cons_form n x y) as (x' & y' & E). rewrite E. rewrite (pv_s0 c x' y' _ _ _ _ _ _ _ Hc).
  rewrite <- E. rewrite (IH x y _ _ _ _ _ _ _ Hn). cbn [rev]. now rewrite <- app_assoc.
Qed.

Lemma pv_r1 k : forall x y ng ct var key e q res, forallb key1_char k = true ->
  p_is_xml_or_json (rev var) = false ->
  pv_loop (k ++ x :: y) 0 (mk_pv 1 ng ct var key e q res)
  = pv_loop (x :: y) 0 (mk_pv 1 ng ct var (rev k ++ key) e q res).
Proof.
  induction k as [|c k IH]; intros x y ng ct var key e q res H Hx; [reflexivity|].
  cbn [forallb] in H. apply andb_prop in H as [Hc Hk]. cbn [app].
  destruct (app_cons_form k x y) as (x' & y' & E). rewrite E. rewrite (pv_s1 c x' y' _ _ _ _ _ _ _ Hc Hx).
  rewrite <- E. rewrite (IH x y _ _ _ _ _ _ _ Hk Hx). cbn [rev]. now rewrite <- app_assoc.
Qed.

Lemma pv_r3 k : forall x y ng ct var key e q res, no_byte cPIPE k = true ->
  pv_loop (k ++ x :: y) 0 (mk_pv 3 ng ct var key e q res)
  = pv_loop (x :: y) 0 (mk_pv 3 ng ct var (rev k ++ key) e q res).
Proof.
  induction k as [|c k IH]; intros x y ng ct var key e q res H; [reflexivity|].
  rewrite no_byte_cons in H. apply andb_prop in H as [Hc Hk]. apply negb_true_iff in Hc. cbn [app].
  destruct (app_cons_form k x y) as (x' & y' & E). rewrite E. rewrite (pv_s3 c x' y' _ _ _ _ _ _ _ Hc).
  rewrite <- E. rewrite (IH x y _ _ _ _ _ _ _ Hk). cbn [rev]. now rewrite <- app_assoc.
Qed.

(* an XPath-style key (XML / JSON): the first byte switches to state 3 *)
Lemma pv_r1x k x y ng ct var e q res : k <> [] -> no_byte cPIPE k = true ->
  p_is_xml_or_json (rev var) = true ->
  pv_loop (k ++ x :: y) 0 (mk_pv 1 ng ct var [] e q res)
  = pv_loop (x :: y) 0 (mk_pv 3 ng ct var (rev k) e q res).
Proof.
  intros Hne H Hx. destruct k as [|c k]; [congruence|].
  rewrite no_byte_cons in H. apply andb_prop in H as [Hc Hk]. apply negb_true_iff in Hc. cbn [app].
  destruct (app_cons_form k x y) as (x' & y' & E). rewrite E. rewrite (pv_s1x c x' y' _ _ _ _ _ _ Hc Hx).
  rewrite <- E. rewrite (pv_r3 k x y _ _ _ _ _ _ _ Hk). reflexivity.
Qed.

Lemma pv_s2 c x y ng ct var key e q res : (c =? cSLASH) && negb e = false ->
  pv_loop (c :: x :: y) 0 (mk_pv 2 ng ct var key e q res)
  = pv_loop (x :: y) 0 (mk_pv 2 ng ct var (c :: key) (if c =? cBS then negb e else false) q res).
Proof.
  intros H. pv_unfold. rewrite andb_false_r. cbn [orb andb]. rewrite H.
  destruct (c =? cBS) eqn:EB; [apply N.eqb_eq in EB; subst c|]; reflexivity.
Qed.

(* the body of a regex key up to its closing slash *)
Lemma pv_r2 r : forall rest ng ct var key e q res, wf_rx r e = true ->
  pv_loop (r ++ cSLASH :: rest) 0 (mk_pv 2 ng ct var key e q res)
  = pv_loop (cSLASH :: rest) 0 (mk_pv 2 ng ct var (rev r ++ key) false q res).
Proof.
  induction r as [|c r IH]; intros rest ng ct var key e q res H.
  - cbn [wf_rx] in H. apply negb_true_iff in H. subst e. reflexivity.
  - cbn [wf_rx] in H. cbn [app].
    destruct (app_cons_form r cSLASH rest) as (x' & y' & E). rewrite E.
    assert (Hc : (c =? cSLASH) && negb e = false).
    { destruct (c =? cSLASH); [|reflexivity]. apply andb_prop in H as [He _]. now subst e. }
    rewrite (pv_s2 c x' y' _ _ _ _ _ _ _ Hc). rewrite <- E.
    assert (Hr : wf_rx r (if c =? cBS then negb e else false) = true).
    { destruct (c =? cSLASH) eqn:ES.
      - apply N.eqb_eq in ES. subst c. change (cSLASH =? cBS) with false. now apply andb_prop in H as [_ H].
      - destruct (c =? cBS); exact H. }
    rewrite (IH rest _ _ _ _ _ _ _ Hr). cbn [rev]. now rewrite <- app_assoc.
Qed.

Definition pv_i (e : bool) (res : list tcall) : pv_state := mk_pv 0 false false [] [] e false res.
Definition mkcall (ng ct : bool) (name key : bytes) : tcall := mk_tcall ng (if ng then false else ct) name key.

(* closing a target at a pipe (states 0, 1, 3; not inside quotes) *)
Lemma pv_f_pipe curr m ng ct var key e res name sel :
  curr = 0 \/ curr = 1 \/ curr = 3 ->
  lookup_variable (rev var) = Some (name, sel) -> (curr =? 1) && negb sel = false ->
  pv_loop (cPIPE :: m) 0 (mk_pv curr ng ct var key e false res)
  = pv_loop m 0 (pv_i e (mkcall ng ct name (rev key) :: res)).
Proof.
  intros Hc Hl Hs. destruct Hc as [ -> | [ -> | -> ] ]; pv_unfold; change (cPIPE =? cPIPE) with true;
    cbn [andb orb negb]; rewrite Hl; try (change (1 =? 1) with true in Hs; cbn [andb] in Hs; rewrite Hs); reflexivity.
Qed.

(* closing the last target at the last byte *)
Lemma pv_f_last0 c ng ct var key e res name sel :
  (c =? cPIPE) = false -> lookup_variable (rev (c :: var)) = Some (name, sel) ->
  pv_loop [c] 0 (mk_pv 0 ng ct var key e false res) = Some (rev (mkcall ng ct name (rev key) :: res)).
Proof. intros E1 Hl. pv_unfold. rewrite E1. cbn [andb orb negb]. rewrite Hl. reflexivity. Qed.

Lemma pv_f_last13 curr c ng ct var key e res name sel :
  curr = 1 \/ curr = 3 -> (c =? cPIPE) = false -> (c =? cSLASH) = false ->
  lookup_variable (rev var) = Some (name, sel) -> (curr =? 1) && negb sel = false ->
  pv_loop [c] 0 (mk_pv curr ng ct var key e false res)
  = Some (rev (mkcall ng ct name (rev (c :: key)) :: res)).
Proof.
  intros Hc E1 E2 Hl Hs. destruct Hc as [ -> | -> ]; pv_unfold; rewrite E1, E2; cbn [andb orb negb]; rewrite Hl;
    try (change (1 =? 1) with true in Hs; cbn [andb] in Hs; rewrite Hs); reflexivity.
Qed.

(* closing a regex key at its unescaped slash *)
Lemma pv_f_rx rest ng ct var key q res name sel :
  lookup_variable (rev var) = Some (name, sel) ->
  (q = true -> exists t, rest = cSQ :: t) ->
  pv_loop (cSLASH :: rest) 0 (mk_pv 2 ng ct var key false q res)
  = pv_loop rest (if q then 2%nat else 1%nat)
            (pv_i false (mkcall ng ct name (cSLASH :: rev key ++ [cSLASH]) :: res)).
Proof.
  intros Hl Hq. pv_unfold. change (cSLASH =? cSLASH) with true. change (cSLASH =? cPIPE) with false.
  change (cSLASH =? cSQ) with false. cbn [andb orb negb]. rewrite orb_true_r. rewrite Hl.
  destruct q.
  - destruct (Hq eq_refl) as (t & ->). reflexivity.
  - reflexivity.
Qed.

Lemma pv_skip a rest k st : pv_loop (a :: rest) (S k) st = pv_loop rest k st.
Proof. reflexivity. Qed.
Lemma pv_end k st : pv_loop [] k st = Some (rev (pv_res st)).
Proof. reflexivity. Qed.

(* facts about the variable table *)
Definition upper_us (c : N) : bool := ((65 <=? c) && (c <=? 90)) || (c =? 95).
Lemma variable_names_ok :
  forallb (fun e => forallb upper_us (fst e) && negb (match fst e with [] => true | _ => false end))
          variable_table = true.
Proof. vm_compute. reflexivity. Qed.

Lemma upper_us_name_char c : upper_us c = true -> name_char c = true /\ ascii_upper c = c /\ nsp c = true.
Proof.
  unfold upper_us, name_char, ascii_upper, nsp, p_is_ascii_space. intros H.
  assert (R : (65 <= c /\ c <= 90) \/ c = 95).
  { apply orb_prop in H as [H|H]; [apply andb_prop in H as [A B]; apply N.leb_le in A, B; lia|apply N.eqb_eq in H; lia]. }
  unfold cPIPE, cBANG, cAMP, cCOLON. split; [|split].
  - repeat (apply andb_true_intro; split); apply negb_true_iff; apply N.eqb_neq; lia.
  - assert (E : (97 <=? c) && (c <=? 122) = false) by (apply andb_false_intro1; apply N.leb_gt; lia). now rewrite E.
  - apply andb_true_intro; split; [apply N.ltb_lt; lia|].
    apply negb_true_iff; repeat (apply orb_false_intro); apply N.eqb_neq; lia.
Qed.

Lemma variable_name_ok name sel : p_assoc name variable_table = Some sel ->
  forallb name_char name = true /\ name <> [] /\ lookup_variable name = Some (name, sel) /\ nsp (hd 0 name) = true.
Proof.
  intros H. pose proof (p_assoc_In _ _ _ H) as Hin.
  pose proof (proj1 (forallb_forall _ variable_table) variable_names_ok (name, sel) Hin) as Hk.
  cbn [fst] in Hk. apply andb_prop in Hk as [H1 H2].
  assert (Hne : name <> []) by (destruct name; [discriminate|congruence]).
  assert (Hu : p_upper name = name).
  { unfold p_upper. clear -H1. induction name as [|c n IH]; [reflexivity|].
    cbn [forallb] in H1. apply andb_prop in H1 as [Hc Hn]. cbn [map]. rewrite (IH Hn).
    now rewrite (proj1 (proj2 (upper_us_name_char c Hc))). }
  split; [|split; [exact Hne|split]].
  - apply forallb_forall. intros x Hx. exact (proj1 (upper_us_name_char x (proj1 (forallb_forall _ _) H1 x Hx))).
  - unfold lookup_variable. now rewrite Hu, H.
  - destruct name as [|c n]; [congruence|]. cbn [hd]. cbn [forallb] in H1. apply andb_prop in H1 as [Hc _].
    exact (proj2 (proj2 (upper_us_name_char c Hc))).
Qed.

Definition call_of (t : target) : tcall :=
  mk_tcall (t_neg t) (t_count t) (t_var t) (key_bytes (t_key t)).

Lemma flags_run (ng ct : bool) x y e res :
  pv_loop ((if ng then [cBANG] else @nil N) ++ (if ct then [cAMP] else @nil N) ++ x :: y) 0 (pv_i e res)
  = pv_loop (x :: y) 0 (mk_pv 0 ng ct [] [] e false res).
Proof. destruct ng, ct; reflexivity. Qed.

Lemma snoc_form {A} (l : list A) : l <> [] -> exists l' c, l = l' ++ [c].
Proof. intros H. destruct (exists_last H) as (l' & c & E). eauto. Qed.

Lemma no_byte_last ch s d : no_byte ch s = true -> s <> [] -> (last s d =? ch) = false.
Proof.
  intros H Hne. apply negb_true_iff. exact (last_forallb (fun c => negb (c =? ch)) s d H Hne).
Qed.

Lemma no_byte_snoc ch s c : no_byte ch (s ++ [c]) = true -> no_byte ch s = true /\ (c =? ch) = false.
Proof.
  rewrite no_byte_app. intros H. apply andb_prop in H as [H1 H2]. split; [exact H1|].
  rewrite no_byte_cons in H2. apply andb_prop in H2 as [H2 _]. now apply negb_true_iff.
Qed.

Lemma key1_of_no_bytes k : no_byte cPIPE k = true -> no_byte cSLASH k = true -> no_byte cSQ k = true ->
  forallb key1_char k = true.
Proof.
  intros H1 H2 H3. apply forallb_forall. intros x Hx. unfold key1_char.
  rewrite (proj1 (forallb_forall _ _) H1 x Hx), (proj1 (forallb_forall _ _) H2 x Hx),
          (proj1 (forallb_forall _ _) H3 x Hx). reflexivity.
Qed.

Definition tflags (ng ct : bool) : bytes := (if ng then [cBANG] else []) ++ (if ct then [cAMP] else []).

Lemma pv_head (ng ct : bool) name x y res : forallb name_char name = true ->
  pv_loop ((if ng then [cBANG] else @nil N) ++ (if ct then [cAMP] else @nil N) ++ name ++ x :: y) 0 (pv_i false res)
  = pv_loop (x :: y) 0 (mk_pv 0 ng ct (rev name) [] false false res).
Proof.
  intros Hn.
  destruct (app_cons_form name x y) as (x' & y' & E). rewrite E. rewrite flags_run. rewrite <- E.
  rewrite (pv_r0 name x y _ _ _ _ _ _ _ Hn). now rewrite app_nil_r.
Qed.

Definition tail_ok (tail : bytes) : Prop := tail = [] \/ exists a m, tail = cPIPE :: a :: m.
Definition after (tail : bytes) (res : list tcall) : option (list tcall) :=
  match tail with [] => Some (rev res) | _ :: m => pv_loop m 0 (pv_i false res) end.

Lemma mkcall_eq t : negb (t_neg t && t_count t) = true ->
  mkcall (t_neg t) (t_count t) (t_var t) (key_bytes (t_key t)) = call_of t.
Proof. unfold mkcall, call_of. destruct (t_neg t), (t_count t); try discriminate; reflexivity. Qed.

Lemma lookup_rev_rev name r : lookup_variable name = r -> lookup_variable (rev (rev name)) = r.
Proof. now rewrite rev_involutive. Qed.

Lemma pv_target q t res tail : wf_target t = true -> tail_ok tail ->
  pv_loop (render_target q t ++ tail) 0 (pv_i false res) = after tail (call_of t :: res).
Proof.
  intros Hwf Htail. unfold wf_target in Hwf.
  destruct (p_assoc (t_var t) variable_table) as [sel|] eqn:Hn; [|discriminate].
  apply andb_prop in Hwf as [Hkey Hnc].
  destruct (variable_name_ok _ _ Hn) as (Hnm & Hne & Hlk & _).
  rewrite <- (mkcall_eq t Hnc).
  unfold render_target.
  set (ng := t_neg t). set (ct := t_count t). set (name := t_var t) in *.
  rewrite <- !app_assoc.
  destruct (t_key t) as [|k|r] eqn:EK; cbn [render_key key_bytes wf_key] in *.
  - (* no key *)
    cbn [app]. destruct Htail as [->|(a & m & ->)].
    + rewrite app_nil_r. destruct (snoc_form name Hne) as (n' & c & En). rewrite En in *.
      rewrite forallb_app in Hnm. apply andb_prop in Hnm as [Hn' Hc]. cbn [forallb] in Hc.
      apply andb_prop in Hc as [Hc _]. destruct (name_char_split c Hc) as (E1 & _).
      rewrite (pv_head ng ct n' c [] res Hn').
      rewrite (pv_f_last0 c ng ct (rev n') [] false res (n' ++ [c]) sel E1).
      * reflexivity.
      * change (c :: rev n') with (rev (n' ++ [c])) || (rewrite <- (rev_unit n' c)). now apply lookup_rev_rev.
    + rewrite (pv_head ng ct name cPIPE (a :: m) res Hnm).
      rewrite (pv_f_pipe 0 (a :: m) ng ct (rev name) [] false res name sel); [reflexivity|now left| |reflexivity].
      now apply lookup_rev_rev.
  - (* string key *)
    apply andb_prop in Hkey as [Hkey Hxj]. apply andb_prop in Hkey as [Hkey Hpipe].
    apply andb_prop in Hkey as [Hkey Hts]. apply andb_prop in Hkey as [Hsel Hkne].
    subst sel. assert (Hk : k <> []) by (destruct k; [discriminate|congruence]). clear Hkne.
    cbn [app].
    destruct (p_is_xml_or_json name) eqn:EX.
    + (* XML / JSON: XPath-like key *)
      apply negb_true_iff in Hxj.
      destruct Htail as [->|(a & m & ->)].
      * rewrite app_nil_r. destruct (snoc_form k Hk) as (k' & c & Ek). subst k.
        destruct (no_byte_snoc _ _ _ Hpipe) as [Hp' Hcp]. unfold p_last in Hxj. rewrite last_last in Hxj.
        destruct (app_cons_form k' c []) as (x' & y' & E).
        rewrite E. rewrite (pv_head ng ct name cCOLON (x' :: y') res Hnm). rewrite pv_colon. rewrite <- E.
        destruct k' as [|k0 k''].
        -- cbn [app]. rewrite (pv_f_last13 1 c ng ct (rev name) [] false res name true); [reflexivity|now left|exact Hcp|exact Hxj| |reflexivity].
           now apply lookup_rev_rev.
        -- rewrite (pv_r1x (k0 :: k'') c [] ng ct (rev name) false false res); [|discriminate|exact Hp'|now rewrite rev_involutive].
           rewrite (pv_f_last13 3 c ng ct (rev name) (rev (k0 :: k'')) false res name true); [|now right|exact Hcp|exact Hxj| |reflexivity].
           ++ cbn [after]. do 4 f_equal. change (c :: rev (k0 :: k'')) with (rev ((k0 :: k'') ++ [c])) || rewrite <- rev_unit. now rewrite rev_involutive.
           ++ now apply lookup_rev_rev.
      * destruct (app_cons_form k cPIPE (a :: m)) as (x' & y' & E).
        rewrite E. rewrite (pv_head ng ct name cCOLON (x' :: y') res Hnm). rewrite pv_colon. rewrite <- E.
        rewrite (pv_r1x k cPIPE (a :: m) ng ct (rev name) false false res Hk Hpipe); [|now rewrite rev_involutive].
        rewrite (pv_f_pipe 3 (a :: m) ng ct (rev name) (rev k) false res name true); [|now right; right| |reflexivity].
        -- cbn [after]. now rewrite rev_involutive.
        -- now apply lookup_rev_rev.
    + (* ordinary collection: plain key *)
      apply andb_prop in Hxj as [Hsl Hsq].
      pose proof (key1_of_no_bytes k Hpipe Hsl Hsq) as Hk1.
      destruct Htail as [->|(a & m & ->)].
      * rewrite app_nil_r. destruct (snoc_form k Hk) as (k' & c & Ek). subst k.
        destruct (no_byte_snoc _ _ _ Hpipe) as [_ Hcp]. destruct (no_byte_snoc _ _ _ Hsl) as [_ Hcs].
        rewrite forallb_app in Hk1. apply andb_prop in Hk1 as [Hk1 _].
        destruct (app_cons_form k' c []) as (x' & y' & E).
        rewrite E. rewrite (pv_head ng ct name cCOLON (x' :: y') res Hnm). rewrite pv_colon. rewrite <- E.
        rewrite (pv_r1 k' c [] ng ct (rev name) [] false false res Hk1); [|now rewrite rev_involutive].
        rewrite (pv_f_last13 1 c ng ct (rev name) (rev k' ++ []) false res name true); [|now left|exact Hcp|exact Hcs| |reflexivity].
        -- cbn [after]. do 4 f_equal. rewrite app_nil_r. rewrite <- rev_unit. now rewrite rev_involutive.
        -- now apply lookup_rev_rev.
      * destruct (app_cons_form k cPIPE (a :: m)) as (x' & y' & E).
        rewrite E. rewrite (pv_head ng ct name cCOLON (x' :: y') res Hnm). rewrite pv_colon. rewrite <- E.
        rewrite (pv_r1 k cPIPE (a :: m) ng ct (rev name) [] false false res Hk1); [|now rewrite rev_involutive].
        rewrite (pv_f_pipe 1 (a :: m) ng ct (rev name) (rev k ++ []) false res name true); [|now right; left| |reflexivity].
        -- cbn [after]. now rewrite app_nil_r, rev_involutive.
        -- now apply lookup_rev_rev.
  - (* regex key *)
    apply andb_prop in Hkey as [Hkey Hrx]. apply andb_prop in Hkey as [Hxj Hts]. apply negb_true_iff in Hxj.
    assert (Hxr : p_is_xml_or_json (rev (rev name)) = false) by now rewrite rev_involutive.
    assert (Hlr : lookup_variable (rev (rev name)) = Some (name, sel)) by now apply lookup_rev_rev.
    destruct q.
    + (* in single quotes *)
      cbn [app]. rewrite <- !app_assoc. cbn [app].
      rewrite (pv_head ng ct name cCOLON _ res Hnm). rewrite pv_colon.
      destruct (app_cons_form r cSLASH (cSQ :: tail)) as (x' & y' & E).
      rewrite (pv_quote_open cSLASH _ ng ct (rev name) false res Hxr).
      rewrite E. rewrite (pv_slash_open x' y' ng ct (rev name) false true res Hxr). rewrite <- E.
      rewrite (pv_r2 r _ ng ct (rev name) [] false true res Hrx).
      rewrite (pv_f_rx (cSQ :: tail) ng ct (rev name) (rev r ++ []) true res name sel Hlr) by (intros _; eauto).
      rewrite pv_skip. rewrite app_nil_r, rev_involutive.
      destruct Htail as [->|(a & m & ->)]; reflexivity.
    + cbn [app]. rewrite <- !app_assoc. cbn [app].
      rewrite (pv_head ng ct name cCOLON _ res Hnm). rewrite pv_colon.
      destruct (app_cons_form r cSLASH tail) as (x' & y' & E).
      rewrite E. rewrite (pv_slash_open x' y' ng ct (rev name) false false res Hxr). rewrite <- E.
      rewrite (pv_r2 r _ ng ct (rev name) [] false false res Hrx).
      rewrite (pv_f_rx tail ng ct (rev name) (rev r ++ []) false res name sel Hlr) by discriminate.
      rewrite app_nil_r, rev_involutive.
      destruct Htail as [->|(a & m & ->)]; reflexivity.
Qed.

Lemma render_target_form q t : wf_target t = true -> exists a m, render_target q t = a :: m /\ nsp a = true.
Proof.
  intros Hwf. unfold wf_target in Hwf.
  destruct (p_assoc (t_var t) variable_table) as [sel|] eqn:Hn; [|discriminate].
  destruct (variable_name_ok _ _ Hn) as (_ & Hne & _ & Hh).
  unfold render_target. destruct (t_var t) as [|c n]; [congruence|]. cbn [hd] in Hh.
  destruct (t_neg t), (t_count t); cbn [app]; eexists; eexists; (split; [reflexivity|]); try reflexivity; exact Hh.
Qed.

Lemma render_targets_form qs ts : ts <> [] -> forallb wf_target ts = true ->
  exists a m, render_targets qs ts = a :: m /\ nsp a = true.
Proof.
  intros Hne Hwf. destruct ts as [|t r]; [congruence|].
  cbn [forallb] in Hwf. apply andb_prop in Hwf as [Ht _].
  destruct (render_target_form (hd false qs) t Ht) as (a & m & E & Ha).
  destruct r as [|t' r'].
  - exists a, m. cbn [render_targets]. now split.
  - exists a. eexists. split; [|exact Ha].
    change (render_targets qs (t :: t' :: r')) with (render_target (hd false qs) t ++ cPIPE :: render_targets (tl qs) (t' :: r')).
    rewrite E. reflexivity.
Qed.

Lemma pv_targets ts : forall qs res, ts <> [] -> forallb wf_target ts = true ->
  pv_loop (render_targets qs ts) 0 (pv_i false res) = Some (rev res ++ map call_of ts).
Proof.
  induction ts as [|t r IH]; intros qs res Hne Hwf; [congruence|].
  cbn [forallb] in Hwf. apply andb_prop in Hwf as [Ht Hr].
  destruct r as [|t' r'].
  - cbn [render_targets]. rewrite <- (app_nil_r (render_target (hd false qs) t)).
    rewrite (pv_target _ t res [] Ht) by now left. cbn [after map rev]. reflexivity.
  - change (render_targets qs (t :: t' :: r')) with (render_target (hd false qs) t ++ cPIPE :: render_targets (tl qs) (t' :: r')).
    destruct (render_targets_form (tl qs) (t' :: r')) as (a & m & E & _); [discriminate|exact Hr|].
    rewrite E. rewrite (pv_target _ t res (cPIPE :: a :: m) Ht) by (right; eauto).
    cbn [after]. rewrite <- E. rewrite (IH (tl qs) (call_of t :: res)) by (try discriminate; exact Hr).
    cbn [rev map]. now rewrite <- app_assoc.
Qed.

(* how AddVariable reads the key back *)
Fixpoint final_esc (s : bytes) (e : bool) : bool :=
  match s with
  | [] => e
  | c :: r => if c =? cBS then final_esc r (negb e) else final_esc r false
  end.

Lemma wf_rx_final r : forall e, wf_rx r e = true -> final_esc r e = false.
Proof.
  induction r as [|c r IH]; intros e H; cbn [wf_rx final_esc] in *.
  - now apply negb_true_iff in H.
  - destruct (c =? cSLASH) eqn:ES.
    + apply N.eqb_eq in ES. subst c. change (cSLASH =? cBS) with false. apply andb_prop in H as [_ H]. now apply IH.
    + destruct (c =? cBS); now apply IH.
Qed.

Lemma final_esc_snoc r c : forall e,
  final_esc (r ++ [c]) e = if c =? cBS then negb (final_esc r e) else false.
Proof.
  induction r as [|x r IH]; intros e; cbn [app final_esc].
  - destruct (c =? cBS); reflexivity.
  - destruct (x =? cBS); apply IH.
Qed.

Lemma final_esc_count r : final_esc r false = Nat.odd (p_count_lead cBS (rev r)).
Proof.
  induction r as [|c r IH] using rev_ind; [reflexivity|].
  rewrite final_esc_snoc, rev_unit. cbn [p_count_lead]. destruct (c =? cBS); [|reflexivity].
  rewrite IH. rewrite Nat.odd_succ. now rewrite <- Nat.negb_odd.
Qed.

Lemma has_regex_slashes r : wf_rx r false = true -> has_regex (cSLASH :: r ++ [cSLASH]) = Some r.
Proof.
  intros H. unfold has_regex.
  destruct (r ++ [cSLASH]) as [|x y] eqn:E; [destruct r; discriminate|].
  rewrite <- E. rewrite p_last_app. change (cSLASH =? cSLASH) with true. cbn [negb].
  rewrite removelast_last.
  pose proof (wf_rx_final r false H) as Hf. rewrite final_esc_count in Hf.
  rewrite <- Nat.negb_odd. now rewrite Hf.
Qed.

Lemma classify_key_bytes var sel k : wf_key var sel k = true -> classify_key (key_bytes k) = k.
Proof.
  destruct k as [|s|r]; cbn [wf_key key_bytes]; intros H.
  - reflexivity.
  - apply andb_prop in H as [H Hxj]. apply andb_prop in H as [H Hpipe]. apply andb_prop in H as [H Hts].
    apply andb_prop in H as [_ Hne].
    destruct s as [|a s']; [discriminate|]. unfold classify_key.
    assert (Hr : has_regex (a :: s') = None).
    { unfold has_regex. destruct s' as [|b s'']; [reflexivity|].
      destruct (a =? cSLASH) eqn:EA; [|reflexivity]. cbn [negb].
      destruct (p_is_xml_or_json var).
      - change (p_last (a :: b :: s'')) with (p_last (b :: s'')) in Hxj. now rewrite Hxj.
      - apply andb_prop in Hxj as [Hsl _]. rewrite no_byte_cons in Hsl. apply andb_prop in Hsl as [Ha _].
        rewrite EA in Ha. discriminate. }
    now rewrite Hr.
  - apply andb_prop in H as [_ Hrx]. unfold classify_key. now rewrite (has_regex_slashes r Hrx).
Qed.

Lemma target_of_call_of t : wf_target t = true -> target_of_call (call_of t) = t.
Proof.
  intros H. unfold wf_target in H. destruct (p_assoc (t_var t) variable_table) as [sel|]; [|discriminate].
  apply andb_prop in H as [Hk _]. unfold target_of_call, call_of. cbn [tc_neg tc_count tc_var tc_key].
  rewrite (classify_key_bytes _ _ _ Hk). now destruct t.
Qed.

Theorem parse_variables_render qs ts : ts <> [] -> forallb wf_target ts = true ->
  option_map (map target_of_call) (parse_variables (render_targets qs ts)) = Some ts.
Proof.
  intros Hne Hwf. unfold parse_variables. change pv_init with (pv_i false []).
  rewrite (pv_targets ts qs [] Hne Hwf). cbn [rev app option_map]. f_equal.
  rewrite map_map. clear Hne. induction ts as [|t r IH]; [reflexivity|].
  cbn [forallb] in Hwf. apply andb_prop in Hwf as [Ht Hr]. cbn [map]. rewrite (target_of_call_of t Ht).
  now rewrite (IH Hr).
Qed.

(* ------------------------------------------------------------------------------------ *)
(* Part 7: ParseRule on a rendered rule, evaluateLine on a rendered line                *)
(* ------------------------------------------------------------------------------------ *)
Lemma render_actions_form vs a r : wf_action a = true -> wf_avar (hd avar_plain vs) a = true ->
  exists c x, render_actions vs (a :: r) = c :: x.
Proof.
  intros Ha Hva. destruct (wf_action_split a Ha) as (ty & Hn & _).
  assert (Hpad : is_pad (av_pad (hd avar_plain vs)) = true) by (unfold wf_avar in Hva; now apply andb_prop in Hva as [? _]).
  destruct (raw_key_facts (hd avar_plain vs) a ty Hpad Hn) as (_ & Hkne & _).
  destruct (raw_key (hd avar_plain vs) a) as [|c k] eqn:EK; [congruence|].
  destruct r as [|a' r'].
  - exists c. eexists. cbn [render_actions]. rewrite render_action_eq, EK. reflexivity.
  - exists c. eexists.
    change (render_actions vs (a :: a' :: r')) with
      (render_action (hd avar_plain vs) a ++ cCOMMA :: render_actions (tl vs) (a' :: r')).
    rewrite render_action_eq, EK. reflexivity.
Qed.

Lemma upper_us_no ch s : forallb upper_us s = true -> upper_us ch = false -> no_byte ch s = true.
Proof.
  intros H Hc. unfold no_byte. apply forallb_forall. intros x Hx. apply negb_true_iff. apply N.eqb_neq.
  intros E. subst. now rewrite (proj1 (forallb_forall _ _) H ch Hx) in Hc.
Qed.

Lemma variable_name_upper name sel : p_assoc name variable_table = Some sel -> forallb upper_us name = true.
Proof.
  intros H. pose proof (p_assoc_In _ _ _ H) as Hin.
  pose proof (proj1 (forallb_forall _ variable_table) variable_names_ok (name, sel) Hin) as Hk.
  cbn [fst] in Hk. now apply andb_prop in Hk as [H1 _].
Qed.

(* neither a space nor a line feed inside the rendered targets *)
Lemma render_target_safe ch q t : ch = cSP \/ ch = cLF -> wf_target t = true ->
  no_byte ch (render_target q t) = true.
Proof.
  intros Hch Hwf. unfold wf_target in Hwf.
  destruct (p_assoc (t_var t) variable_table) as [sel|] eqn:Hn; [|discriminate].
  apply andb_prop in Hwf as [Hkey _].
  pose proof (variable_name_upper _ _ Hn) as Hup.
  assert (Hts : forall s, token_safe s = true -> no_byte ch s = true).
  { intros s Hs. unfold token_safe in Hs. apply andb_prop in Hs as [A B]. destruct Hch; subst; assumption. }
  unfold render_target. rewrite !no_byte_app. repeat (apply andb_true_intro; split).
  - destruct Hch; subst; destruct (t_neg t); reflexivity.
  - destruct Hch; subst; destruct (t_count t); reflexivity.
  - apply upper_us_no; [exact Hup|destruct Hch; subst; reflexivity].
  - destruct (t_key t) as [|k|r]; cbn [render_key wf_key] in *.
    + reflexivity.
    + apply andb_prop in Hkey as [Hkey _]. apply andb_prop in Hkey as [Hkey _]. apply andb_prop in Hkey as [_ Hs].
      rewrite no_byte_cons, (Hts _ Hs). destruct Hch; subst; reflexivity.
    + apply andb_prop in Hkey as [Hkey _]. apply andb_prop in Hkey as [_ Hs].
      destruct q; rewrite !no_byte_cons, no_byte_app, (Hts _ Hs); destruct Hch; subst; reflexivity.
Qed.

Lemma render_targets_safe ch ts : forall qs, ch = cSP \/ ch = cLF -> forallb wf_target ts = true ->
  no_byte ch (render_targets qs ts) = true.
Proof.
  induction ts as [|t r IH]; intros qs Hch Hwf; [reflexivity|].
  cbn [forallb] in Hwf. apply andb_prop in Hwf as [Ht Hr].
  destruct r as [|t' r'].
  - cbn [render_targets]. now apply render_target_safe.
  - change (render_targets qs (t :: t' :: r')) with (render_target (hd false qs) t ++ cPIPE :: render_targets (tl qs) (t' :: r')).
    rewrite no_byte_app, no_byte_cons, (render_target_safe ch _ t Hch Ht), (IH (tl qs) Hch Hr).
    destruct Hch; subst; reflexivity.
Qed.

Definition op_body (o : opdesc) : bytes := o_fn o ++ match o_arg o with [] => [] | a => cSP :: a end.

Lemma wf_op_facts o : wf_op o = true ->
  o_fn o = op_prefix (o_neg o) ++ o_name o /\ operator_known (o_name o) = true /\
  p_trim_space (o_arg o) = o_arg o /\ wf_esc (o_arg o) false = true /\ line_safe (o_arg o) = true.
Proof.
  unfold wf_op. intros H. apply andb_prop in H as [H H5]. apply andb_prop in H as [H H4].
  apply andb_prop in H as [H H3]. apply andb_prop in H as [H1 H2].
  apply bytes_eqb_eq in H2, H3. auto.
Qed.

Lemma op_fn_plain o : wf_op o = true ->
  no_byte cDQ (o_fn o) = true /\ no_byte cBS (o_fn o) = true /\ no_byte cLF (o_fn o) = true.
Proof.
  intros H. destruct (wf_op_facts o H) as (Efn & Hk & _). rewrite Efn.
  destruct (operator_known_ok _ Hk) as [Hal _].
  rewrite !no_byte_app.
  rewrite (forallb_alnum_no_byte _ cDQ Hal eq_refl), (forallb_alnum_no_byte _ cBS Hal eq_refl),
          (forallb_alnum_no_byte _ cLF Hal eq_refl).
  destruct (o_neg o); repeat split; reflexivity.
Qed.

Lemma render_op_eq o : wf_op o = true -> render_op o = cDQ :: escape_dq (op_body o) ++ [cDQ].
Proof.
  intros H. destruct (op_fn_plain o H) as (Hq & _). unfold render_op, op_body.
  rewrite (escape_dq_app_noq _ _ Hq). rewrite <- app_assoc. destruct (o_arg o) as [|a0 arg]; [reflexivity|].
  reflexivity.
Qed.

Lemma op_body_wf o : wf_op o = true -> wf_esc (op_body o) false = true.
Proof.
  intros H. destruct (op_fn_plain o H) as (Hq & Hb & _). destruct (wf_op_facts o H) as (_ & _ & _ & He & _).
  unfold op_body. apply wf_esc_app_plain; [exact Hq|exact Hb|].
  destruct (o_arg o) as [|a0 arg]; [reflexivity|]. exact He.
Qed.

Lemma parse_operator_body o : wf_op o = true -> parse_operator (op_body o) = Some o.
Proof.
  intros H. destruct (wf_op_facts o H) as (Efn & Hk & Ht & _).
  unfold op_body. rewrite Efn. rewrite <- app_assoc.
  pose proof (po_render (o_name o) (o_neg o) (o_arg o) Hk Ht) as P.
  destruct (o_arg o) as [|a0 arg] eqn:EA; rewrite P; f_equal; destruct o; cbn in *; now subst.
Qed.

Lemma match_nonempty {A B} (l : list A) (x y : B) : l <> [] ->
  match l with [] => x | _ :: _ => y end = y.
Proof. destruct l; [congruence|reflexivity]. Qed.

Theorem parse_rule_render v d : wf_desc d = true -> wf_rvar v d = true ->
  parse_rule (render_rule v d) = Some d.
Proof.
  intros Hwf Hv. unfold wf_desc in Hwf.
  apply andb_prop in Hwf as [Hwf Hcnt]. apply andb_prop in Hwf as [Hwf Hacts].
  apply andb_prop in Hwf as [Hwf Hop]. apply andb_prop in Hwf as [Hne Hts].
  destruct d as [ts op al]. cbn [r_targets r_op r_actions] in *.
  destruct op as [o|]; [|discriminate].
  assert (Htne : ts <> []) by (destruct ts; [discriminate|congruence]).
  apply Nat.leb_le in Hcnt. unfold wf_rvar in Hv. cbn [r_actions] in Hv.
  unfold render_rule. cbn [r_targets r_op r_actions].
  rewrite (render_op_eq o Hop).
  set (vars := render_targets (rv_tquote v) ts).
  set (acts := render_actions (rv_avars v) al).
  replace (vars ++ cSP :: p_spaces (rv_gap1 v) ++ (cDQ :: escape_dq (op_body o) ++ [cDQ]) ++
           cSP :: p_spaces (rv_gap2 v) ++ cDQ :: acts ++ [cDQ])
    with (vars ++ cSP :: p_spaces (rv_gap1 v) ++ cDQ :: escape_dq (op_body o) ++ cDQ ::
          cSP :: p_spaces (rv_gap2 v) ++ cDQ :: acts ++ [cDQ])
    by (cbn [app]; rewrite <- app_assoc; reflexivity).
  destruct (render_targets_form (rv_tquote v) ts Htne Hts) as (a0 & m0 & Evars & Ha0).
  assert (Hvne : vars <> []) by (unfold vars; rewrite Evars; discriminate).
  pose proof (render_targets_safe cSP ts (rv_tquote v) (or_introl eq_refl) Hts) as Hvsp.
  pose proof (pao_render vars (op_body o) acts (rv_gap1 v) (rv_gap2 v) Hvne Hvsp (op_body_wf o Hop)) as Hpao.
  unfold parse_rule.
  set (data := vars ++ cSP :: p_spaces (rv_gap1 v) ++ cDQ :: escape_dq (op_body o) ++ cDQ ::
               cSP :: p_spaces (rv_gap2 v) ++ cDQ :: acts ++ [cDQ]) in *.
  assert (Htrim : p_trim_space data = data).
  { apply (p_trim_space_id data 0).
    - unfold data, vars. rewrite Evars. discriminate.
    - unfold data, vars. rewrite Evars. exact Ha0.
    - unfold data.
      replace (vars ++ cSP :: p_spaces (rv_gap1 v) ++ cDQ :: escape_dq (op_body o) ++ cDQ :: cSP :: p_spaces (rv_gap2 v) ++ cDQ :: acts ++ [cDQ])
        with ((vars ++ cSP :: p_spaces (rv_gap1 v) ++ cDQ :: escape_dq (op_body o) ++ cDQ :: cSP :: p_spaces (rv_gap2 v) ++ cDQ :: acts) ++ [cDQ]).
      + rewrite p_last_app. reflexivity.
      + repeat (rewrite <- ?app_assoc; cbn [app]). reflexivity. }
  rewrite Htrim.
  assert (Hdne : data <> []) by (unfold data; destruct vars; [congruence|discriminate]).
  rewrite (match_nonempty data _ _ Hdne).
  rewrite Hpao.
  pose proof (parse_variables_render (rv_tquote v) ts Htne Hts) as Hpv. fold vars in Hpv.
  destruct (parse_variables vars) as [calls|]; [|discriminate]. cbn [option_map] in Hpv. inversion Hpv as [Hmap].
  rewrite (parse_operator_body o Hop).
  destruct al as [|a r].
  - reflexivity.
  - cbn [forallb] in Hacts. pose proof Hacts as Hacts'. apply andb_prop in Hacts' as [Ha _].
    cbn [wf_avars] in Hv. pose proof Hv as Hv'. apply andb_prop in Hv' as [Hva _].
    destruct (render_actions_form (rv_avars v) a r Ha Hva) as (c & x & Eacts).
    unfold acts. rewrite Eacts. rewrite <- Eacts.
    rewrite (parse_actions_render (rv_avars v) (a :: r)); [reflexivity|discriminate|exact Hacts|exact Hv|exact Hcnt].
Qed.

(* the first byte of the rendered targets *)
Definition tstart (a : N) : bool := upper_us a || (a =? cBANG) || (a =? cAMP).
Lemma tstart_facts a : tstart a = true -> nsp a = true /\ (a =? cDQ) = false /\ (a =? cHASH) = false.
Proof.
  unfold tstart. intros H. apply orb_prop in H as [H|H]; [apply orb_prop in H as [H|H]|].
  - destruct (upper_us_name_char a H) as (_ & _ & Hn). split; [exact Hn|].
    unfold upper_us in H. split; apply N.eqb_neq; intros E; subst a; discriminate.
  - apply N.eqb_eq in H. subst a. repeat split; reflexivity.
  - apply N.eqb_eq in H. subst a. repeat split; reflexivity.
Qed.

Lemma render_targets_start qs ts : ts <> [] -> forallb wf_target ts = true ->
  exists a m, render_targets qs ts = a :: m /\ tstart a = true.
Proof.
  intros Hne Hwf. destruct ts as [|t r]; [congruence|].
  cbn [forallb] in Hwf. apply andb_prop in Hwf as [Ht _].
  assert (exists a m, render_target (hd false qs) t = a :: m /\ tstart a = true) as (a & m & E & Ha).
  { unfold wf_target in Ht. destruct (p_assoc (t_var t) variable_table) as [sel|] eqn:Hn; [|discriminate].
    pose proof (variable_name_upper _ _ Hn) as Hup. destruct (variable_name_ok _ _ Hn) as (_ & Hne' & _).
    unfold render_target. destruct (t_var t) as [|c n]; [congruence|].
    cbn [forallb] in Hup. apply andb_prop in Hup as [Hc _].
    destruct (t_neg t), (t_count t); cbn [app]; eexists; eexists; (split; [reflexivity|]); try reflexivity.
    unfold tstart. now rewrite Hc. }
  destruct r as [|t' r'].
  - exists a, m. cbn [render_targets]. now split.
  - exists a. eexists. split; [|exact Ha].
    change (render_targets qs (t :: t' :: r')) with (render_target (hd false qs) t ++ cPIPE :: render_targets (tl qs) (t' :: r')).
    rewrite E. reflexivity.
Qed.

Lemma letters_no ch s : forallb letter_ s = true -> letter_ ch = false -> no_byte ch s = true.
Proof.
  intros H Hc. unfold no_byte. apply forallb_forall. intros x Hx. apply negb_true_iff. apply N.eqb_neq.
  intros E. subst. now rewrite (proj1 (forallb_forall _ _) H ch Hx) in Hc.
Qed.

Lemma kw_secrule_letters : forallb letter_ kw_secrule = true.
Proof. reflexivity. Qed.

Theorem evaluate_line_render mask v d : wf_desc d = true -> wf_rvar v d = true ->
  evaluate_line (render_line mask v d) = LRule d.
Proof.
  intros Hwf Hv. pose proof (parse_rule_render v d Hwf Hv) as Hpr.
  unfold wf_desc in Hwf. apply andb_prop in Hwf as [Hwf _]. apply andb_prop in Hwf as [Hwf _].
  apply andb_prop in Hwf as [Hwf _]. apply andb_prop in Hwf as [Hne Hts].
  assert (Htne : r_targets d <> []) by (destruct (r_targets d); [discriminate|congruence]).
  destruct (render_targets_start (rv_tquote v) _ Htne Hts) as (a & m & Ev & Ha).
  destruct (tstart_facts a Ha) as (_ & Hadq & _).
  pose proof (vary_case_letters mask _ kw_secrule_letters) as Hlet.
  unfold render_line. set (kw := vary_case mask kw_secrule) in *.
  assert (Hkw : exists k0 k', kw = k0 :: k' /\ (k0 =? cHASH) = false).
  { unfold kw, kw_secrule. destruct mask as [|b mask]; cbn [str vary_case]; [eexists; eexists; split; reflexivity|].
    destruct b; eexists; eexists; split; reflexivity. }
  destruct Hkw as (k0 & k' & Ekw & Hk0).
  unfold evaluate_line. rewrite Ekw. cbn [app]. rewrite Hk0.
  change (k0 :: k' ++ cSP :: render_rule v d) with ((k0 :: k') ++ cSP :: render_rule v d). rewrite <- Ekw.
  rewrite (p_cut_app cSP kw (render_rule v d)) by (apply letters_no; [exact Hlet|reflexivity]).
  assert (Hdir : p_lower kw = d_secrule) by (unfold kw; rewrite p_lower_vary; reflexivity).
  rewrite Hdir.
  assert (Hopts : exists x, render_rule v d = a :: x).
  { unfold render_rule. rewrite Ev. eexists. reflexivity. }
  destruct Hopts as (x & Eopts).
  assert (Hq : p_is_quoted_dq (render_rule v d) = false).
  { rewrite Eopts. unfold p_is_quoted_dq. destruct x; [reflexivity|]. now rewrite Hadq. }
  rewrite Hq, andb_false_r.
  change (bytes_eqb d_secrule d_include) with false. change (bytes_eqb d_secrule d_secrule) with true. cbn match.
  rewrite Hpr. rewrite Eopts. reflexivity.
Qed.

(* ------------------------------------------------------------------------------------ *)
(* Part 8: line assembly (parseString): comments, blank lines, indentation, continuation *)
(* ------------------------------------------------------------------------------------ *)
Definition skipped_line (raw : bytes) : Prop :=
  p_trim_space raw = [] \/ exists r, p_trim_space raw = cHASH :: r.

Lemma ps_skip ev raw rest buf inbt g : skipped_line raw ->
  ps_loop ev (raw :: rest) buf inbt g = ps_loop ev rest buf inbt g.
Proof. intros [H|(r & H)]; cbn [ps_loop]; rewrite H; reflexivity. Qed.

(* a blank or comment line may be inserted anywhere, even inside a continuation *)
Theorem ps_insert_skipped ev raw l1 : forall l2 buf inbt g, skipped_line raw ->
  ps_loop ev (l1 ++ raw :: l2) buf inbt g = ps_loop ev (l1 ++ l2) buf inbt g.
Proof.
  induction l1 as [|x l1 IH]; intros l2 buf inbt g H.
  - cbn [app]. now apply ps_skip.
  - cbn [app ps_loop]. destruct (p_trim_space x) as [|c0 t]; [now apply IH|].
    destruct (c0 =? cHASH); [now apply IH|].
    destruct (if negb inbt && (p_last (c0 :: t) =? cBT) then true else if inbt && (c0 =? cBT) then false else inbt);
      [now apply IH|].
    destruct (p_last (c0 :: t) =? cBS); [now apply IH|].
    destruct (ev g (buf ++ c0 :: t)); [now apply IH|reflexivity].
Qed.

(* only the trimmed content of a physical line matters: indentation and trailing blanks *)
Theorem ps_trim_ext ev l1 : forall l2 buf inbt g, map p_trim_space l1 = map p_trim_space l2 ->
  ps_loop ev l1 buf inbt g = ps_loop ev l2 buf inbt g.
Proof.
  induction l1 as [|x l1 IH]; intros l2 buf inbt g H; destruct l2 as [|y l2]; try discriminate; [reflexivity|].
  cbn [map] in H. inversion H as [[Hxy Hr]]. cbn [ps_loop]. rewrite Hxy.
  destruct (p_trim_space y) as [|c0 t]; [now apply IH|].
  destruct (c0 =? cHASH); [now apply IH|].
  destruct (if negb inbt && (p_last (c0 :: t) =? cBT) then true else if inbt && (c0 =? cBT) then false else inbt);
    [now apply IH|].
  destruct (p_last (c0 :: t) =? cBS); [now apply IH|].
  destruct (ev g (buf ++ c0 :: t)); [now apply IH|reflexivity].
Qed.

Lemma p_trim_left_rev_pad pad s : is_pad pad = true -> p_trim_left_rev (pad ++ s) = p_trim_left_rev s.
Proof.
  induction pad as [|c pad IH]; intros H; [reflexivity|].
  cbn [is_pad forallb] in H. apply andb_prop in H as [Hc Hp].
  cbn [app p_trim_left_rev].
  assert (Hs : p_is_ascii_space c = true).
  { unfold p_is_ascii_space. apply orb_prop in Hc as [Hc|Hc]; unfold cSP, cTAB in Hc;
      apply N.eqb_eq in Hc; subst c; reflexivity. }
  rewrite Hs. apply IH. exact Hp.
Qed.

Lemma is_pad_rev pad : is_pad pad = true -> is_pad (rev pad) = true.
Proof.
  unfold is_pad. intros H. apply forallb_forall. intros x Hx. apply in_rev in Hx.
  exact (proj1 (forallb_forall _ _) H x Hx).
Qed.

Lemma p_trim_right_pad s pad : is_pad pad = true -> p_trim_right (s ++ pad) = p_trim_right s.
Proof.
  intros H. rewrite !p_trim_right_eq. rewrite rev_app_distr. now rewrite (p_trim_left_rev_pad _ _ (is_pad_rev _ H)).
Qed.

(* blanks and tabs around a line do not matter *)
Lemma p_trim_space_indent pad1 pad2 s : is_pad pad1 = true -> is_pad pad2 = true -> s <> [] ->
  nsp (hd 0 s) = true -> p_trim_space (pad1 ++ s ++ pad2) = p_trim_space s.
Proof.
  intros H1 H2 Hne Hh. unfold p_trim_space. rewrite (p_trim_left_pad _ _ H1).
  destruct s as [|c r]; [congruence|]. cbn [hd] in Hh. cbn [app].
  rewrite (p_trim_left_nsp c (r ++ pad2) Hh), (p_trim_left_nsp c r Hh).
  change (c :: r ++ pad2) with ((c :: r) ++ pad2). now apply p_trim_right_pad.
Qed.

Lemma removelast_app_ne {A} (a b : list A) : b <> [] -> removelast (a ++ b) = a ++ removelast b.
Proof. intros H. now apply removelast_app. Qed.

(* a logical line may be broken by backslash-newline in front of any piece that survives
   trimming (starts with a byte that is neither blank nor '#') *)
Theorem ps_continuation ev raw1 raw2 raw a b rest buf g :
  p_trim_space raw1 = a ++ [cBS] -> a <> [] -> (hd 0 a =? cHASH) = false ->
  p_trim_space raw2 = b -> b <> [] -> (hd 0 b =? cHASH) = false ->
  p_trim_space raw = a ++ b ->
  ps_loop ev (raw1 :: raw2 :: rest) buf false g = ps_loop ev (raw :: rest) buf false g.
Proof.
  intros H1 Ha Hah H2 Hb Hbh H.
  destruct a as [|a0 a']; [congruence|]. destruct b as [|b0 b']; [congruence|]. cbn [hd] in Hah, Hbh.
  cbn [ps_loop]. rewrite H1, H2, H. cbn [app]. rewrite Hah.
  change (a0 :: a' ++ [cBS]) with ((a0 :: a') ++ [cBS]). rewrite p_last_app.
  change (cBS =? cBT) with false. change (cBS =? cBS) with true. cbn [andb negb]. cbn match.
  rewrite removelast_last. rewrite Hbh.
  assert (Hl : p_last (a0 :: a' ++ b0 :: b') = p_last (b0 :: b')).
  { unfold p_last. change (a0 :: a' ++ b0 :: b') with ((a0 :: a') ++ b0 :: b'). apply last_app_ne. discriminate. }
  rewrite Hl. cbn [andb negb].
  destruct (p_last (b0 :: b') =? cBT).
  - cbn match. rewrite <- !app_assoc. reflexivity.
  - cbn match. destruct (p_last (b0 :: b') =? cBS).
    + change (a0 :: a' ++ b0 :: b') with ((a0 :: a') ++ b0 :: b').
      rewrite (removelast_app_ne (a0 :: a') (b0 :: b')) by discriminate. rewrite <- !app_assoc. reflexivity.
    + change (a0 :: a' ++ b0 :: b') with ((a0 :: a') ++ b0 :: b'). rewrite <- !app_assoc. reflexivity.
Qed.

(* the letter case of the directive keyword does not matter: any text *)
Theorem evaluate_line_keyword_case mask kw rest : no_byte cSP kw = true -> kw <> [] ->
  (hd 0 kw =? cHASH) = false ->
  evaluate_line (vary_case mask kw ++ cSP :: rest) = evaluate_line (kw ++ cSP :: rest).
Proof.
  intros Hsp Hne Hh.
  assert (Hv : no_byte cSP (vary_case mask kw) = true).
  { clear -Hsp. revert kw Hsp. induction mask as [|b m IH]; intros kw H; destruct kw as [|c k]; try exact H; try reflexivity.
    rewrite no_byte_cons in H. apply andb_prop in H as [Hc Hk]. cbn [vary_case]. rewrite no_byte_cons, (IH k Hk), andb_true_r.
    destruct b; [|exact Hc]. apply negb_true_iff in Hc. apply negb_true_iff. unfold flip_case.
    apply N.eqb_neq in Hc. destruct ((65 <=? c) && (c <=? 90)) eqn:E1.
    - apply andb_prop in E1 as [A B]. apply N.leb_le in A, B. apply N.eqb_neq. unfold cSP. lia.
    - destruct ((97 <=? c) && (c <=? 122)) eqn:E2.
      + apply andb_prop in E2 as [A B]. apply N.leb_le in A, B. apply N.eqb_neq. unfold cSP. lia.
      + now apply N.eqb_neq. }
  destruct kw as [|k0 k']; [congruence|]. cbn [hd] in Hh.
  assert (Hv0 : exists v0 v', vary_case mask (k0 :: k') = v0 :: v' /\ (v0 =? cHASH) = false).
  { destruct mask as [|b m]; [exists k0, k'; now split|]. cbn [vary_case]. eexists. eexists. split; [reflexivity|].
    destruct b; [|exact Hh]. unfold flip_case. apply N.eqb_neq in Hh.
    destruct ((65 <=? k0) && (k0 <=? 90)) eqn:E1.
    - apply andb_prop in E1 as [A B]. apply N.leb_le in A, B. apply N.eqb_neq. unfold cHASH. lia.
    - destruct ((97 <=? k0) && (k0 <=? 122)) eqn:E2.
      + apply andb_prop in E2 as [A B]. apply N.leb_le in A, B. apply N.eqb_neq. unfold cHASH. lia.
      + now apply N.eqb_neq. }
  destruct Hv0 as (v0 & v' & Ev & Hv0).
  unfold evaluate_line.
  rewrite Ev in *. cbn [app]. rewrite Hv0, Hh.
  change (v0 :: v' ++ cSP :: rest) with ((v0 :: v') ++ cSP :: rest).
  change (k0 :: k' ++ cSP :: rest) with ((k0 :: k') ++ cSP :: rest).
  rewrite (p_cut_app cSP _ rest Hv), (p_cut_app cSP _ rest Hsp).
  rewrite <- Ev. now rewrite p_lower_vary.
Qed.

(* ------------------------------------------------------------------------------------ *)
(* Part 9: a whole configuration text consisting of one rendered rule                   *)
(* ------------------------------------------------------------------------------------ *)
Lemma rev_nil_iff {A} (l : list A) : rev l = [] -> l = [].
Proof. intros H. apply (f_equal (@rev A)) in H. now rewrite rev_involutive in H. Qed.

Lemma split_lines_aux_nolf s : forall cur, no_byte cLF s = true ->
  split_lines_aux s cur = match rev cur ++ s with [] => [] | _ => [p_drop_cr (rev cur ++ s)] end.
Proof.
  induction s as [|c r IH]; intros cur H.
  - cbn [split_lines_aux]. rewrite p_rev_eq, app_nil_r. destruct cur as [|x cur]; [reflexivity|].
    destruct (rev (x :: cur)) eqn:E; [apply rev_nil_iff in E; discriminate|reflexivity].
  - rewrite no_byte_cons in H. apply andb_prop in H as [Hc Hr]. apply negb_true_iff in Hc.
    cbn [split_lines_aux]. rewrite Hc. rewrite (IH (c :: cur) Hr). cbn [rev]. now rewrite <- !app_assoc.
Qed.

Lemma split_lines_aux_lf s rest : forall cur, no_byte cLF s = true ->
  split_lines_aux (s ++ cLF :: rest) cur = p_drop_cr (rev cur ++ s) :: split_lines_aux rest [].
Proof.
  induction s as [|c r IH]; intros cur H.
  - cbn [app split_lines_aux]. change (cLF =? cLF) with true. cbn match. now rewrite p_rev_eq, app_nil_r.
  - rewrite no_byte_cons in H. apply andb_prop in H as [Hc Hr]. apply negb_true_iff in Hc.
    cbn [app split_lines_aux]. rewrite Hc. rewrite (IH (c :: cur) Hr). cbn [rev]. now rewrite <- !app_assoc.
Qed.

Lemma p_drop_cr_id l : (p_last l =? cCR) = false -> p_drop_cr l = l.
Proof.
  intros H. unfold p_drop_cr. rewrite p_rev_eq. destruct (rev l) as [|c r] eqn:E; [reflexivity|].
  assert (c = p_last l).
  { apply (f_equal (@rev N)) in E. rewrite rev_involutive in E. rewrite E. cbn [rev]. now rewrite p_last_app. }
  subst c. now rewrite H.
Qed.

Definition ps_ev (f : nat) (files : list (bytes * bytes)) (dir : bytes) : gstate -> bytes -> option gstate :=
  fun g l =>
    match evaluate_line l with
    | LError => None
    | LRule d => Some (mk_g (g_inc g) (d :: g_rules g) (dir :: g_dirs g))
    | LUpdate fields =>
      match apply_update fields (rev (g_rules g)) with
      | None => None
      | Some rules => Some (mk_g (g_inc g) (rev rules) (g_dirs g))
      end
    | LInclude path =>
      if max_include <=? g_inc g then None
      else let p := from_file_path dir path in
           match p_assoc p files with
           | None => None
           | Some content =>
             parse_string f files (path_dir p) (mk_g (g_inc g + 1) (g_rules g) (g_dirs g)) content
           end
    end.

Lemma parse_string_S f files dir g text :
  parse_string (S f) files dir g text =
  match ps_loop (ps_ev f files dir) (scanner_lines (split_lines text)) [] false g with
  | None => None
  | Some g' => if scanner_truncated (split_lines text) then None else Some g'
  end.
Proof. reflexivity. Qed.

Theorem parse_config_line files l d :
  l <> [] -> no_byte cLF l = true -> nsp (hd 0 l) = true -> (hd 0 l =? cHASH) = false ->
  nsp (p_last l) = true -> (p_last l =? cBT) = false -> (p_last l =? cBS) = false ->
  (N.of_nat (length l) <? max_line) = true -> evaluate_line l = LRule d ->
  parse_config files l = Some [d] /\ parse_config files (l ++ [cLF]) = Some [d].
Proof.
  intros Hne Hlf Hh Hhash Hl Hbt Hbs Hlen Hev.
  assert (Hcr : (p_last l =? cCR) = false).
  { unfold nsp, p_is_ascii_space in Hl. apply andb_prop in Hl as [_ Hl]. apply negb_true_iff in Hl.
    repeat (apply orb_false_elim in Hl as [Hl ?]). assumption. }
  assert (Hloop : forall g, ps_loop (ps_ev 101 files []) [l] [] false g = Some (mk_g (g_inc g) (d :: g_rules g) ([] :: g_dirs g))).
  { intros g. cbn [ps_loop]. rewrite (p_trim_space_id l 0 Hne Hh Hl).
    destruct l as [|c0 t]; [congruence|]. cbn [hd] in Hhash. rewrite Hhash, Hbt, Hbs. cbn [negb andb app].
    cbn match. unfold ps_ev at 1. rewrite Hev. reflexivity. }
  assert (Hfit : line_fits l = true) by exact Hlen.
  split.
  - unfold parse_config. change include_fuel with (S 101). rewrite parse_string_S.
    unfold split_lines. rewrite (split_lines_aux_nolf l [] Hlf). cbn [rev app].
    rewrite (match_nonempty l _ _ Hne). rewrite (p_drop_cr_id l Hcr). cbn [scanner_lines]. rewrite Hfit.
    rewrite Hloop. unfold scanner_truncated. cbn [forallb]. rewrite Hfit. reflexivity.
  - unfold parse_config. change include_fuel with (S 101). rewrite parse_string_S.
    unfold split_lines. rewrite (split_lines_aux_lf l [] [] Hlf). cbn [rev app split_lines_aux].
    rewrite (p_drop_cr_id l Hcr). cbn [scanner_lines]. rewrite Hfit. rewrite Hloop. unfold scanner_truncated. cbn [forallb]. rewrite Hfit. reflexivity.
Qed.

Lemma escape_dq_no_lf s : no_byte cLF (escape_dq s) = no_byte cLF s.
Proof.
  induction s as [|c s IH]; [reflexivity|]. cbn [escape_dq]. destruct (c =? cDQ) eqn:E.
  - apply N.eqb_eq in E. subst c. rewrite !no_byte_cons, IH. reflexivity.
  - now rewrite !no_byte_cons, IH.
Qed.

Lemma is_pad_no_lf pad : is_pad pad = true -> no_byte cLF pad = true.
Proof.
  intros H. unfold no_byte. apply forallb_forall. intros x Hx.
  pose proof (proj1 (forallb_forall _ _) H x Hx) as Hc. cbn beta in Hc.
  apply orb_prop in Hc as [Hc|Hc]; apply N.eqb_eq in Hc; subst x; reflexivity.
Qed.

Lemma render_action_no_lf v a : wf_action a = true -> wf_avar v a = true -> no_byte cLF (render_action v a) = true.
Proof.
  intros Ha Hv. destruct (wf_action_split a Ha) as (ty & Hn & _ & _ & Hls).
  destruct (action_name_ok _ _ Hn) as [Hlow _].
  assert (Hpad : is_pad (av_pad v) = true) by (unfold wf_avar in Hv; now apply andb_prop in Hv as [? _]).
  pose proof (is_pad_no_lf _ Hpad) as Hp.
  pose proof (letters_no cLF _ (vary_case_letters (av_mask v) _ (lower_letter _ Hlow)) eq_refl) as Hnm.
  unfold render_action. rewrite !no_byte_app, Hp, Hnm. cbn [andb].
  destruct (a_value a) as [|v0 val] eqn:EV; [reflexivity|].
  unfold line_safe in Hls. rewrite no_byte_cons, no_byte_app, Hp. cbn [andb].
  destruct (av_quote v); [|exact Hls]. rewrite no_byte_cons, no_byte_app, Hls. reflexivity.
Qed.

Lemma render_actions_no_lf al : forall vs, forallb wf_action al = true -> wf_avars vs al = true ->
  no_byte cLF (render_actions vs al) = true.
Proof.
  induction al as [|a r IH]; intros vs Hwf Hvs; [reflexivity|].
  cbn [forallb] in Hwf. apply andb_prop in Hwf as [Ha Hr].
  cbn [wf_avars] in Hvs. apply andb_prop in Hvs as [Hva Hvr].
  destruct r as [|a' r'].
  - cbn [render_actions]. now apply render_action_no_lf.
  - change (render_actions vs (a :: a' :: r')) with
      (render_action (hd avar_plain vs) a ++ cCOMMA :: render_actions (tl vs) (a' :: r')).
    rewrite no_byte_app, no_byte_cons, (render_action_no_lf _ a Ha Hva), (IH (tl vs) Hr Hvr). reflexivity.
Qed.

Lemma spaces_no_lf n : no_byte cLF (p_spaces n) = true.
Proof. induction n as [|n IH]; [reflexivity|]. unfold p_spaces in *. cbn [repeat]. now rewrite no_byte_cons, IH. Qed.

Lemma render_line_facts mask v d : wf_desc d = true -> wf_rvar v d = true ->
  let l := render_line mask v d in
  l <> [] /\ no_byte cLF l = true /\ nsp (hd 0 l) = true /\ (hd 0 l =? cHASH) = false /\ p_last l = cDQ.
Proof.
  intros Hwf Hv. pose proof Hwf as Hwf0. unfold wf_desc in Hwf.
  apply andb_prop in Hwf as [Hwf _]. apply andb_prop in Hwf as [Hwf Hacts].
  apply andb_prop in Hwf as [Hwf Hop]. apply andb_prop in Hwf as [_ Hts].
  destruct (r_op d) as [o|] eqn:EO; [|discriminate].
  pose proof (vary_case_letters mask _ kw_secrule_letters) as Hlet.
  cbn zeta. unfold render_line, render_rule. rewrite EO.
  set (kw := vary_case mask kw_secrule) in *.
  assert (Hkw : exists k0 k', kw = k0 :: k' /\ letter_ k0 = true).
  { destruct kw as [|k0 k'] eqn:E; [unfold kw in E; apply vary_case_nil in E; discriminate|].
    exists k0, k'. split; [reflexivity|]. cbn [forallb] in Hlet. now apply andb_prop in Hlet as [? _]. }
  destruct Hkw as (k0 & k' & Ekw & Hk0).
  split; [rewrite Ekw; discriminate|]. split; [|split; [|split]].
  - assert (H1 : no_byte cLF kw = true) by exact (letters_no cLF _ Hlet eq_refl).
    assert (H2 : no_byte cLF (render_targets (rv_tquote v) (r_targets d)) = true)
      by exact (render_targets_safe cLF _ (rv_tquote v) (or_intror eq_refl) Hts).
    assert (Hob : no_byte cLF (op_body o) = true).
    { unfold op_body. destruct (op_fn_plain o Hop) as (_ & _ & Hf). destruct (wf_op_facts o Hop) as (_ & _ & _ & _ & Hls).
      rewrite no_byte_app, Hf. destruct (o_arg o); [reflexivity|]. unfold line_safe in Hls. now rewrite no_byte_cons, Hls. }
    assert (H4 : no_byte cLF (render_op o) = true).
    { rewrite (render_op_eq o Hop). rewrite no_byte_cons, no_byte_app, escape_dq_no_lf, Hob. reflexivity. }
    assert (H5 : no_byte cLF (render_actions (rv_avars v) (r_actions d)) = true)
      by (unfold wf_rvar in Hv; exact (render_actions_no_lf _ _ Hacts Hv)).
    repeat (rewrite no_byte_app || rewrite no_byte_cons).
    rewrite H1, H2, H4, H5, !spaces_no_lf. reflexivity.
  - rewrite Ekw. cbn [app hd]. exact (proj2 (letter_plain k0 Hk0)).
  - rewrite Ekw. cbn [app hd]. apply N.eqb_neq. intros E. subst k0. discriminate.
  - match goal with |- p_last ?x = _ =>
      replace x with ((kw ++ cSP :: render_targets (rv_tquote v) (r_targets d) ++ cSP :: p_spaces (rv_gap1 v) ++
                       render_op o ++ cSP :: p_spaces (rv_gap2 v) ++ cDQ :: render_actions (rv_avars v) (r_actions d)) ++ [cDQ])
    end.
    + now rewrite p_last_app.
    + repeat (rewrite <- ?app_assoc; cbn [app]). reflexivity.
Qed.

(* the full-text round trip: a configuration consisting of one rendered SecRule line compiles
   to exactly the description it was rendered from *)
Theorem parse_config_render mask v d : wf_desc d = true -> wf_rvar v d = true ->
  (N.of_nat (length (render_line mask v d)) <? max_line) = true ->
  parse_config [] (render_line mask v d) = Some [d] /\
  parse_config [] (render_line mask v d ++ [cLF]) = Some [d].
Proof.
  intros Hwf Hv Hlen. destruct (render_line_facts mask v d Hwf Hv) as (Hne & Hlf & Hh & Hhash & Hlast).
  apply parse_config_line; try assumption; try (rewrite Hlast; reflexivity).
  now apply evaluate_line_render.
Qed.

(* ------------------------------------------------------------------------------------ *)
(* Part 10: texts that are accepted although they cannot be represented (witnesses),    *)
(*          and texts that are rejected                                                 *)
(* ------------------------------------------------------------------------------------ *)
Local Open Scope string_scope.

(* F25: an unclosed single quote in an action list is accepted; the following action is
   swallowed into the value *)
Lemma unclosed_quote_witness :
  pa_unclosed (str "d:1,msg:'abc,tag:x") 105 false = true /\
  parse_actions (str "id:1,msg:'abc,tag:x")
  = Some [mk_action (str "id") (str "1") 1; mk_action (str "msg") (str "'abc,tag:x") 1].
Proof. split; vm_compute; reflexivity. Qed.

(* F30: a slash inside a plain key switches the scanner to regex mode; the rest is dropped *)
Lemma slash_in_plain_key_witness :
  parse_variables (str "ARGS:a/b") = Some [mk_tcall false false (str "ARGS") (str "/a/")] /\
  parse_variables (str "ARGS:'a/b'") = Some [mk_tcall false false (str "ARGS") (str "/ab/")].
Proof. split; vm_compute; reflexivity. Qed.

(* F36: a value ending in a backslash swallows the following action *)
Lemma trailing_backslash_witness :
  parse_actions (str "id:1,tag:x\,deny")
  = Some [mk_action (str "id") (str "1") 1; mk_action (str "tag") (str "x\,deny") 1] /\
  parse_actions (str "id:1,tag:'x\',deny")
  = Some [mk_action (str "id") (str "1") 1; mk_action (str "tag") (str "'x\',deny") 1].
Proof. split; vm_compute; reflexivity. Qed.

(* new: a quoted plain key keeps its closing quote; in front of a pipe it is an error *)
Lemma quoted_plain_key_witness :
  parse_variables (str "ARGS:'abc'") = Some [mk_tcall false false (str "ARGS") (str "abc'")] /\
  parse_variables (str "ARGS:'abc'|TX") = None.
Proof. split; vm_compute; reflexivity. Qed.

(* new: a regex key without its closing slash is accepted and loses its last byte *)
Lemma unterminated_regex_key_witness :
  parse_variables (str "ARGS:/abc") = Some [mk_tcall false false (str "ARGS") (str "/ab/")].
Proof. vm_compute; reflexivity. Qed.

(* repaired (F55): a configuration whose last line ends in a continuation backslash is rejected
   (before the repair the pending directive was dropped without an error) *)
Lemma dangling_continuation_witness :
  parse_config [] (str "SecRule ARGS ""@rx a"" ""id:1,deny"" \") = None /\
  exists d, parse_config [] (str "SecRule ARGS ""@rx a"" ""id:1,deny""") = Some [d].
Proof. split; [vm_compute; reflexivity|]. eexists. vm_compute. reflexivity. Qed.
Local Close Scope string_scope.

(* rejected: an action list with an unknown action name anywhere *)
Lemma pa_build_unknown raw : forall res didx k v,
  In (k, v) raw -> lookup_action (p_lower (p_trim_space k)) = None -> pa_build raw res didx = None.
Proof.
  induction raw as [|[k' v'] r IH]; intros res didx k v Hin Hl; [destruct Hin|].
  cbn [pa_build]. destruct Hin as [E|Hin].
  - inversion E; subst. now rewrite Hl.
  - destruct (lookup_action (p_lower (p_trim_space k'))) as [ty|]; [|reflexivity].
    destruct (ty =? 2); [destruct didx|]; eapply IH; eauto.
Qed.

Theorem parse_actions_unknown_rejected s k v :
  In (k, v) (pa_split s) -> lookup_action (p_lower (p_trim_space k)) = None -> parse_actions s = None.
Proof. intros H1 H2. unfold parse_actions. eapply pa_build_unknown; eauto. Qed.

(* rejected: an operator token whose closing quote is missing *)
Theorem cut_quoted_unterminated_rejected body : no_byte cDQ body = true -> cut_quoted_string (cDQ :: body) = None.
Proof.
  intros H. unfold cut_quoted_string. change (cDQ =? cDQ) with true. cbn match.
  now rewrite (cut_body_no_quote body false H).
Qed.

(* the scanner delivers only the lines before a physical line of 64 KiB or more *)
Theorem scanner_lines_truncates pre l post :
  forallb line_fits pre = true -> line_fits l = false ->
  scanner_lines (pre ++ l :: post) = pre /\ scanner_truncated (pre ++ l :: post) = true.
Proof.
  intros Hp Hl. split.
  - induction pre as [|x pre IH].
    + cbn [app scanner_lines]. now rewrite Hl.
    + cbn [forallb] in Hp. apply andb_prop in Hp as [Hx Hp]. cbn [app scanner_lines]. rewrite Hx.
      now rewrite (IH Hp).
  - unfold scanner_truncated. rewrite forallb_app. cbn [forallb]. rewrite Hl, andb_false_r. reflexivity.
Qed.

(* repaired (F54): a text with such a line is rejected as a whole (scanner.Err() is returned);
   before the repair everything after the long line was ignored without an error *)
Theorem parse_string_long_line_rejected f files dir g text :
  scanner_truncated (split_lines text) = true -> parse_string (S f) files dir g text = None.
Proof.
  intros H. rewrite parse_string_S, H.
  destruct (ps_loop (ps_ev f files dir) (scanner_lines (split_lines text)) [] false g); reflexivity.
Qed.

Theorem parse_config_long_line_rejected files text :
  scanner_truncated (split_lines text) = true -> parse_config files text = None.
Proof.
  intros H. unfold parse_config. change include_fuel with (S 101).
  now rewrite (parse_string_long_line_rejected 101 files [] (mk_g 0 [] []) text H).
Qed.

(* repaired (F55): a pending continuation at the end of the text is an error, in any state *)
Theorem ps_dangling_continuation_rejected ev raw a buf g :
  p_trim_space raw = a ++ [cBS] -> a <> [] -> (hd 0 a =? cHASH) = false ->
  ps_loop ev [raw] buf false g = None.
Proof.
  intros H Ha Hh. destruct a as [|a0 a']; [congruence|]. cbn [hd] in Hh.
  cbn [ps_loop]. rewrite H. cbn [app]. rewrite Hh.
  change (a0 :: a' ++ [cBS]) with ((a0 :: a') ++ [cBS]). rewrite p_last_app.
  change (cBS =? cBT) with false. change (cBS =? cBS) with true. cbn [andb negb]. cbn match.
  rewrite removelast_last. destruct buf; reflexivity.
Qed.

(* ------------------------------------------------------------------------------------ *)
(* Part 11: ConfigDir of a rule; SecRuleUpdateTargetById spellings                      *)
(* ------------------------------------------------------------------------------------ *)
(* a rule is compiled with the directory of the file whose line it is, in EVERY parser state
   (in particular in the state an Include of a file of another directory has returned) *)
Theorem ps_ev_rule_dir f files dir g l d : evaluate_line l = LRule d ->
  ps_ev f files dir g l = Some (mk_g (g_inc g) (d :: g_rules g) (dir :: g_dirs g)).
Proof. intros H. unfold ps_ev. now rewrite H. Qed.

(* the data file of a rule compiled in [dir] is the file the flat configuration names by its full path *)
Theorem resolve_data_flat files dir o :
  resolve_data files dir o = resolve_data files [] (mk_op (o_fn o) (o_name o) (o_neg o) (path_join dir (o_arg o))).
Proof. reflexivity. Qed.

Lemma rule_id_add_targets ts d : rule_id (add_targets ts d) = rule_id d.
Proof. reflexivity. Qed.

Lemma id_in_single z d : id_in z z d = id_is z d.
Proof.
  unfold id_in, id_is. destruct (Z.eqb_spec (Z.of_N (rule_id d)) z) as [E|E].
  - rewrite E, Z.leb_refl. reflexivity.
  - apply andb_false_iff. destruct (Z.leb_spec z (Z.of_N (rule_id d))); [right; apply Z.leb_gt; lia|now left].
Qed.

(* with distinct ids, updating the single id z is the range update z-z *)
Theorem upd_first_eq_range z ts rules : NoDup (map rule_id rules) ->
  upd_first z ts rules = upd_range z z ts rules.
Proof.
  induction rules as [|d r IH]; intros Hnd; [reflexivity|].
  cbn [map] in Hnd. inversion Hnd as [|x l Hni Hnd']; subst.
  cbn [upd_first]. unfold upd_range. cbn [map]. rewrite id_in_single.
  destruct (id_is z d) eqn:E.
  - f_equal. symmetry. rewrite <- (map_id r) at 2. apply map_ext_in. intros e He.
    rewrite id_in_single. destruct (id_is z e) eqn:Ee; [|reflexivity].
    exfalso. apply Hni. unfold id_is in E, Ee. apply Z.eqb_eq in E, Ee.
    assert (rule_id e = rule_id d) by lia. rewrite <- H. now apply in_map.
  - f_equal. apply IH. exact Hnd'.
Qed.

(* a range may be split at any point: a-m followed by (m+1)-b is a-b *)
Theorem upd_range_split a m b ts rules : (a <= m)%Z -> (m < b)%Z ->
  upd_range (m + 1) b ts (upd_range a m ts rules) = upd_range a b ts rules.
Proof.
  intros H1 H2. unfold upd_range. rewrite map_map. apply map_ext. intros d.
  unfold id_in.
  destruct (Z.leb_spec a (Z.of_N (rule_id d))), (Z.leb_spec (Z.of_N (rule_id d)) m); cbn [andb];
    change (rule_id (add_targets ts d)) with (rule_id d);
    destruct (Z.leb_spec (m + 1) (Z.of_N (rule_id d))), (Z.leb_spec (Z.of_N (rule_id d)) b); cbn [andb];
    try reflexivity; lia.
Qed.

(* a range update adds the positive targets and the exclusions to every rule of the range and
   to no other rule *)
Theorem upd_range_spec a b ts rules d : In d (upd_range a b ts rules) ->
  exists d0, In d0 rules /\ d = (if id_in a b d0 then add_targets ts d0 else d0).
Proof. unfold upd_range. intros H. apply in_map_iff in H as (d0 & E & Hin). exists d0. now split. Qed.
