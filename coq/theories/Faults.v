(* Faults.v — executable model for property C20 (failures are reported, never swallowed, and no
   temporary file is left behind).  No proofs here (FaultsProofs.v).

   What is modelled, from the Go source read line by line:
     internal/corazawaf/body_buffer.go   Write (:50-96), bodyBufferReader.Read (:102-127, as one read
                                         operation per consumer step), Reset (:150-174)
     internal/corazawaf/transaction.go   ProcessRequestHeaders (:896), WriteRequestBody (:931-989),
                                         ProcessRequestBody (:1078-1161) with generateRequestBodyError,
                                         ProcessLogging (:1404-1455, the audit write), Close (:1685-1733),
                                         and newTransaction's re-initialisation (waf.go:198-280)
     internal/bodyprocessors/multipart.go the part loop (:42-109): CreateTemp, registration in
                                         FILES_TMPNAMES, io.Copy, deferred Close
     internal/bodyprocessors/{urlencoded,json,raw}.go  read everything, then parse
     internal/auditlog/serial_writer.go, concurrent_writer.go   which write errors come back

   The real file system and kernel are oracles: every file-system operation asks a FAULT SCHEDULE
   (a function of the operation's description: global counter, API-call index, kind, target class,
   offset, length) whether it fails, and how far a failing write got.  The third-party parsers
   (mime/multipart, gjson) enter as the Section variable [parse].  Theorems quantify over every
   schedule, every parser and every call list. *)
From Verif Require Import Base.
Local Open Scope nat_scope.

(* ------------------------------------------------------------------------------------------ *)
(* file-system operations and fault schedules                                                  *)
(* ------------------------------------------------------------------------------------------ *)

Inductive opkind := OCreate | OWrite | ORead | OClose | ORemove.

(* which file the operation is about *)
Inductive target :=
  | TSpill          (* request body spill file  (TmpDir/body-star)    *)
  | TUpload         (* multipart upload file    (UploadDir/crzmp-star) *)
  | TSpillAudit     (* the same spill file, read back for audit part C            *)
  | TAuditSerial    (* the serial audit log                            *)
  | TAuditRec       (* concurrent writer: directory + per-transaction record file *)
  | TAuditIdx.      (* concurrent writer: index line                   *)

Record opinfo := mkop {
  oi_ctr  : nat;      (* global operation counter *)
  oi_call : nat;      (* index of the API call (Close = number of calls) *)
  oi_kind : opkind;
  oi_tgt  : target;
  oi_off  : nat;      (* writes: file offset; Remove of an upload: its position in FILES_TMPNAMES *)
  oi_len  : nat       (* writes: number of bytes *)
}.

(* None: the operation succeeds.  Some k: it fails; a failing write got k bytes out first
   (short write then error), a failing Remove with k > 0 means "the file is already gone". *)
Definition sched := opinfo -> option nat.

Definition opkind_eqb (a b : opkind) : bool :=
  match a, b with
  | OCreate, OCreate | OWrite, OWrite | ORead, ORead | OClose, OClose | ORemove, ORemove => true
  | _, _ => false
  end.

Definition target_eqb (a b : target) : bool :=
  match a, b with
  | TSpill, TSpill | TUpload, TUpload | TSpillAudit, TSpillAudit | TAuditSerial, TAuditSerial
  | TAuditRec, TAuditRec | TAuditIdx, TAuditIdx => true
  | _, _ => false
  end.

(* ------------------------------------------------------------------------------------------ *)
(* file system state                                                                           *)
(* ------------------------------------------------------------------------------------------ *)

Inductive dir := DTmp | DUpload.

Record file := mkfile { f_id : nat; f_dir : dir; f_data : bytes }.

Record fsys := mkfs {
  fs_files : list file;     (* live files, in creation order *)
  fs_next  : nat;           (* next fresh file id *)
  fs_open  : list nat       (* ids of open handles *)
}.

Definition dir_eqb (a b : dir) : bool :=
  match a, b with DTmp, DTmp | DUpload, DUpload => true | _, _ => false end.

Definition file_len (id : nat) (l : list file) : nat :=
  match find (fun f => f_id f =? id) l with Some f => length (f_data f) | None => 0 end.

Definition file_data (id : nat) (l : list file) : bytes :=
  match find (fun f => f_id f =? id) l with Some f => f_data f | None => [] end.

Definition append_file (id : nat) (d : bytes) (l : list file) : list file :=
  map (fun f => if f_id f =? id then mkfile (f_id f) (f_dir f) (f_data f ++ d) else f) l.

Definition drop_file (id : nat) (l : list file) : list file :=
  filter (fun f => negb (f_id f =? id)) l.

Definition drop_nat (id : nat) (l : list nat) : list nat :=
  filter (fun x => negb (x =? id)) l.

(* ------------------------------------------------------------------------------------------ *)
(* transaction state                                                                           *)
(* ------------------------------------------------------------------------------------------ *)

Record bbuf := mkbb {
  bb_mem    : bytes;          (* bytes.Buffer *)
  bb_len    : nat;            (* length *)
  bb_writer : option nat      (* spill file (its handle is open) *)
}.

Definition bb_init : bbuf := mkbb [] 0 None.

Record txs := mktx {
  t_phase    : nat;           (* lastPhase *)
  t_buf      : bbuf;          (* requestBodyBuffer *)
  t_intr     : bool;          (* interruption <> nil *)
  t_inbound  : bool;          (* INBOUND_DATA_ERROR = 1 *)
  t_rberr    : bool;          (* REQBODY_ERROR = 1 *)
  t_rbperr   : bool;          (* REQBODY_PROCESSOR_ERROR = 1 *)
  t_mpstrict : bool;          (* MULTIPART_STRICT_ERROR = 1 *)
  t_tmpnames : list nat;      (* FILES_TMPNAMES *)
  t_nfiles   : nat;           (* number of entries of FILES *)
  t_p2       : nat;           (* TX.p: how many times the phase-2 rules ran *)
  t_e        : bool;          (* TX.e: the phase-2 rule REQBODY_ERROR @eq 1 matched *)
  t_relevant : bool           (* hasLogRelevantMatchedRules *)
}.

Definition tx_init : txs := mktx 0 bb_init false false false false false [] 0 0 false false.

(* debug-log entries of level Error / Warn the transaction writes *)
Inductive logmsg :=
  | LgProc       (* Error "Failed to process request body" *)
  | LgAudit      (* Error "Failed to write audit log" *)
  | LgAuditBody  (* Error "Failed to read the request body for the audit log" (802b513) *)
  | LgPre        (* Error "Calling Process... but there is a preexisting interruption" *)
  | LgAlready    (* Error "ProcessRequestHeaders has already been called" *)
  | LgAnom       (* Warn  "Skipping anomalous call to ProcessRequestBody..." *)
  | LgReject     (* Warn  "Disrupting transaction with body size above the configured limit" *)
  | LgPartial.   (* Warn  "Processing request body whose size reached the configured limit" *)

Definition logmsg_eqb (a b : logmsg) : bool :=
  match a, b with
  | LgProc, LgProc | LgAudit, LgAudit | LgAuditBody, LgAuditBody | LgPre, LgPre | LgAlready, LgAlready
  | LgAnom, LgAnom | LgReject, LgReject | LgPartial, LgPartial => true
  | _, _ => false
  end.

Record world := mkw {
  w_fs     : fsys;
  w_tx     : txs;
  w_ctr    : nat;             (* operation counter *)
  w_call   : nat;             (* index of the current API call *)
  w_faults : list opinfo;     (* ghost: operations that failed during the current call, newest first *)
  w_all    : list opinfo;     (* ghost: every operation that failed so far, newest first *)
  w_log    : list logmsg      (* Error/Warn debug-log entries of the current call, newest first *)
}.

Definition set_fs (f : fsys) (w : world) : world :=
  mkw f (w_tx w) (w_ctr w) (w_call w) (w_faults w) (w_all w) (w_log w).
Definition set_tx (t : txs) (w : world) : world :=
  mkw (w_fs w) t (w_ctr w) (w_call w) (w_faults w) (w_all w) (w_log w).
Definition add_log (m : logmsg) (w : world) : world :=
  mkw (w_fs w) (w_tx w) (w_ctr w) (w_call w) (w_faults w) (w_all w) (m :: w_log w).

Definition set_buf (b : bbuf) (t : txs) : txs :=
  mktx (t_phase t) b (t_intr t) (t_inbound t) (t_rberr t) (t_rbperr t) (t_mpstrict t)
       (t_tmpnames t) (t_nfiles t) (t_p2 t) (t_e t) (t_relevant t).
Definition set_intr (b : bool) (t : txs) : txs :=
  mktx (t_phase t) (t_buf t) b (t_inbound t) (t_rberr t) (t_rbperr t) (t_mpstrict t)
       (t_tmpnames t) (t_nfiles t) (t_p2 t) (t_e t) (t_relevant t).
Definition set_inbound (t : txs) : txs :=
  mktx (t_phase t) (t_buf t) (t_intr t) true (t_rberr t) (t_rbperr t) (t_mpstrict t)
       (t_tmpnames t) (t_nfiles t) (t_p2 t) (t_e t) (t_relevant t).
Definition set_phase (p : nat) (t : txs) : txs :=
  mktx p (t_buf t) (t_intr t) (t_inbound t) (t_rberr t) (t_rbperr t) (t_mpstrict t)
       (t_tmpnames t) (t_nfiles t) (t_p2 t) (t_e t) (t_relevant t).
(* generateRequestBodyError *)
Definition set_rberr (t : txs) : txs :=
  mktx (t_phase t) (t_buf t) (t_intr t) (t_inbound t) true true (t_mpstrict t)
       (t_tmpnames t) (t_nfiles t) (t_p2 t) (t_e t) (t_relevant t).
Definition set_mpstrict (t : txs) : txs :=
  mktx (t_phase t) (t_buf t) (t_intr t) (t_inbound t) (t_rberr t) (t_rbperr t) true
       (t_tmpnames t) (t_nfiles t) (t_p2 t) (t_e t) (t_relevant t).
Definition add_tmpname (id : nat) (t : txs) : txs :=
  mktx (t_phase t) (t_buf t) (t_intr t) (t_inbound t) (t_rberr t) (t_rbperr t) (t_mpstrict t)
       (t_tmpnames t ++ [id]) (t_nfiles t) (t_p2 t) (t_e t) (t_relevant t).
Definition add_file_entry (t : txs) : txs :=
  mktx (t_phase t) (t_buf t) (t_intr t) (t_inbound t) (t_rberr t) (t_rbperr t) (t_mpstrict t)
       (t_tmpnames t) (S (t_nfiles t)) (t_p2 t) (t_e t) (t_relevant t).

Definition wbuf (w : world) : bbuf := t_buf (w_tx w).
Definition w_set_buf (b : bbuf) (w : world) : world := set_tx (set_buf b (w_tx w)) w.

(* ------------------------------------------------------------------------------------------ *)
(* primitive operations (each consults the schedule exactly once)                              *)
(* ------------------------------------------------------------------------------------------ *)

Definition do_op (S : sched) (k : opkind) (t : target) (off len : nat) (w : world)
  : option nat * world :=
  let o := mkop (w_ctr w) (w_call w) k t off len in
  let r := S o in
  let fl := match r with Some _ => o :: w_faults w | None => w_faults w end in
  let al := match r with Some _ => o :: w_all w | None => w_all w end in
  (r, mkw (w_fs w) (w_tx w) (Datatypes.S (w_ctr w)) (w_call w) fl al (w_log w)).

(* os.CreateTemp: a fresh empty file with an open handle *)
Definition fs_create (S : sched) (t : target) (d : dir) (w : world) : option nat * world :=
  let '(r, w1) := do_op S OCreate t 0 0 w in
  match r with
  | Some _ => (None, w1)
  | None =>
    let fs := w_fs w1 in
    let id := fs_next fs in
    (Some id, set_fs (mkfs (fs_files fs ++ [mkfile id d []]) (Datatypes.S id) (id :: fs_open fs)) w1)
  end.

(* File.Write at the current end of the file; true = no error *)
Definition fs_write (S : sched) (t : target) (id : nat) (data : bytes) (w : world) : bool * world :=
  let off := file_len id (fs_files (w_fs w)) in
  let '(r, w1) := do_op S OWrite t off (length data) w in
  let fs := w_fs w1 in
  match r with
  | Some k => (false, set_fs (mkfs (append_file id (firstn k data) (fs_files fs)) (fs_next fs) (fs_open fs)) w1)
  | None => (true, set_fs (mkfs (append_file id data (fs_files fs)) (fs_next fs) (fs_open fs)) w1)
  end.

(* ReadAt as used by one consumer step; true = no error *)
Definition fs_read (S : sched) (t : target) (w : world) : bool * world :=
  let '(r, w1) := do_op S ORead t 0 0 w in
  (match r with Some _ => false | None => true end, w1).

(* File.Close: the handle is released whether or not an error is reported *)
Definition fs_close (S : sched) (t : target) (id : nat) (w : world) : bool * world :=
  let '(r, w1) := do_op S OClose t 0 0 w in
  let fs := w_fs w1 in
  (match r with Some _ => false | None => true end,
   set_fs (mkfs (fs_files fs) (fs_next fs) (drop_nat id (fs_open fs))) w1).

(* os.Remove: a failure with k = 0 leaves the file, with k > 0 the file is already gone *)
Definition fs_remove (S : sched) (t : target) (pos : nat) (id : nat) (w : world) : bool * world :=
  let '(r, w1) := do_op S ORemove t pos 0 w in
  let fs := w_fs w1 in
  match r with
  | Some 0 => (false, w1)
  | Some _ => (false, set_fs (mkfs (drop_file id (fs_files fs)) (fs_next fs) (fs_open fs)) w1)
  | None => (true, set_fs (mkfs (drop_file id (fs_files fs)) (fs_next fs) (fs_open fs)) w1)
  end.

(* ------------------------------------------------------------------------------------------ *)
(* configuration                                                                               *)
(* ------------------------------------------------------------------------------------------ *)

Inductive keepmode := KOff | KRelevant | KOn.
Inductive proc := PNone | PUrl | PJson | PMultipart.
Inductive auditmode := AOff | ASerial | AConcurrent.

Record cfg := mkcfg {
  c_limit   : nat;        (* SecRequestBodyLimit *)
  c_mem     : nat;        (* SecRequestBodyInMemoryLimit *)
  c_reject  : bool;       (* SecRequestBodyLimitAction Reject (false: ProcessPartial) *)
  c_keep    : keepmode;   (* SecUploadKeepFiles *)
  c_proc    : proc;       (* request body processor *)
  c_audit   : auditmode;  (* audit engine Off, or On with the serial / concurrent writer *)
  c_auditc  : bool;       (* SecAuditLogParts contains C (the request body) *)
  c_deny    : nat;        (* 1 / 2: a deny rule in that phase; anything else: none *)
  c_logrule : bool        (* the phase-2 rule on REQBODY_ERROR has "log" (else "nolog") *)
}.

(* the code variants: the current tree is [cur]; the pre-repair forms exist only to document F29 *)
Record variant := mkvar {
  v_reset_fixed : bool;   (* 1eb7c59: Reset removes the spill file even when Close fails *)
  v_mp_fixed    : bool;   (* cd4fc4d: the upload file is registered before the copy *)
  v_audit_fixed : bool;   (* 96c5a47: the audit writers return the error of a failed write *)
  v_auditc_fixed : bool   (* 802b513: AuditLog() reports a failed read-back of the body for part C *)
}.
Definition cur : variant := mkvar true true true true.

(* what the third-party parser reports about the stored body *)
Inductive part := PtField | PtFile (size : nat).
Record presult := mkpr { pr_parts : list part; pr_ok : bool }.

Record ret := mkret { r_err : bool; r_intr : bool }.

(* ------------------------------------------------------------------------------------------ *)
(* BodyBuffer                                                                                  *)
(* ------------------------------------------------------------------------------------------ *)

(* BodyBuffer.Write; true = no error *)
Definition bb_write (S : sched) (c : cfg) (data : bytes) (w : world) : bool * world :=
  let b := wbuf w in
  let d := length data in
  if d =? 0 then (true, w)
  else if c_limit c <? bb_len b + d then (false, w)       (* "limit reached while writing" *)
  else
    let target := bb_len b + d in
    if c_mem c <? target then
      match bb_writer b with
      | None =>
        let '(r, w1) := fs_create S TSpill DTmp w in
        match r with
        | None => (false, w1)
        | Some id =>
          let w2 := w_set_buf (mkbb (bb_mem b) (bb_len b) (Some id)) w1 in
          let '(ok, w3) := fs_write S TSpill id (bb_mem b) w2 in
          if ok then fs_write S TSpill id data (w_set_buf (mkbb [] target (Some id)) w3)
          else (false, w3)
        end
      | Some id => fs_write S TSpill id data (w_set_buf (mkbb (bb_mem b) target (Some id)) w)
      end
    else (true, w_set_buf (mkbb (bb_mem b ++ data) target (bb_writer b)) w).

(* BodyBuffer.Reset; true = no error *)
Definition bb_reset (V : variant) (S : sched) (w : world) : bool * world :=
  let b := wbuf w in
  let w0 := w_set_buf bb_init w in
  match bb_writer b with
  | None => (true, w0)
  | Some id =>
    let '(okc, w1) := fs_close S TSpill id w0 in
    if v_reset_fixed V then
      let '(okr, w2) := fs_remove S TSpill 0 id w1 in
      (okr && okc, w2)
    else if okc then fs_remove S TSpill 0 id w1
    else (false, w1)
  end.

(* the bytes a reader of the buffer gets (memory, or the spill file once there is one) *)
Definition stored_body (w : world) : bytes :=
  match bb_writer (wbuf w) with
  | None => bb_mem (wbuf w)
  | Some id => file_data id (fs_files (w_fs w))
  end.

(* one consumer step of bodyBufferReader.Read: only a spilled body touches the file system *)
Definition body_read (S : sched) (w : world) : bool * world :=
  match bb_writer (wbuf w) with
  | None => (true, w)
  | Some _ => fs_read S TSpill w
  end.

(* ------------------------------------------------------------------------------------------ *)
(* body processors                                                                             *)
(* ------------------------------------------------------------------------------------------ *)

Definition strict (w : world) : world := set_tx (set_mpstrict (w_tx w)) w.

(* multipart part loop; returns (no error, handles still to be closed by the defers, world) *)
Fixpoint mp_loop (V : variant) (S : sched) (parts : list part) (ok : bool) (opened : list nat)
         (w : world) : bool * list nat * world :=
  let '(rd, w0) := body_read S w in                       (* mr.NextPart() *)
  if negb rd then (false, opened, strict w0)
  else
    match parts with
    | [] => if ok then (true, opened, w0) else (false, opened, strict w0)
    | PtField :: rest => mp_loop V S rest ok opened w0
    | PtFile size :: rest =>
      let '(r, w1) := fs_create S TUpload DUpload w0 in
      match r with
      | None => (false, opened, strict w1)
      | Some id =>
        let w2 := if v_mp_fixed V then set_tx (add_tmpname id (w_tx w1)) w1 else w1 in
        let '(okw, w3) := fs_write S TUpload id (repeat 0%N size) w2 in   (* io.Copy(temp, p) *)
        if negb okw then (false, id :: opened, strict w3)
        else
          let w4 := if v_mp_fixed V then w3 else set_tx (add_tmpname id (w_tx w3)) w3 in
          mp_loop V S rest ok (id :: opened) (set_tx (add_file_entry (w_tx w4)) w4)
      end
    end.

(* the deferred temp.Close() calls: their errors are dropped *)
Fixpoint close_all (S : sched) (ids : list nat) (w : world) : world :=
  match ids with
  | [] => w
  | id :: r => close_all S r (snd (fs_close S TUpload id w))
  end.

Section Parser.
Variable parse : bytes -> presult.

(* bodyprocessor.ProcessRequest; true = no error *)
Definition run_processor (V : variant) (S : sched) (c : cfg) (w : world) : bool * world :=
  match c_proc c with
  | PNone => (true, w)
  | PUrl => body_read S w                                  (* io.Copy; ParseQuery never fails *)
  | PJson =>
    let body := stored_body w in
    let '(rd, w1) := body_read S w in
    if rd then (pr_ok (parse body), w1) else (false, w1)
  | PMultipart =>
    let body := stored_body w in
    let '(res, w1) := mp_loop V S (pr_parts (parse body)) (pr_ok (parse body)) [] w in
    (fst res, close_all S (snd res) w1)
  end.

(* Rules.Eval(PhaseRequestBody): rule 1 (REQBODY_ERROR @eq 1, setvar tx.e), rule 2 (tx.p += 1),
   rule 3 (deny) when configured *)
Definition eval2 (c : cfg) (w : world) : world * ret :=
  let t := w_tx w in
  let e := t_e t || t_rberr t in
  let rel := t_relevant t || (t_rberr t && c_logrule c) in
  let intr := c_deny c =? 2 in
  let t' := mktx 2 (t_buf t) intr (t_inbound t) (t_rberr t) (t_rbperr t) (t_mpstrict t)
                 (t_tmpnames t) (t_nfiles t) (S (t_p2 t)) e rel in
  (set_tx t' w, mkret false intr).

(* Transaction.ProcessRequestBody *)
Definition process_body (V : variant) (S : sched) (c : cfg) (w : world) : world * ret :=
  let t := w_tx w in
  if t_intr t then (add_log LgPre w, mkret false true)
  else if negb (t_phase t =? 1) then
    ((if t_phase t =? 2 then w else add_log LgAnom w), mkret false false)
  else if bb_len (t_buf t) =? 0 then eval2 c w
  else
    match c_proc c with
    | PNone => eval2 c w
    | _ =>
      let '(ok, w1) := run_processor V S c w in
      if ok then eval2 c w1
      else eval2 c (set_tx (set_rberr (w_tx w1)) (add_log LgProc w1))
    end.

(* Transaction.ProcessRequestHeaders *)
Definition process_headers (c : cfg) (w : world) : world * ret :=
  let t := w_tx w in
  if 1 <=? t_phase t then (add_log LgAlready w, mkret false (t_intr t))
  else if t_intr t then (add_log LgPre w, mkret false true)
  else
    let intr := c_deny c =? 1 in
    (set_tx (set_intr intr (set_phase 1 t)) w, mkret false intr).

(* Transaction.WriteRequestBody *)
Definition write_body (V : variant) (S : sched) (c : cfg) (data : bytes) (w : world) : world * ret :=
  let t := w_tx w in
  let len := bb_len (t_buf t) in
  if (c_limit c =? len) then (w, mkret false (c_reject c && t_intr t))
  else
    let over := c_limit c <=? len + length data in
    let w1 := if over then set_tx (set_inbound t) w else w in
    if over && c_reject c then
      (add_log LgReject (set_tx (set_intr true (w_tx w1)) w1), mkret false true)
    else
      let n := if over then c_limit c - len else length data in
      let '(ok, w2) := bb_write S c (firstn n data) w1 in
      if negb ok then (w2, mkret true false)
      else if over then
        let '(w3, _) := process_body V S c (add_log LgPartial w2) in
        (w3, mkret false (t_intr (w_tx w3)))
      else (w2, mkret false (t_intr (w_tx w2))).

(* Transaction.ProcessLogging: phase 5, then the audit write; an error of the writer is logged.
   Before 96c5a47 the serial writer (logger.Println) and the concurrent writer's index line
   (log.Printf) dropped the error of the underlying write. *)
Definition audit_result (V : variant) (r : option nat) (w : world) : world :=
  match r with
  | Some _ => if v_audit_fixed V then add_log LgAudit w else w
  | None => w
  end.

(* Transaction.AuditLog(), part C: io.ReadAll of a reader of the request body buffer; the error
   was dropped before 802b513 (the record is written without the body either way) *)
Definition audit_body_read (V : variant) (S : sched) (c : cfg) (w : world) : world :=
  if c_auditc c then
    match bb_writer (wbuf w) with
    | None => w
    | Some _ =>
      let '(ok, w1) := fs_read S TSpillAudit w in
      if ok then w1 else if v_auditc_fixed V then add_log LgAuditBody w1 else w1
    end
  else w.

Definition process_logging (V : variant) (S : sched) (c : cfg) (w : world) : world * ret :=
  let w00 := set_tx (set_phase 5 (w_tx w)) w in
  let w0 := match c_audit c with AOff => w00 | _ => audit_body_read V S c w00 end in
  match c_audit c with
  | AOff => (w0, mkret false false)
  | ASerial =>
    let '(r, w1) := do_op S OWrite TAuditSerial 0 0 w0 in           (* logger.Output *)
    (audit_result V r w1, mkret false false)
  | AConcurrent =>
    let '(r1, w1) := do_op S OCreate TAuditRec 0 0 w0 in            (* os.MkdirAll *)
    match r1 with
    | Some _ => (add_log LgAudit w1, mkret false false)
    | None =>
      let '(r2, w2) := do_op S OWrite TAuditRec 0 0 w1 in           (* os.WriteFile *)
      match r2 with
      | Some _ => (add_log LgAudit w2, mkret false false)
      | None =>
        let '(r3, w3) := do_op S OWrite TAuditIdx 0 0 w2 in         (* the index line *)
        (audit_result V r3 w3, mkret false false)
      end
    end
  end.

(* ------------------------------------------------------------------------------------------ *)
(* Close and the recycling of the object                                                       *)
(* ------------------------------------------------------------------------------------------ *)

Definition keep_files (c : cfg) (t : txs) : bool :=
  match c_keep c with KOn => true | KRelevant => t_relevant t | KOff => false end.

(* the removal loop of Close: EVERY entry of FILES_TMPNAMES is tried, every error is collected;
   [pos] is the position of the head of [ids] in FILES_TMPNAMES *)
Fixpoint remove_from (S : sched) (pos : nat) (ids : list nat) (w : world) : bool * world :=
  match ids with
  | [] => (true, w)
  | id :: r =>
    let '(ok1, w1) := fs_remove S TUpload pos id w in
    let '(ok2, w2) := remove_from S (Datatypes.S pos) r w1 in
    (ok1 && ok2, w2)
  end.
Definition remove_all (S : sched) (ids : list nat) (w : world) : bool * world := remove_from S 0 ids w.

(* variables.reset(): every collection and TX variable; lastPhase, the interruption and the
   matched rules stay until newTransaction *)
Definition reset_vars (t : txs) : txs :=
  mktx (t_phase t) (t_buf t) (t_intr t) false false false false [] 0 0 false (t_relevant t).

(* Transaction.Close; true = nil error *)
Definition tx_close (V : variant) (S : sched) (c : cfg) (w : world) : bool * world :=
  let t := w_tx w in
  let '(ok1, w1) := if keep_files c t then (true, w) else remove_all S (t_tmpnames t) w in
  let w2 := set_tx (reset_vars (w_tx w1)) w1 in
  let '(ok2, w3) := bb_reset V S w2 in
  (ok1 && ok2, w3).

(* WAF.newTransaction on the pooled object *)
Definition tx_renew (t : txs) : txs :=
  mktx 0 (t_buf t) false (t_inbound t) (t_rberr t) (t_rbperr t) (t_mpstrict t)
       (t_tmpnames t) (t_nfiles t) (t_p2 t) (t_e t) false.

(* ------------------------------------------------------------------------------------------ *)
(* call lists                                                                                  *)
(* ------------------------------------------------------------------------------------------ *)

Inductive call := CHeaders | CWrite (data : bytes) | CProcess | CLogging.

(* the per-call ghost fields start empty; the call index advances afterwards *)
Definition begin_call (w : world) : world :=
  mkw (w_fs w) (w_tx w) (w_ctr w) (w_call w) [] (w_all w) [].
Definition end_call (w : world) : world :=
  mkw (w_fs w) (w_tx w) (w_ctr w) (S (w_call w)) (w_faults w) (w_all w) (w_log w).

Definition step (V : variant) (S : sched) (c : cfg) (k : call) (w : world) : world * ret :=
  let w0 := begin_call w in
  let '(w1, r) :=
    match k with
    | CHeaders => process_headers c w0
    | CWrite d => write_body V S c d w0
    | CProcess => process_body V S c w0
    | CLogging => process_logging V S c w0
    end in
  (end_call w1, r).

(* the world after every call, with what the call returned *)
Fixpoint trace (V : variant) (S : sched) (c : cfg) (l : list call) (w : world) : list (world * ret) :=
  match l with
  | [] => []
  | k :: r => let '(w1, x) := step V S c k w in (w1, x) :: trace V S c r w1
  end.

Fixpoint run (V : variant) (S : sched) (c : cfg) (l : list call) (w : world) : world :=
  match l with
  | [] => w
  | k :: r => run V S c r (fst (step V S c k w))
  end.

(* abandon after the calls of [l], then Close *)
Definition finish (V : variant) (S : sched) (c : cfg) (l : list call) (w : world) : bool * world :=
  tx_close V S c (begin_call (run V S c l w)).

End Parser.

Definition init_world (fs : fsys) : world := mkw fs tx_init 0 0 [] [] [].

(* the failures the code drops on the floor: the deferred Close of an upload file
   (multipart.go: defer temp.Close()); before the repairs also the audit writes and the
   read-back of the body for audit part C *)
Definition swallowed (V : variant) (o : opinfo) : bool :=
  (target_eqb (oi_tgt o) TUpload && opkind_eqb (oi_kind o) OClose)
  || (negb (v_audit_fixed V) && (target_eqb (oi_tgt o) TAuditSerial || target_eqb (oi_tgt o) TAuditIdx))
  || (negb (v_auditc_fixed V) && target_eqb (oi_tgt o) TSpillAudit).

(* the operations whose failure means that the body was not (fully) read or stored for inspection *)
Definition body_fault (o : opinfo) : bool :=
  (target_eqb (oi_tgt o) TSpill && opkind_eqb (oi_kind o) ORead)
  || (target_eqb (oi_tgt o) TUpload && (opkind_eqb (oi_kind o) OCreate || opkind_eqb (oi_kind o) OWrite)).
