(* HttpProofs.v — proofs about the middleware model Http.v (property C18). *)
From Coq Require Import String.
From Verif Require Import Base Http.
Open Scope N_scope.

(* ------------------------------------------------------------------ request-phase blocking *)
Lemma request_block_holds : forall cfg sk body ops it,
  c_engine cfg <> EOff ->
  mw_request cfg body = RBlocked it ->
  let r := wrap_handler cfg sk body ops in
  r_invoked r = false /\ r_read r = [] /\ r_intr r = Some it /\
  cl_body (client_of sk (r_ds r)) = [] /\
  d_trace (r_ds r) = [DHeader (status_of it 200) []] /\
  (is_info (status_of it 200) = false -> cl_status (client_of sk (r_ds r)) = status_of it 200).
Proof.
  intros cfg sk body ops it Hoff Hreq r. subst r. unfold wrap_handler.
  destruct (c_engine cfg) eqn:E; try congruence; rewrite Hreq; cbn.
  all: repeat split; try reflexivity.
  all: unfold client_of, ds_finish, ds_implicit, ds_write_header; cbn;
       destruct (sk && is_info (status_of it 200)) eqn:F; cbn; try reflexivity.
  all: try (intros Hi; rewrite Hi in F; rewrite Bool.andb_false_r in F; discriminate).
  all: rewrite ?Bool.andb_false_r; cbn; try reflexivity.
  all: try (intros Hi; rewrite Hi in F; rewrite Bool.andb_false_r in F; discriminate).
Qed.
