package main

import (
	"fmt"
	"go/ast"
	"go/token"
	"os"
	"path/filepath"
	"strings"
)

func init() { extractors["C05"] = factsC05 }

// factsC05 extracts, from internal/corazawaf:
//   - the field list of Transaction
//   - the fields (*WAF).newTransaction assigns on every call / only when the object is brand new
//     (inside `if tx.requestBodyBuffer == nil { ... }`)
//   - the field list of TransactionVariables with the Go type of each field
//   - the fields NewTransactionVariables constructs, the fields All() visits, the fields the
//     Collection() switch returns
//   - which collection types have a Reset method (internal/collections)
//   - the variables that newTransaction (re)assigns a default to on every call
func factsC05(repo, out string) error {
	p, err := parseDir(filepath.Join(repo, "internal", "corazawaf"))
	if err != nil {
		return err
	}
	txs := p.findStruct("Transaction")
	tvs := p.findStruct("TransactionVariables")
	if txs == nil || tvs == nil {
		return fmt.Errorf("Transaction / TransactionVariables struct not found")
	}
	var txFields []string
	for _, f := range txs.Fields.List {
		for _, n := range f.Names {
			txFields = append(txFields, n.Name)
		}
	}
	var tvFields, tvTypes []string
	for _, f := range tvs.Fields.List {
		for _, n := range f.Names {
			tvFields = append(tvFields, n.Name)
			tvTypes = append(tvTypes, p.src(f.Type))
		}
	}

	nt, _ := p.findFunc("WAF", "newTransaction")
	if nt == nil {
		return fmt.Errorf("(*WAF).newTransaction not found")
	}
	var always, firstOnly, varDefaults []string
	var walk func(stmts []ast.Stmt, first bool)
	record := func(lhs ast.Expr, first bool) {
		// tx.F = ...   |  tx.variables.f.Set(...)
		if se, ok := lhs.(*ast.SelectorExpr); ok {
			if id, ok := se.X.(*ast.Ident); ok && id.Name == "tx" {
				if first {
					firstOnly = append(firstOnly, se.Sel.Name)
				} else {
					always = append(always, se.Sel.Name)
				}
			}
		}
	}
	walk = func(stmts []ast.Stmt, first bool) {
		for _, s := range stmts {
			switch st := s.(type) {
			case *ast.AssignStmt:
				if st.Tok == token.ASSIGN {
					for _, l := range st.Lhs {
						record(l, first)
					}
				}
			case *ast.IfStmt:
				cond := p.src(st.Cond)
				isFirst := first || strings.Contains(cond, "tx.requestBodyBuffer == nil")
				walk(st.Body.List, isFirst)
				if st.Else != nil {
					if b, ok := st.Else.(*ast.BlockStmt); ok {
						walk(b.List, first)
					}
				}
			case *ast.ForStmt:
				walk(st.Body.List, first)
			case *ast.ExprStmt:
				// tx.variables.<f>.Set(...) or tx.setTimeVariables()
				if ce, ok := st.X.(*ast.CallExpr); ok {
					txt := p.src(ce.Fun)
					if strings.HasPrefix(txt, "tx.variables.") && strings.HasSuffix(txt, ".Set") {
						varDefaults = append(varDefaults, strings.TrimSuffix(strings.TrimPrefix(txt, "tx.variables."), ".Set"))
					}
					if txt == "tx.setTimeVariables" {
						if stv, _ := p.findFunc("Transaction", "setTimeVariables"); stv != nil {
							ast.Inspect(stv.Body, func(n ast.Node) bool {
								if c, ok := n.(*ast.CallExpr); ok {
									t := p.src(c.Fun)
									if strings.HasPrefix(t, "tx.variables.") && strings.HasSuffix(t, ".Set") {
										varDefaults = append(varDefaults, strings.TrimSuffix(strings.TrimPrefix(t, "tx.variables."), ".Set"))
									}
								}
								return true
							})
						}
					}
				}
			}
		}
	}
	walk(nt.Body.List, false)

	// NewTransactionVariables: v.f = ...
	var constructed []string
	if ntv, _ := p.findFunc("", "NewTransactionVariables"); ntv != nil {
		ast.Inspect(ntv.Body, func(n ast.Node) bool {
			if as, ok := n.(*ast.AssignStmt); ok {
				for _, l := range as.Lhs {
					if se, ok := l.(*ast.SelectorExpr); ok {
						if id, ok := se.X.(*ast.Ident); ok && id.Name == "v" {
							constructed = append(constructed, se.Sel.Name)
						}
					}
				}
			}
			return true
		})
	} else {
		return fmt.Errorf("NewTransactionVariables not found")
	}
	// All(): f(variables.X, v.f)
	var visited []string
	if all, _ := p.findFunc("TransactionVariables", "All"); all != nil {
		ast.Inspect(all.Body, func(n ast.Node) bool {
			if ce, ok := n.(*ast.CallExpr); ok {
				if id, ok := ce.Fun.(*ast.Ident); ok && id.Name == "f" && len(ce.Args) == 2 {
					if se, ok := ce.Args[1].(*ast.SelectorExpr); ok {
						visited = append(visited, se.Sel.Name)
					}
				}
			}
			return true
		})
	} else {
		return fmt.Errorf("(*TransactionVariables).All not found")
	}
	// reset(): must be "v.All(... r.Reset() ...)"
	resetViaAll := false
	if rs, _ := p.findFunc("TransactionVariables", "reset"); rs != nil {
		txt := p.src(rs.Body)
		resetViaAll = strings.Contains(txt, "v.All(") && strings.Contains(txt, ".Reset()")
	}
	// Close(): calls tx.variables.reset(), both buffers' Reset, and Put — on EVERY path: each call must be a
	// top-level statement of Close (an expression statement, a defer, or the init of a top-level `if err := ...`)
	// and no return statement (outside function literals) may precede it
	closeFacts := []string{}
	if cl, _ := p.findFunc("Transaction", "Close"); cl != nil {
		var returns []token.Pos
		var walk func(n ast.Node) bool
		walk = func(n ast.Node) bool {
			switch x := n.(type) {
			case *ast.FuncLit:
				return false
			case *ast.ReturnStmt:
				returns = append(returns, x.Pos())
			}
			return true
		}
		ast.Inspect(cl.Body, walk)
		for _, want := range []string{"tx.variables.reset()", "tx.requestBodyBuffer.Reset()", "tx.responseBodyBuffer.Reset()", "tx.WAF.txPool.Put(tx)"} {
			for _, st := range cl.Body.List {
				var call ast.Expr
				switch x := st.(type) {
				case *ast.ExprStmt:
					call = x.X
				case *ast.DeferStmt:
					call = x.Call
				case *ast.IfStmt:
					if as, ok := x.Init.(*ast.AssignStmt); ok && len(as.Rhs) == 1 {
						call = as.Rhs[0]
					}
				}
				if call == nil || p.src(call) != want {
					continue
				}
				early := false
				for _, r := range returns {
					if r < st.Pos() {
						early = true
					}
				}
				if !early {
					closeFacts = append(closeFacts, want)
				}
			}
		}
	}
	// Eval(): clears the transformation cache at the start of every phase
	evalClears := false
	if ev, _ := p.findFunc("RuleGroup", "Eval"); ev != nil {
		txt := p.src(ev.Body)
		evalClears = strings.Contains(txt, "clear(tx.transformationCache)") || strings.Contains(txt, "delete(tx.transformationCache") ||
			(strings.Contains(txt, "transformationCache := tx.transformationCache") &&
				(strings.Contains(txt, "delete(transformationCache, k)") || strings.Contains(txt, "clear(transformationCache)")))
	}

	// collection types with a Reset method
	cp, err := parseDir(filepath.Join(repo, "internal", "collections"))
	if err != nil {
		return err
	}
	var resetTypes []string
	for _, f := range cp.files {
		for _, d := range f.Decls {
			if fd, ok := d.(*ast.FuncDecl); ok && fd.Name.Name == "Reset" && fd.Recv != nil && len(fd.Recv.List) == 1 {
				resetTypes = append(resetTypes, "*collections."+strings.TrimPrefix(cp.src(fd.Recv.List[0].Type), "*"))
			}
		}
	}

	// the view collections the model treats as stateless (Pool.stateless_types): their struct fields
	viewNames := map[string]bool{"SizeCollection": true, "ConcatKeyed": true, "ConcatCollection": true, "NamedCollectionNames": true}
	var viewFields []string
	for _, f := range cp.files {
		for _, d := range f.Decls {
			gd, ok := d.(*ast.GenDecl)
			if !ok {
				continue
			}
			for _, sp := range gd.Specs {
				ts, ok := sp.(*ast.TypeSpec)
				if !ok || !viewNames[ts.Name.Name] {
					continue
				}
				st, ok := ts.Type.(*ast.StructType)
				if !ok {
					continue
				}
				for _, fl := range st.Fields.List {
					names := []string{"<embedded>"}
					if len(fl.Names) > 0 {
						names = nil
						for _, n := range fl.Names {
							names = append(names, n.Name)
						}
					}
					for _, n := range names {
						viewFields = append(viewFields, "("+coqStr(ts.Name.Name+"."+n)+", "+coqStr(strings.Join(strings.Fields(cp.src(fl.Type)), ""))+")")
					}
				}
			}
		}
	}

	var b strings.Builder
	b.WriteString("(* GENERATED by verif-facts C05 from " + repo + "/internal/corazawaf — do not edit *)\n")
	b.WriteString("From Coq Require Import String List Bool.\nFrom Verif Require Import Pool PoolProofs.\nImport ListNotations.\nOpen Scope string_scope.\n\n")
	fmt.Fprintf(&b, "Definition tx_fields : list string := %s.\n", coqStrList(txFields))
	fmt.Fprintf(&b, "Definition tx_assigned_always : list string := %s.\n", coqStrList(uniq(always)))
	fmt.Fprintf(&b, "Definition tx_assigned_first_only : list string := %s.\n", coqStrList(uniq(firstOnly)))
	fmt.Fprintf(&b, "Definition var_fields : list string := %s.\n", coqStrList(tvFields))
	pairs := make([]string, len(tvFields))
	for i := range tvFields {
		pairs[i] = "(" + coqStr(tvFields[i]) + ", " + coqStr(tvTypes[i]) + ")"
	}
	fmt.Fprintf(&b, "Definition var_types : list (string * string) := [%s].\n", strings.Join(pairs, "; "))
	fmt.Fprintf(&b, "Definition var_constructed : list string := %s.\n", coqStrList(uniq(constructed)))
	fmt.Fprintf(&b, "Definition var_visited_by_All : list string := %s.\n", coqStrList(uniq(visited)))
	fmt.Fprintf(&b, "Definition var_defaults_every_time : list string := %s.\n", coqStrList(uniq(varDefaults)))
	fmt.Fprintf(&b, "Definition types_with_Reset : list string := %s.\n", coqStrList(uniq(resetTypes)))
	fmt.Fprintf(&b, "Definition reset_goes_through_All : bool := %v.\n", resetViaAll)
	fmt.Fprintf(&b, "Definition close_calls : list string := %s.\n", coqStrList(closeFacts))
	fmt.Fprintf(&b, "Definition eval_clears_transformation_cache : bool := %v.\n", evalClears)
	fmt.Fprintf(&b, "Definition view_struct_fields : list (string * string) := [%s].\n\n", strings.Join(viewFields, "; "))
	b.WriteString(`Definition src : Pool.source_facts :=
  {| Pool.sf_tx_fields := tx_fields;
     Pool.sf_assigned_always := tx_assigned_always;
     Pool.sf_assigned_first_only := tx_assigned_first_only;
     Pool.sf_var_types := var_types;
     Pool.sf_var_constructed := var_constructed;
     Pool.sf_var_visited := var_visited_by_All;
     Pool.sf_var_defaults := var_defaults_every_time;
     Pool.sf_types_with_reset := types_with_Reset;
     Pool.sf_reset_via_all := reset_goes_through_All;
     Pool.sf_close_calls := close_calls;
     Pool.sf_eval_clears_cache := eval_clears_transformation_cache |}.

(* every Transaction field is re-assigned by newTransaction on every call, or is one of the four
   containers whose content is cleared by Close / Eval *)
Theorem tx_fields_reinitialised : Pool.tx_fields_ok src = true.
Proof. vm_compute. reflexivity. Qed.

(* every stateful TransactionVariables field is constructed, and visited by All (hence reset) *)
Theorem variables_all_complete : Pool.var_fields_ok src = true.
Proof. vm_compute. reflexivity. Qed.

(* Close resets variables and both buffers and returns the object to the pool; reset iterates All;
   Eval clears the transformation cache *)
Theorem close_structure : Pool.close_ok src = true.
Proof. vm_compute. reflexivity. Qed.

(* the view collections (sizes, names, concatenations) hold references to other collections and their
   variable id only: nothing of their own that a transaction could leave behind (no Reset needed) *)
Theorem views_hold_no_state : Pool.views_ok view_struct_fields = true.
Proof. vm_compute. reflexivity. Qed.

(* the parametric isolation theorem of PoolProofs.v, instantiated with what the source says now *)
Theorem C05_recycled_equals_fresh_src :
  forall (w : Pool.waf_defaults) (o : Pool.obj) (f : string),
    Pool.observable src f = true ->
    Pool.new_transaction src w (Pool.close src o) f = Pool.new_transaction src w Pool.brand_new f.
Proof.
  exact (PoolProofs.recycled_equals_fresh src tx_fields_reinitialised variables_all_complete close_structure).
Qed.
Print Assumptions C05_recycled_equals_fresh_src.
`)
	return os.WriteFile(filepath.Join(out, "FactsC05.v"), []byte(b.String()), 0o644)
}
