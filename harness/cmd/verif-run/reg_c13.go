//go:build verif_all || verif_c13

package main

import _ "github.com/corazawaf/coraza/v3/verifharness/c13"
