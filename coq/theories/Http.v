(* Http.v — executable model of Coraza's net/http middleware (property C18).

   Modelled line by line:
     http/middleware.go    processRequest, WrapHandler, obtainStatusCodeFromInterruptionOrDefault
     http/interceptor.go   rwInterceptor.WriteHeader / flushWriteHeader / cleanHeaders / Write /
                           ReadFrom / Flush / writeBufferedResponseBodyToDownstream, wrap's
                           responseProcessor closure
     internal/corazawaf/transaction.go
                           ReadRequestBodyFrom (reader without Len), ProcessRequestBody (phase guard),
                           ProcessResponseHeaders, IsResponseBodyProcessable, WriteResponseBody,
                           ProcessResponseBody, setAndReturnBodyLimitInterruption, AddResponseHeader
                           (content type), Interrupt (engine mode)
     waf.go                DetectionOnly forces both limit actions to ProcessPartial

   Oracles (not modelled, enter as functions of the configuration record): what the rules of
   phase 1-4 decide on the data the middleware handed to the transaction.
   The downstream http.ResponseWriter is modelled twice: strict (net/http's server: 1xx are
   informational, 1xx/204/304 carry no body, a declared Content-Length is enforced) and lenient
   (httptest.ResponseRecorder: first WriteHeader wins, every byte is kept). *)
From Coq Require Import String.
From Verif Require Import Base.
Open Scope N_scope.

Definition blen (b : bytes) : N := N.of_nat (length b).

(* firstn / skipn with a binary counter (limits are N) *)
Fixpoint takeN (n : N) (l : bytes) : bytes :=
  match l with
  | [] => []
  | x :: r => if n =? 0 then [] else x :: takeN (n - 1) r
  end.
Fixpoint dropN (n : N) (l : bytes) : bytes :=
  match l with
  | [] => []
  | x :: r => if n =? 0 then l else dropN (n - 1) r
  end.

Definition bytes_nil (b : bytes) : bool := match b with [] => true | _ => false end.

(* ---------------------------------------------------------------- headers (http.Header) *)
Definition headers := list (bytes * list bytes).

Fixpoint h_get (k : bytes) (h : headers) : list bytes :=
  match h with
  | [] => []
  | (k', vs) :: r => if bytes_eqb k k' then vs else h_get k r
  end.
Fixpoint h_del (k : bytes) (h : headers) : headers :=
  match h with
  | [] => []
  | (k', vs) :: r => if bytes_eqb k k' then h_del k r else (k', vs) :: h_del k r
  end.
Definition h_set (k v : bytes) (h : headers) : headers := (k, [v]) :: h_del k h.
Definition h_add (k v : bytes) (h : headers) : headers := (k, h_get k h ++ [v]) :: h_del k h.

Definition K_CL : bytes := str "Content-Length"%string.
Definition K_CT : bytes := str "Content-Type"%string.

(* strings.Cut(value, ";") *)
Fixpoint cut_semi (s : bytes) : bytes :=
  match s with
  | [] => []
  | c :: r => if c =? 59 then [] else c :: cut_semi r
  end.

(* the value tx.variables.responseContentType ends with after the AddResponseHeader loop *)
Definition ct_of (h : headers) : option bytes :=
  match rev (h_get K_CT h) with
  | [] => None
  | v :: _ => Some (cut_semi v)
  end.

Fixpoint parse_dec_acc (s : bytes) (acc : N) : option N :=
  match s with
  | [] => Some acc
  | c :: r => if (48 <=? c) && (c <=? 57) then parse_dec_acc r (10 * acc + (c - 48)) else None
  end.
Definition parse_dec (s : bytes) : option N :=
  match s with [] => None | _ => parse_dec_acc s 0 end.
Definition cl_of (h : headers) : option N :=
  match h_get K_CL h with
  | v :: _ => parse_dec v
  | [] => None
  end.

(* ---------------------------------------------------------------- downstream ResponseWriter *)
Inductive dev :=
  | DHeader (c : N) (h : headers)   (* WriteHeader reached the writer (explicit or implied) *)
  | DBody (b : bytes)               (* bytes accepted by the writer *)
  | DFlush.

Record ds := mkds {
  d_live : headers;        (* the map returned by Header() *)
  d_final : option N;      (* final status once committed *)
  d_snap : headers;        (* headers sent with the final status *)
  d_infos : list N;        (* 1xx informational responses sent before *)
  d_body : bytes;          (* body bytes accepted *)
  d_trace : list dev       (* events, most recent first *)
}.

Definition ds_init : ds := mkds [] None [] [] [] [].

Definition is_info (c : N) : bool := (100 <=? c) && (c <=? 199) && negb (c =? 101).
Definition body_allowed (c : N) : bool :=
  negb (((100 <=? c) && (c <=? 199)) || (c =? 204) || (c =? 304)).

Definition ds_set_live (h : headers) (d : ds) : ds :=
  mkds h (d_final d) (d_snap d) (d_infos d) (d_body d) (d_trace d).

(* sk = true: net/http server semantics; sk = false: httptest.ResponseRecorder semantics *)
Definition ds_write_header (sk : bool) (c : N) (d : ds) : ds :=
  match d_final d with
  | Some _ => d
  | None =>
    if sk && is_info c
    then mkds (d_live d) None (d_snap d) (d_infos d ++ [c]) (d_body d) (DHeader c (d_live d) :: d_trace d)
    else mkds (d_live d) (Some c) (d_live d) (d_infos d) (d_body d) (DHeader c (d_live d) :: d_trace d)
  end.

Definition ds_implicit (sk : bool) (d : ds) : ds :=
  match d_final d with
  | Some _ => d
  | None => ds_write_header sk 200 d
  end.

Definition ds_accepts (sk : bool) (b : bytes) (d : ds) : bool :=
  match d_final d with
  | None => true
  | Some c =>
    if sk then
      body_allowed c &&
      match cl_of (d_snap d) with
      | Some n => blen (d_body d) + blen b <=? n
      | None => true
      end
    else true
  end.

Definition tr_body (b : bytes) (t : list dev) : list dev :=
  match t with
  | DBody x :: r => DBody (x ++ b) :: r
  | _ => DBody b :: t
  end.
Definition tr_flush (t : list dev) : list dev :=
  match t with
  | DFlush :: _ => t
  | _ => DFlush :: t
  end.

Definition ds_append (b : bytes) (d : ds) : ds :=
  if bytes_nil b then d
  else mkds (d_live d) (d_final d) (d_snap d) (d_infos d) (d_body d ++ b) (tr_body b (d_trace d)).

Definition ds_write (sk : bool) (b : bytes) (d : ds) : ds :=
  let d1 := ds_implicit sk d in
  if ds_accepts sk b d1 then ds_append b d1 else d1.

Definition ds_flush (sk : bool) (d : ds) : ds :=
  let d1 := ds_implicit sk d in
  mkds (d_live d1) (d_final d1) (d_snap d1) (d_infos d1) (d_body d1) (tr_flush (d_trace d1)).

(* what the server does when the handler returns *)
Definition ds_finish (sk : bool) (d : ds) : ds := ds_implicit sk d.

Record client := mkclient { cl_status : N; cl_headers : headers; cl_body : bytes; cl_infos : list N }.

Definition client_of (sk : bool) (d : ds) : client :=
  let d' := ds_finish sk d in
  mkclient (match d_final d' with Some c => c | None => 200 end) (d_snap d') (d_body d') (d_infos d').

(* ---------------------------------------------------------------- configuration and oracles *)
Inductive engine := EOn | EDetect | EOff.
Inductive laction := Reject | Partial.
Inductive iaction := ADeny | ADrop | ARedirect.
Record intr := mkintr { in_act : iaction; in_status : N }.

(* what the ctl actions of the rules that matched in one phase set (None = untouched):
   ctl:requestBodyAccess, ctl:requestBodyLimit (honoured up to phase 1), ctl:responseBodyAccess,
   ctl:forceResponseBodyVariable, ctl:responseBodyLimit (honoured up to phase 3) *)
Record ctl := mkctl {
  k_qacc : option bool;
  k_qlim : option N;
  k_racc : option bool;
  k_force : option bool;
  k_rlim : option N
}.
Definition ctl_none : ctl := mkctl None None None None None.

Record config := mkcfg {
  c_engine : engine;
  c_req_access : bool;
  c_req_limit : N;
  c_req_action : laction;
  c_resp_access : bool;
  c_resp_limit : N;
  c_resp_action : laction;
  c_mimes : list bytes;
  c_ph1 : option intr;                          (* phase 1 on connection, URI, request headers *)
  c_ph2 : bytes -> option intr;                 (* phase 2 on the buffered request body *)
  c_ph3 : N -> headers -> option intr;          (* phase 3 on the status and response headers *)
  c_ph4 : N -> headers -> bytes -> option intr; (* phase 4 on the buffered response body *)
  c_ctl1 : ctl;                                 (* ctl actions of the phase-1 rules that matched *)
  c_ctl2 : bytes -> ctl;                        (* ... of phase 2, on the buffered request body *)
  c_ctl3 : N -> headers -> ctl                  (* ... of phase 3, on the status and response headers *)
}.

(* Transaction.RequestBodyAccess / RequestBodyLimit when the body is read (after phase 1) *)
Definition eff_qacc (cfg : config) : bool :=
  match k_qacc (c_ctl1 cfg) with Some b => b | None => c_req_access cfg end.
Definition eff_qlim (cfg : config) : N :=
  match k_qlim (c_ctl1 cfg) with Some n => n | None => c_req_limit cfg end.
(* what the request-body phase gets to see *)
Definition req_buffered (cfg : config) (body : bytes) : bytes :=
  if eff_qacc cfg then takeN (eff_qlim cfg) body else [].

(* Transaction.Interrupt: only engine On records an interruption *)
Definition rule_intr (cfg : config) (o : option intr) : option intr :=
  match c_engine cfg with EOn => o | _ => None end.

(* waf.go: DetectionOnly forces ProcessPartial *)
Definition eff_action (cfg : config) (a : laction) : laction :=
  match c_engine cfg with EDetect => Partial | _ => a end.

(* obtainStatusCodeFromInterruptionOrDefault *)
Definition status_of (it : intr) (dflt : N) : N :=
  match in_act it with
  | ADeny => if in_status it =? 0 then 403 else in_status it
  | _ => dflt
  end.

(* ---------------------------------------------------------------- request side *)
Inductive req_outcome :=
  | RBlocked (it : intr)
  | RPass (view : bytes).     (* what req.Body yields to the handler *)

(* processRequest for an engine that is not Off *)
Definition mw_request (cfg : config) (body : bytes) : req_outcome :=
  match rule_intr cfg (c_ph1 cfg) with
  | Some it => RBlocked it
  | None =>
    if eff_qacc cfg then
      (* ReadRequestBodyFrom: io.CopyN(buffer, req.Body, limit) *)
      let buffered := takeN (eff_qlim cfg) body in
      let rest := dropN (eff_qlim cfg) body in
      if blen buffered =? eff_qlim cfg then
        match eff_action cfg (c_req_action cfg) with
        | Reject => RBlocked (mkintr ADeny 413)
        | Partial =>
          match rule_intr cfg (c_ph2 cfg buffered) with
          | Some it => RBlocked it
          | None => RPass (buffered ++ rest)     (* io.MultiReader(rbr, req.Body) *)
          end
        end
      else
        match rule_intr cfg (c_ph2 cfg buffered) with
        | Some it => RBlocked it
        | None => RPass (buffered ++ rest)
        end
    else
      match rule_intr cfg (c_ph2 cfg []) with
      | Some it => RBlocked it
      | None => RPass body
      end
  end.

(* ---------------------------------------------------------------- transaction, response side *)
Record txs := mktx {
  t_intr : option intr;
  t_last : N;          (* lastPhase *)
  t_rbuf : bytes;      (* responseBodyBuffer *)
  t_ct : bytes;        (* variables.responseContentType *)
  t_code : N;          (* status given to ProcessResponseHeaders *)
  t_hdrs : headers;    (* response headers given to the transaction *)
  t_racc : bool;       (* tx.ResponseBodyAccess *)
  t_force : bool;      (* tx.ForceResponseBodyVariable *)
  t_rlim : N           (* tx.ResponseBodyLimit *)
}.

Definition tx_apply_ctl (k : ctl) (t : txs) : txs :=
  mktx (t_intr t) (t_last t) (t_rbuf t) (t_ct t) (t_code t) (t_hdrs t)
       (match k_racc k with Some b => b | None => t_racc t end)
       (match k_force k with Some b => b | None => t_force t end)
       (match k_rlim k with Some n => n | None => t_rlim t end).

(* the transaction when the handler starts: static settings, then the ctl actions of phases 1 and 2 *)
Definition tx_after_request (cfg : config) (body : bytes) : txs :=
  tx_apply_ctl (c_ctl2 cfg (req_buffered cfg body))
    (tx_apply_ctl (c_ctl1 cfg) (mktx None 2 [] [] 0 [] (c_resp_access cfg) false (c_resp_limit cfg))).

(* IsResponseBodyProcessable, IsResponseBodyAccessible: asked again at every use *)
Definition processable (cfg : config) (t : txs) : bool :=
  t_force t || existsb (bytes_eqb (t_ct t)) (c_mimes cfg).
Definition buffering (cfg : config) (t : txs) : bool := t_racc t && processable cfg t.

(* the AddResponseHeader loop of rwInterceptor.WriteHeader followed by ProcessResponseHeaders *)
Definition tx_resp_headers (cfg : config) (code : N) (live : headers) (t : txs) : txs :=
  let ct := match ct_of live with Some x => x | None => t_ct t end in
  if 3 <=? t_last t then mktx (t_intr t) (t_last t) (t_rbuf t) ct (t_code t) live (t_racc t) (t_force t) (t_rlim t)
  else match t_intr t with
       | Some _ => mktx (t_intr t) (t_last t) (t_rbuf t) ct (t_code t) live (t_racc t) (t_force t) (t_rlim t)
       | None =>
         (* the phase-3 rules run here: their ctl actions decide whether the body will be buffered *)
         tx_apply_ctl (c_ctl3 cfg code live)
           (mktx (rule_intr cfg (c_ph3 cfg code live)) 3 (t_rbuf t) ct code live (t_racc t) (t_force t) (t_rlim t))
       end.

(* ProcessResponseBody *)
Definition tx_resp_body (cfg : config) (t : txs) : txs :=
  match t_intr t with
  | Some _ => t
  | None =>
    if negb (t_last t =? 3) then t
    else
      let data := if buffering cfg t then t_rbuf t else [] in
      mktx (rule_intr cfg (c_ph4 cfg (t_code t) (t_hdrs t) data)) 4 (t_rbuf t) (t_ct t) (t_code t) (t_hdrs t)
           (t_racc t) (t_force t) (t_rlim t)
  end.

Definition tx_set_rbuf (b : bytes) (t : txs) : txs :=
  mktx (t_intr t) (t_last t) b (t_ct t) (t_code t) (t_hdrs t) (t_racc t) (t_force t) (t_rlim t).
Definition tx_set_intr (i : option intr) (t : txs) : txs :=
  mktx i (t_last t) (t_rbuf t) (t_ct t) (t_code t) (t_hdrs t) (t_racc t) (t_force t) (t_rlim t).

(* WriteResponseBody (response body access is on): new state, returned interruption, bytes taken *)
Definition tx_write_resp (cfg : config) (b : bytes) (t : txs) : txs * option intr * N :=
  let lim := t_rlim t in
  let cur := blen (t_rbuf t) in
  let act := eff_action cfg (c_resp_action cfg) in
  if lim =? cur then
    match act with
    | Reject => (t, t_intr t, 0)
    | Partial => (t, None, 0)
    end
  else if lim <=? cur + blen b then
    match act with
    | Reject =>
      let t' := match t_intr t with Some _ => t | None => tx_set_intr (Some (mkintr ADeny 500)) t end in
      (t', t_intr t', 0)
    | Partial =>
      let wb := lim - cur in
      let t1 := tx_set_rbuf (t_rbuf t ++ takeN wb b) t in
      let t2 := tx_resp_body cfg t1 in
      (t2, t_intr t2, wb)
    end
  else (tx_set_rbuf (t_rbuf t ++ b) t, t_intr t, blen b).

(* ---------------------------------------------------------------- rwInterceptor *)
Record ics := mkic {
  i_status : N;
  i_hflushed : bool;    (* isWriteHeaderFlush *)
  i_wrote : bool;       (* wroteHeader *)
  i_released : bool;    (* wroteBufferedBodyToDownstream *)
  i_allow : bool        (* allowFlushing *)
}.
Definition ic_init : ics := mkic 200 false false false false.

Record mws := mkmw { m_tx : txs; m_ic : ics; m_ds : ds }.

Definition mw_start (t0 : txs) : mws := mkmw t0 ic_init ds_init.

Definition ic_flush_header (sk : bool) (m : mws) : mws :=
  let i := m_ic m in
  if i_hflushed i then m
  else mkmw (m_tx m) (mkic (i_status i) true (i_wrote i) (i_released i) (i_allow i))
            (ds_write_header sk (i_status i) (m_ds m)).

(* cleanHeaders; Header().Set("Content-Length","0"); override status; flushWriteHeader *)
Definition ic_block (sk : bool) (it : intr) (m : mws) : mws :=
  let i := m_ic m in
  ic_flush_header sk
    (mkmw (m_tx m)
          (mkic (status_of it (i_status i)) (i_hflushed i) (i_wrote i) (i_released i) (i_allow i))
          (ds_set_live [(K_CL, [str "0"%string])] (m_ds m))).

Definition ic_write_header (cfg : config) (sk : bool) (c : N) (m : mws) : mws :=
  let i := m_ic m in
  if i_wrote i then m
  else
    let t' := tx_resp_headers cfg c (d_live (m_ds m)) (m_tx m) in
    let i1 := mkic c (i_hflushed i) true (i_released i) (i_allow i) in
    match t_intr t' with
    | Some it => ic_block sk it (mkmw t' i1 (m_ds m))
    | None =>
      let m1 := mkmw t' i1 (m_ds m) in
      let m2 := if c =? 101 then ic_flush_header sk m1 else m1 in
      if negb (buffering cfg t')
      then let i2 := m_ic m2 in
           mkmw (m_tx m2) (mkic (i_status i2) (i_hflushed i2) (i_wrote i2) (i_released i2) true) (m_ds m2)
      else m2
    end.

(* writeBufferedResponseBodyToDownstream; io.Copy is one write of the whole buffer *)
Definition ic_release (sk : bool) (m : mws) : mws :=
  if i_released (m_ic m) then m
  else
    let m1 := ic_flush_header sk m in
    let buf := t_rbuf (m_tx m1) in
    let d1 := ds_implicit sk (m_ds m1) in
    let okw := bytes_nil buf || ds_accepts sk buf d1 in
    let i := m_ic m1 in
    mkmw (m_tx m1) (mkic (i_status i) (i_hflushed i) (i_wrote i) okw (i_allow i))
         (if bytes_nil buf then m_ds m1 else ds_write sk buf (m_ds m1)).

Definition mw_set_tx (t : txs) (m : mws) : mws := mkmw t (m_ic m) (m_ds m).
Definition mw_set_ds (d : ds) (m : mws) : mws := mkmw (m_tx m) (m_ic m) d.

Definition ic_write (cfg : config) (sk : bool) (b : bytes) (m : mws) : mws :=
  match t_intr (m_tx m) with
  | Some _ => m
  | None =>
    let m1 := if i_wrote (m_ic m) then m else ic_write_header cfg sk 200 m in
    (* the implicit WriteHeader(200) may have run the response-headers phase: nothing passes then *)
    match t_intr (m_tx m1) with
    | Some _ => m1
    | None =>
    if buffering cfg (m_tx m1) && negb (i_released (m_ic m1)) then
      let '(t', it, n) := tx_write_resp cfg b (m_tx m1) in
      let m2 := mw_set_tx t' m1 in
      match it with
      | Some it => ic_block sk it m2
      | None =>
        if n =? blen b then m2
        else
          let m3 := ic_release sk m2 in
          if i_released (m_ic m3) then mw_set_ds (ds_write sk (dropN n b) (m_ds m3)) m3 else m3
      end
    else
      let m2 := ic_flush_header sk m1 in
      mw_set_ds (ds_write sk b (m_ds m2)) m2
    end
  end.

Definition ic_flush (cfg : config) (sk : bool) (m : mws) : mws :=
  let m1 := if i_wrote (m_ic m) then m else ic_write_header cfg sk 200 m in
  if i_allow (m_ic m1) && i_hflushed (m_ic m1) then mw_set_ds (ds_flush sk (m_ds m1)) m1 else m1.

(* the responseProcessor closure of wrap() *)
Definition ic_finish (cfg : config) (sk : bool) (m : mws) : mws :=
  match t_intr (m_tx m) with
  | Some _ => m
  | None =>
    if buffering cfg (m_tx m) && negb (i_released (m_ic m)) then
      let t' := tx_resp_body cfg (m_tx m) in
      match t_intr t' with
      | Some it => ic_block sk it (mw_set_tx t' m)
      | None => ic_release sk (mw_set_tx t' m)
      end
    else
      let i := m_ic m in
      ic_flush_header sk (mkmw (m_tx m) (mkic (i_status i) (i_hflushed i) (i_wrote i) (i_released i) true) (m_ds m))
  end.

(* ---------------------------------------------------------------- handlers *)
Inductive hop :=
  | HWriteHeader (c : N)
  | HSet (k v : bytes)
  | HAdd (k v : bytes)
  | HDel (k : bytes)
  | HWrite (b : bytes)
  | HFlush
  | HReadFrom (chunks : list bytes)    (* io.Copy into the writer: one Write per chunk *)
  | HRead (n : N)                      (* read up to n bytes of the request body *)
  | HReadAll.

Record hst := mkhst { h_view : bytes; h_read : bytes }.

Definition hst_step (op : hop) (h : hst) : hst :=
  match op with
  | HRead n => mkhst (dropN n (h_view h)) (h_read h ++ takeN n (h_view h))
  | HReadAll => mkhst [] (h_read h ++ h_view h)
  | _ => h
  end.

Definition hdr_step (op : hop) (h : headers) : headers :=
  match op with
  | HSet k v => h_set k v h
  | HAdd k v => h_add k v h
  | HDel k => h_del k h
  | _ => h
  end.

(* the handler talking to the interceptor *)
Definition mw_step (cfg : config) (sk : bool) (m : mws) (op : hop) : mws :=
  match op with
  | HWriteHeader c => ic_write_header cfg sk c m
  | HSet _ _ | HAdd _ _ | HDel _ => mw_set_ds (ds_set_live (hdr_step op (d_live (m_ds m))) (m_ds m)) m
  | HWrite b => ic_write cfg sk b m
  | HFlush => ic_flush cfg sk m
  | HReadFrom cs => fold_left (fun m b => ic_write cfg sk b m) cs m
  | HRead _ | HReadAll => m
  end.

(* the handler talking to the ResponseWriter directly (no middleware) *)
Definition ds_step (sk : bool) (d : ds) (op : hop) : ds :=
  match op with
  | HWriteHeader c => ds_write_header sk c d
  | HSet _ _ | HAdd _ _ | HDel _ => ds_set_live (hdr_step op (d_live d)) d
  | HWrite b => ds_write sk b d
  | HFlush => ds_flush sk d
  | HReadFrom cs => fold_left (fun d b => ds_write sk b d) cs d
  | HRead _ | HReadAll => d
  end.

Definition run_hst (ops : list hop) (view : bytes) : hst :=
  fold_left (fun h op => hst_step op h) ops (mkhst view []).

Definition run_direct (sk : bool) (ops : list hop) : ds := fold_left (ds_step sk) ops ds_init.

Definition run_mw_handler (cfg : config) (sk : bool) (t0 : txs) (ops : list hop) : mws :=
  ic_finish cfg sk (fold_left (mw_step cfg sk) ops (mw_start t0)).

(* ---------------------------------------------------------------- WrapHandler *)
Record result := mkres {
  r_invoked : bool;
  r_read : bytes;             (* bytes the handler obtained from req.Body *)
  r_intr : option intr;       (* tx.Interruption() when the middleware returns *)
  r_ds : ds                   (* the ResponseWriter when the middleware returns *)
}.

Definition wrap_handler (cfg : config) (sk : bool) (body : bytes) (ops : list hop) : result :=
  match c_engine cfg with
  | EOff => mkres true (h_read (run_hst ops body)) None (run_direct sk ops)
  | _ =>
    match mw_request cfg body with
    | RBlocked it => mkres false [] (Some it) (ds_write_header sk (status_of it 200) ds_init)
    | RPass view =>
      let m := run_mw_handler cfg sk (tx_after_request cfg body) ops in
      mkres true (h_read (run_hst ops view)) (t_intr (m_tx m)) (m_ds m)
    end
  end.

(* the unwrapped handler on the same request: the reference for pass-through *)
Definition bare_handler (sk : bool) (body : bytes) (ops : list hop) : result :=
  mkres true (h_read (run_hst ops body)) None (run_direct sk ops).

(* ---------------------------------------------------------------- handler shapes *)
Definition is_hdr_op (op : hop) : bool :=
  match op with HSet _ _ | HAdd _ _ | HDel _ => true | _ => false end.
Definition commits (op : hop) : bool :=
  match op with
  | HWriteHeader _ | HWrite _ | HFlush => true
  | HReadFrom cs => negb (match cs with [] => true | _ => false end)
  | _ => false
  end.
Definition is_wh (op : hop) : bool := match op with HWriteHeader _ => true | _ => false end.

(* no header mutation after the first operation that makes the interceptor record a status *)
Fixpoint no_late_headers (ops : list hop) : bool :=
  match ops with
  | [] => true
  | op :: r => if commits op then forallb (fun o => negb (is_hdr_op o)) r else no_late_headers r
  end.

(* an informational WriteHeader(1xx) is never followed by another WriteHeader *)
Fixpoint no_status_after_info (ops : list hop) : bool :=
  match ops with
  | [] => true
  | HWriteHeader c :: r => (if is_info c then forallb (fun o => negb (is_wh o)) r else true) && no_status_after_info r
  | _ :: r => no_status_after_info r
  end.

(* the handler does not declare a Content-Length of its own *)
Definition touches_cl (op : hop) : bool :=
  match op with
  | HSet k _ | HAdd k _ => bytes_eqb k K_CL
  | _ => false
  end.
Definition no_own_cl (ops : list hop) : bool := forallb (fun o => negb (touches_cl o)) ops.

(* all bytes the handler hands to Write / ReadFrom, in order *)
Fixpoint written (ops : list hop) : bytes :=
  match ops with
  | [] => []
  | HWrite b :: r => b ++ written r
  | HReadFrom cs :: r => concat cs ++ written r
  | _ :: r => written r
  end.

(* ---------------------------------------------------------------- what a handler means, read off its operations *)
(* does a writer whose final status is c keep body bytes (no Content-Length declared) *)
Definition okb (sk : bool) (c : N) : bool := negb (sk && negb (body_allowed c)).

(* the status the operation list commits on a writer (sk = true: 1xx are informational) *)
Fixpoint handler_status (sk : bool) (ops : list hop) : N :=
  match ops with
  | [] => 200
  | HWriteHeader c :: r => if sk && is_info c then handler_status sk r else c
  | HWrite _ :: _ => 200
  | HFlush :: _ => 200
  | HReadFrom (_ :: _) :: _ => 200
  | _ :: r => handler_status sk r
  end.

Definition handler_headers (ops : list hop) : headers := fold_left (fun h op => hdr_step op h) ops [].
